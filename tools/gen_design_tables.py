#!/usr/bin/env python3
"""Regenerates the machine-written part of DESIGN.md (between the AUTO markers) from
known_findings.json, evidence/*.json and seeded/RESULTS.json."""
import json, os, re, glob
ROOT = os.path.dirname(os.path.dirname(os.path.abspath(__file__)))
out = []
k = json.load(open(os.path.join(ROOT, 'known_findings.json')))
out.append('### 10.2 Genuine defects repaired (one `fix:` commit each in /repo; `fixed` entries of known_findings.json)\n')
out.append('| commit | property | check that exposed it | what failed |\n|---|---|---|---|')
for f in k['fixed']:
    out.append('| %s | %s | `%s` | %s |' % (f['commit'], f['property'], f.get('job', ''), f.get('what', f.get('line', '')).replace('|', '\\|')))
out.append('\nFindings recorded rather than repaired (`findings`): %d' % len(k.get('findings', [])))
for f in k.get('findings', []):
    out.append('* %s — %s' % (f['id'], f['what']))
out.append('\n### 10.3 What each claimed check covered on its last run (from evidence/*.json)\n')
out.append('| property | jobs | functions under contract | obligations discharged (proof) | bounded obligations | soft (not counted) | wall s |\n|---|---|---|---|---|---|---|')
for f in sorted(glob.glob(os.path.join(ROOT, 'evidence', 'C*.json'))):
    e = json.load(open(f)); c = e['coverage']
    out.append('| %s | %d | %d | %d / %d | %d / %d | %d | %.0f |' % (e['property_id'], len(c['jobs']), len(c['functions_under_contract']),
               c['discharged'], c['obligations'], c['bounded']['discharged'], c['bounded']['obligations'], c['supporting_facts_not_counted'], e['wall_s']))
def _load(n):
    p_ = os.path.join(ROOT, 'seeded', n)
    return json.load(open(p_)) if os.path.exists(p_) else {}
first = dict(_load('RESULTS_firstpass.json')); first.update(_load('RESULTS_r3_firstpass.json')); first.update(_load('RESULTS_r4_firstpass.json'))
final = dict(_load('RESULTS.json')); final.update(_load('RESULTS_confirm.json'))
keys = sorted(set(first) | set(final))
if keys:
    out.append('\n### 10.4 Seeded changes (independently authored, each validated: applies, builds, suite passes, demo fails) vs. checks\n')
    out.append('`first pass` = outcome of the registered quick check when the seed was first run, before any strengthening; `now` = outcome on the '
               'current machinery (tools/confirm_seeds.py: the detecting job re-run alone where one is known, else the whole check).  '
               'Rows `seed@other property` are cross-checks of a seed against a second property it also touches.\n')
    def own(k): return k.split('@')[0].split('-')[0] == k.split('@')[1]
    def cnt(d, pred):
        c = {}
        for k in keys:
            if pred(k) and k in d:
                o = d[k]['outcome'].split(' ')[0]
                c[o] = c.get(o, 0) + 1
        return ', '.join('%s %d' % kv for kv in sorted(c.items()))
    out.append('Own property, first pass: %s.  Own property, now: %s.\n' % (cnt(first, own), cnt(final, own)))
    out.append('| seed | what it changes (from its notes) | property checked | first pass | now | obligation reported / reason |\n|---|---|---|---|---|---|')
    for key in keys:
        x = final.get(key) or first.get(key)
        notes = ''
        try:
            notes = open(os.path.join(ROOT, 'seeded', x['seed'], 'notes.txt')).read().strip().split('\n')[0][:160]
        except OSError:
            pass
        v = (x.get('violations') or [''])[0]
        m = re.search(r'obligation="([^"]*)"', v)
        u = (x.get('undecided') or [''])[0][:140] or x.get('how', '')
        out.append('| %s | %s | %s | %s | %s | %s |' % (x['seed'], notes.replace('|', '/'), x['prop'], first.get(key, {}).get('outcome', '-'),
                   final.get(key, {}).get('outcome', '-') + (' (thorough)' if final.get(key, {}).get('tier') == 'thorough' else ''),
                   ((m.group(1) if m else u)[:140]).replace('|', '/')))
bf = os.path.join(ROOT, 'benign', 'RESULTS.json')
if os.path.exists(bf):
    b = json.load(open(bf))
    out.append('\n### 10.5 Behaviour-preserving refactorings (false-alarm test, `benign/<k>`, `tools/run_benign.py`)\n')
    out.append('Expected: exit 0 (still proved) or exit 2 (undecided), never exit 1.\n')
    out.append('| change | what it is (from its notes) | property checked | exit | remark |\n|---|---|---|---|---|')
    for key in sorted(b, key=lambda t: (b[t]['change'], b[t]['prop'])):
        x = b[key]
        notes = ''
        try:
            ls = open(os.path.join(ROOT, 'benign', str(x['change']), 'notes.txt')).read().strip().split('\n')
            notes = '; '.join(l.strip() for l in ls[:3])[:200]
        except OSError:
            pass
        rem = ((x.get('violations') or x.get('undecided') or [''])[0])[:150]
        out.append('| %s | %s | %s | %s | %s |' % (x['change'], notes.replace('|', '/'), x['prop'], x['exit'], rem.replace('|', '/')))
txt = '\n'.join(out) + '\n'
p = os.path.join(ROOT, 'DESIGN.md')
s = open(p).read()
B, E = '<!-- AUTO-BEGIN -->', '<!-- AUTO-END -->'
if B in s:
    s = s[:s.index(B) + len(B)] + '\n' + txt + s[s.index(E):]
else:
    i = s.index('### 10.2 Genuine defects repaired so far')
    s = s[:i] + B + '\n' + txt + E + '\n'
open(p, 'w').write(s)
