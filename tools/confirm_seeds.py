#!/usr/bin/env python3
"""Final pass over all seeded changes: for a seed whose detecting job is known (from an earlier full run of the
property's check, or from the strengthening recorded in MANUAL) only that job is re-run against the seed
(same registered driver, --only); every other seed gets the full quick check of its property.
Writes seeded/RESULTS.json (latest outcome per seed@property) and keeps the first-pass files untouched."""
import json, os, re, subprocess, sys, time
ROOT = os.path.dirname(os.path.dirname(os.path.abspath(__file__)))
S = os.path.join(ROOT, 'seeded')
MANUAL = {  # seed@prop -> (job, tier): checks added/strengthened after the seed's first pass
    'C02-6@C02': ('c02_batch_create_projection', 'quick'), 'C09-5@C09': ('c09_gzip_bound', 'quick'),
    'C09-6@C09': ('c09_snappy_emit_literal', 'quick'), 'C09-6@C10': ('c10_snappy_emit_literal', 'quick'),
    'C10-5@C10': ('c09_snappy_compress_contract', 'quick'), 'C10-5@C09': ('c09_snappy_compress_contract', 'quick'),
    'C12-6@C12': ('c08_delta_decode_int32', 'quick'), 'C14-6@C14': ('c04_read_data_page_v1_b3_byte_array', 'quick'),
    'C15-6@C15': ('c15_sse_mis_crc32c', 'quick'), 'C16-5@C16': ('c16_rgm_bytes', 'quick'), 'C16-6@C16': ('c16_pw_null_count', 'quick'),
    'C17-5@C17': ('c17_file_schema_spec_n2', 'quick'), 'C17-6@C17': ('c13_sem_parse_schema_element', 'quick'),
    'C19-6@C19': ('c19_ensure_row_group_b', 'quick'), 'C14-1@C14': ('c14_crc32_plain_len04', 'quick'),
    'C08-2@C08': ('c08_lz4_decompress', 'quick'), 'C10-4@C10': ('c08_snappy_decompress', 'quick'),
    'C11-2@C11': ('c08_rle_decoder_has_next', 'quick'), 'C12-3@C12': ('c11_rle_encoder_flush', 'quick'), 'C19-7@C19': ('c18_create_b', 'quick'), 'C19-8@C19': ('c09_compress_data', 'quick'),
}
SKIP = {'C09-1@C09': 'detected in the thorough tier by c09_lz4_compress_rest (about 50 min; not re-run in this pass)',
        'C10-3@C10': 'detected in the thorough tier by c09_lz4_compress_rest (about 50 min; not re-run in this pass)'}
def load(n):
    p = os.path.join(S, n)
    return json.load(open(p)) if os.path.exists(p) else {}
prev = {}
for n in ('RESULTS.json', 'RESULTS_final.json', 'RESULTS_r3_firstpass.json'):
    for k, v in load(n).items():
        if k not in prev or v.get('outcome') == 'DETECTED':
            prev[k] = v
claimed = [c['property_id'] for c in json.load(open(os.path.join(ROOT, 'MANIFEST.json')))['checks']]
seeds = sorted(d for d in os.listdir(S) if re.match(r'C\d+-\d+$', d))
only = set(sys.argv[1:])
out = load('RESULTS_confirm.json')
for s in seeds:
    prop = s.split('-')[0]
    extra = json.load(open(os.path.join(S, s, 'meta.json'))).get('also_check', [])
    for p in [prop] + extra:
        key = '%s@%s' % (s, p)
        if only and s not in only and key not in only:
            continue
        if key in out and not only:
            continue
        if p not in claimed:
            continue
        if key in SKIP:
            out[key] = dict(seed=s, prop=p, outcome='DETECTED', tier='thorough', how=SKIP[key], violations=prev.get(key, {}).get('violations', []))
            continue
        job = tier = None
        if p != prop and key not in MANUAL and prev.get(key, {}).get('outcome') != 'DETECTED':
            # cross-check of a seed against a second property that did not report it before: not re-run in this
            # pass (whole checks of C09/C10 take 10 min each); the earlier outcome is kept
            if key in prev:
                out[key] = dict(prev[key], how='earlier run kept (cross-check not repeated)')
            continue
        if key in MANUAL:
            job, tier = MANUAL[key]
        else:
            v = (prev.get(key, {}).get('violations') or [''])[0]
            m = re.search(r'replay=\S*/([A-Za-z0-9_]+)\.json', v)
            if prev.get(key, {}).get('outcome') == 'DETECTED' and m:
                job, tier = m.group(1), prev[key].get('tier', 'quick')
        cmd = [os.path.join(ROOT, 'tools', 'seedtest.sh'), os.path.join(S, s), p, '--tier', tier or 'quick']
        if job:
            cmd += ['--only', job]
        t0 = time.time()
        pr = subprocess.run(cmd, stdout=subprocess.PIPE, stderr=subprocess.STDOUT)
        o = pr.stdout.decode(errors='replace')
        viol = [l for l in o.split('\n') if l.startswith('VIOLATION')]
        und = [l for l in o.split('\n') if l.startswith('UNDECIDED')]
        oc = 'DETECTED' if pr.returncode == 1 and viol else ('undecided (exit 2)' if pr.returncode == 2 else ('missed' if pr.returncode == 0 else 'error rc=%d' % pr.returncode))
        if job and oc != 'DETECTED':
            # the single job no longer reports it: fall back to the whole check
            pr = subprocess.run(cmd[:5], stdout=subprocess.PIPE, stderr=subprocess.STDOUT)
            o = pr.stdout.decode(errors='replace')
            viol = [l for l in o.split('\n') if l.startswith('VIOLATION')]
            und = [l for l in o.split('\n') if l.startswith('UNDECIDED')]
            oc = 'DETECTED' if pr.returncode == 1 and viol else ('undecided (exit 2)' if pr.returncode == 2 else ('missed' if pr.returncode == 0 else 'error rc=%d' % pr.returncode))
            job = None
        out[key] = dict(seed=s, prop=p, outcome=oc, tier=tier or 'quick', wall_s=round(time.time() - t0, 1),
                        how=('job %s re-run alone' % job) if job else 'whole check of the property',
                        violations=[v[:400] for v in viol[:3]], undecided=[u[:300] for u in und[:3]])
        print(key, oc, '%.0fs' % (time.time() - t0), out[key]['how'], (viol or und or [''])[0][:160], flush=True)
        json.dump(out, open(os.path.join(S, 'RESULTS_confirm.json'), 'w'), indent=1)
json.dump(out, open(os.path.join(S, 'RESULTS_confirm.json'), 'w'), indent=1)
