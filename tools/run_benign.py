#!/usr/bin/env python3
"""False-alarm test: run the checks of the affected properties against behaviour-preserving refactorings
(benign/<k>/patch.diff, authored independently).  Expected: exit 0 (still proved) or exit 2 (undecided:
drift / contract text no longer matches); exit 1 (VIOLATION) would be a false alarm."""
import json, os, subprocess, sys
ROOT = os.path.dirname(os.path.dirname(os.path.abspath(__file__)))
PROPS = {1: ['C08'], 2: ['C08', 'C10'], 3: ['C08', 'C12'], 4: ['C08', 'C11'], 5: ['C08'], 6: ['C08', 'C11', 'C12'], 7: ['C08', 'C13'],
         8: ['C14'], 9: ['C19'], 10: ['C16'], 11: ['C02'], 12: ['C20']}
rp = os.path.join(ROOT, 'benign', 'RESULTS.json')
res = json.load(open(rp)) if os.path.exists(rp) and sys.argv[1:] else {}
ks = [int(x) for x in sys.argv[1:]] or sorted(PROPS)
for k in ks:
    for p in PROPS[k]:
        pr = subprocess.run([os.path.join(ROOT, 'tools', 'seedtest.sh'), os.path.join(ROOT, 'benign', str(k)), p, '--tier', 'quick'],
                            stdout=subprocess.PIPE, stderr=subprocess.STDOUT)
        out = pr.stdout.decode(errors='replace')
        v = [l[:300] for l in out.split('\n') if l.startswith('VIOLATION')]
        u = [l[:200] for l in out.split('\n') if l.startswith('UNDECIDED')]
        res['%d@%s' % (k, p)] = dict(change=k, prop=p, exit=pr.returncode, violations=v[:3], undecided=u[:3])
        print(k, p, 'exit=%d' % pr.returncode, (v or u or [''])[0][:200], flush=True)
        json.dump(res, open(os.path.join(ROOT, 'benign', 'RESULTS.json'), 'w'), indent=1)
