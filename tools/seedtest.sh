#!/bin/bash
# usage: tools/seedtest.sh <dir with patch.diff> <PROP> [extra cqv args]
# applies the seeded change to /repo's working tree, runs the check, reverts. Never commits.
d=$(realpath $1); p=$2; shift 2
if ! git -C /repo diff --quiet; then echo "repo dirty"; exit 3; fi
if ! git -C /repo apply --3way "$d/patch.diff" 2>/dev/null && ! git -C /repo apply "$d/patch.diff"; then echo "patch does not apply"; exit 3; fi
git -C /repo reset -q 2>/dev/null
timeout 3000 /verif/bin/cqv check $p "$@" 2>&1 | grep -v "^\[$p\] c.* ok " | tail -12
rc=${PIPESTATUS[0]}
git -C /repo checkout -- . && git -C /repo status --short | grep -v _build
echo "exit=$rc"
