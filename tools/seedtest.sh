#!/bin/bash
# usage: tools/seedtest.sh <seed dir with patch.diff> <PROP> [extra cqv args]
# Runs the check of PROP against a scratch worktree of /repo HEAD with the seeded change applied
# (CQV_REPO), so that /repo itself is never modified while other work reads it.  Removes the worktree.
d=$(realpath $1); p=$2; shift 2
wt=/tmp/seedrepo_$$_$(basename $d)
git -C /repo worktree add -q --detach $wt HEAD || exit 3
trap "git -C /repo worktree remove --force $wt >/dev/null 2>&1; rm -rf $wt; git -C /repo worktree prune" EXIT
if ! git -C $wt apply "$d/patch.diff" 2>/dev/null && ! git -C $wt apply --3way "$d/patch.diff" 2>/dev/null && ! patch -d $wt -p1 --fuzz=3 -s < "$d/patch.diff"; then echo "patch does not apply"; exit 3; fi
CQV_REPO=$wt timeout 3400 /verif/bin/cqv check $p "$@" 2>&1 | grep -v "^\[$p\] c.* ok " | tail -15
rc=${PIPESTATUS[0]}
echo "exit=$rc"
exit $rc
