#!/usr/bin/env python3
"""Regenerates /verif/MANIFEST.json from the table below (kept in one place so that the claimed
set, the not_applicable list and the commands never drift apart)."""
import json
import os

ROOT = os.path.dirname(os.path.dirname(os.path.abspath(__file__)))

TECH = 'CBMC code contracts injected into the real sources every run (goto-instrument replace/loop/enforce), SAT/SMT discharge per function'

CLAIMED = {
    # id: (level text, level note)
    'C08': ('Each decoding entry point under contract is proved, for all input bytes, lengths, capacities and '
            'scalar arguments, to access only the two declared objects, to terminate (decreases clauses) and to '
            'report a size <= capacity; callees are replaced by their own proved contracts.',
            'Trusted: CBMC, its memory model (objects <= 2^40 bytes), memcpy/memset contract stubs, zlib/zstd '
            'assumed contracts; pointer-relation idiom p+n>end not counted (A3). Functions not yet under contract '
            'are listed in DESIGN.md section 10.'),
}

CLAIMED['C20'] = (
    'Bloom filter: insert sets exactly the 8 Parquet-spec bits and check is true iff those bits are set (all hashes, all '
    'blocks) hence no false negatives for any insertion history and monotone under merge; block selection equals the '
    'Parquet multiply-shift and is in range for every hash and block count; insert/check/merge/create/from_data/write stay '
    'inside the filter; merge is the byte-wise union (loop contract, ghost index); typed inserts hash the little-endian value '
    'bytes with seed 0. XXH64 == specification XXH64: bounded in input length (each length 0..129 separately), all data and seeds.',
    'Trusted: CBMC + z3/cvc5, spec functions specs/sbbf_spec.h and specs/xxh64_spec.h (written from the format documents), '
    'malloc/calloc model. XXH64 is bounded in length (level bounded, not counted as proved). The serialise/reload and '
    'insertion-history statements follow from these per-function contracts by induction on the history; that induction is on paper (DESIGN 5 C20).')

NA = {
    'C01': 'whole-file write->read history over ~6000 lines, stdio, zlib, zstd: no per-function contract carries it; decidable pieces are claimed under C11/C13',
    'C03': 'relational (observational) equivalence of three I/O stacks incl. libc/mmap; not expressible as contracts on single functions with CBMC',
    'C05': 'needs an independent whole-file reader as oracle (differential), not a contract on carquet functions; structural sub-facts under C13/C14',
    'C06': 'needs an independent whole-file writer as oracle; decoder-side facts under C08/C12',
    'C07': 'CBMC contract machinery is sequential (OpenMP pragmas dropped, no schedule quantifier)',
}

PENDING = ['C02', 'C04', 'C09', 'C10', 'C11', 'C12', 'C13', 'C14', 'C15', 'C16', 'C17', 'C18', 'C19']


def main():
    checks = []
    for pid, (text, note) in sorted(CLAIMED.items()):
        checks.append(dict(
            property_id=pid,
            quick_cmd='bin/cqv check %s --tier quick' % pid,
            thorough_cmd='bin/cqv check %s --tier thorough' % pid,
            evidence_file='evidence/%s.json' % pid,
            replay_cmd_template='bin/cqv replay {path}',
            engine='cqv',
            level_claimed=dict(category='proof', text=text, design_ref='DESIGN.md section 5 (%s)' % pid),
            level_note=note,
            technique=TECH))
    na = [dict(property_id=k, reason=v) for k, v in sorted(NA.items())]
    for p in PENDING:
        if p not in CLAIMED:
            na.append(dict(property_id=p, reason='check not built yet in this round (planned, see DESIGN.md section 5); not claimed until its jobs pass on the unchanged tree'))
    na.sort(key=lambda x: x['property_id'])
    m = dict(
        version=1,
        setup_cmd='python3 tools/selfcheck.py',
        hooks=dict(guard='CARQUET_VERIF',
                   enable='none needed: contracts are injected into a scratch copy of the sources on every run; no guarded code exists in /repo',
                   baseline_off_cmd='cmake -G Ninja -B /repo/_build -S /repo -DCMAKE_BUILD_TYPE=RelWithDebInfo -DCMAKE_C_FLAGS=-Wno-error >/dev/null && cmake --build /repo/_build && ctest --test-dir /repo/_build -j8 --timeout 900',
                   source_commits=[], add_only=True),
        engines=[dict(name='cqv', path='bin/cqv', serves_properties=sorted(CLAIMED),
                      kind_free_text='driver: tools/annotate.py overlay injector + goto-cc/goto-instrument/cbmc 6.11 per job, parallel')],
        checks=checks,
        notes='fix: commits in /repo are listed in known_findings.json (fixed entries). Exit 2 of a check = undecided (timeout/tool error/extraction drift), never a violation.',
        not_applicable=na)
    json.dump(m, open(os.path.join(ROOT, 'MANIFEST.json'), 'w'), indent=1)


if __name__ == '__main__':
    main()
