#!/usr/bin/env python3
"""Regenerates /verif/MANIFEST.json from the table below (kept in one place so that the claimed
set, the not_applicable list and the commands never drift apart)."""
import json
import os

ROOT = os.path.dirname(os.path.dirname(os.path.abspath(__file__)))

TECH = 'CBMC code contracts injected into the real sources every run (goto-instrument replace/loop/enforce), SAT/SMT discharge per function'

CLAIMED = {
    # id: (level text, level note)
    'C08': ('Every decoding entry point under contract is proved, for all input bytes, declared sizes, capacities, counts (negative and huge '
            'included) and bit widths 0..255, to read only inside the input, write only inside the declared output, terminate '
            '(decreases clause per loop) and report a size <= capacity or an error: Snappy / LZ4 decompress, RLE hybrid decoders '
            '(streaming get/get_batch/skip under a decoder representation invariant, decode_all, decode_levels, prefixed), 8-group and '
            'group-loop bit unpackers, varint decoders, bit reader, all PLAIN decoders and the dispatcher, BYTE_STREAM_SPLIT decoders, '
            'dictionary decoders, DELTA_BINARY_PACKED / DELTA_LENGTH / DELTA_BYTE_ARRAY decoders, Thrift reader primitives and thrift_skip, '
            'page-header and metadata sub-parsers, gzip/zstd wrapper logic. Callees are replaced by their own contracts.',
            'Trusted: CBMC, its memory model (objects <= 2^40 bytes), memcpy/memset contract stubs, zlib/zstd assumed contracts, the '
            'assumed contracts listed per job in evidence (e.g. bit unpackers inside the RLE/delta jobs, proved in the bitpack jobs). '
            'Pointer-relation idiom p+n>end not counted (A3). Bounded jobs (fixed widths, small counts) are reported under coverage.bounded. '
            'Functions still without a closed job (list-fill loops of parse_row_group / parse_column_metadata / parse_file_metadata, '
            'SSE path of decode_levels) are named in DESIGN.md section 10.'),
}

CLAIMED['C20'] = (
    'Bloom filter: insert sets exactly the 8 Parquet-spec bits and check is true iff those bits are set (all hashes, all '
    'blocks) hence no false negatives for any insertion history and monotone under merge; block selection equals the '
    'Parquet multiply-shift and is in range for every hash and block count; insert/check/merge/create/from_data/write stay '
    'inside the filter; merge is the byte-wise union (loop contract, ghost index); typed inserts hash the little-endian value '
    'bytes with seed 0. XXH64 == specification XXH64: bounded in input length (each length 0..129 separately), all data and seeds.',
    'Trusted: CBMC + z3/cvc5, spec functions specs/sbbf_spec.h and specs/xxh64_spec.h (written from the format documents), '
    'malloc/calloc model. XXH64 is bounded in length (level bounded, not counted as proved). The serialise/reload and '
    'insertion-history statements follow from these per-function contracts by induction on the history; that induction is on paper (DESIGN 5 C20).')

TEXTS = {
 'C02': ('carquet_read_next_page (per physical type): row accounting (values_read == min(max_values, available), cursors, values_remaining), level slices, 64-bit clamp, and the dense-delivery clause taken from the property (values delivered are the dense slice starting at the number of non-null rows already delivered); carquet_column_read_batch / carquet_column_skip accounting, the batch reader null-bitmap polarity/index, and what carquet_batch_reader_create stores as the projection (by index / by name / none; bounded in length) where their jobs are live. Proof per function over symbolic reader state; page loading replaced by an assumed contract.',
         'Trusted: assumed contract of load_next_page, memcpy recording stubs, CBMC. Not covered: equality of whole batch streams for every batch_size/projection across many calls and pages (history property), FLBA with symbolic type_length.'),
 'C04': ('Function-by-function memory safety / termination of the reader on attacker-controlled metadata: Thrift reader primitives and thrift_skip (bounded recursion depth via ghost depth counter), footer validation on the three open paths (no 32-bit wrap, slice inside the buffer, error struct filled), build_schema / traverse_schema_recursive / count_leaves (work bound by decreases clause, depth <= 256, leaf arrays in bounds via ghost suffix-leaf count), the four page load paths (every offset/size/count checked against file_size before use), carquet_read_dictionary_page, carquet_read_data_page_v1 (bounded), arena allocation, buffer reader.',
         'Trusted: stubs for stdio/mmap, parse/crc/codec callees of the load paths, arena model in schema jobs, CBMC memory model (objects <= 2^40). "Every call sequence on every byte string" as one statement is not expressible; it is decided per function under representation invariants that each producer job establishes or that are listed as assumed.'),
 'C09': ('Bounds half: carquet_snappy_compress (whole function, five obligation slices) writes only inside dst[0..capacity) when capacity >= bound, reports *dst_size <= bound, refuses smaller capacities and inputs >= 4 GiB without any write; snappy_write_varint / emit_literal / emit_copy exact costs; compress_bound arithmetic (snappy, lz4, gzip) exact and overflow free; lz4_count; compress_data allocates exactly the bound and passes it; gzip/zstd wrappers pass whole sizes and capacities (>= 4 GiB refused), clamp levels, end the stream on every path. gzip bound covers the gzip wrapper overhead over compressBound of zlib. carquet_lz4_compress (whole function, seven obligation slices, thorough tier): every write inside dst, result <= bound, a bound-sized buffer always succeeds; its size arithmetic (divisions by 255) is factored into five lemma contracts that are proved for all arguments by the jobs c09_lz4_lemma_* (stepwise chains, cadical). Round trip decompress(compress(x)) == x is not claimed.',
         'Trusted: zlib/zstd assumed contracts, CBMC. The functional inverse through the hash-table matcher is out of reach for contracts without a decoder spec function in loop invariants (stated n/a part).'),
 'C10': ('Emitters against spec parsers written from the format documents: snappy_emit_literal / snappy_emit_copy headers parse to the intended (kind, length, offset) for all lengths/offsets, copy-1 only for 4..11 bytes and 11-bit offsets; every copy emitted by carquet_snappy_compress has an offset and length the format can hold (callee preconditions checked in the whole-function contract slice); LZ4 token / extended length / offset emission and end-of-block rules (structural assertions inside carquet_lz4_compress, thorough tier); LZ4 decoder rejects the invalid forms of the block format (bounded).',
         'Trusted: specs/snappy_spec.h, specs/lz4_spec.h (reading of the format documents). "Accepts every valid stream" is a statement about the decoder as a function on streams: not claimed.'),
 'C11': ('Per-encoding inverse facts, all inputs: 8-value bit pack/unpack inverse for every width 0..32 and specialised unpackers; bitpack_32/bitunpack_32 group loops (byte counts, partial group); varint/zigzag 32/64 inverse with consumed == produced; bit writer/reader; PLAIN encoders append exactly the input bytes; BYTE_STREAM_SPLIT transposition and its converse (per width); RLE encoder count/position preservation with ghost state (G_put, G_emitted, G_pad) through put / put_repeat / flush / encode_all / encode_levels incl. append-failure propagation; delta zigzag/ULEB128/bit-width helpers; streaming RLE decoder: has_next() is true exactly while values are pending or input is left; dictionary builder: a value gets an existing index iff length and bytes are equal (bounded).',
         'Trusted: assumed contracts of carquet_buffer_append and of the 8-group bit packers inside the RLE jobs (the latter proved in the bitpack jobs), CBMC. Whole-stream decode(encode(v)) == v for RLE/DELTA/dictionary and stream-vs-one-shot agreement are not claimed (no decoder spec function in invariants).'),
 'C12': ('Byte layouts against spec functions written from Encodings.md: LSB-first bit layout of every 8-group for widths 1..32 (encoder bytes == spec encoder bytes; decoder == spec decoder on arbitrary bytes), ULEB128 / zigzag forms, RLE run header forms and value bytes, bit-packed run header, no zero-padded literal group before an RLE run (ghost G_pad in put/flush), decoder acceptance of zero-length and multi-group runs in start_new_run, PLAIN little-endian layout, BYTE_STREAM_SPLIT layout, delta header pieces, DELTA_BYTE_ARRAY prefix lengths taken against the immediately preceding value; the one-shot DELTA_BINARY_PACKED decoders fail only when the header parser or a value step failed and INT32 values wrap to 32 bits.',
         'Trusted: specs/*.h. DELTA mini-blocks wider than 32 bits are byte-aligned instead of bit-packed (known finding if listed). Whole-stream independent decoder equivalence is not claimed.'),
 'C13': ('Thrift compact primitives are mutually inverse for all values (varint 1..10 bytes, zigzag i16/i32/i64, double, bool, uuid, binary (bounded payload), field header for every (last id, id, type), list/set/map headers), bytes equal an independent spec encoder, consumed == produced; thrift_skip consumes exactly one encoded value (fixed-width, list/set, map of fixed-width); writers of parquet_types.c emit only (type, id) rows of parquet.thrift for the open struct, ids ascending, required fields present, list headers matching; parser safety of the page-header and metadata sub-parsers.',
         'Trusted: specs/thrift_spec.h, specs/parquet_thrift_table.h, decoder/arena contracts assumed in the ptypes jobs (proved separately in the thrift jobs where live). Struct-level parse(write(x)) == x is not claimed.'),
 'C14': ('Reader: on each of the four load paths a stored CRC that differs from the CRC of exactly compressed_page_size stored bytes yields CRC_MISMATCH before any decompression/decoding, with page state unchanged and nothing leaked; equal/absent/disabled never yields a CRC error. Writer: finalize checksums exactly the bytes appended after the header and writes the crc field iff write_crc. Error-detection lemmas on the bit-serial definition (linearity, zero-input injectivity, 32-bit window) proved; CRC function == bit-serial IEEE definition where the crc32 jobs are live (unbounded through the ghost register and the slicing-by-8 lemma chain; overlay-free bounded cross-checks for lengths 2..7). Verification disabled: the page decoders (carquet_read_data_page_v1 bounded, carquet_read_dictionary_page) stay memory-safe on arbitrary page bodies.',
         'Trusted: stubs of parse/codec/stdio in the page jobs; paper induction combining the burst lemmas; slicing-by-8 block identity if listed as assumed. "Every file, every damage position" is the composition of these contracts, done on paper.'),
 'C15': ('Dispatcher: for every capability mask each slot is non-NULL, in the set the mask allows (ISA subset incl. avx512bw/vl), override order scalar < SSE < AVX2 < AVX-512, idempotent, wrappers pass arguments unchanged. Scalar kernels and SSE4.2 kernels: in-bounds accesses for every count and equality with the definition (ghost index / lockstep ghost), under C models of the body-less SSE builtins.',
         'Trusted: stubs/ia32_model.c (21 builtin models written from the Intel SDM, cross-checked natively against the hardware on 2e6 vectors each), CPUID stub. Of the AVX2/AVX-512 kernels only pack_bools/unpack_bools are under contract (bounded in count 0..130); the other AVX kernels are not (n/a part). Bounded jobs (byte-stream split float, match copy/length, small memset/memcpy, and the alignment quantifier: crc32c / count_non_nulls / build_null_bitmap / find_run_length on buffers starting 0..7 elements into an exactly sized block, count 0..12) are reported under coverage.bounded. Kernel domain for pack_bools is bytes in {0,1}.'),
 'C16': ('row_group_matches: no false negative for every type, operator, probe (NaN included), present/absent new and deprecated fields, short statistics; filter_row_groups: exactly the ascending list of might-match-or-error groups up to the cap; column_statistics pins each (pointer, length) to its Thrift field; builder add_values / add_nulls / build and page-writer update_statistics: true bounds in the type order, NaN ignored, widening only; compare / range_overlaps / page_might_match free of false negatives; the null counter of the page writer across reset and add_values equals the number of rows below the maximum definition level (bounded).',
         'Trusted: memcmp/memcpy exact-for-small stubs, CBMC IEEE model. Byte-array order proved for lengths <= 8 (bounded) plus length-unbounded safety; builder FLBA/INT96 loops not under contract.'),
 'C17': ('Builder add_column / add_group from an arbitrary invariant-satisfying state (no-growth case): counts, leaf index, stored name/type/repetition/type_length/logical type, max_def == (OPTIONAL||REPEATED), max_rep == REPEATED, earlier entries unchanged; node accessors; file schemas by cases: leaf case records def/rep = inherited + own contribution, group case passes the right levels to children (twin contract), build_schema array sizes; whole-tree equality with the textbook definition for element lists of <= 2 elements (overlay-free, bounded); the footer parser stores type / type_length / repetition / name / logical type of a schema element exactly as the file states (one-field semantics job).',
         'Trusted: arena/strcmp/realloc stubs; ghost suffix-leaf count recurrence assumed at the instances used. Growth path of schema_ensure_capacity undecided; whole-tree equality with the textbook definition only case-wise.'),
 'C18': ('Under a failing-stdio model (short fwrite, failing fflush/fclose/fopen/remove): carquet_writer_close returns OK only if no sink call failed and every requested byte was accepted and flushed; write_magic / ensure_header_written / flush_row_group / new_row_group likewise; close/abort/create release every resource exactly once, close the stream iff owned, abort removes the path iff owned; the three open paths accept a footer only with size >= 12, trailing magic, footer length <= size - 8 without 32-bit wrap, slice inside the buffer.',
         'Trusted: stubs/stdio_stubs.c, assumed contracts of row-group writer / metadata serialiser / parser. Writer jobs are bounded in column and row-group count (<= 2) with all sizes symbolic. "No proper prefix ends in a well-formed footer" is a property of file contents: not claimed.'),
 'C19': ('With any subset of allocations failing (CBMC --malloc-may-fail) and leak checking: every buffer.c function (failure leaves the buffer unchanged, success has exactly the specified effect), arena allocation/strdup/memdup/reset/restore (bounded list length), schema add_column/add_group name copy, parquet_types parsers report OUT_OF_MEMORY instead of dereferencing NULL, bloom create/from_data, delta length/strings decoders, page load fread path (no double free), writer create paths, ensure_row_group (no dangling row-group writer after a failed column registration), page writer add_values / finalize report a failed buffer append instead of returning OK, batch reader create.',
         'Trusted: CBMC allocator model. Whole write/read scenarios with a single failing allocation are decided only through these per-function contracts.'),
}

NA = {
    'C01': 'whole-file write->read history over ~6000 lines, stdio, zlib, zstd: no per-function contract carries it; decidable pieces are claimed under C11/C13',
    'C03': 'relational (observational) equivalence of three I/O stacks incl. libc/mmap; not expressible as contracts on single functions with CBMC',
    'C05': 'needs an independent whole-file reader as oracle (differential), not a contract on carquet functions; structural sub-facts under C13/C14',
    'C06': 'needs an independent whole-file writer as oracle; decoder-side facts under C08/C12',
    'C07': 'CBMC contract machinery is sequential (OpenMP pragmas dropped, no schedule quantifier)',
}

ENABLE = ['C02', 'C04', 'C09', 'C10', 'C11', 'C12', 'C13', 'C14', 'C15', 'C16', 'C17', 'C18', 'C19']   # properties whose checks pass on the unchanged tree (filled in as families are integrated)

PENDING = []


ENABLED = sorted(set(list(CLAIMED) + [p for p in TEXTS if os.path.exists(os.path.join(ROOT, 'evidence', p + '.json.ok'))]))


def main():
    for p in TEXTS:
        if p in ENABLE:
            CLAIMED[p] = TEXTS[p]
    checks = []
    for pid, (text, note) in sorted(CLAIMED.items()):
        checks.append(dict(
            property_id=pid,
            quick_cmd='bin/cqv check %s --tier quick' % pid,
            thorough_cmd='bin/cqv check %s --tier thorough' % pid,
            evidence_file='evidence/%s.json' % pid,
            replay_cmd_template='bin/cqv replay {path}',
            engine='cqv',
            level_claimed=dict(category='proof', text=text, design_ref='DESIGN.md section 5 (%s)' % pid),
            level_note=note,
            technique=TECH))
    na = [dict(property_id=k, reason=v) for k, v in sorted(NA.items())]
    for p in PENDING:
        if p not in CLAIMED:
            na.append(dict(property_id=p, reason='check not built yet in this round (planned, see DESIGN.md section 5); not claimed until its jobs pass on the unchanged tree'))
    na.sort(key=lambda x: x['property_id'])
    m = dict(
        version=1,
        setup_cmd='python3 tools/selfcheck.py',
        hooks=dict(guard='CARQUET_VERIF',
                   enable='none needed: contracts are injected into a scratch copy of the sources on every run; no guarded code exists in /repo',
                   baseline_off_cmd='cmake -G Ninja -B /repo/_build -S /repo -DCMAKE_BUILD_TYPE=RelWithDebInfo -DCMAKE_C_FLAGS=-Wno-error >/dev/null && cmake --build /repo/_build && ctest --test-dir /repo/_build -j8 --timeout 900',
                   source_commits=[], add_only=True),
        engines=[dict(name='cqv', path='bin/cqv', serves_properties=sorted(CLAIMED),
                      kind_free_text='driver: tools/annotate.py overlay injector + goto-cc/goto-instrument/cbmc 6.11 per job, parallel')],
        checks=checks,
        notes='fix: commits in /repo are listed in known_findings.json (fixed entries). Exit 2 of a check = undecided (timeout/tool error/extraction drift), never a violation.',
        not_applicable=na)
    json.dump(m, open(os.path.join(ROOT, 'MANIFEST.json'), 'w'), indent=1)


if __name__ == '__main__':
    main()
