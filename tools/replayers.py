"""Native replay of failed obligations against the REAL /repo sources.

kind 'fuzz'  : libFuzzer + ASan/UBSan harness of the entry point(s) the job covers, exact-size heap
               buffers, the property's postcondition as abort(); run for a few seconds, seeded with
               the byte values of the verifier's counterexample state where it has any.
kind 'direct': the job harness itself is dual-use (replay/cex.h): the named inputs are read from
               the verifier's trace and the same file is run natively under ASan/UBSan.
A reproduced failure stores the input next to the replay json; `cqv replay <json>` rebuilds and
re-runs it.  No reproduction => the VIOLATION line ends with no-failing-input-found.
"""
import glob
import json
import os
import re
import shutil
import subprocess
import tempfile

FUZZ = {
    # name: (harness, [repo sources], max_len, seconds)
    'snappy_decompress': ('replay/fz/snappy_decompress.c', ['src/compression/snappy.c'], 48, 20),
}

DIRECT = {
    # name: (native dual-use source, [extra repo sources], {input name: trace lhs})
    'bloom_block_index': ('replay/direct/bloom_block_index.c', ['src/util/xxhash.c'], {'hash': 'hash', 'z': 'z'}),
}

CFLAGS = ['-g', '-O1', '-fno-omit-frame-pointer', '-fsanitize=address,undefined',
          '-fno-sanitize-recover=undefined', '-DCARQUET_VERIF_REPLAY=1']


def spec_of(name):
    """name (registry key) or an inline dict from the job definition -> normalized spec dict"""
    if isinstance(name, dict):
        d = dict(name)
        d.setdefault('sources', [])
        d.setdefault('max_len', 64)
        d.setdefault('secs', 20)
        d.setdefault('vars', {})
        return d
    if name in FUZZ:
        h, srcs, max_len, secs = FUZZ[name]
        return dict(kind='fuzz', harness=h, sources=srcs, max_len=max_len, secs=secs)
    if name in DIRECT:
        h, srcs, v = DIRECT[name]
        return dict(kind='direct', harness=h, sources=srcs, vars=v)
    raise KeyError(name)


def build_fuzz(name, REPO, ROOT, out):
    sp = spec_of(name)
    h, srcs, max_len, secs = sp['harness'], sp['sources'], sp['max_len'], sp['secs']
    cmd = ['clang', '-fsanitize=fuzzer'] + CFLAGS + ['-I' + os.path.join(REPO, 'include'),
                                                       '-I' + os.path.join(REPO, 'src'),
                                                       '-I' + os.path.join(ROOT, 'replay'),
                                                       os.path.join(ROOT, h)] + \
          [os.path.join(REPO, s) for s in srcs] + ['-lm', '-lz', '-lzstd', '-o', out]
    p = subprocess.run(cmd, stdout=subprocess.PIPE, stderr=subprocess.STDOUT, timeout=300)
    return p.returncode == 0, p.stdout.decode(errors='replace')[-2000:], ' '.join(cmd)


def trace_bytes(trace):
    """byte-sized values from the verifier trace, in order, as a seed"""
    out = []
    for s in trace or []:
        v = s.get('value')
        if isinstance(v, str) and re.fullmatch(r'\d+', v) and int(v) < 256:
            out.append(int(v))
    return bytes(out[:64])


def run(name, job, R, primary, trace, REPO, ROOT):
    sp = spec_of(name)
    if sp['kind'] == 'fuzz':
        return run_fuzz(sp, job, primary, trace, REPO, ROOT)
    return run_direct(sp, job, primary, trace, REPO, ROOT)


def build_direct(name, REPO, ROOT, out):
    sp = spec_of(name)
    h, srcs = sp['harness'], sp['sources']
    cmd = ['clang'] + CFLAGS + ['-I' + os.path.join(REPO, 'include'), '-I' + os.path.join(REPO, 'src'), '-I' + REPO,
                                '-I' + os.path.join(ROOT, 'replay'), '-I' + ROOT, os.path.join(ROOT, h)] + \
          [os.path.join(REPO, s) for s in srcs] + ['-lm', '-lz', '-lzstd', '-o', out]
    p = subprocess.run(cmd, stdout=subprocess.PIPE, stderr=subprocess.STDOUT, timeout=300)
    return p.returncode == 0, p.stdout.decode(errors='replace')[-2000:], ' '.join(cmd)


def num(v):
    if v is None:
        return None
    m = re.match(r'^\s*(-?\d+)', str(v))
    return m.group(1) if m else None


def run_direct(name, job, primary, trace, REPO, ROOT, inputs=None):
    sp = spec_of(name)
    h, srcs, vmap = sp['harness'], sp['sources'], sp['vars']
    td = tempfile.mkdtemp(prefix='cqv_rp_')
    try:
        if inputs is None:
            inputs = {}
            for s in trace or []:
                for k, lhs in vmap.items():
                    if s.get('lhs') == lhs and k not in inputs and num(s.get('value')) is not None \
                            and s.get('fn') == job['entry']:
                        inputs[k] = num(s.get('value'))
            missing = [k for k in vmap if k not in inputs]
            if missing:
                return dict(reproduced=False, kind='direct', error='trace has no value for %s' % missing)
        exe = os.path.join(td, 'rp')
        ok, out, cmd = build_direct(name, REPO, ROOT, exe)
        if not ok:
            return dict(reproduced=False, error='native build failed: ' + out)
        inp = os.path.join(td, 'input.txt')
        open(inp, 'w').write(''.join('%s=%s\n' % kv for kv in inputs.items()))
        p = subprocess.run([exe, inp], stdout=subprocess.PIPE, stderr=subprocess.STDOUT, timeout=120)
        log = p.stdout.decode(errors='replace')
        return dict(reproduced=p.returncode != 0, kind='direct', replayer=sp, harness=h,
                    source="verifier's counterexample values run on the real /repo sources (ASan/UBSan)",
                    inputs=inputs, exit_status=p.returncode, report=log.strip().split('\n')[-6:])
    finally:
        shutil.rmtree(td, ignore_errors=True)


def run_fuzz(name, job, primary, trace, REPO, ROOT):
    sp = spec_of(name)
    h, srcs, max_len, secs = sp['harness'], sp['sources'], sp['max_len'], sp['secs']
    td = tempfile.mkdtemp(prefix='cqv_rp_')
    try:
        exe = os.path.join(td, 'fz')
        ok, out, cmd = build_fuzz(name, REPO, ROOT, exe)
        if not ok:
            return dict(reproduced=False, error='native build failed: ' + out)
        corpus = os.path.join(td, 'corpus')
        os.makedirs(corpus)
        sd = trace_bytes(trace)
        open(os.path.join(corpus, 'seed0'), 'wb').write(sd or b'\x00')
        art = os.path.join(td, 'art_')
        p = subprocess.run([exe, corpus, '-max_total_time=%d' % secs, '-max_len=%d' % max_len,
                            '-artifact_prefix=' + art, '-print_final_stats=0', '-verbosity=0'],
                           stdout=subprocess.PIPE, stderr=subprocess.STDOUT, timeout=secs + 120)
        log = p.stdout.decode(errors='replace')
        crashes = sorted(glob.glob(art + 'crash-*'))
        if not crashes:
            return dict(reproduced=False, kind='fuzz', harness=h, seconds=secs,
                        note='libFuzzer+ASan/UBSan on the real sources found no failing input in the time given')
        data = open(crashes[0], 'rb').read()
        rdir = os.path.join(ROOT, 'replays', job['props'][0])
        os.makedirs(rdir, exist_ok=True)
        inp = os.path.join(rdir, job['name'] + '.input')
        open(inp, 'wb').write(data)
        rep = [l for l in log.split('\n') if 'ERROR' in l or 'SUMMARY' in l or 'PROPERTY' in l or ' #0 ' in l or ' #1 ' in l][:8]
        return dict(reproduced=True, kind='fuzz', source='native search (libFuzzer, <=%ds) on the real /repo sources, '
                    'seeded with the byte values of the verifier counterexample state' % secs,
                    harness=h, input_file=inp, input_hex=data.hex(), report=rep,
                    replayer=sp)
    finally:
        shutil.rmtree(td, ignore_errors=True)


def rerun(d, REPO, ROOT):
    """cqv replay: rebuild harness from /repo's current tree and run the stored input once."""
    nr = d.get('native_replay') or {}
    if not nr.get('reproduced'):
        print('no native input stored for this violation (no-failing-input-found)')
        return 0
    name = nr['replayer']
    if spec_of(name)['kind'] == 'direct':
        r = run_direct(name, dict(entry=None, props=[d['property']], name=d['job']), None, None, REPO, ROOT,
                       inputs=nr['inputs'])
        print('\n'.join(r.get('report', [])))
        print('native replay exit status: %s (%s)' % (r.get('exit_status'), 'FAILS' if r.get('reproduced') else 'passes'))
        return 1 if r.get('reproduced') else 0
    td = tempfile.mkdtemp(prefix='cqv_rp_')
    try:
        exe = os.path.join(td, 'fz')
        ok, out, cmd = build_fuzz(name, REPO, ROOT, exe)
        if not ok:
            print(out)
            return 2
        inp = os.path.join(td, 'input')
        open(inp, 'wb').write(bytes.fromhex(nr['input_hex']))
        p = subprocess.run([exe, inp], stdout=subprocess.PIPE, stderr=subprocess.STDOUT, timeout=120)
        print(p.stdout.decode(errors='replace')[-3000:])
        print('native replay exit status: %d (%s)' % (p.returncode, 'FAILS' if p.returncode else 'passes'))
        return 1 if p.returncode else 0
    finally:
        shutil.rmtree(td, ignore_errors=True)
