#!/usr/bin/env python3
"""Run every seeded change against the check(s) of its property; write seeded/RESULTS.json/.md.
usage: tools/run_seeds.py [seed ids...] [--tier quick|thorough] [--props C08,C09 (override)]"""
import json, os, re, subprocess, sys, time
ROOT = os.path.dirname(os.path.dirname(os.path.abspath(__file__)))
def main():
    args = sys.argv[1:]
    tier = 'quick'
    if '--tier' in args:
        i = args.index('--tier'); tier = args[i + 1]; del args[i:i + 2]
    claimed = [c['property_id'] for c in json.load(open(os.path.join(ROOT, 'MANIFEST.json')))['checks']]
    seeds = args or sorted(d for d in os.listdir(os.path.join(ROOT, 'seeded')) if re.match(r'C\d+-\d+$', d))
    resf = os.path.join(ROOT, "seeded", os.environ.get("SEED_RESULTS", "RESULTS.json"))
    res = json.load(open(resf)) if os.path.exists(resf) else {}
    for s in seeds:
        prop = s.split('-')[0]
        extra = json.load(open(os.path.join(ROOT, 'seeded', s, 'meta.json'))).get('also_check', [])
        for p in [prop] + extra:
            if p not in claimed:
                res['%s@%s' % (s, p)] = dict(seed=s, prop=p, outcome='property not claimed', tier=tier)
                continue
            t0 = time.time()
            pr = subprocess.run([os.path.join(ROOT, 'tools', 'seedtest.sh'), os.path.join(ROOT, 'seeded', s), p, '--tier', tier],
                                stdout=subprocess.PIPE, stderr=subprocess.STDOUT)
            out = pr.stdout.decode(errors='replace')
            viol = [l for l in out.split('\n') if l.startswith('VIOLATION')]
            und = [l for l in out.split('\n') if l.startswith('UNDECIDED')]
            oc = 'DETECTED' if pr.returncode == 1 and viol else ('undecided (exit 2)' if pr.returncode == 2 else ('missed' if pr.returncode == 0 else 'error rc=%d' % pr.returncode))
            res['%s@%s' % (s, p)] = dict(seed=s, prop=p, outcome=oc, tier=tier, wall_s=round(time.time() - t0, 1),
                                         violations=[v[:400] for v in viol[:4]], undecided=[u[:300] for u in und[:3]])
            print(s, p, oc, '%.0fs' % (time.time() - t0), (viol[0][:200] if viol else (und[0][:200] if und else '')), flush=True)
            json.dump(res, open(resf, 'w'), indent=1)
    with open(os.path.join(ROOT, 'seeded', 'RESULTS.md'), 'w') as f:
        f.write('| seed | property checked | tier | outcome | first violated obligation |\n|---|---|---|---|---|\n')
        for k in sorted(res):
            r = res[k]
            v = (r.get('violations') or [''])[0]
            m = re.search(r'obligation="([^"]*)"', v)
            f.write('| %s | %s | %s | %s | %s |\n' % (r['seed'], r['prop'], r['tier'], r['outcome'], (m.group(1) if m else '')[:150]))
main()
