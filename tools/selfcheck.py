#!/usr/bin/env python3
"""setup: nothing to build; verify the tools the checks need are present."""
import shutil
import sys
missing = [t for t in ('cbmc', 'goto-cc', 'goto-instrument', 'clang', 'python3') if not shutil.which(t)]
if missing:
    print('missing tools: %s' % missing)
    sys.exit(1)
print('ok')
