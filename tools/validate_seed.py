#!/usr/bin/env python3
"""Validate staged seeded changes: each must (1) apply, (2) build, (3) pass the full test suite,
(4) make its demo fail, and the demo must pass on the unchanged tree.  Writes meta.json."""
import json, os, re, subprocess, sys, shutil
ROOT = os.path.dirname(os.path.dirname(os.path.abspath(__file__)))
STAGE = os.path.join(ROOT, 'seeded', '_staging')
def sh(cmd, cwd=None, timeout=1800):
    p = subprocess.run(cmd, shell=True, cwd=cwd, stdout=subprocess.PIPE, stderr=subprocess.STDOUT, timeout=timeout)
    return p.returncode, p.stdout.decode(errors='replace')
def demo_cmd(path, wt, pid):
    lines = open(path).read().split('\n')[:40]
    out = []; on = False
    for l in lines:
        t = re.sub(r'^\s*(/\*|\*|//)\s?', '', l).rstrip()
        if not on and re.search(r'\b(gcc|cc|clang)\s+-', t):
            on = True
        if on:
            out.append(t.rstrip('\\').strip())
            if not t.endswith('\\'):
                break
    cmd = ' '.join(out)
    cmd = re.sub(r';\s*echo .*$', '', cmd).replace('/tmp/wt/%s' % pid, wt)
    return cmd
def build(wt):
    return sh('cmake -G Ninja -B _build -DCMAKE_BUILD_TYPE=RelWithDebInfo -DCMAKE_C_FLAGS=-Wno-error >/dev/null && cmake --build _build 2>&1 | tail -3', cwd=wt)
def main():
    ids = sys.argv[1:] or sorted(set(d.split('-')[0] for d in os.listdir(STAGE)))
    for pid in ids:
        wt = '/tmp/sv/%s' % pid
        sh('git -C /repo worktree remove --force %s; rm -rf %s' % (wt, wt))
        os.makedirs('/tmp/sv', exist_ok=True)
        rc, out = sh('git -C /repo worktree add %s HEAD' % wt)
        try:
            for k in [int(x) for x in os.environ.get("SEED_KS", "1,2").split(",")]:
                sd = os.path.join(STAGE, '%s-%d' % (pid, k))
                if not os.path.exists(os.path.join(sd, 'patch.diff')):
                    continue
                md = os.path.join(wt, 'mut%d' % k)
                shutil.copytree(sd, md, dirs_exist_ok=True)
                dc = os.path.join(md, 'demo.c')
                txt_ = open(dc).read().replace('/tmp/wt/%s' % pid, wt)
                open(dc, 'w').write(txt_)
                meta = dict(property=pid, seed='%s-%d' % (pid, k), notes=open(os.path.join(sd, 'notes.txt')).read() if os.path.exists(os.path.join(sd, 'notes.txt')) else '')
                rc, out = sh('git apply %s/patch.diff' % md, cwd=wt)
                meta['applies'] = rc == 0
                if rc != 0:
                    meta['error'] = out[-500:]
                else:
                    rc, out = build(wt); meta['builds'] = rc == 0 and 'error' not in out.lower().split('warning')[0]
                    rc, out = sh('ctest --test-dir _build -j8 --timeout 900 2>&1 | tail -5', cwd=wt)
                    if '100% tests passed' not in out:  # tests use fixed /tmp names: retry once (shared machine)
                        rc, out = sh('ctest --test-dir _build -j8 --timeout 900 2>&1 | tail -5', cwd=wt)
                    meta['suite_passes_with_change'] = '100% tests passed' in out
                    cmd = demo_cmd(os.path.join(md, 'demo.c'), wt, pid); meta['demo_cmd'] = cmd
                    rc, out = sh(cmd, cwd=wt, timeout=900); meta['demo_exit_with_change'] = rc; meta['demo_output_with_change'] = out[-600:]
                    sh('git checkout -- src include', cwd=wt)
                    build(wt)
                    rc, out = sh(cmd, cwd=wt, timeout=900); meta['demo_exit_unchanged'] = rc
                meta['valid'] = bool(meta.get('applies') and meta.get('builds') and meta.get('suite_passes_with_change') and meta.get('demo_exit_with_change') not in (0, None) and meta.get('demo_exit_unchanged') == 0)
                meta['what_i_ran'] = 'git worktree of /repo HEAD; git apply patch.diff; cmake+ninja build; ctest -j8 (all must pass); demo compiled and run with the change (must fail) and on the unchanged tree (must pass)'
                json.dump(meta, open(os.path.join(sd, 'meta.json'), 'w'), indent=1)
                print(pid, k, 'valid=%s' % meta['valid'], {x: meta.get(x) for x in ('applies', 'builds', 'suite_passes_with_change', 'demo_exit_with_change', 'demo_exit_unchanged')}, flush=True)
        finally:
            sh('git -C /repo worktree remove --force %s; rm -rf %s; git -C /repo worktree prune' % (wt, wt))
main()
