#!/usr/bin/env python3
"""Overlay injector: puts CBMC contracts from contracts/*.ovl into a scratch copy
of the REAL source text of /repo, every run.

Overlay syntax (line oriented, '#' at column 0 of a directive-less line is NOT a
comment because C preprocessor lines may be inserted; comments start with '##'):

  @file src/compression/snappy.c
  @top-after "<exact line text>" [occ=N]      file-scope insertion after that line
  ...lines...
  @function NAME
  @contract                                   clauses between ')' and '{'
  ...lines...
  @loop K for|while|do [skip]                 K-th loop (textual order) in NAME
  ...lines...                                 (skip: loop exists, gets no contract)
  @after "<text>" [occ=N]                     insert lines after the line holding text
  @before "<text>" [occ=N]                    insert lines before that line
  @entry                                      insert lines right after the opening '{'
  @twin                                       T1: self calls -> NAME__rec (declared-only twin)
  @replace "<old>" "<new>" [occ=N]            T3: textual replacement inside NAME (listed in evidence)
  @end

Must-fire rules (violations of any => exit 2 'extraction drift', never a VIOLATION):
  * NAME has exactly one definition in the file
  * the number of loops found in NAME equals the number of @loop entries, kinds agree
  * every anchor text occurs (occ-th occurrence) inside NAME
Strip check: removing every marked edit reproduces the input byte for byte.
"""
import base64
import json
import re
import sys


class Drift(Exception):
    pass


def mask(src):
    """Return text of same length with comments, string/char literals and
    preprocessor directive lines blanked (newlines kept)."""
    out = list(src)
    i, n = 0, len(src)
    bol = True
    while i < n:
        c = src[i]
        if c == '/' and i + 1 < n and src[i + 1] == '*':
            j = src.find('*/', i + 2)
            j = n if j < 0 else j + 2
            for k in range(i, j):
                if out[k] != '\n':
                    out[k] = ' '
            i = j
            continue
        if c == '/' and i + 1 < n and src[i + 1] == '/':
            j = src.find('\n', i)
            j = n if j < 0 else j
            for k in range(i, j):
                out[k] = ' '
            i = j
            continue
        if c == '"' or c == "'":
            q = c
            j = i + 1
            while j < n and src[j] != q:
                if src[j] == '\\':
                    j += 1
                j += 1
            for k in range(i + 1, min(j, n)):
                if out[k] != '\n':
                    out[k] = ' '
            i = j + 1
            bol = False
            continue
        if c == '#' and bol:
            # directive incl. continuation lines
            j = i
            while True:
                e = src.find('\n', j)
                if e < 0:
                    e = n
                    break
                if e > 0 and src[e - 1] == '\\':
                    j = e + 1
                    continue
                break
            for k in range(i, e):
                if out[k] != '\n':
                    out[k] = ' '
            i = e
            continue
        if c == '\n':
            bol = True
        elif not c.isspace():
            bol = False
        i += 1
    return ''.join(out)


def match_close(m, i, o='(', c=')'):
    """m[i] == o; return index of the matching c."""
    depth = 0
    n = len(m)
    while i < n:
        if m[i] == o:
            depth += 1
        elif m[i] == c:
            depth -= 1
            if depth == 0:
                return i
        i += 1
    raise Drift('unbalanced %s%s' % (o, c))


def skip_ws(m, i):
    while i < len(m) and m[i].isspace():
        i += 1
    return i


def find_function(m, name):
    """Return (name_pos, rparen, lbrace, rbrace) of the unique definition."""
    hits = []
    for mo in re.finditer(r'\b%s\s*\(' % re.escape(name), m):
        lp = mo.end() - 1
        # brace depth 0 ?
        depth = m.count('{', 0, mo.start()) - m.count('}', 0, mo.start())
        if depth != 0:
            continue
        rp = match_close(m, lp)
        j = skip_ws(m, rp + 1)
        if j < len(m) and m[j] == '{':
            hits.append((mo.start(), rp, j, match_close(m, j, '{', '}')))
    if len(hits) != 1:
        raise Drift('function %s: %d definitions found' % (name, len(hits)))
    return hits[0]


def stmt_end(m, i):
    """End index (exclusive) of the statement starting at/after i."""
    i = skip_ws(m, i)
    if m[i] == '{':
        return match_close(m, i, '{', '}') + 1
    mo = re.match(r'(if|for|while|switch)\b', m[i:])
    if mo:
        lp = skip_ws(m, i + mo.end())
        rp = match_close(m, lp)
        e = stmt_end(m, rp + 1)
        if mo.group(1) == 'if':
            j = skip_ws(m, e)
            if re.match(r'else\b', m[j:]):
                return stmt_end(m, j + 4)
        return e
    if re.match(r'do\b', m[i:]):
        e = stmt_end(m, i + 2)
        j = skip_ws(m, e)
        assert re.match(r'while\b', m[j:])
        lp = skip_ws(m, j + 5)
        rp = match_close(m, lp)
        return m.index(';', rp) + 1
    # simple statement: up to ';' at paren/brace depth 0
    d = 0
    while i < len(m):
        if m[i] in '({[':
            d += 1
        elif m[i] in ')}]':
            d -= 1
        elif m[i] == ';' and d == 0:
            return i + 1
        i += 1
    raise Drift('statement end not found')


def find_loops(m, lb, rb):
    """Loops inside body (lb, rb) in textual order.
    Each: dict(kind, kw, hdr_end (index after ')' for for/while), body_start, body_end, tail...)"""
    loops = []
    do_tails = set()
    for mo in re.finditer(r'\b(for|while|do)\b', m[lb:rb]):
        kw = lb + mo.start()
        kind = mo.group(1)
        if kind == 'while' and kw in do_tails:
            continue
        if kind == 'do':
            bs = skip_ws(m, kw + 2)
            be = stmt_end(m, bs)
            tw = skip_ws(m, be)
            if not re.match(r'while\b', m[tw:]):
                raise Drift('do without while')
            do_tails.add(tw)
            lp = skip_ws(m, tw + 5)
            rp = match_close(m, lp)
            semi = m.index(';', rp)
            loops.append(dict(kind='do', kw=kw, body_start=bs, body_end=be,
                              tail_kw=tw, tail_lp=lp, tail_rp=rp, tail_semi=semi))
        else:
            lp = skip_ws(m, kw + len(kind))
            if m[lp] != '(':
                raise Drift('loop header')
            rp = match_close(m, lp)
            loops.append(dict(kind=kind, kw=kw, hdr_end=rp + 1))
    return loops


def parse_overlay(path):
    files = {}
    cur_file = None
    cur_fn = None
    cur_sec = None
    for ln, raw in enumerate(open(path), 1):
        line = raw.rstrip('\n')
        s = line.strip()
        if s.startswith('##'):
            continue
        if s.startswith('@'):
            parts = s.split(None, 1)
            d = parts[0]
            arg = parts[1] if len(parts) > 1 else ''
            if d == '@file':
                cur_file = files.setdefault(arg.strip(), dict(top=[], functions=[]))
                cur_fn = None
                cur_sec = None
            elif d == '@top-after':
                a, occ = parse_anchor(arg, path, ln)
                cur_sec = dict(kind='top-after', anchor=a, occ=occ, lines=[])
                cur_file['top'].append(cur_sec)
            elif d == '@function':
                cur_fn = dict(name=arg.strip(), contract=[], loops=[], inserts=[],
                              twin=False, replaces=[], entry=[])
                cur_file['functions'].append(cur_fn)
                cur_sec = None
            elif d == '@contract':
                cur_sec = dict(kind='contract', lines=cur_fn['contract'])
            elif d == '@entry':
                cur_sec = dict(kind='entry', lines=cur_fn['entry'])
            elif d == '@loop':
                a = arg.split()
                lp = dict(ordinal=int(a[0]), kind=a[1], skip=('skip' in a[2:]), lines=[])
                cur_fn['loops'].append(lp)
                cur_sec = lp
            elif d in ('@after', '@before'):
                a, occ = parse_anchor(arg, path, ln)
                ins = dict(where=d[1:], anchor=a, occ=occ, lines=[])
                cur_fn['inserts'].append(ins)
                cur_sec = ins
            elif d == '@twin':
                cur_fn['twin'] = True
            elif d == '@replace':
                mo = re.match(r'"((?:[^"\\]|\\.)*)"\s+"((?:[^"\\]|\\.)*)"\s*(?:occ=(\d+))?', arg)
                if not mo:
                    raise SystemExit('%s:%d bad @replace' % (path, ln))
                cur_fn['replaces'].append(dict(old=unesc(mo.group(1)), new=unesc(mo.group(2)),
                                               occ=int(mo.group(3) or 1)))
            elif d == '@end':
                cur_fn = None
                cur_sec = None
            else:
                raise SystemExit('%s:%d unknown directive %s' % (path, ln, d))
            continue
        if cur_sec is not None:
            if s == '' and not cur_sec['lines']:
                continue
            cur_sec['lines'].append(line)
    return files


def unesc(s):
    return s.replace('\\"', '"').replace('\\\\', '\\')


def parse_anchor(arg, path, ln):
    mo = re.match(r'"((?:[^"\\]|\\.)*)"\s*(?:occ=(\d+))?\s*:?\s*$', arg)
    if not mo:
        raise SystemExit('%s:%d bad anchor' % (path, ln))
    return unesc(mo.group(1)), int(mo.group(2) or 1)


def nth_find(text, sub, occ, lo, hi):
    pos = lo - 1
    for _ in range(occ):
        pos = text.find(sub, pos + 1, hi)
        if pos < 0:
            return -1
    return pos


def ws_find(text, sub, occ, lo, hi):
    """Whitespace-insensitive search: the anchor's tokens in order with any white space (or none) between them.
    Returns (start, end) of the occ-th match or None.  Used only when the exact text is not found (reformatting)."""
    toks = re.findall(r'[A-Za-z_0-9]+|\S', sub)
    if len(toks) < 3:
        return None
    parts = []
    for a, b in zip(toks, toks[1:] + ['']):
        parts.append(re.escape(a))
        # two word tokens need white space between them; anything else may have none
        parts.append(r'\s+' if (re.match(r'\w', a[-1]) and b and re.match(r'\w', b[0])) else r'\s*')
    rx = re.compile(''.join(parts[:-1]))
    ms = list(rx.finditer(text, lo, hi))
    if len(ms) < occ:
        return None
    return ms[occ - 1].start(), ms[occ - 1].end()


OPEN = '/*<cqv %s>*/'
CLOSE = '/*</cqv>*/'


def annotate_function(src, m, fn, relpath, contract_only):
    """edits + report entry for one @function; raises Drift."""
    edits = []

    def ins(pos, text):
        edits.append((pos, pos, text))
    name = fn['name']
    npos, rp, lb, rb = find_function(m, name)
    loops = find_loops(m, lb, rb)
    frep = dict(function=name, loops=len(loops), contract_clauses=len(fn['contract']), transforms=[])
    k = npos
    while k > 0 and m[k - 1] not in ';}':
        k -= 1
    decl_start = skip_ws(m, k)
    decl_start = src.rfind('\n', 0, decl_start) + 1
    if fn['contract']:
        ins(rp + 1, '\n' + '\n'.join(fn['contract']) + '\n')
    if fn['twin']:
        proto = src[decl_start:rp + 1]
        proto = re.sub(r'\b%s\b' % re.escape(name), name + '__rec', proto, count=1)
        proto = re.sub(r'\bstatic\b\s*', '', proto)
        proto = re.sub(r'\binline\b\s*', '', proto)
        ctext = '\n'.join(fn['contract'])
        ins(decl_start, '/* T1 twin */ ' + proto + '\n' + ctext + ';\n')
        cnt = 0
        for mo in re.finditer(r'\b%s\s*\(' % re.escape(name), m[lb:rb]):
            s_ = lb + mo.start()
            edits.append((s_, s_ + len(name), name + '__rec'))
            cnt += 1
        if cnt == 0:
            raise Drift('%s: @twin but no self call in %s' % (relpath, name))
        frep['transforms'].append('T1: %d self-call(s) of %s redirected to contract twin %s__rec'
                                  % (cnt, name, name))
    if contract_only:
        # ghost updates / assertions that could not be placed: a contract that talks about ghost state
        # maintained by them cannot be trusted in the bounded fallback
        # (insertions that consist of reachability canaries only carry no ghost state)
        def _ghost(lines):
            return any(l.strip() and not re.match(r'^\s*(CQV_REACH|CQV_CANARY)\s*\(.*\)\s*;?\s*$', l) for l in lines)
        frep['dropped_inserts'] = sum(1 for i_ in fn['inserts'] if _ghost(i_['lines'])) + \
            (1 if fn['entry'] and _ghost(fn['entry']) else 0) + len(fn['replaces'])
        frep['dropped_canary_inserts'] = sum(1 for i_ in fn['inserts'] if not _ghost(i_['lines']))
        return edits, frep
    if len(loops) != len(fn['loops']):
        raise Drift('%s: function %s has %d loops, overlay expects %d'
                    % (relpath, name, len(loops), len(fn['loops'])))
    if fn['entry']:
        ins(lb + 1, '\n' + '\n'.join(fn['entry']) + '\n')
    for r in fn['replaces']:
        p = nth_find(src, r['old'], r['occ'], lb, rb)
        if p < 0:
            raise Drift('%s: %s: replace text %r not found' % (relpath, name, r['old']))
        edits.append((p, p + len(r['old']), r['new']))
        frep['transforms'].append('T3: %r -> %r' % (r['old'], r['new']))
    byord = {l['ordinal']: l for l in fn['loops']}
    if sorted(byord) != list(range(1, len(loops) + 1)):
        raise Drift('%s: %s: loop ordinals must be 1..%d' % (relpath, name, len(loops)))
    for idx, lp in enumerate(loops, 1):
        o = byord[idx]
        if o['kind'] != lp['kind'] and {o['kind'], lp['kind']} == {'for', 'while'}:
            # for <-> while: the loop contract goes to the same place (after the header's closing
            # parenthesis) and speaks about the same program point (before the condition is evaluated)
            frep['transforms'].append('loop %d: overlay says %s, source has %s (same contract position)' % (idx, o['kind'], lp['kind']))
        elif o['kind'] != lp['kind']:
            raise Drift('%s: %s: loop %d is %s, overlay says %s'
                        % (relpath, name, idx, lp['kind'], o['kind']))
        if o['skip'] or not o['lines']:
            continue
        text = '\n' + '\n'.join(o['lines']) + '\n'
        if lp['kind'] in ('for', 'while'):
            ins(lp['hdr_end'], text)
        else:
            body = m[lp['body_start']:lp['body_end']]
            if re.search(r'\bcontinue\b', body):
                raise Drift('%s: %s: do-loop %d contains continue; T2 not applicable'
                            % (relpath, name, idx))
            edits.append((lp['kw'], lp['kw'] + 2, 'for (;;)' + text + '{'))
            edits.append((lp['tail_kw'], lp['tail_kw'] + 5, 'if (!'))
            edits.append((lp['tail_semi'], lp['tail_semi'] + 1, ') break; }'))
            frep['transforms'].append('T2: do/while loop %d rewritten as for(;;){BODY if(!(c)) break;}' % idx)
    for i_ in fn['inserts']:
        p = nth_find(src, i_['anchor'], i_['occ'], lb, rb)
        fuzzy = False
        ws_end = None
        if p < 0:
            w = ws_find(src, i_['anchor'], i_['occ'], lb, rb)
            if w:
                p, ws_end = w
                frep['transforms'].append('anchor %r matched up to white space' % i_['anchor'][:60])
        if p < 0:
            # tolerant re-anchoring: the statement was reformatted / an argument changed.  If the anchor
            # starts with a call `name(` that occurs exactly once in the function, anchor on that
            # statement instead (recorded in the report); otherwise it is drift.
            mo = re.match(r'\s*((?:[A-Za-z_][\w\.\->\[\]\*& ]*=\s*)?[A-Za-z_]\w*\s*\()', i_['anchor'])
            key = mo.group(1) if mo else None
            if key and len(key) >= 6 and i_['occ'] == 1 and src.count(key, lb, rb) == 1:
                p = src.find(key, lb, rb)
                fuzzy = True
                frep['transforms'].append('anchor %r re-found by its leading call %r' % (i_['anchor'][:60], key))
            else:
                raise Drift('%s: %s: anchor %r (occ %d) not found'
                            % (relpath, name, i_['anchor'], i_['occ']))
        if i_['where'] == 'after':
            if fuzzy:
                # end of the (possibly multi-line) statement
                d_, q = 0, p
                while q < rb:
                    if m[q] in '([{':
                        d_ += 1
                    elif m[q] in ')]}':
                        d_ -= 1
                    elif m[q] == ';' and d_ <= 0:
                        break
                    q += 1
                e = src.find('\n', q)
            elif ws_end is not None:
                e = src.find('\n', ws_end - 1)
            else:
                e = src.find('\n', p)
            ins(e + 1, '\n'.join(i_['lines']) + '\n')
        else:
            b = src.rfind('\n', 0, p) + 1
            ins(b, '\n'.join(i_['lines']) + '\n')
    return edits, frep


def annotate(src, spec, relpath, report):
    m = mask(src)
    edits = []  # (start, end, replacement)
    for top in spec['top']:
        p = nth_find(src, top['anchor'], top['occ'], 0, len(src))
        if p < 0:
            raise Drift('%s: top anchor %r not found' % (relpath, top['anchor']))
        e = src.find('\n', p)
        edits.append((e + 1, e + 1, '\n'.join(top['lines']) + '\n'))

    for fn in spec['functions']:
        # Per-function tolerance: a function whose loop structure / anchors drifted keeps only its
        # function contract (which states the property) and is reported with 'drift'; the driver then
        # checks it by bounded unwinding (a failure there is a real counterexample) or reports undecided.
        try:
            e_, frep = annotate_function(src, m, fn, relpath, False)
        except Drift as d1:
            try:
                e_, frep = annotate_function(src, m, fn, relpath, True)
                frep['drift'] = str(d1)
            except Drift as d2:
                e_, frep = [], dict(function=fn['name'], loops=0, contract_clauses=0, transforms=[],
                                    drift=str(d2), missing=True)
        edits += e_
        report.append(frep)

    # apply edits
    edits.sort(key=lambda e: (e[0], e[1]))
    out = []
    pos = 0
    for s, e, rep in edits:
        if s < pos:
            raise Drift('%s: overlapping edits at %d' % (relpath, s))
        out.append(src[pos:s])
        tag = base64.b64encode(src[s:e].encode()).decode() if e > s else '-'
        out.append(OPEN % tag + rep + CLOSE)
        pos = e
    out.append(src[pos:])
    ann = ''.join(out)
    if strip(ann) != src:
        raise Drift('%s: strip check failed' % relpath)
    return ann


def strip(ann):
    def back(mo):
        tag = mo.group(1)
        return '' if tag == '-' else base64.b64decode(tag).decode()
    return re.sub(r'/\*<cqv ([A-Za-z0-9+/=-]+)>\*/.*?/\*</cqv>\*/', back, ann, flags=re.S)


def main():
    import argparse
    import os
    ap = argparse.ArgumentParser()
    ap.add_argument('--repo', default='/repo')
    ap.add_argument('--out', required=True)
    ap.add_argument('--report')
    ap.add_argument('overlays', nargs='+')
    a = ap.parse_args()
    report = []
    try:
        for ov in a.overlays:
            files = parse_overlay(ov)
            for rel, spec in files.items():
                src = open(os.path.join(a.repo, rel)).read()
                ann = annotate(src, spec, rel, report)
                dst = os.path.join(a.out, rel)
                os.makedirs(os.path.dirname(dst), exist_ok=True)
                open(dst, 'w').write(ann)
    except Drift as d:
        print('EXTRACTION-DRIFT: %s' % d)
        sys.exit(2)
    if a.report:
        json.dump(report, open(a.report, 'w'), indent=1)


if __name__ == '__main__':
    main()
