/* C20: split-block Bloom filter.  The real bloom_filter.c is included (static functions). */
#include "cqv.h"
#include "sbbf_spec.h"
/* ghost index (arbitrary) used instead of a quantifier, and the pre-state byte at that index */
size_t cqv_k;
uint8_t cqv_old_dest_k;
#include "src/metadata/bloom_filter.c"

/* insert sets exactly the 8 spec bits (one per word), nothing else; then check is true */
void h_block_insert_spec(void) {
  uint32_t block[8], old[8];
  uint64_t hash = nondet_u64();
  for (int i = 0; i < 8; i++) { block[i] = nondet_u32(); old[i] = block[i]; }
  bloom_filter_block_insert(block, hash);
  __CPROVER_assert(block[0] == (old[0] | SPEC_SBBF_BIT(0, hash)), "word 0 gets exactly the spec bit");
  __CPROVER_assert(block[1] == (old[1] | SPEC_SBBF_BIT(1, hash)), "word 1 gets exactly the spec bit");
  __CPROVER_assert(block[2] == (old[2] | SPEC_SBBF_BIT(2, hash)), "word 2 gets exactly the spec bit");
  __CPROVER_assert(block[3] == (old[3] | SPEC_SBBF_BIT(3, hash)), "word 3 gets exactly the spec bit");
  __CPROVER_assert(block[4] == (old[4] | SPEC_SBBF_BIT(4, hash)), "word 4 gets exactly the spec bit");
  __CPROVER_assert(block[5] == (old[5] | SPEC_SBBF_BIT(5, hash)), "word 5 gets exactly the spec bit");
  __CPROVER_assert(block[6] == (old[6] | SPEC_SBBF_BIT(6, hash)), "word 6 gets exactly the spec bit");
  __CPROVER_assert(block[7] == (old[7] | SPEC_SBBF_BIT(7, hash)), "word 7 gets exactly the spec bit");
  __CPROVER_assert(bloom_filter_block_check(block, hash), "check after insert of the same hash is true");
  CQV_CANARY("block insert harness end");
}

/* check(h) is true iff all 8 spec bits are present: gives monotonicity (a superset block keeps
 * every positive) and 'all-zero block => false' */
void h_block_check_spec(void) {
  uint32_t block[8];
  uint64_t hash = nondet_u64();
  for (int i = 0; i < 8; i++) block[i] = nondet_u32();
  _Bool all = (block[0] & SPEC_SBBF_BIT(0, hash)) && (block[1] & SPEC_SBBF_BIT(1, hash)) &&
              (block[2] & SPEC_SBBF_BIT(2, hash)) && (block[3] & SPEC_SBBF_BIT(3, hash)) &&
              (block[4] & SPEC_SBBF_BIT(4, hash)) && (block[5] & SPEC_SBBF_BIT(5, hash)) &&
              (block[6] & SPEC_SBBF_BIT(6, hash)) && (block[7] & SPEC_SBBF_BIT(7, hash));
  _Bool got = bloom_filter_block_check(block, hash);
  __CPROVER_assert(got == all, "check is true exactly when the 8 spec bits are set");
  if (got) CQV_CANARY("check can be true"); else CQV_CANARY("check can be false");
}

/* block selection == Parquet multiply-shift and in range, all hashes, all block counts < 2^32 */
void h_block_index(void) {
  uint64_t hash = nondet_u64();
  size_t z = nondet_size_t();
  size_t r = bloom_filter_block_index(hash, z);
  CQV_CANARY("block index harness end");
}

static carquet_bloom_filter_t *mk_filter(void) {
  carquet_bloom_filter_t *f = malloc(sizeof(*f));
  __CPROVER_assume(f != NULL);
  size_t nb = nondet_size_t();
  __CPROVER_assume(nb >= 1 && nb <= ((size_t)1 << 32) - 1);
  f->num_blocks = nb;
  f->num_bytes = nb << 5;
  f->data = malloc(f->num_bytes);
  __CPROVER_assume(f->data != NULL);
  f->owns_data = nondet_bool();
  return f;
}

/* insert_hash / check_hash stay inside the filter's data for every hash and size and use the
 * spec block (callees replaced by their contracts) */
void h_insert_hash(void) {
  carquet_bloom_filter_t *f = nondet_bool() ? mk_filter() : NULL;
  uint64_t hash = nondet_u64();
  carquet_bloom_filter_insert_hash(f, hash);
  CQV_CANARY("insert_hash harness end");
}
void h_check_hash(void) {
  carquet_bloom_filter_t *f = nondet_bool() ? mk_filter() : NULL;
  uint64_t hash = nondet_u64();
  _Bool r = carquet_bloom_filter_check_hash(f, hash);
  __CPROVER_assert(f != NULL || r, "no filter means 'might be present'");
  CQV_CANARY("check_hash harness end");
}

/* merge: union, for an arbitrary byte index cqv_k */
void h_merge(void) {
  carquet_bloom_filter_t *d = nondet_ptr();
  const carquet_bloom_filter_t *s = nondet_ptr();
  carquet_status_t st = carquet_bloom_filter_merge(d, s);
  CQV_CANARY("merge harness end");
  if (st == CARQUET_OK) CQV_CANARY("merge can succeed");
}

/* create: size rounded up to whole 32-byte blocks, >= 32, >= request, zero-filled */
void h_create(void) {
  size_t n = nondet_size_t();
  __CPROVER_assume(n <= CQV_MAXBUF);
  carquet_bloom_filter_t *f = carquet_bloom_filter_create(n);
  if (f) {
    __CPROVER_assert((f->num_bytes & 31) == 0 && f->num_bytes >= 32 && f->num_bytes >= n && f->num_bytes < n + 32 + (n < 32 ? 32 : 0), "size is the request rounded up to whole blocks, at least one");
    __CPROVER_assert(f->num_blocks == (f->num_bytes >> 5) && f->owns_data, "block count and ownership");
    size_t k = nondet_size_t();
    __CPROVER_assume(k < f->num_bytes);
    __CPROVER_assert(f->data[k] == 0, "fresh filter is all zero");
    CQV_CANARY("create can succeed");
    carquet_bloom_filter_destroy(f);
  }
  CQV_CANARY("create harness end");
}

/* from_data / write / read: sizes validated, nothing outside the buffers touched */
void h_from_data(void) {
  size_t n = nondet_size_t();
  __CPROVER_assume(n <= CQV_MAXBUF);
  uint8_t *d = nondet_bool() ? malloc(n) : NULL;
  carquet_bloom_filter_t *f = carquet_bloom_filter_from_data(d, n);
  if (f) {
    __CPROVER_assert(d != NULL && n >= 32 && (n & 31) == 0, "accepted only whole blocks");
    __CPROVER_assert(f->num_bytes == n && f->num_blocks == (n >> 5) && f->owns_data, "sizes recorded");
    CQV_CANARY("from_data can succeed");
    size_t cap = nondet_size_t(), w = 0;
    __CPROVER_assume(cap <= CQV_MAXBUF);
    uint8_t *o = malloc(cap);
    carquet_status_t st = carquet_bloom_filter_write(f, o, cap, &w);
    __CPROVER_assert((st == CARQUET_OK) == (o != NULL && cap >= n), "write succeeds iff capacity suffices");
    __CPROVER_assert(st != CARQUET_OK || w == n, "write reports the true length");
    carquet_bloom_filter_destroy(f);
    free(o);
  }
  free(d);
  CQV_CANARY("from_data harness end");
}

/* typed inserts hash exactly the value's plain (little-endian) bytes with seed 0 */
const void *g_xx_data; size_t g_xx_len; uint64_t g_xx_seed; uint8_t g_xx_bytes[8]; int g_xx_calls;
uint64_t carquet_xxhash64(const void *data, size_t length, uint64_t seed) {
  __CPROVER_precondition(__CPROVER_r_ok(data, length), "hashed range readable");
  g_xx_data = data; g_xx_len = length; g_xx_seed = seed; g_xx_calls++;
  if (length <= 8) for (size_t i = 0; i < 8; i++) if (i < length) g_xx_bytes[i] = ((const uint8_t *)data)[i];
  return nondet_u64();
}
#ifndef CQV_WHICH
#define CQV_WHICH 0
#endif
void h_typed_hash(void) {
  carquet_bloom_filter_t *f = mk_filter();
  int which = CQV_WHICH;
  g_xx_calls = 0;
  if (which == 0) {
    int32_t v = nondet_i32();
    if (nondet_bool()) carquet_bloom_filter_insert_i32(f, v); else (void)carquet_bloom_filter_check_i32(f, v);
    uint32_t u = (uint32_t)v;
    __CPROVER_assert(g_xx_calls == 1 && g_xx_len == 4 && g_xx_seed == 0 && g_xx_bytes[0] == (u & 0xFF) && g_xx_bytes[1] == ((u >> 8) & 0xFF) && g_xx_bytes[2] == ((u >> 16) & 0xFF) && g_xx_bytes[3] == (u >> 24), "i32 hashed as 4 LE bytes, seed 0");
  } else if (which == 1) {
    int64_t v = nondet_i64();
    if (nondet_bool()) carquet_bloom_filter_insert_i64(f, v); else (void)carquet_bloom_filter_check_i64(f, v);
    uint64_t u = (uint64_t)v;
    __CPROVER_assert(g_xx_calls == 1 && g_xx_len == 8 && g_xx_seed == 0 && g_xx_bytes[0] == (u & 0xFF) && g_xx_bytes[3] == ((u >> 24) & 0xFF) && g_xx_bytes[7] == (u >> 56), "i64 hashed as 8 LE bytes, seed 0");
  } else if (which == 2) {
    float v; uint32_t u = nondet_u32(); memcpy(&v, &u, 4);
    if (nondet_bool()) carquet_bloom_filter_insert_float(f, v); else (void)carquet_bloom_filter_check_float(f, v);
    __CPROVER_assert(g_xx_calls == 1 && g_xx_len == 4 && g_xx_seed == 0, "float hashed as 4 bytes, seed 0");
  } else if (which == 3) {
    double v; uint64_t u = nondet_u64(); memcpy(&v, &u, 8);
    if (nondet_bool()) carquet_bloom_filter_insert_double(f, v); else (void)carquet_bloom_filter_check_double(f, v);
    __CPROVER_assert(g_xx_calls == 1 && g_xx_len == 8 && g_xx_seed == 0, "double hashed as 8 bytes, seed 0");
  } else {
    size_t n = nondet_size_t();
    __CPROVER_assume(n <= CQV_MAXBUF);
    uint8_t *p = malloc(n);
    __CPROVER_assume(p != NULL);
    if (nondet_bool()) carquet_bloom_filter_insert_bytes(f, p, n); else (void)carquet_bloom_filter_check_bytes(f, p, n);
    __CPROVER_assert(g_xx_calls == 1 && g_xx_len == n && g_xx_seed == 0 && g_xx_data == p, "byte array hashed as its bytes, seed 0");
  }
  CQV_CANARY("typed hash harness end");
}
