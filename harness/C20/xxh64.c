/* C20: carquet_xxhash64 == XXH64 of the specification, for one concrete length CQV_LEN,
 * all data bytes and all seeds (bounded in length: jobs instantiate CQV_LEN = 0..N). */
#include "cqv.h"
#include "xxh64_spec.h"
#include "src/util/xxhash.c"
#ifndef CQV_LEN
#error CQV_LEN
#endif
void h_xxh64(void) {
  uint8_t buf[CQV_LEN + 1];
  uint64_t seed = nondet_u64();
  uint64_t got = carquet_xxhash64(buf, CQV_LEN, seed);
  uint64_t want = spec_xxh64(buf, CQV_LEN, seed);
  __CPROVER_assert(got == want, "carquet_xxhash64 equals specification XXH64 at this length");
  CQV_CANARY("xxh64 harness end");
}
