/* C04/C18: footer validation predicates of the three open paths.
 *   CQV_SRC=1 : src/reader/file_reader.c  (read_footer over the stdio model, read_footer_mmap)
 *   CQV_SRC=2 : src/reader/mmap_reader.c  (carquet_reader_open_buffer)
 * parquet_parse_file_metadata is an assumed contract that RECORDS the slice it is given and
 * requires it to be readable; build_schema is an assumed contract (overlay for file_reader.c,
 * stub below for mmap_reader.c).  memcmp is exact for 4 bytes, memcpy exact up to 16 bytes
 * (CQV_MEMCPY_EXACT), so the magic test and the little-endian footer length are real. */
#include "cqv.h"
#include <stdlib.h>
#include <carquet/carquet.h>
#include "reader/reader_internal.h"
#include "stdio_stubs.c"
#include "src/core/error.c"        /* the real carquet_error_set (vsnprintf is the stub) */

carquet_schema_t G_schema_obj;
unsigned G_build_schema_calls;

/* ---- assumed contract: Thrift footer parser -------------------------------------------------- */
const uint8_t *G_parse_data;
size_t G_parse_size;
unsigned G_parse_calls;

static void set_error_model(carquet_error_t *error, int st) {
  if (error) {
    size_t k = nondet_size_t();
    __CPROVER_assume(k < CARQUET_ERROR_MESSAGE_MAX);
    error->code = (carquet_status_t)st;
    error->message[k] = 0;
    G_msg_base = error->message;
    G_msg_nul = k;
  }
}

carquet_status_t parquet_parse_file_metadata(const uint8_t *data, size_t size, carquet_arena_t *arena,
                                             parquet_file_metadata_t *metadata, carquet_error_t *error) {
  __CPROVER_precondition(size == 0 || __CPROVER_r_ok(data, size), "metadata parser: the slice [data, data+size) is readable");
  __CPROVER_precondition(arena != NULL && __CPROVER_w_ok(metadata, sizeof(*metadata)), "metadata parser: arena and output valid");
  G_parse_calls++;
  G_parse_data = data;
  G_parse_size = size;
  int st = nondet_int();
  if (st != CARQUET_OK) set_error_model(error, st);
  return (carquet_status_t)st;
}

/* ---- assumed contract: arena ------------------------------------------------------------------ */
carquet_arena_t *G_arena;
_Bool G_arena_live;
unsigned G_arena_destroy_calls;
carquet_status_t carquet_arena_init(carquet_arena_t *arena) {
  __CPROVER_precondition(__CPROVER_w_ok(arena, sizeof(*arena)), "arena object writable");
  if (nondet_bool()) return CARQUET_ERROR_OUT_OF_MEMORY;
  G_arena = arena;
  G_arena_live = 1;
  return CARQUET_OK;
}
void carquet_arena_destroy(carquet_arena_t *arena) {
  __CPROVER_precondition(arena == G_arena && G_arena_live, "arena destroyed while initialised, exactly once");
  G_arena_live = 0;
  G_arena_destroy_calls++;
}

static int error_filled(const carquet_error_t *e) {
  return e->code != CARQUET_OK && G_msg_base == e->message && G_msg_nul < CARQUET_ERROR_MESSAGE_MAX &&
         e->message[G_msg_nul] == 0;
}
static carquet_error_t *mk_error(void) {
  if (nondet_bool()) return NULL;
  carquet_error_t *e = malloc(sizeof(*e));
  __CPROVER_assume(e != NULL);
  e->code = CARQUET_OK;
  return e;
}
static uint32_t le32(const uint8_t *p) {
  return (uint32_t)p[0] | ((uint32_t)p[1] << 8) | ((uint32_t)p[2] << 16) | ((uint32_t)p[3] << 24);
}
static int is_par1(const uint8_t *p) { return p[0] == 'P' && p[1] == 'A' && p[2] == 'R' && p[3] == '1'; }

#if CQV_SRC == 1
#include "src/reader/file_reader.c"

/* ---- read_footer over stdio (any fseek/ftell/fread may fail or come up short) ---------------- */
void h_read_footer(void) {
  size_t size = nondet_size_t();
  __CPROVER_assume(size <= CQV_MAXBUF);
  G_file = malloc(size);
  __CPROVER_assume(G_file != NULL);
  G_file_size = size;
  G_stream_open = 1;
  G_pos_valid = 1; G_pos = 0;
  G_fread_calls = 0; G_parse_calls = 0; G_build_schema_calls = 0;
  carquet_reader_t rd;                 /* arbitrary contents */
  rd.file = G_stream;
  G_arena = &rd.arena; G_arena_live = 1;
  carquet_error_t *error = mk_error();
  carquet_status_t st = read_footer(&rd, error);
  if (st == CARQUET_OK) {
    __CPROVER_assert(size >= 12, "OK => file has at least 12 bytes");
    __CPROVER_assert(rd.file_size == size, "OK => recorded file size is the true size");
    __CPROVER_assert(is_par1(G_file + size - 4), "OK => file ends with PAR1");
    uint32_t fs = le32(G_file + size - 8);
    __CPROVER_assert((size_t)fs <= size - 8, "OK => footer length <= size - 8 (no 32-bit wrap)");
    __CPROVER_assert(G_fread_calls == 2 && G_read_pos[0] == size - 8 && G_read_got[0] == 8, "OK => the 8-byte tail was read at size-8");
    __CPROVER_assert(G_read_pos[1] == size - 8 - fs && G_read_req[1] == fs && G_read_got[1] == fs,
                     "OK => the footer was read completely from [size-8-len, size-8)");
    __CPROVER_assert(G_parse_calls == 1 && G_parse_size == fs, "OK => the parser saw exactly the footer bytes");
    __CPROVER_assert(rd.schema == &G_schema_obj && G_build_schema_calls == 1, "OK => schema built");
    CQV_CANARY("read_footer can succeed");
    if (fs == 0) CQV_CANARY("read_footer zero-length footer");
    if (fs == size - 8) CQV_CANARY("read_footer footer covers the leading magic");
  } else {
    __CPROVER_assert(error == NULL || error_filled(error), "failure => error struct has a non-OK code and a NUL-terminated message");
    CQV_CANARY("read_footer can fail");
    if (size < 12) CQV_CANARY("read_footer small file rejected");
  }
  __CPROVER_assert(size >= 12 || st != CARQUET_OK, "files shorter than 12 bytes are rejected");
  __CPROVER_assert(G_stream_open, "read_footer leaves the stream open (the caller closes it)");
  free(G_file);
  free(error);
  CQV_CANARY("read_footer harness end");
}

/* ---- read_footer_mmap ------------------------------------------------------------------------- */
void h_read_footer_mmap(void) {
  size_t size = nondet_size_t();
  __CPROVER_assume(size <= CQV_MAXBUF);
  uint8_t *buf = malloc(size);
  __CPROVER_assume(buf != NULL);
  G_parse_calls = 0; G_build_schema_calls = 0;
  carquet_reader_t rd;
  rd.mmap_data = buf;
  rd.file_size = size;
  G_arena = &rd.arena; G_arena_live = 1;
  carquet_error_t *error = mk_error();
  carquet_status_t st = read_footer_mmap(&rd, error);
  if (st == CARQUET_OK) {
    __CPROVER_assert(size >= 12, "OK => mapping has at least 12 bytes");
    __CPROVER_assert(is_par1(buf) && is_par1(buf + size - 4), "OK => leading and trailing PAR1");
    uint32_t fs = le32(buf + size - 8);
    __CPROVER_assert((size_t)fs <= size - 8, "OK => footer length <= size - 8 (no 32-bit wrap)");
    __CPROVER_assert(G_parse_calls == 1 && G_parse_size == fs && G_parse_data == buf + (size - 8 - fs),
                     "OK => the parser saw exactly [size-8-len, size-8) of the mapping");
    __CPROVER_assert(rd.schema == &G_schema_obj, "OK => schema built");
    CQV_CANARY("read_footer_mmap can succeed");
    if (fs == size - 8) CQV_CANARY("read_footer_mmap footer covers the leading magic");
  } else {
    __CPROVER_assert(error == NULL || error_filled(error), "failure => error struct has a non-OK code and a NUL-terminated message");
    CQV_CANARY("read_footer_mmap can fail");
    if (size < 12) CQV_CANARY("read_footer_mmap small mapping rejected");
  }
  __CPROVER_assert(size >= 12 || st != CARQUET_OK, "mappings shorter than 12 bytes are rejected");
  free(buf);
  free(error);
  CQV_CANARY("read_footer_mmap harness end");
}
#endif

#if CQV_SRC == 2
/* build_schema / options_init live in file_reader.c: assumed contracts for this translation unit */
carquet_schema_t *build_schema(carquet_arena_t *arena, const parquet_file_metadata_t *metadata, carquet_error_t *error) {
  __CPROVER_precondition(arena == G_arena && G_arena_live && metadata != NULL, "build_schema: live arena, metadata");
  G_build_schema_calls++;
  if (nondet_bool()) { set_error_model(error, CARQUET_ERROR_OUT_OF_MEMORY); return NULL; }
  return &G_schema_obj;
}
void carquet_reader_options_init(carquet_reader_options_t *options) {
  __CPROVER_precondition(__CPROVER_w_ok(options, sizeof(*options)), "options writable");
  carquet_reader_options_t fresh;
  *options = fresh;
}
#include "src/reader/mmap_reader.c"

/* ---- carquet_reader_open_buffer ----------------------------------------------------------------- */
void h_open_buffer(void) {
  size_t size = nondet_size_t();
  __CPROVER_assume(size <= CQV_MAXBUF);
  uint8_t *buf = malloc(size);
  __CPROVER_assume(buf != NULL);          /* "buffer is nonnull per API contract" */
  G_parse_calls = 0; G_build_schema_calls = 0; G_arena_live = 0; G_arena_destroy_calls = 0;
  carquet_reader_options_t opt;
  carquet_error_t *error = mk_error();
  carquet_reader_t *r = carquet_reader_open_buffer(buf, size, nondet_bool() ? &opt : NULL, error);
  if (r != NULL) {
    __CPROVER_assert(size >= 12, "open => buffer has at least 12 bytes");
    __CPROVER_assert(is_par1(buf) && is_par1(buf + size - 4), "open => leading and trailing PAR1");
    uint32_t fs = le32(buf + size - 8);
    __CPROVER_assert((size_t)fs <= size - 8, "open => footer length <= size - 8 (no 32-bit wrap)");
    __CPROVER_assert(G_parse_calls == 1 && G_parse_size == fs && G_parse_data == buf + (size - 8 - fs),
                     "open => the parser saw exactly [size-8-len, size-8) of the buffer");
    __CPROVER_assert(r->is_open && r->mmap_data == buf && r->file_size == size && !r->owns_file && r->file == NULL && r->mmap_info == NULL,
                     "open => handle describes the caller's buffer and owns no file");
    __CPROVER_assert(r->schema == &G_schema_obj && G_arena_live && G_arena == &r->arena, "open => schema built, arena live");
    CQV_CANARY("open_buffer can succeed");
    free(r);                               /* stands for carquet_reader_close (arena is a stub) */
  } else {
    __CPROVER_assert(error == NULL || error_filled(error), "failure => error struct has a non-OK code and a NUL-terminated message");
    __CPROVER_assert(!G_arena_live, "failure => arena destroyed if it was initialised");
    CQV_CANARY("open_buffer can fail");
    if (size < 12) CQV_CANARY("open_buffer small buffer rejected");
    if (G_parse_calls) CQV_CANARY("open_buffer fails after parsing");
  }
  __CPROVER_assert(size >= 12 || r == NULL, "buffers shorter than 12 bytes are rejected");
  free(buf);
  free(error);
  CQV_CANARY("open_buffer harness end");
}
#endif
