/* C04: offsets / sizes in the page load paths and page decoders of the real src/reader/page_reader.c.
 * Everything that comes from file bytes is arbitrary: column metadata offsets, the running page
 * position, every page header field (negative and huge sizes / counts), the bytes themselves.
 * The mapping is a heap object of exactly file_size bytes; callees outside the file are the assumed
 * contracts of stubs/pages_stubs.c WITH their range preconditions (PG_RANGES=1): a range handed to
 * the header parser, the CRC, a codec or a page decoder must be accessible. */
#define PG_RANGES 1
#include "pages_stubs.c"
#include "src/reader/page_reader.c"

static void pg_c04_post(pg_env_t *e, carquet_status_t st, bool is_mmap, bool page_job) {
  carquet_column_reader_t *r = e->r;
  if (st != CARQUET_OK) {
    __CPROVER_assert(e->err == NULL || e->err->code != CARQUET_OK, "C04: a failing call leaves a non-OK code in the error struct");
    CQV_CANARY("load can fail");
  } else {
    CQV_CANARY("load can succeed");
  }
  if (!page_job) return;
  if (is_mmap && st == CARQUET_OK && r->page_loaded && r->decoded_ownership == CARQUET_DATA_VIEW) {
    /* what carquet_read_next_page will memcpy from: page_num_values values of the column's type */
    size_t vs = PG_VALUE_SIZE(r->type, r->type_length);
    __CPROVER_assert(r->page_num_values >= 0, "C04: a loaded page has a non-negative value count");
    __CPROVER_assert(__CPROVER_same_object(r->decoded_values, e->map), "C04: zero-copy view points into the mapping");
    __CPROVER_assert(__CPROVER_POINTER_OFFSET(r->decoded_values) >= 0 &&
                     (size_t)__CPROVER_POINTER_OFFSET(r->decoded_values) <= e->file_size &&
                     vs * (size_t)r->page_num_values <= e->file_size - (size_t)__CPROVER_POINTER_OFFSET(r->decoded_values),
                     "C04: zero-copy view of page_num_values values lies inside the mapping");
    CQV_CANARY("zero-copy view produced");
  }
  if (st == CARQUET_OK && r->page_loaded && r->page_num_values > 0) {
    __CPROVER_assert((size_t)r->page_num_values <= r->decoded_capacity || r->decoded_ownership == CARQUET_DATA_VIEW, "C04: owned decode buffers hold the page's values");
    __CPROVER_assert(r->decoded_def_levels != NULL && r->decoded_rep_levels != NULL, "C04: level buffers exist for a loaded page");
  }
}

static void h_dict(bool is_mmap) {
  pg_env_t e = pg_mk_env(is_mmap);
  __CPROVER_assume(!e.r->has_dictionary);   /* established by the only call sites */
  carquet_status_t st = is_mmap ? load_dictionary_page_mmap(e.r, e.err) : load_dictionary_page_fread(e.r, e.err);
  pg_c04_post(&e, st, is_mmap, false);
  pg_free_env(&e);
  CQV_CANARY("dictionary load returns");
}
void h_c04_dict_mmap(void) { h_dict(true); }
void h_c04_dict_fread(void) { h_dict(false); }

static void h_page(bool is_mmap) {
  pg_env_t e = pg_mk_env(is_mmap);
  uint32_t *old_idx = e.r->indices_buffer;
  e.r->page_loaded = false;                 /* carquet_read_next_page clears it before every load */
  carquet_status_t st = is_mmap ? load_next_page_mmap(e.r, e.err) : load_next_page_fread(e.r, e.err);
  if (e.r->indices_buffer != old_idx) free(old_idx);   /* see harness/C14/pages.c */
  pg_c04_post(&e, st, is_mmap, true);
  pg_free_env(&e);
  CQV_CANARY("page load returns");
}
void h_c04_page_mmap(void) { h_page(true); }
void h_c04_page_fread(void) { h_page(false); }

/* ---- carquet_read_dictionary_page: harness-is-contract (the assertions below are the ensures clauses of
 * its contract in contracts/page_reader.ovl); the byte-array loop carries its loop contract.
 * --enforce-contract is not used: its assigns instrumentation exhausts 8 GB on this function. */
void h_c04_read_dictionary_page(void) {
  carquet_column_reader_t *r = NULL;
  if (nondet_bool()) {
    r = pg_block(sizeof(*r));
    carquet_column_reader_t r0; *r = r0;
    r->has_dictionary = false; r->dictionary_data = NULL; r->dictionary_offsets = NULL;   /* call sites: !has_dictionary */
#if defined(PG_FLBA)
    __CPROVER_assume(r->type == CARQUET_PHYSICAL_FIXED_LEN_BYTE_ARRAY && r->type_length == PG_FLBA);
#elif defined(PG_NOT_FLBA)
    __CPROVER_assume(r->type != CARQUET_PHYSICAL_FIXED_LEN_BYTE_ARRAY);
#endif
  }
  size_t page_size = nondet_size_t();
  __CPROVER_assume(page_size <= ((size_t)1 << 31));       /* int32 page-header field at both call sites */
  uint8_t *page = nondet_bool() ? pg_block(page_size) : NULL;
  parquet_dictionary_page_header_t *h = NULL;
  if (nondet_bool()) { h = pg_block(sizeof(*h)); parquet_dictionary_page_header_t h0; *h = h0; }
  carquet_error_t *err = NULL;
  if (nondet_bool()) { err = pg_block(sizeof(*err)); err->code = CARQUET_OK; }
  carquet_status_t st = carquet_read_dictionary_page(r, page, page_size, h, err);
  __CPROVER_assert(st != CARQUET_ERROR_CRC_MISMATCH, "never a CRC error");
  __CPROVER_assert(!(r == NULL || page == NULL || h == NULL) || st != CARQUET_OK, "NULL argument refused");
  if (st != CARQUET_OK) {
    __CPROVER_assert(err == NULL || err->code != CARQUET_OK, "C04: failure leaves a non-OK code");
    __CPROVER_assert(r == NULL || (!r->has_dictionary && r->dictionary_data == NULL && r->dictionary_offsets == NULL), "failure leaves no dictionary storage behind");
    CQV_CANARY("read_dictionary_page can fail");
  } else {
    CQV_CANARY("read_dictionary_page can succeed");
    __CPROVER_assert(r->has_dictionary && r->dictionary_count == h->num_values && r->dictionary_count >= 0 && r->dictionary_data != NULL, "C04: entry count recorded, non-negative, storage present");
    __CPROVER_assert(__CPROVER_r_ok(r->dictionary_data, r->dictionary_size), "C04: dictionary_size bytes of dictionary storage are readable");
    if (r->type != CARQUET_PHYSICAL_BYTE_ARRAY) {
      __CPROVER_assert(r->dictionary_size == PG_DICT_VS(r->type, r->type_length) * (size_t)r->dictionary_count, "C04: fixed-width dictionary holds count entries of the width the decoder reads");
      CQV_CANARY("fixed-width dictionary accepted");
    } else {
      __CPROVER_assert(r->dictionary_size == page_size && r->dictionary_offsets != NULL, "C04: byte-array dictionary keeps the whole page and an offset table");
      __CPROVER_assert(__CPROVER_r_ok(r->dictionary_offsets, (size_t)r->dictionary_count << 2), "C04: offset table has count entries");
      if (cqv_k < (size_t)r->dictionary_count) {
        size_t o = r->dictionary_offsets[cqv_k];
        __CPROVER_assert(o + 4 <= page_size && o + 4 + (size_t)PG_LE32(page + o) <= page_size, "C04: every offset-table entry and the value it announces lie inside the page");
#ifndef PG_FLBA
        if (r->dictionary_count > 1) CQV_CANARY("byte-array dictionary with several entries accepted");
#endif
      }
    }
    free(r->dictionary_data); free(r->dictionary_offsets);
  }
  free(r); free(page); free(h); free(err);
  CQV_CANARY("read_dictionary_page returns");
}

/* ---- carquet_read_data_page_v1, safety half, BOUNDED: max_values <= PG_MAXV (all 7 loops unwound completely;
 * the facts "every decoded index < dictionary_count" and "every offset-table entry + 4 <= dictionary_size" are
 * universally quantified over a symbolic range, which the SAT back end cannot carry through loop contracts).
 * Level decoders, plain decoder, index decoder and gathers are the assumed contracts of stubs/pages_stubs.c. */
#ifdef PG_DECODE_STUBS
void h_c04_read_data_page_v1(void) {
  carquet_column_reader_t *r = pg_block(sizeof(*r));
  carquet_column_reader_t r0; *r = r0;
  /* case split: one job per physical type value (assigned, so that symbolic execution prunes the other branches) */
#ifdef PG_TYPE
  r->type = (carquet_physical_type_t)PG_TYPE;
#endif
#ifdef PG_FLBA
  r->type_length = PG_FLBA;
#endif
  int64_t max_values = nondet_i64();
  __CPROVER_assume(max_values >= 0 && max_values <= PG_MAXV);
  size_t vs = PG_VALUE_SIZE(r->type, r->type_length);
  void *values = pg_block(vs * (size_t)max_values);
  int16_t *def = nondet_bool() ? pg_block((size_t)max_values << 1) : NULL;
  int16_t *rep = nondet_bool() ? pg_block((size_t)max_values << 1) : NULL;
  size_t page_size = nondet_size_t();
  __CPROVER_assume(page_size <= ((size_t)1 << 31));
  uint8_t *page = pg_block(page_size);
  parquet_data_page_header_t *h = pg_block(sizeof(*h));
  parquet_data_page_header_t h0; *h = h0;
  __CPROVER_assume(h->num_values >= 0);          /* both call sites reject a negative count first (c6e3bde); asserted there */
  /* dictionary state as carquet_read_dictionary_page leaves it */
  r->dictionary_data = NULL; r->dictionary_offsets = NULL;
  if (r->has_dictionary) {
    __CPROVER_assume(r->dictionary_count >= 0);
    if (r->type == CARQUET_PHYSICAL_BYTE_ARRAY) {
      __CPROVER_assume(r->dictionary_count <= 3 && r->dictionary_size <= ((size_t)1 << 31));
      r->dictionary_data = pg_block(r->dictionary_size);
      r->dictionary_offsets = pg_block(12);
      if (0 < r->dictionary_count) __CPROVER_assume((size_t)r->dictionary_offsets[0] + 4 <= r->dictionary_size);
      if (1 < r->dictionary_count) __CPROVER_assume((size_t)r->dictionary_offsets[1] + 4 <= r->dictionary_size);
      if (2 < r->dictionary_count) __CPROVER_assume((size_t)r->dictionary_offsets[2] + 4 <= r->dictionary_size);
    } else {
      r->dictionary_size = PG_DICT_VS(r->type, r->type_length) * (size_t)r->dictionary_count;
      r->dictionary_data = pg_block(r->dictionary_size);
    }
  }
  __CPROVER_assume(r->indices_capacity <= ((size_t)1 << 31));
  r->indices_buffer = r->indices_capacity ? pg_block(r->indices_capacity << 2) : NULL;
  carquet_error_t *err = NULL;
  if (nondet_bool()) { err = pg_block(sizeof(*err)); err->code = CARQUET_OK; }
  int64_t got = -1;
  carquet_status_t st = carquet_read_data_page_v1(r, page, page_size, h, values, max_values, def, rep, &got, err);
  __CPROVER_assert(st != CARQUET_ERROR_CRC_MISMATCH, "never a CRC error");
  if (st == CARQUET_OK) {
    __CPROVER_assert(got >= 0 && got <= max_values, "C04: values_read within [0, max_values]");
    CQV_CANARY("read_data_page_v1 can succeed");
    if (got == PG_MAXV) CQV_CANARY("read_data_page_v1 can fill the buffer");
  } else {
    __CPROVER_assert(err == NULL || err->code != CARQUET_OK, "C04: failure leaves a non-OK code");
    CQV_CANARY("read_data_page_v1 can fail");
  }
  __CPROVER_assert(r->indices_buffer == NULL || __CPROVER_r_ok(r->indices_buffer, r->indices_capacity << 2), "indices buffer and capacity stay consistent");
  free(r->indices_buffer); free(r->dictionary_data); free(r->dictionary_offsets);
  free(r); free(values); free(def); free(rep); free(page); free(h); free(err);
  CQV_CANARY("read_data_page_v1 returns");
}
#endif
