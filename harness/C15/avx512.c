/* C15: AVX-512 bool kernels of src/simd/x86/avx512_ops.c, bounded in count (0..130: zero, one and two
 * 64-wide steps, every remainder), symbolic data.  Safety: every load inside input[0..count) resp.
 * input[0..ceil(count/8)) (exact-size heap object), every store inside the output range (guard bytes
 * after it must keep their value).  Function: same definitions as the scalar kernels.
 * Job define __AVX512F__=1 stands for the -mavx512f -mavx512bw -mavx512vl flags (source guard). */
#include "cqv.h"
#include <stdlib.h>
#include "simd_spec.h"
#include "src/simd/x86/avx512_ops.c"
#ifndef __AVX512F__
#error "job must define __AVX512F__"
#endif
#define CAP 130

void h_avx512_pack_bools_bounded(void) {
  int64_t count = nondet_i64();
  __CPROVER_assume(0 <= count && count <= CAP);
  uint8_t *in = malloc((size_t)count);              /* exact size: any over-read is out of bounds */
  __CPROVER_assume(in != NULL);
  uint8_t out[(CAP + 7) / 8 + 16];                  /* ceil(count/8) result bytes, then guard bytes */
  size_t nbytes = ((size_t)count + 7) >> 3;
  size_t m = nondet_size_t(); int64_t k = nondet_i64();
  __CPROVER_assume(m >= nbytes && m < sizeof out && 0 <= k && k < SPEC_ROUNDUP8(count));
  uint8_t old_m = out[m];
  _Bool want = k < count && in[k] != 0;
  carquet_avx512_pack_bools(in, out, count);
  __CPROVER_assert(out[m] == old_m, "no store at or after output + ceil(count/8)");
  __CPROVER_assert(SPEC_BIT(out, k) == want, "bit k == (input[k] != 0), padding bits 0");
  if (count == 130) CQV_CANARY("two vector steps and a 2-element tail");
  if (count == 72) CQV_CANARY("tail of exactly 8 elements");
  CQV_CANARY("returns");
}

void h_avx512_unpack_bools_bounded(void) {
  int64_t count = nondet_i64();
  __CPROVER_assume(0 <= count && count <= CAP);
  uint8_t *in = malloc(((size_t)count + 7) >> 3);   /* exact size: any over-read is out of bounds */
  __CPROVER_assume(in != NULL);
  uint8_t out[CAP + 16];
  size_t m = nondet_size_t(); int64_t k = nondet_i64();
  __CPROVER_assume(m >= (size_t)count && m < sizeof out && 0 <= k && k < count);
  uint8_t old_m = out[m];
  uint8_t want = SPEC_BIT(in, k);
  carquet_avx512_unpack_bools(in, out, count);
  __CPROVER_assert(out[m] == old_m, "no store at or after output + count");
  __CPROVER_assert(out[k] == want, "output[k] == bit k of the input");
  if (count == 130) CQV_CANARY("two vector steps and a tail");
  CQV_CANARY("returns");
}

/* dictionary gathers, bounded in count (0..40), symbolic data.  indices is an exact-size heap object
 * (any load of indices outside [0,count) is out of bounds); output has 16 guard elements after
 * output[count) that must keep their value (a vector store reaches at most 64 bytes further); the
 * dictionary has 64 entries and every index is < 64 (the kernel domain; the gather instructions
 * sign-extend the 32-bit index, so indices >= 2^31 are outside the domain of these kernels). */
#define GCAP 40
void h_avx512_gather_i32_bounded(void) {
  int64_t count = nondet_i64();
  __CPROVER_assume(0 <= count && count <= GCAP);
  int32_t dict[64], output[GCAP + 16];
  uint32_t *indices = malloc((size_t)count * 4);
  __CPROVER_assume(indices != NULL);
  for (int64_t j = 0; j < GCAP; j++) if (j < count) __CPROVER_assume(indices[j] < 64);
  int64_t k = nondet_i64(), m = nondet_i64();
  __CPROVER_assume(0 <= k && k < count && count <= m && m < GCAP + 16);
  uint32_t old_m = ((const uint32_t *)output)[m];
  uint32_t want = ((const uint32_t *)dict)[indices[k]];
  carquet_avx512_gather_i32(dict, indices, count, output);
  __CPROVER_assert(((const uint32_t *)output)[k] == want, "output[k] == dict[indices[k]]");
  __CPROVER_assert(((const uint32_t *)output)[m] == old_m, "no store at or after output + count");
  if (count == GCAP) CQV_CANARY("full-width steps taken");
  if (count == 39) CQV_CANARY("vector steps and scalar remainder taken");
  CQV_CANARY("returns");
}
void h_avx512_gather_i64_bounded(void) {
  int64_t count = nondet_i64();
  __CPROVER_assume(0 <= count && count <= GCAP);
  int64_t dict[64], output[GCAP + 16];
  uint32_t *indices = malloc((size_t)count * 4);
  __CPROVER_assume(indices != NULL);
  for (int64_t j = 0; j < GCAP; j++) if (j < count) __CPROVER_assume(indices[j] < 64);
  int64_t k = nondet_i64(), m = nondet_i64();
  __CPROVER_assume(0 <= k && k < count && count <= m && m < GCAP + 16);
  uint64_t old_m = ((const uint64_t *)output)[m];
  uint64_t want = ((const uint64_t *)dict)[indices[k]];
  carquet_avx512_gather_i64(dict, indices, count, output);
  __CPROVER_assert(((const uint64_t *)output)[k] == want, "output[k] == dict[indices[k]]");
  __CPROVER_assert(((const uint64_t *)output)[m] == old_m, "no store at or after output + count");
  if (count == GCAP) CQV_CANARY("full-width steps taken");
  if (count == 39) CQV_CANARY("vector steps and scalar remainder taken");
  CQV_CANARY("returns");
}
void h_avx512_gather_float_bounded(void) {
  int64_t count = nondet_i64();
  __CPROVER_assume(0 <= count && count <= GCAP);
  float dict[64], output[GCAP + 16];
  uint32_t *indices = malloc((size_t)count * 4);
  __CPROVER_assume(indices != NULL);
  for (int64_t j = 0; j < GCAP; j++) if (j < count) __CPROVER_assume(indices[j] < 64);
  int64_t k = nondet_i64(), m = nondet_i64();
  __CPROVER_assume(0 <= k && k < count && count <= m && m < GCAP + 16);
  uint32_t old_m = ((const uint32_t *)output)[m];
  uint32_t want = ((const uint32_t *)dict)[indices[k]];
  carquet_avx512_gather_float(dict, indices, count, output);
  __CPROVER_assert(((const uint32_t *)output)[k] == want, "output[k] == dict[indices[k]]");
  __CPROVER_assert(((const uint32_t *)output)[m] == old_m, "no store at or after output + count");
  if (count == GCAP) CQV_CANARY("full-width steps taken");
  if (count == 39) CQV_CANARY("vector steps and scalar remainder taken");
  CQV_CANARY("returns");
}
void h_avx512_gather_double_bounded(void) {
  int64_t count = nondet_i64();
  __CPROVER_assume(0 <= count && count <= GCAP);
  double dict[64], output[GCAP + 16];
  uint32_t *indices = malloc((size_t)count * 4);
  __CPROVER_assume(indices != NULL);
  for (int64_t j = 0; j < GCAP; j++) if (j < count) __CPROVER_assume(indices[j] < 64);
  int64_t k = nondet_i64(), m = nondet_i64();
  __CPROVER_assume(0 <= k && k < count && count <= m && m < GCAP + 16);
  uint64_t old_m = ((const uint64_t *)output)[m];
  uint64_t want = ((const uint64_t *)dict)[indices[k]];
  carquet_avx512_gather_double(dict, indices, count, output);
  __CPROVER_assert(((const uint64_t *)output)[k] == want, "output[k] == dict[indices[k]]");
  __CPROVER_assert(((const uint64_t *)output)[m] == old_m, "no store at or after output + count");
  if (count == GCAP) CQV_CANARY("full-width steps taken");
  if (count == 39) CQV_CANARY("vector steps and scalar remainder taken");
  CQV_CANARY("returns");
}
