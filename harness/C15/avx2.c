/* C15: carquet_avx2_pack_bools of src/simd/x86/avx2_ops.c, bounded in count (0..130), symbolic data.
 * Safety as in harness/C15/avx512.c.  Function: on the documented domain (every input byte 0 or 1;
 * the kernel multiplies bytes by bit weights, so another byte value disturbs neighbouring bits). */
#include "cqv.h"
#include <stdlib.h>
#include "simd_spec.h"
/* same MOVQ models as harness/C15/sse.c (CBMC cannot cast __m64 to long long) */
#include <immintrin.h>
typedef long long cqv_ll_u __attribute__((__may_alias__, __aligned__(1)));
static inline __m128i cqv_mm_loadl_epi64(const void *p) { return _mm_set_epi64x(0, *(const cqv_ll_u *)p); }
static inline void cqv_mm_storel_epi64(void *p, __m128i v) { *(cqv_ll_u *)p = ((__v2di)v)[0]; }
#define _mm_loadl_epi64(p) cqv_mm_loadl_epi64(p)
#define _mm_storel_epi64(p, v) cqv_mm_storel_epi64((p), (v))
#include "src/simd/x86/avx2_ops.c"
#ifndef __AVX2__
#error "job must define __AVX2__"
#endif
#define CAP 130

void h_avx2_pack_bools_bounded(void) {
  int64_t count = nondet_i64();
  __CPROVER_assume(0 <= count && count <= CAP);
  uint8_t *in = malloc((size_t)count);              /* exact size: any over-read is out of bounds */
  __CPROVER_assume(in != NULL);
#ifndef CQV_ANY_BYTE
  for (int64_t j = 0; j < CAP; j++) if (j < count) __CPROVER_assume(in[j] <= 1);   /* kernel domain */
#endif
  uint8_t out[(CAP + 7) / 8 + 16];
  size_t nbytes = ((size_t)count + 7) >> 3;
  size_t m = nondet_size_t(); int64_t k = nondet_i64();
  __CPROVER_assume(m >= nbytes && m < sizeof out && 0 <= k && k < SPEC_ROUNDUP8(count));
  uint8_t old_m = out[m];
  _Bool want = k < count && in[k] != 0;
  carquet_avx2_pack_bools(in, out, count);
  __CPROVER_assert(out[m] == old_m, "no store at or after output + ceil(count/8)");
  __CPROVER_assert(SPEC_BIT(out, k) == want, "bit k == input[k] on the 0/1 domain, padding bits 0");
  if (count == 130) CQV_CANARY("vector steps and a tail");
  CQV_CANARY("returns");
}
