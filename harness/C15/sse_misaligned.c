/* C15, alignment quantifier ("every buffer alignment"), bounded in count: the real SSE4.2 kernels of
 * src/simd/x86/sse_ops.c on buffers that start k elements (k in 0..15) into an exactly sized heap block,
 * count in 0..CQV_MIS_MAX, all data.  No overlay, no contract, no ghost state: the statements are the scalar
 * definitions of src/simd/dispatch.c written out below; an access outside [0,count) of the caller's array
 * leaves the heap block (exact size) or hits the guard checks.  Under CBMC's pointer model the integer value
 * of base+k has (base+k) mod 64 == (k*elemsize) mod 64 (objects are 64-byte aligned at offset 0), so code
 * that looks at address bits (alignment prologues) is exercised for every relative alignment.
 * These jobs still decide small counts after a kernel has been restructured (no extraction drift). */
#include "sse.c"
#ifndef CQV_MIS_MAX
#define CQV_MIS_MAX 24
#endif
#define MIS_K 8

void h_sse_mis_crc32c(void) {
  size_t k = nondet_size_t(), len = nondet_size_t();
  __CPROVER_assume(k < MIS_K && len <= CQV_MIS_MAX);
  uint8_t *base = malloc(k + len);
  __CPROVER_assume(base != NULL);
  const uint8_t *p = base + k;
  uint32_t c0 = nondet_u32();
  uint32_t r = carquet_sse_crc32c(c0, p, len);
  uint32_t a = ~c0;
  for (size_t i = 0; i < CQV_MIS_MAX; i++) if (i < len) a = spec_crc32c_byte(a, p[i]);
  __CPROVER_assert(r == ~a, "sse crc32c == bit-serial CRC-32C of exactly len bytes (any alignment)");
  if (k % 8 != 0 && len < 8 - k % 8) CQV_CANARY("mis crc32c: short input at a misaligned address");
  CQV_CANARY("mis crc32c returns");
}

void h_sse_mis_count_non_nulls(void) {
  size_t k = nondet_size_t(); int64_t n = nondet_i64(); int16_t md = (int16_t)nondet_int();
  __CPROVER_assume(k < MIS_K && n >= 0 && n <= CQV_MIS_MAX);
  int16_t *base = malloc((k + (size_t)n) * 2);
  __CPROVER_assume(base != NULL);
  const int16_t *lv = base + k;
  int64_t r = carquet_sse_count_non_nulls(lv, n, md);
  int64_t c = 0;
  for (int64_t i = 0; i < CQV_MIS_MAX; i++) if (i < n && lv[i] == md) c++;
  __CPROVER_assert(r == c, "sse count_non_nulls == number of levels equal to max_def (any alignment)");
  CQV_CANARY("mis count_non_nulls returns");
}

void h_sse_mis_build_null_bitmap(void) {
  size_t k = nondet_size_t(), kb = nondet_size_t(); int64_t n = nondet_i64(); int16_t md = (int16_t)nondet_int();
  __CPROVER_assume(k < MIS_K && kb < MIS_K && n >= 0 && n <= CQV_MIS_MAX);
  int16_t *base = malloc((k + (size_t)n) * 2);
  size_t nb = ((size_t)n + 7) / 8;
  uint8_t *bm0 = malloc(kb + nb);
  __CPROVER_assume(base != NULL && bm0 != NULL);
  const int16_t *lv = base + k;
  uint8_t *bm = bm0 + kb;
  carquet_sse_build_null_bitmap(lv, n, md, bm);
  int64_t j = nondet_i64();
  __CPROVER_assume(j >= 0 && j < n);
  __CPROVER_assert(((bm[j >> 3] >> (j & 7)) & 1) == (lv[j] < md), "sse build_null_bitmap: bit j set iff level j below max_def (any alignment)");
  size_t t = nondet_size_t();
  __CPROVER_assume(t >= (size_t)n && t < nb * 8);
  __CPROVER_assert(((bm[t >> 3] >> (t & 7)) & 1) == 0, "sse build_null_bitmap: bits past count in the last byte are clear");
  CQV_CANARY("mis build_null_bitmap returns");
}

void h_sse_mis_unpack_bools(void) {
  size_t k = nondet_size_t(), ko = nondet_size_t(); int64_t n = nondet_i64();
  __CPROVER_assume(k < MIS_K && ko < MIS_K && n >= 0 && n <= CQV_MIS_MAX);
  size_t nb = ((size_t)n + 7) / 8;
  uint8_t *in0 = malloc(k + nb), *out0 = malloc(ko + (size_t)n);
  __CPROVER_assume(in0 != NULL && out0 != NULL);
  const uint8_t *in = in0 + k; uint8_t *out = out0 + ko;
  carquet_sse_unpack_bools(in, out, n);
  int64_t j = nondet_i64();
  __CPROVER_assume(j >= 0 && j < n);
  __CPROVER_assert(out[j] == ((in[j >> 3] >> (j & 7)) & 1), "sse unpack_bools: out[j] is bit j of the input (any alignment)");
  CQV_CANARY("mis unpack_bools returns");
}

void h_sse_mis_find_run_length_i32(void) {
  size_t k = nondet_size_t(); int64_t n = nondet_i64();
  __CPROVER_assume(k < MIS_K && n >= 0 && n <= CQV_MIS_MAX);
  int32_t *base = malloc((k + (size_t)n) * 4);
  __CPROVER_assume(base != NULL);
  const int32_t *v = base + k;
  int64_t r = carquet_sse_find_run_length_i32(v, n);
  int64_t j = nondet_i64();
  __CPROVER_assert(r >= 0 && r <= n && (n == 0 || r >= 1), "sse find_run_length: result in 1..count (0 for count 0)");
  __CPROVER_assert(!(j >= 0 && j < r) || v[j] == v[0], "sse find_run_length: the first r values equal the first value");
  __CPROVER_assert(!(r < n) || v[r] != v[0], "sse find_run_length: value r differs unless the run covers everything");
  CQV_CANARY("mis find_run_length returns");
}

void h_sse_mis_prefix_sum_i32(void) {
  size_t k = nondet_size_t(); int64_t n = nondet_i64(); int32_t init = nondet_i32();
  __CPROVER_assume(k < MIS_K && n >= 0 && n <= CQV_MIS_MAX);
  int32_t *base = malloc((k + (size_t)n) * 4);
  __CPROVER_assume(base != NULL);
  int32_t *v = base + k;
  int64_t j = nondet_i64();
  __CPROVER_assume(j >= 0 && j < n);
  uint32_t s = (uint32_t)init;
  for (int64_t i = 0; i < CQV_MIS_MAX; i++) if (i <= j) s += (uint32_t)v[i];
  carquet_sse_prefix_sum_i32(v, n, init);
  __CPROVER_assert((uint32_t)v[j] == s, "sse prefix_sum_i32: values[j] == initial + sum of the first j+1 inputs, wrapping (any alignment)");
  CQV_CANARY("mis prefix_sum returns");
}

void h_sse_mis_fill_def_levels(void) {
  size_t k = nondet_size_t(); int64_t n = nondet_i64(); int16_t val = (int16_t)nondet_int();
  __CPROVER_assume(k < MIS_K && n >= 0 && n <= CQV_MIS_MAX);
  int16_t *base = malloc((k + (size_t)n) * 2);
  __CPROVER_assume(base != NULL);
  int16_t *lv = base + k;
  size_t g = nondet_size_t();
  __CPROVER_assume(g < k);
  int16_t before = base[g];
  carquet_sse_fill_def_levels(lv, n, val);
  int64_t j = nondet_i64();
  __CPROVER_assume(j >= 0 && j < n);
  __CPROVER_assert(lv[j] == val, "sse fill_def_levels: every element is the value (any alignment)");
  __CPROVER_assert(base[g] == before, "sse fill_def_levels: elements before the array are unchanged");
  CQV_CANARY("mis fill_def_levels returns");
}
