/* C15: runtime dispatcher of src/simd/dispatch.c for EVERY CPU capability struct.
 * carquet_get_cpu_info() is replaced by an assumed contract: it returns a pointer to an
 * arbitrary capability struct (cqv_cpu, every field nondeterministic).  The vector kernels
 * carquet_{sse,avx2,avx512}_* are declared-only here (their own jobs prove them). */
#include "cqv.h"
#include "simd_spec.h"
#include <carquet/carquet.h>
carquet_cpu_info_t cqv_cpu;
int cqv_cpu_calls;
const carquet_cpu_info_t *carquet_get_cpu_info(void) { cqv_cpu_calls++; return &cqv_cpu; }
#include "src/simd/dispatch.c"

static void havoc_cpu(void) {
  cqv_cpu.has_sse2 = nondet_bool(); cqv_cpu.has_sse41 = nondet_bool(); cqv_cpu.has_sse42 = nondet_bool();
  cqv_cpu.has_avx = nondet_bool(); cqv_cpu.has_avx2 = nondet_bool(); cqv_cpu.has_avx512f = nondet_bool();
  cqv_cpu.has_avx512bw = nondet_bool(); cqv_cpu.has_avx512vl = nondet_bool(); cqv_cpu.has_avx512vbmi = nondet_bool();
  cqv_cpu.has_neon = nondet_bool(); cqv_cpu.has_sve = nondet_bool(); cqv_cpu.sve_vector_length = nondet_int();
}
static void havoc_table(void) {
  /* the table content before init is irrelevant: start from arbitrary bytes */
  uint8_t *t = (uint8_t *)&g_dispatch;
  for (unsigned i = 0; i < sizeof g_dispatch; i++) t[i] = nondet_u8();
}

/* slots that exist at all four levels / at scalar+SSE only */
#define SLOTS4(X) \
  X(prefix_sum_i32, scalar_prefix_sum_i32, carquet_sse_prefix_sum_i32, carquet_avx2_prefix_sum_i32, carquet_avx512_prefix_sum_i32) \
  X(prefix_sum_i64, scalar_prefix_sum_i64, carquet_sse_prefix_sum_i64, carquet_avx2_prefix_sum_i64, carquet_avx512_prefix_sum_i64) \
  X(gather_i32, scalar_gather_i32, carquet_sse_gather_i32, carquet_avx2_gather_i32, carquet_avx512_gather_i32) \
  X(gather_i64, scalar_gather_i64, carquet_sse_gather_i64, carquet_avx2_gather_i64, carquet_avx512_gather_i64) \
  X(gather_float, scalar_gather_float, carquet_sse_gather_float, carquet_avx2_gather_float, carquet_avx512_gather_float) \
  X(gather_double, scalar_gather_double, carquet_sse_gather_double, carquet_avx2_gather_double, carquet_avx512_gather_double) \
  X(byte_split_encode_float, scalar_byte_split_encode_float, carquet_sse_byte_stream_split_encode_float, carquet_avx2_byte_stream_split_encode_float, carquet_avx512_byte_stream_split_encode_float) \
  X(byte_split_decode_float, scalar_byte_split_decode_float, carquet_sse_byte_stream_split_decode_float, carquet_avx2_byte_stream_split_decode_float, carquet_avx512_byte_stream_split_decode_float) \
  X(unpack_bools, scalar_unpack_bools, carquet_sse_unpack_bools, carquet_avx2_unpack_bools, carquet_avx512_unpack_bools) \
  X(pack_bools, scalar_pack_bools, carquet_sse_pack_bools, carquet_avx2_pack_bools, carquet_avx512_pack_bools) \
  X(find_run_length_i32, scalar_find_run_length_i32, carquet_sse_find_run_length_i32, carquet_avx2_find_run_length_i32, carquet_avx512_find_run_length_i32)
#define SLOTS2(X) \
  X(byte_split_encode_double, scalar_byte_split_encode_double, carquet_sse_byte_stream_split_encode_double) \
  X(byte_split_decode_double, scalar_byte_split_decode_double, carquet_sse_byte_stream_split_decode_double) \
  X(crc32c, scalar_crc32c, carquet_sse_crc32c) \
  X(match_copy, scalar_match_copy, carquet_sse_match_copy) \
  X(match_length, scalar_match_length, carquet_sse_match_length) \
  X(count_non_nulls, scalar_count_non_nulls, carquet_sse_count_non_nulls) \
  X(build_null_bitmap, scalar_build_null_bitmap, carquet_sse_build_null_bitmap) \
  X(fill_def_levels, scalar_fill_def_levels, carquet_sse_fill_def_levels)

/* (1) after init: every slot non-NULL, a known kernel, selected by the documented override order
 *     scalar < SSE4.2 < AVX2 < AVX-512 on the flags the dispatcher consults; second call is a no-op */
void h_dispatch_init(void) {
  havoc_cpu();
  havoc_table();
  g_dispatch_initialized = 0;
  cqv_cpu_calls = 0;
  carquet_simd_dispatch_init();
  __CPROVER_assert(g_dispatch_initialized == 1, "table marked initialised");
  const carquet_cpu_info_t *c = &cqv_cpu;
#define CHK4(slot, sc, sse, avx2, avx512) \
  __CPROVER_assert(g_dispatch.slot != NULL, #slot " is non-NULL"); \
  __CPROVER_assert(g_dispatch.slot == sc || (SPEC_CPU_OK_SSE(c) && g_dispatch.slot == sse) || (SPEC_CPU_OK_AVX2(c) && g_dispatch.slot == avx2) || (SPEC_CPU_OK_AVX512(c) && g_dispatch.slot == avx512), #slot " is a kernel of a level the CPU supports completely"); \
  __CPROVER_assert(g_dispatch.slot == (SPEC_CPU_OK_AVX512(c) ? avx512 : SPEC_CPU_OK_AVX2(c) ? avx2 : SPEC_CPU_OK_SSE(c) ? sse : sc), #slot " override order scalar < SSE < AVX2 < AVX-512");
#define CHK2(slot, sc, sse) \
  __CPROVER_assert(g_dispatch.slot != NULL, #slot " is non-NULL"); \
  __CPROVER_assert(g_dispatch.slot == (SPEC_CPU_OK_SSE(c) ? sse : sc), #slot " is SSE iff has_sse42 else scalar");
  SLOTS4(CHK4)
  SLOTS2(CHK2)
  if (SPEC_CPU_OK_AVX512(c)) CQV_CANARY("avx512 level reachable");
  if (c->has_avx512f && !c->has_avx512bw && c->has_avx2) CQV_CANARY("F-only CPU falls back to avx2");
  if (!SPEC_CPU_OK_AVX512(c) && c->has_avx2) CQV_CANARY("avx2 level reachable");
  if (!SPEC_CPU_OK_AVX512(c) && !c->has_avx2 && c->has_sse42) CQV_CANARY("sse level reachable");
  if (!SPEC_CPU_OK_AVX512(c) && !c->has_avx2 && !c->has_sse42) CQV_CANARY("scalar level reachable");
  /* idempotence: flip the capabilities, call again: nothing changes, CPU not even consulted */
  carquet_simd_dispatch_t before = g_dispatch;
  int calls = cqv_cpu_calls;
  havoc_cpu();
  carquet_simd_dispatch_init();
  __CPROVER_assert(cqv_cpu_calls == calls, "second init does not re-detect");
#define SAME4(slot, a, b, c_, d) __CPROVER_assert(g_dispatch.slot == before.slot, #slot " unchanged by second init");
#define SAME2(slot, a, b) __CPROVER_assert(g_dispatch.slot == before.slot, #slot " unchanged by second init");
  SLOTS4(SAME4)
  SLOTS2(SAME2)
  CQV_CANARY("dispatch init harness end");
}

/* (2) ISA of the selected kernel is a subset of what the CPU reports, with the ISA sets taken from
 *     the compile flags in CMakeLists.txt (specs/simd_spec.h SPEC_CPU_OK_*) */
void h_dispatch_isa_subset(void) {
  havoc_cpu();
  havoc_table();
  g_dispatch_initialized = 0;
  carquet_simd_dispatch_init();
  const carquet_cpu_info_t *c = &cqv_cpu;
#define ISA4(slot, sc, sse, avx2, avx512) \
  __CPROVER_assert(g_dispatch.slot != sse || SPEC_CPU_OK_SSE(c), #slot ": SSE4.2 kernel only on a CPU with every ISA extension it is compiled for"); \
  __CPROVER_assert(g_dispatch.slot != avx2 || SPEC_CPU_OK_AVX2(c), #slot ": AVX2 kernel only on a CPU with every ISA extension it is compiled for"); \
  __CPROVER_assert(g_dispatch.slot != avx512 || SPEC_CPU_OK_AVX512(c), #slot ": AVX-512 kernel (built -mavx512f -mavx512bw -mavx512vl) only on a CPU reporting F, BW and VL");
#define ISA2(slot, sc, sse) \
  __CPROVER_assert(g_dispatch.slot != sse || SPEC_CPU_OK_SSE(c), #slot ": SSE4.2 kernel only on a CPU with every ISA extension it is compiled for");
  SLOTS4(ISA4)
  SLOTS2(ISA2)
  CQV_CANARY("dispatch isa harness end");
}

/* (3) wrappers pass their arguments unchanged to the slot and return its result.  The slot is a
 *     recorder; one entry per signature class, all 19 wrappers. */
static const void *r_p[4]; static int64_t r_i[2]; static uint64_t r_u[2]; static int r_calls; static uint64_t r_ret;
static void rec_ps32(int32_t *v, int64_t n, int32_t init) { r_calls++; r_p[0] = v; r_i[0] = n; r_i[1] = init; }
static void rec_ps64(int64_t *v, int64_t n, int64_t init) { r_calls++; r_p[0] = v; r_i[0] = n; r_i[1] = init; }
static void rec_g32(const int32_t *d, const uint32_t *ix, int64_t n, int32_t *o) { r_calls++; r_p[0] = d; r_p[1] = ix; r_i[0] = n; r_p[2] = o; }
static void rec_g64(const int64_t *d, const uint32_t *ix, int64_t n, int64_t *o) { r_calls++; r_p[0] = d; r_p[1] = ix; r_i[0] = n; r_p[2] = o; }
static void rec_gf(const float *d, const uint32_t *ix, int64_t n, float *o) { r_calls++; r_p[0] = d; r_p[1] = ix; r_i[0] = n; r_p[2] = o; }
static void rec_gd(const double *d, const uint32_t *ix, int64_t n, double *o) { r_calls++; r_p[0] = d; r_p[1] = ix; r_i[0] = n; r_p[2] = o; }
static void rec_ef(const float *v, int64_t n, uint8_t *o) { r_calls++; r_p[0] = v; r_i[0] = n; r_p[1] = o; }
static void rec_df(const uint8_t *v, int64_t n, float *o) { r_calls++; r_p[0] = v; r_i[0] = n; r_p[1] = o; }
static void rec_ed(const double *v, int64_t n, uint8_t *o) { r_calls++; r_p[0] = v; r_i[0] = n; r_p[1] = o; }
static void rec_dd(const uint8_t *v, int64_t n, double *o) { r_calls++; r_p[0] = v; r_i[0] = n; r_p[1] = o; }
static void rec_bools(const uint8_t *in, uint8_t *o, int64_t n) { r_calls++; r_p[0] = in; r_p[1] = o; r_i[0] = n; }
static int64_t rec_run(const int32_t *v, int64_t n) { r_calls++; r_p[0] = v; r_i[0] = n; return (int64_t)r_ret; }
static uint32_t rec_crc(uint32_t crc, const uint8_t *d, size_t n) { r_calls++; r_u[0] = crc; r_p[0] = d; r_u[1] = n; return (uint32_t)r_ret; }
static void rec_mc(uint8_t *d, const uint8_t *s, size_t n, size_t off) { r_calls++; r_p[0] = d; r_p[1] = s; r_u[0] = n; r_u[1] = off; }
static size_t rec_ml(const uint8_t *p, const uint8_t *m, const uint8_t *l) { r_calls++; r_p[0] = p; r_p[1] = m; r_p[2] = l; return (size_t)r_ret; }
static int64_t rec_cnn(const int16_t *d, int64_t n, int16_t m) { r_calls++; r_p[0] = d; r_i[0] = n; r_i[1] = m; return (int64_t)r_ret; }
static void rec_bnb(const int16_t *d, int64_t n, int16_t m, uint8_t *bm) { r_calls++; r_p[0] = d; r_i[0] = n; r_i[1] = m; r_p[1] = bm; }
static void rec_fill(int16_t *d, int64_t n, int16_t v) { r_calls++; r_p[0] = d; r_i[0] = n; r_i[1] = v; }

void h_dispatch_wrappers(void) {
  g_dispatch_initialized = 1;
  g_dispatch.prefix_sum_i32 = rec_ps32; g_dispatch.prefix_sum_i64 = rec_ps64;
  g_dispatch.gather_i32 = rec_g32; g_dispatch.gather_i64 = rec_g64; g_dispatch.gather_float = rec_gf; g_dispatch.gather_double = rec_gd;
  g_dispatch.byte_split_encode_float = rec_ef; g_dispatch.byte_split_decode_float = rec_df;
  g_dispatch.byte_split_encode_double = rec_ed; g_dispatch.byte_split_decode_double = rec_dd;
  g_dispatch.unpack_bools = rec_bools; g_dispatch.pack_bools = rec_bools;
  g_dispatch.find_run_length_i32 = rec_run; g_dispatch.crc32c = rec_crc; g_dispatch.match_copy = rec_mc;
  g_dispatch.match_length = rec_ml; g_dispatch.count_non_nulls = rec_cnn; g_dispatch.build_null_bitmap = rec_bnb;
  g_dispatch.fill_def_levels = rec_fill;
  void *a = nondet_ptr(), *b = nondet_ptr(), *c = nondet_ptr();
  int64_t n = nondet_i64(); int64_t v = nondet_i64(); uint64_t u = nondet_u64(), w = nondet_u64();
  r_ret = nondet_u64();
  int which = nondet_int();
  __CPROVER_assume(which >= 0 && which < 19);
  r_calls = 0;
  cqv_cpu_calls = 0;
  switch (which) {
  case 0: carquet_dispatch_prefix_sum_i32(a, n, (int32_t)v); __CPROVER_assert(r_p[0] == a && r_i[0] == n && r_i[1] == (int32_t)v, "prefix_sum_i32 args unchanged"); break;
  case 1: carquet_dispatch_prefix_sum_i64(a, n, v); __CPROVER_assert(r_p[0] == a && r_i[0] == n && r_i[1] == v, "prefix_sum_i64 args unchanged"); break;
  case 2: carquet_dispatch_gather_i32(a, b, n, c); __CPROVER_assert(r_p[0] == a && r_p[1] == b && r_i[0] == n && r_p[2] == c, "gather_i32 args unchanged"); break;
  case 3: carquet_dispatch_gather_i64(a, b, n, c); __CPROVER_assert(r_p[0] == a && r_p[1] == b && r_i[0] == n && r_p[2] == c, "gather_i64 args unchanged"); break;
  case 4: carquet_dispatch_gather_float(a, b, n, c); __CPROVER_assert(r_p[0] == a && r_p[1] == b && r_i[0] == n && r_p[2] == c, "gather_float args unchanged"); break;
  case 5: carquet_dispatch_gather_double(a, b, n, c); __CPROVER_assert(r_p[0] == a && r_p[1] == b && r_i[0] == n && r_p[2] == c, "gather_double args unchanged"); break;
  case 6: carquet_dispatch_byte_split_encode_float(a, n, b); __CPROVER_assert(r_p[0] == a && r_i[0] == n && r_p[1] == b, "bss encode float args unchanged"); break;
  case 7: carquet_dispatch_byte_split_decode_float(a, n, b); __CPROVER_assert(r_p[0] == a && r_i[0] == n && r_p[1] == b, "bss decode float args unchanged"); break;
  case 8: carquet_dispatch_byte_split_encode_double(a, n, b); __CPROVER_assert(r_p[0] == a && r_i[0] == n && r_p[1] == b, "bss encode double args unchanged"); break;
  case 9: carquet_dispatch_byte_split_decode_double(a, n, b); __CPROVER_assert(r_p[0] == a && r_i[0] == n && r_p[1] == b, "bss decode double args unchanged"); break;
  case 10: carquet_dispatch_unpack_bools(a, b, n); __CPROVER_assert(r_p[0] == a && r_p[1] == b && r_i[0] == n, "unpack_bools args unchanged"); break;
  case 11: carquet_dispatch_pack_bools(a, b, n); __CPROVER_assert(r_p[0] == a && r_p[1] == b && r_i[0] == n, "pack_bools args unchanged"); break;
  case 12: { int64_t r = carquet_dispatch_find_run_length_i32(a, n); __CPROVER_assert(r_p[0] == a && r_i[0] == n && r == (int64_t)r_ret, "find_run_length args and result unchanged"); break; }
  case 13: { uint32_t r = carquet_dispatch_crc32c((uint32_t)u, a, (size_t)w); __CPROVER_assert(r_u[0] == (uint32_t)u && r_p[0] == a && r_u[1] == w && r == (uint32_t)r_ret, "crc32c args and result unchanged"); break; }
  case 14: carquet_dispatch_match_copy(a, b, (size_t)u, (size_t)w); __CPROVER_assert(r_p[0] == a && r_p[1] == b && r_u[0] == u && r_u[1] == w, "match_copy args unchanged"); break;
  case 15: { size_t r = carquet_dispatch_match_length(a, b, c); __CPROVER_assert(r_p[0] == a && r_p[1] == b && r_p[2] == c && r == (size_t)r_ret, "match_length args and result unchanged"); break; }
  case 16: { int64_t r = carquet_dispatch_count_non_nulls(a, n, (int16_t)v); __CPROVER_assert(r_p[0] == a && r_i[0] == n && r_i[1] == (int16_t)v && r == (int64_t)r_ret, "count_non_nulls args and result unchanged"); break; }
  case 17: carquet_dispatch_build_null_bitmap(a, n, (int16_t)v, b); __CPROVER_assert(r_p[0] == a && r_i[0] == n && r_i[1] == (int16_t)v && r_p[1] == b, "build_null_bitmap args unchanged"); break;
  default: carquet_dispatch_fill_def_levels(a, n, (int16_t)v); __CPROVER_assert(r_p[0] == a && r_i[0] == n && r_i[1] == (int16_t)v, "fill_def_levels args unchanged"); break;
  }
  __CPROVER_assert(r_calls == 1, "slot called exactly once");
  __CPROVER_assert(cqv_cpu_calls == 0, "initialised table: no re-initialisation");
  if (which == 0) CQV_CANARY("wrapper 0 reachable");
  if (which == 13) CQV_CANARY("wrapper 13 reachable");
  if (which == 18) CQV_CANARY("wrapper 18 reachable");
  CQV_CANARY("dispatch wrappers harness end");
}

/* (4) wrapper on an uninitialised table initialises it first and then calls a valid kernel
 *     (count/len = 0 so that the selected kernel's body is irrelevant here) */
void h_dispatch_wrappers_lazy(void) {
  havoc_cpu();
  for (unsigned i = 0; i < sizeof g_dispatch; i++) ((uint8_t *)&g_dispatch)[i] = 0;
  g_dispatch_initialized = 0;
  cqv_cpu_calls = 0;
  int which = nondet_int();
  __CPROVER_assume(which >= 0 && which < 19);
  uint8_t buf[8] = {0};
  switch (which) {
  case 0: carquet_dispatch_prefix_sum_i32((int32_t *)buf, 0, 0); break;
  case 1: carquet_dispatch_prefix_sum_i64((int64_t *)buf, 0, 0); break;
  case 2: carquet_dispatch_gather_i32((int32_t *)buf, (uint32_t *)buf, 0, (int32_t *)buf); break;
  case 3: carquet_dispatch_gather_i64((int64_t *)buf, (uint32_t *)buf, 0, (int64_t *)buf); break;
  case 4: carquet_dispatch_gather_float((float *)buf, (uint32_t *)buf, 0, (float *)buf); break;
  case 5: carquet_dispatch_gather_double((double *)buf, (uint32_t *)buf, 0, (double *)buf); break;
  case 6: carquet_dispatch_byte_split_encode_float((float *)buf, 0, buf); break;
  case 7: carquet_dispatch_byte_split_decode_float(buf, 0, (float *)buf); break;
  case 8: carquet_dispatch_byte_split_encode_double((double *)buf, 0, buf); break;
  case 9: carquet_dispatch_byte_split_decode_double(buf, 0, (double *)buf); break;
  case 10: carquet_dispatch_unpack_bools(buf, buf, 0); break;
  case 11: carquet_dispatch_pack_bools(buf, buf, 0); break;
  case 12: (void)carquet_dispatch_find_run_length_i32((int32_t *)buf, 0); break;
  case 13: (void)carquet_dispatch_crc32c(0, buf, 0); break;
  case 14: carquet_dispatch_match_copy(buf, buf, 0, 8); break;
  case 15: (void)carquet_dispatch_match_length(buf, buf, buf); break;
  case 16: (void)carquet_dispatch_count_non_nulls((int16_t *)buf, 0, 0); break;
  case 17: carquet_dispatch_build_null_bitmap((int16_t *)buf, 0, 0, buf); break;
  default: carquet_dispatch_fill_def_levels((int16_t *)buf, 0, 0); break;
  }
  __CPROVER_assert(g_dispatch_initialized == 1 && cqv_cpu_calls == 1, "first use initialises the table exactly once");
  if (which == 0) CQV_CANARY("lazy wrapper 0 reachable");
  if (which == 18) CQV_CANARY("lazy wrapper 18 reachable");
  CQV_CANARY("dispatch lazy wrappers harness end");
}
