/* C15: scalar kernels of src/simd/dispatch.c against their definitions (specs/simd_spec.h).
 * Enforce-style: the contract (contracts/dispatch.ovl) carries the property; the harness only
 * supplies arbitrary arguments and arbitrary ghosts. */
#include "cqv.h"
#include <stdlib.h>
#include "simd_spec.h"
#include <carquet/carquet.h>
int64_t cqv_k;      /* ghost element index (arbitrary) */
int cqv_b;          /* ghost byte-stream number (arbitrary) */
int64_t cqv_old64;  /* pre-state value at cqv_k */
uint32_t cqv_acc32; /* lockstep accumulator: spec CRC fold */
int64_t cqv_cnt;    /* lockstep accumulator: spec count */
size_t cqv_dict_n;  /* number of dictionary entries (>= 2^32: every 32-bit index is valid) */
const carquet_cpu_info_t *carquet_get_cpu_info(void) { static carquet_cpu_info_t c; return &c; }
#include "src/simd/dispatch.c"

static void ghosts(void) { cqv_k = nondet_i64(); cqv_b = nondet_int(); cqv_old64 = nondet_i64(); cqv_acc32 = nondet_u32(); cqv_cnt = nondet_i64(); cqv_dict_n = nondet_size_t(); }

void h_scalar_prefix_sum_i32(void) { ghosts(); scalar_prefix_sum_i32(nondet_ptr(), nondet_i64(), nondet_i32()); CQV_CANARY("returns"); }
void h_scalar_prefix_sum_i64(void) { ghosts(); scalar_prefix_sum_i64(nondet_ptr(), nondet_i64(), nondet_i64()); CQV_CANARY("returns"); }
void h_scalar_gather_i32(void) { ghosts(); scalar_gather_i32(nondet_ptr(), nondet_ptr(), nondet_i64(), nondet_ptr()); CQV_CANARY("returns"); }
void h_scalar_gather_i64(void) { ghosts(); scalar_gather_i64(nondet_ptr(), nondet_ptr(), nondet_i64(), nondet_ptr()); CQV_CANARY("returns"); }
void h_scalar_gather_float(void) { ghosts(); scalar_gather_float(nondet_ptr(), nondet_ptr(), nondet_i64(), nondet_ptr()); CQV_CANARY("returns"); }
void h_scalar_gather_double(void) { ghosts(); scalar_gather_double(nondet_ptr(), nondet_ptr(), nondet_i64(), nondet_ptr()); CQV_CANARY("returns"); }
void h_scalar_byte_split_encode_float(void) { ghosts(); scalar_byte_split_encode_float(nondet_ptr(), nondet_i64(), nondet_ptr()); CQV_CANARY("returns"); }
void h_scalar_byte_split_decode_float(void) { ghosts(); scalar_byte_split_decode_float(nondet_ptr(), nondet_i64(), nondet_ptr()); CQV_CANARY("returns"); }
void h_scalar_byte_split_encode_double(void) { ghosts(); scalar_byte_split_encode_double(nondet_ptr(), nondet_i64(), nondet_ptr()); CQV_CANARY("returns"); }
void h_scalar_byte_split_decode_double(void) { ghosts(); scalar_byte_split_decode_double(nondet_ptr(), nondet_i64(), nondet_ptr()); CQV_CANARY("returns"); }
void h_scalar_unpack_bools(void) { ghosts(); scalar_unpack_bools(nondet_ptr(), nondet_ptr(), nondet_i64()); CQV_CANARY("returns"); }
void h_scalar_pack_bools(void) { ghosts(); scalar_pack_bools(nondet_ptr(), nondet_ptr(), nondet_i64()); CQV_CANARY("returns"); }
void h_scalar_find_run_length_i32(void) {
  ghosts();
  int64_t n = nondet_i64();
  int64_t r = scalar_find_run_length_i32(nondet_ptr(), n);
  CQV_CANARY("returns");
  if (r < n) CQV_CANARY("run can end early");
  if (r == n && n > 3) CQV_CANARY("run can cover everything");
}
void h_scalar_crc32c(void) { ghosts(); (void)scalar_crc32c(nondet_u32(), nondet_ptr(), nondet_size_t()); CQV_CANARY("returns"); }
void h_scalar_count_non_nulls(void) { ghosts(); (void)scalar_count_non_nulls(nondet_ptr(), nondet_i64(), (int16_t)nondet_int()); CQV_CANARY("returns"); }
void h_scalar_build_null_bitmap(void) { ghosts(); scalar_build_null_bitmap(nondet_ptr(), nondet_i64(), (int16_t)nondet_int(), nondet_ptr()); CQV_CANARY("returns"); }
void h_scalar_fill_def_levels(void) { ghosts(); scalar_fill_def_levels(nondet_ptr(), nondet_i64(), (int16_t)nondet_int()); CQV_CANARY("returns"); }

/* LZ77 match copy inside one buffer: dst = src + offset */
void h_scalar_match_copy(void) {
  ghosts();
  size_t n = nondet_size_t(), so = nondet_size_t(), off = nondet_size_t(), len = nondet_size_t();
  __CPROVER_assume(n <= CQV_MAXBUF && off >= 1 && off <= n && so <= n - off && len <= n - off - so);
  uint8_t *buf = malloc(n);
  __CPROVER_assume(buf != NULL);
  scalar_match_copy(buf + so + off, buf + so, len, off);
  CQV_CANARY("returns");
}
/* common prefix length; match lies in the same buffer (LZ) or in another one */
void h_scalar_match_length(void) {
  ghosts();
  size_t n = nondet_size_t(), po = nondet_size_t(), m = nondet_size_t(), mo = nondet_size_t();
  __CPROVER_assume(n <= CQV_MAXBUF && po <= n && m <= CQV_MAXBUF && mo <= m && m - mo >= n - po);
  uint8_t *buf = malloc(n), *other = malloc(m);
  __CPROVER_assume(buf != NULL && other != NULL);
  const uint8_t *match = other + mo;
  if (nondet_bool()) { __CPROVER_assume(mo <= po && m == n); match = buf + mo; }
  size_t r = scalar_match_length(buf + po, match, buf + n);
  CQV_CANARY("returns");
  if (r > 2 && r < n - po) CQV_CANARY("partial match possible");
}

/* spec sanity: the CRC-32C check value of "123456789" is 0xE3069283 (RFC 3720 B.4) */
void h_scalar_crc32c_check_value(void) {
  static const uint8_t msg[9] = {'1', '2', '3', '4', '5', '6', '7', '8', '9'};
  uint32_t acc = ~0u;
  for (int i = 0; i < 9; i++) acc = spec_crc32c_byte(acc, msg[i]);
  __CPROVER_assert(~acc == 0xE3069283u, "spec fold gives the CRC-32C check value");
  __CPROVER_assert(scalar_crc32c(0, msg, 9) == 0xE3069283u, "scalar kernel gives the CRC-32C check value");
  CQV_CANARY("returns");
}

/* LZ77 match copy, bounded: every offset 1..32, every len 0..48, arbitrary buffer contents.
 * 32 bytes of history before dst, 16 guard bytes after dst+48: any byte outside dst[0..len) must keep its value.
 *   dst[k] == dst[k - offset] in the post-state for every k < len  (k < offset: history byte, which
 *   must be unchanged; k >= offset: a byte this very copy produced)  and nothing before dst changes. */
void h_scalar_match_copy_bounded(void) {
  size_t off = nondet_size_t(), len = nondet_size_t();
  __CPROVER_assume(off >= 1 && off <= 32 && len <= 48);
  uint8_t buf[32 + 48 + 16];   /* 32 history bytes, up to 48 copied, 16 guard bytes; contents arbitrary */
  size_t m = nondet_size_t(), k = nondet_size_t();
  __CPROVER_assume((m < 32 || m >= 32 + len) && m < sizeof buf && k < len);
  uint8_t old_m = buf[m];
  scalar_match_copy(buf + 32, buf + 32 - off, len, off);
  __CPROVER_assert(buf[m] == old_m, "no byte outside dst[0..len) changes (history before, guard after)");
  __CPROVER_assert(buf[32 + k] == buf[32 + k - off], "dst[k] == dst[k - offset] (history or produced byte)");
  if (off < 8 && len > 8) CQV_CANARY("overlapping path");
  if (off >= 8 && len > 16) CQV_CANARY("8-byte path");
  CQV_CANARY("returns");
}
