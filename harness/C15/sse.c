/* C15: SSE4.2 kernels of src/simd/x86/sse_ops.c against the same definitions as the scalar kernels
 * (specs/simd_spec.h, contracts/sse_ops.ovl).  Job define __SSE4_2__=1 stands for -msse4.2 (the
 * source's own guard); gcc's intrinsic headers switch the target on by pragma themselves. */
#include "cqv.h"
#include <stdlib.h>
#include "simd_spec.h"
int64_t cqv_k;      /* ghost element index (arbitrary) */
int cqv_b;          /* ghost byte-stream number (arbitrary) */
int64_t cqv_old64;  /* pre-state value at cqv_k */
uint32_t cqv_acc32; /* lockstep accumulator: spec CRC fold */
int64_t cqv_cnt;    /* lockstep accumulator: spec count */
size_t cqv_dict_n;  /* number of dictionary entries (>= 2^32: every 32-bit index is valid) */
/* CBMC 6.11 cannot convert the MMX vector type __m64 to long long ("ignoring typecast": the value
 * becomes unconstrained), which gcc's _mm_loadl_epi64/_mm_storel_epi64 bodies do.  Both are
 * replaced here, at the intrinsic level, by their SDM meaning (MOVQ xmm, m64 / MOVQ m64, xmm):
 * part of the trusted ISA model (A6); the kernel source text is unchanged. */
#include <smmintrin.h>
#include <nmmintrin.h>
typedef long long cqv_ll_u __attribute__((__may_alias__, __aligned__(1)));
static inline __m128i cqv_mm_loadl_epi64(const void *p) { return _mm_set_epi64x(0, *(const cqv_ll_u *)p); }
static inline void cqv_mm_storel_epi64(void *p, __m128i v) { *(cqv_ll_u *)p = ((__v2di)v)[0]; }
#define _mm_loadl_epi64(p) cqv_mm_loadl_epi64(p)
#define _mm_storel_epi64(p, v) cqv_mm_storel_epi64((p), (v))
#include "src/simd/x86/sse_ops.c"
#ifndef __SSE4_2__
#error "job must define __SSE4_2__"
#endif

/* CQV_FIX_B: the ghost stream number is fixed per job (one job per stream; together they cover every stream) */
#ifndef CQV_FIX_B
#define CQV_FIX_B nondet_int()
#endif
static void ghosts(void) { cqv_k = nondet_i64(); cqv_b = CQV_FIX_B; cqv_old64 = nondet_i64(); cqv_acc32 = nondet_u32(); cqv_cnt = nondet_i64(); cqv_dict_n = nondet_size_t(); }

void h_sse_fill_def_levels(void) { ghosts(); carquet_sse_fill_def_levels(nondet_ptr(), nondet_i64(), (int16_t)nondet_int()); CQV_CANARY("returns"); }
void h_sse_prefix_sum_i32(void) { ghosts(); carquet_sse_prefix_sum_i32(nondet_ptr(), nondet_i64(), nondet_i32()); CQV_CANARY("returns"); }
void h_sse_prefix_sum_i64(void) { ghosts(); carquet_sse_prefix_sum_i64(nondet_ptr(), nondet_i64(), nondet_i64()); CQV_CANARY("returns"); }
void h_sse_gather_i32(void) { ghosts(); carquet_sse_gather_i32(nondet_ptr(), nondet_ptr(), nondet_i64(), nondet_ptr()); CQV_CANARY("returns"); }
void h_sse_gather_i64(void) { ghosts(); carquet_sse_gather_i64(nondet_ptr(), nondet_ptr(), nondet_i64(), nondet_ptr()); CQV_CANARY("returns"); }
void h_sse_gather_float(void) { ghosts(); carquet_sse_gather_float(nondet_ptr(), nondet_ptr(), nondet_i64(), nondet_ptr()); CQV_CANARY("returns"); }
void h_sse_gather_double(void) { ghosts(); carquet_sse_gather_double(nondet_ptr(), nondet_ptr(), nondet_i64(), nondet_ptr()); CQV_CANARY("returns"); }
void h_sse_byte_stream_split_encode_float(void) { ghosts(); carquet_sse_byte_stream_split_encode_float(nondet_ptr(), nondet_i64(), nondet_ptr()); CQV_CANARY("returns"); }
void h_sse_byte_stream_split_decode_float(void) { ghosts(); carquet_sse_byte_stream_split_decode_float(nondet_ptr(), nondet_i64(), nondet_ptr()); CQV_CANARY("returns"); }
void h_sse_byte_stream_split_encode_double(void) { ghosts(); carquet_sse_byte_stream_split_encode_double(nondet_ptr(), nondet_i64(), nondet_ptr()); CQV_CANARY("returns"); }
void h_sse_byte_stream_split_decode_double(void) { ghosts(); carquet_sse_byte_stream_split_decode_double(nondet_ptr(), nondet_i64(), nondet_ptr()); CQV_CANARY("returns"); }
void h_sse_unpack_bools(void) { ghosts(); carquet_sse_unpack_bools(nondet_ptr(), nondet_ptr(), nondet_i64()); CQV_CANARY("returns"); }
void h_sse_pack_bools(void) { ghosts(); carquet_sse_pack_bools(nondet_ptr(), nondet_ptr(), nondet_i64()); CQV_CANARY("returns"); }
void h_sse_find_run_length_i32(void) {
  ghosts();
  int64_t n = nondet_i64();
  int64_t r = carquet_sse_find_run_length_i32(nondet_ptr(), n);
  CQV_CANARY("returns");
  if (r < n) CQV_CANARY("run can end early");
  if (r == n && n > 9) CQV_CANARY("run can cover everything");
}
void h_sse_count_non_nulls(void) { ghosts(); (void)carquet_sse_count_non_nulls(nondet_ptr(), nondet_i64(), (int16_t)nondet_int()); CQV_CANARY("returns"); }
void h_sse_build_null_bitmap(void) { ghosts(); carquet_sse_build_null_bitmap(nondet_ptr(), nondet_i64(), (int16_t)nondet_int(), nondet_ptr()); CQV_CANARY("returns"); }
void h_sse_crc32c(void) { ghosts(); (void)carquet_sse_crc32c(nondet_u32(), nondet_ptr(), nondet_size_t()); CQV_CANARY("returns"); }

/* CRC-32C check value (RFC 3720 B.4): crc("123456789") = 0xE3069283, as the scalar kernel returns */
void h_sse_crc32c_check_value(void) {
  static const uint8_t msg[9] = {'1', '2', '3', '4', '5', '6', '7', '8', '9'};
  uint32_t r = carquet_sse_crc32c(0, msg, 9);
  __CPROVER_assert(r == 0xE3069283u, "SSE4.2 kernel gives the CRC-32C check value (what the scalar kernel returns)");
  CQV_CANARY("returns");
}

/* fixed-width bit unpackers (loop-free): value j = bits [j*w, (j+1)*w) of the input, LSB first */
void h_sse_bitunpack32_1bit(void) {
  uint8_t in[4]; uint32_t out[32];
  for (int i = 0; i < 4; i++) in[i] = nondet_u8();
  carquet_sse_bitunpack32_1bit(in, out);
  unsigned k = nondet_unsigned();
  __CPROVER_assume(k < 32);
  __CPROVER_assert(out[k] == (uint32_t)SPEC_BIT(in, k), "1-bit unpack: value k is bit k");
  CQV_CANARY("returns");
}
void h_sse_bitunpack8_4bit(void) {
  uint8_t in[4]; uint32_t out[8];
  for (int i = 0; i < 4; i++) in[i] = nondet_u8();
  carquet_sse_bitunpack8_4bit(in, out);
  unsigned k = nondet_unsigned();
  __CPROVER_assume(k < 8);
  __CPROVER_assert(out[k] == (uint32_t)((in[k >> 1] >> ((k & 1) << 2)) & 0xF), "4-bit unpack: value k is nibble k");
  CQV_CANARY("returns");
}
void h_sse_bitunpack8_8bit(void) {
  uint8_t in[8]; uint32_t out[8];
  for (int i = 0; i < 8; i++) in[i] = nondet_u8();
  carquet_sse_bitunpack8_8bit(in, out);
  unsigned k = nondet_unsigned();
  __CPROVER_assume(k < 8);
  __CPROVER_assert(out[k] == (uint32_t)in[k], "8-bit unpack: value k is byte k");
  CQV_CANARY("returns");
}

/* LZ77 match copy, bounded: every offset 1..32, every len 0..48, arbitrary buffer contents (same
 * statement as h_scalar_match_copy_bounded): 32 bytes of history, guard bytes after dst+len. */
/* bound of the job: offsets 1..CQV_MC_OFF (<= 32), lengths 0..CQV_MC_LEN */
#ifndef CQV_MC_OFF
#define CQV_MC_OFF 32
#define CQV_MC_LEN 48
#endif
void h_sse_match_copy_bounded(void) {
  size_t off = nondet_size_t(), len = nondet_size_t();
  __CPROVER_assume(off >= 1 && off <= CQV_MC_OFF && len <= CQV_MC_LEN);
  uint8_t buf[32 + CQV_MC_LEN + 16];   /* 32 history bytes, up to CQV_MC_LEN copied, 16 guard bytes; contents arbitrary */
  size_t m = nondet_size_t(), k = nondet_size_t();
  __CPROVER_assume((m < 32 || m >= 32 + len) && m < sizeof buf && k < len);
  uint8_t old_m = buf[m];
  carquet_sse_match_copy(buf + 32, buf + 32 - off, len, off);
  __CPROVER_assert(buf[m] == old_m, "no byte outside dst[0..len) changes (history before, guard after)");
  __CPROVER_assert(buf[32 + k] == buf[32 + k - off], "dst[k] == dst[k - offset] (history or produced byte)");
  if (off >= 16 && len >= CQV_MC_LEN - 5) CQV_CANARY("16-byte fast path with tails");
  if (off == 1 && len > 16) CQV_CANARY("offset 1 fill path");
  if (off == 2 && len > 3) CQV_CANARY("offset 2 path");
  if (off == 4 && len > 21 && len < 32) CQV_CANARY("offset 4 path");
  if (off == 9 && len > 9) CQV_CANARY("general overlapping path");
  CQV_CANARY("returns");
}

void h_sse_memset_small(void) { ghosts(); carquet_sse_memset_small(nondet_ptr(), nondet_u8(), nondet_size_t()); CQV_CANARY("returns"); }
void h_sse_memcpy_small(void) { ghosts(); carquet_sse_memcpy_small(nondet_ptr(), nondet_ptr(), nondet_size_t()); CQV_CANARY("returns"); }
/* common prefix length; match lies in the same buffer (LZ) or in another one */
void h_sse_match_length(void) {
  ghosts();
  size_t n = nondet_size_t(), po = nondet_size_t(), m = nondet_size_t(), mo = nondet_size_t();
  __CPROVER_assume(n <= CQV_MAXBUF && po <= n && m <= CQV_MAXBUF && mo <= m && m - mo >= n - po);
  uint8_t *buf = malloc(n), *other = malloc(m);
  __CPROVER_assume(buf != NULL && other != NULL);
  const uint8_t *match = other + mo;
  if (nondet_bool()) { __CPROVER_assume(mo <= po && m == n); match = buf + mo; }
  size_t r = carquet_sse_match_length(buf + po, match, buf + n);
  CQV_CANARY("returns");
  if (r > 20 && r < n - po) CQV_CANARY("partial match possible");
}

/* bounded versions (the unbounded contracts above do not close in the time budget) */
void h_sse_memset_small_bounded(void) {
  size_t n = nondet_size_t();
  __CPROVER_assume(n <= 130);
  uint8_t buf[16 + 130 + 16];
  uint8_t value = nondet_u8();
  size_t m = nondet_size_t(), k = nondet_size_t();
  __CPROVER_assume((m < 16 || m >= 16 + n) && m < sizeof buf && k < n);
  uint8_t old_m = buf[m];
  carquet_sse_memset_small(buf + 16, value, n);
  __CPROVER_assert(buf[m] == old_m, "no byte outside dest[0..n) changes");
  __CPROVER_assert(buf[16 + k] == value, "dest[k] == value");
  if (n == 130) CQV_CANARY("64, 16 and byte steps all taken");
  CQV_CANARY("returns");
}
void h_sse_memcpy_small_bounded(void) {
  size_t n = nondet_size_t();
  __CPROVER_assume(n <= 130);
  uint8_t buf[16 + 130 + 16];
  uint8_t *src = malloc(n);   /* exact size: any over-read is out of bounds */
  __CPROVER_assume(src != NULL);
  size_t m = nondet_size_t(), k = nondet_size_t();
  __CPROVER_assume((m < 16 || m >= 16 + n) && m < sizeof buf && k < n);
  uint8_t old_m = buf[m], src_k = src[k];
  carquet_sse_memcpy_small(buf + 16, src, n);
  __CPROVER_assert(buf[m] == old_m, "no byte outside dest[0..n) changes");
  __CPROVER_assert(buf[16 + k] == src_k && src[k] == src_k, "dest[k] == src[k]");
  if (n == 130) CQV_CANARY("64, 16 and byte steps all taken");
  CQV_CANARY("returns");
}
#ifndef CQV_ML_BUF
#define CQV_ML_BUF 64
#define CQV_ML_MAX 48
#endif
void h_sse_match_length_bounded(void) {
  /* LZ situation: p and match in one buffer, match before p, limit = end of the buffer (exact
   * size: any over-read of p is out of bounds); limit - p <= CQV_ML_MAX, buffer of CQV_ML_BUF bytes */
  size_t tot = CQV_ML_BUF, po = nondet_size_t(), mo = nondet_size_t();
  __CPROVER_assume(po <= tot && tot - po <= CQV_ML_MAX && mo <= po);
  uint8_t *buf = malloc(CQV_ML_BUF);
  __CPROVER_assume(buf != NULL);
  const uint8_t *p = buf + po, *match = buf + mo;
  size_t r = carquet_sse_match_length(p, match, buf + tot);
  size_t k = nondet_size_t();
  __CPROVER_assert(r <= tot - po, "result capped at limit - p");
  __CPROVER_assert(!(k < r) || p[k] == match[k], "the first r bytes are equal");
  __CPROVER_assert(!(r < tot - po) || p[r] != match[r], "byte r differs unless the limit was reached");
  if (r > 17 && r < tot - po) CQV_CANARY("partial match possible");
  if (r == CQV_ML_MAX) CQV_CANARY("full match possible");
  CQV_CANARY("returns");
}

/* byte-stream split float, bounded in count (0..47: every remainder mod 4, up to 11 vector steps),
 * symbolic data, exact-size buffers (any access outside [0, 4*count) is out of bounds) */
#ifndef CQV_BSS_ENC_MAX
#define CQV_BSS_ENC_MAX 47
#endif
void h_sse_bss_encode_float_bounded(void) {
  int64_t count = nondet_i64();
  __CPROVER_assume(0 <= count && count <= CQV_BSS_ENC_MAX);
  float *values = malloc((size_t)count * 4);   /* exact size: any over-read is out of bounds */
  uint8_t out[4 * CQV_BSS_ENC_MAX + 16];       /* 4*count output bytes, then guard bytes that must not change */
  __CPROVER_assume(values != NULL);
  int64_t k = nondet_i64(); int b = nondet_int(); size_t m = nondet_size_t();
  __CPROVER_assume(0 <= k && k < count && 0 <= b && b < 4 && m >= (size_t)count * 4 && m < sizeof out);
  uint8_t want = ((const uint8_t *)values)[k * 4 + b], old_m = out[m];
  carquet_sse_byte_stream_split_encode_float(values, count, out);
  __CPROVER_assert(out[b * count + k] == want, "stream b, position k holds byte b of value k");
  __CPROVER_assert(out[m] == old_m, "no byte at or after output + 4*count changes");
  if (count == CQV_BSS_ENC_MAX) CQV_CANARY("vector and tail steps taken");
  CQV_CANARY("returns");
}
void h_sse_bss_decode_float_bounded(void) {
  int64_t count = nondet_i64();
  __CPROVER_assume(0 <= count && count <= 47);
  uint8_t *data = malloc((size_t)count * 4);
  float *values = malloc((size_t)count * 4);
  __CPROVER_assume(values != NULL && data != NULL);
  int64_t k = nondet_i64(); int b = nondet_int();
  __CPROVER_assume(0 <= k && k < count && 0 <= b && b < 4);
  uint8_t want = data[b * count + k];
  carquet_sse_byte_stream_split_decode_float(data, count, values);
  __CPROVER_assert(((const uint8_t *)values)[k * 4 + b] == want, "byte b of value k comes from stream b, position k");
  if (count == 47) CQV_CANARY("vector and tail steps taken");
  CQV_CANARY("returns");
}

/* byte-stream split double encode, bounded in count (0..47), symbolic data */
void h_sse_bss_encode_double_bounded(void) {
  int64_t count = nondet_i64();
  __CPROVER_assume(0 <= count && count <= 47);
  double *values = malloc((size_t)count * 8);   /* exact size: any over-read is out of bounds */
  uint8_t out[8 * 47 + 16];                     /* 8*count output bytes, then guard bytes that must not change */
  __CPROVER_assume(values != NULL);
  int64_t k = nondet_i64(); int b = nondet_int(); size_t m = nondet_size_t();
  __CPROVER_assume(0 <= k && k < count && 0 <= b && b < 8 && m >= (size_t)count * 8 && m < sizeof out);
  uint8_t want = ((const uint8_t *)values)[k * 8 + b], old_m = out[m];
  carquet_sse_byte_stream_split_encode_double(values, count, out);
  __CPROVER_assert(out[b * count + k] == want, "stream b, position k holds byte b of value k");
  __CPROVER_assert(out[m] == old_m, "no byte at or after output + 8*count changes");
  if (count == 47) CQV_CANARY("pair and tail steps taken");
  CQV_CANARY("returns");
}
