/* C13: Thrift compact-protocol primitives, writer <-> reader, ALL values.
 * The real thrift_encode.c writes into a small non-growing carquet_buffer (exact memcpy,
 * CQV_MEMCPY_EXACT=16); the bytes are compared with the compact-protocol spec
 * (specs/thrift_spec.h: what an independent decoder/encoder reads/produces); the real
 * thrift_decode.c then reads the same bytes: value equal, consumed == produced.
 * All loops (varint <= 10, memcpy stub 16) are unwound completely (unwinding assertions on). */
#include "cqv.h"
#include <stdlib.h>
#include "thrift_spec.h"
unsigned cqv_skip_depth;
#include "src/core/buffer.c"
/* both files define a static set_error with different signatures: keep them apart */
#define set_error td_set_error
#include "src/thrift/thrift_decode.c"
#undef set_error
#define set_error te_set_error
#include "src/thrift/thrift_encode.c"
#undef set_error

#define CAP 32
static uint8_t store[CAP];
static carquet_buffer_t g_buf;
static thrift_encoder_t g_enc;
static thrift_decoder_t g_dec;

static void mk_enc(void) {
  carquet_buffer_init_wrap(&g_buf, store, CAP); /* non-owning: never reallocates */
  carquet_buffer_clear(&g_buf);
  thrift_encoder_init(&g_enc, &g_buf);
}
/* bytes k.. of the output are the varint of v; returns its length */
static unsigned check_varint_at(size_t at, uint64_t v) {
  unsigned n = spec_varint_len(v);
  unsigned k = nondet_unsigned();
  __CPROVER_assume(k < n);
  __CPROVER_assert(at + n <= g_buf.size, "varint bytes were produced");
  __CPROVER_assert(store[at + k] == spec_varint_byte(v, k), "varint byte k is the ULEB128 byte of the spec");
  return n;
}

/* ---- varint: all 64-bit values, 1..10 bytes ---- */
void h13_varint(void) {
  uint64_t v = nondet_u64();
  mk_enc();
  thrift_write_varint(&g_enc, v);
  __CPROVER_assert(g_enc.status == CARQUET_OK, "write ok");
  unsigned n = check_varint_at(0, v);
  __CPROVER_assert(g_buf.size == n && n >= 1 && n <= 10, "produced exactly the spec length (1..10)");
  /* independent decoder reads v back */
  unsigned used;
  uint64_t sv = spec_varint_decode(store, g_buf.size, &used);
  __CPROVER_assert(used == n && sv == v, "independent decoder reads the same value and length");
  /* carquet reader */
  thrift_decoder_init(&g_dec, store, g_buf.size);
  uint64_t r = thrift_read_varint(&g_dec);
  __CPROVER_assert(g_dec.status == CARQUET_OK && r == v, "read_varint returns the value written");
  __CPROVER_assert(g_dec.reader.pos == g_buf.size, "consumed == produced");
  if (n == 10) CQV_CANARY("10-byte varint reachable");
  if (n == 1) CQV_CANARY("1-byte varint reachable");
  CQV_CANARY("varint harness end");
}

/* ---- carquet reads what an independent ENCODER produces, and rejects what it must not accept ---- */
void h13_varint_decode_any(void) {
  /* arbitrary bytes: if the independent decoder accepts (<= 10 bytes, terminated) with value v, carquet
   * must return v and consume the same number of bytes -- unless bits beyond 64 are set */
  uint8_t in[12];
  for (int i = 0; i < 12; i++) in[i] = nondet_u8();
  size_t n = nondet_size_t();
  __CPROVER_assume(n <= 12);
  unsigned used;
  uint64_t sv = spec_varint_decode(in, n, &used);
  thrift_decoder_init(&g_dec, in, n);
  uint64_t r = thrift_read_varint(&g_dec);
  if (used != 0) {
    __CPROVER_assert(g_dec.status == CARQUET_OK && r == sv && g_dec.reader.pos == used, "agrees with the independent decoder");
    CQV_CANARY("accepted varint");
  } else {
    __CPROVER_assert(g_dec.status != CARQUET_OK && r == 0, "truncated or over-long varint is an error");
    __CPROVER_assert(g_dec.reader.pos <= 10, "never more than 10 bytes consumed");
    CQV_CANARY("rejected varint");
  }
}

/* ---- zigzag integers ---- */
void h13_i64(void) {
  int64_t v = nondet_i64();
  mk_enc();
  thrift_write_i64(&g_enc, v);
  uint64_t z = spec_zigzag(v);
  unsigned n = check_varint_at(0, z);
  __CPROVER_assert(g_enc.status == CARQUET_OK && g_buf.size == n, "i64 = zigzag varint of the spec");
  __CPROVER_assert(spec_unzigzag(z) == v, "spec zigzag is invertible");
  thrift_decoder_init(&g_dec, store, g_buf.size);
  int64_t r = thrift_read_i64(&g_dec);
  __CPROVER_assert(g_dec.status == CARQUET_OK && r == v && g_dec.reader.pos == g_buf.size, "i64 round trip, consumed == produced");
  if (v == INT64_MIN) CQV_CANARY("INT64_MIN reachable");
  if (v == INT64_MAX) CQV_CANARY("INT64_MAX reachable");
  CQV_CANARY("i64 harness end");
}
void h13_i32(void) {
  int32_t v = nondet_i32();
  mk_enc();
  thrift_write_i32(&g_enc, v);
  unsigned n = check_varint_at(0, spec_zigzag(v));
  __CPROVER_assert(g_enc.status == CARQUET_OK && g_buf.size == n && n <= 5, "i32 = zigzag varint of the spec, at most 5 bytes");
  thrift_decoder_init(&g_dec, store, g_buf.size);
  int32_t r = thrift_read_i32(&g_dec);
  __CPROVER_assert(g_dec.status == CARQUET_OK && r == v && g_dec.reader.pos == g_buf.size, "i32 round trip, consumed == produced");
  if (v == INT32_MIN) CQV_CANARY("INT32_MIN reachable");
  CQV_CANARY("i32 harness end");
}
void h13_i16(void) {
  int16_t v = (int16_t)nondet_u16();
  mk_enc();
  thrift_write_i16(&g_enc, v);
  unsigned n = check_varint_at(0, spec_zigzag(v));
  __CPROVER_assert(g_enc.status == CARQUET_OK && g_buf.size == n && n <= 3, "i16 = zigzag varint of the spec, at most 3 bytes");
  thrift_decoder_init(&g_dec, store, g_buf.size);
  int16_t r = thrift_read_i16(&g_dec);
  __CPROVER_assert(g_dec.status == CARQUET_OK && r == v && g_dec.reader.pos == g_buf.size, "i16 round trip, consumed == produced");
  if (v == INT16_MIN) CQV_CANARY("INT16_MIN reachable");
  CQV_CANARY("i16 harness end");
}
void h13_byte(void) {
  int8_t v = (int8_t)nondet_u8();
  mk_enc();
  thrift_write_byte(&g_enc, v);
  __CPROVER_assert(g_enc.status == CARQUET_OK && g_buf.size == 1 && store[0] == (uint8_t)v, "byte is sent as is");
  thrift_decoder_init(&g_dec, store, g_buf.size);
  int8_t r = thrift_read_byte(&g_dec);
  __CPROVER_assert(g_dec.status == CARQUET_OK && r == v && g_dec.reader.pos == 1, "byte round trip");
  CQV_CANARY("byte harness end");
}

/* ---- double: 8 bytes little endian, bit-exact (NaN payloads, -0.0, infinities) ---- */
void h13_double(void) {
  uint64_t bits = nondet_u64();
  double dv;
  __CPROVER_assume(sizeof(dv) == 8);
  for (int i = 0; i < 8; i++) ((uint8_t *)&dv)[i] = (uint8_t)(bits >> (i << 3)); /* little-endian target (trusted base) */
  mk_enc();
  thrift_write_double(&g_enc, dv);
  __CPROVER_assert(g_enc.status == CARQUET_OK && g_buf.size == 8, "double is 8 bytes");
  unsigned k = nondet_unsigned();
  __CPROVER_assume(k < 8);
  __CPROVER_assert(store[k] == (uint8_t)(bits >> (k << 3)), "byte k is bits[8k..8k+7]: little endian");
  thrift_decoder_init(&g_dec, store, g_buf.size);
  double r = thrift_read_double(&g_dec);
  uint64_t rbits = 0;
  for (int i = 0; i < 8; i++) rbits |= (uint64_t)((uint8_t *)&r)[i] << (i << 3);
  __CPROVER_assert(g_dec.status == CARQUET_OK && rbits == bits && g_dec.reader.pos == 8, "double round trip is bit exact, consumed == produced");
  CQV_CANARY("double harness end");
}

/* ---- standalone bool (container element) and bool carried in the field header ---- */
void h13_bool(void) {
  bool v = nondet_bool();
  mk_enc();
  thrift_write_bool(&g_enc, v);
  __CPROVER_assert(g_enc.status == CARQUET_OK && g_buf.size == 1, "container bool is one byte");
  __CPROVER_assert(v ? store[0] == 1 : store[0] != 1, "true is 1, false is not 1");
  thrift_decoder_init(&g_dec, store, g_buf.size);
  bool r = thrift_read_bool(&g_dec);
  __CPROVER_assert(g_dec.status == CARQUET_OK && r == v && g_dec.reader.pos == 1, "bool round trip");
  CQV_CANARY("bool harness end");
}

/* ---- binary: varint length + bytes (payload compared for lengths <= 16) ---- */
void h13_binary(void) {
  uint8_t payload[16];
  for (int i = 0; i < 16; i++) payload[i] = nondet_u8();
  int32_t len = nondet_i32();
  __CPROVER_assume(len >= 0 && len <= 16);
  mk_enc();
  thrift_write_binary(&g_enc, payload, len);
  __CPROVER_assert(g_enc.status == CARQUET_OK && g_buf.size == 1 + (size_t)len && store[0] == (uint8_t)len, "length byte then the payload");
  unsigned k = nondet_unsigned();
  __CPROVER_assume(k < 16 && (len == 0 || k < (unsigned)len));
  __CPROVER_assert(len == 0 || store[1 + k] == payload[k], "payload byte k is sent as is");
  thrift_decoder_init(&g_dec, store, g_buf.size);
  int32_t rl;
  const uint8_t *p = thrift_read_binary(&g_dec, &rl);
  __CPROVER_assert(g_dec.status == CARQUET_OK && p == store + 1 && rl == len, "read_binary returns the payload slice");
  __CPROVER_assert(g_dec.reader.pos == g_buf.size, "consumed == produced");
  if (len > 0) { __CPROVER_assert(p[k] == payload[k], "payload byte k read back"); CQV_CANARY("non-empty binary"); }
  else CQV_CANARY("empty binary");
}
/* all lengths 0..INT32_MAX: header is the varint of the length, produced == header + length == consumed
 * (payload contents are not tracked here: memcpy stub makes long copies arbitrary) */
void h13_binary_len(void) {
  int32_t len = nondet_i32();
  __CPROVER_assume(len >= 0);
  size_t cap = nondet_size_t();
  __CPROVER_assume(cap <= CQV_MAXBUF);
#ifdef CQV_CANARIES
  /* reachability (existential) build only: small buffers keep the printed traces small (an arbitrary-
   * length havocked slice in a counterexample trace exhausts memory); the proof build is unrestricted */
  __CPROVER_assume(cap <= 256);
#endif
  uint8_t *out = malloc(cap), *payload = malloc((size_t)len);
  __CPROVER_assume(out != NULL && payload != NULL);
  carquet_buffer_init_wrap(&g_buf, out, cap);
  carquet_buffer_clear(&g_buf);
  thrift_encoder_init(&g_enc, &g_buf);
  thrift_write_binary(&g_enc, payload, len);
  unsigned n = spec_varint_len((uint64_t)len);
  if (g_enc.status == CARQUET_OK) {
    __CPROVER_assert(cap >= n + (size_t)len, "success only if it fits");
    __CPROVER_assert(g_buf.size == n + (size_t)len, "produced = varint(length) + length bytes");
    unsigned k = nondet_unsigned();
    __CPROVER_assume(k < n);
    __CPROVER_assert(out[k] == spec_varint_byte((uint64_t)len, k), "header is the varint of the length");
    thrift_decoder_init(&g_dec, out, g_buf.size);
    int32_t rl;
    const uint8_t *p = thrift_read_binary(&g_dec, &rl);
    __CPROVER_assert(g_dec.status == CARQUET_OK && rl == len && p == out + n && g_dec.reader.pos == g_buf.size, "read_binary: same length, slice after the header, consumed == produced");
    if (len >= 128) CQV_CANARY("binary with a 2-byte length header reachable");
  } else {
    __CPROVER_assert(cap < n + (size_t)len, "failure only if it does not fit");
    CQV_CANARY("binary that does not fit is an error");
  }
  CQV_CANARY("binary_len harness end");
}
void h13_uuid(void) {
  uint8_t u[16], r[16];
  for (int i = 0; i < 16; i++) u[i] = nondet_u8();
  mk_enc();
  thrift_write_uuid(&g_enc, u);
  unsigned k = nondet_unsigned();
  __CPROVER_assume(k < 16);
  __CPROVER_assert(g_enc.status == CARQUET_OK && g_buf.size == 16 && store[k] == u[k], "uuid is 16 bytes as is");
  thrift_decoder_init(&g_dec, store, g_buf.size);
  thrift_read_uuid(&g_dec, r);
  __CPROVER_assert(g_dec.status == CARQUET_OK && r[k] == u[k] && g_dec.reader.pos == 16, "uuid round trip");
  CQV_CANARY("uuid harness end");
}

/* ---- field header: all (last_id, field_id, type, nesting level) ---- */
static int g_nl; static int16_t g_last, g_fid; static int g_type;
static void field_header_common(int nl, int16_t last, int16_t fid, int type) {
  g_nl = nl; g_last = last; g_fid = fid; g_type = type;
  __CPROVER_assume(g_nl >= 0 && g_nl <= THRIFT_ENCODER_MAX_NESTING);
  __CPROVER_assume(g_type >= 1 && g_type <= 15);
#ifdef CQV_NOWRAP
  /* scoped lemma: pairs whose difference is representable in int16 */
  __CPROVER_assume((int)fid - (int)last >= INT16_MIN && (int)fid - (int)last <= INT16_MAX);
#endif
  mk_enc();
  g_enc.nesting_level = g_nl;
  if (g_nl > 0) g_enc.last_field_id[g_nl - 1] = g_last; else g_last = 0; /* outside any struct the previous id is 0 */
  thrift_write_field_header(&g_enc, g_type, g_fid);
}
/* round trip: the reader in the same state returns the same (type, id), consumes what was produced,
 * and both sides remember the same last field id */
void h13_field_header_roundtrip(void) {
  int nl = nondet_int(), type = nondet_int();
  int16_t last = (int16_t)nondet_u16(), fid = (int16_t)nondet_u16();
  field_header_common(nl, last, fid, type);
  __CPROVER_assert(g_enc.status == CARQUET_OK && g_buf.size >= 1 && g_buf.size <= 4, "header is 1..4 bytes");
  __CPROVER_assert(g_nl == 0 || g_enc.last_field_id[g_nl - 1] == g_fid, "writer remembers the id");
  thrift_decoder_init(&g_dec, store, g_buf.size);
  g_dec.nesting_level = g_nl;
  if (g_nl > 0) g_dec.last_field_id[g_nl - 1] = g_last;
  thrift_type_t t; int16_t id;
  bool more = thrift_read_field_begin(&g_dec, &t, &id);
  __CPROVER_assert(more && g_dec.status == CARQUET_OK, "reader announces a field");
  __CPROVER_assert((int)t == g_type && id == g_fid, "same wire type and field id");
  __CPROVER_assert(g_dec.reader.pos == g_buf.size, "consumed == produced");
  __CPROVER_assert(g_nl == 0 || g_dec.last_field_id[g_nl - 1] == g_enc.last_field_id[g_nl - 1], "last_field_id equal on both sides");
  if (g_type == THRIFT_TYPE_TRUE || g_type == THRIFT_TYPE_FALSE) {
    bool b = thrift_read_bool(&g_dec);
    __CPROVER_assert(b == (g_type == THRIFT_TYPE_TRUE) && g_dec.reader.pos == g_buf.size, "bool value travels in the header, no extra byte");
    CQV_CANARY("bool-in-header");
  }
  if (g_buf.size == 1) CQV_CANARY("short form reachable");
  if (g_buf.size == 4) CQV_CANARY("long form with 3-byte id reachable");
  CQV_CANARY("field header round trip end");
}
/* genuine compact protocol: short form exactly when 1 <= field_id - last_id <= 15 (integers, no wrap),
 * nibble layout dddd tttt; long form 0000 tttt + zigzag varint id */
void h13_field_header_form(void) {
  int nl = nondet_int(), type = nondet_int();
  int16_t last = (int16_t)nondet_u16(), fid = (int16_t)nondet_u16();
  field_header_common(nl, last, fid, type);
  int shortf = spec_field_short(g_last, g_fid);
  __CPROVER_assert(store[0] == spec_field_byte0(g_last, g_fid, g_type), "first byte: delta nibble (or 0) and type nibble per spec");
  if (shortf) {
    __CPROVER_assert(g_buf.size == 1, "short form is one byte");
    CQV_CANARY("spec short form");
  } else {
    unsigned n = check_varint_at(1, spec_zigzag(g_fid));
    __CPROVER_assert(g_buf.size == 1 + n, "long form: type byte + zigzag varint of the id");
    CQV_CANARY("spec long form");
  }
}
/* struct end = STOP byte 0; reader sees STOP and consumes it; nesting balanced */
void h13_struct(void) {
  int nl = nondet_int();
  __CPROVER_assume(nl >= 0 && nl <= THRIFT_ENCODER_MAX_NESTING);
  mk_enc();
  g_enc.nesting_level = nl;
  thrift_write_struct_begin(&g_enc);
  if (nl == THRIFT_ENCODER_MAX_NESTING) {
    __CPROVER_assert(g_enc.status != CARQUET_OK && g_enc.nesting_level == nl, "nesting beyond the limit is an error, nothing indexed");
    CQV_CANARY("writer nesting limit");
    return;
  }
  __CPROVER_assert(g_enc.status == CARQUET_OK && g_enc.nesting_level == nl + 1 && g_enc.last_field_id[nl] == 0 && g_buf.size == 0, "struct begin writes nothing, resets last id");
  thrift_write_struct_end(&g_enc);
  __CPROVER_assert(g_enc.status == CARQUET_OK && g_enc.nesting_level == nl && g_buf.size == 1 && store[0] == 0, "struct end writes STOP");
  thrift_decoder_init(&g_dec, store, g_buf.size);
  g_dec.nesting_level = nl;
  thrift_read_struct_begin(&g_dec);
  thrift_type_t t; int16_t id;
  bool more = thrift_read_field_begin(&g_dec, &t, &id);
  thrift_read_struct_end(&g_dec);
  __CPROVER_assert(!more && t == THRIFT_TYPE_STOP && g_dec.status == CARQUET_OK && g_dec.reader.pos == 1 && g_dec.nesting_level == nl, "reader sees STOP, consumed == produced, nesting balanced");
  CQV_CANARY("struct harness end");
}

/* ---- list/set header: all counts 0..INT32_MAX, all element types ---- */
#ifndef CQV_SET
#define CQV_SET 0
#endif
void h13_list_begin(void) {
  int32_t count = nondet_i32();
  int et = nondet_int();
  __CPROVER_assume(count >= 0 && et >= 1 && et <= 15);
  mk_enc();
  if (CQV_SET) thrift_write_set_begin(&g_enc, et, count); else thrift_write_list_begin(&g_enc, et, count);
  __CPROVER_assert(g_enc.status == CARQUET_OK && store[0] == spec_list_byte0(count, et), "first byte: size nibble (or 1111) and element type per spec");
  size_t hdr = 1;
  if (count <= 14) { __CPROVER_assert(g_buf.size == 1, "short form is one byte"); CQV_CANARY("short list header"); }
  else { hdr += check_varint_at(1, (uint64_t)count); __CPROVER_assert(g_buf.size == hdr, "long form: varint of the size follows"); CQV_CANARY("long list header"); }
  /* the reader needs the elements to be there: header followed by `extra` >= count bytes */
  size_t extra = nondet_size_t();
  __CPROVER_assume(extra <= CQV_MAXBUF);
  uint8_t *in = malloc(hdr + extra);
  __CPROVER_assume(in != NULL);
  for (unsigned i = 0; i < 6; i++) if (i < hdr) in[i] = store[i];
  thrift_decoder_init(&g_dec, in, hdr + extra);
  thrift_type_t t; int32_t c;
  if (CQV_SET) thrift_read_set_begin(&g_dec, &t, &c); else thrift_read_list_begin(&g_dec, &t, &c);
  __CPROVER_assert(g_dec.reader.pos == hdr && (int)t == et, "consumed == produced, same element type");
  if (extra >= (size_t)count) { __CPROVER_assert(g_dec.status == CARQUET_OK && c == count, "same count"); CQV_CANARY("list header accepted"); }
  else { __CPROVER_assert(g_dec.status != CARQUET_OK && c == 0, "a count larger than the remaining input is rejected"); CQV_CANARY("list header rejected"); }
}
/* ---- map header ---- */
void h13_map_begin(void) {
  int32_t count = nondet_i32();
  int kt = nondet_int(), vt = nondet_int();
  __CPROVER_assume(count >= 0 && kt >= 1 && kt <= 15 && vt >= 1 && vt <= 15);
  mk_enc();
  thrift_write_map_begin(&g_enc, kt, vt, count);
  size_t hdr;
  if (count == 0) { __CPROVER_assert(g_buf.size == 1 && store[0] == 0, "empty map is the single byte 0"); hdr = 1; CQV_CANARY("empty map"); }
  else {
    unsigned n = check_varint_at(0, (uint64_t)count);
    hdr = n + 1;
    __CPROVER_assert(g_buf.size == hdr && store[n] == (uint8_t)((kt << 4) | vt), "varint size then kkkk vvvv");
    CQV_CANARY("non-empty map");
  }
  __CPROVER_assert(g_enc.status == CARQUET_OK, "write ok");
  size_t extra = nondet_size_t();
  __CPROVER_assume(extra <= CQV_MAXBUF);
  uint8_t *in = malloc(hdr + extra);
  __CPROVER_assume(in != NULL);
  for (unsigned i = 0; i < 6; i++) if (i < hdr) in[i] = store[i];
  thrift_decoder_init(&g_dec, in, hdr + extra);
  thrift_type_t k, v; int32_t c;
  thrift_read_map_begin(&g_dec, &k, &v, &c);
  if (count == 0) __CPROVER_assert(g_dec.status == CARQUET_OK && c == 0 && g_dec.reader.pos == 1, "empty map read back");
  else if (extra >= (size_t)count) {
    __CPROVER_assert(g_dec.status == CARQUET_OK && c == count && (int)k == kt && (int)v == vt && g_dec.reader.pos == hdr, "same count and types, consumed == produced");
    CQV_CANARY("map header accepted");
  }
}
