/* C13: writer conformance of src/thrift/parquet_types.c against parquet.thrift (specs/parquet_thrift_table.h).
 * Built with -DCQV_PT_WRITER: thrift_write_* are the checking bodies of stubs/ptypes_stubs.c.
 * The macros and the annotated source come from the C08 harness file (one translation unit layout for the family). */
#include "../C08/ptypes.c"

/* arbitrary ghost state (the contract's requires clause then selects the admissible ones) */
static void cqv_w_havoc(void) {
  for (int i = 0; i < CQV_WMAX; i++) {
    cqv_w[i].kind = nondet_int(); cqv_w[i].last = nondet_int(); cqv_w[i].seen = nondet_unsigned(); cqv_w[i].elem = nondet_int(); cqv_w[i].lkind = nondet_int();
    cqv_w_left[i] = nondet_int();
  }
  cqv_w_depth = nondet_int(); cqv_w_pend = nondet_int(); cqv_w_next = nondet_int(); cqv_w_root = nondet_int();
}
static thrift_encoder_t *mk_enc(void) {
  thrift_encoder_t *e = malloc(sizeof(*e));
  __CPROVER_assume(e != NULL);
  return e;
}
#define MK(T, v) T *v = malloc(sizeof(T)); __CPROVER_assume(v != NULL)

void h_write_statistics(void) {
  cqv_w_havoc(); thrift_encoder_t *enc = mk_enc(); MK(parquet_statistics_t, s);
  write_statistics(enc, s);
  CQV_CANARY("write_statistics returns");
}
void h_write_logical_type(void) {
  cqv_w_havoc(); thrift_encoder_t *enc = mk_enc(); MK(carquet_logical_type_t, lt);
  write_logical_type(enc, lt);
  CQV_CANARY("write_logical_type returns");
}
void h_write_schema_element(void) {
  cqv_w_havoc(); thrift_encoder_t *enc = mk_enc(); MK(parquet_schema_element_t, e);
  write_schema_element(enc, e);
  CQV_CANARY("write_schema_element returns");
}
void h_write_column_metadata(void) {
  cqv_w_havoc(); thrift_encoder_t *enc = mk_enc(); MK(parquet_column_metadata_t, m);
  write_column_metadata(enc, m);
  CQV_CANARY("write_column_metadata returns");
}
void h_write_column_chunk(void) {
  cqv_w_havoc(); thrift_encoder_t *enc = mk_enc(); MK(parquet_column_chunk_t, c);
  write_column_chunk(enc, c);
  CQV_CANARY("write_column_chunk returns");
}
void h_write_row_group(void) {
  cqv_w_havoc(); thrift_encoder_t *enc = mk_enc(); MK(parquet_row_group_t, rg);
  if (rg->num_columns > 0) { rg->columns = malloc((size_t)rg->num_columns * sizeof(parquet_column_chunk_t)); __CPROVER_assume(rg->columns != NULL); }
  write_row_group(enc, rg);
  CQV_CANARY("write_row_group returns");
}
void h_write_file_metadata(void) {
  cqv_w_havoc();
  parquet_file_metadata_t *md = nondet_bool() ? malloc(sizeof(*md)) : NULL;
  carquet_buffer_t *buf = nondet_bool() ? malloc(sizeof(*buf)) : NULL;
  carquet_error_t *err = nondet_bool() ? malloc(sizeof(*err)) : NULL;
  if (md && md->num_schema_elements > 0) { md->schema = malloc((size_t)md->num_schema_elements * sizeof(parquet_schema_element_t)); __CPROVER_assume(md->schema != NULL); }
  if (md && md->num_row_groups > 0) { md->row_groups = malloc((size_t)md->num_row_groups * sizeof(parquet_row_group_t)); __CPROVER_assume(md->row_groups != NULL); }
  carquet_status_t st = parquet_write_file_metadata(md, buf, err);
  CQV_CANARY("parquet_write_file_metadata returns");
  if (st == CARQUET_OK) CQV_CANARY("parquet_write_file_metadata can succeed");
}
void h_write_page_header(void) {
  cqv_w_havoc();
  parquet_page_header_t *h = nondet_bool() ? malloc(sizeof(*h)) : NULL;
  carquet_buffer_t *buf = nondet_bool() ? malloc(sizeof(*buf)) : NULL;
  carquet_error_t *err = nondet_bool() ? malloc(sizeof(*err)) : NULL;
  carquet_status_t st = parquet_write_page_header(h, buf, err);
  CQV_CANARY("parquet_write_page_header returns");
  if (st == CARQUET_OK) CQV_CANARY("parquet_write_page_header can succeed");
}

/* ======================= C13 parser dispatch / C17 logical-type ids (-DCQV_PT_RLOG) =========================
 * The thrift_read_* bodies of stubs/ptypes_stubs.c serve ONE ghost field (cqv_rl_type, cqv_rl_id) to the first
 * thrift_read_field_begin call and count reader calls.  Lemma per parse function: for that arbitrary first field the
 * function calls exactly the reader of the kind parquet.thrift declares for (struct, id) when the wire type matches,
 * and thrift_skip(wire type) - nothing else - when the id is not a field of the struct (or one carquet ignores).
 * Bounded: first field only, nested structs empty, list length <= 2. */
static void cqv_rl_reset(void) {
  cqv_rl_calls = 0; cqv_rl_n_byte = cqv_rl_n_i16 = cqv_rl_n_i32 = cqv_rl_n_i64 = cqv_rl_n_bool = cqv_rl_n_bin = 0;
  cqv_rl_n_list = cqv_rl_n_skip = cqv_rl_n_begin = cqv_rl_n_end = 0; cqv_rl_skip_type = -1;
  cqv_rl_type = (int)(nondet_unsigned() & 15);
  cqv_rl_id = (int16_t)nondet_int();
  cqv_rl_count = nondet_int();
  __CPROVER_assume(cqv_rl_type != 0 && cqv_rl_count >= 0 && cqv_rl_count <= 2);
  /* ghost values handed out by the readers: arbitrary integer / bool; binary = NULL,0 or a readable buffer of binlen bytes */
  cqv_rl_none = 0; cqv_rl_v = nondet_i64(); cqv_rl_vb = nondet_bool();
  cqv_rl_binlen = nondet_i32();
  __CPROVER_assume(cqv_rl_binlen >= 0 && cqv_rl_binlen <= (1 << 20));
  cqv_rl_bin = cqv_rl_binlen > 0 ? malloc((size_t)cqv_rl_binlen) : NULL;
  __CPROVER_assume(cqv_rl_binlen == 0 || cqv_rl_bin != NULL);
}
static int cqv_rl_readers(void) {
  return cqv_rl_n_byte + cqv_rl_n_i16 + cqv_rl_n_i32 + cqv_rl_n_i64 + cqv_rl_n_bool + cqv_rl_n_bin + cqv_rl_n_list;
}
/* ignored: bit set of ids of struct `kind` that parquet.thrift declares but carquet deliberately skips */
static void cqv_rl_check(int kind, unsigned ignored) {
  int id = cqv_rl_id, t = cqv_rl_type, n = cqv_rl_count;
  int w = cqv_pt_wire(kind, id);
  _Bool ign = id >= 0 && id < 32 && ((ignored >> id) & 1u);
  if (w == 0 || ign) {
    __CPROVER_assert(cqv_rl_n_skip == 1 && cqv_rl_skip_type == t, "C13 parser: unknown/ignored field is skipped with its own wire type");
    __CPROVER_assert(cqv_rl_readers() == 0 && cqv_rl_n_begin == 1 && cqv_rl_n_end == 1, "C13 parser: nothing else is read for an unknown/ignored field");
    CQV_CANARY("dispatch: unknown field case");
  } else if (cqv_pt_wire_matches(w, t)) {
    __CPROVER_assert(cqv_rl_n_skip == 0, "C13 parser: a known field with the declared wire type is not skipped");
    if (w == W_I8) __CPROVER_assert(cqv_rl_n_byte == 1 && cqv_rl_readers() == 1 && cqv_rl_n_begin == 1, "C13 parser: i8 field read by thrift_read_byte only");
    if (w == W_I16) __CPROVER_assert(cqv_rl_n_i16 == 1 && cqv_rl_readers() == 1 && cqv_rl_n_begin == 1, "C13 parser: i16 field read by thrift_read_i16 only");
    if (w == W_I32) __CPROVER_assert(cqv_rl_n_i32 == 1 && cqv_rl_readers() == 1 && cqv_rl_n_begin == 1, "C13 parser: i32 field read by thrift_read_i32 only");
    if (w == W_I64) __CPROVER_assert(cqv_rl_n_i64 == 1 && cqv_rl_readers() == 1 && cqv_rl_n_begin == 1, "C13 parser: i64 field read by thrift_read_i64 only");
    if (w == W_BOOL) __CPROVER_assert(cqv_rl_n_bool == 1 && cqv_rl_readers() == 1 && cqv_rl_n_begin == 1, "C13 parser: bool field read by thrift_read_bool only");
    if (w == W_BIN) __CPROVER_assert(cqv_rl_n_bin == 1 && cqv_rl_readers() == 1 && cqv_rl_n_begin == 1, "C13 parser: binary field read by thrift_read_binary only");
    if (w == W_STRUCT) __CPROVER_assert(cqv_rl_readers() == 0 && cqv_rl_n_begin == 2 && cqv_rl_n_end == 2, "C13 parser: struct field parsed as one nested struct");
    if (w == W_LIST) {
      int e = cqv_pt_elem(kind, id);
      __CPROVER_assert(cqv_rl_n_list == 1, "C13 parser: list field read by thrift_read_list_begin");
      if (e == W_I32) __CPROVER_assert(cqv_rl_n_i32 == n && cqv_rl_readers() == 1 + n && cqv_rl_n_begin == 1, "C13 parser: list<i32>: one thrift_read_i32 per element");
      if (e == W_BIN) __CPROVER_assert(cqv_rl_n_bin == n && cqv_rl_readers() == 1 + n && cqv_rl_n_begin == 1, "C13 parser: list<binary>: one thrift_read_binary per element");
      if (e == W_STRUCT) __CPROVER_assert(cqv_rl_readers() == 1 && cqv_rl_n_begin == 1 + n && cqv_rl_n_end == 1 + n, "C13 parser: list<struct>: one nested struct per element");
      CQV_CANARY("dispatch: list field case");
    }
    CQV_CANARY("dispatch: known field case");
  }
  __CPROVER_assert(cqv_rl_n_begin == cqv_rl_n_end, "C13 parser: struct_begin/struct_end paired");
}
static thrift_decoder_t *mk_dec(void) {
  thrift_decoder_t *d = malloc(sizeof(*d));
  __CPROVER_assume(d != NULL);
  d->status = CARQUET_OK; d->nesting_level = 0;
  return d;
}

/* LogicalType union: tag -> carquet logical type id (specs: CQV_PT_LT_ID), parameter structs parsed, others skipped */
void h_disp_logical_type(void) {
  cqv_rl_reset(); thrift_decoder_t *dec = mk_dec(); MK(carquet_logical_type_t, lt);
  parse_logical_type(dec, lt);
  int tag = cqv_rl_id, t = cqv_rl_type;
  if (CQV_PT_LT_KNOWN(tag)) {
    __CPROVER_assert(lt->id == CQV_PT_LT_ID(tag), "C13/C17 parser: LogicalType union tag maps to the logical type parquet.thrift declares for it");
    if (tag == 5 || tag == 7 || tag == 8 || tag == 10) {
      if (t == W_STRUCT) __CPROVER_assert(cqv_rl_n_skip == 0 && cqv_rl_n_begin == 2 && cqv_rl_n_end == 2, "C13 parser: parameter struct of DECIMAL/TIME/TIMESTAMP/INTEGER is parsed, not skipped");
      CQV_CANARY("logical type: parameterised tag");
    } else {
      __CPROVER_assert(cqv_rl_n_skip == 1 && cqv_rl_skip_type == t && cqv_rl_readers() == 0 && cqv_rl_n_begin == 1, "C13 parser: empty member struct is skipped with its wire type");
      CQV_CANARY("logical type: parameterless tag");
    }
  } else {
    __CPROVER_assert(lt->id == CARQUET_LOGICAL_UNKNOWN, "C13/C17 parser: unknown union tag leaves the logical type UNKNOWN");
    __CPROVER_assert(cqv_rl_n_skip == 1 && cqv_rl_skip_type == t && cqv_rl_readers() == 0, "C13 parser: unknown union member skipped with its wire type");
    CQV_CANARY("logical type: unknown tag");
  }
  __CPROVER_assert(cqv_rl_n_begin == cqv_rl_n_end, "C13 parser: struct_begin/struct_end paired");
}
void h_disp_statistics(void) {
  cqv_rl_reset(); thrift_decoder_t *dec = mk_dec(); MK(parquet_statistics_t, s);
  parse_statistics(dec, nondet_ptr(), s);
  cqv_rl_check(K_STATISTICS, 0u);
}
void h_disp_schema_element(void) {
  cqv_rl_reset(); thrift_decoder_t *dec = mk_dec(); MK(parquet_schema_element_t, e);
  parse_schema_element(dec, nondet_ptr(), e);
  cqv_rl_check(K_SCHEMA_ELEMENT, 0u);
}
void h_disp_column_metadata(void) {
  cqv_rl_reset(); thrift_decoder_t *dec = mk_dec(); MK(parquet_column_metadata_t, m);
  parse_column_metadata(dec, nondet_ptr(), m);
  cqv_rl_check(K_COLUMN_META, (1u << 16) | (1u << 17));
}
void h_disp_column_chunk(void) {
  cqv_rl_reset(); thrift_decoder_t *dec = mk_dec(); MK(parquet_column_chunk_t, c);
  parse_column_chunk(dec, nondet_ptr(), c);
  cqv_rl_check(K_COLUMN_CHUNK, (1u << 8) | (1u << 9));
}
void h_disp_row_group(void) {
  cqv_rl_reset(); thrift_decoder_t *dec = mk_dec(); MK(parquet_row_group_t, rg);
  parse_row_group(dec, nondet_ptr(), rg);
  cqv_rl_check(K_ROW_GROUP, 1u << 4);
}
void h_disp_file_metadata(void) {
  cqv_rl_reset();
  size_t n = nondet_size_t(); __CPROVER_assume(n >= 1 && n <= CQV_MAXBUF);
  uint8_t *data = malloc(n); __CPROVER_assume(data != NULL);
  MK(parquet_file_metadata_t, md); carquet_arena_t *arena = malloc(sizeof(*arena)); __CPROVER_assume(arena != NULL);
  carquet_status_t st = parquet_parse_file_metadata(data, n, arena, md, NULL);
  cqv_rl_check(K_FILE_META, (1u << 7) | (1u << 8) | (1u << 9));
}
void h_disp_page_header(void) {
  cqv_rl_reset();
  size_t n = nondet_size_t(); __CPROVER_assume(n >= 1 && n <= CQV_MAXBUF);
  uint8_t *data = malloc(n); __CPROVER_assume(data != NULL);
  MK(parquet_page_header_t, h); size_t br;
  carquet_status_t st = parquet_parse_page_header(data, n, h, &br, NULL);
  cqv_rl_check(K_PAGE_HEADER, 1u << 6);
}

/* ======================= C13/C14 field semantics (-DCQV_PT_RLOG, exact memset) ===============================
 * What the output struct HOLDS after parsing a struct whose only field is the ghost field (id, declared wire type) with
 * ghost value v (integers), vb (bool), (bin, binlen) (binary) - or no field at all (cqv_rl_none): the member that
 * parquet.thrift associates with that id holds the value and its presence flag is set; every other member keeps the
 * zero of the initial memset (catches swapped members and presence flags derived from the value). */
#define SEM_MATCH(kind) (!cqv_rl_none && cqv_pt_wire_matches(cqv_pt_wire((kind), cqv_rl_id), cqv_rl_type))
#define SEM_IS(kind, k) (SEM_MATCH(kind) && cqv_rl_id == (k))

void h_sem_page_header(void) {
  cqv_rl_reset(); cqv_rl_none = nondet_bool();
  size_t n = nondet_size_t(); __CPROVER_assume(n >= 1 && n <= CQV_MAXBUF);
  uint8_t *data = malloc(n); __CPROVER_assume(data != NULL);
  MK(parquet_page_header_t, h); size_t br = 7;
  carquet_status_t st = parquet_parse_page_header(data, n, h, &br, NULL);
  int32_t v = (int32_t)cqv_rl_v;
  __CPROVER_assert(st == CARQUET_OK, "C13 page header: a well-formed header parses");
  if (cqv_rl_none || SEM_MATCH(K_PAGE_HEADER) || cqv_pt_wire(K_PAGE_HEADER, cqv_rl_id) == 0) {
    __CPROVER_assert((int32_t)h->type == (SEM_IS(K_PAGE_HEADER, 1) ? v : 0), "C13 page header: field 1 and only field 1 is stored in type");
    __CPROVER_assert(h->uncompressed_page_size == (SEM_IS(K_PAGE_HEADER, 2) ? v : 0), "C13 page header: field 2 and only field 2 is stored in uncompressed_page_size");
    __CPROVER_assert(h->compressed_page_size == (SEM_IS(K_PAGE_HEADER, 3) ? v : 0), "C13 page header: field 3 and only field 3 is stored in compressed_page_size");
    __CPROVER_assert(h->has_crc == (SEM_IS(K_PAGE_HEADER, 4) ? 1 : 0), "C13/C14 page header: has_crc is set exactly when field 4 is present, whatever its value (0 included)");
    __CPROVER_assert(h->crc == (SEM_IS(K_PAGE_HEADER, 4) ? v : 0), "C13/C14 page header: field 4 and only field 4 is stored in crc");
    if (SEM_IS(K_PAGE_HEADER, 8)) __CPROVER_assert(h->data_page_header_v2.is_compressed, "C13 page header: DataPageHeaderV2.is_compressed defaults to true");
    if (SEM_IS(K_PAGE_HEADER, 5)) __CPROVER_assert(h->data_page_header.num_values == 0 && !h->data_page_header.has_statistics, "C13 page header: empty DataPageHeader leaves its members zero");
    if (SEM_IS(K_PAGE_HEADER, 7)) __CPROVER_assert(h->dictionary_page_header.num_values == 0 && !h->dictionary_page_header.is_sorted, "C13 page header: empty DictionaryPageHeader leaves its members zero");
  }
  if (SEM_IS(K_PAGE_HEADER, 4)) { CQV_CANARY("sem page header: crc present"); if (v == 0) CQV_CANARY("sem page header: crc present with value 0"); }
  if (cqv_rl_none) CQV_CANARY("sem page header: no field"); else CQV_CANARY("sem page header: one field");
}

static void sem_bin(const uint8_t *p, int32_t len, _Bool mine, const char *unused) {
  (void)unused;
  __CPROVER_assert(len == (mine ? cqv_rl_binlen : 0), "C13 statistics: binary member length is what the binary reader returned for its own field id, else 0");
  __CPROVER_assert((p != NULL) == (mine && cqv_rl_binlen > 0), "C13 statistics: binary member is present exactly for a non-empty value of its own field id");
}
void h_sem_statistics(void) {
  cqv_rl_reset(); cqv_rl_none = nondet_bool(); thrift_decoder_t *dec = mk_dec(); MK(parquet_statistics_t, s);
  parse_statistics(dec, nondet_ptr(), s);
  if (cqv_rl_none || SEM_MATCH(K_STATISTICS) || cqv_pt_wire(K_STATISTICS, cqv_rl_id) == 0) {
    sem_bin(s->max_deprecated, s->max_deprecated_len, SEM_IS(K_STATISTICS, 1), "max");
    sem_bin(s->min_deprecated, s->min_deprecated_len, SEM_IS(K_STATISTICS, 2), "min");
    sem_bin(s->max_value, s->max_value_len, SEM_IS(K_STATISTICS, 5), "max_value");
    sem_bin(s->min_value, s->min_value_len, SEM_IS(K_STATISTICS, 6), "min_value");
    __CPROVER_assert(s->has_null_count == (SEM_IS(K_STATISTICS, 3) ? 1 : 0) && s->null_count == (SEM_IS(K_STATISTICS, 3) ? cqv_rl_v : 0), "C13 statistics: null_count present and stored exactly for field 3");
    __CPROVER_assert(s->has_distinct_count == (SEM_IS(K_STATISTICS, 4) ? 1 : 0) && s->distinct_count == (SEM_IS(K_STATISTICS, 4) ? cqv_rl_v : 0), "C13 statistics: distinct_count present and stored exactly for field 4");
    __CPROVER_assert(s->has_is_max_value_exact == (SEM_IS(K_STATISTICS, 7) ? 1 : 0) && s->is_max_value_exact == (SEM_IS(K_STATISTICS, 7) ? cqv_rl_vb : 0), "C13 statistics: is_max_value_exact present and stored exactly for field 7");
    __CPROVER_assert(s->has_is_min_value_exact == (SEM_IS(K_STATISTICS, 8) ? 1 : 0) && s->is_min_value_exact == (SEM_IS(K_STATISTICS, 8) ? cqv_rl_vb : 0), "C13 statistics: is_min_value_exact present and stored exactly for field 8");
  }
  if (SEM_IS(K_STATISTICS, 6)) CQV_CANARY("sem statistics: min_value");
  if (SEM_IS(K_STATISTICS, 3) && cqv_rl_v == 0) CQV_CANARY("sem statistics: null_count 0");
  if (cqv_rl_none) CQV_CANARY("sem statistics: no field");
}
void h_sem_schema_element(void) {
  cqv_rl_reset(); cqv_rl_none = nondet_bool(); thrift_decoder_t *dec = mk_dec(); MK(parquet_schema_element_t, e);
  parse_schema_element(dec, nondet_ptr(), e);
  int32_t v = (int32_t)cqv_rl_v;
  if (cqv_rl_none || (SEM_MATCH(K_SCHEMA_ELEMENT) && cqv_rl_id != 10) || cqv_pt_wire(K_SCHEMA_ELEMENT, cqv_rl_id) == 0) {
    __CPROVER_assert(e->has_type == (SEM_IS(K_SCHEMA_ELEMENT, 1) ? 1 : 0) && (int32_t)e->type == (SEM_IS(K_SCHEMA_ELEMENT, 1) ? v : 0), "C13 schema element: type present and stored exactly for field 1");
    __CPROVER_assert(e->type_length == (SEM_IS(K_SCHEMA_ELEMENT, 2) ? v : 0), "C13 schema element: type_length stored exactly for field 2");
    __CPROVER_assert(e->has_repetition == (SEM_IS(K_SCHEMA_ELEMENT, 3) ? 1 : 0) && (int32_t)e->repetition_type == (SEM_IS(K_SCHEMA_ELEMENT, 3) ? v : 0), "C13 schema element: repetition_type present and stored exactly for field 3");
    __CPROVER_assert((e->name != NULL) == (SEM_IS(K_SCHEMA_ELEMENT, 4) ? 1 : 0), "C13 schema element: name present exactly for field 4 (empty string included)");
    __CPROVER_assert(e->num_children == (SEM_IS(K_SCHEMA_ELEMENT, 5) ? v : 0), "C13 schema element: num_children stored exactly for field 5");
    __CPROVER_assert(e->has_converted_type == (SEM_IS(K_SCHEMA_ELEMENT, 6) ? 1 : 0) && (int32_t)e->converted_type == (SEM_IS(K_SCHEMA_ELEMENT, 6) ? v : 0), "C13 schema element: converted_type present and stored exactly for field 6");
    __CPROVER_assert(e->scale == (SEM_IS(K_SCHEMA_ELEMENT, 7) ? v : 0), "C13 schema element: scale stored exactly for field 7");
    __CPROVER_assert(e->precision == (SEM_IS(K_SCHEMA_ELEMENT, 8) ? v : 0), "C13 schema element: precision stored exactly for field 8");
    __CPROVER_assert(e->has_field_id == (SEM_IS(K_SCHEMA_ELEMENT, 9) ? 1 : 0) && e->field_id == (SEM_IS(K_SCHEMA_ELEMENT, 9) ? v : 0), "C13 schema element: field_id present and stored exactly for field 9");
    __CPROVER_assert(!e->has_logical_type, "C13 schema element: no logical type without field 10");
  }
  if (SEM_IS(K_SCHEMA_ELEMENT, 10)) __CPROVER_assert(e->has_logical_type, "C13 schema element: logical type present for field 10");
  if (SEM_IS(K_SCHEMA_ELEMENT, 4)) { CQV_CANARY("sem schema element: name"); if (cqv_rl_binlen == 0) CQV_CANARY("sem schema element: empty name"); }
  if (SEM_IS(K_SCHEMA_ELEMENT, 9)) CQV_CANARY("sem schema element: field_id");
  if (cqv_rl_none) CQV_CANARY("sem schema element: no field");
}
