/* C13: writer conformance of src/thrift/parquet_types.c against parquet.thrift (specs/parquet_thrift_table.h).
 * Built with -DCQV_PT_WRITER: thrift_write_* are the checking bodies of stubs/ptypes_stubs.c.
 * The macros and the annotated source come from the C08 harness file (one translation unit layout for the family). */
#include "../C08/ptypes.c"

/* arbitrary ghost state (the contract's requires clause then selects the admissible ones) */
static void cqv_w_havoc(void) {
  for (int i = 0; i < CQV_WMAX; i++) {
    cqv_w[i].kind = nondet_int(); cqv_w[i].last = nondet_int(); cqv_w[i].seen = nondet_unsigned(); cqv_w[i].elem = nondet_int(); cqv_w[i].lkind = nondet_int();
    cqv_w_left[i] = nondet_int();
  }
  cqv_w_depth = nondet_int(); cqv_w_pend = nondet_int(); cqv_w_next = nondet_int(); cqv_w_root = nondet_int();
}
static thrift_encoder_t *mk_enc(void) {
  thrift_encoder_t *e = malloc(sizeof(*e));
  __CPROVER_assume(e != NULL);
  return e;
}
#define MK(T, v) T *v = malloc(sizeof(T)); __CPROVER_assume(v != NULL)

void h_write_statistics(void) {
  cqv_w_havoc(); thrift_encoder_t *enc = mk_enc(); MK(parquet_statistics_t, s);
  write_statistics(enc, s);
  CQV_CANARY("write_statistics returns");
}
void h_write_logical_type(void) {
  cqv_w_havoc(); thrift_encoder_t *enc = mk_enc(); MK(carquet_logical_type_t, lt);
  write_logical_type(enc, lt);
  CQV_CANARY("write_logical_type returns");
}
void h_write_schema_element(void) {
  cqv_w_havoc(); thrift_encoder_t *enc = mk_enc(); MK(parquet_schema_element_t, e);
  write_schema_element(enc, e);
  CQV_CANARY("write_schema_element returns");
}
void h_write_column_metadata(void) {
  cqv_w_havoc(); thrift_encoder_t *enc = mk_enc(); MK(parquet_column_metadata_t, m);
  write_column_metadata(enc, m);
  CQV_CANARY("write_column_metadata returns");
}
void h_write_column_chunk(void) {
  cqv_w_havoc(); thrift_encoder_t *enc = mk_enc(); MK(parquet_column_chunk_t, c);
  write_column_chunk(enc, c);
  CQV_CANARY("write_column_chunk returns");
}
void h_write_row_group(void) {
  cqv_w_havoc(); thrift_encoder_t *enc = mk_enc(); MK(parquet_row_group_t, rg);
  if (rg->num_columns > 0) { rg->columns = malloc((size_t)rg->num_columns * sizeof(parquet_column_chunk_t)); __CPROVER_assume(rg->columns != NULL); }
  write_row_group(enc, rg);
  CQV_CANARY("write_row_group returns");
}
void h_write_file_metadata(void) {
  cqv_w_havoc();
  parquet_file_metadata_t *md = nondet_bool() ? malloc(sizeof(*md)) : NULL;
  carquet_buffer_t *buf = nondet_bool() ? malloc(sizeof(*buf)) : NULL;
  carquet_error_t *err = nondet_bool() ? malloc(sizeof(*err)) : NULL;
  if (md && md->num_schema_elements > 0) { md->schema = malloc((size_t)md->num_schema_elements * sizeof(parquet_schema_element_t)); __CPROVER_assume(md->schema != NULL); }
  if (md && md->num_row_groups > 0) { md->row_groups = malloc((size_t)md->num_row_groups * sizeof(parquet_row_group_t)); __CPROVER_assume(md->row_groups != NULL); }
  carquet_status_t st = parquet_write_file_metadata(md, buf, err);
  CQV_CANARY("parquet_write_file_metadata returns");
  if (st == CARQUET_OK) CQV_CANARY("parquet_write_file_metadata can succeed");
}
void h_write_page_header(void) {
  cqv_w_havoc();
  parquet_page_header_t *h = nondet_bool() ? malloc(sizeof(*h)) : NULL;
  carquet_buffer_t *buf = nondet_bool() ? malloc(sizeof(*buf)) : NULL;
  carquet_error_t *err = nondet_bool() ? malloc(sizeof(*err)) : NULL;
  carquet_status_t st = parquet_write_page_header(h, buf, err);
  CQV_CANARY("parquet_write_page_header returns");
  if (st == CARQUET_OK) CQV_CANARY("parquet_write_page_header can succeed");
}

/* ======================= C13 parser dispatch / C17 logical-type ids (-DCQV_PT_RLOG) =========================
 * The thrift_read_* bodies of stubs/ptypes_stubs.c serve ONE ghost field (cqv_rl_type, cqv_rl_id) to the first
 * thrift_read_field_begin call and count reader calls.  Lemma per parse function: for that arbitrary first field the
 * function calls exactly the reader of the kind parquet.thrift declares for (struct, id) when the wire type matches,
 * and thrift_skip(wire type) - nothing else - when the id is not a field of the struct (or one carquet ignores).
 * Bounded: first field only, nested structs empty, list length <= 2. */
static void cqv_rl_reset(void) {
  cqv_rl_calls = 0; cqv_rl_n_byte = cqv_rl_n_i16 = cqv_rl_n_i32 = cqv_rl_n_i64 = cqv_rl_n_bool = cqv_rl_n_bin = 0;
  cqv_rl_n_list = cqv_rl_n_skip = cqv_rl_n_begin = cqv_rl_n_end = 0; cqv_rl_skip_type = -1;
  cqv_rl_type = (int)(nondet_unsigned() & 15);
  cqv_rl_id = (int16_t)nondet_int();
  cqv_rl_count = nondet_int();
  __CPROVER_assume(cqv_rl_type != 0 && cqv_rl_count >= 0 && cqv_rl_count <= 2);
}
static int cqv_rl_readers(void) {
  return cqv_rl_n_byte + cqv_rl_n_i16 + cqv_rl_n_i32 + cqv_rl_n_i64 + cqv_rl_n_bool + cqv_rl_n_bin + cqv_rl_n_list;
}
/* ignored: bit set of ids of struct `kind` that parquet.thrift declares but carquet deliberately skips */
static void cqv_rl_check(int kind, unsigned ignored) {
  int id = cqv_rl_id, t = cqv_rl_type, n = cqv_rl_count;
  int w = cqv_pt_wire(kind, id);
  _Bool ign = id >= 0 && id < 32 && ((ignored >> id) & 1u);
  if (w == 0 || ign) {
    __CPROVER_assert(cqv_rl_n_skip == 1 && cqv_rl_skip_type == t, "C13 parser: unknown/ignored field is skipped with its own wire type");
    __CPROVER_assert(cqv_rl_readers() == 0 && cqv_rl_n_begin == 1 && cqv_rl_n_end == 1, "C13 parser: nothing else is read for an unknown/ignored field");
    CQV_CANARY("dispatch: unknown field case");
  } else if (cqv_pt_wire_matches(w, t)) {
    __CPROVER_assert(cqv_rl_n_skip == 0, "C13 parser: a known field with the declared wire type is not skipped");
    if (w == W_I8) __CPROVER_assert(cqv_rl_n_byte == 1 && cqv_rl_readers() == 1 && cqv_rl_n_begin == 1, "C13 parser: i8 field read by thrift_read_byte only");
    if (w == W_I16) __CPROVER_assert(cqv_rl_n_i16 == 1 && cqv_rl_readers() == 1 && cqv_rl_n_begin == 1, "C13 parser: i16 field read by thrift_read_i16 only");
    if (w == W_I32) __CPROVER_assert(cqv_rl_n_i32 == 1 && cqv_rl_readers() == 1 && cqv_rl_n_begin == 1, "C13 parser: i32 field read by thrift_read_i32 only");
    if (w == W_I64) __CPROVER_assert(cqv_rl_n_i64 == 1 && cqv_rl_readers() == 1 && cqv_rl_n_begin == 1, "C13 parser: i64 field read by thrift_read_i64 only");
    if (w == W_BOOL) __CPROVER_assert(cqv_rl_n_bool == 1 && cqv_rl_readers() == 1 && cqv_rl_n_begin == 1, "C13 parser: bool field read by thrift_read_bool only");
    if (w == W_BIN) __CPROVER_assert(cqv_rl_n_bin == 1 && cqv_rl_readers() == 1 && cqv_rl_n_begin == 1, "C13 parser: binary field read by thrift_read_binary only");
    if (w == W_STRUCT) __CPROVER_assert(cqv_rl_readers() == 0 && cqv_rl_n_begin == 2 && cqv_rl_n_end == 2, "C13 parser: struct field parsed as one nested struct");
    if (w == W_LIST) {
      int e = cqv_pt_elem(kind, id);
      __CPROVER_assert(cqv_rl_n_list == 1, "C13 parser: list field read by thrift_read_list_begin");
      if (e == W_I32) __CPROVER_assert(cqv_rl_n_i32 == n && cqv_rl_readers() == 1 + n && cqv_rl_n_begin == 1, "C13 parser: list<i32>: one thrift_read_i32 per element");
      if (e == W_BIN) __CPROVER_assert(cqv_rl_n_bin == n && cqv_rl_readers() == 1 + n && cqv_rl_n_begin == 1, "C13 parser: list<binary>: one thrift_read_binary per element");
      if (e == W_STRUCT) __CPROVER_assert(cqv_rl_readers() == 1 && cqv_rl_n_begin == 1 + n && cqv_rl_n_end == 1 + n, "C13 parser: list<struct>: one nested struct per element");
      CQV_CANARY("dispatch: list field case");
    }
    CQV_CANARY("dispatch: known field case");
  }
  __CPROVER_assert(cqv_rl_n_begin == cqv_rl_n_end, "C13 parser: struct_begin/struct_end paired");
}
static thrift_decoder_t *mk_dec(void) {
  thrift_decoder_t *d = malloc(sizeof(*d));
  __CPROVER_assume(d != NULL);
  d->status = CARQUET_OK; d->nesting_level = 0;
  return d;
}

/* LogicalType union: tag -> carquet logical type id (specs: CQV_PT_LT_ID), parameter structs parsed, others skipped */
void h_disp_logical_type(void) {
  cqv_rl_reset(); thrift_decoder_t *dec = mk_dec(); MK(carquet_logical_type_t, lt);
  parse_logical_type(dec, lt);
  int tag = cqv_rl_id, t = cqv_rl_type;
  if (CQV_PT_LT_KNOWN(tag)) {
    __CPROVER_assert(lt->id == CQV_PT_LT_ID(tag), "C13/C17 parser: LogicalType union tag maps to the logical type parquet.thrift declares for it");
    if (tag == 5 || tag == 7 || tag == 8 || tag == 10) {
      if (t == W_STRUCT) __CPROVER_assert(cqv_rl_n_skip == 0 && cqv_rl_n_begin == 2 && cqv_rl_n_end == 2, "C13 parser: parameter struct of DECIMAL/TIME/TIMESTAMP/INTEGER is parsed, not skipped");
      CQV_CANARY("logical type: parameterised tag");
    } else {
      __CPROVER_assert(cqv_rl_n_skip == 1 && cqv_rl_skip_type == t && cqv_rl_readers() == 0 && cqv_rl_n_begin == 1, "C13 parser: empty member struct is skipped with its wire type");
      CQV_CANARY("logical type: parameterless tag");
    }
  } else {
    __CPROVER_assert(lt->id == CARQUET_LOGICAL_UNKNOWN, "C13/C17 parser: unknown union tag leaves the logical type UNKNOWN");
    __CPROVER_assert(cqv_rl_n_skip == 1 && cqv_rl_skip_type == t && cqv_rl_readers() == 0, "C13 parser: unknown union member skipped with its wire type");
    CQV_CANARY("logical type: unknown tag");
  }
  __CPROVER_assert(cqv_rl_n_begin == cqv_rl_n_end, "C13 parser: struct_begin/struct_end paired");
}
void h_disp_statistics(void) {
  cqv_rl_reset(); thrift_decoder_t *dec = mk_dec(); MK(parquet_statistics_t, s);
  parse_statistics(dec, nondet_ptr(), s);
  cqv_rl_check(K_STATISTICS, 0u);
}
void h_disp_schema_element(void) {
  cqv_rl_reset(); thrift_decoder_t *dec = mk_dec(); MK(parquet_schema_element_t, e);
  parse_schema_element(dec, nondet_ptr(), e);
  cqv_rl_check(K_SCHEMA_ELEMENT, 0u);
}
void h_disp_column_metadata(void) {
  cqv_rl_reset(); thrift_decoder_t *dec = mk_dec(); MK(parquet_column_metadata_t, m);
  parse_column_metadata(dec, nondet_ptr(), m);
  cqv_rl_check(K_COLUMN_META, (1u << 16) | (1u << 17));
}
void h_disp_column_chunk(void) {
  cqv_rl_reset(); thrift_decoder_t *dec = mk_dec(); MK(parquet_column_chunk_t, c);
  parse_column_chunk(dec, nondet_ptr(), c);
  cqv_rl_check(K_COLUMN_CHUNK, (1u << 8) | (1u << 9));
}
void h_disp_row_group(void) {
  cqv_rl_reset(); thrift_decoder_t *dec = mk_dec(); MK(parquet_row_group_t, rg);
  parse_row_group(dec, nondet_ptr(), rg);
  cqv_rl_check(K_ROW_GROUP, 1u << 4);
}
void h_disp_file_metadata(void) {
  cqv_rl_reset();
  size_t n = nondet_size_t(); __CPROVER_assume(n >= 1 && n <= CQV_MAXBUF);
  uint8_t *data = malloc(n); __CPROVER_assume(data != NULL);
  MK(parquet_file_metadata_t, md); carquet_arena_t *arena = malloc(sizeof(*arena)); __CPROVER_assume(arena != NULL);
  carquet_status_t st = parquet_parse_file_metadata(data, n, arena, md, NULL);
  cqv_rl_check(K_FILE_META, (1u << 7) | (1u << 8) | (1u << 9));
}
void h_disp_page_header(void) {
  cqv_rl_reset();
  size_t n = nondet_size_t(); __CPROVER_assume(n >= 1 && n <= CQV_MAXBUF);
  uint8_t *data = malloc(n); __CPROVER_assume(data != NULL);
  MK(parquet_page_header_t, h); size_t br;
  carquet_status_t st = parquet_parse_page_header(data, n, h, &br, NULL);
  cqv_rl_check(K_PAGE_HEADER, 1u << 6);
}
