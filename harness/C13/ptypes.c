/* C13: writer conformance of src/thrift/parquet_types.c against parquet.thrift (specs/parquet_thrift_table.h).
 * Built with -DCQV_PT_WRITER: thrift_write_* are the checking bodies of stubs/ptypes_stubs.c.
 * The macros and the annotated source come from the C08 harness file (one translation unit layout for the family). */
#include "../C08/ptypes.c"

/* arbitrary ghost state (the contract's requires clause then selects the admissible ones) */
static void cqv_w_havoc(void) {
  for (int i = 0; i < CQV_WMAX; i++) {
    cqv_w[i].kind = nondet_int(); cqv_w[i].last = nondet_int(); cqv_w[i].seen = nondet_unsigned(); cqv_w[i].elem = nondet_int(); cqv_w[i].lkind = nondet_int();
    cqv_w_left[i] = nondet_int();
  }
  cqv_w_depth = nondet_int(); cqv_w_pend = nondet_int(); cqv_w_next = nondet_int(); cqv_w_root = nondet_int();
}
static thrift_encoder_t *mk_enc(void) {
  thrift_encoder_t *e = malloc(sizeof(*e));
  __CPROVER_assume(e != NULL);
  return e;
}
#define MK(T, v) T *v = malloc(sizeof(T)); __CPROVER_assume(v != NULL)

void h_write_statistics(void) {
  cqv_w_havoc(); thrift_encoder_t *enc = mk_enc(); MK(parquet_statistics_t, s);
  write_statistics(enc, s);
  CQV_CANARY("write_statistics returns");
}
void h_write_logical_type(void) {
  cqv_w_havoc(); thrift_encoder_t *enc = mk_enc(); MK(carquet_logical_type_t, lt);
  write_logical_type(enc, lt);
  CQV_CANARY("write_logical_type returns");
}
void h_write_schema_element(void) {
  cqv_w_havoc(); thrift_encoder_t *enc = mk_enc(); MK(parquet_schema_element_t, e);
  write_schema_element(enc, e);
  CQV_CANARY("write_schema_element returns");
}
void h_write_column_metadata(void) {
  cqv_w_havoc(); thrift_encoder_t *enc = mk_enc(); MK(parquet_column_metadata_t, m);
  write_column_metadata(enc, m);
  CQV_CANARY("write_column_metadata returns");
}
void h_write_column_chunk(void) {
  cqv_w_havoc(); thrift_encoder_t *enc = mk_enc(); MK(parquet_column_chunk_t, c);
  write_column_chunk(enc, c);
  CQV_CANARY("write_column_chunk returns");
}
void h_write_row_group(void) {
  cqv_w_havoc(); thrift_encoder_t *enc = mk_enc(); MK(parquet_row_group_t, rg);
  if (rg->num_columns > 0) { rg->columns = malloc((size_t)rg->num_columns * sizeof(parquet_column_chunk_t)); __CPROVER_assume(rg->columns != NULL); }
  write_row_group(enc, rg);
  CQV_CANARY("write_row_group returns");
}
void h_write_file_metadata(void) {
  cqv_w_havoc();
  parquet_file_metadata_t *md = nondet_bool() ? malloc(sizeof(*md)) : NULL;
  carquet_buffer_t *buf = nondet_bool() ? malloc(sizeof(*buf)) : NULL;
  carquet_error_t *err = nondet_bool() ? malloc(sizeof(*err)) : NULL;
  if (md && md->num_schema_elements > 0) { md->schema = malloc((size_t)md->num_schema_elements * sizeof(parquet_schema_element_t)); __CPROVER_assume(md->schema != NULL); }
  if (md && md->num_row_groups > 0) { md->row_groups = malloc((size_t)md->num_row_groups * sizeof(parquet_row_group_t)); __CPROVER_assume(md->row_groups != NULL); }
  carquet_status_t st = parquet_write_file_metadata(md, buf, err);
  CQV_CANARY("parquet_write_file_metadata returns");
  if (st == CARQUET_OK) CQV_CANARY("parquet_write_file_metadata can succeed");
}
void h_write_page_header(void) {
  cqv_w_havoc();
  parquet_page_header_t *h = nondet_bool() ? malloc(sizeof(*h)) : NULL;
  carquet_buffer_t *buf = nondet_bool() ? malloc(sizeof(*buf)) : NULL;
  carquet_error_t *err = nondet_bool() ? malloc(sizeof(*err)) : NULL;
  carquet_status_t st = parquet_write_page_header(h, buf, err);
  CQV_CANARY("parquet_write_page_header returns");
  if (st == CARQUET_OK) CQV_CANARY("parquet_write_page_header can succeed");
}
