/* C18: file writer under a failing sink.  The real src/writer/file_writer.c is included
 * (static functions visible); stdio is the failing-sink model of stubs/stdio_stubs.c; the
 * row-group writer, arena, buffer and Thrift metadata serialiser are assumed contracts below.
 *
 * Representation invariant of carquet_writer_t assumed at entry (established by
 * carquet_writer_create / carquet_writer_create_file / add_column_internal by reading):
 *   file != NULL and open;  0 <= num_columns <= column_capacity;
 *   columns / column_values_written hold column_capacity entries (NULL iff capacity 0);
 *   columns[i].name is an owned heap string for i < num_columns, names pairwise distinct;
 *   0 <= num_row_groups <= row_groups_capacity < 2^30, row_groups holds capacity entries;
 *   0 <= file_offset, total_rows, current_row_group_rows <= 2^61;
 *   current_row_group is NULL or a live row-group writer; arena initialised.
 */
#include "cqv.h"
#include <stdlib.h>
#include "stdio_stubs.c"
#include "src/writer/file_writer.c"

/* bounds (only for level='bounded' jobs; undefined => symbolic, full int32 range) */
#ifdef CQV_NCOL_MAX
#define NCOL_LIMIT CQV_NCOL_MAX
#else
#define NCOL_LIMIT 0x3FFFFFFF
#endif
#ifdef CQV_NRG_MAX
#define NRG_LIMIT CQV_NRG_MAX
#else
#define NRG_LIMIT 0x3FFFFFFF
#endif

/* ---- realloc: the only reallocation in the functions under proof is flush_row_group's growth
 * of writer->row_groups.  CBMC's model copies the old array (__CPROVER_array_copy) and creates an
 * untyped byte object, which exhausts memory on symbolic-size arrays of structs.  Assumed
 * contract: may fail (old block untouched); otherwise a new block of the requested size with
 * ARBITRARY contents (superset of "old contents preserved") and the old block is freed. */
#ifdef CQV_GENERIC_REALLOC
/* create jobs (bounded, concrete indices): add_column_internal grows columns / column_values_written;
 * an untyped block is fine there */
void *realloc(void *ptr, size_t size) {
  __CPROVER_precondition(size != 0 && size <= CQV_MAXBUF, "realloc: sane size");
  if (nondet_bool()) return NULL;
  void *res = malloc(size);
  __CPROVER_assume(res != NULL);
  if (ptr != NULL) free(ptr);
  return res;
}
char *strdup(const char *str) {
  __CPROVER_precondition(str != NULL && __CPROVER_r_ok(str, 1), "strdup: source string readable");
  if (nondet_bool()) return NULL;
  size_t n = nondet_size_t();
  __CPROVER_assume(n >= 1 && n <= CQV_MAXBUF);
  char *p = malloc(n);
  __CPROVER_assume(p != NULL);
  p[n - 1] = 0;
  return p;
}
#include "src/core/error.c"        /* the real carquet_error_set (vsnprintf is the stub) */
#else
void *realloc(void *ptr, size_t size) {
  __CPROVER_precondition(size != 0 && size % sizeof(row_group_info_t) == 0, "realloc: whole row_group_info_t elements");
  if (nondet_bool()) return NULL;
  size_t n = size / sizeof(row_group_info_t);
  void *res = malloc(n * sizeof(row_group_info_t));
  __CPROVER_assume(res != NULL);
  if (ptr != NULL) free(ptr);
  return res;
}
#endif

/* ---- assumed contract: row-group writer (src/writer/row_group_writer.c) ---------------- */
carquet_row_group_writer_t *G_rg;   /* the live row-group writer handle, if any */
_Bool G_rg_live;
uint8_t *G_rg_data;                 /* finalized bytes, owned by the row-group writer */
unsigned G_rg_destroy_calls, G_rg_finalize_calls, G_rg_create_calls;
column_chunk_info_t G_colinfo;
char G_colpath[4];

static carquet_row_group_writer_t *mk_rg(void) {
  G_rg = malloc(1);
  __CPROVER_assume(G_rg != NULL);
  G_rg_live = 1;
  G_rg_data = NULL;
  return G_rg;
}

carquet_row_group_writer_t *carquet_row_group_writer_create(const carquet_schema_t *schema,
    carquet_compression_t compression, size_t target_page_size, int64_t file_offset) {
  (void)schema; (void)compression; (void)target_page_size; (void)file_offset;
  __CPROVER_precondition(!G_rg_live, "row-group writer: at most one live at a time");
  G_rg_create_calls++;
  if (nondet_bool()) return NULL;
  return mk_rg();
}

void carquet_row_group_writer_destroy(carquet_row_group_writer_t *w) {
  __CPROVER_precondition(w != NULL && w == G_rg && G_rg_live, "row-group writer destroyed while live, exactly once");
  G_rg_destroy_calls++;
  G_rg_live = 0;
  free(G_rg_data);
  G_rg_data = NULL;
  free(w);
}

carquet_status_t carquet_row_group_writer_add_column(carquet_row_group_writer_t *w, const char *name,
    carquet_physical_type_t type, int16_t max_def_level, int16_t max_rep_level, int32_t type_length) {
  (void)type; (void)max_def_level; (void)max_rep_level; (void)type_length;
  __CPROVER_precondition(w == G_rg && G_rg_live, "row-group writer live");
  __CPROVER_precondition(name != NULL && __CPROVER_r_ok(name, 1), "column name readable");
  return (carquet_status_t)nondet_int();
}

carquet_status_t carquet_row_group_writer_write_column(carquet_row_group_writer_t *w, int column_index,
    const void *values, int64_t num_values, const int16_t *def_levels, const int16_t *rep_levels) {
  (void)column_index; (void)values; (void)num_values; (void)def_levels; (void)rep_levels;
  __CPROVER_precondition(w == G_rg && G_rg_live, "row-group writer live");
  return (carquet_status_t)nondet_int();
}

carquet_status_t carquet_row_group_writer_finalize(carquet_row_group_writer_t *w, const uint8_t **data,
    size_t *size, int64_t num_rows) {
  (void)num_rows;
  __CPROVER_precondition(w == G_rg && G_rg_live, "row-group writer live");
  G_rg_finalize_calls++;
  int st = nondet_int();
  if (st != CARQUET_OK) return (carquet_status_t)st;   /* any failure; outputs untouched */
  size_t n = nondet_size_t();
  __CPROVER_assume(n <= CQV_MAXBUF);
  free(G_rg_data);
  G_rg_data = malloc(n);
  __CPROVER_assume(G_rg_data != NULL);
  *data = G_rg_data;
  *size = n;
  return CARQUET_OK;
}

int carquet_row_group_writer_num_columns(const carquet_row_group_writer_t *w) {
  __CPROVER_precondition(w == G_rg && G_rg_live, "row-group writer live");
  int n = nondet_int();
  __CPROVER_assume(n >= 0 && n <= NCOL_LIMIT);
  return n;
}
int64_t carquet_row_group_writer_num_rows(const carquet_row_group_writer_t *w) {
  __CPROVER_precondition(w == G_rg && G_rg_live, "row-group writer live");
  return nondet_i64();
}
int64_t carquet_row_group_writer_total_byte_size(const carquet_row_group_writer_t *w) {
  __CPROVER_precondition(w == G_rg && G_rg_live, "row-group writer live");
  return nondet_i64();
}
const column_chunk_info_t *carquet_row_group_writer_get_column_info(const carquet_row_group_writer_t *w, int index) {
  __CPROVER_precondition(w == G_rg && G_rg_live, "row-group writer live");
  __CPROVER_precondition(index >= 0, "column info index non-negative");
  if (nondet_bool()) return NULL;
  column_chunk_info_t fresh;          /* arbitrary contents */
  G_colinfo = fresh;
  G_colpath[3] = 0;
  G_colinfo.path = nondet_bool() ? G_colpath : NULL;
  return &G_colinfo;
}

/* ---- assumed contract: arena (src/core/arena.c) ---------------------------------------- */
carquet_arena_t *G_arena;
_Bool G_arena_live;
unsigned G_arena_destroy_calls;

carquet_status_t carquet_arena_init_size(carquet_arena_t *arena, size_t block_size) {
  (void)block_size;
  __CPROVER_precondition(__CPROVER_w_ok(arena, sizeof(*arena)), "arena object writable");
  if (nondet_bool()) return CARQUET_ERROR_OUT_OF_MEMORY;
  G_arena = arena;
  G_arena_live = 1;
  return CARQUET_OK;
}
void carquet_arena_destroy(carquet_arena_t *arena) {
  __CPROVER_precondition(arena == G_arena && G_arena_live, "arena destroyed while initialised, exactly once");
  G_arena_live = 0;
  G_arena_destroy_calls++;
}
void *carquet_arena_calloc(carquet_arena_t *arena, size_t count, size_t size) {
  __CPROVER_precondition(arena == G_arena && G_arena_live, "arena live");
  if (nondet_bool()) return NULL;
  if (count > ((size_t)1 << 31) || size > ((size_t)1 << 12)) return NULL;
  /* the byte count is laundered through a nondet so that CBMC creates a plain byte object:
   * member-pointer accesses (&columns[i].metadata)->x at a symbolic i are then byte updates on a
   * byte array (cheap) instead of byte updates on an array of structs (memory blow-up) */
  size_t z = nondet_size_t();
  __CPROVER_assume(z == 0);
  size_t bytes = count * (size + z);
  if (bytes > CQV_MAXBUF) return NULL;
  return __CPROVER_allocate(bytes, 1);   /* zero-filled, owned by the arena (not leak-tracked) */
}
char *carquet_arena_strdup(carquet_arena_t *arena, const char *str) {
  __CPROVER_precondition(arena == G_arena && G_arena_live, "arena live");
  __CPROVER_precondition(str != NULL && __CPROVER_r_ok(str, 1), "arena_strdup: source string readable");
  if (nondet_bool()) return NULL;
  size_t n = nondet_size_t();
  __CPROVER_assume(n >= 1 && n <= CQV_MAXBUF);
  return __CPROVER_allocate(n, 0);
}

/* ---- assumed contract: growable buffer + Thrift serialiser ------------------------------- */
unsigned G_buf_inits, G_buf_destroys;
void carquet_buffer_init(carquet_buffer_t *buf) {
  buf->data = NULL; buf->size = 0; buf->capacity = 0; buf->owns_data = 1;
  G_buf_inits++;
}
void carquet_buffer_destroy(carquet_buffer_t *buf) {
  free(buf->data);
  buf->data = NULL; buf->size = 0; buf->capacity = 0;
  G_buf_destroys++;
}
carquet_status_t parquet_write_file_metadata(const parquet_file_metadata_t *metadata, carquet_buffer_t *buffer,
                                             carquet_error_t *error) {
  (void)error;
  __CPROVER_precondition(__CPROVER_r_ok(metadata, sizeof(*metadata)), "metadata readable");
  __CPROVER_precondition(buffer->data == NULL && buffer->size == 0, "serialiser gets an initialised empty buffer");
  int st = nondet_int();
  if (st == CARQUET_OK || nondet_bool()) {   /* OK => at least one byte appended; may append also when it then fails */
    size_t n = nondet_size_t();
    __CPROVER_assume(n >= 1 && n <= CQV_MAXBUF);
    buffer->data = malloc(n);
    __CPROVER_assume(buffer->data != NULL);
    buffer->size = n; buffer->capacity = n;
  }
  return (carquet_status_t)st;
}

/* ---- writer object in an arbitrary state satisfying the representation invariant ---------- */
static char G_created_by[2];
static carquet_writer_t *mk_writer(void) {
  carquet_writer_t *w = malloc(sizeof(*w));
  __CPROVER_assume(w != NULL);
  w->file = G_stream;
  G_stream_open = 1;
  w->owns_file = nondet_bool();
  w->path = NULL;
  if (nondet_bool()) {
    size_t L = nondet_size_t();
    __CPROVER_assume(L >= 1 && L <= CQV_MAXBUF);
    w->path = malloc(L);
    __CPROVER_assume(w->path != NULL);
    w->path[L - 1] = 0;
  }
  int32_t n = nondet_i32(), cap = nondet_i32();
  __CPROVER_assume(0 <= n && n <= cap && cap <= 0x3FFFFFFF && n <= NCOL_LIMIT);
  w->num_columns = n;
  w->column_capacity = cap;
  if (cap == 0) {
    w->columns = NULL;
    w->column_values_written = NULL;
  } else {
    w->columns = malloc((size_t)cap * sizeof(writer_column_def_t));
    w->column_values_written = malloc((size_t)cap * sizeof(int64_t));
    __CPROVER_assume(w->columns != NULL && w->column_values_written != NULL);
  }
#ifdef CQV_NCOL_MAX
  for (int32_t i = 0; i < CQV_NCOL_MAX; i++) {
    if (i < n) {
      w->columns[i].name = malloc(1);
      __CPROVER_assume(w->columns[i].name != NULL);
      w->columns[i].name[0] = 0;
    }
  }
#endif
  int32_t nr = nondet_i32(), rc = nondet_i32();
  __CPROVER_assume(0 <= nr && nr <= rc && rc <= 0x3FFFFFFF && nr <= NRG_LIMIT);
  w->num_row_groups = nr;
  w->row_groups_capacity = rc;
  if (rc == 0) {
    w->row_groups = NULL;
  } else {
    w->row_groups = malloc((size_t)rc * sizeof(row_group_info_t));
    __CPROVER_assume(w->row_groups != NULL);
  }
  w->current_row_group = nondet_bool() ? mk_rg() : NULL;
  __CPROVER_assume(w->file_offset >= 0 && w->file_offset <= ((int64_t)1 << 61));
  __CPROVER_assume(w->total_rows >= 0 && w->total_rows <= ((int64_t)1 << 61));
  __CPROVER_assume(w->current_row_group_rows >= 0 && w->current_row_group_rows <= ((int64_t)1 << 61));
  G_created_by[1] = 0;
  w->options.created_by = nondet_bool() ? G_created_by : NULL;
  G_arena = &w->arena;
  G_arena_live = 1;
  return w;
}

/* ---- write_magic --------------------------------------------------------------------------- */
void h_write_magic(void) {
  G_stream_open = 1;
  _Bool failed0 = G_io_failed;
  uint64_t req0 = G_bytes_requested, acc0 = G_bytes_accepted;
  carquet_status_t st = write_magic(G_stream);
  __CPROVER_assert(G_bytes_requested - req0 == 4, "write_magic asks the sink for exactly 4 bytes");
  __CPROVER_assert(st != CARQUET_OK || G_io_failed == failed0, "OK => no sink failure during write_magic");
  __CPROVER_assert(st != CARQUET_OK || G_bytes_accepted - acc0 == 4, "OK => all 4 magic bytes accepted");
  __CPROVER_assert(st == CARQUET_OK || st == CARQUET_ERROR_FILE_WRITE, "failure is reported as FILE_WRITE");
  if (G_io_failed == failed0) CQV_CANARY("sink can accept the magic"); else CQV_CANARY("sink can fail during write_magic");
  CQV_CANARY("write_magic harness end");
}

/* ---- ensure_header_written ------------------------------------------------------------------ */
void h_ensure_header(void) {
  carquet_writer_t *w = mk_writer();
  _Bool failed0 = G_io_failed, hw0 = w->header_written;
  int64_t off0 = w->file_offset;
  uint64_t req0 = G_bytes_requested, acc0 = G_bytes_accepted;
  carquet_status_t st = ensure_header_written(w);
  __CPROVER_assert(st != CARQUET_OK || G_io_failed == failed0, "OK => no sink failure");
  __CPROVER_assert(st != CARQUET_OK || w->header_written, "OK => header marked written");
  __CPROVER_assert(st != CARQUET_OK || hw0 || (G_bytes_accepted - acc0 == 4 && w->file_offset == 4),
                   "OK on a fresh writer => 4 bytes accepted and offset is 4");
  __CPROVER_assert(!hw0 || (G_bytes_requested == req0 && w->file_offset == off0), "header is written at most once");
  __CPROVER_assert(st == CARQUET_OK || !w->header_written, "failure => header not marked written (a later call retries)");
  if (!hw0 && G_io_failed == failed0) CQV_CANARY("header written now");
  if (G_io_failed != failed0) CQV_CANARY("sink can fail during the header write");
  if (hw0) CQV_CANARY("header already written");
  CQV_CANARY("ensure_header harness end");
}

/* ---- ensure_row_group (C19: a failing column registration leaves no dangling row-group writer) ----- */
void h_ensure_row_group(void) {
  carquet_writer_t *w = mk_writer();
  _Bool had = w->current_row_group != NULL;
  carquet_row_group_writer_t *rg0 = w->current_row_group;
  G_rg_destroy_calls = 0; G_rg_create_calls = 0;
  carquet_status_t st = ensure_row_group(w);
  __CPROVER_assert((w->current_row_group != NULL) == G_rg_live, "C19: the writer references a row-group writer exactly while one is live (no dangling handle)");
  __CPROVER_assert(w->current_row_group == NULL || w->current_row_group == G_rg, "the referenced row-group writer is the live one");
  __CPROVER_assert(!had || (st == CARQUET_OK && w->current_row_group == rg0 && G_rg_create_calls == 0), "an open row group is kept");
  __CPROVER_assert(st != CARQUET_OK || w->current_row_group != NULL, "OK => a row group is open");
  __CPROVER_assert(st == CARQUET_OK || had || (w->current_row_group == NULL && !G_rg_live), "failure => nothing stays open, the half-built row-group writer was destroyed");
  if (st == CARQUET_OK && !had) {
    __CPROVER_assert(w->current_row_group_rows == 0, "a fresh row group has no rows");
    int32_t c = nondet_i32();
    __CPROVER_assume(c >= 0 && c < w->num_columns);
    __CPROVER_assert(w->column_values_written[c] == 0, "a fresh row group has no values in any column");
    CQV_CANARY("ensure_row_group opens a row group");
  }
  if (st != CARQUET_OK && G_rg_destroy_calls == 1) CQV_CANARY("ensure_row_group: column registration can fail");
  if (st != CARQUET_OK && G_rg_destroy_calls == 0) CQV_CANARY("ensure_row_group: creation can fail");
  CQV_CANARY("ensure_row_group harness end");
}

/* ---- flush_row_group ------------------------------------------------------------------------- */
void h_flush_row_group(void) {
  carquet_writer_t *w = mk_writer();
  _Bool failed0 = G_io_failed, had_rg = w->current_row_group != NULL;
  int64_t off0 = w->file_offset;
  int32_t nr0 = w->num_row_groups;
  uint64_t req0 = G_bytes_requested, acc0 = G_bytes_accepted;
  FILE *file0 = w->file; _Bool owns0 = w->owns_file; char *path0 = w->path;
  writer_column_def_t *cols0 = w->columns; int64_t *cvw0 = w->column_values_written;
  int32_t nc0 = w->num_columns;
  carquet_status_t st = flush_row_group(w);
  __CPROVER_assert(st != CARQUET_OK || G_io_failed == failed0, "OK => no sink failure during flush_row_group");
  __CPROVER_assert(st != CARQUET_OK || G_bytes_accepted - acc0 == G_bytes_requested - req0, "OK => every requested byte accepted");
  __CPROVER_assert(st != CARQUET_OK || (w->current_row_group == NULL && !G_rg_live), "OK => row group released");
  __CPROVER_assert(st != CARQUET_OK || !had_rg || (w->num_row_groups == nr0 + 1 && w->file_offset - off0 == (int64_t)(G_bytes_accepted - acc0)),
                   "OK => one row group recorded and the offset advanced by the bytes written");
  __CPROVER_assert(had_rg || (st == CARQUET_OK && G_bytes_requested == req0), "no pending row group => nothing written, OK");
  __CPROVER_assert(st == CARQUET_OK || (w->current_row_group == G_rg && G_rg_live && G_rg_destroy_calls == 0),
                   "failure => row-group writer still owned by the writer (released by close/abort)");
  __CPROVER_assert(0 <= w->num_row_groups && w->num_row_groups <= w->row_groups_capacity, "row-group array invariant kept");
  __CPROVER_assert(w->file == file0 && w->owns_file == owns0 && w->path == path0 && w->columns == cols0 &&
                   w->column_values_written == cvw0 && w->num_columns == nc0 && G_stream_open && G_arena_live,
                   "frame: stream, path, schema arrays and arena untouched");
  /* canaries depend on ghost state only (never on the code's return value) */
  if (had_rg && G_bytes_requested != req0 && G_io_failed == failed0) CQV_CANARY("sink can accept the row group");
  if (G_io_failed != failed0) CQV_CANARY("sink can fail during flush");
  if (had_rg && G_bytes_requested == req0) CQV_CANARY("pending row group, nothing written (finalize failed or empty)");
  if (!had_rg) CQV_CANARY("no pending row group");
  CQV_CANARY("flush_row_group harness end");
}

/* ---- carquet_writer_new_row_group ------------------------------------------------------------- */
void h_new_row_group(void) {
  carquet_writer_t *w = mk_writer();
  _Bool failed0 = G_io_failed;
  uint64_t req0 = G_bytes_requested, acc0 = G_bytes_accepted;
  carquet_status_t st = carquet_writer_new_row_group(w);
  __CPROVER_assert(st != CARQUET_OK || G_io_failed == failed0, "OK => no sink failure during new_row_group");
  __CPROVER_assert(st != CARQUET_OK || G_bytes_accepted - acc0 == G_bytes_requested - req0, "OK => every requested byte accepted");
  __CPROVER_assert(st != CARQUET_OK || (w->header_written && w->current_row_group == NULL), "OK => header written, no pending row group");
  __CPROVER_assert((w->current_row_group != NULL) == G_rg_live, "row-group writer ownership consistent");
  if (G_bytes_requested != req0 && G_io_failed == failed0) CQV_CANARY("sink can accept everything in new_row_group");
  if (G_io_failed != failed0) CQV_CANARY("sink can fail during new_row_group");
  CQV_CANARY("new_row_group harness end");
}

/* ---- carquet_writer_close ----------------------------------------------------------------------- */
static carquet_status_t run_close(_Bool *owns, _Bool *had_rg) {
  carquet_writer_t *w = mk_writer();
  *owns = w->owns_file;
  *had_rg = w->current_row_group != NULL;
  G_io_failed = 0;                  /* every earlier failure was reported by the call that saw it */
  G_fclose_calls = 0; G_fflush_calls = 0; G_arena_destroy_calls = 0; G_rg_destroy_calls = 0; G_remove_calls = 0;
  G_buf_inits = 0; G_buf_destroys = 0;
  return carquet_writer_close(w);
}

/* (a) failed writes are never reported OK; OK => all bytes reached the sink */
void h_close_io(void) {
  _Bool owns, had_rg;
  uint64_t req0 = G_bytes_requested, acc0 = G_bytes_accepted;
  carquet_status_t st = run_close(&owns, &had_rg);
  int cex_owns = owns;              /* named input of replay/direct/writer_close.c */
  (void)cex_owns;
  __CPROVER_assert(st != CARQUET_OK || !G_io_failed, "close returns OK => no fwrite/fflush/fclose on the sink reported failure");
  __CPROVER_assert(st != CARQUET_OK || G_bytes_accepted - acc0 == G_bytes_requested - req0, "close returns OK => every requested byte accepted");
  __CPROVER_assert(st != CARQUET_OK || !G_dirty, "close returns OK => accepted bytes were flushed successfully (fflush/fclose)");
  __CPROVER_assert(st != CARQUET_OK || G_bytes_requested - req0 >= 8, "close returns OK => footer length and magic were written");
  if (G_io_failed) CQV_CANARY("sink can fail during close");
  if (!G_io_failed && !G_dirty && G_bytes_requested - req0 >= 8 && owns) CQV_CANARY("sink takes a whole file, owned stream");
  if (!G_io_failed && !G_dirty && G_bytes_requested - req0 >= 8 && !owns) CQV_CANARY("sink takes a whole file, caller-owned FILE");
  if (G_io_failed && G_fflush_calls > 0) CQV_CANARY("failure with fflush reached");
  CQV_CANARY("close io harness end");
}

/* (b) all resources released exactly once on every path, file closed iff owned, nothing removed.
 * double free / free of non-heap: CBMC free preconditions; leaks: --memory-leak-check */
void h_close_resources(void) {
  _Bool owns, had_rg;
  carquet_status_t st = run_close(&owns, &had_rg);
  __CPROVER_assert(G_arena_destroy_calls == 1 && !G_arena_live, "arena destroyed exactly once");
  __CPROVER_assert(!G_rg_live && G_rg_destroy_calls == (had_rg ? 1u : 0u), "pending row-group writer destroyed exactly once");
  __CPROVER_assert(G_fclose_calls == (owns ? 1u : 0u) && G_stream_open == !owns, "stream closed iff the writer owns it");
  __CPROVER_assert(G_buf_inits == G_buf_destroys, "metadata buffer destroyed on every path");
  __CPROVER_assert(G_remove_calls == 0, "close never removes the file");
  if (G_io_failed) CQV_CANARY("sink can fail during close"); else CQV_CANARY("sink can accept everything during close");
  if (owns) CQV_CANARY("owned"); else CQV_CANARY("not owned");
  if (had_rg) CQV_CANARY("pending row group");
  CQV_CANARY("close resources harness end");
}

/* ---- carquet_writer_abort ------------------------------------------------------------------------ */
void h_abort(void) {
  carquet_writer_t *w = nondet_bool() ? mk_writer() : NULL;
  _Bool owns = w && w->owns_file, had_rg = w && w->current_row_group != NULL;
  char *path = w ? w->path : NULL;
  uint64_t req0 = G_bytes_requested;
  G_fclose_calls = 0; G_arena_destroy_calls = 0; G_rg_destroy_calls = 0; G_remove_calls = 0; G_removed_path = NULL;
  carquet_writer_abort(w);
  if (w) {
    __CPROVER_assert(G_arena_destroy_calls == 1 && !G_arena_live, "arena destroyed exactly once");
    __CPROVER_assert(!G_rg_live && G_rg_destroy_calls == (had_rg ? 1u : 0u), "pending row-group writer destroyed exactly once");
    __CPROVER_assert(G_fclose_calls == (owns ? 1u : 0u) && G_stream_open == !owns, "stream closed iff the writer owns it");
    __CPROVER_assert(G_remove_calls == ((owns && path) ? 1u : 0u), "remove called exactly once iff owns_file && path");
    __CPROVER_assert(G_remove_calls == 0 || G_removed_path == path, "remove called on the writer's own path");
    __CPROVER_assert(G_bytes_requested == req0, "abort writes nothing");
    if (owns && path) CQV_CANARY("abort removes the file");
    if (!owns) CQV_CANARY("abort on caller-owned FILE");
    if (had_rg) CQV_CANARY("abort with pending row group");
  } else {
    __CPROVER_assert(G_arena_destroy_calls == 0 && G_fclose_calls == 0 && G_remove_calls == 0, "abort(NULL) does nothing");
    CQV_CANARY("abort NULL");
  }
  CQV_CANARY("abort harness end");
}

/* ---- carquet_writer_create / carquet_writer_create_file: failure paths -------------------------------
 * fopen may fail, every strdup/calloc/realloc/arena_init may fail (also --malloc-may-fail).
 * Bounded: the schema has <= CQV_NLEAF_MAX leaves.  CQV_CREATE_STRICT adds the (not property-level)
 * obligation that a failed create leaves no file behind. */
#ifdef CQV_NLEAF_MAX
static char G_path_str[8], G_leaf_name[4];
static carquet_schema_t *mk_schema(void) {
  carquet_schema_t *sc = malloc(sizeof(*sc));
  __CPROVER_assume(sc != NULL);
  int32_t nl = nondet_i32();
  __CPROVER_assume(0 <= nl && nl <= CQV_NLEAF_MAX);
  sc->num_leaves = nl;
  sc->num_elements = nl + 1;
  /* constant-size arrays (the job is bounded anyway): &elements[idx].logical_type at a symbolic idx is a
   * member pointer into an array of structs, affordable only when the array size is a small constant */
  sc->elements = malloc((size_t)(CQV_NLEAF_MAX + 1) * sizeof(parquet_schema_element_t));
  sc->leaf_indices = malloc((size_t)(CQV_NLEAF_MAX + 1) * sizeof(int32_t));
  __CPROVER_assume(sc->elements != NULL && sc->leaf_indices != NULL);
  G_leaf_name[3] = 0;
  for (int32_t i = 0; i <= CQV_NLEAF_MAX; i++) {
    if (i <= nl) {
      sc->elements[i].name = G_leaf_name;
      __CPROVER_assume(sc->leaf_indices[i] >= 0 && sc->leaf_indices[i] <= nl);
    }
  }
  return sc;
}
static void free_schema(carquet_schema_t *sc) { free(sc->elements); free(sc->leaf_indices); free(sc); }
static carquet_error_t *mk_err(void) {
  if (nondet_bool()) return NULL;
  carquet_error_t *e = malloc(sizeof(*e));
  __CPROVER_assume(e != NULL);
  e->code = CARQUET_OK;
  return e;
}
static int err_filled(const carquet_error_t *e) {
  return e->code != CARQUET_OK && G_msg_base == e->message && G_msg_nul < CARQUET_ERROR_MESSAGE_MAX && e->message[G_msg_nul] == 0;
}
static void check_created(carquet_writer_t *w, const carquet_schema_t *sc, _Bool owns) {
  __CPROVER_assert(w->file == G_stream && G_stream_open && w->owns_file == owns, "created writer holds the open stream with the right ownership");
  __CPROVER_assert(owns ? w->path != NULL : w->path == NULL, "path recorded iff path-based");
  __CPROVER_assert(w->num_columns == sc->num_leaves && w->num_columns <= w->column_capacity, "one column per schema leaf");
  __CPROVER_assert(w->num_columns == 0 || (w->columns != NULL && w->column_values_written != NULL), "schema arrays allocated");
  __CPROVER_assert(!w->header_written && w->current_row_group == NULL && w->num_row_groups == 0 && w->row_groups == NULL, "fresh writer state");
  __CPROVER_assert(G_arena == &w->arena && G_arena_live, "arena initialised");
}

void h_create(void) {
  carquet_schema_t *sc = mk_schema();
  carquet_writer_options_t opt;
  carquet_error_t *error = mk_err();
  G_path_str[7] = 0;
  G_stream_open = 0; G_arena_live = 0; G_rg_live = 0; G_arena = NULL; G_fopen_ok = 0;
  G_fopen_calls = 0; G_fclose_calls = 0; G_remove_calls = 0; G_arena_destroy_calls = 0;
  uint64_t req0 = G_bytes_requested;
  carquet_writer_t *w = carquet_writer_create(G_path_str, sc, nondet_bool() ? &opt : NULL, error);
  __CPROVER_assert(G_bytes_requested == req0, "create writes nothing");
  if (w != NULL) {
    check_created(w, sc, 1);
    CQV_CANARY("create can succeed");
    carquet_writer_abort(w);            /* releases everything (c18_abort_b) */
  } else {
    __CPROVER_assert(error == NULL || err_filled(error), "failure => error struct has a non-OK code and a NUL-terminated message");
    __CPROVER_assert(!G_stream_open && G_fclose_calls == G_fopen_ok && (G_fopen_calls == 0 || G_fopen_path == G_path_str),
                     "failure => the stream opened on the given path is closed exactly once, never left open");
    __CPROVER_assert(!G_arena_live, "failure => arena destroyed if it was initialised");
#ifdef CQV_CREATE_STRICT
    __CPROVER_assert(G_fopen_ok == 0 || G_remove_calls == 1, "failure after a successful fopen => the created file is removed");
#endif
    /* canaries depend on stub ghosts only (which environment call failed), not on the code's reaction */
    if (G_fopen_calls == 1 && G_fopen_ok == 0) CQV_CANARY("fopen can fail");
    if (G_fopen_ok == 1) CQV_CANARY("failure after fopen succeeded");
    if (G_fopen_calls == 0) CQV_CANARY("failure before fopen");
  }
  free_schema(sc);
  free(error);
  CQV_CANARY("create harness end");
}

void h_create_file(void) {
  carquet_schema_t *sc = mk_schema();
  carquet_writer_options_t opt;
  carquet_error_t *error = mk_err();
  G_stream_open = 1; G_arena_live = 0; G_rg_live = 0; G_arena = NULL;
  G_fopen_calls = 0; G_fclose_calls = 0; G_remove_calls = 0; G_arena_destroy_calls = 0;
  uint64_t req0 = G_bytes_requested;
  carquet_writer_t *w = carquet_writer_create_file(G_stream, sc, nondet_bool() ? &opt : NULL, error);
  __CPROVER_assert(G_bytes_requested == req0, "create_file writes nothing");
  __CPROVER_assert(G_stream_open && G_fclose_calls == 0 && G_remove_calls == 0 && G_fopen_calls == 0,
                   "the caller's FILE is never closed, nothing is opened or removed");
  if (w != NULL) {
    check_created(w, sc, 0);
    CQV_CANARY("create_file can succeed");
    carquet_writer_abort(w);
    __CPROVER_assert(G_stream_open && G_fclose_calls == 0 && G_remove_calls == 0, "abort leaves the caller's FILE alone");
  } else {
    __CPROVER_assert(error == NULL || err_filled(error), "failure => error struct has a non-OK code and a NUL-terminated message");
    __CPROVER_assert(!G_arena_live, "failure => arena destroyed if it was initialised");
    if (G_arena != NULL) CQV_CANARY("create_file can fail after arena init");
    if (G_arena == NULL) CQV_CANARY("create_file can fail before arena init");
  }
  free_schema(sc);
  free(error);
  CQV_CANARY("create_file harness end");
}
#endif
