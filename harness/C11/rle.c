/* C11: RLE hybrid encoder of the real src/encoding/rle.c preserves the value count / positions
 * (ghost state G_put, G_emitted; see specs/rle_spec.h).  Ghosts and encoder fields are arbitrary
 * (havocked) at entry; the invariant is assumed through the requires clauses only. */
#undef __SSE2__
#undef __ARM_NEON
#undef __ARM_NEON__
#include "cqv.h"
#include <stdlib.h>
#include "rle_spec.h"
#include "src/encoding/rle.c"

static void havoc_ghosts(void) {
  G_put = nondet_i64();
  G_emitted = nondet_i64();
  G_pad = nondet_i64();
  rle_append_failures = nondet_unsigned();
  rle_rec_len = nondet_size_t();
}

static carquet_rle_encoder_t *mk_enc(void) {
  carquet_rle_encoder_t *enc = malloc(sizeof(*enc));
  __CPROVER_assume(enc != NULL);
  carquet_buffer_t *buf = malloc(sizeof(*buf));
  __CPROVER_assume(buf != NULL);
  enc->buffer = buf;
  havoc_ghosts();
  return enc;
}

void h_c11_enc_append(void) {
  carquet_rle_encoder_t *enc = mk_enc();
  size_t n = nondet_size_t();
  __CPROVER_assume(n <= 64);
  uint8_t *d = malloc(n);
  __CPROVER_assume(d != NULL);
  enc_append(enc, d, n);
  if (enc->status == CARQUET_OK) CQV_CANARY("enc_append keeps status OK"); else CQV_CANARY("enc_append leaves an error status");
}

void h_c11_write_varint(void) {
  carquet_rle_encoder_t *enc = mk_enc();
  write_varint(enc, nondet_u32());
  CQV_CANARY("write_varint returns");
}

void h_c11_complete_group(void) {
  carquet_rle_encoder_t *enc = mk_enc();
  complete_bitpack_group_from_run(enc);
  CQV_CANARY("complete_bitpack_group_from_run returns");
  if (enc->bitpack_count == 0) CQV_CANARY("group completed and flushed");
}

void h_c11_flush_rle(void) {
  carquet_rle_encoder_t *enc = mk_enc();
  flush_rle(enc);
  CQV_CANARY("flush_rle returns");
}

void h_c11_flush_bitpack(void) {
  carquet_rle_encoder_t *enc = mk_enc();
  flush_bitpack(enc);
  CQV_CANARY("flush_bitpack returns");
}

void h_c11_encoder_init(void) {
  carquet_rle_encoder_t *enc = mk_enc();
  carquet_rle_encoder_init(enc, enc->buffer, nondet_int());
  CQV_CANARY("encoder_init returns");
}

void h_c11_put(void) {
  carquet_rle_encoder_t *enc = mk_enc();
  carquet_status_t st = carquet_rle_encoder_put(enc, nondet_u32());
  if (st == CARQUET_OK) CQV_CANARY("put returns OK"); else CQV_CANARY("put returns an error");
}

void h_c11_flush(void) {
  carquet_rle_encoder_t *enc = mk_enc();
  carquet_status_t st = carquet_rle_encoder_flush(enc);
  if (st == CARQUET_OK) CQV_CANARY("flush returns OK"); else CQV_CANARY("flush returns an error");
}

void h_c11_put_repeat(void) {
  carquet_rle_encoder_t *enc = mk_enc();
  carquet_status_t st = carquet_rle_encoder_put_repeat(enc, nondet_u32(), nondet_i64());
  if (st == CARQUET_OK) CQV_CANARY("put_repeat returns OK"); else CQV_CANARY("put_repeat returns an error");
}

void h_c11_encode_all(void) {
  carquet_buffer_t *buf = malloc(sizeof(*buf));
  __CPROVER_assume(buf != NULL);
  havoc_ghosts();
  int64_t count = nondet_i64();
  __CPROVER_assume(count <= RLE_ENC_MAX_VALUES);
  uint32_t *in = malloc(count > 0 ? (size_t)count << 2 : 0);
  __CPROVER_assume(in != NULL);
  carquet_status_t st = carquet_rle_encode_all(in, count, nondet_int(), buf);
  if (st == CARQUET_OK) CQV_CANARY("encode_all returns OK"); else CQV_CANARY("encode_all returns an error");
}

void h_c11_encode_levels(void) {
  carquet_buffer_t *buf = malloc(sizeof(*buf));
  __CPROVER_assume(buf != NULL);
  havoc_ghosts();
  int64_t count = nondet_i64();
  __CPROVER_assume(count <= RLE_ENC_MAX_VALUES);
  int16_t *in = malloc(count > 0 ? (size_t)count << 1 : 0);
  __CPROVER_assume(in != NULL);
  carquet_status_t st = carquet_rle_encode_levels(in, count, nondet_int(), buf);
  if (st == CARQUET_OK) CQV_CANARY("encode_levels returns OK"); else CQV_CANARY("encode_levels returns an error");
}
