/* C11/C12: DELTA_BINARY_PACKED encoder side (real delta.c included; contracts from contracts/delta.ovl) */
#include "cqv.h"
#include "delta_spec.h"
#include <stdlib.h>
#include "src/encoding/delta.c"

/* zigzag and ULEB128: decode(encode(x)) == x for every 64-bit value, consumed == produced == spec length,
 * and the bytes are the spec bytes */
void h_zigzag_uleb_roundtrip(void) {
  int64_t n = nondet_i64();
  uint64_t z = zigzag_encode64(n);
  __CPROVER_assert(z == SPEC_ZIGZAG64(n), "zigzag encode is the spec zigzag");
  __CPROVER_assert(zigzag_decode64(z) == n, "zigzag decode inverts encode");
  uint64_t u = nondet_u64();
  __CPROVER_assert(zigzag_decode64(u) == SPEC_UNZIGZAG64(u), "zigzag decode is the spec inverse for every code");
  uint8_t buf[10];
  size_t w = write_uleb128(buf, u);
  __CPROVER_assert(w == (size_t)SPEC_ULEB_LEN(u), "ULEB128 length is the spec length");
  size_t k = nondet_size_t();
  __CPROVER_assume(k < w);
  __CPROVER_assert(buf[k] == SPEC_ULEB_BYTE(u, k), "ULEB128 byte k is the spec byte");
  uint64_t back;
  size_t extra = nondet_size_t();
  __CPROVER_assume(extra <= 10 - w);
  size_t r = read_uleb128(buf, w + extra, &back);
  __CPROVER_assert(r == w && back == u, "read_uleb128 returns the written value and consumes the written bytes");
  if (w == 10) CQV_CANARY("ten byte varint");
  CQV_CANARY("roundtrip end");
}

void h_write_uleb128(void) {
  uint64_t v = nondet_u64();
  size_t n = nondet_size_t(), off = nondet_size_t();
  __CPROVER_assume(n <= CQV_MAXBUF && off <= n);
  uint8_t *buf = malloc(n);
  __CPROVER_assume(buf != NULL);
  size_t r = write_uleb128(buf + off, v);
  CQV_CANARY("write_uleb128 returns");
}

void h_bit_width_required(void) {
  uint64_t v = nondet_u64();
  int w = bit_width_required(v);
  __CPROVER_assert(w == spec_width64(v), "bit_width_required is the minimal width");
  if (w == 64) CQV_CANARY("width 64");
  CQV_CANARY("bit_width_required returns");
}

static delta_encoder_t *mk_encoder(void) {
  delta_encoder_t *enc = malloc(sizeof(*enc));
  __CPROVER_assume(enc != NULL);
  size_t cap = nondet_size_t();
  __CPROVER_assume(cap <= CQV_MAXBUF);
  uint8_t *buf = malloc(cap);
  __CPROVER_assume(buf != NULL);
  enc->data = buf;
  enc->capacity = cap;
  /* the only values the contract admits (delta_encoder_init sets exactly these); concrete here so that the
   * mini-block size 128/4 is a literal for the solver */
  enc->block_size = 128;
  enc->mini_blocks_per_block = 4;
  return enc;
}

void h_encoder_init(void) {
  delta_encoder_t *enc = malloc(sizeof(*enc));
  __CPROVER_assume(enc != NULL);
  uint8_t *data = nondet_ptr();
  size_t cap = nondet_size_t();
  carquet_status_t st = delta_encoder_init(enc, data, cap);
  CQV_CANARY("delta_encoder_init returns");
}

void h_flush_block(void) {
  delta_encoder_t *enc = mk_encoder();
  carquet_status_t st = delta_encoder_flush_block(enc);
  CQV_CANARY("flush_block returns");
  if (st == CARQUET_OK) CQV_CANARY("flush_block can succeed");
  if (st != CARQUET_OK) CQV_CANARY("flush_block can refuse");
}

void h_encode_int32(void) {
  const int32_t *values = nondet_ptr();
  uint8_t *data = nondet_ptr();
  size_t *written = nondet_ptr();
  size_t cap = nondet_size_t();
  int32_t num = nondet_i32();
  carquet_status_t st = carquet_delta_encode_int32(values, num, data, cap, written);
  CQV_CANARY("delta_encode_int32 returns");
  if (st == CARQUET_OK && num > 200) CQV_CANARY("delta_encode_int32 can succeed");
}

void h_encode_int64(void) {
  const int64_t *values = nondet_ptr();
  uint8_t *data = nondet_ptr();
  size_t *written = nondet_ptr();
  size_t cap = nondet_size_t();
  int32_t num = nondet_i32();
  carquet_status_t st = carquet_delta_encode_int64(values, num, data, cap, written);
  CQV_CANARY("delta_encode_int64 returns");
  if (st == CARQUET_OK && num > 200) CQV_CANARY("delta_encode_int64 can succeed");
}
