/* C11: dictionary encoder index width.  bit_width_for_count(n) must hold every index 0..n-1:
 * (n-1) < 2^width, width <= 32, and it is the smallest such width (>= 1 for n >= 1).  Loop-free after complete unwinding. */
#include "cqv.h"
#include <stdlib.h>
size_t cqv_any_bytes, cqv_i, cqv_b;
extern int64_t cqv_calls, cqv_watch, cqv_elem;
#include "src/encoding/dictionary.c"
void h_bit_width_for_count(void) {
  uint32_t n = nondet_u32();
  int w = bit_width_for_count(n);
  __CPROVER_assert(w >= 0 && w <= 32, "width in 0..32");
  __CPROVER_assert(n != 0 || w == 0, "empty dictionary: width 0");
  __CPROVER_assert(n == 0 || w >= 1, "non-empty dictionary: width >= 1");
  __CPROVER_assert(n == 0 || w == 32 || ((uint64_t)(n - 1) >> w) == 0, "every index < n fits in width bits");
  __CPROVER_assert(n <= 2 || ((uint64_t)(n - 1) >> (w - 1)) != 0, "width is minimal");
  CQV_CANARY("returns"); if (w == 32) CQV_CANARY("width 32 reachable"); if (w == 1) CQV_CANARY("width 1 reachable");
}

/* dict_builder_add (bounded: hash chain of at most 2 entries, value_size <= 8, index array capacity <= 4):
 * the index stored for the new value is < builder->count afterwards (given every existing entry's index < count),
 * count grows by at most one, indices_count by exactly one and stays <= capacity.
 * carquet_buffer_* are recorded-call stubs; memcmp is a contract stub (arbitrary result: found and not-found paths). */
void h_dict_builder_add(void) {
  dict_builder_t b;
  b.num_buckets = 1024;   /* the only value dict_builder_init ever sets; the table is never resized */
  b.buckets = malloc(b.num_buckets * sizeof(dict_entry_t *));
  b.count = nondet_size_t();
  __CPROVER_assume(b.count <= ((size_t)1 << 32) - 2);
  b.indices_capacity = nondet_size_t(); b.indices_count = nondet_size_t();
  __CPROVER_assume(b.indices_capacity >= 1 && b.indices_capacity <= 4 && b.indices_count <= b.indices_capacity);
  b.indices = malloc(b.indices_capacity * sizeof(uint32_t));
  b.is_variable_length = nondet_bool();
  __CPROVER_assume(b.buckets != NULL && b.indices != NULL);
  size_t vs = nondet_size_t();
  __CPROVER_assume(vs <= 8);
  uint8_t *value = malloc(vs);
  __CPROVER_assume(value != NULL);
  /* the chain of the bucket this value hashes to: 0, 1 or 2 existing entries with index < count */
  size_t slot = dict_hash(value, vs) % b.num_buckets;
  dict_entry_t *e1 = malloc(sizeof(*e1)), *e2 = malloc(sizeof(*e2));
  __CPROVER_assume(e1 != NULL && e2 != NULL);
  e1->size = nondet_size_t(); e2->size = nondet_size_t();
  __CPROVER_assume(e1->size <= 8 && e2->size <= 8);
  e1->data = malloc(e1->size); e2->data = malloc(e2->size);
  __CPROVER_assume(e1->data != NULL && e2->data != NULL);
  e1->index = nondet_u32(); e2->index = nondet_u32();
  __CPROVER_assume(e1->index < b.count && e2->index < b.count);
  int len = nondet_int();
  __CPROVER_assume(len >= 0 && len <= 2);
  e2->next = NULL; e1->next = (len == 2) ? e2 : NULL;
  b.buckets[slot] = (len == 0) ? NULL : e1;
  size_t old_count = b.count, old_n = b.indices_count;
  cqv_calls = 0; cqv_watch = -1; cqv_elem = -1;
  carquet_status_t st = dict_builder_add(&b, value, vs);
  if (st == CARQUET_OK) {
    __CPROVER_assert(b.indices_count == old_n + 1 && b.indices_count <= b.indices_capacity, "one index appended, inside the index array");
    __CPROVER_assert(b.count == old_count || b.count == old_count + 1, "dictionary grows by at most one entry");
    __CPROVER_assert(b.indices[old_n] < b.count, "emitted index < dictionary size");
    __CPROVER_assert(b.count == old_count || (b.indices[old_n] == old_count && b.buckets[slot] != NULL && b.buckets[slot]->index == old_count && b.buckets[slot]->size == vs), "a new entry gets index == old count and heads its chain");
    __CPROVER_assert(b.count == old_count || cqv_calls == (b.is_variable_length ? 2 : 1), "new value appended to the dictionary page once (length prefix first for BYTE_ARRAY)");
    CQV_CANARY("add can succeed"); if (b.count == old_count) CQV_CANARY("existing entry found"); else CQV_CANARY("new entry added");
  } else {
    __CPROVER_assert(b.count == old_count && b.indices_count == old_n, "failure leaves the builder counts unchanged");
    CQV_CANARY("add can fail");
  }
  CQV_CANARY("returns");
}

#ifdef CQV_DICT_INJ
/* C11 dictionary encoding, injectivity of the value -> index map (what decode(encode(v)) == v needs from the
 * builder): looking up a value yields the index of an existing entry only if that entry has the SAME length and
 * the same bytes; any other value gets a fresh index.  Bounded: one existing entry in the chain, lengths <= 4.
 * num_buckets == 1 puts every value into the one chain (dict_builder_add works for any table size; the hash then
 * does not matter), memcmp is the exact definition below (lengths <= 4). */
int memcmp(const void *a, const void *b, size_t n) {
  __CPROVER_precondition(__CPROVER_r_ok(a, n) && __CPROVER_r_ok(b, n), "memcmp ranges readable");
  const uint8_t *p = a, *q = b;
  for (size_t i = 0; i < 4; i++) if (i < n && p[i] != q[i]) return p[i] < q[i] ? -1 : 1;
  return 0;
}
void h_dict_builder_inj(void) {
  dict_builder_t b;
  b.num_buckets = 1;
  b.buckets = malloc(sizeof(dict_entry_t *));
  b.count = 1; b.indices_capacity = 4; b.indices_count = 1;
  b.indices = malloc(4 * sizeof(uint32_t));
  b.is_variable_length = 1;
  __CPROVER_assume(b.buckets != NULL && b.indices != NULL);
  b.indices[0] = 0;
  dict_entry_t *e = malloc(sizeof(*e));
  __CPROVER_assume(e != NULL);
  size_t se = nondet_size_t(), sv = nondet_size_t();
  __CPROVER_assume(se <= 4 && sv <= 4);
  uint8_t de[4], dv[4];
  e->size = se; e->data = malloc(se); e->index = 0; e->next = NULL;
  uint8_t *value = malloc(sv);
  __CPROVER_assume(e->data != NULL && value != NULL);
  for (int i = 0; i < 4; i++) { if ((size_t)i < se) e->data[i] = de[i]; if ((size_t)i < sv) value[i] = dv[i]; }
  b.buckets[0] = e;
  _Bool same = se == sv;
  for (int i = 0; i < 4; i++) if ((size_t)i < se && (size_t)i < sv && de[i] != dv[i]) same = 0;
  cqv_calls = 0; cqv_watch = -1; cqv_elem = -1;
  carquet_status_t st = dict_builder_add(&b, value, sv);
  if (st == CARQUET_OK) {
    __CPROVER_assert(b.indices_count == 2, "one index appended");
    __CPROVER_assert((b.indices[1] == 0) == same, "C11: a value gets the index of an existing entry iff that entry has the same length and the same bytes");
    __CPROVER_assert(same ? b.count == 1 : (b.count == 2 && b.indices[1] == 1), "C11: any other value becomes a new dictionary entry with the next index");
    if (same) CQV_CANARY("inj: duplicate found"); else CQV_CANARY("inj: new entry");
    if (!same && sv < se) CQV_CANARY("inj: value is shorter than the existing entry");
  } else {
    CQV_CANARY("inj: add can fail");
  }
  CQV_CANARY("inj returns");
}
#endif
