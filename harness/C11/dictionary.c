/* C11: dictionary encoder index width.  bit_width_for_count(n) must hold every index 0..n-1:
 * (n-1) < 2^width, width <= 32, and it is the smallest such width (>= 1 for n >= 1).  Loop-free after complete unwinding. */
#include "cqv.h"
#include <stdlib.h>
size_t cqv_any_bytes, cqv_i, cqv_b;
#include "src/encoding/dictionary.c"
void h_bit_width_for_count(void) {
  uint32_t n = nondet_u32();
  int w = bit_width_for_count(n);
  __CPROVER_assert(w >= 0 && w <= 32, "width in 0..32");
  __CPROVER_assert(n != 0 || w == 0, "empty dictionary: width 0");
  __CPROVER_assert(n == 0 || w >= 1, "non-empty dictionary: width >= 1");
  __CPROVER_assert(n == 0 || w == 32 || ((uint64_t)(n - 1) >> w) == 0, "every index < n fits in width bits");
  __CPROVER_assert(n <= 2 || ((uint64_t)(n - 1) >> (w - 1)) != 0, "width is minimal");
  CQV_CANARY("returns"); if (w == 32) CQV_CANARY("width 32 reachable"); if (w == 1) CQV_CANARY("width 1 reachable");
}
