/* C11/C12: PLAIN encoders hand exactly the input bytes (count*width) to the output buffer; boolean bit layout.
 * The real plain.c is included; carquet_buffer_* are recorded-call stubs (stubs/plain_stubs.c). */
#include "cqv.h"
#include <stdlib.h>
size_t cqv_any_bytes, cqv_j, cqv_i, cqv_b;
extern size_t cqv_g, cqv_total;
extern int64_t cqv_watch, cqv_calls; extern int cqv_rec_kind;
extern int64_t cqv_cur, cqv_elem, cqv_el_u32_seq, cqv_el_data_seq; extern int cqv_el_has_u32, cqv_el_has_data; extern uint32_t cqv_el_u32; extern const void *cqv_el_data; extern size_t cqv_el_size;
extern const void *cqv_rec_data; extern size_t cqv_rec_size; extern uint32_t cqv_rec_u32;
extern uint8_t *cqv_rec_ptr;
#define CQV_COUNT_OK(c, max) ((c) <= (int64_t)(max))
#define CQV_OUT_BYTES(c, sh) (((c) >= 0 && (c) <= (int64_t)(CQV_MAXBUF >> (sh))) ? ((size_t)(c) << (sh)) : cqv_any_bytes)
#include <carquet/error.h>
struct carquet_buffer;
extern struct carquet_buffer *cqv_rec_buf; extern carquet_status_t cqv_rec_ret;
#include "src/encoding/plain.c"

void h_enc_boolean(void) {
  cqv_any_bytes = nondet_size_t(); cqv_j = nondet_size_t(); cqv_g = cqv_j >> 3; cqv_watch = 0; cqv_calls = 0; cqv_total = 0; cqv_rec_kind = 0;
  int64_t count = nondet_i64();
  __CPROVER_assume(count <= (int64_t)CQV_MAXBUF && cqv_any_bytes <= CQV_MAXBUF);
  uint8_t *in = nondet_bool() ? malloc(count >= 0 ? (size_t)count : cqv_any_bytes) : NULL;
  carquet_buffer_t *buf = nondet_bool() ? malloc(sizeof(carquet_buffer_t)) : NULL;
  carquet_status_t st = carquet_encode_plain_boolean(in, count, buf);
  CQV_CANARY("returns"); if (st == CARQUET_OK && count > 8) CQV_CANARY("can succeed"); if (st != CARQUET_OK) CQV_CANARY("can fail");
}

/* memcpy-shaped encoders: exactly one append of (input, count*width), status passed through; harness is the contract */
#ifndef CQV_WHICH
#define CQV_WHICH 0
#endif
void h_enc_fixedwidth(void) {
  cqv_any_bytes = nondet_size_t(); cqv_watch = 0; cqv_calls = 0; cqv_total = 0; cqv_rec_kind = 0;
  int64_t count = nondet_i64();
  int32_t fl = nondet_i32();
  int sh = (CQV_WHICH == 0 || CQV_WHICH == 2) ? 2 : 3;
  size_t bytes;
  __CPROVER_assume(cqv_any_bytes <= CQV_MAXBUF);
  if (CQV_WHICH == 4) {
    __CPROVER_assume(count < 0 || fl <= 0 || (__int128)count * (__int128)fl <= (__int128)CQV_MAXBUF);   /* A2: the input object */
    bytes = (count >= 0 && fl > 0) ? (size_t)count * (size_t)fl : cqv_any_bytes;
  } else {
    __CPROVER_assume(count <= (int64_t)(CQV_MAXBUF >> sh));                                              /* A2 */
    bytes = count >= 0 ? (size_t)count << sh : cqv_any_bytes;
  }
  void *in = nondet_bool() ? malloc(bytes) : NULL;
  carquet_buffer_t *buf = nondet_bool() ? malloc(sizeof(carquet_buffer_t)) : NULL;
  carquet_status_t st;
  if (CQV_WHICH == 0) st = carquet_encode_plain_int32(in, count, buf);
  else if (CQV_WHICH == 1) st = carquet_encode_plain_int64(in, count, buf);
  else if (CQV_WHICH == 2) st = carquet_encode_plain_float(in, count, buf);
  else if (CQV_WHICH == 3) st = carquet_encode_plain_double(in, count, buf);
  else st = carquet_encode_plain_fixed_byte_array(in, count, fl, buf);
  __CPROVER_assert((in == NULL || buf == NULL || count < 0 || (CQV_WHICH == 4 && fl <= 0)) ==> (st != CARQUET_OK && cqv_calls == 0), "bad arguments rejected before touching the buffer");
  __CPROVER_assert((in != NULL && buf != NULL && count >= 0 && !(CQV_WHICH == 4 && fl <= 0)) ==> (cqv_calls == 1 && cqv_rec_kind == 1 && cqv_rec_buf == buf && cqv_rec_data == in && cqv_rec_size == bytes && st == cqv_rec_ret), "exactly one append of the input bytes, count*width of them; its status is returned");
  CQV_CANARY("returns"); if (st == CARQUET_OK && count > 0) CQV_CANARY("can succeed"); if (st != CARQUET_OK) CQV_CANARY("can fail");
}

static void reset_rec(void) {
  cqv_any_bytes = nondet_size_t(); cqv_calls = 0; cqv_total = 0; cqv_rec_kind = 0; cqv_cur = -1;
  cqv_el_has_u32 = 0; cqv_el_has_data = 0;
}
void h_enc_int96(void) {
  reset_rec(); cqv_watch = nondet_i64(); cqv_elem = -1;
  __CPROVER_assume(cqv_watch >= 0 && cqv_any_bytes <= CQV_MAXBUF);
  int64_t count = nondet_i64();
  __CPROVER_assume(count <= (int64_t)(CQV_MAXBUF / 12));                 /* A2: the input object */
  carquet_int96_t *in = nondet_bool() ? malloc(count >= 0 ? (((size_t)count << 3) + ((size_t)count << 2)) : cqv_any_bytes) : NULL;
  carquet_buffer_t *buf = nondet_bool() ? malloc(sizeof(carquet_buffer_t)) : NULL;
  carquet_status_t st = carquet_encode_plain_int96(in, count, buf);
  CQV_CANARY("returns"); if (st == CARQUET_OK && count > 2) CQV_CANARY("can succeed"); if (st != CARQUET_OK) CQV_CANARY("can fail");
  if (st == CARQUET_OK && cqv_watch < cqv_calls && cqv_watch > 3) CQV_CANARY("watched call recorded");
}
void h_enc_byte_array(void) {
  reset_rec(); cqv_watch = -1; cqv_elem = nondet_i64();
  __CPROVER_assume(cqv_elem >= 0 && cqv_any_bytes <= CQV_MAXBUF);
  int64_t count = nondet_i64();
  __CPROVER_assume(count <= (int64_t)(CQV_MAXBUF >> 4));                 /* A2: the input object */
  carquet_byte_array_t *in = nondet_bool() ? malloc(count >= 0 ? ((size_t)count << 4) : cqv_any_bytes) : NULL;
  if (in != NULL && cqv_elem < count) {                                  /* the ghost element is a valid value or an odd one */
    int32_t len = nondet_i32();
    uint8_t *d = nondet_bool() ? malloc(len > 0 ? (size_t)len : 0) : NULL;
    in[cqv_elem].length = len; in[cqv_elem].data = d;
  }
  carquet_buffer_t *buf = nondet_bool() ? malloc(sizeof(carquet_buffer_t)) : NULL;
  carquet_status_t st = carquet_encode_plain_byte_array(in, count, buf);
  CQV_CANARY("returns"); if (st == CARQUET_OK && count > 2) CQV_CANARY("can succeed"); if (st != CARQUET_OK) CQV_CANARY("can fail");
  if (st == CARQUET_OK && cqv_elem < count && cqv_el_has_data == 1 && cqv_elem > 1) CQV_CANARY("watched element with payload");
}
