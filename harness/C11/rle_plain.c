/* C11, bounded, ghost free: the real src/encoding/rle.c exactly as it is (no overlay, no contract, no ghost
 * state, so no extraction drift is possible).  Streaming decoder in the middle of an unpacked bit-packed
 * group (any group position p, any buffered count, any group contents, any pending run length): two
 * consecutive carquet_rle_decoder_get_batch calls (or a skip followed by a get_batch) with chunk sizes
 * c1, c2 that stay inside the buffered group must deliver exactly the group elements p .. p+c1+c2-1 in
 * order and leave bitpack_pos / run_remaining advanced by c1+c2 - i.e. the stream decoder agrees with the
 * one-shot delivery of the same group under every chunking and skipping of it.
 * Stated bound: chunks inside one buffered group (c1 + c2 <= bitpack_count - bitpack_pos <= 8); the group
 * refill (fill_bitpack_buffer) and run switching are decided by the unbounded contract jobs c08_rle_*.
 * This is the stand-in that still decides the delivery order after the copy loop of get_batch has been
 * restructured and the overlay of contracts/rle.ovl no longer matches (seed C11-7). */
#include "cqv.h"
#include <stdlib.h>
#include "src/encoding/rle.c"

void h_plain_chunks(void) {
  carquet_rle_decoder_t dec;
  uint8_t data[1];
  dec.data = data; dec.size = 0; dec.pos = 0;      /* no further input: everything comes from the group */
  dec.bit_width = nondet_int();
  __CPROVER_assume(dec.bit_width >= 0 && dec.bit_width <= 32);
  dec.value_mask = dec.bit_width == 32 ? 0xFFFFFFFFu : ((1u << dec.bit_width) - 1u);
  dec.in_rle_run = false;
  dec.rle_value = nondet_u32();
  dec.status = CARQUET_OK;
  uint32_t g0[8];
  for (int i = 0; i < 8; i++) { g0[i] = nondet_u32(); dec.bitpack_buffer[i] = g0[i]; }
  int p = nondet_int(), n = nondet_int();
  __CPROVER_assume(0 <= p && p <= n && n <= 8);
  dec.bitpack_pos = p; dec.bitpack_count = n;
  int64_t c1 = nondet_i64(), c2 = nondet_i64(), rr = nondet_i64();
  __CPROVER_assume(0 <= c1 && c1 <= 8 && 0 <= c2 && c2 <= 8 && c1 + c2 <= n - p);
  __CPROVER_assume(rr >= c1 + c2 && rr <= ((int64_t)1 << 40));
  dec.run_remaining = rr;

  uint32_t o1[8], o2[8];
  int64_t r1;
#ifdef CQV_SKIP_FIRST
  r1 = carquet_rle_decoder_skip(&dec, c1);
#else
  r1 = carquet_rle_decoder_get_batch(&dec, o1, c1);
#endif
  __CPROVER_assert(r1 == c1, "first chunk: all c1 buffered values delivered/skipped");
  __CPROVER_assert(dec.bitpack_pos == p + c1 && dec.run_remaining == rr - c1, "first chunk: group position and run length advance by c1");
  int64_t r2 = carquet_rle_decoder_get_batch(&dec, o2, c2);
  __CPROVER_assert(r2 == c2, "second chunk: all c2 buffered values delivered");
  __CPROVER_assert(dec.bitpack_pos == p + c1 + c2 && dec.run_remaining == rr - c1 - c2, "second chunk: group position and run length advance by c2");
  __CPROVER_assert(dec.status == CARQUET_OK, "status stays OK");
  int64_t g = nondet_i64();      /* ghost index instead of forall */
#ifndef CQV_SKIP_FIRST
  if (0 <= g && g < c1) __CPROVER_assert(o1[g] == g0[p + g], "first chunk delivers group elements p.. in order");
#endif
  if (0 <= g && g < c2) __CPROVER_assert(o2[g] == g0[p + c1 + g], "second chunk continues at group element p+c1");
  if (c1 > 0 && c2 > 0 && p > 0) CQV_CANARY("mid-group start, two non-empty chunks");
  CQV_CANARY("plain chunk harness end");
}
