/* C11/C12: BYTE_STREAM_SPLIT encoders: out[b*n+i] == in[i*w+b], bytes_written == n*w. */
#include "cqv.h"
#include <stdlib.h>
size_t cqv_any_bytes, cqv_i, cqv_b;
#ifndef CQV_W
#define CQV_W 4
#endif
#define CQV_COUNT_OK(c, max) ((c) <= (int64_t)(max))   /* A2 for the input object */
#define CQV_OUT_BYTES(c, sh) (((c) >= 0 && (c) <= (int64_t)(CQV_MAXBUF >> (sh))) ? ((size_t)(c) << (sh)) : cqv_any_bytes)
#include "src/encoding/byte_stream_split.c"
#define GHOSTS() cqv_any_bytes = nondet_size_t(); cqv_i = nondet_size_t(); cqv_b = nondet_size_t()
void h_bss_encode_float(void) {
  GHOSTS(); int64_t count = nondet_i64();
  carquet_status_t st = carquet_byte_stream_split_encode_float(nondet_ptr(), count, nondet_ptr(), nondet_size_t(), nondet_ptr());
  CQV_CANARY("returns"); if (st == CARQUET_OK && count > 0) CQV_CANARY("can succeed"); if (st != CARQUET_OK) CQV_CANARY("can fail"); if (count < 0) CQV_CANARY("negative count is covered");
}
void h_bss_encode_double(void) {
  GHOSTS(); int64_t count = nondet_i64();
  carquet_status_t st = carquet_byte_stream_split_encode_double(nondet_ptr(), count, nondet_ptr(), nondet_size_t(), nondet_ptr());
  CQV_CANARY("returns"); if (st == CARQUET_OK && count > 0) CQV_CANARY("can succeed"); if (st != CARQUET_OK) CQV_CANARY("can fail"); if (count < 0) CQV_CANARY("negative count is covered");
}
void h_bss_encode_generic(void) {
  GHOSTS(); int64_t count = nondet_i64();
  carquet_status_t st = carquet_byte_stream_split_encode(nondet_ptr(), count, nondet_i32(), nondet_ptr(), nondet_size_t(), nondet_ptr());
  CQV_CANARY("returns"); if (st == CARQUET_OK && count > 0) CQV_CANARY("can succeed"); if (st != CARQUET_OK) CQV_CANARY("can fail"); if (count < 0) CQV_CANARY("negative count is covered");
}
