/* C11: raw bit packing (8-value group, all widths), group loops, varint/zigzag, bit reader/writer.
 * The real src/core/bitpack.c is included (statics visible); endian.h comes with it. */
#include "cqv.h"
#include <stdlib.h>
#include "bitpack_spec.h"
#include "src/core/bitpack.c"
#include "src/core/endian.h"

#ifndef CQV_W
#define CQV_W 3
#endif

/* ---- 8-value group: unpack8(pack8(v, w), w) == v & mask(w), buffer of EXACTLY w bytes -------- */
void h_pack8_roundtrip(void) {
  /* scalars in0..in7 / width: picked up from the trace by replay/direct/bitpack_roundtrip.c */
  int width = CQV_W;
  uint32_t in0 = nondet_u32(), in1 = nondet_u32(), in2 = nondet_u32(), in3 = nondet_u32();
  uint32_t in4 = nondet_u32(), in5 = nondet_u32(), in6 = nondet_u32(), in7 = nondet_u32();
  uint32_t v[8] = {in0, in1, in2, in3, in4, in5, in6, in7}, out[8];
  for (int i = 0; i < 8; i++) out[i] = nondet_u32();
  uint8_t *buf = malloc(CQV_W);          /* exact size: any access beyond w bytes is a violation */
  __CPROVER_assume(buf != NULL);
  for (int i = 0; i < CQV_W; i++) buf[i] = nondet_u8();   /* stale content must not leak through */
  carquet_bitpack8_32(v, CQV_W, buf);
  carquet_bitunpack8_32(buf, CQV_W, out);
  __CPROVER_assert(out[0] == (v[0] & SPEC_BP_MASK32(CQV_W)), "value 0 survives pack8/unpack8");
  __CPROVER_assert(out[1] == (v[1] & SPEC_BP_MASK32(CQV_W)), "value 1 survives pack8/unpack8");
  __CPROVER_assert(out[2] == (v[2] & SPEC_BP_MASK32(CQV_W)), "value 2 survives pack8/unpack8");
  __CPROVER_assert(out[3] == (v[3] & SPEC_BP_MASK32(CQV_W)), "value 3 survives pack8/unpack8");
  __CPROVER_assert(out[4] == (v[4] & SPEC_BP_MASK32(CQV_W)), "value 4 survives pack8/unpack8");
  __CPROVER_assert(out[5] == (v[5] & SPEC_BP_MASK32(CQV_W)), "value 5 survives pack8/unpack8");
  __CPROVER_assert(out[6] == (v[6] & SPEC_BP_MASK32(CQV_W)), "value 6 survives pack8/unpack8");
  __CPROVER_assert(out[7] == (v[7] & SPEC_BP_MASK32(CQV_W)), "value 7 survives pack8/unpack8");
#if CQV_W >= 1 && CQV_W <= 8
  /* the dispatch table hands out the specialised routine; it must agree with the general entry */
  carquet_bitunpack8_fn fn = carquet_get_bitunpack8_fn(CQV_W);
  __CPROVER_assert(fn != NULL, "specialised unpack routine exists for widths 1..8");
  uint32_t out2[8];
  for (int i = 0; i < 8; i++) out2[i] = nondet_u32();
  fn(buf, out2);
  for (int i = 0; i < 8; i++)
    __CPROVER_assert(out2[i] == out[i], "specialised unpack8 agrees with carquet_bitunpack8_32");
#else
  __CPROVER_assert(carquet_get_bitunpack8_fn(CQV_W) == NULL, "no specialised routine outside 1..8");
#endif
  CQV_CANARY("pack8 roundtrip harness end");
}

/* ---- varint (ULEB128) in endian.h: decode(encode(x)) == x, consumed == produced -------------- */
void h_varint32(void) {
  uint32_t x = nondet_u32(), y = nondet_u32();
  uint8_t *buf = malloc(5);              /* documented maximum: 1-5 bytes */
  __CPROVER_assume(buf != NULL);
  int n = carquet_encode_varint32(buf, x);
  __CPROVER_assert(n >= 1 && n <= 5, "varint32 length in 1..5");
  __CPROVER_assert(n == spec_uleb_len64(x), "varint32 length is the canonical ULEB128 length");
  size_t avail = nondet_size_t();        /* decoder is told any length >= produced */
  __CPROVER_assume(avail >= (size_t)n);
  int m = carquet_decode_varint32(buf, avail, &y);
  __CPROVER_assert(m == n, "varint32 consumed == produced");
  __CPROVER_assert(y == x, "varint32 decode(encode(x)) == x");
  size_t k = nondet_size_t();
  __CPROVER_assume(k < (size_t)n);
  __CPROVER_assert(buf[k] == SPEC_ULEB_BYTE(x, k, n), "varint32 byte k is the ULEB128 byte");
  /* truncated input is rejected, never read past the declared length */
  size_t shortlen = nondet_size_t();
  __CPROVER_assume(shortlen < (size_t)n);
  uint8_t *cut = malloc(shortlen);
  __CPROVER_assume(cut != NULL);
  for (size_t i = 0; i < 5; i++) if (i < shortlen) cut[i] = buf[i];
  uint32_t z = 0;
  __CPROVER_assert(carquet_decode_varint32(cut, shortlen, &z) == -1, "truncated varint32 is rejected");
  if (n == 5) CQV_CANARY("varint32 can take 5 bytes");
  if (n == 1) CQV_CANARY("varint32 can take 1 byte");
  CQV_CANARY("varint32 harness end");
}

void h_varint64(void) {
  uint64_t x = nondet_u64(), y = nondet_u64();
  uint8_t *buf = malloc(10);
  __CPROVER_assume(buf != NULL);
  int n = carquet_encode_varint64(buf, x);
  __CPROVER_assert(n >= 1 && n <= 10, "varint64 length in 1..10");
  __CPROVER_assert(n == spec_uleb_len64(x), "varint64 length is the canonical ULEB128 length");
  size_t avail = nondet_size_t();
  __CPROVER_assume(avail >= (size_t)n);
  int m = carquet_decode_varint64(buf, avail, &y);
  __CPROVER_assert(m == n, "varint64 consumed == produced");
  __CPROVER_assert(y == x, "varint64 decode(encode(x)) == x");
  size_t k = nondet_size_t();
  __CPROVER_assume(k < (size_t)n);
  __CPROVER_assert(buf[k] == SPEC_ULEB_BYTE(x, k, n), "varint64 byte k is the ULEB128 byte");
  size_t shortlen = nondet_size_t();
  __CPROVER_assume(shortlen < (size_t)n);
  uint8_t *cut = malloc(shortlen);
  __CPROVER_assume(cut != NULL);
  for (size_t i = 0; i < 10; i++) if (i < shortlen) cut[i] = buf[i];
  uint64_t z = 0;
  __CPROVER_assert(carquet_decode_varint64(cut, shortlen, &z) == -1, "truncated varint64 is rejected");
  if (n == 10) CQV_CANARY("varint64 can take 10 bytes");
  if (n == 1) CQV_CANARY("varint64 can take 1 byte");
  CQV_CANARY("varint64 harness end");
}

/* decoders on ARBITRARY bytes: stay inside len, consumed in 1..max or -1 */
void h_varint_decode_any(void) {
  size_t len = nondet_size_t();
  __CPROVER_assume(len <= CQV_MAXBUF);
  uint8_t *p = malloc(len);
  __CPROVER_assume(p != NULL);
  uint32_t a; uint64_t b;
  int r32 = carquet_decode_varint32(p, len, &a);
  int r64 = carquet_decode_varint64(p, len, &b);
  __CPROVER_assert(r32 == -1 || (r32 >= 1 && r32 <= 5 && (size_t)r32 <= len), "varint32 consumed within input");
  __CPROVER_assert(r64 == -1 || (r64 >= 1 && r64 <= 10 && (size_t)r64 <= len), "varint64 consumed within input");
  if (r32 == 5) CQV_CANARY("decode32 can consume 5");
  if (r32 == -1) CQV_CANARY("decode32 can reject");
  if (r64 == 10) CQV_CANARY("decode64 can consume 10");
  CQV_CANARY("varint decode-any harness end");
}

void h_zigzag(void) {
  int32_t a = nondet_i32();
  int64_t b = nondet_i64();
  uint32_t ua = nondet_u32();
  uint64_t ub = nondet_u64();
  __CPROVER_assert(carquet_zigzag_decode32(carquet_zigzag_encode32(a)) == a, "zigzag32 decode(encode(x)) == x");
  __CPROVER_assert(carquet_zigzag_decode64(carquet_zigzag_encode64(b)) == b, "zigzag64 decode(encode(x)) == x");
  __CPROVER_assert(carquet_zigzag_encode32(carquet_zigzag_decode32(ua)) == ua, "zigzag32 encode(decode(u)) == u");
  __CPROVER_assert(carquet_zigzag_encode64(carquet_zigzag_decode64(ub)) == ub, "zigzag64 encode(decode(u)) == u");
  __CPROVER_assert(carquet_zigzag_encode32(a) == SPEC_ZIGZAG32(a), "zigzag32 is the specified mapping");
  __CPROVER_assert(carquet_zigzag_encode64(b) == SPEC_ZIGZAG64(b), "zigzag64 is the specified mapping");
  CQV_CANARY("zigzag harness end");
}

/* ---- bit writer -> bit reader ------------------------------------------------------------------
 * An arbitrary reachable writer/reader alignment is produced by two nondeterministic prefix writes
 * (0..32 bits each: the buffered bit count before the write under test is anything in 0..55 that the
 * API can reach), then the value under test (k bits, 0..32), flush, and the same reads. */
#ifndef CQV_RW_NB_MAX
#define CQV_RW_NB_MAX 32
#endif
void h_bitrw(void) {
  uint8_t *buf = malloc(16);
  __CPROVER_assume(buf != NULL);
  carquet_bit_writer_t w;
  carquet_bit_reader_t r;
  uint32_t pa = nondet_u32(), pb = nondet_u32(), v = nondet_u32();
  int na = nondet_int(), nb = nondet_int(), k = nondet_int();
  __CPROVER_assume(na >= 0 && na <= 32 && nb >= 0 && nb <= CQV_RW_NB_MAX && k >= 0 && k <= 32);
  carquet_bit_writer_init(&w, buf, 16);
  carquet_bit_writer_write_bits(&w, pa, na);
  carquet_bit_writer_write_bits(&w, pb, nb);
  carquet_bit_writer_write_bits(&w, v, k);
  carquet_bit_writer_flush(&w);
  size_t nbytes = carquet_bit_writer_bytes_written(&w);
  __CPROVER_assert(nbytes == (size_t)((na + nb + k + 7) >> 3), "writer reports ceil(bits/8) bytes after flush");
  carquet_bit_reader_init(&r, buf, nbytes);
  uint32_t ga = carquet_bit_reader_read_bits(&r, na);
  uint32_t gb = carquet_bit_reader_read_bits(&r, nb);
  uint32_t gv = carquet_bit_reader_read_bits(&r, k);
  __CPROVER_assert(ga == (pa & SPEC_BP_MASK32(na)), "first prefix read back");
  __CPROVER_assert(gb == (pb & SPEC_BP_MASK32(nb)), "second prefix read back");
  __CPROVER_assert(gv == (v & SPEC_BP_MASK32(k)), "read_bits(k) after write_bits(v,k)+flush returns v & mask(k)");
  if (k == 32 && na + nb == 7) CQV_CANARY("32-bit value at odd alignment");
#if CQV_RW_NB_MAX >= 23
  if (na + nb == 55) CQV_CANARY("55 bits buffered before the write under test");
#endif
  CQV_CANARY("bit reader/writer harness end");
}

/* C08 side of the bit reader: any data, any length, three reads of 0..32 bits and a single bit:
 * no undefined behaviour, nothing read outside data[0..size) */
void h_bitreader_any(void) {
  size_t n = nondet_size_t();
  __CPROVER_assume(n <= CQV_MAXBUF);
  uint8_t *data = malloc(n);
  __CPROVER_assume(data != NULL);
  carquet_bit_reader_t r;
  int k1 = nondet_int(), k2 = nondet_int(), k3 = nondet_int();
  __CPROVER_assume(k1 >= 0 && k1 <= 32 && k2 >= 0 && k2 <= 32 && k3 >= 0 && k3 <= 32);
  carquet_bit_reader_init(&r, data, n);
  (void)carquet_bit_reader_read_bits(&r, k1);
  (void)carquet_bit_reader_read_bits(&r, k2);
  (void)carquet_bit_reader_read_bits(&r, k3);
  int b = carquet_bit_reader_read_bit(&r);
  __CPROVER_assert(b == -1 || b == 0 || b == 1, "read_bit returns a bit or -1");
  __CPROVER_assert(r.byte_pos <= n, "reader position stays inside the data");
  if (b == -1) CQV_CANARY("reader can hit the end");
  CQV_CANARY("bit reader any-data harness end");
}

/* 64-bit two-call form */
void h_bitrw64(void) {
  uint8_t *buf = malloc(16);
  __CPROVER_assume(buf != NULL);
  carquet_bit_writer_t w;
  carquet_bit_reader_t r;
  uint32_t pv = nondet_u32();
  uint64_t v = nondet_u64();
  int pre = nondet_int(), k = nondet_int();
  __CPROVER_assume(pre >= 0 && pre <= 7 && k >= 0 && k <= 64);
  carquet_bit_writer_init(&w, buf, 16);
  carquet_bit_writer_write_bits(&w, pv, pre);
  carquet_bit_writer_write_bits64(&w, v, k);
  carquet_bit_writer_flush(&w);
  size_t nbytes = carquet_bit_writer_bytes_written(&w);
  __CPROVER_assert(nbytes == (size_t)((pre + k + 7) >> 3), "writer reports ceil(bits/8) bytes after flush (64)");
  carquet_bit_reader_init(&r, buf, nbytes);
  uint32_t gp = carquet_bit_reader_read_bits(&r, pre);
  uint64_t gv = carquet_bit_reader_read_bits64(&r, k);
  uint64_t mask = k >= 64 ? ~(uint64_t)0 : (((uint64_t)1 << k) - 1);
  __CPROVER_assert(gp == (pv & SPEC_BP_MASK32(pre)), "prefix bits read back (64)");
  __CPROVER_assert(gv == (v & mask), "read_bits64(k) after write_bits64(v,k)+flush returns v & mask(k)");
  if (k == 64) CQV_CANARY("64-bit value");
  CQV_CANARY("bit reader/writer 64 harness end");
}

/* ---- sequence level (C11 + C12), constant width, every count 0..CQV_SEQ_MAX (whole groups, partial final
 * group, empty): bitunpack_32(bitpack_32(v)) == v & mask, both byte counts == ceil(count*w/8), buffers of
 * that size, emitted bytes == independent spec encoder over the zero-padded sequence (padding bits
 * of the final byte are zero), independent spec decoder over the whole stream returns the values.
 * Real pack8/unpack8 are executed (no contracts); loops unwound completely => bounded in count only. */
#ifndef CQV_SEQ_MAX
#define CQV_SEQ_MAX 15
#endif
void h_seq_roundtrip(void) {
  size_t count = nondet_size_t();
  __CPROVER_assume(count <= CQV_SEQ_MAX);
  /* fixed-size arrays: exact-size bounds for every count are the business of the loop-contract jobs
   * (c08_bitunpack_32_w*, c11_bitpack_32_w*); symbolic-size heap objects exhaust 8 GB here */
  uint32_t v[CQV_SEQ_MAX + 1], out[CQV_SEQ_MAX + 1];
  size_t n = SPEC_BP_PACKED_SIZE(count, CQV_W);
  uint8_t buf[(CQV_SEQ_MAX * 32 + 7) / 8 + 1];
  uint32_t vm[CQV_SEQ_MAX + 8];
  for (size_t i = 0; i < CQV_SEQ_MAX + 8; i++) {
    if (i < count) { v[i] = nondet_u32(); out[i] = nondet_u32(); vm[i] = v[i] & SPEC_BP_MASK32(CQV_W); }
    else vm[i] = 0;
  }
  for (size_t i = 0; i < (CQV_SEQ_MAX * 32 + 7) / 8; i++) if (i < n) buf[i] = nondet_u8();
  size_t wr = carquet_bitpack_32(v, count, CQV_W, buf);
  __CPROVER_assert(wr == n, "bitpack_32 reports carquet_packed_size bytes");
  __CPROVER_assert(n == carquet_packed_size(count, CQV_W), "spec size == carquet_packed_size");
  size_t g = nondet_size_t();            /* ghost value index; guards instead of assume keep count == 0 alive */
  if (g >= count) g = 0;
#if CQV_W > 0
  size_t b = nondet_size_t();            /* ghost byte index */
  if (b >= n) b = 0;
  __CPROVER_assert(n == 0 || buf[b] == spec_bp_pack_byte(vm, CQV_W, (unsigned)b), "byte b of the sequence equals the spec encoder's byte (zero padding)");
  __CPROVER_assert(count == 0 || spec_bp_unpack(buf, CQV_W, (unsigned)g) == vm[g], "spec decoder over the whole stream returns value g");
#endif
  size_t rd = carquet_bitunpack_32(buf, count, CQV_W, out);
  __CPROVER_assert(rd == wr, "bitunpack_32 consumed == bitpack_32 produced");
  __CPROVER_assert(count == 0 || out[g] == vm[g], "value g survives bitpack_32/bitunpack_32");
  if ((count & 7) != 0) CQV_CANARY("sequence with a partial final group");
  if (count == CQV_SEQ_MAX) CQV_CANARY("longest sequence");
  if (count == 0) CQV_CANARY("empty sequence");
  CQV_CANARY("sequence roundtrip harness end");
}
