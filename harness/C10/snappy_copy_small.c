/* C10/C09 quick lemma: snappy_emit_copy for every match length below the 64-byte splitting loop
 * (4..67) and every offset 1..65535: the emitted element(s) parse, under the specification parser,
 * to copies with the same offset whose lengths sum to len; the 2-byte (copy-1) form is used only
 * where the format allows it (length 4..11 and 11-bit offset).  The splitting loop itself (len >= 68)
 * is covered by the thorough jobs c09_/c10_snappy_emit_copy.  No overlay: the real snappy.c as is;
 * the loop `while (len >= 68)` runs zero times here (unwinding assertion proves it). */
#include "cqv.h"
#include "snappy_spec.h"
#include "src/compression/snappy.c"

void h_c10_emit_copy_small(void) {
  size_t len = nondet_size_t(), offset = nondet_size_t();
  __CPROVER_assume(len >= 4 && len <= 67 && offset >= 1 && offset <= 65535);
  uint8_t buf[8];
  uint8_t *r = snappy_emit_copy(buf, offset, len);
  snappy_spec_elem_t e = snappy_spec_parse_elem(buf, 8);
  __CPROVER_assert(e.ok && e.kind == SNAPPY_SPEC_COPY, "first element is a valid copy (non-zero offset)");
  __CPROVER_assert(e.offset == offset, "first element carries the offset");
  __CPROVER_assert(e.len >= 1 && e.len <= 64, "copy length within 1..64");
  __CPROVER_assert(e.hdr != 2 || (e.len >= 4 && e.len <= 11 && offset < 2048), "1-byte-offset form only for length 4..11 and 11-bit offsets");
  if (e.len == len) {
    __CPROVER_assert(r == buf + e.hdr, "returns the end of the element");
    CQV_CANARY("single element");
  } else {
    snappy_spec_elem_t f = snappy_spec_parse_elem(buf + e.hdr, 8 - e.hdr);
    __CPROVER_assert(f.ok && f.kind == SNAPPY_SPEC_COPY && f.offset == offset, "second element is a copy with the same offset");
    __CPROVER_assert(f.hdr != 2 || (f.len >= 4 && f.len <= 11 && offset < 2048), "1-byte-offset form only for length 4..11 and 11-bit offsets (second element)");
    __CPROVER_assert(e.len + f.len == len, "lengths sum to the match length");
    __CPROVER_assert(r == buf + e.hdr + f.hdr, "returns the end of the second element");
    CQV_CANARY("two elements");
  }
  CQV_CANARY("emit_copy small lemma end");
}
