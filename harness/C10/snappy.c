/* C10 (format) harnesses for the Snappy COMPRESS side: the bytes written by the real emitters are
 * parsed by the spec parser written from the format description (specs/snappy_spec.h). */
#define CQV_C10 1
#include "../C09/snappy.c"

/* preamble: for every 32-bit value the bytes written parse back to the value, same length */
void h_c10_varint(void) {
  uint8_t buf[5];
  uint32_t v = nondet_u32();
  size_t r = snappy_write_varint(buf, v);
  uint64_t got = 0;
  size_t pr = snappy_spec_parse_preamble(buf, r, &got);
  __CPROVER_assert(r >= 1 && r <= 5 && r == SNAPPY_SPEC_VARINT_LEN(v), "C10: preamble length is the varint length of the value");
  __CPROVER_assert(pr == r && got == v, "C10: preamble written parses back to the value with the same length");
  CQV_CANARY("varint lemma end");
  if (r == 5) CQV_CANARY("varint lemma: 5-byte preamble");
}

/* literal header: for all 1 <= len <= 2^32 the header parses to (LITERAL, len), size by class */
void h_c10_emit_literal(void) {
  size_t len = nondet_size_t();
  __CPROVER_assume(len >= 1 && len <= ((size_t)1 << 32));
  uint8_t *dst = malloc(len + 5);
  uint8_t *lit = malloc(len);
  __CPROVER_assume(dst != NULL && lit != NULL);
  uint8_t *r = snappy_emit_literal(dst, lit, len);
  snappy_spec_elem_t e = snappy_spec_parse_elem(dst, 5);
  __CPROVER_assert(e.ok && e.kind == SNAPPY_SPEC_LITERAL, "C10: literal header parses as a literal");
  __CPROVER_assert(e.len == len, "C10: literal header carries the literal length");
  __CPROVER_assert(r == dst + e.hdr + len, "C10: data follows the parsed header, return is end of data");
  __CPROVER_assert(e.hdr == SNAPPY_SPEC_LIT_HDR(len), "C10: header size matches the length class");
  CQV_CANARY("literal lemma end");
  if (e.hdr == 5) CQV_CANARY("literal lemma: 5-byte header");
}

void h_c10_emit_copy(void) {
  size_t cap = nondet_size_t(), off = nondet_size_t(), len = nondet_size_t(), offset = nondet_size_t();
  __CPROVER_assume(cap <= CQV_MAXBUF && off <= cap);
  uint8_t *dst = malloc(cap);
  __CPROVER_assume(dst != NULL);
  uint8_t *op0 = dst + off;
  uint8_t *r = snappy_emit_copy(op0, offset, len);
  CQV_CANARY("emit_copy (format) returns");
}
