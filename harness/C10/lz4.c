/* C10 harness: LZ4 block format conformance of carquet's decoder against the spec in specs/lz4_spec.h.
 * Bounded (complete unwinding on small inputs): no loop contracts are applied in these jobs. */
#include "cqv.h"
#include <stdlib.h>
#include <string.h>
#include "lz4_spec.h"
#include "src/compression/lz4.c"

#ifndef CQV_N
#define CQV_N 6
#endif
#ifndef CQV_CAP
#define CQV_CAP 16
#endif

/* decoder direction, reject clause: whatever carquet accepts must be a valid block by the format
 * document, and the reported size must be the size the format defines. */
void h_lz4_decompress_accepts_only_valid(void) {
  size_t n = nondet_size_t();
  __CPROVER_assume(n <= CQV_N);
  uint8_t *src = malloc(CQV_N);
  uint8_t *dst = malloc(CQV_CAP);
  __CPROVER_assume(src != NULL && dst != NULL);
  size_t out = 0, spec_out = 0;
  carquet_status_t st = carquet_lz4_decompress(src, n, dst, CQV_CAP, &out);
  int valid = lz4_spec_block_valid(src, n, &spec_out);
  CQV_CANARY("lz4 accept/valid comparison reached");
  if (st == CARQUET_OK && valid) CQV_CANARY("some block is both accepted and valid");
  if (st == CARQUET_OK) {
    __CPROVER_assert(valid, "lz4d: an accepted block is valid by the format document");
    __CPROVER_assert(!valid || out == spec_out, "lz4d: reported size is the size the format defines");
  }
}

/* decoder direction, accept clause: every valid block whose output fits is accepted with that size */
void h_lz4_decompress_accepts_every_valid(void) {
  size_t n = nondet_size_t();
  __CPROVER_assume(n <= CQV_N);
  uint8_t *src = malloc(CQV_N);
  uint8_t *dst = malloc(CQV_CAP);
  __CPROVER_assume(src != NULL && dst != NULL);
  size_t out = 0, spec_out = 0;
  int valid = lz4_spec_block_valid(src, n, &spec_out);
  carquet_status_t st = carquet_lz4_decompress(src, n, dst, CQV_CAP, &out);
  CQV_CANARY("lz4 valid/accept comparison reached");
  if (valid && spec_out <= CQV_CAP) {
    CQV_CANARY("a valid block that fits exists");
    __CPROVER_assert(st == CARQUET_OK && out == spec_out, "lz4d: a valid block that fits is accepted with the defined size");
  }
}
