/* C16: statistics builder and compare/overlap helpers (src/metadata/statistics.c, real file included).
 * Contracts: contracts/stats_builder.ovl.  One physical type per job (CQV_BT = carquet_physical_type_t value).
 *
 * Type orders of the specification:
 *   BOOLEAN false < true; INT32/INT64 signed; FLOAT/DOUBLE IEEE `<=` over the non-NaN values (NaN values are not
 *   bounded by anything and must not become a bound); INT96 unsigned (word2, word1, word0) lexicographic (the
 *   builder's own order - Parquet leaves INT96 order undefined); BYTE_ARRAY/FLBA unsigned lexicographic. */
#include "cqv.h"
#include <stdlib.h>
#include <stdbool.h>

#ifndef CQV_BT
#define CQV_BT 1
#endif
#if CQV_BT == 0
typedef uint8_t bval_t;
#define BSIZE(n) ((size_t)(n))
#elif CQV_BT == 1
typedef int32_t bval_t;
#define BSIZE(n) ((size_t)(n) << 2)
#elif CQV_BT == 2
typedef int64_t bval_t;
#define BSIZE(n) ((size_t)(n) << 3)
#elif CQV_BT == 4
typedef float bval_t;
#define BSIZE(n) ((size_t)(n) << 2)
#define CQV_IS_FP 1
#elif CQV_BT == 5
typedef double bval_t;
#define BSIZE(n) ((size_t)(n) << 3)
#define CQV_IS_FP 1
#elif CQV_BT == 3
/* INT96: three little-endian 32-bit words; the library's documented order (compare_int96: "3 uint32s ... from high
 * to low") is the UNSIGNED 96-bit number word[2]:word[1]:word[0] (Parquet itself leaves INT96 order undefined) */
typedef struct { uint32_t w[3]; } bval_t;
#define BSIZE(n) (((size_t)(n) << 3) + ((size_t)(n) << 2))
#define BLEQ(a, b) ((a).w[2] < (b).w[2] || ((a).w[2] == (b).w[2] && ((a).w[1] < (b).w[1] || ((a).w[1] == (b).w[1] && (a).w[0] <= (b).w[0]))))
#define BEQ(a, b) ((a).w[2] == (b).w[2] && (a).w[1] == (b).w[1] && (a).w[0] == (b).w[0])
#define BCOUNTS(x) 1
#elif CQV_BT == 7 && defined(CQV_FLBA16)
/* FIXED_LEN_BYTE_ARRAY(16): unsigned lexicographic = order of the two big-endian 64-bit halves */
typedef struct { uint8_t by[16]; } bval_t;
#define BSIZE(n) ((size_t)(n) << 4)
#define BE64(p) (((uint64_t)(p)[0] << 56) | ((uint64_t)(p)[1] << 48) | ((uint64_t)(p)[2] << 40) | ((uint64_t)(p)[3] << 32) | \
                 ((uint64_t)(p)[4] << 24) | ((uint64_t)(p)[5] << 16) | ((uint64_t)(p)[6] << 8) | (uint64_t)(p)[7])
#define BLEQ(x, y) (BE64((x).by) < BE64((y).by) || (BE64((x).by) == BE64((y).by) && BE64((x).by + 8) <= BE64((y).by + 8)))
#define BEQ(x, y) (BE64((x).by) == BE64((y).by) && BE64((x).by + 8) == BE64((y).by + 8))
#define BCOUNTS(x) 1
#define BEXTRA(bld) ((bld)->type_length == 16)
#else
typedef uint8_t bval_t; /* not used by the scalar contracts */
#define BSIZE(n) ((size_t)(n))
#endif
/* largest element count considered (keeps byte offsets far below 2^55) */
#define CQV_MAXN ((int64_t)1 << 36)
#if CQV_BT == 3
#define BV(k) (*(const bval_t *)((const uint32_t *)values + ((k) << 1) + (k)))
#else
#define BV(k) (((const bval_t *)values)[k])
#endif
#define BMIN (*(const bval_t *)builder->min_value)
#define BMAX (*(const bval_t *)builder->max_value)
/* BLEQ = the specification order, BCOUNTS(x) = x is a value the bounds must cover */
#if defined(CQV_IS_FP)
#define BLEQ(a, b) ((a) <= (b))
#define BCOUNTS(x) ((x) == (x))
#elif !defined(BLEQ)
#define BLEQ(a, b) ((a) <= (b))
#define BCOUNTS(x) 1
#endif
#ifndef BEQ
#define BEQ(a, b) ((a) == (b))
#endif
#ifndef BEXTRA
#define BEXTRA(bld) 1
#endif

/* ghosts: arbitrary element index; pre-state of the builder */
int64_t cqv_k;
_Bool cqv_old_has_min, cqv_old_has_max;
bval_t cqv_old_min, cqv_old_max;
int64_t cqv_old_num_values, cqv_old_null_count;
/* byte-array ghosts */
size_t cqv_old_min_len, cqv_old_max_len;

#include "src/metadata/statistics.c"

void h_add_values(void) {
  /* typed heap objects of exactly the sizes the contract requires (arbitrary contents) */
  carquet_statistics_builder_t *b = nondet_bool() ? malloc(sizeof(*b)) : NULL;
  int64_t n = nondet_i64();
  __CPROVER_assume(n <= CQV_MAXN);
#if CQV_BT == 3
  uint32_t *values = (n > 0 && nondet_bool()) ? malloc(sizeof(uint32_t) * (size_t)(n + n + n)) : NULL; /* 3 words per INT96 */
#else
  bval_t *values = (n > 0 && nondet_bool()) ? malloc(sizeof(bval_t) * (size_t)n) : NULL;
#endif
  carquet_status_t st = carquet_statistics_add_values(b, values, n);
  if (st == CARQUET_OK) CQV_CANARY("add_values can succeed");
  CQV_CANARY("add_values returns");
}

void h_add_nulls(void) {
  carquet_statistics_builder_t *b = nondet_bool() ? malloc(sizeof(*b)) : NULL;
  int64_t c = nondet_i64();
  int64_t old = b ? b->null_count : 0;
  __CPROVER_assume(c >= 0 && old >= 0 && old <= INT64_MAX - c);
  carquet_statistics_add_nulls(b, c);
  __CPROVER_assert(b == NULL || b->null_count == old + c, "null_count accumulates the nulls added");
  CQV_CANARY("add_nulls returns");
}

#ifdef CQV_IS_FP
/* Bounded lemma with a concrete call sequence (real create + one add_values of 1..3 values): the bounds cover
 * every non-NaN value in IEEE order and are not NaN.  Scalar inputs => direct native replay. */
static bval_t fp_from_bits(uint64_t b) {
  bval_t v; uint8_t *q = (uint8_t *)&v;
  for (unsigned i = 0; i < sizeof(bval_t); i++) q[i] = (uint8_t)(b >> (8 * i));
  return v;
}
void h_builder_fp_seq(void) {
  uint64_t v0bits = nondet_u64(), v1bits = nondet_u64(), v2bits = nondet_u64();
  int64_t n = nondet_i64();
  __CPROVER_assume(n >= 1 && n <= 3);
  carquet_statistics_builder_t *b = carquet_statistics_builder_create((carquet_physical_type_t)CQV_BT, 0);
  __CPROVER_assume(b != NULL);
  bval_t vals[3] = { fp_from_bits(v0bits), fp_from_bits(v1bits), fp_from_bits(v2bits) };
  carquet_status_t st = carquet_statistics_add_values(b, vals, n);
  __CPROVER_assert(st == CARQUET_OK, "add_values succeeds");
  _Bool any_number = 0;
  for (int i = 0; i < 3; i++) {
    if (i < n && vals[i] == vals[i]) {
      any_number = 1;
      __CPROVER_assert(b->has_min && b->has_max && b->min_len == sizeof(bval_t) && b->max_len == sizeof(bval_t), "bounds exist");
      bval_t mn = *(bval_t *)b->min_value, mx = *(bval_t *)b->max_value;
      __CPROVER_assert(mn <= vals[i], "min <= every non-NaN value (IEEE)");
      __CPROVER_assert(vals[i] <= mx, "every non-NaN value <= max (IEEE)");
    }
  }
  if (any_number) CQV_CANARY("fp seq: some number"); else CQV_CANARY("fp seq: only NaN");
  CQV_CANARY("fp seq end");
}
#endif

#if CQV_BT == 0 || CQV_BT == 1 || CQV_BT == 2 || CQV_BT == 4 || CQV_BT == 5
/* carquet_statistics_compare / carquet_statistics_range_overlaps: no false negatives (scalar types, IEEE order
 * for floats).  Statistics fields are exact-size objects of the type's width; each may be absent. */
static parquet_statistics_t *mk_stats(bval_t mn, bval_t mx, unsigned present) {
  parquet_statistics_t *s = malloc(sizeof(*s));
  __CPROVER_assume(s != NULL);
  s->min_value = NULL; s->max_value = NULL;
  s->min_value_len = nondet_i32(); s->max_value_len = nondet_i32();
  if (present & 1) { s->min_value = malloc(sizeof(bval_t)); __CPROVER_assume(s->min_value != NULL); *(bval_t *)s->min_value = mn; s->min_value_len = sizeof(bval_t); }
  if (present & 2) { s->max_value = malloc(sizeof(bval_t)); __CPROVER_assume(s->max_value != NULL); *(bval_t *)s->max_value = mx; s->max_value_len = sizeof(bval_t); }
  return s;
}
static bval_t hb_from_bits(uint64_t b) {
  bval_t v; uint8_t *q = (uint8_t *)&v;
  for (unsigned i = 0; i < sizeof(bval_t); i++) q[i] = (uint8_t)(b >> (8 * i));
  return v;
}
void h_stats_compare(void) {
  uint64_t minbits = nondet_u64(), maxbits = nondet_u64(), vbits = nondet_u64();
  unsigned present = nondet_unsigned();
  bval_t mn = hb_from_bits(minbits), mx = hb_from_bits(maxbits);
  parquet_statistics_t *s = mk_stats(mn, mx, present);
  bval_t *value = malloc(sizeof(bval_t));
  __CPROVER_assume(value != NULL);
  *value = hb_from_bits(vbits);
  int result = nondet_int();
  carquet_status_t st = carquet_statistics_compare(s, (carquet_physical_type_t)CQV_BT, value, sizeof(bval_t), &result);
  __CPROVER_assert(st == CARQUET_OK, "compare succeeds");
  /* the value occurs in the data and the statistics are true bounds => it must be reported 'in range' */
  _Bool bounds = (!(present & 1) || mn <= *value) && (!(present & 2) || *value <= mx);
  if (bounds) { __CPROVER_assert(result == 0, "a value inside true bounds is in range"); CQV_CANARY("compare: in range"); }
  if (result != 0) CQV_CANARY("compare: can be out of range");
  CQV_CANARY("compare end");
}
void h_range_overlaps(void) {
  uint64_t minbits = nondet_u64(), maxbits = nondet_u64(), qminbits = nondet_u64(), qmaxbits = nondet_u64(), xbits = nondet_u64();
  unsigned present = nondet_unsigned();
  bval_t mn = hb_from_bits(minbits), mx = hb_from_bits(maxbits), x = hb_from_bits(xbits);
  parquet_statistics_t *s = mk_stats(mn, mx, present);
  bval_t *qmin = NULL, *qmax = NULL;
  if (present & 4) { qmin = malloc(sizeof(bval_t)); __CPROVER_assume(qmin != NULL); *qmin = hb_from_bits(qminbits); }
  if (present & 8) { qmax = malloc(sizeof(bval_t)); __CPROVER_assume(qmax != NULL); *qmax = hb_from_bits(qmaxbits); }
  bool ov = nondet_bool();
  carquet_status_t st = carquet_statistics_range_overlaps(s, (carquet_physical_type_t)CQV_BT, qmin, qmax, sizeof(bval_t), &ov);
  __CPROVER_assert(st == CARQUET_OK, "range_overlaps succeeds");
  /* a value x inside the true bounds and inside the query range exists => overlap must be reported */
  _Bool in_stats = (!(present & 1) || mn <= x) && (!(present & 2) || x <= mx);
  _Bool in_query = (qmin == NULL || *qmin <= x) && (qmax == NULL || x <= *qmax);
  if (in_stats && in_query) { __CPROVER_assert(ov, "overlap reported when a value lies in both ranges"); CQV_CANARY("overlaps: witness"); }
  if (!ov) CQV_CANARY("overlaps: can be false");
  CQV_CANARY("overlaps end");
}
#endif

#if CQV_BT == 7
/* FIXED_LEN_BYTE_ARRAY wider than the 256-byte min/max storage: rejected, builder untouched, nothing written */
void h_flba_wide(void) {
  carquet_statistics_builder_t *b = malloc(sizeof(*b));
  __CPROVER_assume(b != NULL);
  int32_t tl = nondet_i32();
  __CPROVER_assume(tl > 256);
  b->type = CARQUET_PHYSICAL_FIXED_LEN_BYTE_ARRAY;
  b->type_length = tl;
  carquet_statistics_builder_t old = *b;
  int64_t n = nondet_i64();
  __CPROVER_assume(n >= 1 && n <= CQV_MAXN);
  /* the caller's buffer: one element is enough to expose any access */
  uint8_t *values = malloc((size_t)tl);
  __CPROVER_assume(values != NULL);
  carquet_status_t st = carquet_statistics_add_values(b, values, n);
  __CPROVER_assert(st == CARQUET_ERROR_INVALID_ARGUMENT, "type_length > 256 is rejected");
  __CPROVER_assert(b->has_min == old.has_min && b->has_max == old.has_max && b->min_len == old.min_len && b->max_len == old.max_len &&
                   b->num_values == old.num_values && b->null_count == old.null_count, "builder state unchanged");
  size_t k = nondet_size_t();
  __CPROVER_assume(k < sizeof(b->min_value));
  __CPROVER_assert(b->min_value[k] == old.min_value[k] && b->max_value[k] == old.max_value[k], "min/max storage untouched");
  CQV_CANARY("flba wide end");
}
#endif

#if CQV_BT == 6
/* BYTE_ARRAY, concrete sequence on a fresh real builder: 1..3 values of arbitrary length, then the real
 * carquet_statistics_build.  Property: every bound that is REPORTED is true.
 *  - some value longer than the 256-byte storage  => no min/max reported at all;
 *  - all values at most 8 bytes (exact memcmp/memcpy model) => reported min/max enclose every value
 *    (unsigned lexicographic, prefix first) and carry their own lengths. */
#define ML 8
static int lex_cmp(const uint8_t *a, size_t al, const uint8_t *b, size_t bl) {
  for (size_t i = 0; i < ML; i++) {
    if (i >= al || i >= bl) break;
    if (a[i] != b[i]) return a[i] < b[i] ? -1 : 1;
  }
  return (al > bl) - (al < bl);
}
void h_byte_arrays_seq(void) {
  int64_t n = nondet_i64();
  __CPROVER_assume(n >= 1 && n <= 3);
  int32_t l0 = nondet_i32(), l1 = nondet_i32(), l2 = nondet_i32();
  __CPROVER_assume(l0 >= 0 && l1 >= 0 && l2 >= 0 && l0 <= (1 << 20) && l1 <= (1 << 20) && l2 <= (1 << 20));
  carquet_byte_array_t v[3];
  v[0].length = l0; v[1].length = l1; v[2].length = l2;
  for (int i = 0; i < 3; i++) { v[i].data = malloc((size_t)v[i].length); __CPROVER_assume(v[i].data != NULL); }
  carquet_statistics_builder_t *b = carquet_statistics_builder_create(CARQUET_PHYSICAL_BYTE_ARRAY, 0);
  __CPROVER_assume(b != NULL);
  carquet_status_t st = carquet_statistics_add_byte_arrays(b, v, n);
  __CPROVER_assert(st == CARQUET_OK && b->num_values == n, "add_byte_arrays succeeds and counts every value");
  parquet_statistics_t out;
  st = carquet_statistics_build(b, NULL, &out);
  __CPROVER_assert(st == CARQUET_OK, "build succeeds");
  _Bool any_long = 0, all_short = 1;
  for (int i = 0; i < 3; i++) if (i < n) { if (v[i].length > 256) any_long = 1; if (v[i].length > ML) all_short = 0; }
  if (any_long) {
    __CPROVER_assert(out.min_value == NULL && out.max_value == NULL && out.min_value_len == 0 && out.max_value_len == 0,
                     "a value too long for the builder: no min/max reported");
    CQV_CANARY("byte arrays: long value");
  }
  if (all_short && out.min_value != NULL && out.max_value != NULL) {
    for (int i = 0; i < 3; i++) if (i < n) {
      __CPROVER_assert(lex_cmp(out.min_value, (size_t)out.min_value_len, v[i].data, (size_t)v[i].length) <= 0, "reported min <= every value (lexicographic)");
      __CPROVER_assert(lex_cmp(v[i].data, (size_t)v[i].length, out.max_value, (size_t)out.max_value_len) <= 0, "every value <= reported max (lexicographic)");
    }
    CQV_CANARY("byte arrays: short values, bounds reported");
  }
  __CPROVER_assert(out.has_null_count && out.null_count == 0, "null count reported");
  CQV_CANARY("byte arrays seq end");
}

/* carquet_statistics_build on an ARBITRARY builder state: bounds_unknown => nothing reported; a reported bound has
 * the builder's length; null_count passes through. */
void h_build(void) {
  carquet_statistics_builder_t *b = malloc(sizeof(*b));
  __CPROVER_assume(b != NULL);
  __CPROVER_assume(b->min_len <= sizeof(b->min_value) && b->max_len <= sizeof(b->max_value));
  parquet_statistics_t out;
  carquet_status_t st = carquet_statistics_build(b, NULL, &out);
  __CPROVER_assert(st == CARQUET_OK, "build succeeds");
  if (b->bounds_unknown) {
    __CPROVER_assert(out.min_value == NULL && out.max_value == NULL && out.min_value_len == 0 && out.max_value_len == 0 &&
                     out.min_deprecated == NULL && out.max_deprecated == NULL, "bounds unknown: no min/max reported in any field");
    CQV_CANARY("build: bounds unknown");
  } else {
    if (out.min_value) { __CPROVER_assert(b->has_min && out.min_value_len == (int32_t)b->min_len, "reported min is the builder's min"); CQV_CANARY("build: min reported"); }
    if (out.max_value) { __CPROVER_assert(b->has_max && out.max_value_len == (int32_t)b->max_len, "reported max is the builder's max"); CQV_CANARY("build: max reported"); }
  }
  __CPROVER_assert(out.has_null_count && out.null_count == b->null_count, "null_count passes through");
  CQV_CANARY("build end");
}
#endif

#if CQV_BT == 3
/* compare_int96 is the sign of the comparison of the unsigned 96-bit numbers w[2]:w[1]:w[0] (all 2^192 inputs):
 * hence a total order: 0 iff the values are equal word for word, antisymmetric. */
void h_compare_int96(void) {
  uint32_t a[3], b[3];
  for (int i = 0; i < 3; i++) { a[i] = nondet_u32(); b[i] = nondet_u32(); }
  int r = compare_int96(a, b), r2 = compare_int96(b, a);
  _Bool lt = a[2] < b[2] || (a[2] == b[2] && (a[1] < b[1] || (a[1] == b[1] && a[0] < b[0])));
  _Bool eq = a[2] == b[2] && a[1] == b[1] && a[0] == b[0];
  __CPROVER_assert(r == (eq ? 0 : (lt ? -1 : 1)), "compare_int96 is the sign of the unsigned 96-bit comparison, most significant word first");
  __CPROVER_assert((r == 0) == eq, "compare == 0 iff the two values are equal");
  __CPROVER_assert(r2 == -r, "antisymmetric");
  if (r == 0) CQV_CANARY("int96: equal"); else if (r < 0) CQV_CANARY("int96: less"); else CQV_CANARY("int96: greater");
}
static uint32_t *i96(uint32_t w0, uint32_t w1, uint32_t w2) {
  uint32_t *p = malloc(12);
  __CPROVER_assume(p != NULL);
  p[0] = w0; p[1] = w1; p[2] = w2;
  return p;
}
#define LE96(a, b) ((a)[2] < (b)[2] || ((a)[2] == (b)[2] && ((a)[1] < (b)[1] || ((a)[1] == (b)[1] && (a)[0] <= (b)[0]))))
static parquet_statistics_t *mk_stats96(uint32_t *mn, uint32_t *mx) {
  parquet_statistics_t *s = malloc(sizeof(*s));
  __CPROVER_assume(s != NULL);
  s->min_value = (uint8_t *)mn; s->min_value_len = mn ? 12 : nondet_i32();
  s->max_value = (uint8_t *)mx; s->max_value_len = mx ? 12 : nondet_i32();
  return s;
}
void h_stats_compare_int96(void) {
  unsigned present = nondet_unsigned();
  uint32_t *mn = (present & 1) ? i96(nondet_u32(), nondet_u32(), nondet_u32()) : NULL;
  uint32_t *mx = (present & 2) ? i96(nondet_u32(), nondet_u32(), nondet_u32()) : NULL;
  uint32_t *v = i96(nondet_u32(), nondet_u32(), nondet_u32());
  parquet_statistics_t *s = mk_stats96(mn, mx);
  int result = nondet_int();
  carquet_status_t st = carquet_statistics_compare(s, CARQUET_PHYSICAL_INT96, v, 12, &result);
  __CPROVER_assert(st == CARQUET_OK, "compare succeeds");
  _Bool bounds = (!mn || LE96(mn, v)) && (!mx || LE96(v, mx));
  if (bounds) { __CPROVER_assert(result == 0, "a value inside true bounds is in range"); CQV_CANARY("compare96: in range"); }
  /* and the verdicts are right: -1 only below min, 1 only above max (so 'in range' is not claimed for everything) */
  if (result < 0) { __CPROVER_assert(mn && !LE96(mn, v), "-1 only for a value below min"); CQV_CANARY("compare96: below"); }
  if (result > 0) { __CPROVER_assert(mx && !LE96(v, mx), "1 only for a value above max"); CQV_CANARY("compare96: above"); }
  if (mn && !LE96(mn, v)) __CPROVER_assert(result == -1, "a value below min is reported -1");
  CQV_CANARY("compare96 end");
}
void h_range_overlaps_int96(void) {
  unsigned present = nondet_unsigned();
  uint32_t *mn = (present & 1) ? i96(nondet_u32(), nondet_u32(), nondet_u32()) : NULL;
  uint32_t *mx = (present & 2) ? i96(nondet_u32(), nondet_u32(), nondet_u32()) : NULL;
  uint32_t *qmin = (present & 4) ? i96(nondet_u32(), nondet_u32(), nondet_u32()) : NULL;
  uint32_t *qmax = (present & 8) ? i96(nondet_u32(), nondet_u32(), nondet_u32()) : NULL;
  uint32_t *x = i96(nondet_u32(), nondet_u32(), nondet_u32());
  parquet_statistics_t *s = mk_stats96(mn, mx);
  bool ov = nondet_bool();
  carquet_status_t st = carquet_statistics_range_overlaps(s, CARQUET_PHYSICAL_INT96, qmin, qmax, 12, &ov);
  __CPROVER_assert(st == CARQUET_OK, "range_overlaps succeeds");
  _Bool in_stats = (!mn || LE96(mn, x)) && (!mx || LE96(x, mx));
  _Bool in_query = (!qmin || LE96(qmin, x)) && (!qmax || LE96(x, qmax));
  if (in_stats && in_query) { __CPROVER_assert(ov, "overlap reported when a value lies in both ranges (INT96 order)"); CQV_CANARY("overlaps96: witness"); }
  if (!ov) CQV_CANARY("overlaps96: can be false");
  CQV_CANARY("overlaps96 end");
}
#endif
