/* C16: statistics builder and compare/overlap helpers (src/metadata/statistics.c, real file included).
 * Contracts: contracts/stats_builder.ovl.  One physical type per job (CQV_BT = carquet_physical_type_t value).
 *
 * Type orders of the specification:
 *   BOOLEAN false < true; INT32/INT64 signed; FLOAT/DOUBLE IEEE `<=` over the non-NaN values (NaN values are not
 *   bounded by anything and must not become a bound); INT96 unsigned (word2, word1, word0) lexicographic (the
 *   builder's own order - Parquet leaves INT96 order undefined); BYTE_ARRAY/FLBA unsigned lexicographic. */
#include "cqv.h"
#include <stdlib.h>
#include <stdbool.h>

#ifndef CQV_BT
#define CQV_BT 1
#endif
#if CQV_BT == 0
typedef uint8_t bval_t;
#define BSIZE(n) ((size_t)(n))
#elif CQV_BT == 1
typedef int32_t bval_t;
#define BSIZE(n) ((size_t)(n) << 2)
#elif CQV_BT == 2
typedef int64_t bval_t;
#define BSIZE(n) ((size_t)(n) << 3)
#elif CQV_BT == 4
typedef float bval_t;
#define BSIZE(n) ((size_t)(n) << 2)
#define CQV_IS_FP 1
#elif CQV_BT == 5
typedef double bval_t;
#define BSIZE(n) ((size_t)(n) << 3)
#define CQV_IS_FP 1
#else
typedef uint8_t bval_t; /* not used by the scalar contracts */
#define BSIZE(n) ((size_t)(n))
#endif
/* largest element count considered (keeps byte offsets far below 2^55) */
#define CQV_MAXN ((int64_t)1 << 36)
#define BV(k) (((const bval_t *)values)[k])
#define BMIN (*(const bval_t *)builder->min_value)
#define BMAX (*(const bval_t *)builder->max_value)
#ifdef CQV_IS_FP
#define NOTNAN(x) ((x) == (x))
#else
#define NOTNAN(x) 1
#endif

/* ghosts: arbitrary element index; pre-state of the builder */
int64_t cqv_k;
_Bool cqv_old_has_min, cqv_old_has_max;
bval_t cqv_old_min, cqv_old_max;
int64_t cqv_old_num_values, cqv_old_null_count;
/* byte-array ghosts */
size_t cqv_old_min_len, cqv_old_max_len;

#include "src/metadata/statistics.c"

void h_add_values(void) {
  /* typed heap objects of exactly the sizes the contract requires (arbitrary contents) */
  carquet_statistics_builder_t *b = nondet_bool() ? malloc(sizeof(*b)) : NULL;
  int64_t n = nondet_i64();
  __CPROVER_assume(n <= CQV_MAXN);
  bval_t *values = (n > 0 && nondet_bool()) ? malloc(sizeof(bval_t) * (size_t)n) : NULL;
  carquet_status_t st = carquet_statistics_add_values(b, values, n);
  if (st == CARQUET_OK) CQV_CANARY("add_values can succeed");
  CQV_CANARY("add_values returns");
}

void h_add_nulls(void) {
  carquet_statistics_builder_t *b = nondet_bool() ? malloc(sizeof(*b)) : NULL;
  int64_t c = nondet_i64();
  int64_t old = b ? b->null_count : 0;
  __CPROVER_assume(c >= 0 && old >= 0 && old <= INT64_MAX - c);
  carquet_statistics_add_nulls(b, c);
  __CPROVER_assert(b == NULL || b->null_count == old + c, "null_count accumulates the nulls added");
  CQV_CANARY("add_nulls returns");
}
