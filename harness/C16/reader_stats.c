/* C16: predicate pushdown of the reader (src/reader/statistics.c, the real file is included).
 *
 * Ground truth used by every lemma below ("statistics are true bounds"): the row group holds a
 * non-null value x of the column's physical type; every min field that the file carries (new
 * min_value and/or deprecated min) is <= x and every max field is >= x in the type's order:
 *   INT32/INT64  signed integer order
 *   FLOAT/DOUBLE IEEE-754 `<=` (so x is not NaN and the bounds are not NaN whenever bounds exist)
 *   BYTE_ARRAY / FIXED_LEN_BYTE_ARRAY  unsigned lexicographic, a proper prefix sorts first
 * and the predicate `x op value` holds with the C meaning of op on that type.
 * Obligation: *might_match == true.  A "present" field is pointer != NULL and length > 0. */
#include "cqv.h"
#include <stdlib.h>
/* ghosts of the filter_row_groups contract (see contracts/stats_reader.ovl) */
int32_t cqv_k;        /* arbitrary row group index */
_Bool cqv_incl_k;     /* outcome of row_group_matches for group k: error or might_match */
int32_t cqv_pos;      /* ghost: position at which k was stored */
int32_t cqv_j;        /* arbitrary position in the output list */
#include "src/reader/statistics.c"

/* type selector of the lemma jobs */
#define T_I32 0
#define T_I64 1
#define T_F32 2
#define T_F64 3
#define T_BA 4
#define T_FLBA 5
#define T_BOOL 6
#ifndef CQV_T
#define CQV_T T_I32
#endif
#ifndef CQV_MAXLEN
#define CQV_MAXLEN 8
#endif

#if CQV_T == T_I32
typedef int32_t val_t;
#define PHYS CARQUET_PHYSICAL_INT32
#elif CQV_T == T_I64
typedef int64_t val_t;
#define PHYS CARQUET_PHYSICAL_INT64
#elif CQV_T == T_F32
typedef float val_t;
#define PHYS CARQUET_PHYSICAL_FLOAT
#elif CQV_T == T_F64
typedef double val_t;
#define PHYS CARQUET_PHYSICAL_DOUBLE
#elif CQV_T == T_BOOL
typedef int32_t val_t;
#define PHYS CARQUET_PHYSICAL_BOOLEAN
#elif CQV_T == T_BA
typedef int32_t val_t; /* unused */
#define PHYS CARQUET_PHYSICAL_BYTE_ARRAY
#else
typedef int32_t val_t; /* unused */
#define PHYS CARQUET_PHYSICAL_FIXED_LEN_BYTE_ARRAY
#endif

/* exact-size heap object of len bytes (len <= 0: zero-size object), arbitrary contents */
static uint8_t *mk_field(_Bool present, int32_t len) {
  if (!present) return NULL;
  uint8_t *p = malloc(len > 0 ? (size_t)len : 0);
  __CPROVER_assume(p != NULL);
  return p;
}

struct rg_world {
  carquet_reader_t *reader;
  parquet_statistics_t *st; /* statistics of the addressed chunk, or NULL when the indices are out of range */
  parquet_column_chunk_t *chunk;
  int32_t rg, col;
};

/* A reader with at most one row group, at most two leaf columns, arbitrary field values.
 * Only what row_group_matches/column_statistics may touch is built. */
static struct rg_world mk_world(int32_t len_min, int32_t len_max, int32_t len_dmin, int32_t len_dmax, unsigned present) {
  struct rg_world w;
  carquet_reader_t *r = malloc(sizeof(*r));
  __CPROVER_assume(r != NULL);
  carquet_schema_t *s = malloc(sizeof(*s));
  __CPROVER_assume(s != NULL);
  r->schema = s;
  int32_t nl = nondet_i32();
  __CPROVER_assume(nl >= 0 && nl <= 2);
  s->num_leaves = nl;
  s->num_elements = 3;
  s->elements = malloc(3 * sizeof(parquet_schema_element_t));
  s->leaf_indices = malloc(2 * sizeof(int32_t));
  __CPROVER_assume(s->elements != NULL && s->leaf_indices != NULL);
  __CPROVER_assume(s->leaf_indices[0] >= 0 && s->leaf_indices[0] < 3);
  __CPROVER_assume(s->leaf_indices[1] >= 0 && s->leaf_indices[1] < 3);
  int32_t nrg = nondet_i32();
  __CPROVER_assume(nrg >= 0 && nrg <= 1);
  r->metadata.num_row_groups = nrg;
  r->metadata.row_groups = malloc(sizeof(parquet_row_group_t));
  __CPROVER_assume(r->metadata.row_groups != NULL);
  parquet_row_group_t *g = &r->metadata.row_groups[0];
  int32_t nc = nondet_i32();
  __CPROVER_assume(nc >= 0 && nc <= 2);
  g->num_columns = nc;
  g->columns = malloc(2 * sizeof(parquet_column_chunk_t));
  __CPROVER_assume(g->columns != NULL);
  w.reader = r;
  w.rg = nondet_i32();
  w.col = nondet_i32();
  w.st = NULL;
  w.chunk = NULL;
  /* both chunks get well-formed statistics objects; the addressed one is remembered */
  for (int c = 0; c < 2; c++) {
    parquet_statistics_t *st = &g->columns[c].metadata.statistics;
    st->min_value = mk_field(present & 1, len_min);
    st->min_value_len = len_min;
    st->max_value = mk_field((present >> 1) & 1, len_max);
    st->max_value_len = len_max;
    st->min_deprecated = mk_field((present >> 2) & 1, len_dmin);
    st->min_deprecated_len = len_dmin;
    st->max_deprecated = mk_field((present >> 3) & 1, len_dmax);
    st->max_deprecated_len = len_dmax;
  }
  if (w.rg >= 0 && w.rg < nrg && w.col >= 0 && w.col < nl && w.col < nc) {
    w.chunk = &g->columns[w.col];
    w.st = &w.chunk->metadata.statistics;
    /* the column's physical type as the schema states it */
    parquet_schema_element_t *e = &s->elements[s->leaf_indices[w.col]];
#if CQV_T == T_BA
    /* a leaf without a type is treated as BYTE_ARRAY by the code */
    __CPROVER_assume(!e->has_type || e->type == PHYS);
#else
    __CPROVER_assume(e->has_type && e->type == PHYS);
#endif
  }
  return w;
}

#define PRESENT(p, l) ((p) != NULL && (l) > 0)

#if CQV_T <= T_F64 || CQV_T == T_BOOL
static val_t rd(const uint8_t *p) {
  val_t v; uint8_t *q = (uint8_t *)&v;
  for (unsigned i = 0; i < sizeof(val_t); i++) q[i] = p[i];
  return v;
}
static val_t from_bits(uint64_t b) {
  val_t v; uint8_t *q = (uint8_t *)&v;
  for (unsigned i = 0; i < sizeof(val_t); i++) q[i] = (uint8_t)(b >> (8 * i));
  return v;
}
static void put(uint8_t *p, uint64_t b) {
  if (p) for (unsigned i = 0; i < sizeof(val_t); i++) p[i] = (uint8_t)(b >> (8 * i));
}

/* Lemma (numeric types, statistics fields of the type's width): no false negative, all operators,
 * all probe values, new and deprecated fields, all index combinations. */
void h_rgm_numeric(void) {
  int32_t L = (int32_t)sizeof(val_t);
  /* scalar inputs (little-endian bit patterns of the type's width); also read by the native replayer */
  unsigned present = nondet_unsigned();
  uint64_t vbits = nondet_u64(), xbits = nondet_u64();
  uint64_t nminbits = nondet_u64(), nmaxbits = nondet_u64(), dminbits = nondet_u64(), dmaxbits = nondet_u64();
  int op = nondet_int();
  struct rg_world w = mk_world(L, L, L, L, present);
  if (w.st) { put(w.st->min_value, nminbits); put(w.st->max_value, nmaxbits); put(w.st->min_deprecated, dminbits); put(w.st->max_deprecated, dmaxbits); }
  val_t *value = malloc(sizeof(val_t));
  __CPROVER_assume(value != NULL);
  *value = from_bits(vbits);
#ifdef CQV_PROBE_NOT_NAN
  __CPROVER_assume(*value == *value);
#endif
  val_t x = from_bits(xbits);
  bool mm = nondet_bool();
  carquet_status_t rc = carquet_reader_row_group_matches(w.reader, w.rg, w.col, (carquet_compare_op_t)op,
                                                         value, (int32_t)sizeof(val_t), &mm);
  if (w.st == NULL) {
    __CPROVER_assert(mm, "indices out of range: conservative answer");
    __CPROVER_assert(rc != CARQUET_OK, "out-of-range indices are an error");
    CQV_CANARY("out-of-range path");
    return;
  }
  __CPROVER_assert(rc == CARQUET_OK, "valid indices succeed");
  parquet_statistics_t *st = w.st;
  _Bool have = w.chunk->has_metadata && w.chunk->metadata.has_statistics;
  _Bool new_pair = PRESENT(st->min_value, st->min_value_len) && PRESENT(st->max_value, st->max_value_len);
  _Bool old_pair = PRESENT(st->min_deprecated, st->min_deprecated_len) && PRESENT(st->max_deprecated, st->max_deprecated_len);
  if (!have || (!new_pair && !old_pair)) {
    __CPROVER_assert(mm, "absent statistics mean 'might match'");
    CQV_CANARY("absent statistics path");
    return;
  }
  /* statistics are true bounds of x */
  _Bool bounds = 1;
  if (PRESENT(st->min_value, st->min_value_len)) bounds = bounds && rd(st->min_value) <= x;
  if (PRESENT(st->max_value, st->max_value_len)) bounds = bounds && x <= rd(st->max_value);
  if (PRESENT(st->min_deprecated, st->min_deprecated_len)) bounds = bounds && rd(st->min_deprecated) <= x;
  if (PRESENT(st->max_deprecated, st->max_deprecated_len)) bounds = bounds && x <= rd(st->max_deprecated);
  val_t v = *value;
  if (bounds) {
    if (op == CARQUET_COMPARE_EQ && x == v) { __CPROVER_assert(mm, "EQ: no false negative"); CQV_CANARY("EQ match"); }
    if (op == CARQUET_COMPARE_NE && x != v) { __CPROVER_assert(mm, "NE: no false negative"); CQV_CANARY("NE match"); }
    if (op == CARQUET_COMPARE_LT && x < v) { __CPROVER_assert(mm, "LT: no false negative"); CQV_CANARY("LT match"); }
    if (op == CARQUET_COMPARE_LE && x <= v) { __CPROVER_assert(mm, "LE: no false negative"); CQV_CANARY("LE match"); }
    if (op == CARQUET_COMPARE_GT && x > v) { __CPROVER_assert(mm, "GT: no false negative"); CQV_CANARY("GT match"); }
    if (op == CARQUET_COMPARE_GE && x >= v) { __CPROVER_assert(mm, "GE: no false negative"); CQV_CANARY("GE match"); }
    if (op < 0 || op > 5) __CPROVER_assert(mm, "unknown operator: conservative answer");
  }
  if (!mm) CQV_CANARY("pruning is possible");
  if (new_pair) CQV_CANARY("new fields used"); else CQV_CANARY("deprecated fields used");
  CQV_CANARY("rgm numeric end");
}

/* Memory safety with statistics of ARBITRARY length (what a file may carry): nothing is read
 * beyond min_value_len / max_value_len bytes of a statistics field. */
void h_rgm_numeric_anylen(void) {
  int32_t l1 = nondet_i32(), l2 = nondet_i32(), l3 = nondet_i32(), l4 = nondet_i32();
  unsigned present = nondet_unsigned();
  struct rg_world w = mk_world(l1, l2, l3, l4, present);
  val_t *value = malloc(sizeof(val_t));
  __CPROVER_assume(value != NULL);
  int op = nondet_int();
  bool mm = nondet_bool();
  carquet_status_t rc = carquet_reader_row_group_matches(w.reader, w.rg, w.col, (carquet_compare_op_t)op,
                                                         value, (int32_t)sizeof(val_t), &mm);
  if (w.st != NULL && rc == CARQUET_OK) CQV_CANARY("anylen: valid indices");
  if (!mm) CQV_CANARY("anylen: pruning is possible");
  CQV_CANARY("rgm numeric anylen end");
}
#endif

#if CQV_T == T_BA || CQV_T == T_FLBA || CQV_T == T_BOOL
/* specification order (BOOLEAN: one byte, false < true, i.e. the same order on 1-byte strings) */
/* specification order: unsigned lexicographic, proper prefix first */
static int lex_cmp(const uint8_t *a, int32_t al, const uint8_t *b, int32_t bl) {
  for (int32_t i = 0; i < CQV_MAXLEN; i++) {
    if (i >= al || i >= bl) break;
    if (a[i] != b[i]) return a[i] < b[i] ? -1 : 1;
  }
  return (al > bl) - (al < bl);
}

/* Lemma (byte arrays, every length <= CQV_MAXLEN): no false negative w.r.t. lexicographic order */
void h_rgm_bytes(void) {
  int32_t l1 = nondet_i32(), l2 = nondet_i32(), l3 = nondet_i32(), l4 = nondet_i32();
  __CPROVER_assume(l1 <= CQV_MAXLEN && l2 <= CQV_MAXLEN && l3 <= CQV_MAXLEN && l4 <= CQV_MAXLEN);
  struct rg_world w = mk_world(l1, l2, l3, l4, nondet_unsigned());
  int32_t vl = nondet_i32(), xl = nondet_i32();
  __CPROVER_assume(vl >= 0 && vl <= CQV_MAXLEN && xl >= 0 && xl <= CQV_MAXLEN);
  uint8_t *value = malloc((size_t)vl), *x = malloc((size_t)xl);
  __CPROVER_assume(value != NULL && x != NULL);
  int op = nondet_int();
  bool mm = nondet_bool();
  carquet_status_t rc = carquet_reader_row_group_matches(w.reader, w.rg, w.col, (carquet_compare_op_t)op, value, vl, &mm);
  if (w.st == NULL) {
    __CPROVER_assert(mm, "indices out of range: conservative answer");
    return;
  }
  __CPROVER_assert(rc == CARQUET_OK, "valid indices succeed");
  parquet_statistics_t *st = w.st;
  _Bool have = w.chunk->has_metadata && w.chunk->metadata.has_statistics;
  _Bool new_pair = PRESENT(st->min_value, st->min_value_len) && PRESENT(st->max_value, st->max_value_len);
  _Bool old_pair = PRESENT(st->min_deprecated, st->min_deprecated_len) && PRESENT(st->max_deprecated, st->max_deprecated_len);
  if (!have || (!new_pair && !old_pair)) {
    __CPROVER_assert(mm, "absent statistics mean 'might match'");
    CQV_CANARY("absent statistics path");
    return;
  }
  _Bool bounds = 1;
  if (PRESENT(st->min_value, st->min_value_len)) bounds = bounds && lex_cmp(st->min_value, st->min_value_len, x, xl) <= 0;
  if (PRESENT(st->max_value, st->max_value_len)) bounds = bounds && lex_cmp(x, xl, st->max_value, st->max_value_len) <= 0;
  if (PRESENT(st->min_deprecated, st->min_deprecated_len)) bounds = bounds && lex_cmp(st->min_deprecated, st->min_deprecated_len, x, xl) <= 0;
  if (PRESENT(st->max_deprecated, st->max_deprecated_len)) bounds = bounds && lex_cmp(x, xl, st->max_deprecated, st->max_deprecated_len) <= 0;
  int c = lex_cmp(x, xl, value, vl);
  if (bounds) {
    if (op == CARQUET_COMPARE_EQ && c == 0) { __CPROVER_assert(mm, "EQ: no false negative"); CQV_CANARY("EQ match"); }
    if (op == CARQUET_COMPARE_NE && c != 0) { __CPROVER_assert(mm, "NE: no false negative"); CQV_CANARY("NE match"); }
    if (op == CARQUET_COMPARE_LT && c < 0) { __CPROVER_assert(mm, "LT: no false negative"); CQV_CANARY("LT match"); }
    if (op == CARQUET_COMPARE_LE && c <= 0) { __CPROVER_assert(mm, "LE: no false negative"); CQV_CANARY("LE match"); }
    if (op == CARQUET_COMPARE_GT && c > 0) { __CPROVER_assert(mm, "GT: no false negative"); CQV_CANARY("GT match"); }
    if (op == CARQUET_COMPARE_GE && c >= 0) { __CPROVER_assert(mm, "GE: no false negative"); CQV_CANARY("GE match"); }
    if (op < 0 || op > 5) __CPROVER_assert(mm, "unknown operator: conservative answer");
  }
  if (!mm) CQV_CANARY("pruning is possible");
  if (new_pair) CQV_CANARY("new fields used"); else CQV_CANARY("deprecated fields used");
  CQV_CANARY("rgm bytes end");
}

/* Memory safety, byte arrays of unbounded length (memcmp = contract stub): reads stay inside the
 * value (value_size bytes) and inside each statistics field (its length). */
void h_rgm_bytes_safety(void) {
  int32_t l1 = nondet_i32(), l2 = nondet_i32(), l3 = nondet_i32(), l4 = nondet_i32();
  struct rg_world w = mk_world(l1, l2, l3, l4, nondet_unsigned());
  int32_t vl = nondet_i32();
  __CPROVER_assume(vl >= 0);
  uint8_t *value = malloc((size_t)vl);
  __CPROVER_assume(value != NULL);
  int op = nondet_int();
  bool mm = nondet_bool();
  carquet_status_t rc = carquet_reader_row_group_matches(w.reader, w.rg, w.col, (carquet_compare_op_t)op, value, vl, &mm);
  if (w.st != NULL && rc == CARQUET_OK && !mm) CQV_CANARY("bytes safety: pruned");
  CQV_CANARY("rgm bytes safety end");
}
#endif

/* carquet_reader_column_statistics: each of the four (pointer, length) pairs of the thrift Statistics struct is
 * reported from its own field: new pair (min_value, max_value) when both are present, else the deprecated pair
 * (min, max) when both are present, else no min/max; counts pass through.  Four distinct objects, four
 * independent lengths. */
void h_column_statistics(void) {
  int32_t l1 = nondet_i32(), l2 = nondet_i32(), l3 = nondet_i32(), l4 = nondet_i32();
  unsigned present = nondet_unsigned();
  struct rg_world w = mk_world(l1, l2, l3, l4, present);
  carquet_column_statistics_t out;
  carquet_status_t rc = carquet_reader_column_statistics(w.reader, w.rg, w.col, &out);
  if (w.st == NULL) {
    __CPROVER_assert(rc != CARQUET_OK, "out-of-range indices are an error");
    CQV_CANARY("colstats: out of range");
    return;
  }
  __CPROVER_assert(rc == CARQUET_OK, "valid indices succeed");
  parquet_statistics_t *st = w.st;
  _Bool have = w.chunk->has_metadata && w.chunk->metadata.has_statistics;
  _Bool new_pair = PRESENT(st->min_value, st->min_value_len) && PRESENT(st->max_value, st->max_value_len);
  _Bool old_pair = PRESENT(st->min_deprecated, st->min_deprecated_len) && PRESENT(st->max_deprecated, st->max_deprecated_len);
  if (!have || (!new_pair && !old_pair)) {
    __CPROVER_assert(!out.has_min_max, "no complete pair: no min/max reported");
    CQV_CANARY("colstats: none");
  } else if (new_pair) {
    __CPROVER_assert(out.has_min_max, "new pair reported");
    __CPROVER_assert(out.min_value == st->min_value && out.min_value_size == st->min_value_len, "min comes from field 6 (min_value) with its own length");
    __CPROVER_assert(out.max_value == st->max_value && out.max_value_size == st->max_value_len, "max comes from field 5 (max_value) with its own length");
    CQV_CANARY("colstats: new pair");
  } else {
    __CPROVER_assert(out.has_min_max, "deprecated pair reported");
    __CPROVER_assert(out.min_value == st->min_deprecated && out.min_value_size == st->min_deprecated_len, "min comes from field 2 (min) with its own length");
    __CPROVER_assert(out.max_value == st->max_deprecated && out.max_value_size == st->max_deprecated_len, "max comes from field 1 (max) with its own length");
    CQV_CANARY("colstats: deprecated pair");
  }
  if (have) {
    parquet_statistics_t *ps = st;
    __CPROVER_assert((out.has_null_count != 0) == (ps->has_null_count != 0) && (!ps->has_null_count || out.null_count == ps->null_count), "null_count passes through");
    __CPROVER_assert((out.has_distinct_count != 0) == (ps->has_distinct_count != 0) && (!ps->has_distinct_count || out.distinct_count == ps->distinct_count), "distinct_count passes through");
  }
  if (w.chunk->has_metadata) __CPROVER_assert(out.num_values == w.chunk->metadata.num_values, "num_values passes through");
  CQV_CANARY("colstats end");
}

/* filter_row_groups: contract in contracts/stats_reader.ovl, row_group_matches replaced by its contract */
int32_t carquet_reader_num_row_groups(const carquet_reader_t *reader) { return reader->metadata.num_row_groups; }

void h_filter_row_groups(void) {
  const carquet_reader_t *reader = nondet_ptr();
  const void *value = nondet_ptr();
  int32_t col = nondet_i32(), vs = nondet_i32(), max = nondet_i32();
  /* caller's array of exactly max entries (a typed object: cheap for the solver); garbage pointer when max <= 0 */
  int32_t *out = max > 0 ? malloc(sizeof(int32_t) * (size_t)max) : nondet_ptr();
  __CPROVER_assume(max <= 0 || out != NULL);
  int op = nondet_int();
  int32_t n = carquet_reader_filter_row_groups(reader, col, (carquet_compare_op_t)op, value, vs, out, max);
  if (n > 0) CQV_CANARY("filter returns a non-empty list");
  if (n == max) CQV_CANARY("filter can hit the cap");
  CQV_CANARY("filter end");
}
