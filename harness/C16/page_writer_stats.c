/* C16: running page statistics of the page writer (src/writer/page_writer.c, real file included).
 * Contracts: contracts/page_writer_stats.ovl.  CQV_PW selects the function under proof:
 * 0 i32, 1 i64, 2 float, 3 double. */
#include "cqv.h"
#include <stdlib.h>
#include <stdbool.h>
#ifndef CQV_PW
#define CQV_PW 0
#endif
#define CQV_MAXN ((int64_t)1 << 36)
int64_t cqv_k;
_Bool cqv_old_has;
int32_t cqv_old_min_i32, cqv_old_max_i32;
int64_t cqv_old_min_i64, cqv_old_max_i64;
float cqv_old_min_float, cqv_old_max_float;
double cqv_old_min_double, cqv_old_max_double;
#include "src/writer/page_writer.c"

#if CQV_PW == 0
typedef int32_t pval_t;
#define UPDATE update_statistics_i32
#elif CQV_PW == 1
typedef int64_t pval_t;
#define UPDATE update_statistics_i64
#elif CQV_PW == 2
typedef float pval_t;
#define UPDATE update_statistics_float
#define PW_FP 1
#else
typedef double pval_t;
#define UPDATE update_statistics_double
#define PW_FP 1
#endif

void h_update_statistics(void) {
  carquet_page_writer_t *w = malloc(sizeof(*w));
  __CPROVER_assume(w != NULL);
  int64_t n = nondet_i64();
  __CPROVER_assume(n <= CQV_MAXN);
  pval_t *values = n > 0 ? malloc(sizeof(pval_t) * (size_t)n) : nondet_ptr();
  __CPROVER_assume(n <= 0 || values != NULL);
  UPDATE(w, values, n);
  if (w->has_min_max) CQV_CANARY("update_statistics: has bounds");
  CQV_CANARY("update_statistics returns");
}

#ifdef PW_FP
/* concrete sequence on a real page writer: reset state, 1..3 values; scalar inputs => native replay */
static pval_t pw_from_bits(uint64_t b) {
  pval_t v; uint8_t *q = (uint8_t *)&v;
  for (unsigned i = 0; i < sizeof(pval_t); i++) q[i] = (uint8_t)(b >> (8 * i));
  return v;
}
void h_pw_fp_seq(void) {
  uint64_t v0bits = nondet_u64(), v1bits = nondet_u64(), v2bits = nondet_u64();
  int64_t n = nondet_i64();
  __CPROVER_assume(n >= 1 && n <= 3);
  carquet_page_writer_t *w = malloc(sizeof(*w));
  __CPROVER_assume(w != NULL);
  w->has_min_max = false;
  pval_t vals[3] = { pw_from_bits(v0bits), pw_from_bits(v1bits), pw_from_bits(v2bits) };
  UPDATE(w, vals, n);
  pval_t mn = *(pval_t *)w->min_value, mx = *(pval_t *)w->max_value;
  if (w->has_min_max) __CPROVER_assert(w->min_max_size == sizeof(pval_t) && mn == mn && mx == mx, "bounds have the type's width and are not NaN");
  for (int i = 0; i < 3; i++) {
    if (i < n && vals[i] == vals[i]) {
      __CPROVER_assert(w->has_min_max, "a number was seen: bounds exist");
      __CPROVER_assert(mn <= vals[i], "min <= every non-NaN value (IEEE)");
      __CPROVER_assert(vals[i] <= mx, "every non-NaN value <= max (IEEE)");
      CQV_CANARY("pw fp seq: number seen");
    }
  }
  CQV_CANARY("pw fp seq end");
}
#endif
