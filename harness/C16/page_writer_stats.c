/* C16: running page statistics of the page writer (src/writer/page_writer.c, real file included).
 * Contracts: contracts/page_writer_stats.ovl.  CQV_PW selects the function under proof:
 * 0 i32, 1 i64, 2 float, 3 double. */
#include "cqv.h"
#include <stdlib.h>
#include <stdbool.h>
#ifndef CQV_PW
#define CQV_PW 0
#endif
#define CQV_MAXN ((int64_t)1 << 36)
int64_t cqv_k;
_Bool cqv_old_has;
int32_t cqv_old_min_i32, cqv_old_max_i32;
int64_t cqv_old_min_i64, cqv_old_max_i64;
float cqv_old_min_float, cqv_old_max_float;
double cqv_old_min_double, cqv_old_max_double;
#include "src/writer/page_writer.c"

#if CQV_PW == 0
typedef int32_t pval_t;
#define UPDATE update_statistics_i32
#elif CQV_PW == 1
typedef int64_t pval_t;
#define UPDATE update_statistics_i64
#elif CQV_PW == 2
typedef float pval_t;
#define UPDATE update_statistics_float
#define PW_FP 1
#else
typedef double pval_t;
#define UPDATE update_statistics_double
#define PW_FP 1
#endif

void h_update_statistics(void) {
  carquet_page_writer_t *w = malloc(sizeof(*w));
  __CPROVER_assume(w != NULL);
  int64_t n = nondet_i64();
  __CPROVER_assume(n <= CQV_MAXN);
  pval_t *values = n > 0 ? malloc(sizeof(pval_t) * (size_t)n) : nondet_ptr();
  __CPROVER_assume(n <= 0 || values != NULL);
  UPDATE(w, values, n);
  if (w->has_min_max) CQV_CANARY("update_statistics: has bounds");
  CQV_CANARY("update_statistics returns");
}

#ifdef PW_FP
/* concrete sequence on a real page writer: reset state, 1..3 values; scalar inputs => native replay */
static pval_t pw_from_bits(uint64_t b) {
  pval_t v; uint8_t *q = (uint8_t *)&v;
  for (unsigned i = 0; i < sizeof(pval_t); i++) q[i] = (uint8_t)(b >> (8 * i));
  return v;
}
void h_pw_fp_seq(void) {
  uint64_t v0bits = nondet_u64(), v1bits = nondet_u64(), v2bits = nondet_u64();
  int64_t n = nondet_i64();
  __CPROVER_assume(n >= 1 && n <= 3);
  carquet_page_writer_t *w = malloc(sizeof(*w));
  __CPROVER_assume(w != NULL);
  w->has_min_max = false;
  pval_t vals[3] = { pw_from_bits(v0bits), pw_from_bits(v1bits), pw_from_bits(v2bits) };
  UPDATE(w, vals, n);
  pval_t mn = *(pval_t *)w->min_value, mx = *(pval_t *)w->max_value;
  if (w->has_min_max) __CPROVER_assert(w->min_max_size == sizeof(pval_t) && mn == mn && mx == mx, "bounds have the type's width and are not NaN");
  for (int i = 0; i < 3; i++) {
    if (i < n && vals[i] == vals[i]) {
      __CPROVER_assert(w->has_min_max, "a number was seen: bounds exist");
      __CPROVER_assert(mn <= vals[i], "min <= every non-NaN value (IEEE)");
      __CPROVER_assert(vals[i] <= mx, "every non-NaN value <= max (IEEE)");
      CQV_CANARY("pw fp seq: number seen");
    }
  }
  CQV_CANARY("pw fp seq end");
}
#endif

#ifdef CQV_PW_NULLS
/* C16 "null_count equals the number of nulls" for the page-header statistics: the counter the page writer
 * keeps (written as Statistics.null_count by carquet_page_writer_finalize, returned by
 * carquet_page_writer_null_count / _get_statistics).  Real reset + add_values; bounded: <= 2 add_values calls
 * of <= 4 rows each after a reset, any earlier page content.  Encoders/buffers have no body here (results
 * arbitrary): only the counting is under test. */
/* assumed contracts of the callees (results arbitrary, no effect on the page writer's counters);
 * ghost pw_callee_failed: some callee reported a failure since the harness reset it */
static _Bool pw_callee_failed;
static carquet_status_t pw_any(void) { if (nondet_int()) return CARQUET_OK; pw_callee_failed = 1; return CARQUET_ERROR_OUT_OF_MEMORY; }
carquet_status_t carquet_encode_plain_boolean(const uint8_t *v, int64_t n, carquet_buffer_t *o) { return pw_any(); }
carquet_status_t carquet_encode_plain_int32(const int32_t *v, int64_t n, carquet_buffer_t *o) { return pw_any(); }
carquet_status_t carquet_encode_plain_byte_array(const carquet_byte_array_t *v, int64_t n, carquet_buffer_t *o) { return pw_any(); }
void carquet_buffer_clear(carquet_buffer_t *b) { b->size = 0; }
void carquet_buffer_init(carquet_buffer_t *b) { b->data = NULL; b->size = 0; b->capacity = 0; }
void carquet_buffer_destroy(carquet_buffer_t *b) { }
carquet_status_t carquet_buffer_append(carquet_buffer_t *b, const void *d, size_t n) { return pw_any(); }
carquet_status_t carquet_rle_encode_all(const uint32_t *v, int64_t n, int bw, carquet_buffer_t *o) { return pw_any(); }
static int64_t pw_nulls_of(const int16_t *def, int64_t n, int16_t md, int has_def) {
  int64_t c = 0;
  if (!has_def || md <= 0) return 0;
  for (int64_t i = 0; i < 4; i++) if (i < n && def[i] != md) c++;
  return c;
}
void h_pw_null_count(void) {
  carquet_page_writer_t *w = malloc(sizeof(*w));
  __CPROVER_assume(w != NULL);
  /* arbitrary earlier page: any counters, any statistics */
  __CPROVER_assume(w->max_def_level >= 0 && w->max_def_level <= 3 && w->max_rep_level == 0);
  __CPROVER_assume(w->type == CARQUET_PHYSICAL_BYTE_ARRAY || w->type == CARQUET_PHYSICAL_INT32 || w->type == CARQUET_PHYSICAL_BOOLEAN);
  /* frame of reset: configuration and options are per writer, not per page */
  bool crc0 = w->write_crc, st0 = w->write_statistics; carquet_physical_type_t ty0 = w->type; carquet_compression_t co0 = w->compression;
  carquet_encoding_t en0 = w->encoding; int16_t md0 = w->max_def_level, mr0 = w->max_rep_level; int32_t tl0 = w->type_length;
  carquet_page_writer_reset(w);
  __CPROVER_assert(w->write_crc == crc0 && w->write_statistics == st0, "C14/C16: reset keeps the writer's options (write_crc, write_statistics): every page of a chunk is written the same way");
  __CPROVER_assert(w->type == ty0 && w->compression == co0 && w->encoding == en0 && w->max_def_level == md0 && w->max_rep_level == mr0 && w->type_length == tl0,
                   "reset keeps the column configuration");
  __CPROVER_assert(w->num_nulls == 0 && w->num_values == 0 && !w->has_min_max, "C16: reset starts a page with zero rows, zero nulls and no bounds");
  __CPROVER_assert(carquet_page_writer_null_count(w) == 0, "C16: null_count of a fresh page is 0");
  int16_t d1[4], d2[4];
  int32_t vals[4];
  int64_t n1 = nondet_i64(), n2 = nondet_i64();
  int has1 = nondet_bool(), has2 = nondet_bool(), two = nondet_bool();
  __CPROVER_assume(n1 >= 0 && n1 <= 4 && n2 >= 0 && n2 <= 4);
  for (int i = 0; i < 4; i++) { __CPROVER_assume(d1[i] >= 0 && d1[i] <= w->max_def_level); __CPROVER_assume(d2[i] >= 0 && d2[i] <= w->max_def_level); }
  int16_t md = w->max_def_level;
  pw_callee_failed = 0;
  carquet_status_t st1 = carquet_page_writer_add_values(w, vals, n1, has1 ? d1 : NULL, NULL);
  __CPROVER_assert(st1 != CARQUET_OK || !pw_callee_failed, "C19: add_values returns OK only if level encoding, value encoding and every buffer append succeeded");
  if (st1 != CARQUET_OK) { CQV_CANARY("pw nulls: add_values can fail"); free(w); return; }
  int64_t expect = pw_nulls_of(d1, n1, md, has1);
  int64_t rows = n1;
  if (two) {
    pw_callee_failed = 0;
    carquet_status_t st2 = carquet_page_writer_add_values(w, vals, n2, has2 ? d2 : NULL, NULL);
    __CPROVER_assert(st2 != CARQUET_OK || !pw_callee_failed, "C19: add_values (second batch) returns OK only if every callee succeeded");
    if (st2 != CARQUET_OK) { free(w); return; }
    expect += pw_nulls_of(d2, n2, md, has2);
    rows += n2;
    CQV_CANARY("pw nulls: two batches");
  }
  __CPROVER_assert(w->num_nulls == expect, "C16: the page's null count is the number of rows whose definition level is below the maximum");
  __CPROVER_assert(carquet_page_writer_null_count(w) == expect, "C16: carquet_page_writer_null_count reports that number");
  __CPROVER_assert(w->num_values == rows, "C16: the page's row count is the number of rows added since the reset");
  if (expect > 0) CQV_CANARY("pw nulls: some nulls");
  CQV_CANARY("pw nulls end");
}
#endif
