/* C16: page-level might-match (src/metadata/page_index.c, real file included).
 * CQV_PT = physical type: 1 INT32, 2 INT64, 4 FLOAT, 5 DOUBLE (plain little-endian bounds of the type's width, compared by
 * value), 6 = BYTE_ARRAY (lexicographic, len <= 8). */
#include "cqv.h"
#include <stdlib.h>
#include <stdbool.h>
#include "src/metadata/page_index.c"
#ifndef CQV_PT
#define CQV_PT 1
#endif

static carquet_column_index_builder_t *mk_index(uint8_t *pmin, int32_t pminl, uint8_t *pmax, int32_t pmaxl, bool null_page) {
  carquet_column_index_builder_t *b = malloc(sizeof(*b));
  __CPROVER_assume(b != NULL);
  b->type = (carquet_physical_type_t)CQV_PT;
  b->num_pages = 1; b->capacity = 1;
  b->min_values = malloc(sizeof(uint8_t *)); b->max_values = malloc(sizeof(uint8_t *));
  b->min_value_lens = malloc(sizeof(int32_t)); b->max_value_lens = malloc(sizeof(int32_t));
  b->null_pages = malloc(sizeof(bool)); b->null_counts = malloc(sizeof(int64_t));
  __CPROVER_assume(b->min_values && b->max_values && b->min_value_lens && b->max_value_lens && b->null_pages && b->null_counts);
  b->min_values[0] = pmin; b->min_value_lens[0] = pmin ? pminl : 0;
  b->max_values[0] = pmax; b->max_value_lens[0] = pmax ? pmaxl : 0;
  b->null_pages[0] = null_page;
  return b;
}
#if CQV_PT == 1
typedef int32_t pv_t;
#elif CQV_PT == 2
typedef int64_t pv_t;
#elif CQV_PT == 4
typedef float pv_t;
#elif CQV_PT == 5
typedef double pv_t;
#endif

#if CQV_PT != 6
/* plain encoding of a numeric bound: the little-endian bytes of the value, exact-size heap object */
static pv_t pv_from_bits(uint64_t b) {
  pv_t v; uint8_t *q = (uint8_t *)&v;
  for (unsigned i = 0; i < sizeof(pv_t); i++) q[i] = (uint8_t)(b >> (8 * i));
  return v;
}
static uint8_t *le_bytes(uint64_t b) {
  uint8_t *p = malloc(sizeof(pv_t));
  __CPROVER_assume(p != NULL);
  for (unsigned i = 0; i < sizeof(pv_t); i++) p[i] = (uint8_t)(b >> (8 * i));
  return p;
}
/* numeric column (signed order for INT32/INT64, IEEE order for FLOAT/DOUBLE): a page whose true bounds enclose
 * a value x that lies in the query range must be reported as 'might match' */
void h_page_might_match_num(void) {
  uint64_t pmin = nondet_u64(), pmax = nondet_u64(), qmin = nondet_u64(), qmax = nondet_u64(), x = nondet_u64();
  unsigned present = nondet_unsigned();
  const int32_t L = (int32_t)sizeof(pv_t);
  carquet_column_index_builder_t *b = mk_index((present & 1) ? le_bytes(pmin) : NULL, L, (present & 2) ? le_bytes(pmax) : NULL, L, false);
  uint8_t *qmn = (present & 4) ? le_bytes(qmin) : NULL, *qmx = (present & 8) ? le_bytes(qmax) : NULL;
  bool mm = nondet_bool();
  carquet_status_t st = carquet_column_index_page_might_match(b, 0, qmn, qmx, L, &mm);
  __CPROVER_assert(st == CARQUET_OK, "valid page index succeeds");
  pv_t xv = pv_from_bits(x);
  _Bool in_page = (!(present & 1) || pv_from_bits(pmin) <= xv) && (!(present & 2) || xv <= pv_from_bits(pmax));
  _Bool in_query = (!(present & 4) || pv_from_bits(qmin) <= xv) && (!(present & 8) || xv <= pv_from_bits(qmax));
  if (in_page && in_query) { __CPROVER_assert(mm, "page holding a value inside the query range might match"); CQV_CANARY("pmm: witness"); }
  if (!mm) CQV_CANARY("pmm: can prune");
  CQV_CANARY("pmm num end");
}
#else
#define ML 8
static int lex_cmp(const uint8_t *a, int32_t al, const uint8_t *b, int32_t bl) {
  for (int32_t i = 0; i < ML; i++) {
    if (i >= al || i >= bl) break;
    if (a[i] != b[i]) return a[i] < b[i] ? -1 : 1;
  }
  return (al > bl) - (al < bl);
}
static uint8_t *any_bytes(int32_t l) { uint8_t *p = malloc((size_t)l); __CPROVER_assume(p != NULL); return p; }
void h_page_might_match_bytes(void) {
  int32_t pminl = nondet_i32(), pmaxl = nondet_i32(), ql = nondet_i32(), xl = nondet_i32();
  __CPROVER_assume(pminl >= 1 && pminl <= ML && pmaxl >= 1 && pmaxl <= ML && ql >= 0 && ql <= ML && xl >= 0 && xl <= ML);
  unsigned present = nondet_unsigned();
  uint8_t *pmin = (present & 1) ? any_bytes(pminl) : NULL, *pmax = (present & 2) ? any_bytes(pmaxl) : NULL;
  uint8_t *qmn = (present & 4) ? any_bytes(ql) : NULL, *qmx = (present & 8) ? any_bytes(ql) : NULL;
  uint8_t *x = any_bytes(xl);
  carquet_column_index_builder_t *b = mk_index(pmin, pminl, pmax, pmaxl, false);
  bool mm = nondet_bool();
  carquet_status_t st = carquet_column_index_page_might_match(b, 0, qmn, qmx, ql, &mm);
  __CPROVER_assert(st == CARQUET_OK, "valid page index succeeds");
  _Bool in_page = (!pmin || lex_cmp(pmin, pminl, x, xl) <= 0) && (!pmax || lex_cmp(x, xl, pmax, pmaxl) <= 0);
  _Bool in_query = (!qmn || lex_cmp(qmn, ql, x, xl) <= 0) && (!qmx || lex_cmp(x, xl, qmx, ql) <= 0);
  if (in_page && in_query) { __CPROVER_assert(mm, "page holding a value inside the query range might match"); CQV_CANARY("pmm: witness"); }
  if (!mm) CQV_CANARY("pmm: can prune");
  CQV_CANARY("pmm bytes end");
}
#endif
