/* C19 / C04: src/core/buffer.c (+ the static inline helpers of buffer.h) under allocation failure.
 *
 * buffer.c has no loops, so every job here is "the harness is the contract": the buffer is built
 * in an ARBITRARY state satisfying the representation invariant, the real function is called, and
 * the property-level postcondition is asserted.  With --malloc-may-fail --malloc-fail-null any
 * subset of the malloc/realloc requests made by the code under test returns NULL; with
 * --memory-leak-check every entry ends by destroying the buffer, so a block that is neither
 * freed nor still owned by the buffer is reported.
 *
 * Representation invariant INV(b):
 *   size <= capacity <= 2^40;  data == NULL ==> capacity == 0;
 *   data != NULL ==> [data, data+capacity) readable and writable;
 *   owns_data && data != NULL ==> data is the base of a live heap object of exactly capacity bytes.
 *
 * Contents are followed with ghost indices (no quantifier): g_k is an arbitrary index into the
 * buffer; the memcpy/memset models below keep exactly ONE arbitrary byte (index g_mc_k of the
 * copied range) and havoc all others, which is a sound under-specification of the libc
 * functions: a fact proved for every g_mc_k holds for the real memcpy/memset. */
#include "cqv.h"
#include <stdlib.h>
#include <string.h>

size_t g_mc_k; /* arbitrary ghost index into the range of every memcpy/memset */
/* contract (enforce) jobs: the buffer is created by the contract's requires, so the harness cannot
 * name "old size"; there the kept byte is the one that lands on byte cqv_buf_k of the destination
 * OBJECT (still one arbitrary byte per call: cqv_buf_k is arbitrary) */
size_t cqv_buf_k;
_Bool g_mc_tie;

void *memcpy(void *dst, const void *src, size_t n) {
  __CPROVER_precondition(__CPROVER_r_ok(src, n), "memcpy src readable");
  __CPROVER_precondition(__CPROVER_w_ok(dst, n), "memcpy dst writable");
  if (n != 0) {
    size_t kk = g_mc_tie ? cqv_buf_k - (size_t)__CPROVER_POINTER_OFFSET(dst) : g_mc_k;
    uint8_t keep = (kk < n) ? ((const uint8_t *)src)[kk] : 0;
    __CPROVER_havoc_slice(dst, n);
    /* the kept byte is written with the same primitive havoc_slice uses (array_replace): under
     * --enforce-contract a plain store into the block realloc just returned is rejected by the
     * legacy assigns check, which cannot see realloc's allocation (library body not yet linked);
     * the range is covered by the w_ok precondition above */
    if (kk < n) { uint8_t one[1]; one[0] = keep; __CPROVER_array_replace((uint8_t *)dst + kk, one); }
  }
  return dst;
}

void *memset(void *dst, int c, size_t n) {
  __CPROVER_precondition(__CPROVER_w_ok(dst, n), "memset dst writable");
  if (n != 0) {
    __CPROVER_havoc_slice(dst, n);
    if (g_mc_k < n) ((uint8_t *)dst)[g_mc_k] = (uint8_t)c;
  }
  return dst;
}

#include "src/core/buffer.c"

/* Size domain.  Proof build: every size up to 2^40.  Vacuity build (-DCQV_CANARIES, where every
 * canary must FAIL and cbmc builds a trace for each): small sizes, because concretising a 2^40-byte
 * havocked range in a trace exhausts memory; reachability of a branch does not depend on the size. */
#ifdef CQV_CANARIES
#define H_MAXSZ ((size_t)10000)
#else
#define H_MAXSZ CQV_MAXBUF
#endif

/* ---- arbitrary invariant-satisfying buffer ------------------------------------------------ */
static uint8_t *g_wrap_base; /* caller-owned object below a non-owning buffer (freed by the harness) */
static carquet_buffer_t g_old; /* pre-state */
static size_t g_k;             /* arbitrary byte index */
static uint8_t g_old_k;        /* pre-state byte at g_k (if g_k < old capacity) */

/* arbitrary INV state; *wrap receives the caller-owned object of a non-owning buffer (else NULL) */
static void mk_buf_raw(carquet_buffer_t *b, uint8_t **wrap, _Bool must_own) {
  size_t cap = nondet_size_t(), size = nondet_size_t();
  __CPROVER_assume(cap <= H_MAXSZ && size <= cap);
  b->size = size;
  b->capacity = cap;
  *wrap = NULL;
  if (must_own || nondet_bool()) {
    b->owns_data = 1;
    if (cap == 0) {
      b->data = NULL;
    } else {
      b->data = malloc(cap);
      __CPROVER_assume(b->data != NULL);
    }
  } else {
    b->owns_data = 0;
    if (cap == 0 && nondet_bool()) {
      b->data = NULL;
    } else {
      *wrap = malloc(cap);
      __CPROVER_assume(*wrap != NULL);
      b->data = *wrap;
    }
  }
}

static void mk_buf_own(carquet_buffer_t *b, _Bool must_own) {
  mk_buf_raw(b, &g_wrap_base, must_own);
  g_old = *b;
  g_k = nondet_size_t();
  g_mc_k = nondet_size_t();
  if (g_k < b->capacity) g_old_k = b->data[g_k];
}
static void mk_buf(carquet_buffer_t *b) { mk_buf_own(b, 0); }

/* tie the ghost index of the memcpy/memset models to the buffer index g_k: g_k is either an old
 * byte (< old size) or the byte g_mc_k of the range written at the old end of the buffer */
#define TIE_GHOST_TO_APPEND() __CPROVER_assume(g_k < g_old.size || g_mc_k == g_k - g_old.size)

#define ASSERT_INV(b)                                                                                   \
  do {                                                                                                  \
    __CPROVER_assert((b)->size <= (b)->capacity, "inv: size <= capacity");                              \
    __CPROVER_assert((b)->data != NULL || (b)->capacity == 0, "inv: no data => capacity 0");            \
    __CPROVER_assert((b)->data == NULL || __CPROVER_rw_ok((b)->data, (b)->capacity),                    \
                     "inv: data holds capacity accessible bytes");                                      \
    __CPROVER_assert(!((b)->owns_data && (b)->data != NULL) ||                                          \
                         (__CPROVER_DYNAMIC_OBJECT((b)->data) && __CPROVER_POINTER_OFFSET((b)->data) == 0 && \
                          __CPROVER_OBJECT_SIZE((b)->data) == (b)->capacity),                           \
                     "inv: owned data is a whole heap object of exactly capacity bytes");               \
  } while (0)

#define ASSERT_UNCHANGED(b)                                                                             \
  do {                                                                                                  \
    __CPROVER_assert((b)->data == g_old.data && (b)->size == g_old.size &&                              \
                         (b)->capacity == g_old.capacity && (b)->owns_data == g_old.owns_data,          \
                     "failure/no-op leaves data pointer, size, capacity, ownership unchanged");         \
    __CPROVER_assert(!(g_k < g_old.capacity) || (b)->data[g_k] == g_old_k,                              \
                     "failure/no-op leaves every byte of the buffer unchanged (ghost index)");          \
  } while (0)

#define ASSERT_OLD_CONTENTS(b)                                                                          \
  __CPROVER_assert(!(g_k < g_old.size) || (b)->data[g_k] == g_old_k,                                    \
                   "old contents [0, old size) preserved (ghost index)")

/* a grown buffer: owned, capacity at least `need`, never smaller than before, a power of two >= 4096 */
#define ASSERT_GROWN(b, need)                                                                           \
  do {                                                                                                  \
    __CPROVER_assert((b)->capacity >= (need), "success: capacity covers the request");                  \
    __CPROVER_assert((b)->capacity >= g_old.capacity, "capacity never shrinks");                        \
    __CPROVER_assert((b)->capacity == g_old.capacity ? ((b)->data == g_old.data && (b)->owns_data == g_old.owns_data) \
                                                    : ((b)->owns_data && (b)->capacity >= 4096 &&       \
                                                       ((b)->capacity & ((b)->capacity - 1)) == 0 &&    \
                                                       ((b)->capacity >> 1) < ((need) > 4096 ? (need) : 4097)), \
                     "capacity unchanged (same block) or the next power of two >= max(request, 4096), owned"); \
  } while (0)

/* every entry ends here: the handle can be destroyed normally and nothing is leaked */
static void fin(carquet_buffer_t *b) {
  carquet_buffer_destroy(b);
  __CPROVER_assert(b->data == NULL && b->size == 0 && b->capacity == 0 && b->owns_data, "destroy leaves the empty state");
  if (g_wrap_base) free(g_wrap_base);
}

/* ---- reserve (= ensure_capacity) ---------------------------------------------------------- */
void h_reserve(void) {
  carquet_buffer_t b;
  mk_buf(&b);
  size_t n = nondet_size_t();
  __CPROVER_assume(n <= H_MAXSZ);
  carquet_status_t st = carquet_buffer_reserve(&b, n);
  ASSERT_INV(&b);
  if (st == CARQUET_OK) {
    __CPROVER_assert(b.size == g_old.size, "reserve keeps size");
    ASSERT_GROWN(&b, n);
    ASSERT_OLD_CONTENTS(&b);
    if (b.capacity != g_old.capacity) CQV_CANARY("reserve can grow");
    else CQV_CANARY("reserve can be a no-op");
  } else {
    __CPROVER_assert(st == CARQUET_ERROR_OUT_OF_MEMORY, "only failure is OUT_OF_MEMORY");
    __CPROVER_assert(n > g_old.capacity, "a request within capacity never fails");
    ASSERT_UNCHANGED(&b);
    CQV_CANARY("reserve can fail");
  }
  fin(&b);
  CQV_CANARY("reserve harness end");
}

/* ---- init / init_capacity / init_wrap / init_copy / destroy / clear ----------------------- */
void h_init(void) {
  carquet_buffer_t b; /* arbitrary garbage */
  g_wrap_base = NULL;
  carquet_buffer_init(&b);
  ASSERT_INV(&b);
  __CPROVER_assert(b.data == NULL && b.size == 0 && b.capacity == 0 && b.owns_data, "init gives the empty owned state");
  fin(&b);
  CQV_CANARY("init harness end");
}

void h_init_capacity(void) {
  carquet_buffer_t b;
  g_wrap_base = NULL;
  size_t n = nondet_size_t();
  __CPROVER_assume(n <= H_MAXSZ);
  carquet_status_t st = carquet_buffer_init_capacity(&b, n);
  ASSERT_INV(&b);
  __CPROVER_assert(b.size == 0, "init_capacity: size 0 in every outcome");
  if (st == CARQUET_OK) {
    __CPROVER_assert(b.capacity >= n && b.owns_data, "init_capacity success: owned, capacity covers the request");
    __CPROVER_assert(n != 0 || (b.data == NULL && b.capacity == 0), "init_capacity(0) allocates nothing");
    __CPROVER_assert(n == 0 || (b.capacity >= 4096 && (b.capacity & (b.capacity - 1)) == 0 && (b.capacity >> 1) < (n > 4096 ? n : 4097)),
                     "init_capacity: capacity is the next power of two >= max(request, 4096)");
    if (n) CQV_CANARY("init_capacity can allocate");
  } else {
    __CPROVER_assert(st == CARQUET_ERROR_OUT_OF_MEMORY && n > 0, "init_capacity fails only with OUT_OF_MEMORY on a non-zero request");
    __CPROVER_assert(b.data == NULL && b.capacity == 0 && b.owns_data, "init_capacity failure leaves the empty state");
    CQV_CANARY("init_capacity can fail");
  }
  fin(&b);
  CQV_CANARY("init_capacity harness end");
}

void h_init_wrap(void) {
  carquet_buffer_t b;
  size_t n = nondet_size_t();
  __CPROVER_assume(n <= H_MAXSZ);
  uint8_t *d = NULL;
  if (n != 0 || nondet_bool()) { d = malloc(n); __CPROVER_assume(d != NULL); }
  g_wrap_base = d;
  carquet_buffer_init_wrap(&b, d, n);
  ASSERT_INV(&b);
  __CPROVER_assert(b.data == d && b.size == n && b.capacity == n && !b.owns_data, "init_wrap: non-owning view of exactly the given bytes");
  /* a wrapped buffer never grows and never frees the caller's memory */
  size_t m = nondet_size_t();
  __CPROVER_assume(m <= H_MAXSZ);
  carquet_status_t st = carquet_buffer_reserve(&b, m);
  __CPROVER_assert(d == NULL || (b.data == d && b.capacity == n && b.size == n && !b.owns_data), "reserve on a wrapped buffer never moves it");
  __CPROVER_assert(d == NULL || (st == CARQUET_OK) == (m <= n), "wrapped buffer: reserve succeeds iff the request fits");
  ASSERT_INV(&b);
  fin(&b); /* frees d exactly once (double-free check) */
  CQV_CANARY("init_wrap harness end");
}

void h_init_copy(void) {
  carquet_buffer_t b;
  g_wrap_base = NULL;
  size_t n = nondet_size_t();
  __CPROVER_assume(n <= H_MAXSZ);
  uint8_t *src = NULL;
  if (nondet_bool()) { src = malloc(n); __CPROVER_assume(src != NULL); }
  g_k = nondet_size_t();
  g_mc_k = g_k;
  uint8_t src_k = (src && g_k < n) ? src[g_k] : 0;
  carquet_status_t st = carquet_buffer_init_copy(&b, src, n);
  ASSERT_INV(&b);
  if (st == CARQUET_OK) {
    __CPROVER_assert(b.capacity >= n && b.owns_data, "init_copy success: owned, capacity covers the request");
    __CPROVER_assert(b.size == ((src && n) ? n : 0), "init_copy success: size is the copied length");
    __CPROVER_assert(!(src && g_k < n) || b.data[g_k] == src_k, "init_copy success: contents equal the source (ghost index)");
    __CPROVER_assert(!(src && g_k < n) || src[g_k] == src_k, "init_copy leaves the source unchanged");
    if (src && n) CQV_CANARY("init_copy can copy");
  } else {
    __CPROVER_assert(st == CARQUET_ERROR_OUT_OF_MEMORY && n > 0, "init_copy fails only with OUT_OF_MEMORY on a non-zero request");
    __CPROVER_assert(b.data == NULL && b.capacity == 0 && b.size == 0 && b.owns_data, "init_copy failure leaves the empty state");
    CQV_CANARY("init_copy can fail");
  }
  fin(&b);
  if (src) free(src);
  CQV_CANARY("init_copy harness end");
}

void h_destroy(void) {
  carquet_buffer_t b;
  mk_buf(&b);
  carquet_buffer_destroy(&b);
  ASSERT_INV(&b);
  __CPROVER_assert(b.data == NULL && b.size == 0 && b.capacity == 0 && b.owns_data, "destroy leaves the empty owned state");
  __CPROVER_assert(g_wrap_base == NULL || __CPROVER_rw_ok(g_wrap_base, g_old.capacity), "destroy does not free memory it does not own");
  if (g_wrap_base) CQV_CANARY("destroy of a non-owning buffer");
  else if (g_old.data) CQV_CANARY("destroy of an owning buffer");
  fin(&b); /* second destroy is harmless */
  CQV_CANARY("destroy harness end");
}

void h_clear(void) {
  carquet_buffer_t b;
  mk_buf(&b);
  carquet_buffer_clear(&b);
  ASSERT_INV(&b);
  __CPROVER_assert(b.size == 0 && b.data == g_old.data && b.capacity == g_old.capacity && b.owns_data == g_old.owns_data,
                   "clear only sets size to 0");
  __CPROVER_assert(!(g_k < g_old.capacity) || b.data[g_k] == g_old_k, "clear does not touch the bytes");
  fin(&b);
  CQV_CANARY("clear harness end");
}

/* ---- resize / shrink_to_fit ---------------------------------------------------------------- */
void h_resize(void) {
  carquet_buffer_t b;
  mk_buf(&b);
  size_t n = nondet_size_t();
  __CPROVER_assume(n <= H_MAXSZ);
  TIE_GHOST_TO_APPEND();
  carquet_status_t st = carquet_buffer_resize(&b, n);
  ASSERT_INV(&b);
  if (st == CARQUET_OK) {
    __CPROVER_assert(b.size == n, "resize success: size is the request");
    ASSERT_GROWN(&b, n);
    __CPROVER_assert(!(g_k < g_old.size && g_k < n) || b.data[g_k] == g_old_k, "resize keeps the common prefix (ghost index)");
    __CPROVER_assert(!(g_k >= g_old.size && g_k < n) || b.data[g_k] == 0, "resize zero-fills the new tail (ghost index)");
    if (n > g_old.size && b.capacity != g_old.capacity) CQV_CANARY("resize can grow the block");
    if (n > g_old.size && g_k >= g_old.size && g_k < n) CQV_CANARY("resize zero-fill observed");
    if (n < g_old.size) CQV_CANARY("resize can truncate");
  } else {
    __CPROVER_assert(st == CARQUET_ERROR_OUT_OF_MEMORY && n > g_old.capacity, "resize fails only with OUT_OF_MEMORY beyond capacity");
    ASSERT_UNCHANGED(&b);
    CQV_CANARY("resize can fail");
  }
  fin(&b);
  CQV_CANARY("resize harness end");
}

void h_shrink_to_fit(void) {
  carquet_buffer_t b;
  mk_buf_own(&b, 1); /* documented precondition: assert(buf->owns_data) */
  carquet_status_t st = carquet_buffer_shrink_to_fit(&b);
  ASSERT_INV(&b);
  __CPROVER_assert(st == CARQUET_OK, "shrink_to_fit never fails (a failed realloc keeps the larger block)");
  __CPROVER_assert(b.size == g_old.size && b.owns_data, "shrink_to_fit keeps size and ownership");
  __CPROVER_assert(b.capacity == g_old.size || (b.capacity == g_old.capacity && b.data == g_old.data),
                   "shrink_to_fit: capacity is the size, or block untouched");
  __CPROVER_assert(g_old.size != 0 || (b.data == NULL && b.capacity == 0), "shrink_to_fit of an empty buffer releases the block");
  ASSERT_OLD_CONTENTS(&b);
  if (g_old.size && g_old.size < g_old.capacity && b.capacity == g_old.size) CQV_CANARY("shrink_to_fit can shrink");
  if (g_old.size && g_old.size < g_old.capacity && b.capacity != g_old.size) CQV_CANARY("shrink_to_fit can keep the larger block on realloc failure");
  if (g_old.size == 0 && g_old.data) CQV_CANARY("shrink_to_fit frees an empty buffer's block");
  fin(&b);
  CQV_CANARY("shrink_to_fit harness end");
}

/* ---- append family -------------------------------------------------------------------------- */
/* common postcondition of every append of n bytes; exp_k = the byte expected at g_k if it is new */
#define APPEND_POST(b, st, n, exp_k, what)                                                              \
  do {                                                                                                  \
    ASSERT_INV(b);                                                                                      \
    if ((st) == CARQUET_OK) {                                                                           \
      __CPROVER_assert((b)->size == g_old.size + (n), what ": success appends exactly n bytes");        \
      ASSERT_GROWN(b, g_old.size + (n));                                                                \
      ASSERT_OLD_CONTENTS(b);                                                                           \
      __CPROVER_assert(!(g_k >= g_old.size && g_k < g_old.size + (n)) || (b)->data[g_k] == (exp_k),     \
                       what ": appended bytes are the given ones (ghost index)");                       \
      if ((n) && (b)->capacity != g_old.capacity) CQV_CANARY(what " can grow");                         \
      if ((n) && (b)->capacity == g_old.capacity) CQV_CANARY(what " can append in place");              \
      if (g_k >= g_old.size && g_k < g_old.size + (n)) CQV_CANARY(what " new byte observed");           \
    } else {                                                                                            \
      __CPROVER_assert((st) == CARQUET_ERROR_OUT_OF_MEMORY && (n) > 0 && g_old.size + (n) > g_old.capacity, \
                       what ": fails only with OUT_OF_MEMORY when growth is needed");                   \
      ASSERT_UNCHANGED(b);                                                                              \
      CQV_CANARY(what " can fail");                                                                     \
    }                                                                                                   \
  } while (0)

void h_append(void) {
  carquet_buffer_t b;
  mk_buf(&b);
  size_t n = nondet_size_t();
  __CPROVER_assume(n <= H_MAXSZ);
  uint8_t *src = NULL;
  if (n != 0 || nondet_bool()) { src = malloc(n); __CPROVER_assume(src != NULL); }
  TIE_GHOST_TO_APPEND();
  uint8_t src_k = (g_mc_k < n) ? src[g_mc_k] : 0;
  carquet_status_t st = carquet_buffer_append(&b, src, n);
  APPEND_POST(&b, st, n, src_k, "append");
  __CPROVER_assert(!(g_mc_k < n) || src[g_mc_k] == src_k, "append leaves the source unchanged");
  fin(&b);
  if (src) free(src);
  CQV_CANARY("append harness end");
}

void h_append_byte(void) {
  carquet_buffer_t b;
  mk_buf(&b);
  uint8_t v = nondet_u8();
  TIE_GHOST_TO_APPEND();
  carquet_status_t st = carquet_buffer_append_byte(&b, v);
  APPEND_POST(&b, st, (size_t)1, v, "append_byte");
  fin(&b);
  CQV_CANARY("append_byte harness end");
}

void h_append_fill(void) {
  carquet_buffer_t b;
  mk_buf(&b);
  uint8_t v = nondet_u8();
  size_t n = nondet_size_t();
  __CPROVER_assume(n <= H_MAXSZ);
  TIE_GHOST_TO_APPEND();
  carquet_status_t st = carquet_buffer_append_fill(&b, v, n);
  APPEND_POST(&b, st, n, v, "append_fill");
  fin(&b);
  CQV_CANARY("append_fill harness end");
}

void h_append_u16(void) {
  carquet_buffer_t b;
  mk_buf(&b);
  uint16_t v = nondet_u16();
  TIE_GHOST_TO_APPEND();
  carquet_status_t st = carquet_buffer_append_u16_le(&b, v);
  APPEND_POST(&b, st, (size_t)2, (uint8_t)(g_mc_k < 2 ? v >> (g_mc_k << 3) : 0), "append_u16_le");
  fin(&b);
  CQV_CANARY("append_u16_le harness end");
}

void h_append_u32(void) {
  carquet_buffer_t b;
  mk_buf(&b);
  uint32_t v = nondet_u32();
  TIE_GHOST_TO_APPEND();
  carquet_status_t st = carquet_buffer_append_u32_le(&b, v);
  APPEND_POST(&b, st, (size_t)4, (uint8_t)(g_mc_k < 4 ? v >> (g_mc_k << 3) : 0), "append_u32_le");
  fin(&b);
  CQV_CANARY("append_u32_le harness end");
}

void h_append_u64(void) {
  carquet_buffer_t b;
  mk_buf(&b);
  uint64_t v = nondet_u64();
  TIE_GHOST_TO_APPEND();
  carquet_status_t st = carquet_buffer_append_u64_le(&b, v);
  APPEND_POST(&b, st, (size_t)8, (uint8_t)(g_mc_k < 8 ? v >> (g_mc_k << 3) : 0), "append_u64_le");
  fin(&b);
  CQV_CANARY("append_u64_le harness end");
}

void h_append_f32(void) {
  carquet_buffer_t b;
  mk_buf(&b);
  union { float f; uint32_t u; } x;
  x.u = nondet_u32();
  TIE_GHOST_TO_APPEND();
  carquet_status_t st = carquet_buffer_append_f32_le(&b, x.f);
  APPEND_POST(&b, st, (size_t)4, (uint8_t)(g_mc_k < 4 ? x.u >> (g_mc_k << 3) : 0), "append_f32_le");
  fin(&b);
  CQV_CANARY("append_f32_le harness end");
}

void h_append_f64(void) {
  carquet_buffer_t b;
  mk_buf(&b);
  union { double f; uint64_t u; } x;
  x.u = nondet_u64();
  TIE_GHOST_TO_APPEND();
  carquet_status_t st = carquet_buffer_append_f64_le(&b, x.f);
  APPEND_POST(&b, st, (size_t)8, (uint8_t)(g_mc_k < 8 ? x.u >> (g_mc_k << 3) : 0), "append_f64_le");
  fin(&b);
  CQV_CANARY("append_f64_le harness end");
}

void h_advance(void) {
  carquet_buffer_t b;
  mk_buf(&b);
  size_t n = nondet_size_t();
  __CPROVER_assume(n <= H_MAXSZ);
  uint8_t *p = carquet_buffer_advance(&b, n);
  ASSERT_INV(&b);
  if (p) {
    __CPROVER_assert(n > 0 && b.size == g_old.size + n && p == b.data + g_old.size, "advance success: size grows by n, pointer is the old end");
    __CPROVER_assert(__CPROVER_rw_ok(p, n), "advance success: the returned window of n bytes is writable");
    ASSERT_GROWN(&b, g_old.size + n);
    ASSERT_OLD_CONTENTS(&b);
    if (b.capacity != g_old.capacity) CQV_CANARY("advance can grow");
    else CQV_CANARY("advance can stay in place");
  } else {
    __CPROVER_assert(n == 0 || g_old.size + n > g_old.capacity, "advance returns NULL only for n == 0 or failed growth");
    ASSERT_UNCHANGED(&b);
    if (n) CQV_CANARY("advance can fail");
  }
  fin(&b);
  CQV_CANARY("advance harness end");
}

/* ---- detach / swap -------------------------------------------------------------------------- */
void h_detach(void) {
  carquet_buffer_t b;
  mk_buf(&b);
  size_t out = nondet_size_t();
  _Bool want = nondet_bool();
  uint8_t *p = carquet_buffer_detach(&b, want ? &out : NULL);
  ASSERT_INV(&b);
  __CPROVER_assert(p == g_old.data && (!want || out == g_old.size), "detach returns the block and its size");
  __CPROVER_assert(b.data == NULL && b.size == 0 && b.capacity == 0 && b.owns_data, "detach leaves the empty owned state");
  __CPROVER_assert(p == NULL || __CPROVER_rw_ok(p, g_old.capacity), "detached block is still live");
  __CPROVER_assert(!(g_k < g_old.capacity) || p[g_k] == g_old_k, "detached block keeps its bytes");
  fin(&b);
  if (p && g_old.owns_data) free(p); /* caller owns it now: exactly one free */
  CQV_CANARY("detach harness end");
}

void h_swap(void) {
  carquet_buffer_t a, b;
  uint8_t *wa, *wb;
  mk_buf_raw(&a, &wa, 0);
  mk_buf_raw(&b, &wb, 0);
  carquet_buffer_t oa = a, ob = b;
  carquet_buffer_swap(&a, &b);
  __CPROVER_assert(a.data == ob.data && a.size == ob.size && a.capacity == ob.capacity && a.owns_data == ob.owns_data, "swap: a gets b");
  __CPROVER_assert(b.data == oa.data && b.size == oa.size && b.capacity == oa.capacity && b.owns_data == oa.owns_data, "swap: b gets a");
  ASSERT_INV(&a);
  ASSERT_INV(&b);
  g_wrap_base = wa;
  fin(&a);
  g_wrap_base = wb;
  fin(&b);
  CQV_CANARY("swap harness end");
}

/* ---- reader cursor (C04: every read stays inside [data, data+size)) -------------------------- */
/* cursor invariant: pos <= size <= 2^40, data readable for size bytes (NULL only with size 0) */
static uint8_t *g_rd_base;
static carquet_buffer_reader_t g_rd_old;
static void mk_reader(carquet_buffer_reader_t *r) {
  size_t size = nondet_size_t(), pos = nondet_size_t();
  __CPROVER_assume(size <= H_MAXSZ && pos <= size);
  g_rd_base = NULL;
  if (size != 0 || nondet_bool()) { g_rd_base = malloc(size); __CPROVER_assume(g_rd_base != NULL); }
  r->data = g_rd_base;
  r->size = size;
  r->pos = pos;
  g_rd_old = *r;
  g_mc_k = nondet_size_t();
}
#define RD_INV(r) __CPROVER_assert((r)->data == g_rd_old.data && (r)->size == g_rd_old.size && (r)->pos <= (r)->size, \
                                   "reader: data/size fixed, pos <= size")
/* common post of a fixed/variable width read of n bytes */
#define RD_POST(r, st, n, what)                                                                         \
  do {                                                                                                  \
    RD_INV(r);                                                                                          \
    __CPROVER_assert(((st) == CARQUET_OK) == ((n) <= g_rd_old.size - g_rd_old.pos), what ": succeeds iff n bytes remain"); \
    __CPROVER_assert((st) == CARQUET_OK || (st) == CARQUET_ERROR_FILE_TRUNCATED, what ": only failure is FILE_TRUNCATED"); \
    __CPROVER_assert((r)->pos == g_rd_old.pos + ((st) == CARQUET_OK ? (n) : 0), what ": cursor advances by n on success, stays on failure"); \
    if ((st) == CARQUET_OK) CQV_CANARY(what " can succeed"); else CQV_CANARY(what " can fail");         \
  } while (0)

void h_reader_init(void) {
  carquet_buffer_t b;
  mk_buf(&b);
  carquet_buffer_reader_t r;
  _Bool null = nondet_bool();
  carquet_buffer_reader_init(&r, null ? NULL : &b);
  __CPROVER_assert(r.pos == 0 && r.data == (null ? NULL : b.data) && r.size == (null ? 0 : b.size), "reader_init: views exactly the written bytes");
  __CPROVER_assert(r.data == NULL ? r.size == 0 : __CPROVER_r_ok(r.data, r.size), "reader_init: the viewed range is readable");
  __CPROVER_assert(carquet_buffer_reader_remaining(&r) == r.size && carquet_buffer_reader_peek(&r) == r.data, "remaining/peek at start");
  uint8_t *d = nondet_bool() ? b.data : NULL;
  size_t n = d ? b.size : 0;
  carquet_buffer_reader_init_data(&r, d, n);
  __CPROVER_assert(r.pos == 0 && r.data == d && r.size == n, "reader_init_data: views exactly the given bytes");
  fin(&b);
  CQV_CANARY("reader_init harness end");
}

void h_reader_has(void) {
  carquet_buffer_reader_t r;
  mk_reader(&r);
  size_t n = nondet_size_t();
  __CPROVER_assume(n <= H_MAXSZ);
  __CPROVER_assert(carquet_buffer_reader_has(&r, n) == (n <= r.size - r.pos), "has(n) iff n bytes remain");
  __CPROVER_assert(carquet_buffer_reader_remaining(&r) == r.size - r.pos, "remaining");
  __CPROVER_assert(carquet_buffer_reader_peek(&r) == r.data + r.pos, "peek");
  if (g_rd_base) free(g_rd_base);
  CQV_CANARY("reader_has harness end");
}

void h_reader_read(void) {
  carquet_buffer_reader_t r;
  mk_reader(&r);
  size_t n = nondet_size_t();
  __CPROVER_assume(n <= H_MAXSZ);
  uint8_t *dst = malloc(n);
  __CPROVER_assume(dst != NULL);
#ifdef CQV_NO_NULL_ZERO_READ
  /* narrower domain of job c19_buffer_reader_read_nz: excludes ONLY the zero-length read on a cursor over
   * NULL data, where the real code evaluates NULL + 0 and calls memcpy(dest, NULL, 0) (formally UB;
   * the unrestricted job c19_buffer_reader_read keeps failing on it and is reported as a finding) */
  __CPROVER_assume(n != 0 || r.data != NULL);
#endif
  carquet_status_t st = carquet_buffer_reader_read(&r, dst, n);
  RD_POST(&r, st, n, "reader_read");
  __CPROVER_assert(!(st == CARQUET_OK && g_mc_k < n) || dst[g_mc_k] == g_rd_old.data[g_rd_old.pos + g_mc_k], "reader_read: bytes are those under the cursor (ghost index)");
  if (st == CARQUET_OK && g_mc_k < n) CQV_CANARY("reader_read byte observed");
  free(dst);
  if (g_rd_base) free(g_rd_base);
  CQV_CANARY("reader_read harness end");
}

void h_reader_skip(void) {
  carquet_buffer_reader_t r;
  mk_reader(&r);
  size_t n = nondet_size_t();
  __CPROVER_assume(n <= H_MAXSZ);
  carquet_status_t st = carquet_buffer_reader_skip(&r, n);
  RD_POST(&r, st, n, "reader_skip");
  if (g_rd_base) free(g_rd_base);
  CQV_CANARY("reader_skip harness end");
}

#ifndef CQV_WHICH
#define CQV_WHICH 0
#endif
/* fixed-width reads: value is the little-endian composition of the bytes under the cursor; the
 * output is untouched on failure */
void h_reader_fixed(void) {
  carquet_buffer_reader_t r;
  mk_reader(&r);
  __CPROVER_assume(g_mc_k < 8);
  carquet_status_t st;
  size_t w;
  uint64_t got = 0, init = nondet_u64();
#if CQV_WHICH == 0
  uint8_t v = (uint8_t)init; w = 1;
  st = carquet_buffer_reader_read_byte(&r, &v);
  got = v; init = (uint8_t)init;
#elif CQV_WHICH == 1
  uint16_t v = (uint16_t)init; w = 2;
  st = carquet_buffer_reader_read_u16_le(&r, &v);
  got = v; init = (uint16_t)init;
#elif CQV_WHICH == 2
  uint32_t v = (uint32_t)init; w = 4;
  st = carquet_buffer_reader_read_u32_le(&r, &v);
  got = v; init = (uint32_t)init;
#elif CQV_WHICH == 3
  uint64_t v = init; w = 8;
  st = carquet_buffer_reader_read_u64_le(&r, &v);
  got = v;
#elif CQV_WHICH == 4
  union { float f; uint32_t u; } v; v.u = (uint32_t)init; w = 4;
  st = carquet_buffer_reader_read_f32_le(&r, &v.f);
  got = v.u; init = (uint32_t)init;
#else
  union { double f; uint64_t u; } v; v.u = init; w = 8;
  st = carquet_buffer_reader_read_f64_le(&r, &v.f);
  got = v.u;
#endif
  RD_POST(&r, st, w, "fixed-width read");
  __CPROVER_assert(st == CARQUET_OK || got == init, "fixed-width read: output untouched on failure");
  __CPROVER_assert(!(st == CARQUET_OK && g_mc_k < w) || (uint8_t)(got >> (g_mc_k << 3)) == g_rd_old.data[g_rd_old.pos + g_mc_k],
                   "fixed-width read: little-endian value of the bytes under the cursor (ghost byte)");
  if (st == CARQUET_OK && g_mc_k < w) CQV_CANARY("fixed-width read byte observed");
  if (g_rd_base) free(g_rd_base);
  CQV_CANARY("fixed-width read harness end");
}

/* ---- enforce jobs of the contracts in contracts/buffer.ovl (reserve / append / advance) --------
 * The contract's requires build the buffer (is_fresh), so the harness passes arbitrary pointers;
 * only the append source is a real object (r_ok in the contract).  The ghost of the memcpy model is
 * tied to the contract's ghost index so that the appended byte at cqv_buf_k is the kept one. */
void h_contract_reserve(void) {
  carquet_buffer_t *b = nondet_ptr();
  size_t n = nondet_size_t();
  cqv_buf_track = nondet_bool();
  cqv_buf_k = nondet_size_t();
  cqv_buf_old_k = nondet_u8();
  g_mc_k = nondet_size_t();
  carquet_status_t st = carquet_buffer_reserve(b, n);
  if (st == CARQUET_OK) CQV_CANARY("contract reserve: can succeed"); else CQV_CANARY("contract reserve: can fail");
  CQV_CANARY("contract reserve harness end");
}

void h_contract_append(void) {
  carquet_buffer_t *b = nondet_ptr();
  size_t n = nondet_size_t();
  __CPROVER_assume(n <= H_MAXSZ);
  uint8_t *src = malloc(n);
  __CPROVER_assume(src != NULL);
  cqv_buf_track = nondet_bool();
  cqv_buf_k = nondet_size_t();
  cqv_buf_old_k = nondet_u8();
  g_mc_tie = 1;
  carquet_status_t st = carquet_buffer_append(b, src, n);
  if (st == CARQUET_OK) CQV_CANARY("contract append: can succeed"); else CQV_CANARY("contract append: can fail");
  CQV_CANARY("contract append harness end");
}

void h_contract_advance(void) {
  carquet_buffer_t *b = nondet_ptr();
  size_t n = nondet_size_t();
  cqv_buf_track = nondet_bool();
  cqv_buf_k = nondet_size_t();
  cqv_buf_old_k = nondet_u8();
  g_mc_k = nondet_size_t();
  uint8_t *p = carquet_buffer_advance(b, n);
  if (p) CQV_CANARY("contract advance: can succeed"); else CQV_CANARY("contract advance: can fail");
  CQV_CANARY("contract advance harness end");
}

/* ---- the contracts are usable by a caller: two real fixed-width appends with carquet_buffer_append
 * REPLACED by its contract (job c19_buffer_contract_use): requires hold at both call sites, sizes add
 * up, the invariant is carried from the first call to the second */
void h_contract_use(void) {
  carquet_buffer_t b;
  mk_buf(&b);
  __CPROVER_assume(b.size <= CQV_MAXBUF - 12); /* caller obligation of the contract: total stays within 2^40 */
  cqv_buf_track = 0;
  carquet_status_t s1 = carquet_buffer_append_u32_le(&b, nondet_u32());
  __CPROVER_assert(s1 != CARQUET_OK || b.size == g_old.size + 4, "use: first append adds 4");
  __CPROVER_assert(s1 == CARQUET_OK || b.size == g_old.size, "use: failed append adds nothing");
  size_t mid = b.size;
  carquet_status_t s2 = carquet_buffer_append_u64_le(&b, nondet_u64());
  __CPROVER_assert(s2 != CARQUET_OK || b.size == mid + 8, "use: second append adds 8");
  __CPROVER_assert(b.size <= b.capacity && (b.data != NULL || b.capacity == 0) && (b.data == NULL || __CPROVER_rw_ok(b.data, b.capacity)), "use: invariant after both");
  if (s1 == CARQUET_OK && s2 == CARQUET_OK) CQV_CANARY("use: both succeed");
  if (s1 != CARQUET_OK && s2 == CARQUET_OK) CQV_CANARY("use: first fails, second succeeds");
  CQV_CANARY("contract use harness end");
}
