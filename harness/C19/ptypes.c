/* C19: the same parser harnesses as C08, built WITHOUT -DCQV_ALLOC_NEVER_FAILS: every arena request may
 * return NULL; the parse_* postcondition then demands an error status (CQV_PARSE_POST, last conjunct). */
#include "../C08/ptypes.c"
