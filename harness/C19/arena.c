/* C19 / C04: src/core/arena.c under allocation failure.
 *
 * The arena is built in an ARBITRARY state satisfying its representation invariant with a block
 * list of length 1..3 (bounded level: list length; block sizes, fill levels, the current block,
 * the default block size and the counters are symbolic).  List-walking loops of the real code are
 * unwound completely (cbmc --unwind with unwinding assertions); the string loop of
 * carquet_arena_strndup carries a loop contract (contracts/arena.ovl).
 *
 * Representation invariant AINV(a):
 *   head != NULL; the list from head is NULL-terminated; every block is a live heap object of
 *   exactly offsetof(block, u) + block->size bytes; used <= size <= 2^40 in every block;
 *   current is a block of the list.
 * (After a failed init: head == current == NULL, only destroy is allowed.)
 *
 * memcpy/memset models: ranges accessible, ONE arbitrary ghost byte (g_mc_k) kept, rest havocked. */
#include "cqv.h"
#include <stdlib.h>
#include <string.h>

size_t g_mc_k;

void *memcpy(void *dst, const void *src, size_t n) {
  __CPROVER_precondition(__CPROVER_r_ok(src, n), "memcpy src readable");
  __CPROVER_precondition(__CPROVER_w_ok(dst, n), "memcpy dst writable");
  if (n != 0) {
    uint8_t keep = (g_mc_k < n) ? ((const uint8_t *)src)[g_mc_k] : 0;
    __CPROVER_havoc_slice(dst, n);
    if (g_mc_k < n) ((uint8_t *)dst)[g_mc_k] = keep;
  }
  return dst;
}

void *memset(void *dst, int c, size_t n) {
  __CPROVER_precondition(__CPROVER_w_ok(dst, n), "memset dst writable");
  if (n != 0) {
    __CPROVER_havoc_slice(dst, n);
    if (g_mc_k < n) ((uint8_t *)dst)[g_mc_k] = (uint8_t)c;
  }
  return dst;
}

/* strlen model: the argument must hold a NUL inside its object (the harness records one at
 * g_str_term); the result is SOME index of a NUL not after it -- a superset of the real result */
const char *g_str;
size_t g_str_term; /* index of a NUL in g_str, or the object size when none is promised */
size_t g_str_objsize;
size_t strlen(const char *s) {
  __CPROVER_precondition(s == g_str && g_str_term < g_str_objsize && s[g_str_term] == 0, "strlen: NUL-terminated string");
  size_t n = nondet_size_t();
  __CPROVER_assume(n <= g_str_term && s[n] == 0);
  return n;
}

/* ghosts read by the overlay of carquet_arena_strndup */
size_t cqv_strn_len; /* the length computed by the loop */
size_t cqv_j;        /* arbitrary index: no NUL before the computed length */

#include "src/core/arena.c"

#ifdef CQV_CANARIES
#define H_MAXSZ ((size_t)10000)
#else
#define H_MAXSZ CQV_MAXBUF
#endif
#define HDR (offsetof(carquet_arena_block_t, u))

/* ---- arbitrary invariant-satisfying arena --------------------------------------------------- */
#define NBLK 3
static carquet_arena_block_t *g_blk[NBLK];
static size_t g_size[NBLK], g_used[NBLK];
static unsigned g_n, g_cur;
static carquet_arena_t g_olda;

static carquet_arena_block_t *mk_block(size_t *size, size_t *used) {
  size_t s = nondet_size_t(), u = nondet_size_t();
  __CPROVER_assume(s <= H_MAXSZ && u <= s);
  carquet_arena_block_t *b = malloc(HDR + s);
  __CPROVER_assume(b != NULL);
  b->next = NULL;
  b->size = s;
  b->used = u;
  *size = s;
  *used = u;
  return b;
}

static void mk_arena(carquet_arena_t *a) {
#ifdef CQV_NBLK
  g_n = CQV_NBLK; /* case split over the list length (one job per length): keeps the list walks concrete */
#else
  g_n = nondet_unsigned();
#endif
  g_cur = nondet_unsigned();
  __CPROVER_assume(g_n >= 1 && g_n <= NBLK && g_cur < g_n);
  g_blk[0] = mk_block(&g_size[0], &g_used[0]);
  g_blk[1] = g_blk[2] = NULL;
  if (g_n >= 2) { g_blk[1] = mk_block(&g_size[1], &g_used[1]); g_blk[0]->next = g_blk[1]; }
  if (g_n >= 3) { g_blk[2] = mk_block(&g_size[2], &g_used[2]); g_blk[1]->next = g_blk[2]; }
  a->head = g_blk[0];
  a->current = g_blk[g_cur];
  a->default_block_size = nondet_size_t();
  __CPROVER_assume(a->default_block_size <= H_MAXSZ);
  a->total_allocated = nondet_size_t();
  a->total_capacity = nondet_size_t();
  g_olda = *a;
  g_mc_k = nondet_size_t();
}

#define BLOCK_OK(b)                                                                                     \
  (__CPROVER_DYNAMIC_OBJECT(b) && __CPROVER_POINTER_OFFSET(b) == 0 && (b)->size <= CQV_MAXBUF + 65536 + CQV_MAXBUF && \
   __CPROVER_OBJECT_SIZE(b) == HDR + (b)->size && (b)->used <= (b)->size)

/* AINV for an arena that started as mk_arena()'s list: the old blocks are still linked in order from
 * head, at most one block was appended at the tail; returns the number of blocks.  (Checked on the
 * harness' own block pointers: walking the list through ->next from head again makes the SAT
 * instance explode, 47M clauses.) */
static carquet_arena_block_t *tail_block(void) {
  carquet_arena_block_t *last = g_n == 1 ? g_blk[0] : g_n == 2 ? g_blk[1] : g_blk[2];
  return last->next;
}
static unsigned assert_ainv(const carquet_arena_t *a) {
  __CPROVER_assert(a->head == g_blk[0], "ainv: head is the first block");
  __CPROVER_assert(BLOCK_OK(g_blk[0]), "ainv: block 0 is a whole live heap object of header+size bytes, used <= size");
  if (g_n >= 2) {
    __CPROVER_assert(g_blk[0]->next == g_blk[1], "ainv: link 0->1");
    __CPROVER_assert(BLOCK_OK(g_blk[1]), "ainv: block 1 is a whole live heap object of header+size bytes, used <= size");
  }
  if (g_n >= 3) {
    __CPROVER_assert(g_blk[1]->next == g_blk[2], "ainv: link 1->2");
    __CPROVER_assert(BLOCK_OK(g_blk[2]), "ainv: block 2 is a whole live heap object of header+size bytes, used <= size");
  }
  carquet_arena_block_t *t = tail_block();
  if (t != NULL) {
    __CPROVER_assert(t != g_blk[0] && t != g_blk[1] && t != g_blk[2], "ainv: appended block is a new one (no cycle)");
    __CPROVER_assert(BLOCK_OK(t), "ainv: appended block is a whole live heap object of header+size bytes, used <= size");
    __CPROVER_assert(t->next == NULL, "ainv: list is NULL-terminated, at most one block was added");
  }
  __CPROVER_assert(a->current == g_blk[0] || (g_n >= 2 && a->current == g_blk[1]) || (g_n >= 3 && a->current == g_blk[2]) ||
                       (t != NULL && a->current == t),
                   "ainv: current is a block of the list");
  return g_n + (t != NULL ? 1 : 0);
}

/* the first g_n blocks are the old ones, in order, with their sizes */
static void assert_old_blocks_linked(const carquet_arena_t *a) {
  __CPROVER_assert(a->head == g_blk[0], "old blocks: head unchanged");
  __CPROVER_assert(g_n < 2 || g_blk[0]->next == g_blk[1], "old blocks: link 0->1 unchanged");
  __CPROVER_assert(g_n < 3 || g_blk[1]->next == g_blk[2], "old blocks: link 1->2 unchanged");
  __CPROVER_assert(g_blk[0]->size == g_size[0] && (g_n < 2 || g_blk[1]->size == g_size[1]) && (g_n < 3 || g_blk[2]->size == g_size[2]),
                   "old blocks: sizes unchanged");
}

static void assert_arena_unchanged(const carquet_arena_t *a) {
  assert_old_blocks_linked(a);
  __CPROVER_assert(tail_block() == NULL, "unchanged: no block added");
  __CPROVER_assert(g_blk[0]->used == g_used[0] && (g_n < 2 || g_blk[1]->used == g_used[1]) && (g_n < 3 || g_blk[2]->used == g_used[2]),
                   "unchanged: fill level of every block");
  __CPROVER_assert(a->current == g_olda.current && a->total_allocated == g_olda.total_allocated &&
                       a->total_capacity == g_olda.total_capacity && a->default_block_size == g_olda.default_block_size,
                   "unchanged: current block and counters");
}

/* every entry ends here: destroy frees every block exactly once (leak + double-free checks) */
static void fin(carquet_arena_t *a) {
  carquet_arena_destroy(a);
  __CPROVER_assert(a->head == NULL && a->current == NULL && a->total_allocated == 0 && a->total_capacity == 0, "destroy leaves the empty state");
}

/* End of the allocation entries.  AINV has been asserted, and AINV is exactly the precondition under
 * which c19_arena_destroy proves carquet_arena_destroy (frees every block once, lists of 1..4
 * blocks); so here the harness releases the blocks itself through its own pointers (the real
 * destroy walking the list again after the call under test costs 8M clauses per block). */
static void release(carquet_arena_t *a) {
  carquet_arena_block_t *t = tail_block();
  if (t) free(t);
  if (g_n >= 3) free(g_blk[2]);
  if (g_n >= 2) free(g_blk[1]);
  free(g_blk[0]);
  (void)a;
}

/* postcondition of an allocation of `size` bytes with alignment `al` (power of two >= 1) that
 * returned p: p != NULL => a region of size bytes inside ONE block, not overlapping anything
 * handed out before (offset >= that block's old fill level), padding < al, aligned, and the block
 * becomes current; other blocks untouched.  p == NULL => arena unchanged. */
static void alloc_post(carquet_arena_t *a, void *p, size_t size, size_t al, const char *unused) {
  (void)unused;
  unsigned n = assert_ainv(a);
  assert_old_blocks_linked(a);
  if (p == NULL) {
    assert_arena_unchanged(a);
    return;
  }
  __CPROVER_assert(size > 0, "alloc: zero-size request returns NULL");
  carquet_arena_block_t *blk = a->current;
  __CPROVER_assert(__CPROVER_same_object(p, blk), "alloc: result lies in the (new) current block");
  size_t off = (size_t)((uint8_t *)p - CARQUET_ARENA_BLOCK_DATA(blk));
  __CPROVER_assert((uint8_t *)p >= CARQUET_ARENA_BLOCK_DATA(blk) && off <= blk->size && size <= blk->size - off,
                   "alloc: [p, p+size) lies inside the block's data area (padding included in the fit test)");
  __CPROVER_assert(__CPROVER_rw_ok(p, size), "alloc: region is accessible");
  __CPROVER_assert(blk->used == off + size, "alloc: fill level is the end of the region");
  __CPROVER_assert((((uintptr_t)p) & (al - 1)) == 0, "alloc: result aligned as requested");
  int idx = (blk == g_blk[0]) ? 0 : (g_n >= 2 && blk == g_blk[1]) ? 1 : (g_n >= 3 && blk == g_blk[2]) ? 2 : -1;
  size_t old_used = idx >= 0 ? g_used[idx] : 0;
  __CPROVER_assert(off >= old_used && off - old_used < al, "alloc: region starts at or after the old fill level (disjoint from earlier allocations), padding < alignment");
  __CPROVER_assert(idx < 0 || (unsigned)idx >= g_cur, "alloc: never goes back to a block before the current one");
  __CPROVER_assert((idx == 0 || g_blk[0]->used == g_used[0]) && (g_n < 2 || idx == 1 || g_blk[1]->used == g_used[1]) &&
                       (g_n < 3 || idx == 2 || g_blk[2]->used == g_used[2]),
                   "alloc: other blocks untouched");
  __CPROVER_assert(a->total_allocated == g_olda.total_allocated + size, "alloc: total_allocated grows by size");
  if (idx < 0) {
    __CPROVER_assert(n == g_n + 1 && tail_block() == blk && blk->next == NULL, "alloc: new block appended at the tail");
    __CPROVER_assert(blk->size >= size + al && blk->size >= 65536 && (blk->size & 65535) == 0 && blk->size >= g_olda.default_block_size,
                     "alloc: new block holds the request plus worst-case padding, multiple of 64K, at least the default size");
    __CPROVER_assert(a->total_capacity == g_olda.total_capacity + blk->size, "alloc: total_capacity grows by the new block");
    __CPROVER_assert(off < al, "alloc: in a new block only alignment padding precedes the region");
  } else {
    __CPROVER_assert(n == g_n && a->total_capacity == g_olda.total_capacity, "alloc: no block added when an existing one fits");
  }
}

void h_alloc_aligned(void) {
  carquet_arena_t a;
  mk_arena(&a);
  size_t size = nondet_size_t(), alignment = nondet_size_t();
  __CPROVER_assume(size <= H_MAXSZ);
  __CPROVER_assume(alignment <= CQV_MAXBUF && (alignment & (alignment - 1)) == 0); /* 0 or a power of two */
  void *p = carquet_arena_alloc_aligned(&a, size, alignment);
  size_t al = alignment ? alignment : 1;
  alloc_post(&a, p, size, al, "");
#ifdef CQV_NOFAIL
  __CPROVER_assert(p != NULL || size == 0, "without allocation failure a non-empty request always succeeds");
#endif
  if (p) {
    if (a.current == g_blk[g_cur]) CQV_CANARY("alloc_aligned: fits in the current block");
#if !defined(CQV_NBLK) || CQV_NBLK >= 2
    else if (a.current == g_blk[0] || a.current == g_blk[1] || a.current == g_blk[2]) CQV_CANARY("alloc_aligned: fits in a later block");
#endif
    else CQV_CANARY("alloc_aligned: new block");
  }
#ifndef CQV_NOFAIL
  else if (size) {
    CQV_CANARY("alloc_aligned: can fail");
  }
#endif
  release(&a);
  CQV_CANARY("alloc_aligned harness end");
}

void h_alloc(void) {
  carquet_arena_t a;
  mk_arena(&a);
  size_t size = nondet_size_t();
  __CPROVER_assume(size <= H_MAXSZ);
  void *p = carquet_arena_alloc(&a, size);
  alloc_post(&a, p, size, CARQUET_ARENA_ALIGNMENT, "");
  if (p) CQV_CANARY("alloc: can succeed"); else if (size) CQV_CANARY("alloc: can fail");
  release(&a);
  CQV_CANARY("alloc harness end");
}

/* ---- callers of carquet_arena_alloc_aligned: calloc / memdup / strndup / strdup ----------------
 * Modular step: in these jobs carquet_arena_alloc_aligned is REPLACED by its contract
 * (contracts/arena.ovl): NULL, or a fresh region of exactly `size` bytes, NULL when size == 0.
 * That contract is the allocator abstraction of what c19_arena_alloc_aligned_n* prove about the real
 * function (region of size accessible bytes inside one block, beyond everything handed out before);
 * its preconditions (power-of-two alignment, sizes <= 2^40) are checked at every call site here.
 * The object size of the result shows that exactly the intended number of bytes was requested. */
static void mk_arena_abstract(carquet_arena_t *a) {
  a->head = a->current = NULL; /* never dereferenced: the only arena access is the replaced call */
  a->default_block_size = nondet_size_t();
  a->total_allocated = nondet_size_t();
  a->total_capacity = nondet_size_t();
  g_mc_k = nondet_size_t();
}
#define FRESH_OF(p, n) (__CPROVER_DYNAMIC_OBJECT(p) && __CPROVER_POINTER_OFFSET(p) == 0 && __CPROVER_OBJECT_SIZE(p) == (n))

/* calloc, case 1: every (count, size) whose TRUE product is <= 2^40 (written without a division:
 * both factors < 2^32, or one factor <= 2^40 and the other < 2^23 -- a product <= 2^40 with one factor
 * >= 2^32 forces the other <= 2^8), so count*size cannot wrap whatever the guard
 * `total / count != size` decides (a spurious NULL is allowed by the property, a short region is
 * not): NULL, or a zeroed region of exactly count*size bytes.  No fact about the 64-bit divider
 * is needed for the proof. */
void h_calloc(void) {
  carquet_arena_t a;
  mk_arena_abstract(&a);
  size_t count = nondet_size_t(), size = nondet_size_t();
  __CPROVER_assume((count <= 0xFFFFFFFFu && size <= 0xFFFFFFFFu) || (count <= CQV_MAXBUF && size < ((size_t)1 << 23)) ||
                   (size <= CQV_MAXBUF && count < ((size_t)1 << 23)));
  size_t total = count * size;
  __CPROVER_assume(total <= H_MAXSZ); /* size domain of the allocator contract */
  uint8_t *p = carquet_arena_calloc(&a, count, size);
  __CPROVER_assert(p == NULL || FRESH_OF(p, total), "calloc: NULL or a region of exactly count*size bytes");
  __CPROVER_assert(!(p && g_mc_k < total) || p[g_mc_k] == 0, "calloc: region is zeroed (ghost index)");
  if (p && g_mc_k < total) CQV_CANARY("calloc: zero byte observed");
  if (!p && total) CQV_CANARY("calloc: can fail");
  if (p) free(p);
  CQV_CANARY("calloc harness end");
}

/* calloc, case 2: a wrapping product is refused before anything is requested from the arena.
 * CQV_CALLOC_POW2: bounded variant, count restricted to powers of two (the divider then is a shift). */
void h_calloc_overflow(void) {
  carquet_arena_t a;
  mk_arena_abstract(&a);
  carquet_arena_t old = a;
  size_t count = nondet_size_t(), size = nondet_size_t();
#ifdef CQV_CALLOC_POW2
  unsigned sh = nondet_unsigned();
  __CPROVER_assume(sh >= 1 && sh <= 63);
  count = (size_t)1 << sh;
  __CPROVER_assume((size >> (64 - sh)) != 0); /* size >= 2^(64-sh): the product wraps */
#else
  __CPROVER_assume(count != 0 && size > (size_t)-1 / count);
#endif
  void *p = carquet_arena_calloc(&a, count, size);
  __CPROVER_assert(p == NULL, "calloc: overflowing count*size returns NULL");
  __CPROVER_assert(a.current == old.current && a.total_allocated == old.total_allocated && a.total_capacity == old.total_capacity, "calloc overflow: arena untouched");
  CQV_CANARY("calloc overflow harness end");
}

void h_memdup(void) {
  carquet_arena_t a;
  mk_arena_abstract(&a);
  size_t size = nondet_size_t();
  __CPROVER_assume(size <= H_MAXSZ);
  uint8_t *src = NULL;
  if (nondet_bool()) { src = malloc(size); __CPROVER_assume(src != NULL); }
  uint8_t src_k = (src && g_mc_k < size) ? src[g_mc_k] : 0;
  uint8_t *p = carquet_arena_memdup(&a, src, size);
  __CPROVER_assert(p == NULL || (src != NULL && size != 0 && FRESH_OF(p, size)), "memdup: NULL (also for NULL source / size 0) or a region of exactly size bytes");
  __CPROVER_assert(!(p && g_mc_k < size) || (p[g_mc_k] == src_k && src[g_mc_k] == src_k), "memdup: copy equals the source (ghost index)");
  if (p && g_mc_k < size) CQV_CANARY("memdup: byte observed");
  if (!p && src && size) CQV_CANARY("memdup: can fail");
  if (src) free(src);
  if (p) free(p);
  CQV_CANARY("memdup harness end");
}

/* a source string: object of slen bytes; either a NUL is promised at index term < slen, or none is
 * promised (term == slen) and the caller's max_len keeps the scan inside the object */
static char *mk_string(_Bool need_nul) {
  size_t slen = nondet_size_t();
  __CPROVER_assume(slen >= 1 && slen <= H_MAXSZ - 1);
  char *s = malloc(slen);
  __CPROVER_assume(s != NULL);
  g_str = s;
  g_str_objsize = slen;
  g_str_term = nondet_size_t();
  if (need_nul || nondet_bool()) {
    __CPROVER_assume(g_str_term < slen);
    __CPROVER_assume(s[g_str_term] == 0);
  } else {
    g_str_term = slen;
  }
  cqv_j = nondet_size_t();
  return s;
}

static void strdup_post(char *p, const char *s, size_t len) {
  if (p) {
    __CPROVER_assert(FRESH_OF(p, len + 1), "strdup: region of exactly length+1 bytes");
    __CPROVER_assert(p[len] == 0, "strdup: copy is NUL-terminated at the computed length");
    __CPROVER_assert(!(g_mc_k < len) || p[g_mc_k] == s[g_mc_k], "strdup: copy equals the source prefix (ghost index)");
    __CPROVER_assert(!(cqv_j < len) || s[cqv_j] != 0, "strdup: no NUL inside the copied prefix");
  }
}

void h_strndup(void) {
  carquet_arena_t a;
  mk_arena_abstract(&a);
  char *s = nondet_bool() ? mk_string(0) : NULL;
  size_t max_len = nondet_size_t();
  __CPROVER_assume(max_len <= H_MAXSZ - 1);
  if (s) __CPROVER_assume(g_str_term < g_str_objsize || max_len <= g_str_objsize);
  cqv_strn_len = 0;
  char *p = carquet_arena_strndup(&a, s, max_len);
  if (s == NULL) {
    __CPROVER_assert(p == NULL, "strndup: NULL source gives NULL");
  } else {
    size_t len = cqv_strn_len;
    __CPROVER_assert(len <= max_len && (len == max_len || s[len] == 0), "strndup: length is max_len or stops at a NUL");
    strdup_post(p, s, len);
    if (p && len && g_mc_k < len) CQV_CANARY("strndup: byte observed");
    if (p && len == max_len) CQV_CANARY("strndup: truncated at max_len");
    if (p && len < max_len) CQV_CANARY("strndup: stopped at NUL");
    if (!p) CQV_CANARY("strndup: can fail");
    free(s);
    if (p) free(p);
  }
  CQV_CANARY("strndup harness end");
}

void h_strdup(void) {
  carquet_arena_t a;
  mk_arena_abstract(&a);
  char *s = nondet_bool() ? mk_string(1) : NULL;
  cqv_strn_len = 0;
  char *p = carquet_arena_strdup(&a, s);
  if (s == NULL) {
    __CPROVER_assert(p == NULL, "strdup: NULL source gives NULL");
  } else {
    size_t len = cqv_strn_len;
    __CPROVER_assert(len <= g_str_term && s[len] == 0, "strdup: length is the index of the first NUL");
    strdup_post(p, s, len);
    if (p) CQV_CANARY("strdup: can succeed"); else CQV_CANARY("strdup: can fail");
    free(s);
    if (p) free(p);
  }
  CQV_CANARY("strdup harness end");
}

/* ---- init / destroy / reset / save / restore ------------------------------------------------ */
void h_init_size(void) {
  carquet_arena_t a; /* arbitrary garbage */
  size_t bs = nondet_size_t();
  __CPROVER_assume(bs <= H_MAXSZ);
  carquet_status_t st = nondet_bool() ? carquet_arena_init_size(&a, bs) : (bs = CARQUET_ARENA_DEFAULT_BLOCK_SIZE, carquet_arena_init(&a));
  if (st == CARQUET_OK) {
    __CPROVER_assert(a.head != NULL && a.current == a.head && a.head->next == NULL && a.head->used == 0, "init: one empty block, current");
    __CPROVER_assert(BLOCK_OK(a.head), "init: block is a whole heap object of header+size bytes");
    __CPROVER_assert(a.head->size >= bs && a.head->size >= 65536 && (a.head->size & 65535) == 0 && a.head->size < bs + 65536 + (bs < 65536 ? 65536 : 0),
                     "init: block size is the request rounded up to a multiple of 64K, at least 64K");
    __CPROVER_assert(a.default_block_size == bs && a.total_allocated == 0 && a.total_capacity == a.head->size, "init: counters");
    CQV_CANARY("init: can succeed");
  } else {
    __CPROVER_assert(st == CARQUET_ERROR_OUT_OF_MEMORY, "init: only failure is OUT_OF_MEMORY");
    __CPROVER_assert(a.head == NULL && a.current == NULL && a.total_capacity == 0 && a.total_allocated == 0, "init failure: empty arena, safe to destroy");
    CQV_CANARY("init: can fail");
  }
  fin(&a);
  CQV_CANARY("init harness end");
}

void h_destroy(void) {
  carquet_arena_t a;
  mk_arena(&a);
  if (nondet_bool()) { /* a 4th block, as left behind by an allocation that appended one; it may be current */
    size_t s4, u4;
    carquet_arena_block_t *x = mk_block(&s4, &u4);
    (g_n == 1 ? g_blk[0] : g_n == 2 ? g_blk[1] : g_blk[2])->next = x;
    if (nondet_bool()) a.current = x;
    CQV_CANARY("destroy: with an appended block");
  }
  carquet_arena_destroy(&a);
  __CPROVER_assert(a.head == NULL && a.current == NULL && a.total_allocated == 0 && a.total_capacity == 0, "destroy leaves the empty state");
  fin(&a); /* a second destroy is harmless */
  if (g_n == 3) CQV_CANARY("destroy: three blocks");
  CQV_CANARY("destroy harness end");
}

void h_reset(void) {
  carquet_arena_t a;
  mk_arena(&a);
  carquet_arena_reset(&a);
  unsigned n = assert_ainv(&a);
  assert_old_blocks_linked(&a);
  __CPROVER_assert(n == g_n && tail_block() == NULL, "reset keeps every block");
  __CPROVER_assert(g_blk[0]->used == 0 && (g_n < 2 || g_blk[1]->used == 0) && (g_n < 3 || g_blk[2]->used == 0), "reset empties every block");
  __CPROVER_assert(a.current == a.head && a.total_allocated == 0 && a.total_capacity == g_olda.total_capacity, "reset: current is head, nothing allocated");
  if (g_n == 3) CQV_CANARY("reset: three blocks");
  fin(&a);
  CQV_CANARY("reset harness end");
}

/* save; then an arbitrary LATER state of the same arena as allocations produce it (fill levels of the
 * marked block and of later blocks raised, current moved forward, possibly one block appended);
 * restore brings the marked block back and empties the later blocks */
void h_save_restore(void) {
  carquet_arena_t a;
  mk_arena(&a);
  carquet_arena_mark_t m = carquet_arena_save(&a);
  __CPROVER_assert(m.block == g_blk[g_cur] && m.used == g_used[g_cur] && m.total_allocated == g_olda.total_allocated, "save records the current block, its fill level and the counter");
  (void)assert_ainv(&a);
  assert_arena_unchanged(&a);
  unsigned c2 = nondet_unsigned();
  __CPROVER_assume(c2 >= g_cur && c2 < g_n);
  size_t u0 = nondet_size_t(), u1 = nondet_size_t(), u2 = nondet_size_t();
  if (g_cur <= 0) { __CPROVER_assume(u0 <= g_size[0] && (g_cur != 0 || u0 >= g_used[0])); g_blk[0]->used = u0; }
  if (g_n >= 2 && g_cur <= 1) { __CPROVER_assume(u1 <= g_size[1] && (g_cur != 1 || u1 >= g_used[1])); g_blk[1]->used = u1; }
  if (g_n >= 3 && g_cur <= 2) { __CPROVER_assume(u2 <= g_size[2] && (g_cur != 2 || u2 >= g_used[2])); g_blk[2]->used = u2; }
  a.current = g_blk[c2];
  carquet_arena_block_t *added = NULL;
  if (nondet_bool()) {
    size_t s4, u4;
    added = mk_block(&s4, &u4);
    (g_n == 1 ? g_blk[0] : g_n == 2 ? g_blk[1] : g_blk[2])->next = added;
    a.current = added;
  }
  a.total_allocated = nondet_size_t();
  carquet_arena_restore(&a, m);
  unsigned n2 = assert_ainv(&a);
  assert_old_blocks_linked(&a);
  __CPROVER_assert(n2 == g_n + (added ? 1 : 0) && tail_block() == added, "restore keeps every block (including one added since the save)");
  __CPROVER_assert(a.current == g_blk[g_cur] && a.total_allocated == g_olda.total_allocated, "restore: current block and counter as saved");
  __CPROVER_assert(g_blk[g_cur]->used == g_used[g_cur], "restore: marked block back to the saved fill level");
  __CPROVER_assert((g_cur >= 1 || g_n < 2 || g_blk[1]->used == 0) && (g_cur >= 2 || g_n < 3 || g_blk[2]->used == 0) && (added == NULL || added->used == 0),
                   "restore: blocks after the marked one are emptied");
  __CPROVER_assert((g_cur < 1 || g_blk[0]->used == g_used[0]) && (g_cur < 2 || g_blk[1]->used == g_used[1]), "restore: blocks before the marked one untouched");
  if (added) CQV_CANARY("save/restore: across an appended block");
  if (!added && g_n == 3 && g_cur == 0) CQV_CANARY("save/restore: within existing blocks");
  fin(&a);
  CQV_CANARY("save/restore harness end");
}
