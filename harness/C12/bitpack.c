/* C12: raw bit packing follows the Parquet layout (values packed LSB first, back to back).
 * Spec side: specs/bitpack_spec.h (independent encoder/decoder, no carquet code). */
#include "cqv.h"
#include <stdlib.h>
#include "bitpack_spec.h"
#include "src/core/bitpack.c"
#include "src/core/endian.h"

#ifndef CQV_W
#define CQV_W 3
#endif

/* encoder direction: bytes emitted by carquet_bitpack8_32 are what the spec says, and the
 * independent spec decoder returns the original values */
void h_pack8_layout(void) {
  int width = CQV_W;
  uint32_t in0 = nondet_u32(), in1 = nondet_u32(), in2 = nondet_u32(), in3 = nondet_u32();
  uint32_t in4 = nondet_u32(), in5 = nondet_u32(), in6 = nondet_u32(), in7 = nondet_u32();
  uint32_t v[8] = {in0, in1, in2, in3, in4, in5, in6, in7};
  uint8_t *buf = malloc(CQV_W);
  __CPROVER_assume(buf != NULL);
  for (int i = 0; i < CQV_W; i++) buf[i] = nondet_u8();
  carquet_bitpack8_32(v, CQV_W, buf);
  /* the literal statement: ghost (i < 8, j < w): stream bit i*w+j == bit j of v[i] */
  unsigned gi = nondet_unsigned(), gj = nondet_unsigned();
  __CPROVER_assume(gi < 8 && gj < CQV_W);
  unsigned pos = gi * CQV_W + gj;
  __CPROVER_assert(SPEC_BP_STREAM_BIT(buf, pos) == SPEC_BP_VALUE_BIT(v[gi], gj),
                   "bit ((i*w+j) mod 8) of byte ((i*w+j)/8) equals bit j of v[i]");
  /* independent decoder on carquet's bytes */
  for (unsigned i = 0; i < 8; i++)
    __CPROVER_assert(spec_bp_unpack(buf, CQV_W, i) == (v[i] & SPEC_BP_MASK32(CQV_W)),
                     "spec decoder returns the original value from carquet's bytes");
  /* independent encoder produces the same bytes (8*w bits = exactly w bytes, no slack bits) */
  unsigned gb = nondet_unsigned();
  __CPROVER_assume(gb < CQV_W);
  uint32_t vm[8];
  for (int i = 0; i < 8; i++) vm[i] = v[i] & SPEC_BP_MASK32(CQV_W);
  __CPROVER_assert(buf[gb] == spec_bp_pack_byte(vm, CQV_W, gb), "byte b equals the spec encoder's byte b");
  CQV_CANARY("pack8 layout harness end");
}

/* decoder direction: on ARBITRARY w bytes (any stream a spec encoder could have produced, including
 * padded final groups) carquet_bitunpack8_32 returns what the independent spec decoder returns */
void h_unpack8_layout(void) {
  uint8_t *in = malloc(CQV_W);           /* exactly w bytes: reading more is a violation */
  __CPROVER_assume(in != NULL);
  for (int i = 0; i < CQV_W; i++) in[i] = nondet_u8();
  uint32_t out[8];
  for (int i = 0; i < 8; i++) out[i] = nondet_u32();
  carquet_bitunpack8_32(in, CQV_W, out);
  for (unsigned i = 0; i < 8; i++)
    __CPROVER_assert(out[i] == spec_bp_unpack(in, CQV_W, i), "carquet decoder == spec decoder on arbitrary bytes");
  unsigned gi = nondet_unsigned(), gj = nondet_unsigned();
  __CPROVER_assume(gi < 8 && gj < 32);
  __CPROVER_assert(SPEC_BP_VALUE_BIT(out[gi], gj) == (gj < CQV_W ? SPEC_BP_STREAM_BIT(in, gi * CQV_W + (gj < CQV_W ? gj : 0)) : 0u),
                   "bit j of value i is stream bit i*w+j, bits >= w are zero");
  CQV_CANARY("unpack8 layout harness end");
}

/* varint bytes == ULEB128, zigzag == the specified mapping: see harness/C11/bitpack.c (h_varint32/64,
 * h_zigzag carry the byte-level assertions too; they serve C11 and C12). */
