/* C12: run header forms of the RLE / bit-packed hybrid (Parquet Encodings.md) against the real
 * src/encoding/rle.c.  "Harness is the contract" lemmas: width-bounded loops are unwound completely
 * (bit width 0..32 => at most 4 value bytes, varints of at most 5 bytes), the specification side is
 * specs/rle_spec.h.  carquet_buffer_append is the exact recording model (stubs/rle_stubs.c,
 * -DRLE_STUB_RECORD): the appended bytes are compared with the specification encoding. */
#undef __SSE2__
#undef __ARM_NEON
#undef __ARM_NEON__
#define RLE_C12_GHOST 1
#include "cqv.h"
#include <stdlib.h>
#include "rle_spec.h"
#include "src/encoding/rle.c"

/* read_varint == ULEB128 of the specification: value, bytes consumed, failure exactly when the varint
 * does not terminate within the available bytes / within 5 bytes */
void h_c12_read_varint(void) {
  uint8_t d[8];
  size_t size = nondet_size_t();
  __CPROVER_assume(size <= 8);
  size_t pos0 = nondet_size_t();
  __CPROVER_assume(pos0 < size && pos0 <= 2);
  size_t pos = pos0;
  uint32_t out = 0;
  /* bytes beyond size are not part of the input: the spec reads them as "continuation, never ends" */
  uint8_t b0 = d[pos0], b1 = pos0 + 1 < size ? d[pos0 + 1] : 0x80, b2 = pos0 + 2 < size ? d[pos0 + 2] : 0x80,
          b3 = pos0 + 3 < size ? d[pos0 + 3] : 0x80, b4 = pos0 + 4 < size ? d[pos0 + 4] : 0x80;
  int n = SPEC_ULEB_LEN(b0, b1, b2, b3, b4);
  int r = read_varint(d, size, &pos, &out);
  if (n == 0) {
    __CPROVER_assert(r != 0, "unterminated / overlong varint is rejected");
    CQV_CANARY("varint rejected");
  } else {
    __CPROVER_assert(r == 0, "terminated varint is accepted");
    __CPROVER_assert(pos == pos0 + (size_t)n, "consumed == ULEB128 length");
    __CPROVER_assert(out == SPEC_ULEB_VAL(n, b0, b1, b2, b3, b4), "value == ULEB128 value");
    if (n == 5) CQV_CANARY("5-byte varint accepted");
    if (n == 1) CQV_CANARY("1-byte varint accepted");
  }
}

/* write_varint emits the minimal ULEB128 encoding */
void h_c12_write_varint(void) {
  carquet_buffer_t buf;
  carquet_rle_encoder_t enc;
  enc.buffer = &buf; enc.status = CARQUET_OK;
  uint32_t v = nondet_u32();
  rle_rec_len = 0;
  write_varint(&enc, v);
  __CPROVER_assert(rle_rec_len == (size_t)SPEC_ULEB_ENC_LEN(v), "length == ULEB128 length");
  size_t k = nondet_size_t();
  __CPROVER_assume(k < rle_rec_len);
  __CPROVER_assert(rle_rec[k] == SPEC_ULEB_ENC_BYTE(v, k), "byte k == ULEB128 byte k");
  if (rle_rec_len == 5) CQV_CANARY("5-byte varint written");
  if (rle_rec_len == 1) CQV_CANARY("1-byte varint written");
}

/* rle-run := varint(run_len << 1) <repeated value in ceil(w/8) little-endian bytes> */
void h_c12_flush_rle_form(void) {
  carquet_rle_encoder_t enc;
  carquet_buffer_t buf;
  enc.buffer = &buf; enc.status = CARQUET_OK;
  enc.bit_width = nondet_int();
  enc.repeat_count = nondet_i64();
  enc.prev_value = nondet_u32();
  __CPROVER_assume(enc.bit_width >= 0 && enc.bit_width <= 32);
  __CPROVER_assume(enc.repeat_count >= 1 && enc.repeat_count <= RLE_ENC_MAX_VALUES);
  __CPROVER_assume(enc.prev_value <= SPEC_RLE_MASK(enc.bit_width));
  G_emitted = 0; G_pad = 0;
  rle_rec_len = 0;
  uint32_t hdr = SPEC_RLE_HEADER(enc.repeat_count);
  size_t hl = (size_t)SPEC_ULEB_ENC_LEN(hdr), vb = (size_t)SPEC_RLE_VALUE_BYTES(enc.bit_width);
  uint32_t val = enc.prev_value;
  flush_rle(&enc);
  __CPROVER_assert(rle_rec_len == hl + vb, "RLE run is header + ceil(w/8) bytes");
  size_t k = nondet_size_t();
  __CPROVER_assume(k < rle_rec_len);
  if (k < hl) __CPROVER_assert(rle_rec[k] == SPEC_ULEB_ENC_BYTE(hdr, k), "header byte k == ULEB128(run_len << 1)");
  else __CPROVER_assert(rle_rec[k] == (uint8_t)(val >> (8 * (k - hl))), "value byte is little endian");
  CQV_CANARY("flush_rle form checked");
  if (vb == 4) CQV_CANARY("4 value bytes");
  if (vb == 0) CQV_CANARY("0 value bytes (bit width 0)");
}

/* bit-packed-run := varint(groups << 1 | 1) <groups * bit_width bytes>; the encoder emits one group */
void h_c12_flush_bitpack_form(void) {
  carquet_rle_encoder_t enc;
  carquet_buffer_t buf;
  enc.buffer = &buf; enc.status = CARQUET_OK;
  enc.bit_width = nondet_int();
  enc.bitpack_count = nondet_int();
  __CPROVER_assume(enc.bit_width >= 0 && enc.bit_width <= 32);
  __CPROVER_assume(enc.bitpack_count >= 1 && enc.bitpack_count <= 8);
  enc.bitpack_total = enc.bitpack_count;
  G_emitted = 0; G_pad = 0;
  rle_rec_len = 0;
  size_t w = (size_t)enc.bit_width;
  flush_bitpack(&enc);
  __CPROVER_assert(rle_rec_len == 1 + w, "bit-packed run is a 1-byte header + bit_width bytes (one group)");
  __CPROVER_assert(rle_rec[0] == SPEC_ULEB_ENC_BYTE(SPEC_BP_HEADER(1), 0) && SPEC_ULEB_ENC_LEN(SPEC_BP_HEADER(1)) == 1,
                   "header == ULEB128(1 << 1 | 1)");
  CQV_CANARY("flush_bitpack form checked");
}

/* the decoder accepts both run forms as the specification defines them: RLE run (value little endian,
 * masked), bit-packed run with any number of groups, zero-length runs (an RLE run of length 0 still
 * carries its repeated-value bytes).  For the zero-length forms the stream ends right after the run, so
 * that "skipped, not rejected" is observable: pos at the end, status OK, no further run. */
void h_c12_start_new_run_forms(void) {
  carquet_rle_decoder_t dec;
  uint8_t *d = malloc(10);               /* a 5-byte header, 4 value bytes, one spare */
  __CPROVER_assume(d != NULL);
  int w = nondet_int();
  __CPROVER_assume(w >= 0 && w <= 32);
  int n = SPEC_ULEB_LEN(d[0], d[1], d[2], d[3], d[4]);
  __CPROVER_assume(n != 0);
  uint32_t hdr = SPEC_ULEB_VAL(n, d[0], d[1], d[2], d[3], d[4]);
  size_t vb = (size_t)SPEC_RLE_VALUE_BYTES(w);
  uint32_t val = SPEC_RLE_LE_VALUE(vb, d[n], d[n + 1], d[n + 2], d[n + 3]) & SPEC_RLE_MASK(w);
  size_t run_bytes = (size_t)n + (SPEC_IS_RLE_HEADER(hdr) ? vb : 0);
  size_t size = nondet_size_t();
  __CPROVER_assume(size <= 10 && size >= run_bytes);
  if (SPEC_HEADER_COUNT(hdr) == 0) __CPROVER_assume(size == run_bytes);
  dec.data = d; dec.size = size; dec.pos = 0; dec.bit_width = w; dec.value_mask = SPEC_RLE_MASK(w);
  dec.run_remaining = 0; dec.bitpack_pos = 0; dec.bitpack_count = 0; dec.status = CARQUET_OK;
  dec.in_rle_run = nondet_bool();
  G_zero_rle_seen = 0; G_zero_rle_pos = 0;
  bool r = start_new_run(&dec);
  if (SPEC_IS_RLE_HEADER(hdr) && SPEC_HEADER_COUNT(hdr) > 0) {
    __CPROVER_assert(r && dec.in_rle_run, "non-empty RLE run accepted");
    __CPROVER_assert(dec.run_remaining == (int64_t)SPEC_HEADER_COUNT(hdr), "run length == header >> 1");
    __CPROVER_assert(dec.rle_value == val, "repeated value == little-endian value bytes, masked to the bit width");
    __CPROVER_assert(dec.pos == (size_t)n + vb, "consumed == header + ceil(w/8) bytes");
    CQV_CANARY("RLE run form");
  } else if (!SPEC_IS_RLE_HEADER(hdr) && SPEC_HEADER_COUNT(hdr) > 0) {
    __CPROVER_assert(r && !dec.in_rle_run, "non-empty bit-packed run accepted (any number of groups)");
    __CPROVER_assert(dec.run_remaining == (int64_t)SPEC_HEADER_COUNT(hdr) * 8, "run length == 8 * groups");
    __CPROVER_assert(dec.pos == (size_t)n, "consumed == header");
    if (SPEC_HEADER_COUNT(hdr) > 1) CQV_CANARY("multi-group bit-packed run form");
  } else if (SPEC_IS_RLE_HEADER(hdr)) {
    __CPROVER_assert(G_zero_rle_seen, "zero-length RLE run is skipped, not rejected");
    __CPROVER_assert(G_zero_rle_pos == (size_t)n + vb, "zero-length RLE run: the repeated-value bytes are consumed before the next run");
    __CPROVER_assert(!r && dec.status == CARQUET_OK && dec.pos == size, "zero-length RLE run at the end of the stream: end of data, no error");
    if (vb > 0) CQV_CANARY("zero-length RLE run form with value bytes");
  } else {
    __CPROVER_assert(!r && dec.status == CARQUET_OK && dec.pos == size, "zero-group bit-packed run at the end of the stream: end of data, no error");
    CQV_CANARY("zero-length bit-packed run form");
  }
}
