/* C11/C12: DELTA_LENGTH_BYTE_ARRAY and DELTA_BYTE_ARRAY encoders (real delta_length.c / delta_strings.c included).
 * Harness-is-contract, bounded: <= CQV_NMAX values of <= CQV_LMAX bytes each, all contents.
 *
 * Parquet Encodings.md:
 *   DELTA_LENGTH_BYTE_ARRAY := <lengths of all values, DELTA_BINARY_PACKED> <the values' bytes, concatenated>
 *   DELTA_BYTE_ARRAY        := <prefix lengths, DELTA_BINARY_PACKED> <suffix lengths, DELTA_BINARY_PACKED> <suffixes, concatenated>
 *                              prefix length i = length of the common prefix with the PREVIOUS ELEMENT (0 for the first),
 *                              suffix i = value i without that prefix.
 * The two callees are recording stubs (trusted, listed in the jobs):
 *   carquet_delta_encode_int32: checks its arguments are usable, records the int32 sequence it is asked to encode, reports an
 *     arbitrary size <= capacity or an error (its own contract, proved by c11_delta_encode_int32: *bytes_written <= capacity);
 *   carquet_buffer_append: checks the source range is readable, records (pointer, size) of each append in order, returns OK or
 *     CARQUET_ERROR_OUT_OF_MEMORY (the two results the buffer family's contract allows). */
#include "cqv.h"
#include "delta_spec.h"
#include <stdlib.h>
#include <carquet/error.h>
#include <carquet/types.h>
#include "core/buffer.h"

#ifndef CQV_NMAX
#define CQV_NMAX 3
#endif
#ifndef CQV_LMAX
#define CQV_LMAX 4
#endif

/* ---- recording stubs ---- */
int g_enc_calls;                       /* number of carquet_delta_encode_int32 calls */
int32_t g_enc_vals[2][CQV_NMAX];       /* the sequences passed to call 0 / call 1 */
int32_t g_enc_num[2];
size_t g_enc_written[2];
const uint8_t *g_enc_out[2];
_Bool g_enc_fail[2];

carquet_status_t carquet_delta_encode_int32(const int32_t *values, int32_t num_values, uint8_t *data, size_t data_capacity,
                                            size_t *bytes_written) {
  __CPROVER_precondition(num_values >= 0 && num_values <= CQV_NMAX, "delta_encode_int32: count within the bound of this harness");
  __CPROVER_precondition(__CPROVER_r_ok(values, (size_t)num_values * sizeof(int32_t)), "delta_encode_int32: values readable");
  __CPROVER_precondition(__CPROVER_w_ok(data, data_capacity), "delta_encode_int32: output writable for its capacity");
  __CPROVER_precondition(__CPROVER_w_ok(bytes_written, sizeof(*bytes_written)), "delta_encode_int32: bytes_written writable");
  __CPROVER_precondition(g_enc_calls < 2, "delta_encode_int32: at most two integer sections");
  int c = g_enc_calls++;
  g_enc_num[c] = num_values;
  if (num_values > 0) g_enc_vals[c][0] = values[0];
  if (num_values > 1) g_enc_vals[c][1] = values[1];
  if (num_values > 2) g_enc_vals[c][2] = values[2];
  g_enc_out[c] = data;
  if (nondet_bool()) { g_enc_fail[c] = 1; return CARQUET_ERROR_ENCODE; }
  size_t w = nondet_size_t();
  __CPROVER_assume(w <= data_capacity);
  *bytes_written = w;
  g_enc_written[c] = w;
  return CARQUET_OK;
}

#define CQV_APPMAX (2 + CQV_NMAX)
int g_app_calls;
const uint8_t *g_app_ptr[CQV_APPMAX + 1];
size_t g_app_size[CQV_APPMAX + 1];
_Bool g_app_failed;

carquet_status_t carquet_buffer_append(carquet_buffer_t *buf, const void *data, size_t size) {
  __CPROVER_precondition(__CPROVER_rw_ok(buf, sizeof(*buf)), "buffer_append: buffer object valid");
  __CPROVER_precondition(size == 0 || __CPROVER_r_ok(data, size), "buffer_append: source range readable");
  __CPROVER_precondition(g_app_calls < CQV_APPMAX, "buffer_append: no more appends than sections + values");
  __CPROVER_precondition(!g_app_failed, "buffer_append: nothing is appended after a failed append");
  if (nondet_bool()) { g_app_failed = 1; return CARQUET_ERROR_OUT_OF_MEMORY; }
  g_app_ptr[g_app_calls] = (const uint8_t *)data;
  g_app_size[g_app_calls] = size;
  g_app_calls++;
  return CARQUET_OK;
}

#include "src/encoding/delta_length.c"
#include "src/encoding/delta_strings.c"

/* independent: length of the common prefix of two byte strings (<= CQV_LMAX bytes) */
static int32_t spec_cpl(const uint8_t *a, int32_t la, const uint8_t *b, int32_t lb) {
  int32_t n = 0;
  _Bool same = 1;
  for (int32_t k = 0; k < CQV_LMAX; k++) {
    if (same && k < la && k < lb && a[k] == b[k]) n = k + 1; else same = 0;
  }
  return n;
}

static carquet_byte_array_t *mk_values(int32_t num) {
  carquet_byte_array_t *v = malloc(sizeof(carquet_byte_array_t) * CQV_NMAX);
  __CPROVER_assume(v != NULL);
  for (int i = 0; i < CQV_NMAX; i++) {
    int32_t len = nondet_i32();
    __CPROVER_assume(len >= 0 && len <= CQV_LMAX);
    v[i].length = len;
    v[i].data = (len == 0 && nondet_bool()) ? NULL : malloc((size_t)len);
    __CPROVER_assume(len == 0 || v[i].data != NULL);
  }
  return v;
}
static void free_values(carquet_byte_array_t *v) {
  for (int i = 0; i < CQV_NMAX; i++) free(v[i].data);
  free(v);
}

void h_delta_length_encode(void) {
  int32_t num = nondet_i32();
  __CPROVER_assume(num <= CQV_NMAX);
  carquet_byte_array_t *v = mk_values(num);
  carquet_buffer_t out;
  carquet_status_t st = carquet_delta_length_encode(nondet_bool() ? v : NULL, num, nondet_bool() ? &out : NULL);
  if (st == CARQUET_OK) {
    __CPROVER_assert(num >= 1 && g_enc_calls == 1 && g_enc_num[0] == num, "one DELTA_BINARY_PACKED section holding num_values integers");
    __CPROVER_assert(g_enc_vals[0][0] == v[0].length && (num < 2 || g_enc_vals[0][1] == v[1].length) && (num < 3 || g_enc_vals[0][2] == v[2].length),
                     "the lengths section encodes exactly the values' lengths, in order");
    __CPROVER_assert(g_app_calls >= 1 && g_app_size[0] == g_enc_written[0] && g_app_ptr[0] == g_enc_out[0],
                     "first the encoded lengths, whole (reported size of the integer section)");
    /* then the non-empty values, whole, in order */
    int a = 1;
    for (int i = 0; i < CQV_NMAX; i++) {
      if (i < num && v[i].length > 0) {
        __CPROVER_assert(a < g_app_calls && g_app_ptr[a] == v[i].data && g_app_size[a] == (size_t)v[i].length, "value bytes appended whole, in order");
        a++;
      }
    }
    __CPROVER_assert(a == g_app_calls, "nothing else is appended");
    if (num == CQV_NMAX && g_app_calls == 1 + CQV_NMAX) CQV_CANARY("delta_length_encode: all values non-empty");
  } else {
    __CPROVER_assert(!(v != NULL && num >= 1) || g_app_failed || g_enc_fail[0] || st == CARQUET_ERROR_OUT_OF_MEMORY || st == CARQUET_ERROR_INVALID_ARGUMENT,
                     "an error is reported only for a reason");
  }
  __CPROVER_assert(!g_app_failed || st != CARQUET_OK, "a failed append is reported");
  __CPROVER_assert(!g_enc_fail[0] || st != CARQUET_OK, "a failed integer section is reported");
  free_values(v);
  CQV_CANARY("delta_length_encode end");
}

void h_delta_strings_encode(void) {
  int32_t num = nondet_i32();
  __CPROVER_assume(num <= CQV_NMAX);
  carquet_byte_array_t *v = mk_values(num);
  carquet_buffer_t out;
  carquet_status_t st = carquet_delta_strings_encode(nondet_bool() ? v : NULL, num, nondet_bool() ? &out : NULL);
  if (st == CARQUET_OK) {
    __CPROVER_assert(num >= 1 && g_enc_calls == 2 && g_enc_num[0] == num && g_enc_num[1] == num, "two DELTA_BINARY_PACKED sections of num_values integers");
    int32_t p0 = 0;
    int32_t p1 = num > 1 ? spec_cpl(v[0].data, v[0].length, v[1].data, v[1].length) : 0;
    int32_t p2 = num > 2 ? spec_cpl(v[1].data, v[1].length, v[2].data, v[2].length) : 0;
    __CPROVER_assert(g_enc_vals[0][0] == p0, "prefix length 0 is 0");
    __CPROVER_assert(num < 2 || g_enc_vals[0][1] == p1, "prefix length 1 == common prefix of value 1 and value 0 (the immediately preceding value)");
    __CPROVER_assert(num < 3 || g_enc_vals[0][2] == p2, "prefix length 2 == common prefix of value 2 and value 1 (the immediately preceding value)");
    __CPROVER_assert(g_enc_vals[1][0] == v[0].length - p0 && (num < 2 || g_enc_vals[1][1] == v[1].length - p1) && (num < 3 || g_enc_vals[1][2] == v[2].length - p2),
                     "suffix length i == length i - prefix length i");
    __CPROVER_assert(g_app_calls >= 2 && g_app_size[0] == g_enc_written[0] && g_app_size[1] == g_enc_written[1] && g_app_ptr[0] == g_enc_out[0] && g_app_ptr[1] == g_enc_out[1],
                     "prefix lengths section, then suffix lengths section, each whole");
    int32_t pl[3] = {p0, p1, p2};
    int a = 2;
    for (int i = 0; i < CQV_NMAX; i++) {
      if (i < num && v[i].length - pl[i] > 0) {
        __CPROVER_assert(a < g_app_calls && g_app_ptr[a] == v[i].data + pl[i] && g_app_size[a] == (size_t)(v[i].length - pl[i]),
                         "suffix i appended from offset prefix length i, suffix length i bytes, in order");
        a++;
      }
    }
    __CPROVER_assert(a == g_app_calls, "nothing else is appended");
    if (num == CQV_NMAX && p1 > 0 && p2 > 0) CQV_CANARY("delta_strings_encode: shared prefixes");
    if (num == CQV_NMAX && v[1].length == 0 && v[0].length > 0 && v[2].length > 0 && v[0].data[0] == v[2].data[0]) CQV_CANARY("delta_strings_encode: empty value between two values with a common prefix");
  }
  __CPROVER_assert(!g_app_failed || st != CARQUET_OK, "a failed append is reported");
  __CPROVER_assert(!(g_enc_fail[0] || g_enc_fail[1]) || st != CARQUET_OK, "a failed integer section is reported");
  free_values(v);
  CQV_CANARY("delta_strings_encode end");
}
