/* C17/C04: file schemas -- real count_leaves / traverse_schema_recursive / compute_levels /
 * build_schema of src/reader/file_reader.c on a symbolic element list. */
#include "cqv.h"
#include <stdlib.h>
#ifndef CQV_N
#define CQV_N 5          /* element list length bound of the bounded jobs */
#endif
#ifndef CQV_NC
#define CQV_NC 4         /* num_children bound of the bounded jobs */
#endif
#define SPEC_SCHEMA_MAXN CQV_N
#include "schema_spec.h"
#ifndef CQV_FR_MAXN
#define CQV_FR_MAXN (1 << 27)
#endif
long cqv_work; int cqv_depth, cqv_depth_max;   /* ghost: calls of traverse_schema_recursive, recursion depth */
#include "src/reader/file_reader.c"

void h_count_leaves(void) {
  const parquet_schema_element_t *e = nondet_ptr();
  int32_t n = nondet_i32();
  if (n > 0) { __CPROVER_assume(n <= CQV_FR_MAXN); e = malloc((size_t)n * sizeof(*e)); __CPROVER_assume(e != NULL); }
  int32_t r = count_leaves(e, n);
  CQV_CANARY("count_leaves returns");
}

/* all element lists with <= CQV_N elements, child counts 0..CQV_NC (plus one attacker value), any
 * repetition labels: build_schema stays inside its arrays; for lists that are exactly one tree the
 * result equals the textbook definition */
static parquet_file_metadata_t md;
static carquet_arena_t arena;
static spec_node_t sn[CQV_N];
static carquet_schema_t *mk_file_schema(int32_t *pn) {
  int32_t n = nondet_i32();
  __CPROVER_assume(n >= 0 && n <= CQV_N);
  parquet_schema_element_t *e = malloc((size_t)n * sizeof(*e));
  __CPROVER_assume(e != NULL);
  for (int i = 0; i < CQV_N; i++) {
    if (i < n) {
      int32_t nc = nondet_i32();
      __CPROVER_assume(nc >= 0 && nc <= CQV_NC);
      int rep = nondet_int();
      _Bool hr = nondet_bool();
      e[i].num_children = nc; e[i].has_repetition = hr; e[i].repetition_type = (carquet_field_repetition_t)rep;
      sn[i].num_children = nc;
      sn[i].is_optional = hr && rep == CARQUET_REPETITION_OPTIONAL;
      sn[i].is_repeated = hr && rep == CARQUET_REPETITION_REPEATED;
    }
  }
  md.schema = e; md.num_schema_elements = n;
  *pn = n;
  carquet_error_t err;
  cqv_work = 0; cqv_depth = 0; cqv_depth_max = 0;
  return build_schema(&arena, &md, nondet_bool() ? &err : NULL);
}

void h_file_schema_spec(void) {
  int32_t n;
  carquet_schema_t *s = mk_file_schema(&n);
  if (s) {
    spec_schema_t sp;
    spec_schema_levels(sn, n, &sp);
    __CPROVER_assert(s->num_elements == n && s->elements == md.schema, "schema refers to the file's element list");
    __CPROVER_assert(s->num_leaves >= 0 && s->num_leaves <= n, "leaf count within the element count");
    if (sp.wf) {
      CQV_CANARY("well-formed tree reached");
      __CPROVER_assert(s->num_leaves == sp.num_leaves, "columns are exactly the leaves");
      for (int j = 0; j < CQV_N; j++) {
        if (j < sp.num_leaves) {
          __CPROVER_assert(s->leaf_indices[j] == sp.leaf_index[j], "leaves in depth-first order");
          __CPROVER_assert(s->max_def_levels[j] == sp.max_def[j], "max_def == optional/repeated nodes on the path");
          __CPROVER_assert(s->max_rep_levels[j] == sp.max_rep[j], "max_rep == repeated nodes on the path");
          if (sp.max_def[j] == 2 && sp.max_rep[j] == 1) CQV_CANARY("a leaf at def 2 / rep 1 reached");
        }
      }
    }
    __CPROVER_assert(cqv_depth == 0 && cqv_depth_max <= n, "recursion depth bounded by the element count");
  }
  CQV_CANARY("file schema harness end");
}

/* termination bound: one call of traverse_schema_recursive per element (+1) */
void h_file_schema_work(void) {
  int32_t n;
  carquet_schema_t *s = mk_file_schema(&n);
  __CPROVER_assert(cqv_work <= 2 * (long)n + 1, "C04: traversal work is proportional to the element count");
  CQV_CANARY("file schema work harness end");
}
