/* C17/C04: file schemas -- real count_leaves / traverse_schema_recursive / compute_levels /
 * build_schema of src/reader/file_reader.c on a symbolic element list. */
#include "cqv.h"
#include <stdlib.h>
#ifndef CQV_FR_MAXN
#define CQV_FR_MAXN 0x7fffffff
#endif
/* ghosts, see contracts/file_reader_schema.ovl */
int32_t cqv_cap; const int32_t *cqv_L; int16_t cqv_exp_def, cqv_exp_rep; _Bool cqv_trav_entered, cqv_count_link;
#include "src/reader/file_reader.c"
#ifdef CQV_REAL_REC
/* bounded whole-tree job: the contract twin is given the real behaviour (plain recursion) */
static int32_t traverse_schema_recursive__rec(schema_traverse_ctx_t *ctx, int32_t element_idx, int16_t def_level, int16_t rep_level) {
  return traverse_schema_recursive(ctx, element_idx, def_level, rep_level);
}
#endif

/* independent reading of the format: contribution of one node to the levels */
#define SPEC_DEF_CONTRIB(e) (((e)->has_repetition && ((e)->repetition_type == CARQUET_REPETITION_OPTIONAL || (e)->repetition_type == CARQUET_REPETITION_REPEATED)) ? 1 : 0)
#define SPEC_REP_CONTRIB(e) (((e)->has_repetition && (e)->repetition_type == CARQUET_REPETITION_REPEATED) ? 1 : 0)

static schema_traverse_ctx_t cx;
static int32_t t_idx; static int16_t t_def, t_rep;
/* arbitrary traversal state: element list of any length, leaf arrays with cqv_cap entries, ghost
 * suffix leaf count cqv_L with its defining facts at the instances the proof uses */
static void mk_ctx(void) {
  int32_t n = nondet_i32();
  __CPROVER_assume(n >= 0 && n <= CQV_FR_MAXN);
  parquet_schema_element_t *e = malloc((size_t)n * sizeof(*e));
  int32_t *L = malloc(((size_t)n + 1) * sizeof(int32_t));
  cqv_cap = nondet_i32();
  __CPROVER_assume(cqv_cap >= 0 && cqv_cap <= n);
  int16_t *md = malloc((size_t)cqv_cap * sizeof(int16_t)), *mr = malloc((size_t)cqv_cap * sizeof(int16_t));
  int32_t *li = malloc((size_t)cqv_cap * sizeof(int32_t));
  __CPROVER_assume(e && L && md && mr && li);
  cqv_L = L;
  cx.elements = e; cx.num_elements = n; cx.max_def = md; cx.max_rep = mr; cx.leaf_indices = li;
  cx.leaf_idx = nondet_i32(); cx.depth = nondet_i32(); cx.too_deep = nondet_bool();
  t_idx = nondet_i32(); t_def = (int16_t)nondet_i32(); t_rep = (int16_t)nondet_i32();
  __CPROVER_assume(t_idx >= 0 && t_idx <= n);
  __CPROVER_assume(t_def >= 0 && t_def <= 1000 && t_rep >= 0 && t_rep <= t_def);
  /* definition of the ghost suffix leaf count at the instances used */
  __CPROVER_assume(L[n] == 0 && L[t_idx] >= 0 && L[t_idx] <= n);
  if (t_idx < n) __CPROVER_assume(L[t_idx + 1] >= 0 && L[t_idx + 1] <= n && (int64_t)L[t_idx] == (int64_t)L[t_idx + 1] + (e[t_idx].num_children == 0 ? 1 : 0));
  cqv_trav_entered = 0;
  if (t_idx < n) { cqv_exp_def = (int16_t)(t_def + SPEC_DEF_CONTRIB(&e[t_idx])); cqv_exp_rep = (int16_t)(t_rep + SPEC_REP_CONTRIB(&e[t_idx])); }
}

/* (b) whole function against its contract; recursive calls = contract twin */
void h_traverse(void) {
  mk_ctx();
  int32_t r = traverse_schema_recursive(&cx, t_idx, t_def, t_rep);
  CQV_CANARY("traverse returns");
  if (r == t_idx) CQV_CANARY("traverse: past the end");
  if ((int64_t)r > (int64_t)t_idx + 1) CQV_CANARY("traverse: group consumed several elements");
}

/* (a) LEAF lemma: the recorded levels are the textbook ones */
void h_traverse_leaf(void) {
  mk_ctx();
  int32_t n = cx.num_elements, li = cx.leaf_idx;
  __CPROVER_assume(t_idx < n && cx.depth >= 0 && cx.depth < CARQUET_MAX_SCHEMA_DEPTH && li >= 0 && li < cqv_cap);
  const parquet_schema_element_t *e = &cx.elements[t_idx];
  __CPROVER_assume(e->num_children == 0);
  int dc = SPEC_DEF_CONTRIB(e), rc = SPEC_REP_CONTRIB(e);
  int32_t depth0 = cx.depth; _Bool td0 = cx.too_deep;
  int32_t r = traverse_schema_recursive(&cx, t_idx, t_def, t_rep);
  __CPROVER_assert(r == t_idx + 1, "leaf: consumes exactly one element");
  __CPROVER_assert(cx.leaf_idx == li + 1, "leaf: one column more");
  __CPROVER_assert(cx.leaf_indices[li] == t_idx, "leaf: column maps to this element");
  __CPROVER_assert(cx.max_def[li] == t_def + dc, "leaf: max_def == inherited + (OPTIONAL or REPEATED)");
  __CPROVER_assert(cx.max_rep[li] == t_rep + rc, "leaf: max_rep == inherited + (REPEATED)");
  __CPROVER_assert(cx.depth == depth0 && cx.too_deep == td0, "leaf: depth and flag untouched");
  if (dc == 1 && rc == 1) CQV_CANARY("leaf: repeated leaf reached");
  if (dc == 1 && rc == 0) CQV_CANARY("leaf: optional leaf reached");
  if (dc == 0) CQV_CANARY("leaf: required leaf reached");
  CQV_CANARY("leaf lemma end");
}

/* count_leaves: stays inside the list, terminates, result in [0, count] */
void h_count_leaves(void) {
  int32_t n = nondet_i32();
  parquet_schema_element_t *e = NULL;
  if (n > 0) { e = malloc((size_t)n * sizeof(*e)); __CPROVER_assume(e != NULL); }
  cqv_count_link = 0;
  int32_t r = count_leaves(e, n);
  CQV_CANARY("count_leaves returns");
}

/* (c) build_schema + compute_levels on any element list; traverse_schema_recursive and count_leaves
 * replaced by their contracts.  Root children receive levels 0/0 (cqv_exp_* = 0, binding from the
 * first call on). */
void h_build_schema(void) {
  static parquet_file_metadata_t md;
  static carquet_arena_t arena;
  carquet_error_t err;
  int32_t n = nondet_i32();
  __CPROVER_assume(n <= CQV_FR_MAXN);
  size_t cnt = n > 0 ? (size_t)n : 0;
  parquet_schema_element_t *e = malloc(cnt * sizeof(*e));
  int32_t *L = malloc((cnt + 1) * sizeof(int32_t));
  __CPROVER_assume(e && L);
  cqv_L = L;
  /* ghost suffix leaf count: instances used here */
  __CPROVER_assume(L[cnt] == 0 && L[0] >= 0 && L[0] <= n);
  if (n >= 2) __CPROVER_assume(L[1] >= 0 && L[1] <= L[0]);
  cqv_cap = n > 0 ? L[0] : 0;
  cqv_count_link = 1; cqv_trav_entered = 1; cqv_exp_def = 0; cqv_exp_rep = 0;
  md.schema = e; md.num_schema_elements = n;
  _Bool have_err = nondet_bool();
  if (have_err) err.code = CARQUET_OK;
  carquet_schema_t *s = build_schema(&arena, &md, have_err ? &err : NULL);
  if (s) {
    CQV_CANARY("build_schema can succeed");
    __CPROVER_assert(s->elements == e && s->num_elements == n, "schema refers to the file's element list");
    __CPROVER_assert(s->num_leaves == cqv_cap && s->num_leaves >= 0 && (n <= 0 || s->num_leaves <= n), "column count == number of leaves");
    __CPROVER_assert(__CPROVER_r_ok(s->leaf_indices, (size_t)s->num_leaves * 4) && __CPROVER_r_ok(s->max_def_levels, (size_t)s->num_leaves * 2) && __CPROVER_r_ok(s->max_rep_levels, (size_t)s->num_leaves * 2), "leaf arrays hold num_leaves entries");
  } else {
    CQV_CANARY("build_schema can fail");
    __CPROVER_assert(!have_err || err.code != CARQUET_OK, "failure reports a non-OK code");
    __CPROVER_assert(!have_err || err.message[CARQUET_ERROR_MESSAGE_MAX - 1] == 0, "error message NUL-terminated");
  }
  CQV_CANARY("build_schema harness end");
}

#ifdef CQV_REAL_REC
#ifndef CQV_N
#define CQV_N 4
#endif
#define SPEC_SCHEMA_MAXN CQV_N
#include "schema_spec.h"
/* (3) every WELL-FORMED element list (exactly one tree) with <= CQV_N elements, any repetition labels:
 * build_schema == textbook definition (specs/schema_spec.h) */
void h_file_schema_spec(void) {
  static parquet_file_metadata_t md;
  static carquet_arena_t arena;
  static spec_node_t sn[CQV_N];
  int32_t n = nondet_i32();
  __CPROVER_assume(n >= 2 && n <= CQV_N);
  parquet_schema_element_t *e = malloc((size_t)n * sizeof(*e));
  __CPROVER_assume(e != NULL);
  for (int i = 0; i < CQV_N; i++) {
    if (i < n) {
      int32_t nc = nondet_i32();
      __CPROVER_assume(nc >= 0 && nc < CQV_N);
      int rep = nondet_int();
      _Bool hr = nondet_bool();
      e[i].num_children = nc; e[i].has_repetition = hr; e[i].repetition_type = (carquet_field_repetition_t)rep;
      sn[i].num_children = nc;
      sn[i].is_optional = hr && rep == CARQUET_REPETITION_OPTIONAL;
      sn[i].is_repeated = hr && rep == CARQUET_REPETITION_REPEATED;
    }
  }
  /* the root contributes nothing ("required by definition") */
  sn[0].is_optional = 0; sn[0].is_repeated = 0;
  spec_schema_t sp;
  spec_schema_levels(sn, n, &sp);
  __CPROVER_assume(sp.wf);
  md.schema = e; md.num_schema_elements = n;
  carquet_schema_t *s = build_schema(&arena, &md, NULL);
  if (s) {
    CQV_CANARY("well-formed tree built");
    __CPROVER_assert(s->num_leaves == sp.num_leaves, "columns are exactly the leaves");
    for (int j = 0; j < CQV_N; j++) {
      if (j < sp.num_leaves) {
        __CPROVER_assert(s->leaf_indices[j] == sp.leaf_index[j], "leaves in depth-first order");
        __CPROVER_assert(s->max_def_levels[j] == sp.max_def[j], "max_def == optional/repeated nodes on the path");
        __CPROVER_assert(s->max_rep_levels[j] == sp.max_rep[j], "max_rep == repeated nodes on the path");
#if CQV_N >= 3
        if (sp.max_def[j] == 2 && sp.max_rep[j] == 1) CQV_CANARY("a leaf at def 2 / rep 1 reached");
#else
        if (sp.max_def[j] == 1 && sp.max_rep[j] == 1) CQV_CANARY("a leaf at def 1 / rep 1 reached");
#endif
      }
    }
  }
  CQV_CANARY("file schema spec harness end");
}
#endif
