/* C17/C02 (bounded): carquet_schema_find_column returns the FIRST leaf whose name equals `name`
 * exactly (same length, same bytes), or -1.  <= 3 leaves, <= 4 elements, names of length <= 4.
 * strcmp/strncmp/strlen are the exact small-bound models of stubs/schema_stubs.c. */
#include "cqv.h"
#include <stdlib.h>
#include "src/metadata/schema.c"
#define NE 4
#define NL 3
#define SL 5   /* bytes per name incl. NUL */

static _Bool spec_eq(const char *a, const char *b) {   /* independent bytewise equality incl. length */
  _Bool eq = 1, done = 0;
  for (int i = 0; i < SL; i++) {
    if (!done) { if (a[i] != b[i]) { eq = 0; done = 1; } else if (a[i] == 0) done = 1; }
  }
  return eq;
}

void h_find_column(void) {
  static carquet_schema_t s;
  static parquet_schema_element_t el[NE];
  static char names[NE][SL];
  static int32_t li[NL];
  char q[SL];
  int32_t ne = nondet_i32(), nl = nondet_i32();
  __CPROVER_assume(ne >= 1 && ne <= NE && nl >= 0 && nl <= NL && nl < ne);
  for (int i = 0; i < NE; i++) {
    for (int b = 0; b < SL - 1; b++) names[i][b] = (char)nondet_u8();
    names[i][SL - 1] = 0;
    el[i].name = nondet_bool() ? names[i] : NULL;
  }
  for (int b = 0; b < SL - 1; b++) q[b] = (char)nondet_u8();
  q[SL - 1] = 0;
  for (int j = 0; j < NL; j++) { li[j] = nondet_i32(); __CPROVER_assume(li[j] >= 0 && li[j] < ne); }
  s.elements = el; s.num_elements = ne; s.capacity = NE; s.leaf_indices = li; s.num_leaves = nl;
  int32_t r = carquet_schema_find_column(&s, q);
  __CPROVER_assert(r >= -1 && r < nl, "result is -1 or a column index");
  for (int j = 0; j < NL; j++) {
    if (j < nl) {
      const char *nm = el[li[j]].name;
      _Bool eq = nm != NULL && spec_eq(nm, q);
      if (r == j) __CPROVER_assert(eq, "the returned column's name equals the requested name exactly");
      if (r == -1 || j < r) __CPROVER_assert(!eq, "no earlier column (or none at all) has that exact name");
      if (r == j && j == 2) CQV_CANARY("find: third column found");
    }
  }
  if (r == -1 && nl == 3) CQV_CANARY("find: not found among three");
  CQV_CANARY("find_column harness end");
}
