/* C17/C19: schema builder of the real src/metadata/schema.c.
 * "Harness is the contract": the representation invariant REP(s) is built as an arbitrary state,
 * ONE real API call is made, the post-state is asserted (=> any number of calls by induction). */
#include "cqv.h"
#include <stdlib.h>
extern const char *cqv_strdup_src;
extern char *cqv_strdup_ret;
extern int cqv_strdup_calls, cqv_arena_live, cqv_error_sets;
extern struct cqv_re_s { const void *obj; int kind; size_t i0, i1; } cqv_re[4];
#define KEEP(w, o, k_, a, b) (cqv_re[w].obj = (o), cqv_re[w].kind = (k_), cqv_re[w].i0 = (a), cqv_re[w].i1 = (b))
#ifndef CQV_SCHEMA_MAX_CAP
#define CQV_SCHEMA_MAX_CAP (((int32_t)1 << 30) - 1)
#endif
int32_t cqv_gk, cqv_gj;   /* ghost indices used by the contract of schema_ensure_capacity */
#include "src/metadata/schema.c"

#define ELEM_SZ sizeof(parquet_schema_element_t)
_Static_assert(sizeof(parquet_schema_element_t) == 80, "realloc window size in stubs/schema_stubs.c");

/* REP(s): 1 <= num_elements <= capacity, 0 <= num_leaves < num_elements, the four arrays hold at
 * least `capacity` entries (more after a partially failed growth), root.num_children counts the
 * elements below the root (the builder only adds at root level). */
static carquet_schema_t *mk_schema(void) {
  carquet_schema_t *s = malloc(sizeof(*s));
  __CPROVER_assume(s != NULL);
  int32_t cap = nondet_i32(), ne = nondet_i32(), nl = nondet_i32();
  __CPROVER_assume(cap >= 1 && cap <= CQV_SCHEMA_MAX_CAP && ne >= 1 && ne <= cap && nl >= 0 && nl < ne);
#ifdef CQV_NOGROW
  __CPROVER_assume(ne < cap);
#endif
#ifdef CQV_GROW
  __CPROVER_assume(ne == cap);
#endif
  uint32_t c1 = nondet_u32(), c2 = nondet_u32(), c3 = nondet_u32(), c4 = nondet_u32();
  __CPROVER_assume(c1 >= (uint32_t)cap && c2 >= (uint32_t)cap && c3 >= (uint32_t)cap && c4 >= (uint32_t)cap);
  s->capacity = cap; s->num_elements = ne; s->num_leaves = nl;
  s->elements = malloc((size_t)c1 * ELEM_SZ);
  s->leaf_indices = malloc((size_t)c2 * sizeof(int32_t));
  s->max_def_levels = malloc((size_t)c3 * sizeof(int16_t));
  s->max_rep_levels = malloc((size_t)c4 * sizeof(int16_t));
  __CPROVER_assume(s->elements && s->leaf_indices && s->max_def_levels && s->max_rep_levels);
  __CPROVER_assume(s->elements[0].num_children == ne - 1);
  s->arena.head = malloc(sizeof(carquet_arena_block_t));
  __CPROVER_assume(s->arena.head != NULL);
  s->arena.current = s->arena.head;
  cqv_arena_live = 1;
  return s;
}

static void check_rep(const carquet_schema_t *s) {
  __CPROVER_assert(s->capacity >= 1 && s->num_elements >= 1 && s->num_elements <= s->capacity, "REP: 1 <= num_elements <= capacity");
  __CPROVER_assert(s->num_leaves >= 0 && s->num_leaves < s->num_elements, "REP: 0 <= num_leaves < num_elements");
  __CPROVER_assert(__CPROVER_w_ok(s->elements, (size_t)s->capacity * ELEM_SZ), "REP: elements holds capacity entries");
  __CPROVER_assert(__CPROVER_w_ok(s->leaf_indices, (size_t)s->capacity * sizeof(int32_t)), "REP: leaf_indices holds capacity entries");
  __CPROVER_assert(__CPROVER_w_ok(s->max_def_levels, (size_t)s->capacity * sizeof(int16_t)), "REP: max_def_levels holds capacity entries");
  __CPROVER_assert(__CPROVER_w_ok(s->max_rep_levels, (size_t)s->capacity * sizeof(int16_t)), "REP: max_rep_levels holds capacity entries");
  __CPROVER_assert(s->elements[0].num_children == s->num_elements - 1, "REP: root.num_children counts the added elements");
}

#ifndef CQV_PART
#define CQV_PART 0
#endif
/* CQV_PART 0: state/frame postconditions; 1: definition level; 2: allocation failure (C19) */
void h_add_column(void) {
  carquet_schema_t *s = mk_schema();
  int32_t ne = s->num_elements, nl = s->num_leaves;
  /* ghost indices instead of quantifiers */
  int32_t k = nondet_i32(), j = nondet_i32();
  __CPROVER_assume(k >= 1 && k < ne);           /* any old non-root element (if there is one) */
  __CPROVER_assume(j >= 0 && j < nl);           /* any old leaf (if there is one) */
  _Bool have_k = ne > 1, have_j = nl > 0;
  char *old_k_name = NULL; int old_k_type = 0, old_k_rep = 0; int32_t old_k_nc = 0, old_k_tl = 0; int32_t old_li = 0; int16_t old_d = 0, old_r = 0;
  if (have_k) { old_k_name = s->elements[k].name; old_k_type = s->elements[k].type; old_k_rep = s->elements[k].repetition_type; old_k_nc = s->elements[k].num_children; old_k_tl = s->elements[k].type_length; }
  if (have_j) { old_li = s->leaf_indices[j]; old_d = s->max_def_levels[j]; old_r = s->max_rep_levels[j]; }
  char *old_root_name = s->elements[0].name;

  cqv_gk = have_k ? k : 0; cqv_gj = have_j ? j : 0;
  /* positions whose preservation across realloc is observed (see stubs/schema_stubs.c) */
  KEEP(0, s->elements, 1, 0, (size_t)cqv_gk);
  KEEP(1, s->leaf_indices, 2, (size_t)cqv_gj, 0);
  KEEP(2, s->max_def_levels, 3, (size_t)cqv_gj, 0);
  KEEP(3, s->max_rep_levels, 3, (size_t)cqv_gj, 0);

  size_t nlen = nondet_size_t();
  __CPROVER_assume(nlen >= 1 && nlen <= CQV_MAXBUF);
  char *name = malloc(nlen);
  __CPROVER_assume(name != NULL);
  name[nlen - 1] = 0;
  carquet_physical_type_t pt = (carquet_physical_type_t)nondet_int();
  int rep_i = nondet_int();   /* numeric copy for the native replayer */
  carquet_field_repetition_t rep = (carquet_field_repetition_t)rep_i;
  __CPROVER_assume(rep == CARQUET_REPETITION_REQUIRED || rep == CARQUET_REPETITION_OPTIONAL || rep == CARQUET_REPETITION_REPEATED);
  int32_t tl = nondet_i32();
  carquet_logical_type_t lt;
  lt.id = (carquet_logical_type_id_t)nondet_int(); lt.params.decimal.precision = nondet_i32(); lt.params.decimal.scale = nondet_i32();
  _Bool have_lt = nondet_bool();
  cqv_strdup_calls = 0;

  carquet_status_t st = carquet_schema_add_column(s, name, pt, have_lt ? &lt : NULL, rep, tl);
  int oom = (cqv_strdup_ret == NULL);   /* for the native replayer: the name copy failed */

  if (st == CARQUET_OK) {
    CQV_CANARY("add_column can succeed");
#if CQV_PART == 0
    check_rep(s);
    __CPROVER_assert(s->num_elements == ne + 1 && s->num_leaves == nl + 1, "one element and one leaf more");
    __CPROVER_assert(s->leaf_indices[nl] == ne, "the new leaf maps to the new element");
    const parquet_schema_element_t *e = &s->elements[ne];
    __CPROVER_assert(cqv_strdup_calls == 1 && cqv_strdup_src == name && e->name == cqv_strdup_ret, "stored name is the arena copy of the caller's name");
    __CPROVER_assert(e->has_type && e->type == pt, "physical type stored");
    __CPROVER_assert(e->has_repetition && e->repetition_type == rep, "repetition stored");
    __CPROVER_assert(e->type_length == tl, "type length stored");
    __CPROVER_assert(e->num_children == 0, "a column has no children");
    __CPROVER_assert(e->has_logical_type == have_lt, "logical type presence stored");
    if (have_lt) {
      __CPROVER_assert(e->logical_type.id == lt.id, "logical type id stored");
      __CPROVER_assert(e->logical_type.params.decimal.precision == lt.params.decimal.precision && e->logical_type.params.decimal.scale == lt.params.decimal.scale, "logical type parameters stored");
    }
    __CPROVER_assert(s->max_rep_levels[nl] == (rep == CARQUET_REPETITION_REPEATED ? 1 : 0), "max repetition level == number of REPEATED nodes on the path");
    if (have_k) {
      const parquet_schema_element_t *o = &s->elements[k];
      __CPROVER_assert(o->name == old_k_name && o->type == old_k_type && o->repetition_type == old_k_rep && o->num_children == old_k_nc && o->type_length == old_k_tl,
                       "every earlier element is kept (also across growth)");
    }
    if (have_j) __CPROVER_assert(s->leaf_indices[j] == old_li && s->max_def_levels[j] == old_d && s->max_rep_levels[j] == old_r, "every earlier leaf entry is kept (also across growth)");
    __CPROVER_assert(s->elements[0].name == old_root_name, "root keeps its name");
#elif CQV_PART == 1
    __CPROVER_assert(s->max_def_levels[nl] == ((rep == CARQUET_REPETITION_OPTIONAL || rep == CARQUET_REPETITION_REPEATED) ? 1 : 0), "max definition level == number of OPTIONAL or REPEATED nodes on the path");
#else
    check_rep(s);
    __CPROVER_assert(s->elements[ne].name != NULL, "C19: success means fully updated state (name copy not lost)");
#endif
  } else {
#ifndef CQV_NOGROW
    CQV_CANARY("add_column can fail");
#endif
#if CQV_PART == 2
    check_rep(s);
    __CPROVER_assert(s->num_elements == ne && s->num_leaves == nl, "C19: on error the schema still describes the same columns");
    if (have_k) __CPROVER_assert(s->elements[k].name == old_k_name && s->elements[k].type == old_k_type && s->elements[k].repetition_type == old_k_rep, "C19: on error earlier elements are kept");
    if (have_j) __CPROVER_assert(s->leaf_indices[j] == old_li && s->max_def_levels[j] == old_d && s->max_rep_levels[j] == old_r, "C19: on error earlier leaves are kept");
#endif
  }
  carquet_schema_free(s);   /* the handle can still be freed normally */
  __CPROVER_assert(cqv_arena_live == 0, "free destroys the arena");
  free(name);
  CQV_CANARY("add_column harness end");
}

/* add_group: CQV_PART 0 state, 2 name copy under allocation failure */
void h_add_group(void) {
  carquet_schema_t *s = mk_schema();
  int32_t ne = s->num_elements, nl = s->num_leaves;
  int32_t k = nondet_i32();
  __CPROVER_assume(k >= 1 && k < ne);
  _Bool have_k = ne > 1;
  char *old_k_name = NULL; int32_t old_k_nc = 0; int old_k_rep = 0;
  if (have_k) { old_k_name = s->elements[k].name; old_k_nc = s->elements[k].num_children; old_k_rep = s->elements[k].repetition_type; }
  char *old_root_name = s->elements[0].name;
  size_t nlen = nondet_size_t();
  __CPROVER_assume(nlen >= 1 && nlen <= CQV_MAXBUF);
  char *name = malloc(nlen);
  __CPROVER_assume(name != NULL);
  name[nlen - 1] = 0;
  int rep_i = nondet_int();
  __CPROVER_assume(rep_i >= 0 && rep_i <= 2);
  int32_t parent = nondet_i32();
  cqv_strdup_calls = 0;
  int32_t r = carquet_schema_add_group(s, name, (carquet_field_repetition_t)rep_i, parent);
  if (r >= 0) {
    CQV_CANARY("add_group can succeed");
#if CQV_PART == 0
    check_rep(s);
    __CPROVER_assert(parent == -1 || parent == 0, "only root-level groups are accepted");
    __CPROVER_assert(r == ne && s->num_elements == ne + 1 && s->num_leaves == nl, "one element more, same columns, index returned");
    const parquet_schema_element_t *e = &s->elements[ne];
    __CPROVER_assert(cqv_strdup_calls == 1 && cqv_strdup_src == name && e->name == cqv_strdup_ret, "stored name is the arena copy of the caller's name");
    __CPROVER_assert(!e->has_type && e->has_repetition && e->repetition_type == (carquet_field_repetition_t)rep_i && e->num_children == 0 && !e->has_logical_type, "group element stored");
    if (have_k) __CPROVER_assert(s->elements[k].name == old_k_name && s->elements[k].num_children == old_k_nc && s->elements[k].repetition_type == old_k_rep, "earlier elements kept");
    __CPROVER_assert(s->elements[0].name == old_root_name, "root keeps its name");
#else
    __CPROVER_assert(s->elements[ne].name != NULL, "C19: success means fully updated state (name copy not lost)");
#endif
  } else {
    CQV_CANARY("add_group can refuse");
    __CPROVER_assert(r == -1, "error value is -1");
    check_rep(s);
    __CPROVER_assert(s->num_elements == ne && s->num_leaves == nl, "on error the schema still describes the same columns");
  }
  carquet_schema_free(s);
  free(name);
  CQV_CANARY("add_group harness end");
}

/* accessors return exactly the stored fields; get_element rejects out-of-range indices */
void h_accessors(void) {
  carquet_schema_t *s = mk_schema();
  int32_t idx = nondet_i32();
  __CPROVER_assert(carquet_schema_num_columns(s) == s->num_leaves && carquet_schema_num_elements(s) == s->num_elements, "counts");
  const carquet_schema_node_t *nd = carquet_schema_get_element(s, idx);
  if (idx < 0 || idx >= s->num_elements) {
    __CPROVER_assert(nd == NULL, "out-of-range element index gives NULL");
    CQV_CANARY("accessors: index rejected");
  } else {
    const parquet_schema_element_t *e = &s->elements[idx];
    __CPROVER_assert((const void *)nd == (const void *)e, "node is the element");
    __CPROVER_assert(carquet_schema_node_name(nd) == e->name, "name");
    __CPROVER_assert(carquet_schema_node_is_leaf(nd) == e->has_type, "leaf flag");
    __CPROVER_assert(carquet_schema_node_physical_type(nd) == e->type, "physical type");
    __CPROVER_assert(carquet_schema_node_repetition(nd) == e->repetition_type, "repetition");
    __CPROVER_assert(carquet_schema_node_type_length(nd) == e->type_length, "type length");
    __CPROVER_assert(carquet_schema_node_logical_type(nd) == (e->has_logical_type ? &e->logical_type : NULL), "logical type");
    /* flat (root-level) node: levels of the one-node path */
    __CPROVER_assert(carquet_schema_node_max_def_level(nd) == ((e->repetition_type == CARQUET_REPETITION_OPTIONAL || e->repetition_type == CARQUET_REPETITION_REPEATED) ? 1 : 0), "node max_def for a root-level node");
    __CPROVER_assert(carquet_schema_node_max_rep_level(nd) == (e->repetition_type == CARQUET_REPETITION_REPEATED ? 1 : 0), "node max_rep for a root-level node");
    CQV_CANARY("accessors: element returned");
  }
  CQV_CANARY("accessors harness end");
}
