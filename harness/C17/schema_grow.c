/* C17/C19 (bounded): growth path of the real schema_ensure_capacity (and add_column through it).
 * Old capacity CQV_CAP in {1,2,3}: the four arrays are malloc'ed with EXACTLY capacity entries,
 * arbitrary contents; realloc is CBMC's own model (new object, full copy, old freed; may return
 * NULL under --malloc-may-fail leaving the old block alone). */
#include "cqv.h"
#include <stdlib.h>
extern int cqv_arena_live;
#include "src/metadata/schema.c"
#ifndef CQV_CAP
#define CQV_CAP 2
#endif
#ifndef CQV_REQ
#define CQV_REQ (CQV_CAP + 1)
#endif

typedef struct { char *name; _Bool has_type, has_rep, has_lt; int type, rep, lt_id; int32_t tl, nc, scale, precision, field_id; } snap_t;
static snap_t snap_of(const parquet_schema_element_t *e) {
  snap_t s = { e->name, e->has_type, e->has_repetition, e->has_logical_type, e->type, e->repetition_type, e->logical_type.id,
               e->type_length, e->num_children, e->scale, e->precision, e->field_id };
  return s;
}
static _Bool snap_eq(const snap_t *a, const snap_t *b) {
  return a->name == b->name && a->has_type == b->has_type && a->has_rep == b->has_rep && a->has_lt == b->has_lt && a->type == b->type &&
         a->rep == b->rep && a->lt_id == b->lt_id && a->tl == b->tl && a->nc == b->nc && a->scale == b->scale &&
         a->precision == b->precision && a->field_id == b->field_id;
}

static carquet_schema_t *s;
static snap_t old_e[CQV_CAP]; static int32_t old_li[CQV_CAP]; static int16_t old_d[CQV_CAP], old_r[CQV_CAP];
static void mk(void) {
  s = malloc(sizeof(*s));
  __CPROVER_assume(s != NULL);
  s->capacity = CQV_CAP;
  s->num_elements = nondet_i32(); s->num_leaves = nondet_i32();
  __CPROVER_assume(s->num_elements >= 1 && s->num_elements <= CQV_CAP && s->num_leaves >= 0 && s->num_leaves < s->num_elements);
  s->elements = malloc(CQV_CAP * sizeof(parquet_schema_element_t));
  s->leaf_indices = malloc(CQV_CAP * sizeof(int32_t));
  s->max_def_levels = malloc(CQV_CAP * sizeof(int16_t));
  s->max_rep_levels = malloc(CQV_CAP * sizeof(int16_t));
  s->arena.head = malloc(sizeof(carquet_arena_block_t));
  __CPROVER_assume(s->elements && s->leaf_indices && s->max_def_levels && s->max_rep_levels && s->arena.head);
  s->arena.current = s->arena.head;
  cqv_arena_live = 1;
  __CPROVER_assume(s->elements[0].num_children == s->num_elements - 1);
  for (int k = 0; k < CQV_CAP; k++) {
    old_e[k] = snap_of(&s->elements[k]); old_li[k] = s->leaf_indices[k]; old_d[k] = s->max_def_levels[k]; old_r[k] = s->max_rep_levels[k];
  }
}
static void check_arrays(int32_t cap) {
  __CPROVER_assert(__CPROVER_w_ok(s->elements, (size_t)cap * sizeof(parquet_schema_element_t)), "elements holds capacity entries");
  __CPROVER_assert(__CPROVER_w_ok(s->leaf_indices, (size_t)cap * sizeof(int32_t)), "leaf_indices holds capacity entries");
  __CPROVER_assert(__CPROVER_w_ok(s->max_def_levels, (size_t)cap * sizeof(int16_t)), "max_def_levels holds capacity entries");
  __CPROVER_assert(__CPROVER_w_ok(s->max_rep_levels, (size_t)cap * sizeof(int16_t)), "max_rep_levels holds capacity entries");
}
static void check_kept(void) {
  for (int k = 0; k < CQV_CAP; k++) {
    snap_t now = snap_of(&s->elements[k]);
    __CPROVER_assert(snap_eq(&now, &old_e[k]), "every old element entry is preserved");
    __CPROVER_assert(s->leaf_indices[k] == old_li[k], "every old leaf_indices entry is preserved");
    __CPROVER_assert(s->max_def_levels[k] == old_d[k], "every old max_def_levels entry is preserved");
    __CPROVER_assert(s->max_rep_levels[k] == old_r[k], "every old max_rep_levels entry is preserved");
  }
}

void h_grow(void) {
  mk();
  /* the request is a job constant (CQV_REQ): keeps the new sizes constant for CBMC's realloc copy */
  const int32_t required = CQV_REQ;
  carquet_status_t st = schema_ensure_capacity(s, required);
  if (st == CARQUET_OK) {
    __CPROVER_assert(s->capacity >= required && s->capacity >= CQV_CAP, "capacity covers the request and never shrinks");
    if (s->capacity > CQV_CAP) CQV_CANARY("grow: capacity grew");
#if CQV_REQ > 2 * CQV_CAP
    __CPROVER_assert(s->capacity == 4 * CQV_CAP, "two doublings");
#else
    __CPROVER_assert(s->capacity == 2 * CQV_CAP, "one doubling");
#endif
  } else {
    CQV_CANARY("grow: allocation failure reported");
    __CPROVER_assert(st == CARQUET_ERROR_OUT_OF_MEMORY, "failure is OUT_OF_MEMORY");
    __CPROVER_assert(s->capacity == CQV_CAP, "C19: failed growth leaves the capacity unchanged");
  }
  check_arrays(s->capacity);
  check_kept();
  carquet_schema_free(s);   /* with --memory-leak-check: nothing is orphaned, nothing freed twice */
  CQV_CANARY("grow harness end");
}

/* add_column at num_elements == capacity (the case excluded from c17_add_column_state) */
void h_add_column_grow(void) {
  mk();
  __CPROVER_assume(s->num_elements == CQV_CAP);
  int32_t ne = s->num_elements, nl = s->num_leaves;
  char name[4] = { 'c', 'o', 'l', 0 };
  int rep_i = nondet_int();
  __CPROVER_assume(rep_i >= 0 && rep_i <= 2);
  int32_t tl = nondet_i32();
  carquet_status_t st = carquet_schema_add_column(s, name, CARQUET_PHYSICAL_INT32, NULL, (carquet_field_repetition_t)rep_i, tl);
  if (st == CARQUET_OK) {
    CQV_CANARY("add_column with growth can succeed");
    __CPROVER_assert(s->capacity == 2 * CQV_CAP && s->num_elements == ne + 1 && s->num_leaves == nl + 1, "grown once, one element and one leaf more");
    check_arrays(s->capacity);
    __CPROVER_assert(s->leaf_indices[nl] == ne && s->elements[ne].type_length == tl && s->elements[ne].repetition_type == (carquet_field_repetition_t)rep_i && s->elements[ne].name != NULL, "new column stored in the grown arrays");
    __CPROVER_assert(s->max_def_levels[nl] == (rep_i != 0 ? 1 : 0) && s->max_rep_levels[nl] == (rep_i == 2 ? 1 : 0), "levels of the new column");
    __CPROVER_assert(s->elements[0].num_children == ne, "root counts the new column");
    for (int k = 1; k < CQV_CAP; k++) { snap_t now = snap_of(&s->elements[k]); __CPROVER_assert(snap_eq(&now, &old_e[k]), "old elements preserved across growth"); }
    for (int k = 0; k < CQV_CAP; k++) if (k < nl) __CPROVER_assert(s->leaf_indices[k] == old_li[k] && s->max_def_levels[k] == old_d[k] && s->max_rep_levels[k] == old_r[k], "old leaf entries preserved across growth");
  } else {
    CQV_CANARY("add_column with growth can fail");
    __CPROVER_assert(s->num_elements == ne && s->num_leaves == nl, "C19: on error the schema still describes the same columns");
    check_arrays(s->capacity);
    check_kept();
  }
  carquet_schema_free(s);
  CQV_CANARY("add_column grow harness end");
}
