/* C09 (size bounds) harnesses for the Snappy COMPRESS side; also the common prelude of
 * harness/C10/snappy.c (which defines CQV_C10 and includes this file).
 * The real src/compression/snappy.c, annotated by contracts/snappy_comp.ovl, is included below. */
#include "cqv.h"
#include <stdlib.h>
#include "snappy_spec.h"

/* constant factors as shift/add (the SAT back end cannot close products, AUTHORING.md) */
#define CQV_MUL3(x) (((x) << 1) + (x))
#define CQV_MUL6(x) (((x) << 2) + ((x) << 1))
#define CQV_MUL7(x) (((x) << 3) - (x))

/* literal header size by length class (format: 60 / 2^8 / 2^16 / 2^24 boundaries) */
/* (ternary-free: CBMC rejects ?: inside assigns targets) */
#define CQV_B(c) ((size_t)(c))   /* c: one relational expression (int 0/1) */
#define CQV_LIT_HDR(n) ((size_t)1 + CQV_B((n) > 60) + CQV_B((n) > 256) + CQV_B((n) > 65536) + CQV_B((n) > 16777216))

/* exact number of bytes snappy_emit_copy may use for (offset,len), len >= 4:
 * k 64-byte chunks (3 bytes each) while len >= 68, one 60-byte chunk if 65..67 remain,
 * final element 2 bytes (len < 12 and offset < 2048) or 3 bytes */
#define CQV_COPY_K(len) ((size_t)(((len) - 4) >> 6))                       /* number of 64-byte chunks */
#define CQV_COPY_LOW(len) ((size_t)(((len) - 4) & 63))                    /* remaining length - 4 after the chunks: 0..63 */
/* tail: 60-byte chunk (3 bytes) when 65..67 remain (low > 60), then the final element: 3 bytes if
 * offset >= 2048 or the final length is >= 12 (low in 8..60), else 2 bytes */
#define CQV_COPY_TAIL(offset, len) ((size_t)(CQV_MUL3(CQV_B(CQV_COPY_LOW(len) > 60)) + 2 + \
    (CQV_B((offset) >= 2048) | (CQV_B(CQV_COPY_LOW(len) >= 8) & CQV_B(CQV_COPY_LOW(len) <= 60)))))
#define CQV_COPY_COST(offset, len) ((size_t)(CQV_MUL3(CQV_COPY_K(len)) + CQV_COPY_TAIL(offset, len)))

/* cap < 32 + n + floor(n/6)  <=>  6*(cap+1) <= 192 + 7*n   (no division) */
#define CQV_CAP_BELOW_BOUND(cap, n) (CQV_MUL6((size_t)(cap)) + 6 <= 192 + CQV_MUL7((size_t)(n)))

/* ghost assertions placed by the overlay */
#ifdef CQV_C10
#define CQV_ELEM_COPY(op, h, off, l, sum, msg) { \
    snappy_spec_elem_t cqv_e = snappy_spec_parse_elem((op) - (h), (h)); \
    __CPROVER_assert(cqv_e.ok && cqv_e.kind == SNAPPY_SPEC_COPY && cqv_e.hdr == (h) && cqv_e.offset == (off) && \
                     cqv_e.offset != 0 && cqv_e.len == (l) && cqv_e.len >= 1 && cqv_e.len <= 64, msg); \
    (sum) += cqv_e.len; }
#else
#define CQV_ELEM_COPY(op, h, off, l, sum, msg) { (sum) += (l); }
#endif
#define CQV_ELEM_SUM(sum, len0, msg) __CPROVER_assert((sum) == (len0), msg)
/* structural validity of the element sequence written by carquet_snappy_compress */
#define CQV_COPY_IN_RANGE(off, mlen, done) __CPROVER_assert((off) >= 1 && (off) <= (done) && (mlen) >= 4, \
    "C10: copy offset is non-zero and does not reach before the start of the output; length >= 4")
#define CQV_STREAM_TOTAL(done, n) __CPROVER_assert((done) == (n), \
    "C10: literal and copy lengths of the emitted elements sum to the input length")
#define CQV_PREAMBLE_FITS(n) __CPROVER_assert((n) <= 0xFFFFFFFFull, \
    "C09/C10: uncompressed length is representable in the 32-bit preamble (else the stream cannot round-trip)")
#ifdef CQV_REFINV
#define CQV_REF_INSIDE(e, n) __CPROVER_assert((size_t)(e) + 15 < (n), "ref = src + table entry lies inside src (>= 15 bytes before the end)")
#else
#define CQV_REF_INSIDE(e, n) ((void)0)
#endif

/* A pointer returned by a callee that is replaced by its contract is a nondeterministic pointer
 * constrained by the ensures clause; CBMC's points-to analysis then lets it alias every object
 * (here the 32 KiB hash table => memory blow-up).  The overlay re-anchors it right after the call:
 * asserted to lie in its buffer, then assigned base + its own offset, which is the identity. */
#define CQV_REANCHOR(p, base) { \
    __CPROVER_assert(__CPROVER_same_object(p, base), "re-anchor is the identity: returned pointer lies in its buffer"); \
    __CPROVER_ssize_t cqv_ro = __CPROVER_POINTER_OFFSET(p) - __CPROVER_POINTER_OFFSET(base); p = (base) + cqv_ro; }

/* reach canaries of carquet_snappy_compress by input class of the job: CQV_CLASS 1 = src_size < 15 (main loop
 * unreachable by construction of the harness), 2 = src_size > 2^32-1 (returns at the first check) */
#if CQV_CLASS == 2
#define CQV_REACH_SMALL(m) ((void)0)
#define CQV_REACH_LOOP(m) ((void)0)
#elif CQV_CLASS == 1
#define CQV_REACH_SMALL(m) CQV_REACH(m)
#define CQV_REACH_LOOP(m) ((void)0)
#else
#define CQV_REACH_SMALL(m) CQV_REACH(m)
#define CQV_REACH_LOOP(m) CQV_REACH(m)
#endif

/* *p written as base[p - base] (see the @replace note in contracts/snappy_comp.ovl) */
#define CQV_AT(base, p) ((base)[(size_t)((p) - (base))])

/* ghost index (arbitrary byte of dst) and its pre-state value: 'refused => not written' */
size_t cqv_k;
uint8_t cqv_old_dst_k;

#include "src/compression/snappy.c"

#ifdef CQV_OWN_MEM
/* Same assumed contracts as stubs/mem_stubs.c (ranges accessible, destination bytes arbitrary), except
 * that a memset covering a WHOLE object havocs the object in one step instead of byte-wise: the
 * byte-wise havoc of the 32 KiB hash table of carquet_snappy_compress alone costs 1.2 M SAT variables.
 * Jobs defining CQV_OWN_MEM use extra_sources=[] (no stubs/mem_stubs.c). */
void *memcpy(void *dst, const void *src, size_t n) {
  __CPROVER_precondition(__CPROVER_r_ok(src, n), "memcpy src readable");
  __CPROVER_precondition(__CPROVER_w_ok(dst, n), "memcpy dst writable");
  if (n != 0) __CPROVER_havoc_slice(dst, n);
  return dst;
}
void *memset(void *dst, int c, size_t n) {
  __CPROVER_precondition(__CPROVER_w_ok(dst, n), "memset dst writable");
  if (n != 0) {
    if (__CPROVER_POINTER_OFFSET(dst) == 0 && n == __CPROVER_OBJECT_SIZE(dst)) __CPROVER_havoc_object(dst);
    else __CPROVER_havoc_slice(dst, n);
  }
  return dst;
}
#endif

void h_c09_write_varint(void) {
  size_t n = nondet_size_t(), off = nondet_size_t();
  __CPROVER_assume(n <= CQV_MAXBUF && off <= n);
  uint8_t *buf = malloc(n);
  __CPROVER_assume(buf != NULL);
  uint32_t v = nondet_u32();
  size_t r = snappy_write_varint(buf + off, v);
  CQV_CANARY("write_varint returns");
  if (r == 5) CQV_CANARY("write_varint can use 5 bytes");
}

void h_c09_emit_literal(void) {
  size_t cap = nondet_size_t(), off = nondet_size_t(), len = nondet_size_t(), ln = nondet_size_t(), lo = nondet_size_t();
  __CPROVER_assume(cap <= CQV_MAXBUF && off <= cap && ln <= CQV_MAXBUF && lo <= ln);
  uint8_t *dst = malloc(cap);
  uint8_t *lit = malloc(ln);
  __CPROVER_assume(dst != NULL && lit != NULL);
  uint8_t *op0 = dst + off; const uint8_t *lit0 = lit + lo;   /* plain symbols: __CPROVER_old() of a sum is unsupported when a call is replaced */
  uint8_t *r = snappy_emit_literal(op0, lit0, len);
  CQV_CANARY("emit_literal returns");
}

void h_c09_emit_copy(void) {
  size_t cap = nondet_size_t(), off = nondet_size_t(), len = nondet_size_t(), offset = nondet_size_t();
  __CPROVER_assume(cap <= CQV_MAXBUF && off <= cap);
  uint8_t *dst = malloc(cap);
  __CPROVER_assume(dst != NULL);
  uint8_t *op0 = dst + off;
  uint8_t *r = snappy_emit_copy(op0, offset, len);
  CQV_CANARY("emit_copy returns");
}

void h_c09_bound(void) {
  size_t n = nondet_size_t();
  size_t b = carquet_snappy_compress_bound(n);
  CQV_CANARY("bound returns");
}

/* loop-free lemma on the real function: exact formula, monotone, no wrap up to 2^40 (and far beyond) */
void h_c09_bound_lemma(void) {
  size_t a = nondet_size_t(), b = nondet_size_t();
  __CPROVER_assume(a <= b && b <= CQV_MAXBUF);
  size_t ba = carquet_snappy_compress_bound(a), bb = carquet_snappy_compress_bound(b);
  __CPROVER_assert(ba <= bb, "bound is monotone");
  __CPROVER_assert(ba >= a + 32 && ba - a - 32 == a / 6, "bound is 32 + n + n/6 without wrap-around");
  __CPROVER_assert(bb <= b + (b >> 2) + 32, "bound stays below n + n/4 + 32");
  CQV_CANARY("bound lemma end");
}

void h_c09_compress(void) {
  const uint8_t *src = nondet_ptr();
  uint8_t *dst = nondet_ptr();
  size_t *dst_size = nondet_ptr();
  size_t src_size = nondet_size_t(), dst_capacity = nondet_size_t();
  cqv_k = nondet_size_t();
  cqv_old_dst_k = nondet_u8();
  carquet_status_t st = carquet_snappy_compress(src, src_size, dst, dst_capacity, dst_size);
  CQV_CANARY("snappy_compress returns");
  if (st == CARQUET_OK) CQV_CANARY("snappy_compress returns OK");
  if (st == CARQUET_ERROR_COMPRESSION) CQV_CANARY("snappy_compress can refuse");
}

/* input class src_size > 2^32-1 only: the function returns before any loop; checked against the same
 * contract (job selects the two "oversize refused / not written" ensures) */
void h_c09_compress_oversize(void) {
  const uint8_t *src = nondet_ptr();
  uint8_t *dst = nondet_ptr();
  size_t *dst_size = nondet_ptr();
  size_t src_size = nondet_size_t(), dst_capacity = nondet_size_t();
  __CPROVER_assume(src_size > 0xFFFFFFFFul);
  cqv_k = nondet_size_t();
  cqv_old_dst_k = nondet_u8();
  carquet_status_t st = carquet_snappy_compress(src, src_size, dst, dst_capacity, dst_size);
  CQV_CANARY("snappy_compress (oversize) returns");
  if (st == CARQUET_ERROR_COMPRESSION) CQV_CANARY("snappy_compress (oversize) refuses");
}

/* input class src_size < 15 only (single-literal path, the hash-table loop is not reached) */
void h_c09_compress_tiny(void) {
  const uint8_t *src = nondet_ptr();
  uint8_t *dst = nondet_ptr();
  size_t *dst_size = nondet_ptr();
  size_t src_size = nondet_size_t(), dst_capacity = nondet_size_t();
  __CPROVER_assume(src_size < 15);
  cqv_k = nondet_size_t();
  cqv_old_dst_k = nondet_u8();
  carquet_status_t st = carquet_snappy_compress(src, src_size, dst, dst_capacity, dst_size);
  CQV_CANARY("snappy_compress (tiny) returns");
  if (st == CARQUET_OK) CQV_CANARY("snappy_compress (tiny) returns OK");
  if (st == CARQUET_ERROR_COMPRESSION) CQV_CANARY("snappy_compress (tiny) can refuse");
}
