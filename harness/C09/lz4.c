/* C09 harness: LZ4 size bound and compressor safety (contracts in contracts/lz4.ovl) */
#include "cqv.h"
#include <stdlib.h>
#include <string.h>
#include "lz4_spec.h"

/* memcpy/memset models for these jobs (stubs/mem_stubs.c is NOT linked): ranges must be accessible;
 * afterwards the WHOLE destination object holds arbitrary bytes (over-approximation of the copy; a
 * symbolic-length __CPROVER_havoc_slice needs > 17 GB in carquet_lz4_compress).  With
 * CQV_MEMCPY_EXACT=k, copies of at most k bytes keep their contents byte by byte (lz4_count job:
 * the 8-byte words it compares are the real buffer bytes). */
void *memcpy(void *dst, const void *src, size_t n) {
  __CPROVER_precondition(__CPROVER_r_ok(src, n), "memcpy src readable");
  __CPROVER_precondition(__CPROVER_w_ok(dst, n), "memcpy dst writable");
  if (n != 0) {
#ifdef CQV_MEMCPY_EXACT
    if (n <= CQV_MEMCPY_EXACT) {
      for (size_t i = 0; i < CQV_MEMCPY_EXACT; i++) {
        if (i < n) ((uint8_t *)dst)[i] = ((const uint8_t *)src)[i];
      }
      return dst;
    }
#endif
    __CPROVER_havoc_object(dst);
  }
  return dst;
}
void *memset(void *dst, int c, size_t n) {
  __CPROVER_precondition(__CPROVER_w_ok(dst, n), "memset dst writable");
  if (n != 0) __CPROVER_havoc_object(dst);
  return dst;
}

/* C10 (compressor side, structural): every sequence with a match obeys the format's field ranges and
 * end-of-block rules; the final literal run is long enough.  Checked in the real function at the hooks
 * placed by contracts/lz4.ovl (CQV_LZ4_SEQ_END just before `ip += match_len`, CQV_LZ4_LAST_BEGIN before
 * the last literals are written). */
#define CQV_LZ4_SEQ_END \
  __CPROVER_assert(offset >= 1 && offset <= 65535 && offset <= (size_t)(ip - src), "lz4c: offset in 1..65535 and inside the data already covered"); \
  __CPROVER_assert(match_len >= LZ4_SPEC_MINMATCH, "lz4c: match length >= minmatch"); \
  __CPROVER_assert(lz4_spec_match_allowed(src_size, (size_t)(ip - src), match_len), "lz4c: match starts >= 12 bytes before the end and leaves >= 5 literal bytes"); \
  __CPROVER_assert(lit_len == (size_t)(ip - anchor) && (size_t)(anchor - src) + lit_len + match_len <= src_size, "lz4c: sequence covers anchor..ip+match_len inside the input");
#define CQV_LZ4_LAST_BEGIN \
  __CPROVER_assert(src_size >= 13 && (size_t)(iend - anchor) >= LZ4_SPEC_LASTLITERALS, "lz4c: block ends with >= 5 literal bytes");

#include "src/compression/lz4.c"

/* bound arithmetic: no wrap for sizes up to 2^40, never below the input size, and equal to
 * n + floor(n/255) + 16 (checked in a division-free form too, which is what the compressor proof uses) */
void h_lz4_compress_bound(void) {
  size_t n = nondet_size_t();
  size_t b = carquet_lz4_compress_bound(n);
  CQV_CANARY("lz4_compress_bound returns");
}

/* lz4_count on arbitrary cursors inside one buffer */
void h_lz4_count(void) {
  size_t n = nondet_size_t(), po = nondet_size_t(), mo = nondet_size_t(), lo = nondet_size_t();
  __CPROVER_assume(n <= CQV_MAXBUF && mo < po && po <= n && lo <= n);
  uint8_t *buf = malloc(n);
  __CPROVER_assume(buf != NULL);
  size_t r = lz4_count(buf + po, buf + mo, buf + lo);
  CQV_CANARY("lz4_count returns");
  if (r > 8) CQV_CANARY("lz4_count returns more than 8");
}

void h_lz4_compress(void) {
  const uint8_t *src = nondet_ptr();
  uint8_t *dst = nondet_ptr();
  size_t *dst_size = nondet_ptr();
  size_t src_size = nondet_size_t(), dst_capacity = nondet_size_t();
  carquet_status_t st = carquet_lz4_compress(src, src_size, dst, dst_capacity, dst_size);
  CQV_CANARY("lz4_compress returns");
  if (st == CARQUET_OK) CQV_CANARY("lz4_compress returns OK");
  if (st == CARQUET_OK && src_size >= 13) CQV_CANARY("lz4_compress returns OK on the main path");
}
