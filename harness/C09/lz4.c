/* C09 harness: LZ4 size bound and compressor safety (contracts in contracts/lz4.ovl) */
#include "cqv.h"
#include <stdlib.h>
#include <string.h>
#include "lz4_spec.h"

/* memcpy/memset models for these jobs (stubs/mem_stubs.c is NOT linked): ranges must be accessible;
 * afterwards the WHOLE destination object holds arbitrary bytes (over-approximation of the copy; a
 * symbolic-length __CPROVER_havoc_slice needs > 17 GB in carquet_lz4_compress).  With
 * CQV_MEMCPY_EXACT=k, copies of at most k bytes keep their contents byte by byte (lz4_count job:
 * the 8-byte words it compares are the real buffer bytes). */
/* ghosts (set to arbitrary values by the harness entry): cqv_keep = an arbitrary address whose byte the
 * memcpy model preserves when it lies in the destination object outside the copied range (so "every byte
 * outside the range is unchanged" is available for the one byte an assertion looks at); cqv_j = an arbitrary
 * index into dst used instead of a quantifier over the emitted length bytes. */
uint8_t *cqv_keep;
size_t cqv_j;

void *memcpy(void *dst, const void *src, size_t n) {
  __CPROVER_precondition(__CPROVER_r_ok(src, n), "memcpy src readable");
  __CPROVER_precondition(__CPROVER_w_ok(dst, n), "memcpy dst writable");
  /* C11 7.24.2.1: copying between overlapping objects is undefined (same clause as stubs/mem_stubs.c) */
  __CPROVER_precondition(n == 0 || !__CPROVER_same_object(dst, src) ||
                         (size_t)__CPROVER_POINTER_OFFSET(dst) + n <= (size_t)__CPROVER_POINTER_OFFSET(src) ||
                         (size_t)__CPROVER_POINTER_OFFSET(src) + n <= (size_t)__CPROVER_POINTER_OFFSET(dst),
                         "memcpy ranges do not overlap");
  if (n != 0) {
#ifdef CQV_MEMCPY_EXACT
    if (n <= CQV_MEMCPY_EXACT) {
      for (size_t i = 0; i < CQV_MEMCPY_EXACT; i++) {
        if (i < n) ((uint8_t *)dst)[i] = ((const uint8_t *)src)[i];
      }
      return dst;
    }
#endif
#ifdef CQV_LZ4_PARSEBACK
    {
      _Bool k_ok = __CPROVER_same_object(cqv_keep, dst) && __CPROVER_POINTER_OFFSET(cqv_keep) >= 0 &&
                   (size_t)__CPROVER_POINTER_OFFSET(cqv_keep) < __CPROVER_OBJECT_SIZE(dst) &&
                   ((size_t)__CPROVER_POINTER_OFFSET(cqv_keep) < (size_t)__CPROVER_POINTER_OFFSET(dst) ||
                    (size_t)__CPROVER_POINTER_OFFSET(cqv_keep) >= (size_t)__CPROVER_POINTER_OFFSET(dst) + n);
      uint8_t saved = 0;
      if (k_ok) saved = *cqv_keep;
      __CPROVER_havoc_object(dst);
      if (k_ok) *cqv_keep = saved;
    }
#else
    __CPROVER_havoc_object(dst);
#endif
  }
  return dst;
}
void *memset(void *dst, int c, size_t n) {
  __CPROVER_precondition(__CPROVER_w_ok(dst, n), "memset dst writable");
  if (n != 0) __CPROVER_havoc_object(dst);
  return dst;
}


/* ---------------------------------------------------------------------------------------------------
 * Arithmetic lemmas.  The size reasoning of carquet_lz4_compress (divisions by 255, products 255*k) is
 * out of reach of the SAT back end inside the big function, and SMT back ends cannot be used on
 * contract-instrumented programs.  So the pure arithmetic is factored into ghost functions with empty
 * bodies: in the compressor jobs their calls (inserted at the overlay hooks) are replaced by their
 * contracts (requires CHECKED at the call site on the real program state, ensures then available); the
 * contracts themselves are proved for ALL arguments by z3/cvc5 in the loop-free jobs c09_lz4_lemma_*
 * (same REQ/ENS macros, harness-is-contract).  M255(x) = 255*x without a multiplier.
 * --------------------------------------------------------------------------------------------------- */
#define CQV_SZ ((size_t)1 << 40)
#define M255(x) ((((size_t)(x)) << 8) - (size_t)(x))
#define BOUND_FACTS(n, B) ((B) == (n) + (n) / 255 + 16) /* the real carquet_lz4_compress_bound is inlined in the compressor jobs */
#define SIZE_INV(o, a) ((o) <= (a) || M255((o) - (a)) <= (a))
/* e extension bytes (0 when v - c + 15 < 15) encode v: e-1 bytes of 255 and a last byte r < 255 */
#define EXT_EXACT(v, c, e, r) (((v) < (c) && (e) == 0) || ((v) >= (c) && (e) >= 1 && (e) <= (v) && (r) < 255 && M255((e) - 1) + (r) == (v) - (c)))

/* space for one sequence: T = output offset of the token, a = anchor offset, l literals, m match bytes */
#define LEM_SPACE_REQ(n, cap, B, a, l, T, m, max_out) \
  ((n) <= CQV_SZ && (cap) <= CQV_SZ && BOUND_FACTS(n, B) && (cap) >= (B) && (a) <= (n) && (l) <= (n) && (m) <= (n) && (m) >= 4 && \
   (a) + (l) + (m) + 12 <= (n) && (T) <= 2 * CQV_SZ && SIZE_INV(T, a) && (max_out) == 1 + ((l) / 255) + (l) + 2 + ((m) / 255))
#define LEM_SPACE_ENS(n, cap, B, a, l, T, m, max_out) \
  ((T) + (max_out) + 2 + (m) <= (cap) && (T) + (l) + 8 <= (cap) && (T) + (max_out) <= (cap))
void cqv_lemma_space(size_t n, size_t cap, size_t B, size_t a, size_t l, size_t T, size_t m, size_t max_out)
__CPROVER_requires(LEM_SPACE_REQ(n, cap, B, a, l, T, m, max_out))
__CPROVER_assigns()
__CPROVER_ensures(LEM_SPACE_ENS(n, cap, B, a, l, T, m, max_out))
{}

/* k bytes of 255 emitted so far and remainder rem < 255: k <= v/255 (same v/255 the space check uses) */
#define LEM_EXT_REQ(v, c, k, rem) ((v) <= 2 * CQV_SZ && ((c) == 15 || (c) == 19) && (v) >= (c) && (k) <= (v) && (rem) < 255 && M255(k) + (rem) == (v) - (c))
#define LEM_EXT_ENS(v, c, k, rem) ((k) <= (v) / 255)
void cqv_lemma_ext(size_t v, size_t c, size_t k, size_t rem)
__CPROVER_requires(LEM_EXT_REQ(v, c, k, rem))
__CPROVER_assigns()
__CPROVER_ensures(LEM_EXT_ENS(v, c, k, rem))
{}

/* the size invariant o <= a + a/255 survives one sequence of exactly 1 + e1 + l + 2 + e2 bytes */
#define LEM_INV_REQ(a, l, m, T, e1, r1, e2, r2, o2) \
  ((a) <= CQV_SZ && (l) <= CQV_SZ && (m) <= CQV_SZ && (m) >= 4 && (T) <= 2 * CQV_SZ && SIZE_INV(T, a) && \
   EXT_EXACT(l, 15, e1, r1) && EXT_EXACT(m, 19, e2, r2) && (o2) == (T) + 1 + (e1) + (l) + 2 + (e2))
#define LEM_INV_ENS(a, l, m, T, e1, r1, e2, r2, o2) (SIZE_INV(o2, (a) + (l) + (m)))
void cqv_lemma_inv(size_t a, size_t l, size_t m, size_t T, size_t e1, size_t r1, size_t e2, size_t r2, size_t o2)
__CPROVER_requires(LEM_INV_REQ(a, l, m, T, e1, r1, e2, r2, o2))
__CPROVER_assigns()
__CPROVER_ensures(LEM_INV_ENS(a, l, m, T, e1, r1, e2, r2, o2))
{}

/* space for the last literal run: o = output offset, q = the amount the code checks for */
#define LEM_LAST_REQ(n, cap, B, a, o, q) \
  ((n) <= CQV_SZ && (cap) <= CQV_SZ && BOUND_FACTS(n, B) && (cap) >= (B) && (a) <= (n) && (a) + 12 <= (n) && (o) <= 2 * CQV_SZ && SIZE_INV(o, a) && \
   (q) == 1 + (((n) - (a)) / 255) + ((n) - (a)))
#define LEM_LAST_ENS(n, cap, B, a, o, q) ((o) + (q) + 1 <= (cap) && (o) + (q) <= (cap))
void cqv_lemma_last(size_t n, size_t cap, size_t B, size_t a, size_t o, size_t q)
__CPROVER_requires(LEM_LAST_REQ(n, cap, B, a, o, q))
__CPROVER_assigns()
__CPROVER_ensures(LEM_LAST_ENS(n, cap, B, a, o, q))
{}

/* final size: of = o + 1 + e + (n - a)  is at most  n + n/255 + 16 */
#define LEM_POST_REQ(n, a, o, e, r4, of) \
  ((n) <= CQV_SZ && (a) <= (n) && (a) + 12 <= (n) && (o) <= 2 * CQV_SZ && SIZE_INV(o, a) && EXT_EXACT((n) - (a), 15, e, r4) && (of) == (o) + 1 + (e) + ((n) - (a)))
#define LEM_POST_ENS(n, a, o, e, r4, of) ((of) >= 1 && ((of) <= (n) + 16 || M255((of) - (n) - 16) <= (n)))
void cqv_lemma_post(size_t n, size_t a, size_t o, size_t e, size_t r4, size_t of)
__CPROVER_requires(LEM_POST_REQ(n, a, o, e, r4, of))
__CPROVER_assigns()
__CPROVER_ensures(LEM_POST_ENS(n, a, o, e, r4, of))
{}

/* lemma calls and ghost bookkeeping at the overlay hooks of carquet_lz4_compress */
#define CQV_LZ4_SPACE \
  cqv_lemma_space(src_size, dst_capacity, max_output, (size_t)(anchor - src), lit_len, (size_t)(op - dst), match_len, max_out);
#define CQV_LZ4_SEQ_BEGIN \
  size_t cqv_r1 = 0, cqv_r2 = 0; const size_t cqv_T = (size_t)(op - dst);
#define CQV_LZ4_LIT_EXT \
  cqv_lemma_ext(lit_len, 15, (size_t)(op - token - 1), rem); cqv_r1 = rem;
#define CQV_LZ4_MATCH_EXT \
  cqv_lemma_ext(match_len, 19, (size_t)(op - cqv_op_m), ml); cqv_r2 = ml;
#define CQV_LZ4_INV_DONE \
  cqv_lemma_inv((size_t)(anchor - src), lit_len, match_len, cqv_T, cqv_e1, cqv_r1, (size_t)(op - cqv_op_m), cqv_r2, (size_t)(op - dst));
#define CQV_LZ4_LAST_SPACE \
  size_t cqv_r4 = 0; const size_t cqv_o_last = (size_t)(op - dst); \
  cqv_lemma_last(src_size, dst_capacity, max_output, (size_t)(anchor - src), cqv_o_last, 1 + (last_run / 255) + last_run);
#define CQV_LZ4_LAST_EXT \
  cqv_lemma_ext(last_run, 15, (size_t)(op - cqv_op_l), rem); cqv_r4 = rem;
#define CQV_LZ4_LAST_END \
  cqv_lemma_post(src_size, (size_t)(anchor - src), cqv_o_last, cqv_e4, cqv_r4, (size_t)(op - dst));

/* C10 (compressor side, structural): every sequence with a match obeys the format's field ranges and
 * end-of-block rules; the final literal run is long enough.  Checked in the real function at the hooks
 * placed by contracts/lz4.ovl (CQV_LZ4_SEQ_END just before `ip += match_len`, CQV_LZ4_LAST_BEGIN before
 * the last literals are written). */
#define CQV_LZ4_SEQ_END CQV_LZ4_MATCH_DONE \
  __CPROVER_assert(offset >= 1 && offset <= 65535 && offset <= (size_t)(ip - src), "lz4c: offset in 1..65535 and inside the data already covered"); \
  __CPROVER_assert(match_len >= LZ4_SPEC_MINMATCH, "lz4c: match length >= minmatch"); \
  __CPROVER_assert(lz4_spec_match_allowed(src_size, (size_t)(ip - src), match_len), "lz4c: match starts >= 12 bytes before the end and leaves >= 5 literal bytes"); \
  __CPROVER_assert(lit_len == (size_t)(ip - anchor) && (size_t)(anchor - src) + lit_len + match_len <= src_size, "lz4c: sequence covers anchor..ip+match_len inside the input"); \
  CQV_LZ4_INV_DONE
#ifdef CQV_LZ4_PARSEBACK
/* C10 parse-back of the length fields (plain stores, checked in place).  The format's length code for a
 * value v >= 15 is: nibble 15, then k bytes of 255, then one byte (v - 15 - 255k) that is < 255; the spec
 * parser lz4_spec_ext_len returns exactly 15 + 255k + last on such bytes.  Literal length: checked right
 * before the literal memcpy (token high nibble, k = op - token - 2).  Match length: checked at the end of
 * the sequence (k = op - cqv_op_m - 1); the token byte is looked at through the preserved ghost address. */
#define CQV_LZ4_INV_LIT_BYTES \
  (*token == 0xF0 && ((cqv_j < dst_capacity && cqv_j > (size_t)__CPROVER_POINTER_OFFSET(token) && cqv_j < (size_t)__CPROVER_POINTER_OFFSET(op)) ==> dst[cqv_j] == 255))
#define CQV_LZ4_INV_MATCH_BYTES \
  (((cqv_j < dst_capacity && cqv_j >= (size_t)__CPROVER_POINTER_OFFSET(cqv_op_m) && cqv_j < (size_t)__CPROVER_POINTER_OFFSET(op)) ==> dst[cqv_j] == 255) && \
   cqv_op_m[-2] == (uint8_t)(offset & 0xFF) && cqv_op_m[-1] == (uint8_t)(offset >> 8) && \
   (cqv_keep == token ==> *token == (uint8_t)((lit_len < 15 ? (lit_len << 4) : 0xF0) | 0x0F)))
#define CQV_LZ4_LIT_DONE const size_t cqv_e1 = (size_t)(op - token - 1); \
  __CPROVER_assert(lz4_spec_token_lit(*token) == (lit_len < 15 ? lit_len : 15), "lz4c: token high nibble is min(literal length, 15)"); \
  __CPROVER_assert(lit_len >= 15 || op == token + 1, "lz4c: no literal length bytes when literal length < 15"); \
  __CPROVER_assert(lit_len < 15 || (op >= token + 2 && op[-1] != 255 && (size_t)op[-1] + (((size_t)(op - token - 2)) << 8) - (size_t)(op - token - 2) == lit_len - 15), "lz4c: literal length bytes end with a byte < 255 and 255*k + last == literal length - 15"); \
  __CPROVER_assert(lit_len < 15 || !(cqv_j > (size_t)(token - dst) && cqv_j + 1 < (size_t)(op - dst)) || dst[cqv_j] == 255, "lz4c: all literal length bytes before the last are 255");
#define CQV_LZ4_MATCH_DONE \
  __CPROVER_assert(match_len - 4 >= 15 || op == cqv_op_m, "lz4c: no match length bytes when match length - 4 < 15"); \
  __CPROVER_assert(match_len - 4 < 15 || (op >= cqv_op_m + 1 && op[-1] != 255 && (size_t)op[-1] + (((size_t)(op - cqv_op_m - 1)) << 8) - (size_t)(op - cqv_op_m - 1) == match_len - 19), "lz4c: match length bytes end with a byte < 255 and 255*k + last == match length - 19"); \
  __CPROVER_assert(match_len - 4 < 15 || !(cqv_j >= (size_t)(cqv_op_m - dst) && cqv_j + 1 < (size_t)(op - dst)) || dst[cqv_j] == 255, "lz4c: all match length bytes before the last are 255"); \
  __CPROVER_assert(cqv_keep != token || (lz4_spec_token_lit(*token) == (lit_len < 15 ? lit_len : 15) && lz4_spec_token_match(*token) == (match_len - 4 < 15 ? match_len - 4 : 15)), "lz4c: token nibbles are min(literal length,15) / min(match length-4,15)"); \
  __CPROVER_assert((size_t)cqv_op_m[-2] + 256u * (size_t)cqv_op_m[-1] == offset, "lz4c: offset bytes are the 16-bit little-endian offset");
#else
#define CQV_LZ4_MATCH_DONE
#define CQV_LZ4_LIT_DONE const size_t cqv_e1 = (size_t)(op - token - 1);
#endif
#define CQV_LZ4_LASTLIT_DONE const size_t cqv_e4 = (size_t)(op - dst) - cqv_o_last - 1;
#define CQV_LZ4_LAST_BEGIN \
  __CPROVER_assert(src_size >= 13 && (size_t)(iend - anchor) >= LZ4_SPEC_LASTLITERALS, "lz4c: block ends with >= 5 literal bytes");

#include "src/compression/lz4.c"

/* bound arithmetic: no wrap for sizes up to 2^40, never below the input size, and equal to
 * n + floor(n/255) + 16 (checked in a division-free form too, which is what the compressor proof uses) */
void h_lz4_compress_bound(void) {
  size_t n = nondet_size_t();
  size_t b = carquet_lz4_compress_bound(n);
  CQV_CANARY("lz4_compress_bound returns");
}

/* lz4_count on arbitrary cursors inside one buffer */
void h_lz4_count(void) {
  size_t n = nondet_size_t(), po = nondet_size_t(), mo = nondet_size_t(), lo = nondet_size_t();
  __CPROVER_assume(n <= CQV_MAXBUF && mo < po && po <= n && lo <= n);
  uint8_t *buf = malloc(n);
  __CPROVER_assume(buf != NULL);
  size_t r = lz4_count(buf + po, buf + mo, buf + lo);
  CQV_CANARY("lz4_count returns");
  if (r > 8) CQV_CANARY("lz4_count returns more than 8");
}

/* the arithmetic lemmas, for all arguments (loop free).  The combined statements are beyond every back end, so
 * each proof is an explicit chain: every step is ASSERTED (a counted obligation) and only then assumed, so nothing
 * is trusted; each step needs one small fact (a quotient fact per division, 255(x+y) = 255x + 255y for one pair,
 * one sum of two inequalities, one cancellation).  Sums are taken apart in the order they are written, because
 * re-association of 64-bit sums is what the SAT solver cannot do.  All steps close with cadical. */
#define CQV_STEP(c, msg) __CPROVER_assert(c, msg); __CPROVER_assume(c)
#define CQV_BIG ((size_t)1 << 52)
void h_lemma_space(void) {
  size_t n = nondet_size_t(), cap = nondet_size_t(), B = nondet_size_t(), a = nondet_size_t(), l = nondet_size_t(),
         T = nondet_size_t(), m = nondet_size_t(), mo = nondet_size_t();
  __CPROVER_assume(LEM_SPACE_REQ(n, cap, B, a, l, T, m, mo));
  CQV_CANARY("lemma space: requires satisfiable");
  const size_t ql = l / 255, qm = m / 255, qn = n / 255;
  CQV_STEP(M255(ql) <= l && l - M255(ql) < 255 && ql <= l, "lemma space step 1: quotient l/255");
  CQV_STEP(M255(qm) <= m && m - M255(qm) < 255 && qm <= m, "lemma space step 2: quotient m/255");
  CQV_STEP(M255(qn) <= n && n - M255(qn) < 255 && qn <= n, "lemma space step 3: quotient n/255");
  const size_t dT = T > a ? T - a : 0, dA = T > a ? 0 : a - T;
  CQV_STEP(M255(a) + a == (a << 8), "lemma space step 4: 255a + a = 256a");
  CQV_STEP(T <= a || M255(T) == M255(dT) + M255(a), "lemma space step 5: 255T = 255(T-a) + 255a");
  CQV_STEP(T > a || M255(a) == M255(dA) + M255(T), "lemma space step 6: 255a = 255(a-T) + 255T");
  CQV_STEP(M255(T) <= (a << 8), "lemma space step 7: hypothesis in product form 255T <= 256a");
  const size_t s = a + l + m, R = (l << 8) + (m << 8);
  /* X = T + max_out + 2 + m, taken apart in exactly the order the expressions are written (no re-association) */
  const size_t v1 = 1 + ql, v2 = v1 + l, v3 = v2 + 2, v4 = v3 + qm;           /* v4 == max_out */
  const size_t u1 = T + mo, u2 = u1 + 2, X = u2 + m;
  CQV_STEP(mo == v4 && X <= 8 * CQV_SZ && mo <= 4 * CQV_SZ && s + 12 <= n, "lemma space step 8: max_out = ((1 + ql) + l + 2) + qm, ranges");
  const size_t P1 = 255 + M255(ql), P2 = P1 + M255(l), P3 = P2 + 510, P4 = P3 + M255(qm);
  CQV_STEP(M255(v1) == P1, "lemma space step 9a: 255(1+ql)");
  CQV_STEP(M255(v2) == M255(v1) + M255(l), "lemma space step 9b: 255(1+ql+l) split");
  CQV_STEP(M255(v2) == P2, "lemma space step 9c: 255(1+ql+l)");
  CQV_STEP(M255(v3) == M255(v2) + 510 && M255(v3) == P3, "lemma space step 9d: 255(1+ql+l+2)");
  CQV_STEP(M255(v4) == M255(v3) + M255(qm), "lemma space step 9e: 255*max_out split");
  CQV_STEP(M255(mo) == P4, "lemma space step 9f: 255*max_out = P4");
  CQV_STEP(M255(u1) == M255(T) + M255(mo), "lemma space step 9g: 255(T+max_out)");
  CQV_STEP(M255(u2) == M255(u1) + 510, "lemma space step 9h: 255(T+max_out+2)");
  CQV_STEP(M255(X) == M255(u2) + M255(m), "lemma space step 9i: 255X split");
  const size_t W1 = M255(T) + P4, W2 = W1 + 510, W3 = W2 + M255(m);
  CQV_STEP(M255(u1) == W1 && M255(u2) == W2 && M255(X) == W3, "lemma space step 9: 255X = ((255T + P4) + 510) + 255m");
  CQV_STEP(M255(l) + l == (l << 8), "lemma space step 10: 255l + l = 256l");
  CQV_STEP(M255(m) + m == (m << 8), "lemma space step 11: 255m + m = 256m");
  CQV_STEP(M255(ql) + M255(l) <= (l << 8) && M255(qm) + M255(m) <= (m << 8), "lemma space step 12: 255(x/255) + 255x <= 256x for l and m");
  CQV_STEP(P2 <= 255 + (l << 8), "lemma space step 13a: P2 <= 255 + 256l");
  CQV_STEP(P3 <= (l << 8) + 765 && P3 <= CQV_BIG && M255(qm) <= CQV_BIG && M255(m) <= CQV_BIG, "lemma space step 13b: P3 <= 256l + 765");
  const size_t A1 = P3 + 510, A2 = M255(qm) + M255(m), B1 = (l << 8) + 1275, B2 = (m << 8);
  const size_t C = (P4 + 510) + M255(m), D = R + 1275;
  CQV_STEP(A1 <= B1 && A2 <= B2 && B1 <= CQV_BIG && B2 <= CQV_BIG, "lemma space step 13c: A1 <= B1, A2 <= B2");
  CQV_STEP(A1 + A2 <= B1 + B2, "lemma space step 13d: sum");
  CQV_STEP(C == A1 + A2, "lemma space step 13e: regroup left");
  CQV_STEP(D == B1 + B2, "lemma space step 13f: regroup right");
  CQV_STEP(C <= D && D <= 4 * CQV_BIG, "lemma space step 13: P4 + 510 + 255m <= 256(l+m) + 1275");
  CQV_STEP((s << 8) == (a << 8) + R, "lemma space step 14: 256s = 256a + R");
  CQV_STEP(M255(T) <= CQV_BIG && (a << 8) <= CQV_BIG && R <= CQV_BIG && P4 <= CQV_BIG, "lemma space step 15: no wrap");
  CQV_STEP(W3 == M255(T) + C, "lemma space step 16a: regroup");
  CQV_STEP(M255(T) + C <= (a << 8) + D, "lemma space step 16b: sum of the inequalities");
  CQV_STEP((a << 8) + D == (s << 8) + 1275, "lemma space step 16c: regroup right");
  CQV_STEP(M255(X) <= (s << 8) + 1275, "lemma space step 17: 255X <= 256s + 1275");
  CQV_STEP(((s + 12) << 8) == (s << 8) + 3072, "lemma space step 18: 256(s+12)");
  CQV_STEP(((s + 12) << 8) <= (n << 8), "lemma space step 19: s + 12 <= n scaled by 256");
  CQV_STEP(M255(X) + 1797 <= (n << 8), "lemma space step 20: 255X + 1797 <= 256n");
  const size_t b1 = n + qn;
  CQV_STEP(B == b1 + 16 && M255(b1) == M255(n) + M255(qn), "lemma space step 21: 255(n + n/255)");
  CQV_STEP(M255(B) == M255(b1) + 4080, "lemma space step 22: 255B");
  CQV_STEP(M255(n) + n == (n << 8), "lemma space step 23: 255n + n = 256n");
  CQV_STEP((n << 8) + 3826 <= M255(B), "lemma space step 24: 256n + 3826 <= 255B");
  CQV_STEP(M255(X) < M255(B), "lemma space step 25: 255X < 255B");
  const size_t dX = X >= B ? X - B : 0;
  CQV_STEP(X < B || M255(X) == M255(dX) + M255(B), "lemma space step 26: 255X = 255(X-B) + 255B when X >= B");
  CQV_STEP(X < B, "lemma space step 27: X < B");
  __CPROVER_assert(LEM_SPACE_ENS(n, cap, B, a, l, T, m, mo), "lemma space: a sequence fits below a bound-sized capacity");
}
void h_lemma_ext(void) {
  size_t v = nondet_size_t(), c = nondet_size_t(), k = nondet_size_t(), rem = nondet_size_t();
  __CPROVER_assume(LEM_EXT_REQ(v, c, k, rem));
  CQV_CANARY("lemma ext: requires satisfiable");
  __CPROVER_assert(LEM_EXT_ENS(v, c, k, rem), "lemma ext: number of 255 bytes <= v/255");
}
void h_lemma_inv(void) {
  size_t a = nondet_size_t(), l = nondet_size_t(), m = nondet_size_t(), T = nondet_size_t(), e1 = nondet_size_t(),
         r1 = nondet_size_t(), e2 = nondet_size_t(), r2 = nondet_size_t(), o2 = nondet_size_t();
  __CPROVER_assume(LEM_INV_REQ(a, l, m, T, e1, r1, e2, r2, o2));
  CQV_CANARY("lemma inv: requires satisfiable");
  if (l >= 15 && m >= 19) CQV_CANARY("lemma inv: both lengths extended");
  const size_t a2 = a + l + m;
  const size_t dT = T > a ? T - a : 0, dA = T > a ? 0 : a - T;
  CQV_STEP(e1 <= l && e2 <= m && o2 <= 6 * CQV_SZ && a2 <= 3 * CQV_SZ, "lemma inv step 1: ranges");
  CQV_STEP(M255(a) + a == (a << 8), "lemma inv step 2: 255a + a = 256a");
  CQV_STEP(T <= a || M255(T) == M255(dT) + M255(a), "lemma inv step 3: 255T = 255(T-a) + 255a");
  CQV_STEP(T > a || M255(a) == M255(dA) + M255(T), "lemma inv step 4: 255a = 255(a-T) + 255T");
  CQV_STEP(M255(T) <= (a << 8), "lemma inv step 5: hypothesis in product form 255T <= 256a");
  CQV_STEP(M255(e1) <= l + 240, "lemma inv step 6: 255*e1 <= l + 240");
  CQV_STEP(M255(e2) <= m + 236 && (m >= 19 || e2 == 0), "lemma inv step 7: 255*e2 <= m + 236, none when m < 19");
  const size_t x1 = T + e1, x2 = x1 + l, x3 = x2 + e2;
  const size_t K1 = M255(e1), K2 = K1 + M255(l), K3 = K2 + M255(e2), K = K3 + 765, R = (l << 8) + (m << 8);
  CQV_STEP(M255(x1) == M255(T) + K1, "lemma inv step 8a: 255(T+e1) = 255T + K1");
  CQV_STEP(M255(x2) == M255(x1) + M255(l), "lemma inv step 8b: 255(T+e1+l) = 255(T+e1) + 255l");
  CQV_STEP(M255(x2) == M255(T) + K2, "lemma inv step 8c: 255(T+e1+l) = 255T + K2");
  CQV_STEP(M255(x3) == M255(x2) + M255(e2), "lemma inv step 8d: 255(T+e1+l+e2) = 255(T+e1+l) + 255*e2");
  CQV_STEP(M255(x3) == M255(T) + K3, "lemma inv step 8e: 255(T+e1+l+e2) = 255T + K3");
  CQV_STEP(o2 == x3 + 3 && M255(o2) == M255(x3) + 765, "lemma inv step 8f: 255*o2 = 255(T+e1+l+e2) + 765");
  CQV_STEP(M255(o2) == M255(T) + K, "lemma inv step 8: 255*o2 = 255T + K, K = 255(e1 + l + e2 + 3)");
  CQV_STEP((a2 << 8) == (a << 8) + R, "lemma inv step 9: 256*a2 = 256a + R, R = 256(l + m)");
  CQV_STEP(M255(l) + l == (l << 8), "lemma inv step 10: 255l + l = 256l");
  CQV_STEP(K <= R, "lemma inv step 11: emitted bytes paid by consumed bytes, K <= R");
  CQV_STEP(M255(T) <= ((size_t)1 << 50) && (a << 8) <= ((size_t)1 << 50) && R <= ((size_t)1 << 50), "lemma inv step 12a: no wrap");
  CQV_STEP(M255(T) + K <= (a << 8) + R, "lemma inv step 12b: sum of the two inequalities");
  CQV_STEP(M255(o2) <= (a2 << 8), "lemma inv step 12: conclusion in product form 255*o2 <= 256*a2");
  const size_t d2 = o2 > a2 ? o2 - a2 : 0;
  CQV_STEP(M255(a2) + a2 == (a2 << 8), "lemma inv step 13: 255a2 + a2 = 256a2");
  CQV_STEP(o2 <= a2 || M255(o2) == M255(d2) + M255(a2), "lemma inv step 14: 255*o2 = 255(o2-a2) + 255*a2");
  CQV_STEP(o2 <= a2 || M255(d2) <= a2, "lemma inv step 15: cancel 255*a2");
  __CPROVER_assert(LEM_INV_ENS(a, l, m, T, e1, r1, e2, r2, o2), "lemma inv: size invariant preserved by one sequence");
}
void h_lemma_last(void) {
  size_t n = nondet_size_t(), cap = nondet_size_t(), B = nondet_size_t(), a = nondet_size_t(), o = nondet_size_t(), q = nondet_size_t();
  __CPROVER_assume(LEM_LAST_REQ(n, cap, B, a, o, q));
  CQV_CANARY("lemma last: requires satisfiable");
  const size_t r = n - a, qr = r / 255, qn = n / 255;
  CQV_STEP(M255(qr) <= r && r - M255(qr) < 255 && qr <= r, "lemma last step 1: quotient (n-a)/255");
  CQV_STEP(M255(qn) <= n && n - M255(qn) < 255 && qn <= n, "lemma last step 2: quotient n/255");
  const size_t dO = o > a ? o - a : 0, dA = o > a ? 0 : a - o;
  CQV_STEP(M255(a) + a == (a << 8), "lemma last step 3: 255a + a = 256a");
  CQV_STEP(o <= a || M255(o) == M255(dO) + M255(a), "lemma last step 4: 255o = 255(o-a) + 255a");
  CQV_STEP(o > a || M255(a) == M255(dA) + M255(o), "lemma last step 5: 255a = 255(a-o) + 255o");
  CQV_STEP(M255(o) <= (a << 8), "lemma last step 6: hypothesis in product form 255o <= 256a");
  const size_t y1 = o + r, y2 = y1 + qr, X = y2 + 2;
  const size_t J1 = M255(r), J2 = J1 + M255(qr), J = J2 + 510;
  CQV_STEP(X == o + q + 1 && X <= 8 * CQV_SZ, "lemma last step 7: X = o + q + 1");
  CQV_STEP(M255(y1) == M255(o) + J1, "lemma last step 8a: 255(o+r)");
  CQV_STEP(M255(y2) == M255(y1) + M255(qr), "lemma last step 8b: 255(o+r+qr) split");
  CQV_STEP(M255(y2) == M255(o) + J2, "lemma last step 8c: 255(o+r+qr)");
  CQV_STEP(M255(X) == M255(y2) + 510, "lemma last step 8d: 255X split");
  CQV_STEP(M255(X) == M255(o) + J, "lemma last step 8: 255X = 255o + J");
  CQV_STEP(M255(r) + r == (r << 8), "lemma last step 9: 255r + r = 256r");
  CQV_STEP(J2 <= (r << 8) && J <= (r << 8) + 510, "lemma last step 10: J <= 256r + 510");
  CQV_STEP((n << 8) == (a << 8) + (r << 8), "lemma last step 11: 256n = 256a + 256r");
  CQV_STEP(M255(o) <= CQV_BIG && (a << 8) <= CQV_BIG && (r << 8) <= CQV_BIG, "lemma last step 12: no wrap");
  CQV_STEP(M255(o) + J <= (a << 8) + (r << 8) + 510, "lemma last step 13: sum of the inequalities");
  CQV_STEP(M255(X) <= (n << 8) + 510, "lemma last step 14: 255X <= 256n + 510");
  const size_t b1 = n + qn;
  CQV_STEP(B == b1 + 16 && M255(b1) == M255(n) + M255(qn), "lemma last step 15: 255(n + n/255)");
  CQV_STEP(M255(B) == M255(b1) + 4080, "lemma last step 16: 255B");
  CQV_STEP(M255(n) + n == (n << 8), "lemma last step 17: 255n + n = 256n");
  CQV_STEP((n << 8) + 3826 <= M255(B), "lemma last step 18: 256n + 3826 <= 255B");
  CQV_STEP(M255(X) < M255(B), "lemma last step 19: 255X < 255B");
  const size_t dX = X >= B ? X - B : 0;
  CQV_STEP(X < B || M255(X) == M255(dX) + M255(B), "lemma last step 20: 255X = 255(X-B) + 255B when X >= B");
  CQV_STEP(X < B, "lemma last step 21: X < B");
  __CPROVER_assert(LEM_LAST_ENS(n, cap, B, a, o, q), "lemma last: the last literal run fits below a bound-sized capacity");
}
void h_lemma_post(void) {
  size_t n = nondet_size_t(), a = nondet_size_t(), o = nondet_size_t(), e = nondet_size_t(), r4 = nondet_size_t(), of = nondet_size_t();
  __CPROVER_assume(LEM_POST_REQ(n, a, o, e, r4, of));
  CQV_CANARY("lemma post: requires satisfiable");
  const size_t r = n - a;
  const size_t dO = o > a ? o - a : 0, dA = o > a ? 0 : a - o;
  CQV_STEP(e <= r && r >= 12 && of <= 8 * CQV_SZ, "lemma post step 1: ranges");
  CQV_STEP(M255(a) + a == (a << 8), "lemma post step 2: 255a + a = 256a");
  CQV_STEP(o <= a || M255(o) == M255(dO) + M255(a), "lemma post step 3: 255o = 255(o-a) + 255a");
  CQV_STEP(o > a || M255(a) == M255(dA) + M255(o), "lemma post step 4: 255a = 255(a-o) + 255o");
  CQV_STEP(M255(o) <= (a << 8), "lemma post step 5: hypothesis in product form 255o <= 256a");
  CQV_STEP(M255(e) <= r + 240, "lemma post step 6: 255e <= r + 240");
  const size_t y1 = o + e, y2 = y1 + r;
  const size_t J1 = M255(e), J2 = J1 + M255(r), J = J2 + 255;
  CQV_STEP(of == y2 + 1, "lemma post step 7: of = o + e + r + 1");
  CQV_STEP(M255(y1) == M255(o) + J1, "lemma post step 8a: 255(o+e)");
  CQV_STEP(M255(y2) == M255(y1) + M255(r), "lemma post step 8b: 255(o+e+r) split");
  CQV_STEP(M255(y2) == M255(o) + J2, "lemma post step 8c: 255(o+e+r)");
  CQV_STEP(M255(of) == M255(y2) + 255, "lemma post step 8d: 255*of split");
  CQV_STEP(M255(of) == M255(o) + J, "lemma post step 8: 255*of = 255o + J");
  CQV_STEP(M255(r) + r == (r << 8), "lemma post step 9: 255r + r = 256r");
  CQV_STEP(J2 <= (r << 8) + 240 && J <= (r << 8) + 495, "lemma post step 10: J <= 256r + 495");
  CQV_STEP((n << 8) == (a << 8) + (r << 8), "lemma post step 11: 256n = 256a + 256r");
  CQV_STEP(M255(o) <= CQV_BIG && (a << 8) <= CQV_BIG && (r << 8) <= CQV_BIG, "lemma post step 12: no wrap");
  CQV_STEP(M255(o) + J <= (a << 8) + (r << 8) + 495, "lemma post step 13: sum of the inequalities");
  CQV_STEP(M255(of) <= (n << 8) + 495, "lemma post step 14: 255*of <= 256n + 495");
  const size_t d = of > n + 16 ? of - n - 16 : 0, z1 = d + n;
  CQV_STEP(M255(n) + n == (n << 8), "lemma post step 15: 255n + n = 256n");
  CQV_STEP(of <= n + 16 || (of == z1 + 16 && M255(z1) == M255(d) + M255(n)), "lemma post step 16: 255(d + n)");
  CQV_STEP(of <= n + 16 || M255(of) == M255(z1) + 4080, "lemma post step 17: 255*of = 255(d+n) + 4080");
  CQV_STEP(of <= n + 16 || M255(d) + M255(n) + 4080 <= M255(n) + n + 495, "lemma post step 18: substitute");
  CQV_STEP(of <= n + 16 || M255(d) <= n, "lemma post step 19: cancel 255n");
  __CPROVER_assert(LEM_POST_ENS(n, a, o, e, r4, of), "lemma post: total size <= n + n/255 + 16");
}

void h_lz4_compress(void) {
  const uint8_t *src = nondet_ptr();
  uint8_t *dst = nondet_ptr();
  size_t *dst_size = nondet_ptr();
  size_t src_size = nondet_size_t(), dst_capacity = nondet_size_t();
  cqv_keep = nondet_ptr();
  cqv_j = nondet_size_t();
  carquet_status_t st = carquet_lz4_compress(src, src_size, dst, dst_capacity, dst_size);
  CQV_CANARY("lz4_compress returns");
  if (st == CARQUET_OK) CQV_CANARY("lz4_compress returns OK");
  if (st == CARQUET_OK && src_size >= 13) CQV_CANARY("lz4_compress returns OK on the main path");
}
