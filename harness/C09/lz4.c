/* C09 harness: LZ4 size bound and compressor safety (contracts in contracts/lz4.ovl) */
#include "cqv.h"
#include <stdlib.h>
#include "src/compression/lz4.c"

/* bound arithmetic: no wrap for sizes up to 2^40, never below the input size, and equal to
 * n + floor(n/255) + 16 (checked in a division-free form too, which is what the compressor proof uses) */
void h_lz4_compress_bound(void) {
  size_t n = nondet_size_t();
  size_t b = carquet_lz4_compress_bound(n);
  CQV_CANARY("lz4_compress_bound returns");
}

/* lz4_count on arbitrary cursors inside one buffer */
void h_lz4_count(void) {
  size_t n = nondet_size_t(), po = nondet_size_t(), mo = nondet_size_t(), lo = nondet_size_t();
  __CPROVER_assume(n <= CQV_MAXBUF && mo < po && po <= n && lo <= n);
  uint8_t *buf = malloc(n);
  __CPROVER_assume(buf != NULL);
  size_t r = lz4_count(buf + po, buf + mo, buf + lo);
  CQV_CANARY("lz4_count returns");
  if (r > 8) CQV_CANARY("lz4_count returns more than 8");
}

void h_lz4_compress(void) {
  const uint8_t *src = nondet_ptr();
  uint8_t *dst = nondet_ptr();
  size_t *dst_size = nondet_ptr();
  size_t src_size = nondet_size_t(), dst_capacity = nondet_size_t();
  carquet_status_t st = carquet_lz4_compress(src, src_size, dst, dst_capacity, dst_size);
  CQV_CANARY("lz4_compress returns");
  if (st == CARQUET_OK) CQV_CANARY("lz4_compress returns OK");
  if (st == CARQUET_OK && src_size >= 13) CQV_CANARY("lz4_compress returns OK on the main path");
}
