/* C09 harness: LZ4 size bound and compressor safety (contracts in contracts/lz4.ovl) */
#include "cqv.h"
#include <stdlib.h>
#include <string.h>
#include "lz4_spec.h"

/* memcpy/memset models for these jobs (stubs/mem_stubs.c is NOT linked): ranges must be accessible;
 * afterwards the WHOLE destination object holds arbitrary bytes (over-approximation of the copy; a
 * symbolic-length __CPROVER_havoc_slice needs > 17 GB in carquet_lz4_compress).  With
 * CQV_MEMCPY_EXACT=k, copies of at most k bytes keep their contents byte by byte (lz4_count job:
 * the 8-byte words it compares are the real buffer bytes). */
/* ghosts (set to arbitrary values by the harness entry): cqv_keep = an arbitrary address whose byte the
 * memcpy model preserves when it lies in the destination object outside the copied range (so "every byte
 * outside the range is unchanged" is available for the one byte an assertion looks at); cqv_j = an arbitrary
 * index into dst used instead of a quantifier over the emitted length bytes. */
uint8_t *cqv_keep;
size_t cqv_j;

void *memcpy(void *dst, const void *src, size_t n) {
  __CPROVER_precondition(__CPROVER_r_ok(src, n), "memcpy src readable");
  __CPROVER_precondition(__CPROVER_w_ok(dst, n), "memcpy dst writable");
  /* C11 7.24.2.1: copying between overlapping objects is undefined (same clause as stubs/mem_stubs.c) */
  __CPROVER_precondition(n == 0 || !__CPROVER_same_object(dst, src) ||
                         (size_t)__CPROVER_POINTER_OFFSET(dst) + n <= (size_t)__CPROVER_POINTER_OFFSET(src) ||
                         (size_t)__CPROVER_POINTER_OFFSET(src) + n <= (size_t)__CPROVER_POINTER_OFFSET(dst),
                         "memcpy ranges do not overlap");
  if (n != 0) {
#ifdef CQV_MEMCPY_EXACT
    if (n <= CQV_MEMCPY_EXACT) {
      for (size_t i = 0; i < CQV_MEMCPY_EXACT; i++) {
        if (i < n) ((uint8_t *)dst)[i] = ((const uint8_t *)src)[i];
      }
      return dst;
    }
#endif
#ifdef CQV_LZ4_PARSEBACK
    {
      _Bool k_ok = __CPROVER_same_object(cqv_keep, dst) && __CPROVER_POINTER_OFFSET(cqv_keep) >= 0 &&
                   (size_t)__CPROVER_POINTER_OFFSET(cqv_keep) < __CPROVER_OBJECT_SIZE(dst) &&
                   ((size_t)__CPROVER_POINTER_OFFSET(cqv_keep) < (size_t)__CPROVER_POINTER_OFFSET(dst) ||
                    (size_t)__CPROVER_POINTER_OFFSET(cqv_keep) >= (size_t)__CPROVER_POINTER_OFFSET(dst) + n);
      uint8_t saved = 0;
      if (k_ok) saved = *cqv_keep;
      __CPROVER_havoc_object(dst);
      if (k_ok) *cqv_keep = saved;
    }
#else
    __CPROVER_havoc_object(dst);
#endif
  }
  return dst;
}
void *memset(void *dst, int c, size_t n) {
  __CPROVER_precondition(__CPROVER_w_ok(dst, n), "memset dst writable");
  if (n != 0) __CPROVER_havoc_object(dst);
  return dst;
}

/* C10 (compressor side, structural): every sequence with a match obeys the format's field ranges and
 * end-of-block rules; the final literal run is long enough.  Checked in the real function at the hooks
 * placed by contracts/lz4.ovl (CQV_LZ4_SEQ_END just before `ip += match_len`, CQV_LZ4_LAST_BEGIN before
 * the last literals are written). */
#define CQV_LZ4_SEQ_END CQV_LZ4_MATCH_DONE \
  __CPROVER_assert(offset >= 1 && offset <= 65535 && offset <= (size_t)(ip - src), "lz4c: offset in 1..65535 and inside the data already covered"); \
  __CPROVER_assert(match_len >= LZ4_SPEC_MINMATCH, "lz4c: match length >= minmatch"); \
  __CPROVER_assert(lz4_spec_match_allowed(src_size, (size_t)(ip - src), match_len), "lz4c: match starts >= 12 bytes before the end and leaves >= 5 literal bytes"); \
  __CPROVER_assert(lit_len == (size_t)(ip - anchor) && (size_t)(anchor - src) + lit_len + match_len <= src_size, "lz4c: sequence covers anchor..ip+match_len inside the input");
#ifdef CQV_LZ4_PARSEBACK
/* C10 parse-back of the length fields (plain stores, checked in place).  The format's length code for a
 * value v >= 15 is: nibble 15, then k bytes of 255, then one byte (v - 15 - 255k) that is < 255; the spec
 * parser lz4_spec_ext_len returns exactly 15 + 255k + last on such bytes.  Literal length: checked right
 * before the literal memcpy (token high nibble, k = op - token - 2).  Match length: checked at the end of
 * the sequence (k = op - cqv_op_m - 1); the token byte is looked at through the preserved ghost address. */
#define CQV_LZ4_INV_LIT_BYTES \
  (*token == 0xF0 && ((cqv_j < dst_capacity && cqv_j > (size_t)__CPROVER_POINTER_OFFSET(token) && cqv_j < (size_t)__CPROVER_POINTER_OFFSET(op)) ==> dst[cqv_j] == 255))
#define CQV_LZ4_INV_MATCH_BYTES \
  (((cqv_j < dst_capacity && cqv_j >= (size_t)__CPROVER_POINTER_OFFSET(cqv_op_m) && cqv_j < (size_t)__CPROVER_POINTER_OFFSET(op)) ==> dst[cqv_j] == 255) && \
   cqv_op_m[-2] == (uint8_t)(offset & 0xFF) && cqv_op_m[-1] == (uint8_t)(offset >> 8) && \
   (cqv_keep == token ==> *token == (uint8_t)((lit_len < 15 ? (lit_len << 4) : 0xF0) | 0x0F)))
#define CQV_LZ4_LIT_DONE \
  __CPROVER_assert(lz4_spec_token_lit(*token) == (lit_len < 15 ? lit_len : 15), "lz4c: token high nibble is min(literal length, 15)"); \
  __CPROVER_assert(lit_len >= 15 || op == token + 1, "lz4c: no literal length bytes when literal length < 15"); \
  __CPROVER_assert(lit_len < 15 || (op >= token + 2 && op[-1] != 255 && (size_t)op[-1] + (((size_t)(op - token - 2)) << 8) - (size_t)(op - token - 2) == lit_len - 15), "lz4c: literal length bytes end with a byte < 255 and 255*k + last == literal length - 15"); \
  __CPROVER_assert(lit_len < 15 || !(cqv_j > (size_t)(token - dst) && cqv_j + 1 < (size_t)(op - dst)) || dst[cqv_j] == 255, "lz4c: all literal length bytes before the last are 255");
#define CQV_LZ4_MATCH_DONE \
  __CPROVER_assert(match_len - 4 >= 15 || op == cqv_op_m, "lz4c: no match length bytes when match length - 4 < 15"); \
  __CPROVER_assert(match_len - 4 < 15 || (op >= cqv_op_m + 1 && op[-1] != 255 && (size_t)op[-1] + (((size_t)(op - cqv_op_m - 1)) << 8) - (size_t)(op - cqv_op_m - 1) == match_len - 19), "lz4c: match length bytes end with a byte < 255 and 255*k + last == match length - 19"); \
  __CPROVER_assert(match_len - 4 < 15 || !(cqv_j >= (size_t)(cqv_op_m - dst) && cqv_j + 1 < (size_t)(op - dst)) || dst[cqv_j] == 255, "lz4c: all match length bytes before the last are 255"); \
  __CPROVER_assert(cqv_keep != token || (lz4_spec_token_lit(*token) == (lit_len < 15 ? lit_len : 15) && lz4_spec_token_match(*token) == (match_len - 4 < 15 ? match_len - 4 : 15)), "lz4c: token nibbles are min(literal length,15) / min(match length-4,15)"); \
  __CPROVER_assert((size_t)cqv_op_m[-2] + 256u * (size_t)cqv_op_m[-1] == offset, "lz4c: offset bytes are the 16-bit little-endian offset");
#else
#define CQV_LZ4_MATCH_DONE
#endif
#define CQV_LZ4_LAST_BEGIN \
  __CPROVER_assert(src_size >= 13 && (size_t)(iend - anchor) >= LZ4_SPEC_LASTLITERALS, "lz4c: block ends with >= 5 literal bytes");

#include "src/compression/lz4.c"

/* bound arithmetic: no wrap for sizes up to 2^40, never below the input size, and equal to
 * n + floor(n/255) + 16 (checked in a division-free form too, which is what the compressor proof uses) */
void h_lz4_compress_bound(void) {
  size_t n = nondet_size_t();
  size_t b = carquet_lz4_compress_bound(n);
  CQV_CANARY("lz4_compress_bound returns");
}

/* lz4_count on arbitrary cursors inside one buffer */
void h_lz4_count(void) {
  size_t n = nondet_size_t(), po = nondet_size_t(), mo = nondet_size_t(), lo = nondet_size_t();
  __CPROVER_assume(n <= CQV_MAXBUF && mo < po && po <= n && lo <= n);
  uint8_t *buf = malloc(n);
  __CPROVER_assume(buf != NULL);
  size_t r = lz4_count(buf + po, buf + mo, buf + lo);
  CQV_CANARY("lz4_count returns");
  if (r > 8) CQV_CANARY("lz4_count returns more than 8");
}

void h_lz4_compress(void) {
  const uint8_t *src = nondet_ptr();
  uint8_t *dst = nondet_ptr();
  size_t *dst_size = nondet_ptr();
  size_t src_size = nondet_size_t(), dst_capacity = nondet_size_t();
  cqv_keep = nondet_ptr();
  cqv_j = nondet_size_t();
  carquet_status_t st = carquet_lz4_compress(src, src_size, dst, dst_capacity, dst_size);
  CQV_CANARY("lz4_compress returns");
  if (st == CARQUET_OK) CQV_CANARY("lz4_compress returns OK");
  if (st == CARQUET_OK && src_size >= 13) CQV_CANARY("lz4_compress returns OK on the main path");
}
