/* C09 / C14, writer side: compress_data and carquet_page_writer_finalize of the real
 * src/writer/page_writer.c.  Callees outside the file are assumed contracts defined here:
 *   carquet_buffer_*   growable buffer model (append may fail with OUT_OF_MEMORY; on success the
 *                      buffer is a heap block of exactly `size` bytes, contents arbitrary)
 *   thrift_write_*     header field log (struct depth, field ids, i32 values); every write grows
 *                      the encoder's buffer
 *   carquet_*_compress / *_compress_bound   C09 contracts: bound arbitrary, compress needs
 *                      dst writable for dst_capacity, reports a size <= dst_capacity on success
 *   carquet_crc32      arbitrary value, (ptr,len) recorded
 * libc block operations: stubs/mem_stubs.c. */
#include "cqv.h"
#include <stdlib.h>
#include <stdbool.h>
#include <carquet/carquet.h>
#include <carquet/error.h>
#include "core/buffer.h"
#include "thrift/thrift_encode.h"

/* ---- ghost ------------------------------------------------------------------------------- */
unsigned g_ev;                                  /* event clock */
/* codecs */
int g_bound_calls, g_comp_calls;
size_t g_bound_arg, g_bound_ret;
const uint8_t *g_comp_src; size_t g_comp_src_size; uint8_t *g_comp_dst; size_t g_comp_cap; size_t g_comp_out;
carquet_status_t g_comp_ret; int g_comp_codec, g_bound_codec;
/* crc */
int g_wcrc_calls; const uint8_t *g_wcrc_ptr; size_t g_wcrc_len; uint32_t g_wcrc_ret; unsigned g_wcrc_ev;
bool g_wcrc_dirty;                              /* the checksummed block was modified / released afterwards */
/* buffer appends */
carquet_buffer_t *g_last_app_buf; const void *g_last_app_src; size_t g_last_app_len; carquet_status_t g_last_app_ret;
size_t g_last_app_presize; unsigned g_last_app_ev; bool g_last_app_dirty;
/* thrift */
carquet_buffer_t *g_enc_buf; int g_depth; int g_last_id; unsigned g_last_thrift_ev; unsigned g_first_thrift_ev;
int g_f3_n, g_f4_n, g_f2_n; int32_t g_f3, g_f4, g_f2;
carquet_buffer_t *g_cleared_buf; unsigned g_cleared_ev;

static void pw_touch(carquet_buffer_t *b) { if (g_wcrc_calls > 0 && b->data != NULL && b->data == g_wcrc_ptr) g_wcrc_dirty = true; }

static carquet_status_t pw_grow(carquet_buffer_t *b, size_t k) {
  if (nondet_bool()) return CARQUET_ERROR_OUT_OF_MEMORY;
  size_t ns = b->size + k;
  __CPROVER_assume(ns <= CQV_MAXBUF);           /* buffer family's contract: sizes stay below 2^40 */
  uint8_t *np = malloc(ns);
  __CPROVER_assume(np != NULL);
  pw_touch(b);
  if (b->owns_data) free(b->data);
  b->data = np; b->size = ns; b->capacity = ns; b->owns_data = true;
  return CARQUET_OK;
}
void carquet_buffer_init(carquet_buffer_t *b) { b->data = NULL; b->size = 0; b->capacity = 0; b->owns_data = true; }
void carquet_buffer_clear(carquet_buffer_t *b) { pw_touch(b); b->size = 0; g_cleared_buf = b; g_cleared_ev = ++g_ev; }
void carquet_buffer_destroy(carquet_buffer_t *b) {
  pw_touch(b);
  if (b->owns_data) free(b->data);
  b->data = NULL; b->size = 0; b->capacity = 0;
}
_Bool g_any_append_failed;   /* ghost: some buffer growth (append or Thrift output) failed since the harness reset it */
carquet_status_t carquet_buffer_append(carquet_buffer_t *b, const void *data, size_t size) {
  __CPROVER_precondition(__CPROVER_rw_ok(b, sizeof(*b)), "append: buffer struct accessible");
  __CPROVER_precondition(size == 0 || __CPROVER_r_ok(data, size), "append: source range readable");
  carquet_status_t st = CARQUET_OK;
  g_last_app_presize = b->size;
  if (size != 0) st = pw_grow(b, size);
  g_last_app_buf = b; g_last_app_src = data; g_last_app_len = size; g_last_app_ret = st; g_last_app_ev = ++g_ev;
  g_last_app_dirty = g_wcrc_dirty;
  if (st != CARQUET_OK) g_any_append_failed = 1;
  return st;
}

static void pw_thrift(thrift_encoder_t *enc) {
  size_t k = nondet_size_t();
  __CPROVER_assume(k >= 1 && k <= 16);
  /* real thrift_encode.c: a failed append of the encoded bytes is latched in enc->status (set_error) */
  if (pw_grow(enc->buffer, k) != CARQUET_OK) { if (enc->status == CARQUET_OK) enc->status = CARQUET_ERROR_OUT_OF_MEMORY; g_any_append_failed = 1; }
  g_last_thrift_ev = ++g_ev;
  if (!g_first_thrift_ev) g_first_thrift_ev = g_ev;
}
void thrift_encoder_init(thrift_encoder_t *enc, carquet_buffer_t *buffer) { enc->buffer = buffer; enc->nesting_level = 0; enc->status = CARQUET_OK; g_enc_buf = buffer; g_depth = 0; g_last_id = 0; }
void thrift_write_struct_begin(thrift_encoder_t *enc) { (void)enc; g_depth++; g_last_id = 0; }
void thrift_write_struct_end(thrift_encoder_t *enc) { pw_thrift(enc); g_depth--; g_last_id = 0; }
void thrift_write_field_header(thrift_encoder_t *enc, int type, int16_t id) { (void)type; pw_thrift(enc); g_last_id = (g_depth == 1) ? id : 0; }
void thrift_write_i32(thrift_encoder_t *enc, int32_t v) {
  pw_thrift(enc);
  if (g_depth == 1 && g_last_id == 2) { g_f2 = v; g_f2_n++; }
  if (g_depth == 1 && g_last_id == 3) { g_f3 = v; g_f3_n++; }
  if (g_depth == 1 && g_last_id == 4) { g_f4 = v; g_f4_n++; }
  g_last_id = 0;
}
void thrift_write_i64(thrift_encoder_t *enc, int64_t v) { (void)v; pw_thrift(enc); g_last_id = 0; }
void thrift_write_binary(thrift_encoder_t *enc, const uint8_t *data, int32_t length) {
  __CPROVER_precondition(length >= 0 && __CPROVER_r_ok(data, (size_t)length), "thrift binary: source readable");
  pw_thrift(enc); g_last_id = 0;
}

uint32_t carquet_crc32(const uint8_t *data, size_t length) {
  __CPROVER_precondition(length == 0 || __CPROVER_r_ok(data, length), "range handed to carquet_crc32 is readable");
  g_wcrc_calls++; g_wcrc_ptr = data; g_wcrc_len = length; g_wcrc_ret = nondet_u32(); g_wcrc_ev = ++g_ev; g_wcrc_dirty = false;
  return g_wcrc_ret;
}

static size_t pw_bound(int codec, size_t n) { g_bound_calls++; g_bound_codec = codec; g_bound_arg = n; g_bound_ret = nondet_size_t(); return g_bound_ret; }
size_t carquet_snappy_compress_bound(size_t n) { return pw_bound(1, n); }
size_t carquet_lz4_compress_bound(size_t n) { return pw_bound(2, n); }
size_t carquet_gzip_compress_bound(size_t n) { return pw_bound(3, n); }
size_t carquet_zstd_compress_bound(size_t n) { return pw_bound(4, n); }
static carquet_status_t pw_compress(int codec, const uint8_t *src, size_t n, uint8_t *dst, size_t cap, size_t *out) {
  __CPROVER_precondition(n == 0 || __CPROVER_r_ok(src, n), "compress: source readable");
  __CPROVER_precondition(__CPROVER_w_ok(dst, cap), "compress: destination writable for the stated capacity");
  __CPROVER_precondition(__CPROVER_POINTER_OFFSET(dst) == 0 && __CPROVER_OBJECT_SIZE(dst) == cap, "C09: destination is a block of exactly the capacity passed");
  __CPROVER_precondition(__CPROVER_w_ok(out, sizeof(*out)), "compress: dst_size writable");
  g_comp_calls++; g_comp_codec = codec; g_comp_src = src; g_comp_src_size = n; g_comp_dst = dst; g_comp_cap = cap;
  carquet_status_t st = nondet_int();
  size_t o = nondet_size_t();
  __CPROVER_assume(o <= cap);
  *out = o; g_comp_out = o; g_comp_ret = st;
  return st;
}
carquet_status_t carquet_snappy_compress(const uint8_t *s, size_t n, uint8_t *d, size_t c, size_t *o) { return pw_compress(1, s, n, d, c, o); }
carquet_status_t carquet_lz4_compress(const uint8_t *s, size_t n, uint8_t *d, size_t c, size_t *o) { return pw_compress(2, s, n, d, c, o); }
int carquet_gzip_compress(const uint8_t *s, size_t n, uint8_t *d, size_t c, size_t *o, int level) { __CPROVER_precondition(level >= 1 && level <= 9, "gzip level in range"); return (int)pw_compress(3, s, n, d, c, o); }
int carquet_zstd_compress(const uint8_t *s, size_t n, uint8_t *d, size_t c, size_t *o, int level) { __CPROVER_precondition(level >= 1 && level <= 22, "zstd level in range"); return (int)pw_compress(4, s, n, d, c, o); }

#include "src/writer/page_writer.c"

static void pw_mk_buffer(carquet_buffer_t *b) {
  size_t n = nondet_size_t();
  __CPROVER_assume(n <= CQV_MAXBUF);
  b->size = n; b->capacity = n; b->owns_data = true;
  b->data = n ? malloc(n) : NULL;
  __CPROVER_assume(n == 0 || b->data != NULL);
}
static int pw_codec_class(carquet_compression_t c) {
  return c == CARQUET_COMPRESSION_SNAPPY ? 1 : (c == CARQUET_COMPRESSION_LZ4 || c == CARQUET_COMPRESSION_LZ4_RAW) ? 2 :
         c == CARQUET_COMPRESSION_GZIP ? 3 : c == CARQUET_COMPRESSION_ZSTD ? 4 : 0;
}

/* C09: compress_data allocates exactly the codec's bound for the input size and passes it as capacity */
void h_c09_compress_data(void) {
  carquet_compression_t codec = nondet_int();
  size_t n = nondet_size_t();
  __CPROVER_assume(n <= CQV_MAXBUF);
  uint8_t *in = n ? malloc(n) : NULL;
  __CPROVER_assume(n == 0 || in != NULL);
  carquet_buffer_t out; carquet_buffer_init(&out);
  carquet_status_t st = compress_data(codec, in, n, &out);
  int cls = pw_codec_class(codec);
  if (codec == CARQUET_COMPRESSION_UNCOMPRESSED) {
    __CPROVER_assert(g_comp_calls == 0 && g_bound_calls == 0, "uncompressed: no codec involved");
    __CPROVER_assert(g_last_app_buf == &out && g_last_app_src == in && g_last_app_len == n && st == g_last_app_ret, "uncompressed: the input itself is appended and the append status returned");
    CQV_CANARY("uncompressed path");
  } else if (cls == 0) {
    __CPROVER_assert(st == CARQUET_ERROR_UNSUPPORTED_CODEC && g_comp_calls == 0 && g_last_app_ev == 0, "unknown codec refused without output");
    CQV_CANARY("unsupported codec path");
  } else {
    __CPROVER_assert(g_bound_calls == 1 && g_bound_codec == cls && g_bound_arg == n, "C09: the codec's own bound is asked for exactly the input size");
    if (g_comp_calls) {
      __CPROVER_assert(g_comp_calls == 1 && g_comp_codec == cls, "C09: the matching codec compresses, once");
      __CPROVER_assert(g_comp_src == in && g_comp_src_size == n, "C09: the whole input is compressed");
      __CPROVER_assert(g_comp_cap == g_bound_ret, "C09: the advertised bound is passed as capacity");
      if (g_comp_ret == CARQUET_OK) {
        __CPROVER_assert(g_last_app_buf == &out && g_last_app_src == g_comp_dst && g_last_app_len == g_comp_out && st == g_last_app_ret, "C09: exactly the reported length is appended, append status returned");
        CQV_CANARY("compressed and appended");
      } else {
        __CPROVER_assert(st == g_comp_ret && g_last_app_ev == 0, "C09: a codec failure is returned and nothing is appended");
        CQV_CANARY("codec failure path");
      }
    } else {
      __CPROVER_assert(st == CARQUET_ERROR_OUT_OF_MEMORY && g_last_app_ev == 0, "no codec call only when the bound-sized allocation failed");
      CQV_CANARY("allocation failure path");
    }
  }
  carquet_buffer_destroy(&out);
  free(in);
  CQV_CANARY("compress_data returns");
}

/* C14 writer side: the CRC covers exactly the stored bytes appended after the header; field 4 iff write_crc */
void h_c14_finalize(void) {
  carquet_page_writer_t *w = malloc(sizeof(*w));
  __CPROVER_assume(w != NULL);
  carquet_page_writer_t w0; *w = w0;            /* arbitrary configuration and counters */
  pw_mk_buffer(&w->values_buffer); pw_mk_buffer(&w->def_levels_buffer); pw_mk_buffer(&w->rep_levels_buffer);
  pw_mk_buffer(&w->page_buffer);
  __CPROVER_assume(w->min_max_size <= sizeof(w->min_value));   /* set only to sizeof(int32/int64/float/double) by update_statistics_* */
  const uint8_t *pd = NULL; size_t ps = 0; int32_t us = 0, cs = 0;
  bool wcrc = w->write_crc;
  g_any_append_failed = 0;
  carquet_status_t st = carquet_page_writer_finalize(w, &pd, &ps, &us, &cs);
  if (st == CARQUET_OK) {
    CQV_CANARY("finalize can succeed");
    /* the header goes to the page buffer, after it was cleared */
    __CPROVER_assert(g_enc_buf == &w->page_buffer, "header is encoded into the page buffer");
    __CPROVER_assert(g_cleared_buf == &w->page_buffer && g_cleared_ev != 0 && g_cleared_ev < g_first_thrift_ev, "page buffer cleared before the header");
    /* the last thing that happens to the page buffer is the append of the stored bytes */
    __CPROVER_assert(g_last_app_buf == &w->page_buffer && g_last_app_ev > g_last_thrift_ev, "stored bytes are appended after the complete header");
    __CPROVER_assert(g_f3_n == 1 && g_f3 == (int32_t)g_last_app_len && cs == g_f3, "compressed_page_size field and out-parameter are the appended length");
    /* C19: success is reported only when no allocation (buffer growth) failed on the way */
    __CPROVER_assert(!g_any_append_failed, "C19: finalize returns OK only if every buffer append (body assembly, header, stored bytes) succeeded");
    __CPROVER_assert(g_last_app_ret == CARQUET_OK, "C19: the append of the stored bytes succeeded when finalize returns OK");
    __CPROVER_assert(pd == w->page_buffer.data && ps == w->page_buffer.size && ps == g_last_app_presize + g_last_app_len, "returned page = header bytes followed by exactly the appended bytes");
    if (wcrc) {
      CQV_CANARY("finalize with CRC");
      __CPROVER_assert(g_wcrc_calls == 1, "C14: one checksum per page");
      __CPROVER_assert(g_wcrc_ptr == g_last_app_src && g_wcrc_len == g_last_app_len, "C14: checksum covers exactly the bytes appended after the header");
      __CPROVER_assert(!g_last_app_dirty && g_wcrc_ev < g_last_app_ev, "C14: those bytes are not touched between checksum and append");
      __CPROVER_assert(g_f4_n == 1 && g_f4 == (int32_t)g_wcrc_ret, "C14: crc field carries the computed checksum");
    } else {
      CQV_CANARY("finalize without CRC");
      __CPROVER_assert(g_f4_n == 0, "C14: no crc field when write_crc is off");
    }
  } else {
    CQV_CANARY("finalize can fail");
  }
  carquet_buffer_destroy(&w->values_buffer); carquet_buffer_destroy(&w->def_levels_buffer);
  carquet_buffer_destroy(&w->rep_levels_buffer); carquet_buffer_destroy(&w->page_buffer);
  free(w);
  CQV_CANARY("finalize returns");
}
