/* C14, reader side: the four page-load functions of the real src/reader/page_reader.c.
 * Callees outside the file are the assumed contracts of stubs/pages_stubs.c (CRC returns an
 * arbitrary value, the header parser returns arbitrary fields, codecs / page decoders set ghost
 * flags).  Ranges are only recorded in these jobs (PG_RANGES=0); memory safety is C04's job.
 *
 * Obligation, for the LAST header the function parsed (hdr), when that parse succeeded and the page
 * type was accepted:
 *   (the function may stop before the CRC site with a non-CRC error -- offset/size/count validation,
 *    seek, allocation, short read -- having checksummed, decompressed, decoded and returned nothing)
 *   has_crc && verify_checksums  =>  carquet_crc32 called exactly once, over exactly the
 *       compressed_page_size bytes that follow the header (mmap: header_ptr+header_size; fread: the
 *       buffer just filled by a complete fread of that many bytes at offset+header_size)
 *   ... && crc != (uint32_t)hdr.crc  =>  returns CARQUET_ERROR_CRC_MISMATCH, error struct says so,
 *       no codec and no page decoder ran afterwards, reader page/dictionary state unchanged, every
 *       temporary freed (memory-leak check after releasing what the reader owns)
 *   ... && crc == (uint32_t)hdr.crc  =>  no CRC error
 *   !has_crc || !verify_checksums =>  no CRC error
 */
#define PG_RANGES 0
#include "pages_stubs.c"
#include "src/reader/page_reader.c"

typedef struct { bool page_loaded; int32_t nv, vr, hs, cs; uint8_t *dv; int16_t *dd, *dr; size_t cap;
                 carquet_data_ownership_t own; int64_t cur, start; bool has_dict; uint8_t *dict; size_t dsz;
                 int32_t dcnt; uint32_t *doff; uint8_t *retained; } pg_snap_t;
static pg_snap_t pg_snap(const carquet_column_reader_t *r) {
  pg_snap_t s = { r->page_loaded, r->page_num_values, r->page_values_read, r->page_header_size,
                  r->page_compressed_size, r->decoded_values, r->decoded_def_levels, r->decoded_rep_levels,
                  r->decoded_capacity, r->decoded_ownership, r->current_page, r->data_start_offset,
                  r->has_dictionary, r->dictionary_data, r->dictionary_size, r->dictionary_count,
                  r->dictionary_offsets, r->page_data_for_values };
  return s;
}
static bool pg_page_state_same(const pg_snap_t *a, const pg_snap_t *b) {
  return a->page_loaded == b->page_loaded && a->nv == b->nv && a->vr == b->vr && a->hs == b->hs && a->cs == b->cs &&
         a->dv == b->dv && a->dd == b->dd && a->dr == b->dr && a->cap == b->cap && a->own == b->own &&
         a->cur == b->cur && a->retained == b->retained;
}
static bool pg_dict_state_same(const pg_snap_t *a, const pg_snap_t *b) {
  return a->start == b->start && a->has_dict == b->has_dict && a->dict == b->dict && a->dsz == b->dsz &&
         a->dcnt == b->dcnt && a->doff == b->doff;
}

/* which: 0 dictionary page, 1 data page;  expect_off: file offset of the page the last parse looked at */
static void pg_c14_check(pg_env_t *e, carquet_status_t st, bool is_mmap, int which, int64_t expect_off,
                         const pg_snap_t *before) {
  bool verify = e->fr->options.verify_checksums;
  pg_snap_t after = pg_snap(e->r);
  bool accepted = g_parse_calls >= 1 && g_parse_ret == CARQUET_OK &&
                  (which == 0 ? g_hdr.type == CARQUET_PAGE_DICTIONARY
                              : (g_hdr.type == CARQUET_PAGE_DATA || g_hdr.type == CARQUET_PAGE_DATA_V2));
  bool must_verify = accepted && g_hdr.has_crc && verify;
  /* every path may legitimately stop before the CRC site with another error (offset / size / count
   * validation, seek, allocation, short read) -- but then nothing was checksummed, decompressed,
   * decoded or returned */
  bool progressed = g_crc_calls > 0 || st == CARQUET_OK || g_decomp_calls > 0 || g_dict_calls > 0 || g_data_calls > 0;
  if (must_verify && progressed) {
    __CPROVER_assert(g_crc_calls == 1, "C14: checksum computed exactly once for a page that carries one");
    __CPROVER_assert(g_crc_len == (size_t)(int64_t)g_hdr.compressed_page_size, "C14: checksum covers exactly compressed_page_size bytes");
    if (is_mmap) {
      __CPROVER_assert(g_parse_ptr == e->map + expect_off, "C14: header parsed at the page offset");
      __CPROVER_assert(g_crc_ptr == g_parse_ptr + g_hdr_size, "C14: checksum starts at the first stored byte after the header");
    } else {
      __CPROVER_assert(g_fseek_off == (long)((uint64_t)expect_off + (uint64_t)g_hdr_size), "C14: body read from the first stored byte after the header");
      __CPROVER_assert(g_crc_ptr == g_fread_ptr && g_fread_n == g_crc_len && g_fread_got == g_fread_n, "C14: checksum covers the bytes just read, all of them");
    }
    if (g_crc_ret != (uint32_t)g_hdr.crc) {
      CQV_CANARY("C14 mismatch case reached");
      __CPROVER_assert(st == CARQUET_ERROR_CRC_MISMATCH, "C14: damaged page body is reported as CRC mismatch");
      __CPROVER_assert(e->err == NULL || e->err->code == CARQUET_ERROR_CRC_MISMATCH, "C14: error struct carries the CRC code");
      __CPROVER_assert(g_decomp_calls == 0 && g_dict_calls == 0 && g_data_calls == 0, "C14: nothing decompressed or decoded after a mismatch");
      __CPROVER_assert(pg_page_state_same(before, &after), "C14: page state unchanged after a mismatch");
      if (which == 0) __CPROVER_assert(pg_dict_state_same(before, &after), "C14: dictionary state unchanged after a mismatch");
    } else {
      CQV_CANARY("C14 match case reached");
      __CPROVER_assert(st != CARQUET_ERROR_CRC_MISMATCH, "C14: matching checksum never yields a CRC error");
    }
  } else {
    __CPROVER_assert(st != CARQUET_ERROR_CRC_MISMATCH, "C14: no CRC error without a verified, mismatching checksum");
    if (accepted && !must_verify) {
      __CPROVER_assert(g_crc_calls == 0, "C14: no checksum computed when absent or disabled");
      CQV_CANARY("C14 verification-off case reached");
    }
  }
  if (st == CARQUET_OK) CQV_CANARY("load can succeed");
}

static void h_dict(bool is_mmap) {
  pg_env_t e = pg_mk_env(is_mmap);
  /* established by the only call sites (load_next_page_*: `has_dictionary_page_offset && !has_dictionary`) */
  __CPROVER_assume(!e.r->has_dictionary);
  pg_snap_t before = pg_snap(e.r);
  int64_t off = e.cm->dictionary_page_offset;
  carquet_status_t st = is_mmap ? load_dictionary_page_mmap(e.r, e.err) : load_dictionary_page_fread(e.r, e.err);
  pg_c14_check(&e, st, is_mmap, 0, off, &before);
  pg_free_env(&e);
  CQV_CANARY("dictionary load returns");
}
void h_c14_dict_mmap(void) { h_dict(true); }
void h_c14_dict_fread(void) { h_dict(false); }

static void h_page(bool is_mmap) {
  pg_env_t e = pg_mk_env(is_mmap);
  pg_snap_t before = pg_snap(e.r);
  bool dict_first = e.cm->has_dictionary_page_offset && !e.r->has_dictionary;
  int64_t dict_off = e.cm->dictionary_page_offset;
  uint32_t *old_idx = e.r->indices_buffer;
  carquet_status_t st = is_mmap ? load_next_page_mmap(e.r, e.err) : load_next_page_fread(e.r, e.err);
  /* the page decoder's contract cannot express `free`: a changed indices buffer means the old one was released */
  if (e.r->indices_buffer != old_idx) free(old_idx);
  int data_parse = dict_first ? 2 : 1;      /* ordinal of the data page's header parse */
  if (dict_first && !e.r->has_dictionary) {
    /* the dictionary stage did not complete: it must have failed, and its CRC site is the one that counts */
    __CPROVER_assert(st != CARQUET_OK && g_parse_calls <= 1, "a failed dictionary load fails the page load");
    pg_c14_check(&e, st, is_mmap, 0, dict_off, &before);
  } else if (g_parse_calls == data_parse) {
    int64_t off = (int64_t)((uint64_t)e.r->data_start_offset + (uint64_t)before.cur);
    pg_c14_check(&e, st, is_mmap, 1, off, &before);
  } else {
    /* stopped before the data page header was parsed (seek / short header read) */
    __CPROVER_assert(st != CARQUET_OK && st != CARQUET_ERROR_CRC_MISMATCH, "no CRC error before any header was parsed");
  }
  pg_free_env(&e);
  CQV_CANARY("page load returns");
}
void h_c14_page_mmap(void) { h_page(true); }
void h_c14_page_fread(void) { h_page(false); }
