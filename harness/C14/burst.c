/* C14: error-detection lemmas on the bit-serial IEEE CRC-32 definition (specs/crc32_spec.h).
 * Linked to the real code by the c14_* jobs that prove carquet_crc32 == the same definition.
 *
 * Claim: for messages m, m' of equal length that differ by a non-zero pattern confined to a window
 * of <= 32 consecutive bits (any single bit, any byte, any burst <= 32 bits), crc(m) != crc(m').
 * Paper induction over the message bits, each step one of the machine-checked lemmas below:
 *   L1 (linearity of one bit step): step(c1^c2, b1^b2) == step(c1,b1) ^ step(c2,b2)
 *       => register(m ^ e) == register(m) ^ register0(e), register0 = zero preset
 *   L2 (zero input keeps zero, and only zero): step(c,0) == 0  <=>  c == 0
 *       => leading zeros of e keep register0 at 0; trailing zeros keep a non-zero register non-zero
 *   L3 (window): feeding L <= 32 bits whose first bit is 1 into the zero register gives non-zero
 *   the final complement is a bijection, so the CRCs differ. */
#include "cqv.h"
#include "crc32_spec.h"

static uint32_t bit_step(uint32_t c, unsigned bit) { return SPEC_CRC32_BIT(c ^ (bit & 1u)); }

void h_burst_L1(void) {
  uint32_t c1 = nondet_u32(), c2 = nondet_u32();
  unsigned b1 = nondet_unsigned() & 1u, b2 = nondet_unsigned() & 1u;
  __CPROVER_assert(bit_step(c1 ^ c2, b1 ^ b2) == (bit_step(c1, b1) ^ bit_step(c2, b2)), "L1 bit step is GF(2)-linear");
  /* and the byte step of the spec is eight such bit steps (definition check, all c,b) */
  uint8_t b = nondet_u8();
  uint32_t c = c1;
  for (unsigned i = 0; i < 8; i++) c = bit_step(c, (b >> i) & 1u);
  __CPROVER_assert(c == spec_crc32_byte(c1, b), "byte step == 8 bit steps, LSB first");
  CQV_CANARY("L1 end");
}

void h_burst_L2(void) {
  uint32_t c = nondet_u32();
  __CPROVER_assert((bit_step(c, 0) == 0) == (c == 0), "L2 zero-input step fixes exactly zero");
  CQV_CANARY("L2 end");
}

void h_burst_L3(void) {
  uint32_t pattern = nondet_u32();
  unsigned L = nondet_unsigned();
  __CPROVER_assume(L >= 1 && L <= 32 && (pattern & 1u));
  uint32_t reg = 0;
  for (unsigned i = 0; i < 32; i++)
    if (i < L) reg = bit_step(reg, (pattern >> i) & 1u);
  __CPROVER_assert(reg != 0, "L3 a window of <= 32 bits starting with a 1 leaves a non-zero register");
  CQV_CANARY("L3 end");
}
