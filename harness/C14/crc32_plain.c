/* C14, bounded, ghost free: the real src/util/crc32.c exactly as it is (no overlay, no contract, no
 * ghost state, so no extraction drift is possible) on a buffer of CQV_LEN symbolic bytes against the
 * bit-serial IEEE 802.3 definition (specs/crc32_spec.h).  The real crc32_init_tables is executed.
 * Stated bound: length == CQV_LEN, all data, start value 0 and one symbolic start value.
 * This is the stand-in that still decides short lengths when the body of crc32_slicing_by_8 has been
 * restructured and the lock-step overlay no longer matches (then the unbounded jobs are undecided). */
#include "cqv.h"
#include <stdlib.h>
#include "crc32_spec.h"
#include "src/util/crc32.c"

void h_plain(void) {
  crc32_tables_initialized = 0; /* first call: the real function runs the real crc32_init_tables itself */
  uint8_t buf[CQV_LEN + 1];
  for (unsigned i = 0; i < CQV_LEN + 1; i++) buf[i] = nondet_u8();
  uint32_t r = carquet_crc32(buf, CQV_LEN);
  __CPROVER_assert(r == spec_crc32(buf, CQV_LEN), "carquet_crc32 == bit-serial IEEE CRC-32 (plain, bounded length)");
#ifdef CQV_UPDATE
  uint32_t crc0 = nondet_u32();
  uint32_t u = carquet_crc32_update(crc0, buf, CQV_LEN);
  __CPROVER_assert(u == spec_crc32_update(crc0, buf, CQV_LEN), "carquet_crc32_update == bit-serial running CRC (plain, bounded length)");
#endif
  CQV_CANARY("plain bounded harness end");
}
