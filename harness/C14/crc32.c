/* C14: CRC-32 of src/util/crc32.c (software slicing-by-8 path; the ARM hardware path is compiled
 * out on this target) against the bit-serial IEEE 802.3 definition in specs/crc32_spec.h.
 * The real crc32.c is included, so the real static tables and the real crc32_init_tables are used. */
#include "cqv.h"
#include <stdlib.h>
#include "crc32_spec.h"
#ifndef CQV_K
#define CQV_K 0
#endif

/* Ghost state.  Written ONLY by the statements the overlay contracts/crc32.ovl inserts into
 * crc32_slicing_by_8:
 *   entry      : cqv_c0 = crc; cqv_d0 = data; cqv_len0 = length; cqv_g = crc ^ 0xFFFFFFFF; cqv_n = 0;
 *   per byte   : cqv_g = spec_crc32_byte(cqv_g, cqv_d0[cqv_n]); cqv_n++       (8 of these per block)
 * hence at any time cqv_g = spec_crc32_fold(cqv_c0 ^ 0xFFFFFFFF, cqv_d0, cqv_n). */
uint32_t cqv_c0;
const uint8_t *cqv_d0;
size_t cqv_len0;
uint32_t cqv_g;
size_t cqv_n;
/* postcondition of crc32_slicing_by_8 / carquet_crc32_update (c = start value) / carquet_crc32 (c = 0) */
#define CQV_POST_SLICING(ret, c, p, n) \
  (cqv_c0 == (c) && cqv_d0 == (p) && cqv_len0 == (n) && cqv_n == (n) && (ret) == (cqv_g ^ 0xFFFFFFFFu))
/* spec steps called by the inserted ghost code.  Their BODIES are the bit-serial definition
 * (spec_crc32_byte, eight of them for a block); their CONTRACTS (proved below) say that the value
 * equals the table expression the real code uses. */
uint32_t cqv_spec_byte(uint32_t s, uint8_t d);
uint32_t cqv_spec_block8(uint32_t c, uint8_t d0, uint8_t d1, uint8_t d2, uint8_t d3,
                         uint8_t d4, uint8_t d5, uint8_t d6, uint8_t d7);

#include "src/util/crc32.c"

/* ---------------------------------------------------------------------------------------------
 * Expressions over the REAL tables.  Macros (not functions) on purpose: the same expression text
 * over the same variables is bit-blasted once, so a lemma instance and the statement that uses it
 * share their table look-ups literally.
 * ------------------------------------------------------------------------------------------- */
#define CQV_D8 uint8_t d0, uint8_t d1, uint8_t d2, uint8_t d3, uint8_t d4, uint8_t d5, uint8_t d6, uint8_t d7
#define CQV_A8 d0, d1, d2, d3, d4, d5, d6, d7
#define CQV_IX(x) ((uint32_t)(x) & 0xFFu)
#define CQV_T(k, ix) (crc32_tables[k][ix])
/* table index of lane i: byte i of register s, xor data byte d */
#define CQV_L0(s, d) CQV_IX((s) ^ (d))
#define CQV_L1(s, d) CQV_IX(((s) >> 8) ^ (d))
#define CQV_L2(s, d) CQV_IX(((s) >> 16) ^ (d))
#define CQV_L3(s, d) CQV_IX(((s) >> 24) ^ (d))
#define CQV_P(d) CQV_IX(d)
/* bytes of T0[x] as table indices */
#define CQV_R0(x) CQV_IX(CQV_T(0, x))
#define CQV_R1(x) CQV_IX(CQV_T(0, x) >> 8)
#define CQV_R2(x) CQV_IX(CQV_T(0, x) >> 16)
#define CQV_R3(x) CQV_IX(CQV_T(0, x) >> 24)

/* the tail-loop statement of the real code, as an expression: one byte d into register s */
#define CQV_B(s, d) (CQV_T(0, CQV_L0(s, d)) ^ ((s) >> 8))

/* H_k(s): "block expression for the last 8-k bytes d_k..d_7 of a block, register s".
 * H_0 is the block statement of the real code (one = LE32(d0..d3) ^ s, two = LE32(d4..d7)),
 * H_7 is the byte step, H_8 is the register itself.  d0..d7 are taken from the scope. */
#define CQV_H0(s) (CQV_T(7, CQV_L0(s, d0)) ^ CQV_T(6, CQV_L1(s, d1)) ^ CQV_T(5, CQV_L2(s, d2)) ^ CQV_T(4, CQV_L3(s, d3)) ^ \
                   CQV_T(3, CQV_P(d4)) ^ CQV_T(2, CQV_P(d5)) ^ CQV_T(1, CQV_P(d6)) ^ CQV_T(0, CQV_P(d7)))
#define CQV_H1(s) (CQV_T(6, CQV_L0(s, d1)) ^ CQV_T(5, CQV_L1(s, d2)) ^ CQV_T(4, CQV_L2(s, d3)) ^ CQV_T(3, CQV_L3(s, d4)) ^ \
                   CQV_T(2, CQV_P(d5)) ^ CQV_T(1, CQV_P(d6)) ^ CQV_T(0, CQV_P(d7)))
#define CQV_H2(s) (CQV_T(5, CQV_L0(s, d2)) ^ CQV_T(4, CQV_L1(s, d3)) ^ CQV_T(3, CQV_L2(s, d4)) ^ CQV_T(2, CQV_L3(s, d5)) ^ \
                   CQV_T(1, CQV_P(d6)) ^ CQV_T(0, CQV_P(d7)))
#define CQV_H3(s) (CQV_T(4, CQV_L0(s, d3)) ^ CQV_T(3, CQV_L1(s, d4)) ^ CQV_T(2, CQV_L2(s, d5)) ^ CQV_T(1, CQV_L3(s, d6)) ^ \
                   CQV_T(0, CQV_P(d7)))
/* CQV_BREAK_H: deliberately wrong H_4 (sanity check that the slide/block lemmas are not vacuous) */
#ifdef CQV_BREAK_H
#define CQV_H4(s) (CQV_T(2, CQV_L0(s, d4)) ^ CQV_T(3, CQV_L1(s, d5)) ^ CQV_T(1, CQV_L2(s, d6)) ^ CQV_T(0, CQV_L3(s, d7)))
#else
#define CQV_H4(s) (CQV_T(3, CQV_L0(s, d4)) ^ CQV_T(2, CQV_L1(s, d5)) ^ CQV_T(1, CQV_L2(s, d6)) ^ CQV_T(0, CQV_L3(s, d7)))
#endif
#define CQV_H5(s) (CQV_T(2, CQV_L0(s, d5)) ^ CQV_T(1, CQV_L1(s, d6)) ^ CQV_T(0, CQV_L2(s, d7)) ^ ((s) >> 24))
#define CQV_H6(s) (CQV_T(1, CQV_L0(s, d6)) ^ CQV_T(0, CQV_L1(s, d7)) ^ ((s) >> 16))
#define CQV_H7(s) (CQV_T(0, CQV_L0(s, d7)) ^ ((s) >> 8))
#define CQV_H8(s) (s)

/* reachable module states of crc32.c: the two file-local statics are written only by
 * crc32_init_tables, so the state is either "flag == 0" (tables arbitrary: they are overwritten
 * before use) or "flag == 1 and tables as left by crc32_init_tables". */
static void cqv_module_state(int run_init) {
  crc32_tables_initialized = 0;
  if (run_init) crc32_init_tables();
}

/* ---------------------------------------------------------------------------------------------
 * Lemmas (each one proved in its own job, then used by contract in the next)
 * ------------------------------------------------------------------------------------------- */

/* L-byte: one bit-serial byte step equals the tail-loop statement, all 2^40 (s, d) */
uint32_t cqv_spec_byte(uint32_t s, uint8_t d)
__CPROVER_assigns()
__CPROVER_ensures(__CPROVER_return_value == CQV_B(s, d))
{
  return spec_crc32_byte(s, d);
}

/* L-lin-j: table j is GF(2)-linear, stated on three indices with p ^ q ^ r == 0:
 * Tj[p] == Tj[q] ^ Tj[r], all 2^16 */
#define CQV_LIN_STMT (crc32_tables[j][p] == (crc32_tables[j][q] ^ crc32_tables[j][r]))
void cqv_lemma_lin(unsigned j, uint32_t p, uint32_t q, uint32_t r)
__CPROVER_requires(j < 8 && p < 256 && q < 256 && r < 256 && (p ^ q ^ r) == 0)
__CPROVER_assigns()
__CPROVER_ensures(CQV_LIN_STMT)
{
}

/* L-rec: Tn[x] is n zero-byte steps of T0[x], written with the tables n-1..n-4 (all x, n = 1..7) */
void cqv_lemma_rec(uint32_t x)
__CPROVER_requires(x < 256)
__CPROVER_assigns()
__CPROVER_ensures(CQV_T(1, x) == (CQV_T(0, CQV_R0(x)) ^ (CQV_T(0, x) >> 8)))
__CPROVER_ensures(CQV_T(2, x) == (CQV_T(1, CQV_R0(x)) ^ CQV_T(0, CQV_R1(x)) ^ (CQV_T(0, x) >> 16)))
__CPROVER_ensures(CQV_T(3, x) == (CQV_T(2, CQV_R0(x)) ^ CQV_T(1, CQV_R1(x)) ^ CQV_T(0, CQV_R2(x)) ^ (CQV_T(0, x) >> 24)))
__CPROVER_ensures(CQV_T(4, x) == (CQV_T(3, CQV_R0(x)) ^ CQV_T(2, CQV_R1(x)) ^ CQV_T(1, CQV_R2(x)) ^ CQV_T(0, CQV_R3(x))))
__CPROVER_ensures(CQV_T(5, x) == (CQV_T(4, CQV_R0(x)) ^ CQV_T(3, CQV_R1(x)) ^ CQV_T(2, CQV_R2(x)) ^ CQV_T(1, CQV_R3(x))))
__CPROVER_ensures(CQV_T(6, x) == (CQV_T(5, CQV_R0(x)) ^ CQV_T(4, CQV_R1(x)) ^ CQV_T(3, CQV_R2(x)) ^ CQV_T(2, CQV_R3(x))))
__CPROVER_ensures(CQV_T(7, x) == (CQV_T(6, CQV_R0(x)) ^ CQV_T(5, CQV_R1(x)) ^ CQV_T(4, CQV_R2(x)) ^ CQV_T(3, CQV_R3(x))))
{
}

/* L-slide-k: consuming byte d_k with the byte step (u = bytestep(s, d_k)) turns H_k into H_{k+1}.
 * Proof: x = s0 ^ d_k, t = T0[x], u = t ^ (s >> 8); every table index of H_{k+1}(u) is
 * t_i ^ (the corresponding index of H_k(s)); split by L-lin, collect the T[t_i] by L-rec.
 * Proved "harness is the contract": the body is executed with L-lin/L-rec replaced by their
 * contracts and ends with an assertion of the very expression of the ensures clause.
 * (--enforce-contract would start from arbitrary statics, which turns the tables into 2048
 * symbolic stores.) */
#define CQV_SLIDE(K, K1, DK, PROOF)                                                      \
  void cqv_lemma_slide##K(uint32_t s, uint32_t u, CQV_D8)                                \
  __CPROVER_requires(u == CQV_B(s, DK))                                                  \
  __CPROVER_assigns()                                                                    \
  __CPROVER_ensures(CQV_H##K(s) == CQV_H##K1(u))                                         \
  {                                                                                      \
    cqv_lemma_rec(CQV_L0(s, DK));                                                        \
    PROOF                                                                                \
    __CPROVER_assert(CQV_H##K(s) == CQV_H##K1(u), "slide lemma " #K ": H_k(s) == H_k+1(bytestep(s, d_k))"); \
  }
#define CQV_LI(j, p, q, r) cqv_lemma_lin(j, p, q, r);
CQV_SLIDE(0, 1, d0, CQV_LI(6, CQV_L0(u, d1), CQV_L1(s, d1), CQV_R0(CQV_L0(s, d0))) CQV_LI(5, CQV_L1(u, d2), CQV_L2(s, d2), CQV_R1(CQV_L0(s, d0)))
                    CQV_LI(4, CQV_L2(u, d3), CQV_L3(s, d3), CQV_R2(CQV_L0(s, d0))) CQV_LI(3, CQV_L3(u, d4), CQV_P(d4), CQV_R3(CQV_L0(s, d0))))
CQV_SLIDE(1, 2, d1, CQV_LI(5, CQV_L0(u, d2), CQV_L1(s, d2), CQV_R0(CQV_L0(s, d1))) CQV_LI(4, CQV_L1(u, d3), CQV_L2(s, d3), CQV_R1(CQV_L0(s, d1)))
                    CQV_LI(3, CQV_L2(u, d4), CQV_L3(s, d4), CQV_R2(CQV_L0(s, d1))) CQV_LI(2, CQV_L3(u, d5), CQV_P(d5), CQV_R3(CQV_L0(s, d1))))
CQV_SLIDE(2, 3, d2, CQV_LI(4, CQV_L0(u, d3), CQV_L1(s, d3), CQV_R0(CQV_L0(s, d2))) CQV_LI(3, CQV_L1(u, d4), CQV_L2(s, d4), CQV_R1(CQV_L0(s, d2)))
                    CQV_LI(2, CQV_L2(u, d5), CQV_L3(s, d5), CQV_R2(CQV_L0(s, d2))) CQV_LI(1, CQV_L3(u, d6), CQV_P(d6), CQV_R3(CQV_L0(s, d2))))
CQV_SLIDE(3, 4, d3, CQV_LI(3, CQV_L0(u, d4), CQV_L1(s, d4), CQV_R0(CQV_L0(s, d3))) CQV_LI(2, CQV_L1(u, d5), CQV_L2(s, d5), CQV_R1(CQV_L0(s, d3)))
                    CQV_LI(1, CQV_L2(u, d6), CQV_L3(s, d6), CQV_R2(CQV_L0(s, d3))) CQV_LI(0, CQV_L3(u, d7), CQV_P(d7), CQV_R3(CQV_L0(s, d3))))
CQV_SLIDE(4, 5, d4, CQV_LI(2, CQV_L0(u, d5), CQV_L1(s, d5), CQV_R0(CQV_L0(s, d4))) CQV_LI(1, CQV_L1(u, d6), CQV_L2(s, d6), CQV_R1(CQV_L0(s, d4)))
                    CQV_LI(0, CQV_L2(u, d7), CQV_L3(s, d7), CQV_R2(CQV_L0(s, d4))))
CQV_SLIDE(5, 6, d5, CQV_LI(1, CQV_L0(u, d6), CQV_L1(s, d6), CQV_R0(CQV_L0(s, d5))) CQV_LI(0, CQV_L1(u, d7), CQV_L2(s, d7), CQV_R1(CQV_L0(s, d5))))
CQV_SLIDE(6, 7, d6, CQV_LI(0, CQV_L0(u, d7), CQV_L1(s, d7), CQV_R0(CQV_L0(s, d6))))
CQV_SLIDE(7, 8, d7, )

/* L-block: eight bit-serial byte steps equal the block statement of the real code, all 2^96.
 * Proof: g_k+1 = byte step of g_k (L-byte), H_0(g_0) == H_1(g_1) == ... == H_8(g_8) = g_8 (L-slide).
 * Proved like the slide lemmas (body executed with the inner lemmas replaced by their contracts,
 * final assertion = ensures clause). */
uint32_t cqv_spec_block8(uint32_t c, CQV_D8)
__CPROVER_assigns()
__CPROVER_ensures(__CPROVER_return_value == CQV_H0(c))
{
  uint32_t g1 = cqv_spec_byte(c, d0);
  uint32_t g2 = cqv_spec_byte(g1, d1);
  uint32_t g3 = cqv_spec_byte(g2, d2);
  uint32_t g4 = cqv_spec_byte(g3, d3);
  uint32_t g5 = cqv_spec_byte(g4, d4);
  uint32_t g6 = cqv_spec_byte(g5, d5);
  uint32_t g7 = cqv_spec_byte(g6, d6);
  uint32_t g8 = cqv_spec_byte(g7, d7);
#ifdef CQV_PROVE_BLOCK8
  cqv_lemma_slide0(c, g1, CQV_A8);
  cqv_lemma_slide1(g1, g2, CQV_A8);
  cqv_lemma_slide2(g2, g3, CQV_A8);
  cqv_lemma_slide3(g3, g4, CQV_A8);
  cqv_lemma_slide4(g4, g5, CQV_A8);
#ifndef CQV_BREAK_CHAIN /* sanity check: without this link the block lemma must not go through */
  cqv_lemma_slide5(g5, g6, CQV_A8);
#endif
  cqv_lemma_slide6(g6, g7, CQV_A8);
  cqv_lemma_slide7(g7, g8, CQV_A8);
  __CPROVER_assert(g8 == CQV_H0(c), "block lemma: eight bit-serial byte steps == block statement of the real code");
#endif
  return g8;
}

/* ---------------------------------------------------------------------------------------------
 * Entry points
 * ------------------------------------------------------------------------------------------- */

/* 1. table facts: after the real crc32_init_tables, T0[b] = 8 bit-serial steps of b and
 * Tk[x] = byte step of T(k-1)[x] with a zero byte, for every b, x, k (arbitrary ghost indices) */
void h_tables(void) {
  cqv_module_state(1);
  __CPROVER_assert(crc32_tables_initialized != 0, "init marks the tables initialized");
  uint8_t b = nondet_u8();
  __CPROVER_assert(crc32_tables[0][b] == spec_crc32_byte(0, b), "T0[b] is eight bit-serial steps of b");
  unsigned k = nondet_unsigned();
  __CPROVER_assume(k >= 1 && k <= 7);
  uint32_t p = crc32_tables[k - 1][b];
  __CPROVER_assert(crc32_tables[k][b] == ((p >> 8) ^ crc32_tables[0][p & 0xFF]), "Tk[x] = (T(k-1)[x] >> 8) ^ T0[T(k-1)[x] & 0xFF]");
  __CPROVER_assert(crc32_tables[k][b] == spec_crc32_byte(p, 0), "Tk[x] = bit-serial zero-byte step of T(k-1)[x]");
  /* a second call leaves everything as it is */
  uint32_t before = crc32_tables[k][b];
  crc32_init_tables();
  __CPROVER_assert(crc32_tables[k][b] == before && crc32_tables_initialized != 0, "second init is the identity");
  CQV_CANARY("tables harness end");
}

void h_lemma_byte(void) {
  cqv_module_state(1);
  uint32_t r = cqv_spec_byte(nondet_u32(), nondet_u8());
  CQV_CANARY("byte lemma harness end");
}

void h_lemma_lin(void) {
  cqv_module_state(1);
  unsigned j = CQV_K;
  uint32_t p = nondet_u8(), q = nondet_u8(), r = p ^ q;
  cqv_lemma_lin(j, p, q, r);
  __CPROVER_assert(CQV_LIN_STMT, "table j is GF(2)-linear");
  CQV_CANARY("lin lemma harness end");
}

void h_lemma_rec(void) {
  cqv_module_state(1);
  cqv_lemma_rec(nondet_u8());
  CQV_CANARY("rec lemma harness end");
}

#define CQV_CAT_(a, b) a##b
#define CQV_CAT(a, b) CQV_CAT_(a, b)
#if CQV_K == 0
#define CQV_DK d0
#elif CQV_K == 1
#define CQV_DK d1
#elif CQV_K == 2
#define CQV_DK d2
#elif CQV_K == 3
#define CQV_DK d3
#elif CQV_K == 4
#define CQV_DK d4
#elif CQV_K == 5
#define CQV_DK d5
#elif CQV_K == 6
#define CQV_DK d6
#else
#define CQV_DK d7
#endif
void h_lemma_slide(void) {
  cqv_module_state(1);
  uint32_t s = nondet_u32();
  uint8_t d0 = nondet_u8(), d1 = nondet_u8(), d2 = nondet_u8(), d3 = nondet_u8(), d4 = nondet_u8(), d5 = nondet_u8(),
          d6 = nondet_u8(), d7 = nondet_u8();
  uint32_t u = CQV_B(s, CQV_DK);
  CQV_CAT(cqv_lemma_slide, CQV_K)(s, u, CQV_A8);
  CQV_CANARY("slide lemma harness end");
}

void h_lemma_block8(void) {
  cqv_module_state(1);
  uint32_t r = cqv_spec_block8(nondet_u32(), nondet_u8(), nondet_u8(), nondet_u8(), nondet_u8(),
                               nondet_u8(), nondet_u8(), nondet_u8(), nondet_u8());
  CQV_CANARY("block lemma harness end");
}

/* 3.-5. the real function, unbounded length, both module states.
 * "Harness is the contract" (loop contracts applied, function contract asserted here with the same
 * macro the overlay uses in the ensures clause): --enforce-contract needs the loops of the callee
 * crc32_init_tables unrolled in the goto program, and the loop-contract pass does not get through
 * the 4000 unrolled table stores (>12 GB).  Here cbmc itself unwinds them. */
#ifndef CQV_STATE
#define CQV_STATE nondet_bool()
#endif
void h_slicing(void) {
  cqv_module_state(CQV_STATE);
  uint32_t crc = nondet_u32();
  size_t length = nondet_size_t();
  __CPROVER_assume(length <= CQV_MAXBUF);
  const uint8_t *data = malloc(length);
  __CPROVER_assume(data != NULL);
  uint32_t r = crc32_slicing_by_8(crc, data, length);
  __CPROVER_assert(CQV_POST_SLICING(r, crc, data, length), "crc32_slicing_by_8: result is the complement of the ghost bit-serial register folded over exactly the input");
  __CPROVER_assert(crc32_tables_initialized != 0, "tables are initialized afterwards");
  CQV_CANARY("crc32_slicing_by_8 returns");
}

void h_crc32(void) {
  const uint8_t *data = nondet_ptr();
  size_t length = nondet_size_t();
  uint32_t r = carquet_crc32(data, length);
  CQV_CANARY("carquet_crc32 returns");
}

void h_crc32_update(void) {
  uint32_t crc = nondet_u32();
  const uint8_t *data = nondet_ptr();
  size_t length = nondet_size_t();
  uint32_t r = carquet_crc32_update(crc, data, length);
  CQV_CANARY("carquet_crc32_update returns");
}

/* 6. bounded cross-check, no contracts involved: concrete length CQV_LEN, alignment offset
 * CQV_OFF, all data: real functions == explicit bit-serial loop, ghost wiring == explicit loop,
 * and the composition law at every split point */
#ifndef CQV_LEN
#define CQV_LEN 0
#endif
#ifndef CQV_OFF
#define CQV_OFF 0
#endif
void h_bounded(void) {
  cqv_module_state(nondet_bool());
  uint8_t buf[CQV_LEN + 8 + 1], init[CQV_LEN + 8 + 1];
  size_t len = CQV_LEN, off = CQV_OFF;
  for (unsigned i = 0; i < CQV_LEN + 8 + 1; i++) buf[i] = init[i];
  const uint8_t *p = buf + off;
  uint32_t r = carquet_crc32(p, len);
  __CPROVER_assert(r == spec_crc32(p, len), "carquet_crc32 == bit-serial IEEE CRC-32");
  __CPROVER_assert(cqv_n == len && cqv_d0 == p && cqv_c0 == 0 && cqv_g == spec_crc32_fold(0xFFFFFFFFu, p, len),
                   "ghost register is the bit-serial fold over exactly the input bytes");
  uint32_t crc0 = nondet_u32();
  uint32_t u = carquet_crc32_update(crc0, p, len);
  __CPROVER_assert(u == spec_crc32_update(crc0, p, len), "carquet_crc32_update == bit-serial running CRC, any start value");
  CQV_CANARY("bounded harness end");
}

/* 5b. composition law on the real code, total length CQV_LEN, every split point, all data */
void h_compose_bounded(void) {
  cqv_module_state(nondet_bool());
  uint8_t buf[CQV_LEN + 8 + 1], init[CQV_LEN + 8 + 1];
  size_t len = CQV_LEN, off = CQV_OFF;
  for (unsigned i = 0; i < CQV_LEN + 8 + 1; i++) buf[i] = init[i];
  const uint8_t *p = buf + off;
  uint32_t crc0 = nondet_u32();
  size_t split = nondet_size_t();
  __CPROVER_assume(split <= len);
  uint32_t u = carquet_crc32_update(crc0, p, len);
  uint32_t a = carquet_crc32_update(crc0, p, split);
  uint32_t ab = carquet_crc32_update(a, p + split, len - split);
  __CPROVER_assert(ab == u, "update(update(c, a), b) == update(c, a||b)");
  __CPROVER_assert(carquet_crc32_update(carquet_crc32(p, split), p + split, len - split) == carquet_crc32(p, len), "update(crc32(a), b) == crc32(a||b)");
  CQV_CANARY("compose harness end");
}
