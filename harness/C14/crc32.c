/* C14: CRC-32 of src/util/crc32.c (software slicing-by-8 path; the ARM hardware path is compiled
 * out on this target) against the bit-serial IEEE 802.3 definition in specs/crc32_spec.h.
 * The real crc32.c is included, so the real static tables and the real crc32_init_tables are used. */
#include "cqv.h"
#include <stdlib.h>
#include "crc32_spec.h"
#ifndef CQV_K
#define CQV_K 0
#endif

/* Ghost state.  Written ONLY by the statements the overlay contracts/crc32.ovl inserts into
 * crc32_slicing_by_8:
 *   entry      : cqv_c0 = crc; cqv_d0 = data; cqv_len0 = length; cqv_g = crc ^ 0xFFFFFFFF; cqv_n = 0;
 *   per byte   : cqv_g = spec_crc32_byte(cqv_g, cqv_d0[cqv_n]); cqv_n++       (8 of these per block)
 * hence at any time cqv_g = spec_crc32_fold(cqv_c0 ^ 0xFFFFFFFF, cqv_d0, cqv_n). */
uint32_t cqv_c0;
const uint8_t *cqv_d0;
size_t cqv_len0;
uint32_t cqv_g;
size_t cqv_n;
/* block lemma called by the inserted ghost code; contract + proof below */
void cqv_lemma_block8(uint32_t c, uint8_t d0, uint8_t d1, uint8_t d2, uint8_t d3,
                      uint8_t d4, uint8_t d5, uint8_t d6, uint8_t d7);

#include "src/util/crc32.c"

/* ---------------------------------------------------------------------------------------------
 * Expressions over the REAL tables
 * ------------------------------------------------------------------------------------------- */
#define CQV_T(k, x) (crc32_tables[k][(x) & 0xFFu])
#define CQV_Y(s, i) ((uint32_t)((s) >> (8 * (i))) & 0xFFu)
#define CQV_D8 uint8_t d0, uint8_t d1, uint8_t d2, uint8_t d3, uint8_t d4, uint8_t d5, uint8_t d6, uint8_t d7
#define CQV_A8 d0, d1, d2, d3, d4, d5, d6, d7

/* the tail-loop statement of the real code, as an expression: one byte d into register s */
static inline uint32_t cqv_B(uint32_t s, uint8_t d) { return crc32_tables[0][(s ^ d) & 0xFF] ^ (s >> 8); }

/* H_k(s, d_k..d_7): "block expression for the last 8-k bytes of a block, register s".
 * H_0 is the block statement of the real code (one = LE32(d0..d3) ^ s, two = LE32(d4..d7)),
 * H_7 is the byte step, H_8 is the register itself. */
static inline uint32_t cqv_H0(uint32_t s, CQV_D8) {
  return CQV_T(7, CQV_Y(s, 0) ^ d0) ^ CQV_T(6, CQV_Y(s, 1) ^ d1) ^ CQV_T(5, CQV_Y(s, 2) ^ d2) ^ CQV_T(4, CQV_Y(s, 3) ^ d3) ^
         CQV_T(3, d4) ^ CQV_T(2, d5) ^ CQV_T(1, d6) ^ CQV_T(0, d7);
}
static inline uint32_t cqv_H1(uint32_t s, CQV_D8) {
  return CQV_T(6, CQV_Y(s, 0) ^ d1) ^ CQV_T(5, CQV_Y(s, 1) ^ d2) ^ CQV_T(4, CQV_Y(s, 2) ^ d3) ^ CQV_T(3, CQV_Y(s, 3) ^ d4) ^
         CQV_T(2, d5) ^ CQV_T(1, d6) ^ CQV_T(0, d7);
}
static inline uint32_t cqv_H2(uint32_t s, CQV_D8) {
  return CQV_T(5, CQV_Y(s, 0) ^ d2) ^ CQV_T(4, CQV_Y(s, 1) ^ d3) ^ CQV_T(3, CQV_Y(s, 2) ^ d4) ^ CQV_T(2, CQV_Y(s, 3) ^ d5) ^
         CQV_T(1, d6) ^ CQV_T(0, d7);
}
static inline uint32_t cqv_H3(uint32_t s, CQV_D8) {
  return CQV_T(4, CQV_Y(s, 0) ^ d3) ^ CQV_T(3, CQV_Y(s, 1) ^ d4) ^ CQV_T(2, CQV_Y(s, 2) ^ d5) ^ CQV_T(1, CQV_Y(s, 3) ^ d6) ^
         CQV_T(0, d7);
}
static inline uint32_t cqv_H4(uint32_t s, CQV_D8) {
  return CQV_T(3, CQV_Y(s, 0) ^ d4) ^ CQV_T(2, CQV_Y(s, 1) ^ d5) ^ CQV_T(1, CQV_Y(s, 2) ^ d6) ^ CQV_T(0, CQV_Y(s, 3) ^ d7);
}
static inline uint32_t cqv_H5(uint32_t s, CQV_D8) {
  return CQV_T(2, CQV_Y(s, 0) ^ d5) ^ CQV_T(1, CQV_Y(s, 1) ^ d6) ^ CQV_T(0, CQV_Y(s, 2) ^ d7) ^ (s >> 24);
}
static inline uint32_t cqv_H6(uint32_t s, CQV_D8) {
  return CQV_T(1, CQV_Y(s, 0) ^ d6) ^ CQV_T(0, CQV_Y(s, 1) ^ d7) ^ (s >> 16);
}
static inline uint32_t cqv_H7(uint32_t s, CQV_D8) { return CQV_T(0, CQV_Y(s, 0) ^ d7) ^ (s >> 8); }
static inline uint32_t cqv_H8(uint32_t s, CQV_D8) { return s; }

/* eight bit-serial byte steps (the specification of one block) */
static inline uint32_t cqv_spec8(uint32_t c, CQV_D8) {
  c = spec_crc32_byte(c, d0); c = spec_crc32_byte(c, d1); c = spec_crc32_byte(c, d2); c = spec_crc32_byte(c, d3);
  c = spec_crc32_byte(c, d4); c = spec_crc32_byte(c, d5); c = spec_crc32_byte(c, d6); c = spec_crc32_byte(c, d7);
  return c;
}

/* reachable module states of crc32.c: the two file-local statics are written only by
 * crc32_init_tables, so the state is either "flag == 0" (tables arbitrary: they are overwritten
 * before use) or "flag == 1 and tables as left by crc32_init_tables". */
static void cqv_module_state(int run_init) {
  crc32_tables_initialized = 0;
  if (run_init) crc32_init_tables();
}

/* ---------------------------------------------------------------------------------------------
 * Lemmas (each one: contract enforced in its own job, then used by contract in the next)
 * ------------------------------------------------------------------------------------------- */

/* L-byte: the tail-loop statement is one bit-serial byte step, all 2^40 (s, d) */
void cqv_lemma_byte(uint32_t s, uint8_t d)
__CPROVER_assigns()
__CPROVER_ensures(cqv_B(s, d) == spec_crc32_byte(s, d))
{
}

/* L-lin-j: table j is GF(2)-linear: Tj[a ^ b] == Tj[a] ^ Tj[b], all (a, b) */
void cqv_lemma_lin(unsigned j, uint8_t a, uint8_t b)
__CPROVER_requires(j < 8)
__CPROVER_assigns()
__CPROVER_ensures(crc32_tables[j][(uint8_t)(a ^ b)] == (crc32_tables[j][a] ^ crc32_tables[j][b]))
{
}

/* L-rec: Tn[x] is n zero-byte steps of T0[x], written with the tables n-1..n-4 (all x, n = 1..7) */
void cqv_lemma_rec(uint8_t x)
__CPROVER_assigns()
__CPROVER_ensures(CQV_T(1, x) == (CQV_T(0, CQV_Y(CQV_T(0, x), 0)) ^ (CQV_T(0, x) >> 8)))
__CPROVER_ensures(CQV_T(2, x) == (CQV_T(1, CQV_Y(CQV_T(0, x), 0)) ^ CQV_T(0, CQV_Y(CQV_T(0, x), 1)) ^ (CQV_T(0, x) >> 16)))
__CPROVER_ensures(CQV_T(3, x) == (CQV_T(2, CQV_Y(CQV_T(0, x), 0)) ^ CQV_T(1, CQV_Y(CQV_T(0, x), 1)) ^ CQV_T(0, CQV_Y(CQV_T(0, x), 2)) ^ (CQV_T(0, x) >> 24)))
__CPROVER_ensures(CQV_T(4, x) == (CQV_T(3, CQV_Y(CQV_T(0, x), 0)) ^ CQV_T(2, CQV_Y(CQV_T(0, x), 1)) ^ CQV_T(1, CQV_Y(CQV_T(0, x), 2)) ^ CQV_T(0, CQV_Y(CQV_T(0, x), 3))))
__CPROVER_ensures(CQV_T(5, x) == (CQV_T(4, CQV_Y(CQV_T(0, x), 0)) ^ CQV_T(3, CQV_Y(CQV_T(0, x), 1)) ^ CQV_T(2, CQV_Y(CQV_T(0, x), 2)) ^ CQV_T(1, CQV_Y(CQV_T(0, x), 3))))
__CPROVER_ensures(CQV_T(6, x) == (CQV_T(5, CQV_Y(CQV_T(0, x), 0)) ^ CQV_T(4, CQV_Y(CQV_T(0, x), 1)) ^ CQV_T(3, CQV_Y(CQV_T(0, x), 2)) ^ CQV_T(2, CQV_Y(CQV_T(0, x), 3))))
__CPROVER_ensures(CQV_T(7, x) == (CQV_T(6, CQV_Y(CQV_T(0, x), 0)) ^ CQV_T(5, CQV_Y(CQV_T(0, x), 1)) ^ CQV_T(4, CQV_Y(CQV_T(0, x), 2)) ^ CQV_T(3, CQV_Y(CQV_T(0, x), 3))))
{
}

/* L-slide-k: consuming byte d_k with the byte step turns H_k into H_{k+1}.
 * Proof: x = s0 ^ d_k, t = T0[x], bytestep(s, d_k) = t ^ (s >> 8); every table index of H_{k+1} is
 * t_i ^ y_i with y_i the corresponding index of H_k; split by L-lin, collect the T[t_i] by L-rec. */
#define CQV_SLIDE(K, K1, DK, PROOF)                                                      \
  void cqv_lemma_slide##K(uint32_t s, CQV_D8)                                            \
  __CPROVER_assigns()                                                                    \
  __CPROVER_ensures(cqv_H##K(s, CQV_A8) == cqv_H##K1(cqv_B(s, DK), CQV_A8))              \
  {                                                                                      \
    uint8_t x = (uint8_t)(CQV_Y(s, 0) ^ DK);                                             \
    uint32_t t = CQV_T(0, x);                                                            \
    uint8_t t0 = (uint8_t)CQV_Y(t, 0), t1 = (uint8_t)CQV_Y(t, 1), t2 = (uint8_t)CQV_Y(t, 2), t3 = (uint8_t)CQV_Y(t, 3); \
    uint8_t s1 = (uint8_t)CQV_Y(s, 1), s2 = (uint8_t)CQV_Y(s, 2), s3 = (uint8_t)CQV_Y(s, 3); \
    cqv_lemma_rec(x);                                                                    \
    PROOF                                                                                \
  }
#define CQV_L(j, a, b) cqv_lemma_lin(j, a, (uint8_t)(b));
CQV_SLIDE(0, 1, d0, CQV_L(6, t0, s1 ^ d1) CQV_L(5, t1, s2 ^ d2) CQV_L(4, t2, s3 ^ d3) CQV_L(3, t3, d4))
CQV_SLIDE(1, 2, d1, CQV_L(5, t0, s1 ^ d2) CQV_L(4, t1, s2 ^ d3) CQV_L(3, t2, s3 ^ d4) CQV_L(2, t3, d5))
CQV_SLIDE(2, 3, d2, CQV_L(4, t0, s1 ^ d3) CQV_L(3, t1, s2 ^ d4) CQV_L(2, t2, s3 ^ d5) CQV_L(1, t3, d6))
CQV_SLIDE(3, 4, d3, CQV_L(3, t0, s1 ^ d4) CQV_L(2, t1, s2 ^ d5) CQV_L(1, t2, s3 ^ d6) CQV_L(0, t3, d7))
CQV_SLIDE(4, 5, d4, CQV_L(2, t0, s1 ^ d5) CQV_L(1, t1, s2 ^ d6) CQV_L(0, t2, s3 ^ d7))
CQV_SLIDE(5, 6, d5, CQV_L(1, t0, s1 ^ d6) CQV_L(0, t1, s2 ^ d7))
CQV_SLIDE(6, 7, d6, CQV_L(0, t0, s1 ^ d7))
CQV_SLIDE(7, 8, d7, )

/* L-block: the block statement of the real code equals eight bit-serial byte steps, all 2^96 */
void cqv_lemma_block8(uint32_t c, CQV_D8)
__CPROVER_assigns()
__CPROVER_ensures(cqv_H0(c, CQV_A8) == cqv_spec8(c, CQV_A8))
{
  uint32_t s = c;
  cqv_lemma_slide0(s, CQV_A8); cqv_lemma_byte(s, d0); s = cqv_B(s, d0);
  cqv_lemma_slide1(s, CQV_A8); cqv_lemma_byte(s, d1); s = cqv_B(s, d1);
  cqv_lemma_slide2(s, CQV_A8); cqv_lemma_byte(s, d2); s = cqv_B(s, d2);
  cqv_lemma_slide3(s, CQV_A8); cqv_lemma_byte(s, d3); s = cqv_B(s, d3);
  cqv_lemma_slide4(s, CQV_A8); cqv_lemma_byte(s, d4); s = cqv_B(s, d4);
  cqv_lemma_slide5(s, CQV_A8); cqv_lemma_byte(s, d5); s = cqv_B(s, d5);
  cqv_lemma_slide6(s, CQV_A8); cqv_lemma_byte(s, d6); s = cqv_B(s, d6);
  cqv_lemma_slide7(s, CQV_A8); cqv_lemma_byte(s, d7); s = cqv_B(s, d7);
}

/* ---------------------------------------------------------------------------------------------
 * Entry points
 * ------------------------------------------------------------------------------------------- */

/* 1. table facts: after the real crc32_init_tables, T0[b] = 8 bit-serial steps of b and
 * Tk[x] = byte step of T(k-1)[x] with a zero byte, for every b, x, k (arbitrary ghost indices) */
void h_tables(void) {
  cqv_module_state(1);
  __CPROVER_assert(crc32_tables_initialized != 0, "init marks the tables initialized");
  uint8_t b = nondet_u8();
  __CPROVER_assert(crc32_tables[0][b] == spec_crc32_byte(0, b), "T0[b] is eight bit-serial steps of b");
  unsigned k = nondet_unsigned();
  __CPROVER_assume(k >= 1 && k <= 7);
  uint32_t p = crc32_tables[k - 1][b];
  __CPROVER_assert(crc32_tables[k][b] == ((p >> 8) ^ crc32_tables[0][p & 0xFF]), "Tk[x] = (T(k-1)[x] >> 8) ^ T0[T(k-1)[x] & 0xFF]");
  __CPROVER_assert(crc32_tables[k][b] == spec_crc32_byte(p, 0), "Tk[x] = bit-serial zero-byte step of T(k-1)[x]");
  /* a second call leaves everything as it is */
  uint32_t before = crc32_tables[k][b];
  crc32_init_tables();
  __CPROVER_assert(crc32_tables[k][b] == before && crc32_tables_initialized != 0, "second init is the identity");
  CQV_CANARY("tables harness end");
}

void h_lemma_byte(void) {
  cqv_module_state(1);
  cqv_lemma_byte(nondet_u32(), nondet_u8());
  CQV_CANARY("byte lemma harness end");
}

#define CQV_CAT_(a, b) a##b
#define CQV_CAT(a, b) CQV_CAT_(a, b)
void h_lemma_lin(void) {
  cqv_module_state(1);
  cqv_lemma_lin(CQV_K, nondet_u8(), nondet_u8());
  CQV_CANARY("lin lemma harness end");
}

void h_lemma_rec(void) {
  cqv_module_state(1);
  cqv_lemma_rec(nondet_u8());
  CQV_CANARY("rec lemma harness end");
}

void h_lemma_slide(void) {
  cqv_module_state(1);
  CQV_CAT(cqv_lemma_slide, CQV_K)(nondet_u32(), nondet_u8(), nondet_u8(), nondet_u8(), nondet_u8(),
                                  nondet_u8(), nondet_u8(), nondet_u8(), nondet_u8());
  CQV_CANARY("slide lemma harness end");
}

void h_lemma_block8(void) {
  cqv_module_state(1);
  cqv_lemma_block8(nondet_u32(), nondet_u8(), nondet_u8(), nondet_u8(), nondet_u8(),
                   nondet_u8(), nondet_u8(), nondet_u8(), nondet_u8());
  CQV_CANARY("block lemma harness end");
}

/* 3.-5. the real function, unbounded length, both module states */
void h_slicing(void) {
  cqv_module_state(nondet_bool());
  uint32_t crc = nondet_u32();
  const uint8_t *data = nondet_ptr();
  size_t length = nondet_size_t();
  uint32_t r = crc32_slicing_by_8(crc, data, length);
  CQV_CANARY("crc32_slicing_by_8 returns");
}

void h_crc32(void) {
  const uint8_t *data = nondet_ptr();
  size_t length = nondet_size_t();
  uint32_t r = carquet_crc32(data, length);
  CQV_CANARY("carquet_crc32 returns");
}

void h_crc32_update(void) {
  uint32_t crc = nondet_u32();
  const uint8_t *data = nondet_ptr();
  size_t length = nondet_size_t();
  uint32_t r = carquet_crc32_update(crc, data, length);
  CQV_CANARY("carquet_crc32_update returns");
}

/* 6. bounded cross-check, no contracts involved: concrete length CQV_LEN, alignment offset
 * CQV_OFF, all data: real functions == explicit bit-serial loop, ghost wiring == explicit loop,
 * and the composition law at every split point */
#ifndef CQV_LEN
#define CQV_LEN 0
#endif
#ifndef CQV_OFF
#define CQV_OFF 0
#endif
void h_bounded(void) {
  cqv_module_state(nondet_bool());
  static uint8_t buf[CQV_LEN + 8 + 1] __attribute__((aligned(8)));
  uint8_t init[CQV_LEN + 8 + 1];
  for (unsigned i = 0; i < CQV_LEN + 8 + 1; i++) buf[i] = init[i];
  const uint8_t *p = buf + CQV_OFF;
  uint32_t r = carquet_crc32(p, CQV_LEN);
  __CPROVER_assert(r == spec_crc32(p, CQV_LEN), "carquet_crc32 == bit-serial IEEE CRC-32");
  __CPROVER_assert(cqv_n == CQV_LEN && cqv_d0 == p && cqv_c0 == 0 && cqv_g == spec_crc32_fold(0xFFFFFFFFu, p, CQV_LEN),
                   "ghost register is the bit-serial fold over exactly the input bytes");
  uint32_t c = nondet_u32();
  uint32_t u = carquet_crc32_update(c, p, CQV_LEN);
  __CPROVER_assert(u == spec_crc32_update(c, p, CQV_LEN), "carquet_crc32_update == bit-serial running CRC, any start value");
  CQV_CANARY("bounded harness end");
}

/* 5b. composition law on the real code, total length CQV_LEN, every split point, all data */
void h_compose_bounded(void) {
  cqv_module_state(nondet_bool());
  static uint8_t buf[CQV_LEN + 8 + 1] __attribute__((aligned(8)));
  uint8_t init[CQV_LEN + 8 + 1];
  for (unsigned i = 0; i < CQV_LEN + 8 + 1; i++) buf[i] = init[i];
  const uint8_t *p = buf + CQV_OFF;
  uint32_t c = nondet_u32();
  unsigned k = nondet_unsigned();
  __CPROVER_assume(k <= CQV_LEN);
  uint32_t u = carquet_crc32_update(c, p, CQV_LEN);
  uint32_t a = carquet_crc32_update(c, p, k);
  uint32_t ab = carquet_crc32_update(a, p + k, CQV_LEN - k);
  __CPROVER_assert(ab == u, "update(update(c, a), b) == update(c, a||b)");
  __CPROVER_assert(carquet_crc32_update(carquet_crc32(p, k), p + k, CQV_LEN - k) == carquet_crc32(p, CQV_LEN), "update(crc32(a), b) == crc32(a||b)");
  CQV_CANARY("compose harness end");
}
