/* C02: the one-line accessors of the real src/reader/file_reader.c that the column/batch reader contracts restate
 * (harness/C02/batch.c).  No overlay (file_reader.c as it is), loop free.  "remaining() always equals rows not yet
 * delivered" rests on values_remaining, which carquet_read_next_page / read_batch / skip are proved to maintain. */
#include "cqv.h"
#include <stdlib.h>
#include "src/reader/file_reader.c"
void h_reader_getters(void) {
  carquet_column_reader_t *r = malloc(sizeof(*r));
  carquet_reader_t *rd = malloc(sizeof(*rd));
  carquet_schema_t *sc = malloc(sizeof(*sc));
  __CPROVER_assume(r != NULL && rd != NULL && sc != NULL);
  rd->schema = sc;
  /* any state of the column reader: page loaded or not, page consumed or not */
  __CPROVER_assert(carquet_column_has_next(r) == (r->values_remaining > 0), "C02: has_next() iff rows of the chunk are still undelivered (independent of the page state)");
  __CPROVER_assert(carquet_column_remaining(r) == r->values_remaining, "C02: remaining() is the number of rows not yet delivered");
  __CPROVER_assert(carquet_reader_schema(rd) == sc, "reader_schema returns the file's schema");
  __CPROVER_assert(carquet_reader_num_columns(rd) == sc->num_leaves, "num_columns is the number of leaves");
  __CPROVER_assert(carquet_reader_num_row_groups(rd) == rd->metadata.num_row_groups, "num_row_groups is the footer's count");
  __CPROVER_assert(carquet_reader_num_rows(rd) == rd->metadata.num_rows, "num_rows is the footer's count");
  if (r->page_loaded && r->page_values_read == r->page_num_values && r->values_remaining > 0) CQV_CANARY("getters: page consumed, rows remain");
  CQV_CANARY("getters harness end");
  free(r); free(rd); free(sc);
}
