/* C02 (projection): open_row_group_readers of the real batch_reader.c -- batch slot i gets the column reader of
 * FILE column projected_columns[i] of the requested row group, and the projection itself is left as the caller
 * gave it (by index, by name or identity: see c02_batch_create_projection).  Bounded: <= 3 projected columns.
 * carquet_reader_get_column / carquet_column_reader_free are assumed contracts here (token objects that record
 * which (row group, column) they were opened for; get_column may fail). */
#define CQV_OPEN_RG 1
#include "cqv.h"
#include <stdlib.h>
struct carquet_reader; struct carquet_column_reader; struct carquet_error;
static struct carquet_reader *G_rd;
static int G_open, G_freed;
#include "batch.c"
carquet_column_reader_t *carquet_reader_get_column(carquet_reader_t *reader, int32_t rg, int32_t col, carquet_error_t *error) {
  __CPROVER_assert(reader == (carquet_reader_t *)G_rd, "get_column is asked of the batch reader's file reader");
  if (nondet_bool()) { if (error) error->code = CARQUET_ERROR_COLUMN_NOT_FOUND; return NULL; }
  carquet_column_reader_t *r = malloc(sizeof(*r));
  __CPROVER_assume(r != NULL);
  r->row_group_index = rg; r->column_index = col;
  G_open++;
  return r;
}
void carquet_column_reader_free(carquet_column_reader_t *reader) { if (reader) { G_freed++; free(reader); } }

#ifndef CQV_NPO
#define CQV_NPO 3
#endif
void h_open_row_group(void) {
  carquet_reader_t *rd = malloc(sizeof(*rd));
  carquet_batch_reader_t *br = malloc(sizeof(*br));
  __CPROVER_assume(rd != NULL && br != NULL);
  G_rd = (struct carquet_reader *)rd; G_open = 0; G_freed = 0;
  br->reader = rd;
  int32_t np = nondet_i32(), rg = nondet_i32();
  __CPROVER_assume(np >= 1 && np <= CQV_NPO && rg >= 0);
  br->num_projected = np;
  br->projected_columns = malloc(sizeof(int32_t) * CQV_NPO);
  br->col_readers = malloc(sizeof(carquet_column_reader_t *) * CQV_NPO);
  __CPROVER_assume(br->projected_columns && br->col_readers);
  int32_t want[CQV_NPO];
  for (int i = 0; i < CQV_NPO; i++) { want[i] = nondet_i32(); __CPROVER_assume(want[i] >= 0); br->projected_columns[i] = want[i]; br->col_readers[i] = NULL; }
  br->current_row_group = -1;
  carquet_error_t err; err.code = CARQUET_OK;
  carquet_status_t st = open_row_group_readers(br, rg, &err);
  int g = nondet_int();
  __CPROVER_assume(g >= 0 && g < np);
  __CPROVER_assert(br->projected_columns[g] == want[g], "C02: opening a row group leaves the requested projection (order included) as it was");
  if (st == CARQUET_OK) {
    __CPROVER_assert(br->col_readers[g] != NULL && br->col_readers[g]->column_index == want[g] && br->col_readers[g]->row_group_index == rg,
                     "C02: batch slot g reads file column projection[g] of the requested row group");
    __CPROVER_assert(br->current_row_group == rg && br->rows_read_in_group == 0, "row group recorded, no rows read yet");
    __CPROVER_assert(G_open == np && G_freed == 0, "one column reader per projected column, none released");
    CQV_CANARY("open_row_group succeeds");
    if (np == CQV_NPO && want[0] > want[1]) CQV_CANARY("open_row_group: projection not ascending");
  } else {
    __CPROVER_assert(br->col_readers[g] == NULL && G_open == G_freed, "failure: every reader opened so far is released, slots cleared");
    CQV_CANARY("open_row_group can fail");
  }
  for (int i = 0; i < CQV_NPO; i++) if (i < np && br->col_readers[i]) free(br->col_readers[i]);
  free(br->col_readers); free(br->projected_columns); free(br); free(rd);
}
