/* C02 (projection resolution) / C19: carquet_batch_reader_create (real batch_reader.c).
 * The property: "the batch reader delivers the same rows for every projection (by index or by name)";
 * batch column i must therefore carry file column proj[i] (by index), the file column the name resolves
 * to (by name), or file column i (no projection).  carquet_batch_reader_next is checked elsewhere to use
 * projected_columns[col_i] (c02_batch_next_int32); this harness pins what create stores there.
 * Bound (level 'bounded'): projection length <= CQV_PMAX entries, file columns <= CQV_TMAX.
 * carquet_schema_find_column is an assumed contract: deterministic in the name, result in [-1, num_leaves)
 * (proved for the real function in the schema jobs c17_find_column_*); here the intended index is stored
 * in the first byte of each name so that the postcondition can name it. */
#include "batch.c"
#ifndef CQV_PMAX
#define CQV_PMAX 4
#endif
#ifndef CQV_TMAX
#define CQV_TMAX 6
#endif
int32_t carquet_reader_num_columns(const carquet_reader_t *reader) { return reader->schema->num_leaves; } /* file_reader.c:473 */
static int32_t cqv_total;
int32_t carquet_schema_find_column(const carquet_schema_t *schema, const char *name) {
  __CPROVER_assert(schema != NULL && name != NULL, "find_column called with a schema and a name");
  int32_t r = (int32_t)(signed char)name[0];
  return (r >= 0 && r < cqv_total) ? r : -1;
}

void h_batch_create(void) {
  carquet_reader_t *rd = malloc(sizeof(*rd));
  carquet_schema_t *sc = malloc(sizeof(*sc));
  __CPROVER_assume(rd != NULL && sc != NULL);
  int32_t total = nondet_i32();
  __CPROVER_assume(total >= 1 && total <= CQV_TMAX);
  sc->num_leaves = total;
  cqv_total = total;
  rd->schema = sc;

  carquet_batch_reader_config_t cfg;
  int use_cfg = nondet_bool();
  int32_t idx[CQV_PMAX];
  char nm[CQV_PMAX][2];
  const char *names[CQV_PMAX];
  for (int i = 0; i < CQV_PMAX; i++) { nm[i][1] = 0; names[i] = nm[i]; }
  int mode = nondet_i32();              /* 0: no projection, 1: by index, 2: by name, 3: both given (index wins) */
  __CPROVER_assume(mode >= 0 && mode <= 3);
  int32_t n = nondet_i32(), nn = nondet_i32();
  cfg.column_indices = (mode == 1 || mode == 3) ? idx : NULL;
  cfg.column_names = (mode == 2 || mode == 3) ? names : NULL;
  cfg.num_columns = n;
  cfg.num_column_names = nn;
  __CPROVER_assume(n <= CQV_PMAX && nn <= CQV_PMAX);
  if (cfg.column_indices == NULL) { /* any count, the array is absent */ }
  carquet_error_t err;
  int g = nondet_i32();

  carquet_batch_reader_t *br = carquet_batch_reader_create(rd, use_cfg ? &cfg : NULL, nondet_bool() ? &err : NULL);
  CQV_CANARY("create returns");
  if (br == NULL) {
    CQV_CANARY("create can fail");
    /* by-name projection with an unknown name is the only non-allocation failure; nothing may stay allocated (C19) */
    free(sc); free(rd);
    return;
  }
  __CPROVER_assert(br->reader == rd && br->current_row_group == -1, "C02: fresh batch reader is bound to the file reader, no row group open");
  __CPROVER_assert(br->projected_columns != NULL && br->col_readers != NULL, "projection and reader arrays allocated");
  int by_index = use_cfg && cfg.column_indices != NULL && n > 0;
  int by_name = use_cfg && !by_index && cfg.column_names != NULL && nn > 0;
  if (by_index) {
    __CPROVER_assert(br->num_projected == n, "C02: by-index projection keeps exactly the requested number of columns");
    if (g >= 0 && g < n)
      __CPROVER_assert(br->projected_columns[g] == idx[g], "C02: batch column g is file column indices[g]");
    CQV_CANARY("by index");
    if (n >= total) CQV_CANARY("by index, as many entries as the file has columns");
  } else if (by_name) {
    __CPROVER_assert(br->num_projected == nn, "C02: by-name projection keeps exactly the requested number of columns");
    if (g >= 0 && g < nn) {
      __CPROVER_assert(br->projected_columns[g] == (int32_t)(signed char)nm[g][0], "C02: batch column g is the file column its name resolves to");
      __CPROVER_assert(br->projected_columns[g] >= 0 && br->projected_columns[g] < total, "C02: resolved columns exist");
    }
    CQV_CANARY("by name");
  } else {
    __CPROVER_assert(br->num_projected == total, "C02: without a projection every file column is delivered");
    if (g >= 0 && g < total)
      __CPROVER_assert(br->projected_columns[g] == g, "C02: without a projection batch column g is file column g");
    CQV_CANARY("all columns");
  }
  if (g >= 0 && g < br->num_projected)
    __CPROVER_assert(br->col_readers[g] == NULL, "no column reader open yet");
  free(br->col_readers); free(br->projected_columns); free(br);
  free(sc); free(rd);
}
