/* C02 / C19: carquet_batch_reader_next (real batch_reader.c), one call on an open row group.
 * Scope of this harness (level 'bounded'): the row group is already open, 1..2 projected columns out of
 * 1..3 file columns, flat schema, every column INT32 (CQV_TYPE); the number of rows is unbounded.
 * carquet_column_read_batch is replaced by its contract (contracts/column_reader.ovl); the getters of
 * file_reader.c are restated below; the arena is an assumed contract (stubs/colreader_stubs.c). */
#include "colreader.c"
#define CQV_BIT(bm, k) (((bm)[(k) >> 3] >> ((k) & 7)) & 1)
/* The four getters of file_reader.c used by carquet_batch_reader_next, restated (file_reader.c as a
 * whole cannot be in this translation unit: its recursive schema traversal breaks goto-instrument's
 * loop-contract pass).  Each is the one-line body of the real function (file_reader.c:458-471, 566-574). */
const carquet_schema_t *carquet_reader_schema(const carquet_reader_t *reader) { return reader->schema; }
int32_t carquet_reader_num_row_groups(const carquet_reader_t *reader) { return reader->metadata.num_row_groups; }
bool carquet_column_has_next(const carquet_column_reader_t *reader) { return reader->values_remaining > 0; }
int64_t carquet_column_remaining(const carquet_column_reader_t *reader) { return reader->values_remaining; }
#ifndef CQV_OPEN_RG
/* out of scope here (the row group is already open and column 0 has rows): paths that open a row group are cut */
carquet_column_reader_t *carquet_reader_get_column(carquet_reader_t *reader, int32_t rg, int32_t col, carquet_error_t *error) {
  __CPROVER_assume(0);
  return NULL;
}
void carquet_column_reader_free(carquet_column_reader_t *reader) { __CPROVER_assume(0); }
#endif
#ifdef CQV_C19
/* C19, narrowed: every malloc/calloc made by batch_reader.c itself goes through a wrapper that may fail
 * (nondeterministic choice per call); all other allocations (harness objects, arena stub, callee
 * contracts) succeed (job runs with --no-malloc-may-fail). */
/* ghost: blocks obtained through the wrappers and not yet released (leak accounting restricted to the
 * allocations of batch_reader.c; cbmc's global leak check would also count harness and contract objects) */
static int64_t cqv_fi_live;
static void *cqv_fi_malloc(size_t n) { if (nondet_bool()) return NULL; void *p = malloc(n); __CPROVER_assume(p != NULL); cqv_fi_live++; return p; }
static void *cqv_fi_calloc(size_t a, size_t b) { if (nondet_bool()) return NULL; void *p = calloc(a, b); __CPROVER_assume(p != NULL); cqv_fi_live++; return p; }
static void cqv_fi_free(void *p) { if (p != NULL) cqv_fi_live--; free(p); }
#define malloc(n) cqv_fi_malloc(n)
#define calloc(a, b) cqv_fi_calloc(a, b)
#define free(p) cqv_fi_free(p)
#endif
#include "src/reader/batch_reader.c"
#ifdef CQV_C19
#undef malloc
#undef calloc
#undef free
#endif

#ifndef CQV_NL_MAX
#define CQV_NL_MAX 3
#endif
#ifndef CQV_NP_MAX
#define CQV_NP_MAX 2
#endif

void h_batch_next(void) {
  /* file reader + flat schema with nl leaf columns */
  carquet_reader_t *rd = malloc(sizeof(*rd));
  carquet_schema_t *sc = malloc(sizeof(*sc));
  __CPROVER_assume(rd != NULL && sc != NULL);
  int32_t nl = nondet_i32();
  __CPROVER_assume(nl >= 1 && nl <= CQV_NL_MAX);
  sc->num_leaves = nl;
  sc->num_elements = nl;
  sc->leaf_indices = malloc(sizeof(int32_t) * CQV_NL_MAX);
  sc->max_def_levels = malloc(sizeof(int16_t) * CQV_NL_MAX);
  sc->max_rep_levels = malloc(sizeof(int16_t) * CQV_NL_MAX);
  sc->elements = malloc(sizeof(parquet_schema_element_t) * CQV_NL_MAX);
  __CPROVER_assume(sc->leaf_indices && sc->max_def_levels && sc->max_rep_levels && sc->elements);
  for (int i = 0; i < CQV_NL_MAX; i++) {
    sc->leaf_indices[i] = i;
#ifdef CQV_C19
    sc->max_def_levels[i] = 1;   /* OPTIONAL column */
#else
    __CPROVER_assume(sc->max_def_levels[i] >= 0 && sc->max_def_levels[i] <= 1);
#endif
    sc->elements[i].has_type = true;
    sc->elements[i].type = (carquet_physical_type_t)CQV_TYPE;
    sc->elements[i].type_length = 0;
  }
  rd->schema = sc;
#ifdef CQV_C19
  rd->mmap_info = NULL;
#else
  rd->mmap_info = nondet_bool() ? (carquet_mmap_info_t *)sc : NULL;   /* only compared with NULL */
#endif
  __CPROVER_assume(rd->metadata.num_row_groups >= 1);

  carquet_batch_reader_t *br = malloc(sizeof(*br));
  __CPROVER_assume(br != NULL);
  br->reader = rd;
  int32_t np = nondet_i32();
  __CPROVER_assume(np >= 1 && np <= CQV_NP_MAX);
#ifdef CQV_NP_EXACT
  np = CQV_NP_MAX; nl = CQV_NL_MAX; sc->num_leaves = nl; sc->num_elements = nl;
#endif
  br->num_projected = np;
  br->projected_columns = malloc(sizeof(int32_t) * CQV_NP_MAX);
  br->col_readers = malloc(sizeof(carquet_column_reader_t *) * CQV_NP_MAX);
  __CPROVER_assume(br->projected_columns && br->col_readers);
  __CPROVER_assume(br->config.batch_size >= 1);
  CQV_SMALL_ASSUME(br->config.batch_size <= 12);
#ifdef CQV_C19
  __CPROVER_assume(br->config.batch_size <= 8);   /* rows_to_read <= 8 */
#endif
  br->current_row_group = 0;
  __CPROVER_assume(br->total_rows_read >= 0 && br->total_rows_read <= (int64_t)CQV_MAXBUF);
  for (int i = 0; i < CQV_NP_MAX; i++) {
    int32_t fc = nondet_i32();
    __CPROVER_assume(fc >= 0 && fc < nl);
    br->projected_columns[i] = fc;
    if (i < np) {
      carquet_column_reader_t *cr = mk_reader();
      /* facts carquet_reader_get_column establishes for a valid file */
      __CPROVER_assume(cr->max_def_level == sc->max_def_levels[fc] && cr->type_length == 0);
      br->col_readers[i] = cr;
    } else {
      br->col_readers[i] = NULL;
    }
  }
  /* every column chunk of a row group of a flat schema has the same number of rows left */
  __CPROVER_assume(br->col_readers[0]->values_remaining >= 1);
#if CQV_NP_MAX > 1
  if (np > 1) __CPROVER_assume(br->col_readers[1]->values_remaining == br->col_readers[0]->values_remaining);
#endif
  int64_t rem0 = br->col_readers[0]->values_remaining;
  int64_t bs = br->config.batch_size;

  cqv_j = nondet_size_t();
  cqv_rb_short = 0;
  cqv_np_witness = 0;
#ifdef CQV_C19
  cqv_fi_live = 0;
#endif
  carquet_row_batch_t *batch = NULL;
  carquet_status_t st = carquet_batch_reader_next(br, &batch);
  CQV_CANARY("batch_next returns");
  if (st == CARQUET_OK) {
    __CPROVER_assert(batch != NULL, "OK comes with a batch");
    __CPROVER_assert(batch->num_columns == np, "one column per projected column");
#ifdef CQV_C19
    /* C19: success has the fault-free effect -- the nullable column carries its bitmap (that its bits equal
     * def[j] < max_def for every row is asserted inside the function, where the levels are still alive) */
    __CPROVER_assert(batch->columns[0].null_bitmap != NULL && batch->columns[0].data != NULL, "C19: a batch reported OK carries data and null bitmap");
    CQV_CANARY("c19: batch_next can succeed");
#endif
    if (!cqv_rb_short) {
      /* C02: every column of a batch has the same number of rows: min(batch_size, rows left) */
      int32_t c = nondet_i32();
      __CPROVER_assume(c >= 0 && c < np);
      __CPROVER_assert(batch->columns[c].num_values == batch->num_rows, "C02: every column of the batch has num_rows rows");
      __CPROVER_assert(batch->num_rows >= 0 && batch->num_rows <= CQV_MIN(bs, rem0), "C02: a batch has at most min(batch_size, rows remaining) rows");
      __CPROVER_assert(br->col_readers[c]->values_remaining == rem0 - batch->num_rows, "C02: every column reader advanced by num_rows");
      CQV_CANARY("batch_next delivers a full batch");
    }
    carquet_row_batch_free(batch);
  } else {
    __CPROVER_assert(batch == NULL, "no batch on error");
    CQV_CANARY("batch_next can fail");
  }
#ifdef CQV_C19
  __CPROVER_assert(cqv_fi_live == 0, "C19: every block allocated by batch_reader.c is released (after freeing the batch, or on the error path)");
#endif
}
