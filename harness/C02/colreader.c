/* C02 / C19: column reader family.  The REAL page_reader.c, column_reader.c, batch_reader.c are
 * included below (annotated copies when the job lists the overlay, the unchanged file otherwise).
 * Everything named CQV_* / cqv_* is specification (ghost) text. */
#include "cqv.h"
#include <stdlib.h>
#include <stdbool.h>
#include <carquet/carquet.h>
#include "reader/reader_internal.h"

/* ---- ghost record of memcpy calls (defined in stubs/colreader_stubs.c) ---- */
extern const void *cqv_mc_dst[4];
extern const void *cqv_mc_src[4];
extern size_t cqv_mc_n[4];
extern unsigned cqv_mc_calls;
/* ---- ghost: an arbitrary row index (stands for "for all rows") ---- */
size_t cqv_j;
/* ---- ghost switch: the contract clauses of carquet_read_next_page that READ definition levels are
 * proved with it on (h_next_page) and dropped where the contract is used as an assumption ---- */
_Bool cqv_np_witness;
/* ---- ghost: set when a call could not make full progress for a reason outside the row stream
 * (callee error, empty page, unknown type, allocation failure); never cleared by the library ---- */
_Bool cqv_rb_short;
/* ---- ghost: non-null rows delivered so far inside one carquet_column_read_batch call ---- */
int64_t cqv_g_nn;

/* Reachability canaries only need SOME execution through a point, so the vacuity build (and the
 * jobs marked level='bounded' via -DCQV_SMALL) keeps buffer sizes small: cbmc's json trace of a
 * havoc_slice / malloc with a huge symbolic size exhausts memory.  The proof build is unbounded. */
#if defined(CQV_CANARIES) || defined(CQV_SMALL)
#define CQV_SMALL_ASSUME(c) __CPROVER_assume(c)
#define CQV_SMALL_PAGE(r) ((r)->page_num_values <= 8)
#else
#define CQV_SMALL_ASSUME(c) ((void)0)
#define CQV_SMALL_PAGE(r) 1
#endif

/* ---- specification macros ---- */
#define CQV_MIN(a, b) ((a) < (b) ? (a) : (b))
#define CQV_MAX0(a) ((a) > 0 ? (a) : 0)
/* value size per physical type: this is the documented buffer sizing rule of carquet.h
 * (carquet_column_read_batch, "Value Buffer Sizing"), not a copy of the code */
#define CQV_VSZ_T(t, tl) \
  ((t) == CARQUET_PHYSICAL_BOOLEAN ? (size_t)1 : \
   ((t) == CARQUET_PHYSICAL_INT32 || (t) == CARQUET_PHYSICAL_FLOAT) ? (size_t)4 : \
   ((t) == CARQUET_PHYSICAL_INT64 || (t) == CARQUET_PHYSICAL_DOUBLE) ? (size_t)8 : \
   (t) == CARQUET_PHYSICAL_INT96 ? (size_t)12 : \
   (t) == CARQUET_PHYSICAL_BYTE_ARRAY ? sizeof(carquet_byte_array_t) : (size_t)(tl))
/* case split over the physical type (one job per case; default: all types in one job) */
#if defined(CQV_TYPE) && defined(CQV_TL_FIX)   /* FIXED_LEN_BYTE_ARRAY of one concrete length */
#define CQV_TYPE_CASE(t) ((int)(t) == CQV_TYPE)
#define CQV_TL_CASE(r) ((r)->type_length == CQV_TL_FIX)
#define CQV_VSZ(r) ((size_t)CQV_TL_FIX)
#elif defined(CQV_TYPE)
#define CQV_TYPE_CASE(t) ((int)(t) == CQV_TYPE)
#define CQV_VSZ(r) CQV_VSZ_T(CQV_TYPE, (r)->type_length)
#else
#define CQV_TYPE_CASE(t) 1
#define CQV_VSZ(r) CQV_VSZ_T((r)->type, (r)->type_length)
#endif
#ifndef CQV_TL_MAX
#define CQV_TL_MAX (1 << 24)   /* FIXED_LEN_BYTE_ARRAY length bound also used by batch_reader.c */
#endif
#ifndef CQV_NP_MAXV
#define CQV_NP_MAXV ((int64_t)CQV_MAXBUF)   /* any request whose buffer can exist (the int32 truncation is repaired) */
#endif
#ifndef CQV_PAGE_MAX
#define CQV_PAGE_MAX (1 << 30)   /* compressed page size; INT32_MAX: separate job */
#endif
#define CQV_HDR_MAX (1 << 20)    /* serialized page header size */
#ifndef CQV_TL_CASE
#define CQV_TL_CASE(r) 1
#endif
/* facts fixed at column-reader creation for a valid file */
#define CQV_RD_STATIC(r) \
  (CQV_TL_CASE(r) && (int)(r)->type >= 0 && (int)(r)->type <= 7 && (r)->type_length >= 0 && (r)->type_length <= CQV_TL_MAX && \
   ((r)->type != CARQUET_PHYSICAL_FIXED_LEN_BYTE_ARRAY || (r)->type_length >= 1) && \
   (r)->max_def_level >= 0 && (r)->max_rep_level >= 0)
/* state of a loaded page */
#define CQV_PAGE_INV(r) \
  ((r)->page_num_values >= 0 && (r)->page_values_read >= 0 && (r)->page_values_read <= (r)->page_num_values && \
   (r)->page_header_size >= 0 && (r)->page_header_size <= CQV_HDR_MAX && \
   (r)->page_compressed_size >= 0 && (r)->page_compressed_size <= CQV_PAGE_MAX && \
   (int64_t)((r)->page_num_values - (r)->page_values_read) <= (r)->values_remaining && \
   (r)->current_page + (r)->page_header_size + (r)->page_compressed_size <= (int64_t)CQV_MAXBUF && \
   (size_t)(r)->page_num_values * CQV_VSZ(r) <= CQV_MAXBUF)
/* scalar part of the reader invariant */
#define CQV_RD_INV(r) \
  (CQV_TYPE_CASE((r)->type) && CQV_RD_STATIC(r) && (r)->values_remaining >= 0 && (r)->current_page >= 0 && \
   (r)->current_page <= (int64_t)CQV_MAXBUF && (!(r)->page_loaded || CQV_PAGE_INV(r)))
#define CQV_RD_BUF_V(r) (!CQV_PAGE_LIVE(r) || __CPROVER_r_ok((r)->decoded_values, (size_t)(r)->page_num_values * CQV_VSZ(r)))
#define CQV_RD_BUF_D(r) (!CQV_PAGE_LIVE(r) || __CPROVER_r_ok((r)->decoded_def_levels, (size_t)(r)->page_num_values * sizeof(int16_t)))
#define CQV_RD_BUF_R(r) (!CQV_PAGE_LIVE(r) || __CPROVER_r_ok((r)->decoded_rep_levels, (size_t)(r)->page_num_values * sizeof(int16_t)))
#define CQV_PAGE_LIVE(r) ((r)->page_loaded && (r)->page_values_read < (r)->page_num_values)
#define CQV_OLD_LIVE (__CPROVER_old(reader->page_loaded) && __CPROVER_old(reader->page_values_read) < __CPROVER_old(reader->page_num_values))
/* only inside ensures clauses of carquet_read_next_page */
#define CQV_FRESHPAGE (!__CPROVER_old(reader->page_loaded) || __CPROVER_old(reader->page_values_read) >= __CPROVER_old(reader->page_num_values))
#define CQV_START ((int64_t)(CQV_FRESHPAGE ? 0 : __CPROVER_old(reader->page_values_read)))

/* C02, dense delivery: the values of a call are the dense slice that starts at the number of
 * non-null rows before `start`.
 *  - unbounded jobs: necessary conditions with the ghost witness row cqv_j (a null row before `start`
 *    => source strictly before start*value_size; see also the clauses in the overlay);
 *  - jobs with -DCQV_SMALL (page <= 8 rows): the exact statement with the spec counting function
 *    CQV_NN unrolled over the page. */
#define CQV_DENSE_WITNESS_POST \
  ((cqv_np_witness && __CPROVER_return_value == CARQUET_OK && __CPROVER_old(cqv_mc_calls) == 0 && reader->max_def_level > 0 && \
    cqv_j < (size_t)CQV_START && reader->decoded_def_levels[cqv_j] != reader->max_def_level) ==> \
   (__CPROVER_POINTER_OFFSET(cqv_mc_src[0]) >= 0 && \
    (size_t)__CPROVER_POINTER_OFFSET(cqv_mc_src[0]) + CQV_VSZ(reader) <= (size_t)CQV_START * CQV_VSZ(reader)))
/* spec: number of k in [lo,hi) with d[k] == m, for hi <= 8 */
#define CQV_NNK(d, lo, hi, m, k) ((size_t)((int64_t)(k) >= (int64_t)(lo) && (int64_t)(k) < (int64_t)(hi) && (d)[k] == (m)))
#define CQV_NN(d, lo, hi, m) \
  (CQV_NNK(d, lo, hi, m, 0) + CQV_NNK(d, lo, hi, m, 1) + CQV_NNK(d, lo, hi, m, 2) + CQV_NNK(d, lo, hi, m, 3) + \
   CQV_NNK(d, lo, hi, m, 4) + CQV_NNK(d, lo, hi, m, 5) + CQV_NNK(d, lo, hi, m, 6) + CQV_NNK(d, lo, hi, m, 7))
#ifdef CQV_SMALL
#define CQV_INV_DENSE(d, lo, hi, cnt, m) ((cnt) == CQV_NN(d, lo, hi, m))
#define CQV_DENSE_EXACT_POST \
  ((cqv_np_witness && __CPROVER_return_value == CARQUET_OK && reader->max_def_level > 0) ==> \
   (reader->last_read_non_null == (int64_t)CQV_NN(reader->decoded_def_levels, CQV_START, CQV_START + *values_read, reader->max_def_level) && \
    (__CPROVER_old(cqv_mc_calls) != 0 || \
     cqv_mc_src[0] == reader->decoded_values + CQV_NN(reader->decoded_def_levels, 0, CQV_START, reader->max_def_level) * CQV_VSZ(reader))))
#else
/* ghost witness form: a non-counted row in [lo,hi) => cnt < hi-lo; a counted row in [lo,hi) => cnt >= 1 */
#define CQV_INV_DENSE(d, lo, hi, cnt, m) \
  ((!(cqv_j >= (size_t)(lo) && cqv_j < (size_t)(hi) && (d)[cqv_j] != (m)) || (cnt) + 1 <= (size_t)((hi) - (lo))) && \
   (!(cqv_j >= (size_t)(lo) && cqv_j < (size_t)(hi) && (d)[cqv_j] == (m)) || (cnt) >= 1))
#define CQV_DENSE_EXACT_POST 1
#endif

#ifndef CQV_RB_DEF
#define CQV_RB_DEF 1
#endif
#ifndef CQV_RB_REP
#define CQV_RB_REP 1
#endif
#if CQV_RB_DEF && CQV_RB_REP
#define CQV_RB_LOOP_BUFS __CPROVER_object_whole(values), __CPROVER_object_whole(def_levels), __CPROVER_object_whole(rep_levels)
#elif CQV_RB_DEF
#define CQV_RB_LOOP_BUFS __CPROVER_object_whole(values), __CPROVER_object_whole(def_levels)
#elif CQV_RB_REP
#define CQV_RB_LOOP_BUFS __CPROVER_object_whole(values), __CPROVER_object_whole(rep_levels)
#else
#define CQV_RB_LOOP_BUFS __CPROVER_object_whole(values)
#endif

#include "src/reader/page_reader.c"
#include "src/reader/column_reader.c"

/* ------------------------------------------------------------------------------------------
 * objects: a column reader in an arbitrary state that satisfies the reader invariant
 * ------------------------------------------------------------------------------------------ */
static carquet_column_reader_t *mk_reader(void) {
  carquet_column_reader_t *r = malloc(sizeof(*r));   /* contents arbitrary */
  __CPROVER_assume(r != NULL);
#ifdef CQV_TYPE
  r->type = (carquet_physical_type_t)CQV_TYPE;
#endif
#ifdef CQV_TL_FIX
  r->type_length = CQV_TL_FIX;
#endif
  r->page_loaded = nondet_bool();
  __CPROVER_assume(CQV_RD_INV(r));
  if (r->page_loaded) {
    CQV_SMALL_ASSUME(CQV_SMALL_PAGE(r));
    size_t n = (size_t)r->page_num_values;
    r->decoded_values = malloc(n * CQV_VSZ(r));
    r->decoded_def_levels = malloc(n * sizeof(int16_t));
    r->decoded_rep_levels = malloc(n * sizeof(int16_t));
    __CPROVER_assume(r->decoded_values != NULL && r->decoded_def_levels != NULL && r->decoded_rep_levels != NULL);
  } else {
    r->decoded_values = NULL;
    r->decoded_def_levels = NULL;
    r->decoded_rep_levels = NULL;
  }
  return r;
}

/* carquet_read_next_page against its contract (objects built here, contract enforced) */
void h_next_page(void) {
  carquet_column_reader_t *r = nondet_bool() ? mk_reader() : NULL;
  int64_t max_values = nondet_i64();
  __CPROVER_assume(max_values >= 0 && max_values <= CQV_NP_MAXV);
  CQV_SMALL_ASSUME(max_values <= 8);
  size_t vs = r ? CQV_VSZ(r) : 1;
  __CPROVER_assume((size_t)max_values * vs <= CQV_MAXBUF);
  void *values = nondet_bool() ? malloc((size_t)max_values * vs) : NULL;
  int16_t *def = nondet_bool() ? malloc((size_t)max_values * sizeof(int16_t)) : NULL;
  int16_t *rep = nondet_bool() ? malloc((size_t)max_values * sizeof(int16_t)) : NULL;
  int64_t *nread = nondet_bool() ? malloc(sizeof(int64_t)) : NULL;
  carquet_error_t *err = nondet_bool() ? malloc(sizeof(carquet_error_t)) : NULL;
  cqv_mc_calls = 0;
  cqv_np_witness = 1;
  cqv_j = nondet_size_t();
  /* counterexample inputs for the native replayer (replay/direct/colreader_next_page_dense.c) */
  _Bool cex_live = r && r->page_loaded, cex_w = cex_live && cqv_j < (size_t)r->page_values_read;
  int64_t cex_pnv = cex_live ? r->page_num_values : 0;
  int64_t cex_start = cex_live ? r->page_values_read : 0;
  int64_t cex_maxdef = cex_live ? r->max_def_level : 0;
  int64_t cex_maxv = max_values;
  int64_t cex_j = cex_w ? (int64_t)cqv_j : 0;
  int64_t cex_defj = cex_w ? r->decoded_def_levels[cqv_j] : 0;
  carquet_status_t st = carquet_read_next_page(r, values, max_values, def, rep, nread, err);
  CQV_CANARY("next_page returns");
  if (st == CARQUET_OK) CQV_CANARY("next_page can succeed");
  if (st == CARQUET_OK && *nread > 0 && r->max_def_level > 0 && r->page_values_read > *nread) CQV_CANARY("next_page continues a nullable page");
  if (st != CARQUET_OK) CQV_CANARY("next_page can fail");
}

/* carquet_column_read_batch against its contract; carquet_read_next_page replaced by its contract */
void h_read_batch(void) {
  carquet_column_reader_t *r = mk_reader();
  int64_t max_values = nondet_i64();
  __CPROVER_assume(max_values <= CQV_NP_MAXV);
  CQV_SMALL_ASSUME(max_values <= 8);
  size_t vs = CQV_VSZ(r);
  size_t cnt = max_values > 0 ? (size_t)max_values : 0;
  __CPROVER_assume(cnt * vs <= CQV_MAXBUF);
  /* cbmc 6.11 accepts neither conditional nor ternary targets in a LOOP assigns clause, so the
   * NULL / non-NULL combinations of the level buffers are separate jobs (CQV_RB_DEF, CQV_RB_REP);
   * values is non-NULL (a NULL values buffer is rejected by carquet_read_next_page) */
  void *values = malloc(cnt * vs);
  int16_t *def = CQV_RB_DEF ? malloc(cnt * sizeof(int16_t)) : NULL;
  int16_t *rep = CQV_RB_REP ? malloc(cnt * sizeof(int16_t)) : NULL;
  __CPROVER_assume(values != NULL && (!CQV_RB_DEF || def != NULL) && (!CQV_RB_REP || rep != NULL));
  cqv_np_witness = 0;
  cqv_rb_short = 0;
  int64_t got = carquet_column_read_batch(r, values, max_values, def, rep);
  CQV_CANARY("read_batch returns");
  if (got > 0) CQV_CANARY("read_batch can deliver rows");
  if (got == -1) CQV_CANARY("read_batch can fail");
  if (got > 0 && got < max_values && r->values_remaining > 0) CQV_CANARY("read_batch can return short");
}

/* carquet_column_skip against its contract; carquet_column_read_batch replaced by its contract */
void h_skip(void) {
  carquet_column_reader_t *r = mk_reader();
  int64_t n = nondet_i64();
  cqv_rb_short = 0;
  cqv_np_witness = 0;
  int64_t got = carquet_column_skip(r, n);
  CQV_CANARY("skip returns");
  if (got > 0) CQV_CANARY("skip can skip rows");
  if (got > 1024) CQV_CANARY("skip can take more than one chunk");
}
