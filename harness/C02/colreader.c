/* C02 / C19: column reader family.  The REAL page_reader.c, column_reader.c, batch_reader.c are
 * included below (annotated copies when the job lists the overlay, the unchanged file otherwise).
 * Everything named CQV_* / cqv_* is specification (ghost) text. */
#include "cqv.h"
#include <stdlib.h>
#include <stdbool.h>
#include <carquet/carquet.h>
#include "reader/reader_internal.h"

/* ---- ghost record of memcpy calls (defined in stubs/colreader_stubs.c) ---- */
extern const void *cqv_mc_dst[4];
extern const void *cqv_mc_src[4];
extern size_t cqv_mc_n[4];
extern unsigned cqv_mc_calls;
/* ---- ghost: an arbitrary row index (stands for "for all rows") ---- */
size_t cqv_j;

/* ---- specification macros ---- */
#define CQV_MIN(a, b) ((a) < (b) ? (a) : (b))
/* value size per physical type: this is the documented buffer sizing rule of carquet.h
 * (carquet_column_read_batch, "Value Buffer Sizing"), not a copy of the code */
#define CQV_VSZ_T(t, tl) \
  ((t) == CARQUET_PHYSICAL_BOOLEAN ? (size_t)1 : \
   ((t) == CARQUET_PHYSICAL_INT32 || (t) == CARQUET_PHYSICAL_FLOAT) ? (size_t)4 : \
   ((t) == CARQUET_PHYSICAL_INT64 || (t) == CARQUET_PHYSICAL_DOUBLE) ? (size_t)8 : \
   (t) == CARQUET_PHYSICAL_INT96 ? (size_t)12 : \
   (t) == CARQUET_PHYSICAL_BYTE_ARRAY ? sizeof(carquet_byte_array_t) : (size_t)(tl))
#define CQV_VSZ(r) CQV_VSZ_T((r)->type, (r)->type_length)
/* case split over the physical type (one job per case; default: all types in one job) */
#ifdef CQV_TYPE
#define CQV_TYPE_CASE(t) ((int)(t) == CQV_TYPE)
#else
#define CQV_TYPE_CASE(t) 1
#endif
#ifndef CQV_TL_MAX
#define CQV_TL_MAX (1 << 24)   /* FIXED_LEN_BYTE_ARRAY length bound also used by batch_reader.c */
#endif
#ifndef CQV_NP_MAXV
#define CQV_NP_MAXV ((int64_t)INT32_MAX)   /* requests above INT32_MAX: separate job (truncation) */
#endif
#ifndef CQV_PAGE_MAX
#define CQV_PAGE_MAX (1 << 30)   /* header / compressed page sizes; INT32_MAX: separate job */
#endif
/* facts fixed at column-reader creation for a valid file */
#define CQV_RD_STATIC(r) \
  ((int)(r)->type >= 0 && (int)(r)->type <= 7 && (r)->type_length >= 0 && (r)->type_length <= CQV_TL_MAX && \
   ((r)->type != CARQUET_PHYSICAL_FIXED_LEN_BYTE_ARRAY || (r)->type_length >= 1) && \
   (r)->max_def_level >= 0 && (r)->max_rep_level >= 0)
/* state of a loaded page */
#define CQV_PAGE_INV(r) \
  ((r)->page_num_values >= 0 && (r)->page_values_read >= 0 && (r)->page_values_read <= (r)->page_num_values && \
   (r)->page_header_size >= 0 && (r)->page_header_size <= CQV_PAGE_MAX && \
   (r)->page_compressed_size >= 0 && (r)->page_compressed_size <= CQV_PAGE_MAX && \
   (int64_t)((r)->page_num_values - (r)->page_values_read) <= (r)->values_remaining && \
   (size_t)(r)->page_num_values * CQV_VSZ(r) <= CQV_MAXBUF)
#define CQV_PAGE_LIVE(r) ((r)->page_loaded && (r)->page_values_read < (r)->page_num_values)
/* only inside ensures clauses of carquet_read_next_page */
#define CQV_FRESHPAGE (!__CPROVER_old(reader->page_loaded) || __CPROVER_old(reader->page_values_read) >= __CPROVER_old(reader->page_num_values))
#define CQV_START ((int64_t)(CQV_FRESHPAGE ? 0 : __CPROVER_old(reader->page_values_read)))

#include "src/reader/page_reader.c"
#include "src/reader/column_reader.c"

/* ------------------------------------------------------------------------------------------
 * objects: a column reader in an arbitrary state that satisfies the reader invariant
 * ------------------------------------------------------------------------------------------ */
static carquet_column_reader_t *mk_reader(void) {
  carquet_column_reader_t *r = malloc(sizeof(*r));   /* contents arbitrary */
  __CPROVER_assume(r != NULL);
  __CPROVER_assume(CQV_TYPE_CASE(r->type) && CQV_RD_STATIC(r));
  __CPROVER_assume(r->values_remaining >= 0 && r->current_page >= 0 && r->current_page <= (int64_t)CQV_MAXBUF);
  r->page_loaded = nondet_bool();
  if (r->page_loaded) {
    __CPROVER_assume(CQV_PAGE_INV(r));
    size_t n = (size_t)r->page_num_values;
    r->decoded_values = malloc(n * CQV_VSZ(r));
    r->decoded_def_levels = malloc(n * sizeof(int16_t));
    r->decoded_rep_levels = malloc(n * sizeof(int16_t));
    __CPROVER_assume(r->decoded_values != NULL && r->decoded_def_levels != NULL && r->decoded_rep_levels != NULL);
  } else {
    r->decoded_values = NULL;
    r->decoded_def_levels = NULL;
    r->decoded_rep_levels = NULL;
  }
  return r;
}

/* carquet_read_next_page against its contract (objects built here, contract enforced) */
void h_next_page(void) {
  carquet_column_reader_t *r = nondet_bool() ? mk_reader() : NULL;
  int64_t max_values = nondet_i64();
  __CPROVER_assume(max_values >= 0 && max_values <= CQV_NP_MAXV);
  size_t vs = r ? CQV_VSZ(r) : 1;
  __CPROVER_assume((size_t)max_values * vs <= CQV_MAXBUF);
  void *values = nondet_bool() ? malloc((size_t)max_values * vs) : NULL;
  int16_t *def = nondet_bool() ? malloc((size_t)max_values * sizeof(int16_t)) : NULL;
  int16_t *rep = nondet_bool() ? malloc((size_t)max_values * sizeof(int16_t)) : NULL;
  int64_t *nread = nondet_bool() ? malloc(sizeof(int64_t)) : NULL;
  carquet_error_t *err = nondet_bool() ? malloc(sizeof(carquet_error_t)) : NULL;
  cqv_mc_calls = 0;
  cqv_j = nondet_size_t();
  carquet_status_t st = carquet_read_next_page(r, values, max_values, def, rep, nread, err);
  CQV_CANARY("next_page returns");
  if (st == CARQUET_OK) CQV_CANARY("next_page can succeed");
  if (st == CARQUET_OK && *nread > 0 && r->max_def_level > 0 && r->page_values_read > *nread) CQV_CANARY("next_page continues a nullable page");
  if (st != CARQUET_OK) CQV_CANARY("next_page can fail");
}
