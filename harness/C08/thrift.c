/* C08/C04: Thrift compact-protocol reader primitives on arbitrary input bytes.
 * The real thrift_decode.c and buffer.c are included (statics/inlines visible).  Every entry
 * builds a decoder in an ARBITRARY state satisfying the representation invariant (any cursor
 * position, any nesting level, any status incl. error, any pending bool) over a fresh input of
 * symbolic size; the contracts (contracts/thrift_decode.ovl) are enforced on the real bodies. */
#include "cqv.h"
#include <stdlib.h>
#include "thrift_spec.h"
/* ghost: number of thrift_skip frames active above the current call (havocked by the harness) */
unsigned cqv_skip_depth;
#include "src/core/buffer.c"
#include "src/thrift/thrift_decode.c"

/* The decoder struct is a STATIC object, not a malloc'ed one: for arrays inside dynamic objects CBMC
 * only checks the upper bound against the whole object, so last_field_id[-1] (which lands on
 * reader.pos) would go unnoticed; for a static object both member-array bounds are checked. */
static thrift_decoder_t g_d;
static thrift_decoder_t *mk_dec(void) {
  thrift_decoder_t *d = &g_d;
  thrift_decoder_t any; /* uninitialised: every field arbitrary (status, error_message, last_field_id[], bools) */
  g_d = any;
  size_t n = nondet_size_t();
  __CPROVER_assume(n <= CQV_MAXBUF);
  uint8_t *buf = malloc(n);
  __CPROVER_assume(buf != NULL);
  d->reader.data = buf;
  d->reader.size = n;
  __CPROVER_assume(d->reader.pos <= n);
  __CPROVER_assume(d->nesting_level >= 0 && d->nesting_level <= THRIFT_MAX_NESTING);
  cqv_skip_depth = nondet_unsigned();
  return d;
}

void h_td_init(void) {
  thrift_decoder_t d;
  size_t n = nondet_size_t();
  __CPROVER_assume(n <= CQV_MAXBUF);
  uint8_t *buf = malloc(n);
  __CPROVER_assume(buf != NULL);
  if (nondet_bool()) {
    thrift_decoder_init(&d, buf, n);
  } else {
    carquet_buffer_reader_t r;
    carquet_buffer_reader_init_data(&r, buf, n);
    thrift_decoder_init_reader(&d, &r);
  }
  __CPROVER_assert(TD_INV(&d) && d.reader.pos == 0 && d.reader.data == buf && d.reader.size == n, "init establishes the invariant at position 0");
  __CPROVER_assert(d.status == CARQUET_OK && !d.bool_pending && d.nesting_level == 0, "init: no error, no pending bool, nesting 0");
  CQV_CANARY("decoder init harness end");
}

void h_td_varint(void) {
  thrift_decoder_t *d = mk_dec();
  uint64_t v = thrift_read_varint(d);
  CQV_CANARY("read_varint returns");
  if (d->status == CARQUET_OK) CQV_CANARY("read_varint can succeed");
}
void h_td_zigzag(void) { thrift_decoder_t *d = mk_dec(); (void)thrift_read_zigzag(d); CQV_CANARY("read_zigzag returns"); }
void h_td_byte(void) { thrift_decoder_t *d = mk_dec(); (void)thrift_read_byte(d); CQV_CANARY("read_byte returns"); }
void h_td_i16(void) { thrift_decoder_t *d = mk_dec(); (void)thrift_read_i16(d); CQV_CANARY("read_i16 returns"); }
void h_td_i32(void) { thrift_decoder_t *d = mk_dec(); (void)thrift_read_i32(d); CQV_CANARY("read_i32 returns"); }
void h_td_i64(void) { thrift_decoder_t *d = mk_dec(); (void)thrift_read_i64(d); CQV_CANARY("read_i64 returns"); }
void h_td_double(void) {
  thrift_decoder_t *d = mk_dec();
  (void)thrift_read_double(d);
  CQV_CANARY("read_double returns");
  if (d->status == CARQUET_OK) CQV_CANARY("read_double can succeed");
}
void h_td_bool(void) { thrift_decoder_t *d = mk_dec(); (void)thrift_read_bool(d); CQV_CANARY("read_bool returns"); }
void h_td_binary(void) {
  thrift_decoder_t *d = mk_dec();
  int32_t len;
  const uint8_t *p = thrift_read_binary(d, &len);
  CQV_CANARY("read_binary returns");
  if (p != NULL && len > 0) {
    /* the reported slice is readable input, first and last byte */
    uint8_t a = p[0], b = p[len - 1];
    (void)a; (void)b;
    CQV_CANARY("read_binary returns a non-empty slice");
  }
}
void h_td_uuid(void) {
  thrift_decoder_t *d = mk_dec();
  uint8_t u[16];
  thrift_read_uuid(d, u);
  CQV_CANARY("read_uuid returns");
}
/* allocating reader: result is NULL or a fresh NUL-terminated string; nothing stays allocated on failure */
void h_td_string_alloc(void) {
  /* heap decoder here (freed at the end: the leak check must see only the function's own allocations) */
  thrift_decoder_t *d = malloc(sizeof(*d));
  size_t n = nondet_size_t();
  __CPROVER_assume(n <= CQV_MAXBUF);
  uint8_t *in = malloc(n);
  __CPROVER_assume(d != NULL && in != NULL);
#ifdef CQV_CANARIES
  /* reachability (existential) build only: small inputs keep the printed counterexample traces small
   * (an arbitrary-length havocked slice in a trace exhausts memory); the proof build is unrestricted */
  __CPROVER_assume(n <= 64);
#endif
  d->reader.data = in;
  d->reader.size = n;
  __CPROVER_assume(d->reader.pos <= n && d->nesting_level >= 0 && d->nesting_level <= THRIFT_MAX_NESTING);
  const uint8_t *buf = d->reader.data;
  size_t pos0 = d->reader.pos;
  carquet_status_t st0 = d->status;
  char *s = thrift_read_string_alloc(d);
  __CPROVER_assert(TD_INV(d) && d->reader.pos >= pos0 && d->reader.data == buf, "invariant kept, cursor monotone");
  __CPROVER_assert(st0 == CARQUET_OK || d->status == st0, "error status sticky");
  if (s != NULL) {
    size_t len = d->reader.pos - pos0; /* >= string length */
    __CPROVER_assert(__CPROVER_r_ok(s, 1), "returned string is allocated");
    CQV_CANARY("string_alloc can succeed");
    free(s);
  }
  free((void *)buf);
  free(d);
  CQV_CANARY("string_alloc harness end");
}
void h_td_struct_begin(void) { thrift_decoder_t *d = mk_dec(); thrift_read_struct_begin(d); CQV_CANARY("struct_begin returns"); }
void h_td_struct_end(void) { thrift_decoder_t *d = mk_dec(); thrift_read_struct_end(d); CQV_CANARY("struct_end returns"); }
void h_td_field_begin(void) {
  thrift_decoder_t *d = mk_dec();
  thrift_type_t t; int16_t id;
  bool r = thrift_read_field_begin(d, &t, &id);
  CQV_CANARY("field_begin returns");
  if (r) CQV_CANARY("field_begin can announce a field");
}
void h_td_list_begin(void) {
  thrift_decoder_t *d = mk_dec();
  thrift_type_t t; int32_t c;
  thrift_read_list_begin(d, &t, &c);
  CQV_CANARY("list_begin returns");
  if (d->status == CARQUET_OK && c > 14) CQV_CANARY("list_begin can accept a long list");
}
void h_td_set_begin(void) {
  thrift_decoder_t *d = mk_dec();
  thrift_type_t t; int32_t c;
  thrift_read_set_begin(d, &t, &c);
  CQV_CANARY("set_begin returns");
}
void h_td_map_begin(void) {
  thrift_decoder_t *d = mk_dec();
  thrift_type_t k, v; int32_t c;
  thrift_read_map_begin(d, &k, &v, &c);
  CQV_CANARY("map_begin returns");
  if (d->status == CARQUET_OK && c > 0) CQV_CANARY("map_begin can accept a non-empty map");
}
void h_td_skip(void) {
  thrift_decoder_t *d = mk_dec();
  thrift_type_t t = (thrift_type_t)nondet_int();
  thrift_skip(d, t);
  CQV_CANARY("skip returns");
  if (d->status == CARQUET_OK) CQV_CANARY("skip can succeed");
}
void h_td_skip_field(void) {
  thrift_decoder_t *d = mk_dec();
  thrift_type_t t = (thrift_type_t)nondet_int();
  thrift_skip_field(d, t);
  CQV_CANARY("skip_field returns");
}
