/* C08: RLE / bit-packed hybrid decoders of the real src/encoding/rle.c are safe on arbitrary bytes.
 * The scalar path is what is proved: rle.c selects SIMD code with `#if defined(__SSE2__)`, so the macro
 * is removed before the annotated source is included.
 * Objects handed to the functions have EXACTLY the declared size (input_size bytes, count elements), so
 * every dereference obligation (--bounds-check --pointer-check) is "inside the input / inside the
 * declared output". */
#undef __SSE2__
#undef __ARM_NEON
#undef __ARM_NEON__
#include "cqv.h"
#include <stdlib.h>
#include "rle_spec.h"
#include "src/encoding/rle.c"

/* decoder object with arbitrary field values over an input window of exactly dec->size bytes; the
 * representation invariant itself is assumed through the contract's requires clauses */
static carquet_rle_decoder_t *mk_dec(void) {
  carquet_rle_decoder_t *dec = malloc(sizeof(*dec));
  __CPROVER_assume(dec != NULL);
  size_t size = nondet_size_t();
  __CPROVER_assume(size <= CQV_MAXBUF);
  uint8_t *buf = malloc(size);
  __CPROVER_assume(buf != NULL);
  dec->data = buf;
  dec->size = size;
  return dec;
}

void h_rle_read_varint(void) {
  size_t size = nondet_size_t();
  __CPROVER_assume(size <= CQV_MAXBUF);
  uint8_t *buf = malloc(size);
  __CPROVER_assume(buf != NULL);
  size_t pos = nondet_size_t();
  uint32_t out;
  int r = read_varint(buf, size, &pos, &out);
  if (r == 0) CQV_CANARY("read_varint can succeed"); else CQV_CANARY("read_varint can fail");
}

void h_rle_start_new_run(void) {
  carquet_rle_decoder_t *dec = mk_dec();
  bool r = start_new_run(dec);
  if (r) CQV_CANARY("start_new_run returns true"); else CQV_CANARY("start_new_run returns false");
}

void h_rle_fill_bitpack(void) {
  carquet_rle_decoder_t *dec = mk_dec();
  bool r = fill_bitpack_buffer(dec);
  if (r) CQV_CANARY("fill_bitpack_buffer returns true"); else CQV_CANARY("fill_bitpack_buffer returns false");
}

void h_rle_init(void) {
  carquet_rle_decoder_t *dec = malloc(sizeof(*dec));
  __CPROVER_assume(dec != NULL);
  size_t size = nondet_size_t();
  __CPROVER_assume(size <= CQV_MAXBUF);
  uint8_t *buf = malloc(size);
  __CPROVER_assume(buf != NULL);
  carquet_rle_decoder_init(dec, buf, size, nondet_int());
  if (dec->status == CARQUET_OK) CQV_CANARY("decoder_init accepts the width"); else CQV_CANARY("decoder_init rejects the width");
}

void h_rle_has_next(void) {
  carquet_rle_decoder_t *dec = mk_dec();
  bool r = carquet_rle_decoder_has_next(dec);
  if (r) CQV_CANARY("has_next true"); else CQV_CANARY("has_next false");
}

void h_rle_get(void) {
  carquet_rle_decoder_t *dec = mk_dec();
  uint32_t v = carquet_rle_decoder_get(dec);
  CQV_CANARY("decoder_get returns");
}

void h_rle_get_batch(void) {
  carquet_rle_decoder_t *dec = mk_dec();
  int64_t count = nondet_i64();
  __CPROVER_assume(count <= RLE_MAX_COUNT);
  uint32_t *out = malloc(count > 0 ? (size_t)count << 2 : 0);
  __CPROVER_assume(out != NULL);
  int64_t r = carquet_rle_decoder_get_batch(dec, out, count);
  CQV_CANARY("get_batch returns");
  if (r > 8) CQV_CANARY("get_batch returns more than 8 values");
}

void h_rle_skip(void) {
  carquet_rle_decoder_t *dec = mk_dec();
  int64_t r = carquet_rle_decoder_skip(dec, nondet_i64());
  CQV_CANARY("skip returns");
  if (r > 8) CQV_CANARY("skip skips more than 8 values");
}

void h_rle_decode_all(void) {
  size_t size = nondet_size_t();
  __CPROVER_assume(size <= CQV_MAXBUF);
  uint8_t *buf = malloc(size);
  __CPROVER_assume(buf != NULL);
  int64_t count = nondet_i64();
  __CPROVER_assume(count <= RLE_MAX_COUNT);
  uint32_t *out = malloc(count > 0 ? (size_t)count << 2 : 0);
  __CPROVER_assume(out != NULL);
  int64_t r = carquet_rle_decode_all(buf, size, nondet_int(), out, count);
  CQV_CANARY("decode_all returns");
  if (r > 0) CQV_CANARY("decode_all returns values");
}

void h_rle_decode_levels(void) {
  size_t size = nondet_size_t();
  __CPROVER_assume(size <= CQV_MAXBUF);
  uint8_t *buf = malloc(size);
  __CPROVER_assume(buf != NULL);
  int64_t count = nondet_i64();
  __CPROVER_assume(count <= RLE_MAX_COUNT);
  int16_t *out = malloc(count > 0 ? (size_t)count << 1 : 0);
  __CPROVER_assume(out != NULL);
  int64_t r = carquet_rle_decode_levels(buf, size, nondet_int(), out, count);
  CQV_CANARY("decode_levels returns");
  if (r < 0) CQV_CANARY("decode_levels rejects the width");
  if (r > 8) CQV_CANARY("decode_levels returns more than 8 values");
}

void h_rle_decode_levels_prefixed(void) {
  size_t size = nondet_size_t();
  __CPROVER_assume(size <= CQV_MAXBUF);
  uint8_t *buf = malloc(size);
  __CPROVER_assume(buf != NULL);
  int64_t count = nondet_i64();
  __CPROVER_assume(count <= RLE_MAX_COUNT);
  int16_t *out = malloc(count > 0 ? (size_t)count << 1 : 0);
  __CPROVER_assume(out != NULL);
  size_t consumed;
  size_t *pc = nondet_bool() ? &consumed : NULL;
  int64_t r = carquet_rle_decode_levels_prefixed(buf, size, nondet_int(), out, count, pc);
  CQV_CANARY("decode_levels_prefixed returns");
  if (r > 0) CQV_CANARY("decode_levels_prefixed returns values");
  if (r < 0) CQV_CANARY("decode_levels_prefixed returns error");
}
