/* C08: PLAIN decoders are safe on arbitrary bytes/counts.  The real plain.c is included. */
#include "cqv.h"
#include <stdlib.h>
/* ghosts used by contracts/plain.ovl */
size_t cqv_any_bytes;   /* size of the output object when count cannot be honoured */
size_t cqv_j;           /* arbitrary element index instead of a quantifier */
#ifdef CQV_HUGE
#define CQV_COUNT_OK(c, max) 1
#else
#define CQV_COUNT_OK(c, max) ((c) <= (max))   /* A2: the output object of c elements is <= 2^40 bytes */
#endif
#define CQV_OUT_BYTES(c, sh) (((c) >= 0 && (c) <= (int64_t)(CQV_MAXBUF >> (sh))) ? ((size_t)(c) << (sh)) : cqv_any_bytes)
#include "src/encoding/plain.c"

/* no do/while(0) here: a loop in the harness makes the loop-contract pass inline the callee before --enforce-contract */
#define GHOSTS() cqv_any_bytes = nondet_size_t(); cqv_j = nondet_size_t()

void h_plain_boolean(void) {
  GHOSTS();
  int64_t r = carquet_decode_plain_boolean(nondet_ptr(), nondet_size_t(), nondet_ptr(), nondet_i64());
  CQV_CANARY("returns"); if (r >= 0) CQV_CANARY("can succeed"); if (r > 0) CQV_CANARY("can consume bytes"); if (r < 0) CQV_CANARY("can fail");
}
void h_plain_int32(void) {
  GHOSTS();
  int64_t r = carquet_decode_plain_int32(nondet_ptr(), nondet_size_t(), nondet_ptr(), nondet_i64());
  CQV_CANARY("returns"); if (r > 0) CQV_CANARY("can consume bytes"); if (r < 0) CQV_CANARY("can fail");
}
void h_plain_int64(void) {
  GHOSTS();
  int64_t r = carquet_decode_plain_int64(nondet_ptr(), nondet_size_t(), nondet_ptr(), nondet_i64());
  CQV_CANARY("returns"); if (r > 0) CQV_CANARY("can consume bytes"); if (r < 0) CQV_CANARY("can fail");
}
void h_plain_int96(void) {
  GHOSTS();
  int64_t r = carquet_decode_plain_int96(nondet_ptr(), nondet_size_t(), nondet_ptr(), nondet_i64());
  CQV_CANARY("returns"); if (r > 0) CQV_CANARY("can consume bytes"); if (r < 0) CQV_CANARY("can fail");
}
void h_plain_float(void) {
  GHOSTS();
  int64_t r = carquet_decode_plain_float(nondet_ptr(), nondet_size_t(), nondet_ptr(), nondet_i64());
  CQV_CANARY("returns"); if (r > 0) CQV_CANARY("can consume bytes"); if (r < 0) CQV_CANARY("can fail");
}
void h_plain_double(void) {
  GHOSTS();
  int64_t r = carquet_decode_plain_double(nondet_ptr(), nondet_size_t(), nondet_ptr(), nondet_i64());
  CQV_CANARY("returns"); if (r > 0) CQV_CANARY("can consume bytes"); if (r < 0) CQV_CANARY("can fail");
}
void h_plain_byte_array(void) {
  GHOSTS();
  int64_t r = carquet_decode_plain_byte_array(nondet_ptr(), nondet_size_t(), nondet_ptr(), nondet_i64());
  CQV_CANARY("returns"); if (r > 0) CQV_CANARY("can consume bytes"); if (r < 0) CQV_CANARY("can fail");
}
void h_plain_fixed(void) {
  GHOSTS();
  int64_t r = carquet_decode_plain_fixed_byte_array(nondet_ptr(), nondet_size_t(), nondet_ptr(), nondet_i64(), nondet_i32());
  CQV_CANARY("returns"); if (r > 0) CQV_CANARY("can consume bytes"); if (r < 0) CQV_CANARY("can fail");
}
