/* C08: PLAIN decoders are safe on arbitrary bytes/counts.  The real plain.c is included. */
#include "cqv.h"
#include <stdlib.h>
/* ghosts used by contracts/plain.ovl */
size_t cqv_any_bytes;   /* size of the output object when count cannot be honoured */
size_t cqv_j;           /* arbitrary element index instead of a quantifier */
/* Since /repo 0b65e1b the decoders reject counts whose encoded size exceeds input_size, so NO bound on count is assumed
 * any more (count ranges over all of int64).  When count cannot be honoured by a real object (count < 0 or
 * count*width > 2^40) the output is an arbitrary object of cqv_any_bytes bytes and the decoder must reject.
 * Only carquet_decode_plain_byte_array keeps A2 (CQV_COUNT_A2): it has no fixed width to pre-check and relies on the
 * caller's output really having `count` elements. */
#define CQV_COUNT_OK(c, max) 1
#define CQV_COUNT_A2(c, max) ((c) <= (int64_t)(max))
#define CQV_OUT_BYTES(c, sh) (((c) >= 0 && (c) <= (int64_t)(CQV_MAXBUF >> (sh))) ? ((size_t)(c) << (sh)) : cqv_any_bytes)
/* ghosts of the encoder contracts in the same overlay (defined in stubs/plain_stubs.c; unused by the decoder jobs) */
#include <carquet/error.h>
struct carquet_buffer;
extern size_t cqv_g, cqv_total; extern int64_t cqv_watch, cqv_calls; extern int cqv_rec_kind;
extern int64_t cqv_cur, cqv_elem, cqv_el_u32_seq, cqv_el_data_seq; extern int cqv_el_has_u32, cqv_el_has_data; extern uint32_t cqv_el_u32; extern const void *cqv_el_data; extern size_t cqv_el_size; extern size_t cqv_rec_size;
extern uint32_t cqv_rec_u32; extern uint8_t *cqv_rec_ptr; extern const void *cqv_rec_data;
extern struct carquet_buffer *cqv_rec_buf; extern carquet_status_t cqv_rec_ret; extern int64_t cqv_cur;
#include "src/encoding/plain.c"

/* no do/while(0) here: a loop in the harness makes the loop-contract pass inline the callee before --enforce-contract */
#define GHOSTS() cqv_any_bytes = nondet_size_t(); cqv_j = nondet_size_t()

void h_plain_boolean(void) {
  GHOSTS();
  int64_t count = nondet_i64();
  int64_t r = carquet_decode_plain_boolean(nondet_ptr(), nondet_size_t(), nondet_ptr(), count);
  if (count < 0) CQV_CANARY("negative count is covered");
  if (count > ((int64_t)1 << 62)) CQV_CANARY("count > 2^62 is covered");
  CQV_CANARY("returns"); if (r >= 0) CQV_CANARY("can succeed"); if (r > 0) CQV_CANARY("can consume bytes"); if (r < 0) CQV_CANARY("can fail");
}
void h_plain_int32(void) {
  GHOSTS();
  int64_t count = nondet_i64();
  int64_t r = carquet_decode_plain_int32(nondet_ptr(), nondet_size_t(), nondet_ptr(), count);
  if (count < 0) CQV_CANARY("negative count is covered");
  if (count > ((int64_t)1 << 62)) CQV_CANARY("count > 2^62 is covered");
  CQV_CANARY("returns"); if (r > 0) CQV_CANARY("can consume bytes"); if (r < 0) CQV_CANARY("can fail");
}
void h_plain_int64(void) {
  GHOSTS();
  int64_t count = nondet_i64();
  int64_t r = carquet_decode_plain_int64(nondet_ptr(), nondet_size_t(), nondet_ptr(), count);
  if (count < 0) CQV_CANARY("negative count is covered");
  if (count > ((int64_t)1 << 62)) CQV_CANARY("count > 2^62 is covered");
  CQV_CANARY("returns"); if (r > 0) CQV_CANARY("can consume bytes"); if (r < 0) CQV_CANARY("can fail");
}
void h_plain_int96(void) {
  GHOSTS();
  int64_t count = nondet_i64();
  int64_t r = carquet_decode_plain_int96(nondet_ptr(), nondet_size_t(), nondet_ptr(), count);
  if (count < 0) CQV_CANARY("negative count is covered");
  if (count > ((int64_t)1 << 62)) CQV_CANARY("count > 2^62 is covered");
  CQV_CANARY("returns"); if (r > 0) CQV_CANARY("can consume bytes"); if (r < 0) CQV_CANARY("can fail");
}
void h_plain_float(void) {
  GHOSTS();
  int64_t count = nondet_i64();
  int64_t r = carquet_decode_plain_float(nondet_ptr(), nondet_size_t(), nondet_ptr(), count);
  if (count < 0) CQV_CANARY("negative count is covered");
  if (count > ((int64_t)1 << 62)) CQV_CANARY("count > 2^62 is covered");
  CQV_CANARY("returns"); if (r > 0) CQV_CANARY("can consume bytes"); if (r < 0) CQV_CANARY("can fail");
}
void h_plain_double(void) {
  GHOSTS();
  int64_t count = nondet_i64();
  int64_t r = carquet_decode_plain_double(nondet_ptr(), nondet_size_t(), nondet_ptr(), count);
  if (count < 0) CQV_CANARY("negative count is covered");
  if (count > ((int64_t)1 << 62)) CQV_CANARY("count > 2^62 is covered");
  CQV_CANARY("returns"); if (r > 0) CQV_CANARY("can consume bytes"); if (r < 0) CQV_CANARY("can fail");
}
void h_plain_byte_array(void) {
  GHOSTS();
  int64_t count = nondet_i64();
  int64_t r = carquet_decode_plain_byte_array(nondet_ptr(), nondet_size_t(), nondet_ptr(), count);
  if (count < 0) CQV_CANARY("negative count is covered");
  CQV_CANARY("returns"); if (r > 0) CQV_CANARY("can consume bytes"); if (r < 0) CQV_CANARY("can fail");
}
/* loop-free; count*fixed_len is a product of two variables => harness is the contract, SMT back end */
void h_plain_fixed(void) {
  GHOSTS();
  size_t input_size = nondet_size_t();
  int64_t count = nondet_i64();
  int32_t fixed_len = nondet_i32();
  __CPROVER_assume(input_size <= CQV_MAXBUF && cqv_any_bytes <= CQV_MAXBUF);
#ifdef CQV_FIXED_W
  __CPROVER_assume(fixed_len == CQV_FIXED_W);   /* bounded variant: one concrete width, all counts/sizes/data */
#endif
  __int128 prod = (__int128)count * (__int128)fixed_len;
  _Bool honest = count >= 0 && fixed_len > 0 && prod <= (__int128)CQV_MAXBUF;
  size_t out_bytes = honest ? (size_t)prod : cqv_any_bytes;
  uint8_t *in = nondet_bool() ? malloc(input_size) : NULL;
  uint8_t *out = nondet_bool() ? malloc(out_bytes) : NULL;
  int64_t r = carquet_decode_plain_fixed_byte_array(in, input_size, out, count, fixed_len);
  __CPROVER_assert(r == -1 || (in != NULL && out != NULL && count >= 0 && fixed_len > 0 && r >= 0 && (size_t)r <= input_size), "error or consumed <= input_size");
  __CPROVER_assert(r == -1 || (__int128)r == prod, "consumed == count*fixed_len (exact)");
  CQV_CANARY("returns"); if (r > 0) CQV_CANARY("can consume bytes"); if (r < 0) CQV_CANARY("can fail");
}

/* generic dispatcher: looping callees replaced by their contracts, memcpy variants inlined (real code) */
static int64_t dispatch_common(int fixed_only) {
  GHOSTS();
  size_t input_size = nondet_size_t();
  int64_t count = nondet_i64();
  int32_t type_length = nondet_i32();
  int type = nondet_int();
  __CPROVER_assume(input_size <= CQV_MAXBUF && cqv_any_bytes <= CQV_MAXBUF);
  size_t out_bytes = cqv_any_bytes;
  if (fixed_only) {
    __CPROVER_assume(type == CARQUET_PHYSICAL_FIXED_LEN_BYTE_ARRAY);
#ifdef CQV_FIXED_W
    __CPROVER_assume(type_length == CQV_FIXED_W);
#endif
    __int128 prod = (__int128)count * (__int128)type_length;
    _Bool honest = count >= 0 && type_length > 0 && prod <= (__int128)CQV_MAXBUF;
    if (honest) out_bytes = (size_t)prod;
  } else {
    __CPROVER_assume(type != CARQUET_PHYSICAL_FIXED_LEN_BYTE_ARRAY);
    int sh = -1;
    if (type == CARQUET_PHYSICAL_BOOLEAN) sh = 0;
    else if (type == CARQUET_PHYSICAL_INT32 || type == CARQUET_PHYSICAL_FLOAT) sh = 2;
    else if (type == CARQUET_PHYSICAL_INT64 || type == CARQUET_PHYSICAL_DOUBLE) sh = 3;
    else if (type == CARQUET_PHYSICAL_BYTE_ARRAY) sh = 4;
    if (type == CARQUET_PHYSICAL_BYTE_ARRAY) __CPROVER_assume(count <= (int64_t)(CQV_MAXBUF >> 4));   /* A2, byte arrays only */
    if (sh == 0) {
      if (count >= 0 && count <= (int64_t)(CQV_MAXBUF << 3)) out_bytes = (size_t)count;
    } else if (sh > 0) {
      if (count >= 0 && count <= (int64_t)(CQV_MAXBUF >> sh)) out_bytes = (size_t)count << sh;
    } else if (type == CARQUET_PHYSICAL_INT96) {
      if (count >= 0 && count <= (int64_t)(CQV_MAXBUF / 12)) out_bytes = ((size_t)count << 3) + ((size_t)count << 2);
    }
  }
  uint8_t *in = nondet_bool() ? malloc(input_size) : NULL;
  void *out = nondet_bool() ? malloc(out_bytes) : NULL;
  int64_t r = carquet_decode_plain(in, input_size, (carquet_physical_type_t)type, type_length, out, count);
  __CPROVER_assert(r == -1 || (in != NULL && out != NULL && count >= 0 && r >= 0 && (size_t)r <= input_size), "dispatcher: error or consumed <= input_size");
  __CPROVER_assert(r == -1 || (type >= CARQUET_PHYSICAL_BOOLEAN && type <= CARQUET_PHYSICAL_FIXED_LEN_BYTE_ARRAY), "unknown type is rejected");
  return r;
}
void h_plain_dispatch(void) {
  int64_t r = dispatch_common(0);
  CQV_CANARY("returns"); if (r > 0) CQV_CANARY("can consume bytes"); if (r < 0) CQV_CANARY("can fail");
}
void h_plain_dispatch_fixed(void) {
  int64_t r = dispatch_common(1);
  CQV_CANARY("returns"); if (r > 0) CQV_CANARY("can consume bytes"); if (r < 0) CQV_CANARY("can fail");
}
