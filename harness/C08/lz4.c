/* C08 harness: LZ4 block decompression on arbitrary bytes (contract in contracts/lz4.ovl).
 * Also carries the C10 decoder-direction lemmas: the fields carquet extracts from a token / offset
 * are the ones the format document defines (specs/lz4_spec.h). */
#include "cqv.h"
#include <stdlib.h>
#include <string.h>
#include "lz4_spec.h"

/* memcpy model for this job (stubs/mem_stubs.c is NOT linked): both ranges must be accessible;
 * afterwards the WHOLE destination object holds arbitrary bytes.  This over-approximates the copy
 * (nothing proved here depends on buffer contents) and avoids __CPROVER_havoc_slice with a symbolic
 * length, which needs > 11 GB in this function (literal copy followed by match reads of dst). */
void *memcpy(void *dst, const void *src, size_t n) {
  __CPROVER_precondition(__CPROVER_r_ok(src, n), "memcpy src readable");
  __CPROVER_precondition(__CPROVER_w_ok(dst, n), "memcpy dst writable");
  /* C11 7.24.2.1: copying between overlapping objects is undefined (same clause as stubs/mem_stubs.c) */
  __CPROVER_precondition(n == 0 || !__CPROVER_same_object(dst, src) ||
                         (size_t)__CPROVER_POINTER_OFFSET(dst) + n <= (size_t)__CPROVER_POINTER_OFFSET(src) ||
                         (size_t)__CPROVER_POINTER_OFFSET(src) + n <= (size_t)__CPROVER_POINTER_OFFSET(dst),
                         "memcpy ranges do not overlap");
  if (n != 0) __CPROVER_havoc_object(dst);
  return dst;
}

/* only referenced by the compressor in the same translation unit (not part of this job) */
void *memset(void *dst, int c, size_t n) {
  __CPROVER_precondition(__CPROVER_w_ok(dst, n), "memset dst writable");
  if (n != 0) __CPROVER_havoc_object(dst);
  return dst;
}

#define CQV_LZ4_DEC_TOKEN \
  __CPROVER_assert(lit_len == lz4_spec_token_lit(token), "lz4d: literal length field is the spec's high nibble");
#define CQV_LZ4_DEC_OFFSET \
  __CPROVER_assert(offset == (size_t)ip[0] + 256u * (size_t)ip[1], "lz4d: offset is the spec's 16-bit little-endian value");
#define CQV_LZ4_DEC_MATCH \
  __CPROVER_assert(match_len == lz4_spec_token_match(token) + LZ4_SPEC_MINMATCH, "lz4d: match length field is the spec's low nibble + minmatch"); \
  __CPROVER_assert(((token & 0x0F) == 15) == (lz4_spec_token_match(token) == 15u), "lz4d: match length extension iff the spec's field is 15");

#include "src/compression/lz4.c"

void h_lz4_decompress(void) {
  const uint8_t *src = nondet_ptr();
  uint8_t *dst = nondet_ptr();
  size_t *dst_size = nondet_ptr();
  size_t src_size = nondet_size_t(), dst_capacity = nondet_size_t();
  carquet_status_t st = carquet_lz4_decompress(src, src_size, dst, dst_capacity, dst_size);
  CQV_CANARY("lz4_decompress returns");
  if (st == CARQUET_OK) CQV_CANARY("lz4_decompress returns OK");
}
