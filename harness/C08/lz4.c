/* C08 harness: LZ4 block decompression on arbitrary bytes (contract in contracts/lz4.ovl) */
#include "cqv.h"
#include <stdlib.h>
#include "src/compression/lz4.c"

void h_lz4_decompress(void) {
  const uint8_t *src = nondet_ptr();
  uint8_t *dst = nondet_ptr();
  size_t *dst_size = nondet_ptr();
  size_t src_size = nondet_size_t(), dst_capacity = nondet_size_t();
  carquet_status_t st = carquet_lz4_decompress(src, src_size, dst, dst_capacity, dst_size);
  CQV_CANARY("lz4_decompress returns");
  if (st == CARQUET_OK) CQV_CANARY("lz4_decompress returns OK");
  if (st == CARQUET_OK && *dst_size == dst_capacity && dst_capacity > 0) CQV_CANARY("lz4_decompress fills the buffer exactly");
}
