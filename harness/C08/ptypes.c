/* C08 (and, through harness/C19/ptypes.c, C19): safety of the Thrift structure parsers of
 * src/thrift/parquet_types.c.  Callees (thrift_read_*, thrift_skip, carquet_arena_*) are replaced by the
 * assumed contracts of stubs/ptypes_stubs.c.  C08 jobs are built with -DCQV_ALLOC_NEVER_FAILS (fault-free
 * run); C19 jobs let every arena request fail. */
#define CQV_PT_DECLS 1
#include "ptypes_stubs.c"

/* precondition of every parse_* helper: a live decoder over a readable input */
#define CQV_PARSE_REQ(d) (__CPROVER_is_fresh((d), sizeof(*(d))) && CQV_DEC_INV(d) && \
                          __CPROVER_is_fresh((d)->reader.data, (d)->reader.size))
#define CQV_PARSE_ASSIGNS(d) *(d), cqv_alloc_failed
/* postcondition of every parse_* helper:
 *  - cursor stays inside the input and never moves backwards, input window unchanged
 *  - an error status is sticky
 *  - struct_begin/struct_end balanced whenever no error is reported
 *  - C19: an allocation failure during the call is reported through the decoder status */
#define CQV_PARSE_POST(d) (CQV_DEC_INV(d) && (d)->reader.pos >= __CPROVER_old((d)->reader.pos) && \
    (d)->reader.data == __CPROVER_old((d)->reader.data) && (d)->reader.size == __CPROVER_old((d)->reader.size) && \
    (__CPROVER_old((d)->status) != CARQUET_OK ==> (d)->status != CARQUET_OK) && \
    ((d)->status == CARQUET_OK ==> (d)->nesting_level == __CPROVER_old((d)->nesting_level)) && \
    ((cqv_alloc_failed && !__CPROVER_old(cqv_alloc_failed)) ==> (d)->status != CARQUET_OK))
#define CQV_LOOP_INV(d) (CQV_DEC_INV(d) && (d)->reader.pos >= __CPROVER_loop_entry((d)->reader.pos) && \
    (d)->reader.data == __CPROVER_loop_entry((d)->reader.data) && (d)->reader.size == __CPROVER_loop_entry((d)->reader.size) && \
    (__CPROVER_loop_entry((d)->status) != CARQUET_OK ==> (d)->status != CARQUET_OK) && \
    ((d)->status == CARQUET_OK ==> (d)->nesting_level == __CPROVER_loop_entry((d)->nesting_level)) && \
    ((cqv_alloc_failed && !__CPROVER_loop_entry(cqv_alloc_failed)) ==> (d)->status != CARQUET_OK))

#include <stdlib.h>
#include "src/thrift/parquet_types.c"

void h_parse_statistics(void) {
  thrift_decoder_t *dec = nondet_ptr();
  carquet_arena_t *arena = nondet_ptr();
  parquet_statistics_t *st = nondet_ptr();
  parse_statistics(dec, arena, st);
  CQV_CANARY("parse_statistics returns");
  if (dec->status == CARQUET_OK) CQV_CANARY("parse_statistics can succeed");
}
