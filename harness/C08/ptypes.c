/* C08 (and, through harness/C19/ptypes.c, C19): safety of the Thrift structure parsers of
 * src/thrift/parquet_types.c.  Callees (thrift_read_*, thrift_skip, carquet_arena_*) are replaced by the
 * assumed contracts of stubs/ptypes_stubs.c.  C08 jobs are built with -DCQV_ALLOC_NEVER_FAILS (fault-free
 * run); C19 jobs let every arena request fail. */
#define CQV_PT_DECLS 1
#include "ptypes_stubs.c"

/* precondition of every parse_* helper: a live decoder over a readable input */
#define CQV_PARSE_REQ(d) (__CPROVER_is_fresh((d), sizeof(*(d))) && CQV_DEC_INV(d) && \
                          __CPROVER_is_fresh((d)->reader.data, (d)->reader.size))
#define CQV_PARSE_ASSIGNS(d) *(d), cqv_alloc_failed
/* postcondition of every parse_* helper:
 *  - cursor stays inside the input and never moves backwards, input window unchanged
 *  - an error status is sticky
 *  - struct_begin/struct_end balanced whenever no error is reported
 *  - C19: an allocation failure during the call is reported through the decoder status */
#define CQV_PARSE_POST(d) (CQV_DEC_INV(d) && (d)->reader.pos >= __CPROVER_old((d)->reader.pos) && \
    (d)->reader.data == __CPROVER_old((d)->reader.data) && (d)->reader.size == __CPROVER_old((d)->reader.size) && \
    (__CPROVER_old((d)->status) != CARQUET_OK ==> (d)->status != CARQUET_OK) && \
    ((d)->status == CARQUET_OK ==> (d)->nesting_level == __CPROVER_old((d)->nesting_level)) && \
    ((cqv_alloc_failed && !__CPROVER_old(cqv_alloc_failed)) ==> (d)->status != CARQUET_OK))
#define CQV_LOOP_INV(d) (CQV_DEC_INV(d) && (d)->reader.pos >= __CPROVER_loop_entry((d)->reader.pos) && \
    (d)->reader.data == __CPROVER_loop_entry((d)->reader.data) && (d)->reader.size == __CPROVER_loop_entry((d)->reader.size) && \
    (__CPROVER_loop_entry((d)->status) != CARQUET_OK ==> (d)->status != CARQUET_OK) && \
    ((d)->status == CARQUET_OK ==> (d)->nesting_level == __CPROVER_loop_entry((d)->nesting_level)) && \
    ((cqv_alloc_failed && !__CPROVER_loop_entry(cqv_alloc_failed)) ==> (d)->status != CARQUET_OK))


/* element-wise instance of the well-formedness precondition of the metadata tree (counts >= 0, valid enumerators) */
#define CQV_WF_ASSUME(c) __CPROVER_assume(c)

/* SchemaElement.name is 'required' in parquet.thrift; carquet writes it only when non-NULL.  The strong contract
 * (any element) is the default; -DCQV_SE_NAMED restricts to elements that have a name (second, weaker job). */
#ifdef CQV_SE_NAMED
#define CQV_SE_NAME_REQ(e) ((e)->name != NULL)
#else
#define CQV_SE_NAME_REQ(e) 1
#endif

/* loop contracts are compiled in only for the function under proof (see contracts/ptypes.ovl) */
#ifdef CQV_FN_parse_statistics
#define LC_parse_statistics(...) __VA_ARGS__
#else
#define LC_parse_statistics(...)
#endif
#ifdef CQV_FN_parse_logical_type
#define LC_parse_logical_type(...) __VA_ARGS__
#else
#define LC_parse_logical_type(...)
#endif
#ifdef CQV_FN_parse_schema_element
#define LC_parse_schema_element(...) __VA_ARGS__
#else
#define LC_parse_schema_element(...)
#endif
#ifdef CQV_FN_parse_column_metadata
#define LC_parse_column_metadata(...) __VA_ARGS__
#else
#define LC_parse_column_metadata(...)
#endif
#ifdef CQV_FN_parse_column_chunk
#define LC_parse_column_chunk(...) __VA_ARGS__
#else
#define LC_parse_column_chunk(...)
#endif
#ifdef CQV_FN_parse_row_group
#define LC_parse_row_group(...) __VA_ARGS__
#else
#define LC_parse_row_group(...)
#endif
#ifdef CQV_FN_parquet_parse_file_metadata
#define LC_parquet_parse_file_metadata(...) __VA_ARGS__
#else
#define LC_parquet_parse_file_metadata(...)
#endif
#ifdef CQV_FN_parquet_parse_page_header
#define LC_parquet_parse_page_header(...) __VA_ARGS__
#else
#define LC_parquet_parse_page_header(...)
#endif
#ifdef CQV_FN_write_column_metadata
#define LC_write_column_metadata(...) __VA_ARGS__
#else
#define LC_write_column_metadata(...)
#endif
#ifdef CQV_FN_write_row_group
#define LC_write_row_group(...) __VA_ARGS__
#else
#define LC_write_row_group(...)
#endif
#ifdef CQV_FN_parquet_write_file_metadata
#define LC_parquet_write_file_metadata(...) __VA_ARGS__
#else
#define LC_parquet_write_file_metadata(...)
#endif

#include <stdlib.h>
#include "src/thrift/parquet_types.c"

void h_parse_statistics(void) {
  thrift_decoder_t *dec = nondet_ptr();
  carquet_arena_t *arena = nondet_ptr();
  parquet_statistics_t *st = nondet_ptr();
  parse_statistics(dec, arena, st);
  CQV_CANARY("parse_statistics returns");
}

void h_parse_logical_type(void) {
  thrift_decoder_t *dec = nondet_ptr();
  carquet_logical_type_t *lt = nondet_ptr();
  parse_logical_type(dec, lt);
  CQV_CANARY("parse_logical_type returns");
}

void h_parse_schema_element(void) {
  thrift_decoder_t *dec = nondet_ptr();
  carquet_arena_t *arena = nondet_ptr();
  parquet_schema_element_t *e = nondet_ptr();
  parse_schema_element(dec, arena, e);
  CQV_CANARY("parse_schema_element returns");
}

void h_parse_column_metadata(void) {
  thrift_decoder_t *dec = nondet_ptr();
  carquet_arena_t *arena = nondet_ptr();
  parquet_column_metadata_t *m = nondet_ptr();
  parse_column_metadata(dec, arena, m);
  CQV_CANARY("parse_column_metadata returns");
}

void h_parse_column_chunk(void) {
  thrift_decoder_t *dec = nondet_ptr();
  carquet_arena_t *arena = nondet_ptr();
  parquet_column_chunk_t *c = nondet_ptr();
  parse_column_chunk(dec, arena, c);
  CQV_CANARY("parse_column_chunk returns");
}

void h_parse_row_group(void) {
  thrift_decoder_t *dec = nondet_ptr();
  carquet_arena_t *arena = nondet_ptr();
  parquet_row_group_t *rg = nondet_ptr();
  parse_row_group(dec, arena, rg);
  CQV_CANARY("parse_row_group returns");
}

void h_parse_file_metadata(void) {
  const uint8_t *data = nondet_ptr();
  size_t size = nondet_size_t();
  carquet_arena_t *arena = nondet_ptr();
  parquet_file_metadata_t *md = nondet_ptr();
  carquet_error_t *err = nondet_ptr();
  carquet_status_t st = parquet_parse_file_metadata(data, size, arena, md, err);
  CQV_CANARY("parquet_parse_file_metadata returns");
  if (st == CARQUET_OK) CQV_CANARY("parquet_parse_file_metadata can succeed");
  if (st != CARQUET_OK) CQV_CANARY("parquet_parse_file_metadata can fail");
}

void h_parse_page_header(void) {
  const uint8_t *data = nondet_ptr();
  size_t size = nondet_size_t();
  parquet_page_header_t *h = nondet_ptr();
  size_t *br = nondet_ptr();
  carquet_error_t *err = nondet_ptr();
  carquet_status_t st = parquet_parse_page_header(data, size, h, br, err);
  CQV_CANARY("parquet_parse_page_header returns");
  if (st == CARQUET_OK) CQV_CANARY("parquet_parse_page_header can succeed");
  if (st != CARQUET_OK) CQV_CANARY("parquet_parse_page_header can fail");
}
