#include "cqv.h"
#include <stdlib.h>
#include "src/compression/snappy.c"

void h_snappy_read_varint(void) {
  size_t n = nondet_size_t(), off = nondet_size_t();
  __CPROVER_assume(n <= CQV_MAXBUF && off <= n);
  uint8_t *buf = malloc(n);
  __CPROVER_assume(buf != NULL);
  const uint8_t *p = buf + off, *end = buf + n;
  uint32_t v;
  size_t r = snappy_read_varint(p, end, &v);
  CQV_CANARY("snappy_read_varint returns");
}

void h_snappy_decompress(void) {
  const uint8_t *src = nondet_ptr();
  uint8_t *dst = nondet_ptr();
  size_t *dst_size = nondet_ptr();
  size_t src_size = nondet_size_t(), dst_capacity = nondet_size_t();
  carquet_status_t st = carquet_snappy_decompress(src, src_size, dst, dst_capacity, dst_size);
  CQV_CANARY("snappy_decompress returns");
  if (st == CARQUET_OK) CQV_CANARY("snappy_decompress returns OK");
}
