/* C08/C09: gzip and zstd wrappers, library calls are assumed contracts (stubs/zlib_stubs.c,
 * stubs/zstd_stubs.c).  CQV_ZWRAP selects the file (one real source per job). */
#include "cqv.h"
#include <stdlib.h>
#ifdef CQV_WHOLE_INPUT
#define CQV_Z_WHOLE(c) (c)
#else
#define CQV_Z_WHOLE(c) 1
#endif

#if CQV_ZWRAP == 1
extern int cqv_z_open, cqv_z_calls, cqv_z_level;
extern unsigned long cqv_z_in0, cqv_z_out0;
#include "src/compression/gzip.c"

void h_gzip_decompress(void) {
  const uint8_t *src = nondet_ptr(); uint8_t *dst = nondet_ptr(); size_t *dst_size = nondet_ptr();
  size_t src_size = nondet_size_t(), dst_capacity = nondet_size_t();
  cqv_z_in0 = nondet_size_t(); cqv_z_out0 = nondet_size_t();
  int st = carquet_gzip_decompress(src, src_size, dst, dst_capacity, dst_size);
  CQV_CANARY("gzip_decompress returns");
  if (st == CARQUET_OK) CQV_CANARY("gzip_decompress returns OK");
}
void h_gzip_compress(void) {
  const uint8_t *src = nondet_ptr(); uint8_t *dst = nondet_ptr(); size_t *dst_size = nondet_ptr();
  size_t src_size = nondet_size_t(), dst_capacity = nondet_size_t();
  int level = nondet_int();
  cqv_z_in0 = nondet_size_t(); cqv_z_out0 = nondet_size_t(); cqv_z_level = nondet_int();
  int st = carquet_gzip_compress(src, src_size, dst, dst_capacity, dst_size, level);
  CQV_CANARY("gzip_compress returns");
  if (st == CARQUET_OK) CQV_CANARY("gzip_compress returns OK");
}
void h_gzip_bound(void) {
  size_t n = nondet_size_t();
  size_t b = carquet_gzip_compress_bound(n);
  CQV_CANARY("gzip bound returns");
}
#else
extern int cqv_zs_level, cqv_zs_calls;
extern size_t cqv_zs_src, cqv_zs_cap;
#include "src/compression/zstd.c"

void h_zstd_decompress(void) {
  const uint8_t *src = nondet_ptr(); uint8_t *dst = nondet_ptr(); size_t *dst_size = nondet_ptr();
  size_t src_size = nondet_size_t(), dst_capacity = nondet_size_t();
  global_dctx = nondet_ptr();
  cqv_zs_src = nondet_size_t(); cqv_zs_cap = nondet_size_t();
  int st = carquet_zstd_decompress(src, src_size, dst, dst_capacity, dst_size);
  CQV_CANARY("zstd_decompress returns");
  if (st == CARQUET_OK) CQV_CANARY("zstd_decompress returns OK");
}
void h_zstd_compress(void) {
  const uint8_t *src = nondet_ptr(); uint8_t *dst = nondet_ptr(); size_t *dst_size = nondet_ptr();
  size_t src_size = nondet_size_t(), dst_capacity = nondet_size_t();
  int level = nondet_int();
  cqv_zs_src = nondet_size_t(); cqv_zs_cap = nondet_size_t(); cqv_zs_level = nondet_int();
  int st = carquet_zstd_compress(src, src_size, dst, dst_capacity, dst_size, level);
  CQV_CANARY("zstd_compress returns");
  if (st == CARQUET_OK) CQV_CANARY("zstd_compress returns OK");
}
#endif
