/* C08: dictionary index decoding.  The real dictionary.c is included; carquet_rle_decode_all is an assumed contract. */
#include "cqv.h"
#include <stdlib.h>
size_t cqv_any_bytes, cqv_i, cqv_b;
#ifdef CQV_HUGE
#define CQV_COUNT_OK(c, max) 1
#else
#define CQV_COUNT_OK(c, max) ((c) <= (int64_t)(max))   /* A2 for the output object */
#endif
#define CQV_OUT_BYTES(c, sh) (((c) >= 0 && (c) <= (int64_t)(CQV_MAXBUF >> (sh))) ? ((size_t)(c) << (sh)) : cqv_any_bytes)
#include "src/encoding/dictionary.c"
#define GHOSTS() cqv_any_bytes = nondet_size_t()
#define H(T, CT, SH)                                                                                          \
  void h_dict_decode_##T(void) {                                                                              \
    GHOSTS();                                                                                                 \
    int64_t n = nondet_i64();                                                                                 \
    size_t dict_size = nondet_size_t(), indices_size = nondet_size_t();                                       \
    __CPROVER_assume(dict_size <= CQV_MAXBUF && indices_size <= CQV_MAXBUF && cqv_any_bytes <= CQV_MAXBUF);   \
    __CPROVER_assume(CQV_COUNT_OK(n, CQV_MAXBUF >> SH));                                                      \
    uint8_t *dict = nondet_bool() ? malloc(dict_size) : NULL;                                                 \
    uint8_t *idx = malloc(indices_size);                                                                      \
    CT *out = malloc(CQV_OUT_BYTES(n, SH));                                                                   \
    __CPROVER_assume(idx != NULL && out != NULL);                                                             \
    carquet_status_t st = carquet_dictionary_decode_##T(dict, dict_size, nondet_i32(), idx, indices_size, out, n); \
    CQV_CANARY("returns"); if (st == CARQUET_OK && n > 0) CQV_CANARY("can succeed"); if (st != CARQUET_OK) CQV_CANARY("can fail"); \
    if (n < 0) CQV_CANARY("negative count is covered");                                                       \
  }
H(int32, int32_t, 2)
H(int64, int64_t, 3)
H(float, float, 2)
H(double, double, 3)
