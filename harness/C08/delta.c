/* C08: DELTA_BINARY_PACKED / DELTA_LENGTH_BYTE_ARRAY / DELTA_BYTE_ARRAY decoders on arbitrary bytes.
 * The real delta.c is included (static helpers visible); contracts come from contracts/delta.ovl. */
#include "cqv.h"
#include "delta_spec.h"
#include <stdlib.h>
int64_t cqv_dummy;   /* ghost object, see contracts/delta.ovl */
size_t cqv_k;          /* ghost index: arbitrary */
#include "src/encoding/delta.c"
#include "src/encoding/delta_length.c"
#include "src/encoding/delta_strings.c"

/* arbitrary input object with an arbitrary cursor inside it */
static const uint8_t *mk_input(size_t *n_out, size_t *off_out) {
  size_t n = nondet_size_t(), off = nondet_size_t();
  __CPROVER_assume(n <= CQV_MAXBUF && off <= n);
  uint8_t *buf = malloc(n);
  __CPROVER_assume(buf != NULL);
  *n_out = n; *off_out = off;
  return buf;
}

void h_read_uleb128(void) {
  size_t n, off;
  const uint8_t *buf = mk_input(&n, &off);
  uint64_t v;
  size_t r = read_uleb128(buf + off, n - off, &v);
  CQV_CANARY("read_uleb128 returns");
  if (r == 10) CQV_CANARY("read_uleb128 can take 10 bytes");
  if (r == 0) CQV_CANARY("read_uleb128 can fail");
}

void h_decoder_init(void) {
  size_t n, off;
  const uint8_t *buf = mk_input(&n, &off);
  delta_decoder_t *dec = malloc(sizeof(*dec));
  __CPROVER_assume(dec != NULL);
  carquet_status_t st = delta_decoder_init(dec, buf, n);
  CQV_CANARY("delta_decoder_init returns");
  if (st == CARQUET_OK) CQV_CANARY("delta_decoder_init can succeed");
}

/* arbitrary decoder state satisfying the requires of the helper contracts */
static delta_decoder_t *mk_decoder(void) {
  size_t n, off;
  const uint8_t *buf = mk_input(&n, &off);
  delta_decoder_t *dec = malloc(sizeof(*dec));
  __CPROVER_assume(dec != NULL);
  dec->data = buf;
  dec->size = n;
  dec->pos = off;
  return dec;   /* all other fields arbitrary (malloc contents are nondet); requires constrain them */
}

void h_read_block(void) {
  delta_decoder_t *dec = mk_decoder();
  carquet_status_t st = delta_decoder_read_block(dec);
  CQV_CANARY("read_block returns");
  if (st == CARQUET_OK) CQV_CANARY("read_block can succeed");
}

void h_read_mini_block(void) {
  delta_decoder_t *dec = mk_decoder();
  carquet_status_t st = delta_decoder_read_mini_block(dec);
  CQV_CANARY("read_mini_block returns");
  if (st == CARQUET_OK) CQV_CANARY("read_mini_block can succeed");
}

void h_decoder_next(void) {
  delta_decoder_t *dec = mk_decoder();
  int64_t v;
  carquet_status_t st = delta_decoder_next(dec, &v);
  CQV_CANARY("decoder_next returns");
  if (st == CARQUET_OK) CQV_CANARY("decoder_next can succeed");
}

void h_decode_int32(void) {
  const uint8_t *data = nondet_ptr();
  int32_t *values = nondet_ptr();
  size_t *consumed = nondet_ptr();
  size_t n = nondet_size_t();
  int32_t num = nondet_i32();
  carquet_status_t st = carquet_delta_decode_int32(data, n, values, num, consumed);
  CQV_CANARY("delta_decode_int32 returns");
  if (st == CARQUET_OK) CQV_CANARY("delta_decode_int32 can succeed");
}

void h_decode_int64(void) {
  const uint8_t *data = nondet_ptr();
  int64_t *values = nondet_ptr();
  size_t *consumed = nondet_ptr();
  size_t n = nondet_size_t();
  int32_t num = nondet_i32();
  carquet_status_t st = carquet_delta_decode_int64(data, n, values, num, consumed);
  CQV_CANARY("delta_decode_int64 returns");
  if (st == CARQUET_OK) CQV_CANARY("delta_decode_int64 can succeed");
}

void h_delta_length_decode(void) {
  const uint8_t *data = nondet_ptr();
  carquet_byte_array_t *values = nondet_ptr();
  size_t *consumed = nondet_ptr();
  size_t n = nondet_size_t();
  int32_t num = nondet_i32();
  carquet_status_t st = carquet_delta_length_decode(data, n, values, num, consumed);
  CQV_CANARY("delta_length_decode returns");
  if (st == CARQUET_OK) CQV_CANARY("delta_length_decode can succeed");
  if (st == CARQUET_ERROR_DECODE) CQV_CANARY("delta_length_decode can reject");
#ifdef CQV_OOM
  if (st == CARQUET_ERROR_OUT_OF_MEMORY) CQV_CANARY("delta_length_decode can report allocation failure");
#endif
}

#ifndef CQV_NMAX
#define CQV_NMAX 3
#endif
/* bounded: at most CQV_NMAX strings (the two loops over the strings are unwound completely) */
void h_delta_strings_decode(void) {
  const uint8_t *data = nondet_ptr();
  carquet_byte_array_t *values = nondet_ptr();
  uint8_t *work = nondet_ptr();
  size_t *consumed = nondet_ptr();
  size_t n = nondet_size_t(), wn = nondet_size_t();
  int32_t num = nondet_i32();
  __CPROVER_assume(num <= CQV_NMAX);
  carquet_status_t st = carquet_delta_strings_decode(data, n, values, num, work, wn, consumed);
  CQV_CANARY("delta_strings_decode returns");
  if (st == CARQUET_OK) CQV_CANARY("delta_strings_decode can succeed");
  if (st == CARQUET_ERROR_DECODE) CQV_CANARY("delta_strings_decode can reject");
#ifdef CQV_OOM
  if (st == CARQUET_ERROR_OUT_OF_MEMORY && n == 0) CQV_CANARY("delta_strings_decode can report allocation failure");
#endif
}
