/* C08: DELTA_BINARY_PACKED / DELTA_LENGTH_BYTE_ARRAY / DELTA_BYTE_ARRAY decoders on arbitrary bytes.
 * The real delta.c is included (static helpers visible); contracts come from contracts/delta.ovl. */
#include "cqv.h"
#include "delta_spec.h"
#include <stdlib.h>
#include "src/encoding/delta.c"
#include "src/encoding/delta_length.c"
#include "src/encoding/delta_strings.c"

/* arbitrary input object with an arbitrary cursor inside it */
static const uint8_t *mk_input(size_t *n_out, size_t *off_out) {
  size_t n = nondet_size_t(), off = nondet_size_t();
  __CPROVER_assume(n <= CQV_MAXBUF && off <= n);
  uint8_t *buf = malloc(n);
  __CPROVER_assume(buf != NULL);
  *n_out = n; *off_out = off;
  return buf;
}

void h_read_uleb128(void) {
  size_t n, off;
  const uint8_t *buf = mk_input(&n, &off);
  uint64_t v;
  size_t r = read_uleb128(buf + off, n - off, &v);
  CQV_CANARY("read_uleb128 returns");
  if (r == 10) CQV_CANARY("read_uleb128 can take 10 bytes");
  if (r == 0) CQV_CANARY("read_uleb128 can fail");
}

void h_decoder_init(void) {
  size_t n, off;
  const uint8_t *buf = mk_input(&n, &off);
  delta_decoder_t *dec = malloc(sizeof(*dec));
  __CPROVER_assume(dec != NULL);
  carquet_status_t st = delta_decoder_init(dec, buf, n);
  CQV_CANARY("delta_decoder_init returns");
  if (st == CARQUET_OK) CQV_CANARY("delta_decoder_init can succeed");
}

/* arbitrary decoder state satisfying the requires of the helper contracts */
static delta_decoder_t *mk_decoder(void) {
  size_t n, off;
  const uint8_t *buf = mk_input(&n, &off);
  delta_decoder_t *dec = malloc(sizeof(*dec));
  __CPROVER_assume(dec != NULL);
  dec->data = buf;
  dec->size = n;
  dec->pos = off;
  return dec;   /* all other fields arbitrary (malloc contents are nondet); requires constrain them */
}

void h_read_block(void) {
  delta_decoder_t *dec = mk_decoder();
  carquet_status_t st = delta_decoder_read_block(dec);
  CQV_CANARY("read_block returns");
  if (st == CARQUET_OK) CQV_CANARY("read_block can succeed");
}

void h_read_mini_block(void) {
  delta_decoder_t *dec = mk_decoder();
  carquet_status_t st = delta_decoder_read_mini_block(dec);
  CQV_CANARY("read_mini_block returns");
  if (st == CARQUET_OK) CQV_CANARY("read_mini_block can succeed");
}

void h_decoder_next(void) {
  delta_decoder_t *dec = mk_decoder();
  int64_t v;
  carquet_status_t st = delta_decoder_next(dec, &v);
  CQV_CANARY("decoder_next returns");
  if (st == CARQUET_OK) CQV_CANARY("decoder_next can succeed");
}

void h_decode_int32(void) {
  const uint8_t *data = nondet_ptr();
  int32_t *values = nondet_ptr();
  size_t *consumed = nondet_ptr();
  size_t n = nondet_size_t();
  int32_t num = nondet_i32();
  carquet_status_t st = carquet_delta_decode_int32(data, n, values, num, consumed);
  CQV_CANARY("delta_decode_int32 returns");
  if (st == CARQUET_OK) CQV_CANARY("delta_decode_int32 can succeed");
}

void h_decode_int64(void) {
  const uint8_t *data = nondet_ptr();
  int64_t *values = nondet_ptr();
  size_t *consumed = nondet_ptr();
  size_t n = nondet_size_t();
  int32_t num = nondet_i32();
  carquet_status_t st = carquet_delta_decode_int64(data, n, values, num, consumed);
  CQV_CANARY("delta_decode_int64 returns");
  if (st == CARQUET_OK) CQV_CANARY("delta_decode_int64 can succeed");
}

void h_delta_length_decode(void) {
  const uint8_t *data = nondet_ptr();
  carquet_byte_array_t *values = nondet_ptr();
  size_t *consumed = nondet_ptr();
  size_t n = nondet_size_t();
  int32_t num = nondet_i32();
  carquet_status_t st = carquet_delta_length_decode(data, n, values, num, consumed);
  CQV_CANARY("delta_length_decode returns");
  if (st == CARQUET_OK) CQV_CANARY("delta_length_decode can succeed");
  if (st == CARQUET_ERROR_DECODE) CQV_CANARY("delta_length_decode can reject");
#ifdef CQV_OOM
  if (st == CARQUET_ERROR_OUT_OF_MEMORY) CQV_CANARY("delta_length_decode can report allocation failure");
#endif
}

#ifndef CQV_NMAX
#define CQV_NMAX 3
#endif
/* bounded: at most CQV_NMAX strings (the two loops over the strings are unwound completely) */
void h_delta_strings_decode(void) {
  const uint8_t *data = nondet_ptr();
  carquet_byte_array_t *values = nondet_ptr();
  uint8_t *work = nondet_ptr();
  size_t *consumed = nondet_ptr();
  size_t n = nondet_size_t(), wn = nondet_size_t();
  int32_t num = nondet_i32();
  __CPROVER_assume(num <= CQV_NMAX);
  carquet_status_t st = carquet_delta_strings_decode(data, n, values, num, work, wn, consumed);
  CQV_CANARY("delta_strings_decode returns");
  if (st == CARQUET_OK) CQV_CANARY("delta_strings_decode can succeed");
  if (st == CARQUET_ERROR_DECODE) CQV_CANARY("delta_strings_decode can reject");
#ifdef CQV_OOM
  if (st == CARQUET_ERROR_OUT_OF_MEMORY && n == 0) CQV_CANARY("delta_strings_decode can report allocation failure");
#endif
}

/* ---- harness-is-contract variants (objects built here, freed here): byte-array views, failure frees everything ---- */
#define VIEW_IN(v, base, cap) ((v).length >= 0 && ((v).length == 0 || (__CPROVER_same_object((v).data, (base)) && \
  __CPROVER_POINTER_OFFSET((v).data) >= 0 && (size_t)__CPROVER_POINTER_OFFSET((v).data) + (size_t)(v).length <= (cap))))

void h_delta_length_views(void) {
  size_t n = nondet_size_t();
  int32_t num = nondet_i32();
  __CPROVER_assume(n <= CQV_MAXBUF && num <= CQV_NMAX);
  uint8_t *data = malloc(n);
  carquet_byte_array_t *values = malloc(sizeof(carquet_byte_array_t) * CQV_NMAX);
  __CPROVER_assume(data != NULL && values != NULL);
  size_t consumed = 0;
  carquet_status_t st = carquet_delta_length_decode(data, n, values, num, nondet_bool() ? &consumed : NULL);
  if (st == CARQUET_OK) {
    __CPROVER_assert(num >= 1 && consumed <= n, "consumed bytes within the input");
    __CPROVER_assert(VIEW_IN(values[0], data, n), "string 0 lies inside the input");
    if (num > 1) __CPROVER_assert(VIEW_IN(values[1], data, n), "string 1 lies inside the input");
    if (num > 2) __CPROVER_assert(VIEW_IN(values[2], data, n), "string 2 lies inside the input");
    if (num > 2) CQV_CANARY("delta_length views: three strings decoded");
  }
#ifdef CQV_OOM
  if (st == CARQUET_ERROR_OUT_OF_MEMORY) CQV_CANARY("delta_length views: allocation failure reported");
#endif
  free(data); free(values);   /* whatever the decoder allocated must be gone: --memory-leak-check */
  CQV_CANARY("delta_length views end");
}

void h_delta_strings_views(void) {
  size_t n = nondet_size_t(), wn = nondet_size_t();
  int32_t num = nondet_i32();
  __CPROVER_assume(n <= CQV_MAXBUF && wn <= CQV_MAXBUF && num <= CQV_NMAX);
  uint8_t *data = malloc(n);
  uint8_t *work = malloc(wn);
  carquet_byte_array_t *values = malloc(sizeof(carquet_byte_array_t) * CQV_NMAX);
  __CPROVER_assume(data != NULL && values != NULL && work != NULL);
  size_t consumed = 0;
  carquet_status_t st = carquet_delta_strings_decode(data, n, values, num, work, wn, nondet_bool() ? &consumed : NULL);
  if (st == CARQUET_OK) {
    __CPROVER_assert(num >= 1 && consumed <= n, "consumed bytes within the input");
    __CPROVER_assert(VIEW_IN(values[0], work, wn), "string 0 lies inside the work buffer");
    if (num > 1) __CPROVER_assert(VIEW_IN(values[1], work, wn), "string 1 lies inside the work buffer");
    if (num > 2) __CPROVER_assert(VIEW_IN(values[2], work, wn), "string 2 lies inside the work buffer");
    if (num > 2) CQV_CANARY("delta_strings views: three strings decoded");
  }
#ifdef CQV_OOM
  if (st == CARQUET_ERROR_OUT_OF_MEMORY && wn > 4) CQV_CANARY("delta_strings views: failure reported");
#endif
  free(data); free(values); free(work);
  CQV_CANARY("delta_strings views end");
}
