/* C08: raw bit unpacking is safe for every width byte and count (contracts in contracts/bitpack.ovl). */
#include "cqv.h"
#include <stdlib.h>
#include "bitpack_spec.h"
/* case-split knobs of the group-loop contracts (defaults = the full domain) */
#ifndef CQV_BW_LO
#define CQV_BW_LO 0
#endif
#ifndef CQV_BW_HI
#define CQV_BW_HI 32
#endif
#if CQV_BW_LO == CQV_BW_HI
#define CQV_BW_DOM(b) ((b) == CQV_BW_LO)   /* equality: the width bits are unit-propagated */
#else
#define CQV_BW_DOM(b) ((b) >= CQV_BW_LO && (b) <= CQV_BW_HI)
#endif
#ifndef CQV_MULW
#define CQV_MULW(x) ((size_t)(x) * (size_t)bit_width)
#endif
#ifndef CQV_U8_LO
#define CQV_U8_LO 0
#endif
#ifndef CQV_U8_HI
#define CQV_U8_HI 32
#endif
#ifndef CQV_P8_LO
#define CQV_P8_LO 0
#endif
#ifndef CQV_P8_HI
#define CQV_P8_HI 32
#endif
#ifndef CQV_BP_MAXCOUNT
#define CQV_BP_MAXCOUNT (CQV_MAXBUF >> 2)
#endif
#include "src/core/bitpack.c"

/* enforce carquet_bitunpack8_32: width anywhere in the contract range, input of EXACTLY bit_width bytes */
void h_bitunpack8_32(void) {
  int bit_width = nondet_int();
  __CPROVER_assume(bit_width >= CQV_U8_LO && bit_width <= CQV_U8_HI);
  uint8_t *in = malloc((size_t)bit_width);
  uint32_t *vals = malloc(8 * sizeof(uint32_t));
  __CPROVER_assume(in != NULL && vals != NULL);
  carquet_bitunpack8_32(in, bit_width, vals);
  if (bit_width == CQV_U8_LO) CQV_CANARY("lowest width of the range");
  if (bit_width == CQV_U8_HI) CQV_CANARY("highest width of the range");
  CQV_CANARY("bitunpack8_32 returns");
}

/* harness-is-contract lemma on the documented domain 0..32: symbolic width, exact-size input,
 * loops unwound completely; also the 8 specialised routines with their exact input sizes */
void h_unpack8_safe_0_32(void) {
  int bit_width = nondet_int();
  __CPROVER_assume(bit_width >= 0 && bit_width <= 32);
  uint8_t *in = malloc((size_t)bit_width);
  uint32_t *vals = malloc(8 * sizeof(uint32_t));
  __CPROVER_assume(in != NULL && vals != NULL);
  carquet_bitunpack8_32(in, bit_width, vals);
  unsigned k = nondet_unsigned();
  __CPROVER_assume(k < 8);
  __CPROVER_assert(bit_width == 0 || bit_width == 32 || vals[k] < ((uint32_t)1 << (bit_width & 31)), "decoded value fits the width");
  if (bit_width == 0) CQV_CANARY("safe: width 0");
  if (bit_width == 7) CQV_CANARY("safe: specialised width");
  if (bit_width == 32) CQV_CANARY("safe: width 32");
  CQV_CANARY("unpack8 safe harness end");
}

/* enforce carquet_bitpack8_32 (callee contract used by the group loop) */
void h_bitpack8_32(void) {
  int bit_width = nondet_int();
  __CPROVER_assume(bit_width >= CQV_P8_LO && bit_width <= CQV_P8_HI);
  uint32_t *vals = malloc(8 * sizeof(uint32_t));
  uint8_t *out = malloc((size_t)bit_width);
  __CPROVER_assume(out != NULL && vals != NULL);
  carquet_bitpack8_32(vals, bit_width, out);
  if (bit_width == CQV_P8_LO) CQV_CANARY("pack8 lowest width of the range");
  if (bit_width == CQV_P8_HI) CQV_CANARY("pack8 highest width of the range");
  CQV_CANARY("bitpack8_32 returns");
}

/* enforce the group loops */
void h_bitunpack_32(void) {
  const uint8_t *input = nondet_ptr();
  uint32_t *values = nondet_ptr();
  size_t count = nondet_size_t();
  int bit_width = nondet_int();
  size_t r = carquet_bitunpack_32(input, count, bit_width, values);
#if CQV_BW_LO == 0
  if (bit_width == 0 && count > 0) CQV_CANARY("unpack_32 width 0");
#endif
#if CQV_BW_HI > 0
  if ((count & 7) != 0 && bit_width != 0) CQV_CANARY("unpack_32 partial group");
  if ((count & 7) == 0 && count >= 16 && bit_width != 0) CQV_CANARY("unpack_32 whole groups only");
#endif
  CQV_CANARY("bitunpack_32 returns");
}

void h_bitpack_32(void) {
  const uint32_t *values = nondet_ptr();
  uint8_t *output = nondet_ptr();
  size_t count = nondet_size_t();
  int bit_width = nondet_int();
  size_t r = carquet_bitpack_32(values, count, bit_width, output);
#if CQV_BW_LO == 0
  if (bit_width == 0 && count > 0) CQV_CANARY("pack_32 width 0");
#endif
#if CQV_BW_HI > 0
  if ((count & 7) != 0 && bit_width != 0) CQV_CANARY("pack_32 partial group");
  if ((count & 7) == 0 && count >= 16 && bit_width != 0) CQV_CANARY("pack_32 whole groups only");
#endif
  CQV_CANARY("bitpack_32 returns");
}
