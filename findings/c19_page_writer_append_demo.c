/* C19 demonstration (genuine defect, repaired by the fix: commit named in known_findings.json):
 * carquet_page_writer_finalize / encode_levels ignored the result of carquet_buffer_append.  When the k-th
 * allocation made during finalize (or add_values) fails, the call still returned CARQUET_OK with a page that
 * lacks bytes (levels, values or the whole body) -- success with an effect different from the fault-free run.
 *
 * build+run (from the repo root, library built in _build):
 *   gcc -O1 -g -Iinclude -Isrc findings_demo.c _build/libcarquet.a -lz -lzstd -lm -lpthread -fopenmp \
 *       -Wl,--wrap=malloc -Wl,--wrap=realloc -Wl,--wrap=calloc -o demo && ./demo
 * exit 0: every injected failure is either reported (non-OK) or harmless (same bytes as the fault-free run);
 * exit 1: some call returned OK with different page bytes. */
#include <stdio.h>
#include <stdlib.h>
#include <string.h>
#include <stdint.h>
#include <carquet/carquet.h>

typedef struct carquet_page_writer carquet_page_writer_t;
carquet_page_writer_t *carquet_page_writer_create(carquet_physical_type_t, carquet_encoding_t, carquet_compression_t, int16_t, int16_t, int32_t);
void carquet_page_writer_destroy(carquet_page_writer_t *);
carquet_status_t carquet_page_writer_add_values(carquet_page_writer_t *, const void *, int64_t, const int16_t *, const int16_t *);
carquet_status_t carquet_page_writer_finalize(carquet_page_writer_t *, const uint8_t **, size_t *, int32_t *, int32_t *);

void *__real_malloc(size_t); void *__real_realloc(void *, size_t); void *__real_calloc(size_t, size_t);
static long g_count, g_fail_at;   /* g_fail_at == 0: never fail */
static int hit(void) { g_count++; return g_fail_at && g_count == g_fail_at; }
void *__wrap_malloc(size_t n) { return hit() ? NULL : __real_malloc(n); }
void *__wrap_realloc(void *p, size_t n) { return hit() ? NULL : __real_realloc(p, n); }
void *__wrap_calloc(size_t a, size_t b) { return hit() ? NULL : __real_calloc(a, b); }

#define N 2000
static int32_t vals[N];
static int16_t defs[N];

static int run(long fail_in_add, long fail_in_fin, uint8_t **out, size_t *outn, int *st_add, int *st_fin, long *allocs_add, long *allocs_fin) {
  g_fail_at = 0;
  carquet_page_writer_t *w = carquet_page_writer_create(CARQUET_PHYSICAL_INT32, CARQUET_ENCODING_PLAIN, CARQUET_COMPRESSION_UNCOMPRESSED, 1, 0, 0);
  if (!w) return -1;
  g_count = 0; g_fail_at = fail_in_add;
  *st_add = carquet_page_writer_add_values(w, vals, N, defs, NULL);
  *allocs_add = g_count;
  const uint8_t *pd = NULL; size_t pn = 0; int32_t us = 0, cs = 0;
  g_count = 0; g_fail_at = fail_in_fin;
  *st_fin = (*st_add == CARQUET_OK) ? carquet_page_writer_finalize(w, &pd, &pn, &us, &cs) : -1;
  *allocs_fin = g_count;
  g_fail_at = 0;
  *out = NULL; *outn = 0;
  if (*st_fin == CARQUET_OK) { *out = __real_malloc(pn ? pn : 1); memcpy(*out, pd, pn); *outn = pn; }
  carquet_page_writer_destroy(w);
  return 0;
}

int main(void) {
  int nn = 0;
  for (int i = 0; i < N; i++) { defs[i] = (i % 7) != 0; if (defs[i]) vals[nn++] = i * 2654435761u; }
  uint8_t *ref; size_t refn; int sa, sf; long aa, af;
  run(0, 0, &ref, &refn, &sa, &sf, &aa, &af);
  if (sa != CARQUET_OK || sf != CARQUET_OK) { printf("fault-free run failed\n"); return 2; }
  printf("fault-free: page of %zu bytes; %ld allocations in add_values, %ld in finalize\n", refn, aa, af);
  int bad = 0;
  for (int phase = 0; phase < 2; phase++) {
    long K = phase == 0 ? aa : af;
    for (long k = 1; k <= K; k++) {
      uint8_t *o; size_t on; int a, f; long x, y;
      run(phase == 0 ? k : 0, phase == 1 ? k : 0, &o, &on, &a, &f, &x, &y);
      if (a == CARQUET_OK && f == CARQUET_OK && (on != refn || memcmp(o, ref, refn) != 0)) {
        printf("DEFECT: allocation #%ld in %s fails, add_values and finalize both return OK, page has %zu bytes instead of %zu\n",
               k, phase == 0 ? "add_values" : "finalize", on, refn);
        bad++;
      }
      free(o);
    }
  }
  printf(bad ? "C19 VIOLATED: %d silent failures\n" : "ok: every allocation failure is reported or harmless (%d)\n", bad);
  return bad ? 1 : 0;
}
