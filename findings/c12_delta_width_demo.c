/* C12: DELTA_BINARY_PACKED mini-blocks of width 33..63 (not a multiple of 8).
 * Independent decoder/encoder written from Encodings.md (bit-packed LSB first at the listed width, every width 0..64).
 * Direction 1: carquet encoder -> spec decoder.  Direction 2: spec encoder -> carquet decoder. */
#include <stdint.h>
#include <stdio.h>
#include <stdlib.h>
#include <string.h>
#include <carquet/error.h>
carquet_status_t carquet_delta_encode_int32(const int32_t*, int32_t, uint8_t*, size_t, size_t*);
carquet_status_t carquet_delta_decode_int32(const uint8_t*, size_t, int32_t*, int32_t, size_t*);
carquet_status_t carquet_delta_encode_int64(const int64_t*, int32_t, uint8_t*, size_t, size_t*);
carquet_status_t carquet_delta_decode_int64(const uint8_t*, size_t, int64_t*, int32_t, size_t*);

static size_t rd_uleb(const uint8_t *p, uint64_t *v) { size_t i = 0; int sh = 0; *v = 0; for (;;) { uint8_t b = p[i++]; *v |= (uint64_t)(b & 0x7F) << sh; if (!(b & 0x80)) return i; sh += 7; } }
static size_t wr_uleb(uint8_t *p, uint64_t v) { size_t i = 0; while (v >= 0x80) { p[i++] = (uint8_t)(v | 0x80); v >>= 7; } p[i++] = (uint8_t)v; return i; }
static int64_t unzz(uint64_t u) { return (int64_t)((u >> 1) ^ (0 - (u & 1))); }
static uint64_t zz(int64_t n) { return ((uint64_t)n << 1) ^ (uint64_t)(n >> 63); }
static uint64_t getbits(const uint8_t *p, size_t bit, unsigned w) { uint64_t v = 0; for (unsigned j = 0; j < w; j++, bit++) v |= (uint64_t)((p[bit >> 3] >> (bit & 7)) & 1) << j; return v; }
static void putbits(uint8_t *p, size_t bit, unsigned w, uint64_t v) { for (unsigned j = 0; j < w; j++, bit++) if ((v >> j) & 1) p[bit >> 3] |= (uint8_t)(1u << (bit & 7)); }

/* spec decoder; returns bytes consumed, 0 on truncated input */
static size_t spec_decode(const uint8_t *p, size_t n, int64_t *out, size_t want) {
  uint64_t bs, mb, total, first; size_t pos = 0;
  pos += rd_uleb(p + pos, &bs); pos += rd_uleb(p + pos, &mb); pos += rd_uleb(p + pos, &total); pos += rd_uleb(p + pos, &first);
  size_t per = bs / mb, got = 0; int64_t last = unzz(first);
  if (want) out[got++] = last;
  while (got < want && got < total) {
    uint64_t u; pos += rd_uleb(p + pos, &u); int64_t mind = unzz(u);
    const uint8_t *widths = p + pos; pos += mb;
    for (size_t m = 0; m < mb && got < want && got < total; m++) {
      unsigned w = widths[m];
      if (pos + per * w / 8 > n) return 0;
      for (size_t i = 0; i < per && got < want && got < total; i++) {
        last = (int64_t)((uint64_t)last + (uint64_t)mind + getbits(p + pos, i * w, w)); out[got++] = last;
      }
      pos += per * w / 8;
    }
  }
  return pos;
}
/* spec encoder for <= 129 values: block 128, 4 mini-blocks of 32, minimal widths, true bit packing */
static size_t spec_encode(const int64_t *v, size_t n, uint8_t *p) {
  size_t pos = 0; pos += wr_uleb(p + pos, 128); pos += wr_uleb(p + pos, 4); pos += wr_uleb(p + pos, n); pos += wr_uleb(p + pos, zz(v[0]));
  if (n < 2) return pos;
  int64_t d[128]; size_t nd = n - 1; int64_t mind = 0;
  for (size_t i = 0; i < nd; i++) { d[i] = (int64_t)((uint64_t)v[i + 1] - (uint64_t)v[i]); if (i == 0 || d[i] < mind) mind = d[i]; }
  pos += wr_uleb(p + pos, zz(mind));
  uint8_t *widths = p + pos; pos += 4;
  for (size_t m = 0; m < 4; m++) {
    uint64_t mx = 0; for (size_t i = m * 32; i < m * 32 + 32 && i < nd; i++) { uint64_t a = (uint64_t)d[i] - (uint64_t)mind; if (a > mx) mx = a; }
    unsigned w = 0; while (w < 64 && (mx >> w)) w++;
    widths[m] = (uint8_t)w;
    if (m * 32 >= nd) { widths[m] = 0; continue; }
    memset(p + pos, 0, 4 * w);
    for (size_t i = m * 32; i < m * 32 + 32 && i < nd; i++) putbits(p + pos, (i - m * 32) * w, w, (uint64_t)d[i] - (uint64_t)mind);
    pos += 4 * w;
  }
  return pos;
}
int main(void) {
  int bad = 0;
  /* ---- INT32 extreme values: deltas +-(2^32-1), adjusted max 2^33-2 => width 33 ---- */
  int32_t v32[4] = {INT32_MIN, INT32_MAX, INT32_MIN, 7};
  uint8_t buf[1024]; size_t n = 0;
  carquet_delta_encode_int32(v32, 4, buf, sizeof buf, &n);
  size_t hdr = 0; uint64_t t; hdr += rd_uleb(buf + hdr, &t); hdr += rd_uleb(buf + hdr, &t); hdr += rd_uleb(buf + hdr, &t); hdr += rd_uleb(buf + hdr, &t);
  size_t md = rd_uleb(buf + hdr, &t);
  unsigned w = buf[hdr + md];
  printf("carquet int32 stream: %zu bytes, width byte of mini-block 0 = %u, payload = %zu bytes (spec: 32*%u/8 = %u)\n",
         n, w, n - hdr - md - 4, w, 4 * w);
  int64_t s[4] = {0};
  size_t used = spec_decode(buf, n, s, 4);
  printf("spec decoder on carquet bytes: used=%zu values = %lld %lld %lld %lld (expected %d %d %d %d)\n", used,
         (long long)s[0], (long long)s[1], (long long)s[2], (long long)s[3], v32[0], v32[1], v32[2], v32[3]);
  for (int i = 0; i < 4; i++) if (s[i] != v32[i]) bad = 1;
  /* ---- spec encoder -> carquet decoder ---- */
  int64_t v64[4] = {INT32_MIN, INT32_MAX, INT32_MIN, 7};
  uint8_t sb[1024]; size_t sn = spec_encode(v64, 4, sb);
  int32_t back[4] = {0}; size_t cu = 0;
  carquet_status_t st = carquet_delta_decode_int32(sb, sn, back, 4, &cu);
  printf("carquet decoder on spec bytes (%zu bytes): status=%d values = %d %d %d %d\n", sn, st, back[0], back[1], back[2], back[3]);
  if (st != CARQUET_OK) bad = 1; else for (int i = 0; i < 4; i++) if (back[i] != v32[i]) bad = 1;
  /* ---- control: width that is a multiple of 8 interoperates (int64, adjusted max needs 40 bits) ---- */
  int64_t c64[3] = {0, (int64_t)1 << 39, ((int64_t)1 << 39) + 5};
  carquet_delta_encode_int64(c64, 3, buf, sizeof buf, &n);
  int64_t cs[3] = {0}; spec_decode(buf, n, cs, 3);
  printf("control width 40: spec decoder gives %lld %lld %lld (%s)\n", (long long)cs[0], (long long)cs[1], (long long)cs[2],
         (cs[0] == c64[0] && cs[1] == c64[1] && cs[2] == c64[2]) ? "equal" : "DIFFERENT");
  printf(bad ? "RESULT: carquet's width-33 mini-block is not the Parquet bit-packed layout\n" : "RESULT: interoperable\n");
  return bad;
}
