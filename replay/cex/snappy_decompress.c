/* C08 replay: carquet_snappy_decompress on exact-size heap buffers. */
#include "cex.h"
#include <carquet/error.h>
carquet_status_t carquet_snappy_decompress(const uint8_t*, size_t, uint8_t*, size_t, size_t*);
CEX_MAIN {
  CEX_BYTES(in, 12);
  CEX_U64(src_size);
  CEX_U64(dst_cap);
  CEX_ASSUME(src_size <= 12 && dst_cap <= 24);
  uint8_t *src = malloc(src_size ? src_size : 1);
  uint8_t *dst = malloc(dst_cap ? dst_cap : 1);
  CEX_ASSUME(src && dst);
#ifndef CEX_CBMC
  /* exact-size objects so that ASan sees any over-read/over-write */
  free(src); src = malloc(src_size); free(dst); dst = malloc(dst_cap);
#endif
  for (size_t i = 0; i < 12; i++) if (i < src_size) src[i] = in[i];
  size_t out = 0;
  carquet_status_t st = carquet_snappy_decompress(src, src_size, dst, dst_cap, &out);
  CEX_CHECK(st != CARQUET_OK || out <= dst_cap, "reported size exceeds capacity");
  free(src); free(dst);
}
