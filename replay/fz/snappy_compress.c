/* C09/C10 native replay for the Snappy compressor: real carquet_snappy_compress on exact-size heap
 * buffers (ASan/UBSan), then (a) size bound, (b) the independent spec decoder written from the format
 * description recovers the input, (c) carquet's own decoder recovers it, (d) a capacity one below the
 * bound is refused without a write.  First input byte selects a stretch factor so that inputs longer
 * than 64 KiB (hash-table offsets wrap) are reached from short fuzz inputs. */
#include "fz/fz.h"
#include "../specs/snappy_spec.h"
#include <carquet/error.h>
carquet_status_t carquet_snappy_compress(const uint8_t*, size_t, uint8_t*, size_t, size_t*);
carquet_status_t carquet_snappy_decompress(const uint8_t*, size_t, uint8_t*, size_t, size_t*);
size_t carquet_snappy_compress_bound(size_t);
int LLVMFuzzerTestOneInput(const uint8_t *data, size_t size) {
  if (size < 1) return 0;
  unsigned rep = data[0] & 3;            /* 0: as is, 1: x16, 2: x1024, 3: x70000/len (just over 64 KiB) */
  const uint8_t *body = data + 1; size_t blen = size - 1;
  size_t n = blen;
  if (blen) { if (rep == 1) n = blen * 16; else if (rep == 2) n = blen * 1024; else if (rep == 3) n = 70000 + blen; }
  uint8_t *src = (uint8_t *)malloc(n ? n : 1);
  for (size_t i = 0; i < n; i++) src[i] = (uint8_t)(body[i % blen] + ((rep == 3 && (i / blen) & 1) ? (uint8_t)(i >> 8) : 0));
  if (!n) { free(src); src = (uint8_t *)malloc(0); }
  size_t bound = carquet_snappy_compress_bound(n);
  uint8_t *dst = (uint8_t *)malloc(bound);
  size_t out = (size_t)-1;
  carquet_status_t st = carquet_snappy_compress(src, n, dst, bound, &out);
  PROPERTY(st == CARQUET_OK, "compress into a buffer of the advertised bound failed");
  PROPERTY(out <= bound, "reported size exceeds the bound");
  uint8_t *back = (uint8_t *)malloc(n ? n : 1);
  size_t got = (size_t)-1;
  int rc = snappy_spec_decode(dst, out, back, n, &got);
  PROPERTY(rc == 0, "independent Snappy decoder rejects the stream");
  PROPERTY(got == n && (n == 0 || memcmp(back, src, n) == 0), "independent Snappy decoder does not recover the input");
  memset(back, 0, n ? n : 1); got = (size_t)-1;
  st = carquet_snappy_decompress(dst, out, back, n, &got);
  PROPERTY(st == CARQUET_OK && got == n && (n == 0 || memcmp(back, src, n) == 0), "carquet decoder does not recover the input");
  if (bound > 0) {
    uint8_t *small = (uint8_t *)malloc(bound - 1);
    memset(small, 0xA5, bound - 1);
    size_t o2 = 0;
    st = carquet_snappy_compress(src, n, small, bound - 1, &o2);
    PROPERTY(st == CARQUET_ERROR_COMPRESSION, "capacity below the bound not refused");
    for (size_t i = 0; i < bound - 1; i++) PROPERTY(small[i] == 0xA5, "refused call wrote to the destination");
    free(small);
  }
  free(src); free(dst); free(back);
  return 0;
}
