/* libFuzzer replay for the RLE / bit-packed hybrid decoders (C08): exact-size heap buffers so ASan sees
 * every out-of-range access; PROPERTY = reported counts/sizes within the declared capacity/input.
 * byte 0: bit width (mod 33; widths > 32 are a known undefined-shift finding and would mask everything else)
 * byte 1: declared output capacity (values), byte 2: entry point, rest: input bytes. */
#include "fz/fz.h"
#include "encoding/rle.h"
int LLVMFuzzerTestOneInput(const uint8_t *data, size_t size) {
  if (size < 3) return 0;
  int bw = data[0] % 33;
  int64_t cap = data[1];
#ifdef RLE_FZ_ONLY
  int mode = RLE_FZ_ONLY;
#else
  int mode = data[2] % 3; if (mode == 2) mode = 3;   /* prefixed entry: replay/fz/rle_levels_prefixed.c */
#endif
  size_t n = size - 3;
  uint8_t *src = fz_dup(data + 3, n);
  if (mode == 0) {
    uint32_t *out = (uint32_t *)malloc((size_t)cap * 4);
    int64_t r = carquet_rle_decode_all(src, n, bw, out, cap);
    PROPERTY(r >= 0 && r <= cap, "decode_all: returned count exceeds the declared capacity");
    free(out);
  } else if (mode == 1) {
    int16_t *out = (int16_t *)malloc((size_t)cap * 2);
    int64_t r = carquet_rle_decode_levels(src, n, bw, out, cap);
    PROPERTY(r >= 0 && r <= cap, "decode_levels: returned count exceeds the declared capacity");
    free(out);
  } else if (mode == 2) {
    int16_t *out = (int16_t *)malloc((size_t)cap * 2);
    size_t used = 0;
    int64_t r = carquet_rle_decode_levels_prefixed(src, n, bw, out, cap, &used);
    PROPERTY(r >= -1 && r <= cap, "decode_levels_prefixed: returned count exceeds the declared capacity");
    PROPERTY(used <= n, "decode_levels_prefixed: bytes_consumed exceeds input_size");
    PROPERTY(r < 0 || used >= 4, "decode_levels_prefixed: success with bytes_consumed < 4");
    free(out);
  } else {
    carquet_rle_decoder_t dec;
    carquet_rle_decoder_init(&dec, src, n, bw);
    uint32_t *out = (uint32_t *)malloc((size_t)cap * 4);
    int64_t total = 0;
    for (int step = 0; step < 64 && carquet_rle_decoder_has_next(&dec); step++) {
      int64_t r;
      if (step % 3 == 0) { r = carquet_rle_decoder_get_batch(&dec, out, cap); PROPERTY(r >= 0 && r <= cap, "get_batch: count exceeds request"); }
      else if (step % 3 == 1) { r = carquet_rle_decoder_skip(&dec, cap / 2); PROPERTY(r >= 0 && r <= cap / 2, "skip: count exceeds request"); }
      else { (void)carquet_rle_decoder_get(&dec); r = 1; }
      PROPERTY(dec.pos <= dec.size, "decoder position beyond the input");
      PROPERTY(dec.bitpack_pos >= 0 && dec.bitpack_pos <= dec.bitpack_count && dec.bitpack_count <= 8, "bit-pack cursor out of range");
      total += r;
      if (r == 0 && cap > 1) break;
    }
    free(out);
  }
  free(src);
  return 0;
}
