/* libFuzzer replay (C12): an independent encoder written from Encodings.md emits legal streams, including
 * forms carquet's own encoder never produces (zero-length RLE runs WITH their value bytes, zero-group
 * bit-packed runs, multi-group bit-packed runs); carquet's decoders must return the original values.
 * byte 0: bit width (1 + mod 32), then op bytes: op&3 = 0 RLE run, 1 bit-packed run, 2 zero-length RLE run,
 * 3 zero-group bit-packed run; (op>>2)&7 = length parameter; following byte = value seed. */
#include "fz/fz.h"
#include "encoding/rle.h"
static uint8_t S[8192]; static size_t sn;
static uint32_t V[8192]; static int64_t vn;
static void uleb(uint32_t v) { while (v >= 0x80) { S[sn++] = (uint8_t)(v | 0x80); v >>= 7; } S[sn++] = (uint8_t)v; }
static void le_value(uint32_t v, int w) { for (int i = 0; i < (w + 7) / 8; i++) S[sn++] = (uint8_t)(v >> (8 * i)); }
static void group(const uint32_t *g, int w) {          /* 8 values, LSB first */
  uint8_t out[32] = {0};
  for (int i = 0; i < 8; i++) for (int b = 0; b < w; b++) if ((g[i] >> b) & 1) { int bit = i * w + b; out[bit >> 3] |= (uint8_t)(1u << (bit & 7)); }
  for (int i = 0; i < w; i++) S[sn++] = out[i];
}
int LLVMFuzzerTestOneInput(const uint8_t *data, size_t size) {
  if (size < 1) return 0;
  int w = 1 + data[0] % 32;
  uint32_t mask = w >= 32 ? 0xFFFFFFFFu : ((1u << w) - 1u);
  sn = 0; vn = 0;
  for (size_t i = 1; i + 1 < size && sn < 4096 && vn < 4096; i += 2) {
    int op = data[i] & 3, len = (data[i] >> 2) & 7;
    uint32_t seed = (uint32_t)data[i + 1] * 0x9E3779B1u;
    if (op == 0) { uleb((uint32_t)(len + 1) << 1); le_value(seed & mask, w); for (int k = 0; k <= len; k++) V[vn++] = seed & mask; }
    else if (op == 1) { int groups = 1 + (len & 3); uleb(((uint32_t)groups << 1) | 1);
      for (int g = 0; g < groups; g++) { uint32_t gv[8]; for (int k = 0; k < 8; k++) { gv[k] = (seed = seed * 1664525u + 1013904223u) & mask; V[vn++] = gv[k]; } group(gv, w); } }
    else if (op == 2) { uleb(0); le_value(seed & mask, w); }       /* rle-run of length 0: header + repeated-value */
    else { uleb(1); }                                              /* bit-packed run with 0 groups */
  }
  uint8_t *src = fz_dup(S, sn);
  uint32_t *out = (uint32_t *)malloc((size_t)(vn ? vn : 1) * 4);
  int64_t got = carquet_rle_decode_all(src, sn, w, out, vn);
  PROPERTY(got == vn, "decode_all returns a different number of values than the specification stream holds");
  for (int64_t i = 0; i < vn; i++) PROPERTY(out[i] == V[i], "decode_all differs from the values of the specification stream");
  if (w <= 15) {
    int16_t *lv = (int16_t *)malloc((size_t)(vn ? vn : 1) * 2);
    got = carquet_rle_decode_levels(src, sn, w, lv, vn);
    PROPERTY(got == vn, "decode_levels returns a different number of values than the specification stream holds");
    for (int64_t i = 0; i < vn; i++) PROPERTY((uint32_t)lv[i] == V[i], "decode_levels differs from the values of the specification stream");
    free(lv);
  }
  free(out); free(src);
  return 0;
}
