/* libFuzzer replay harness: parquet_parse_page_header on an exact-size heap copy (real thrift_decode.c) */
#include "fz/fz.h"
#include "thrift/parquet_types.h"
int LLVMFuzzerTestOneInput(const uint8_t *data, size_t size) {
  uint8_t *src = fz_dup(data, size);
  parquet_page_header_t h;
  size_t br = (size_t)-1;
  carquet_error_t err;
  memset(&err, 0, sizeof err);
  carquet_status_t st = parquet_parse_page_header(src, size, &h, &br, &err);
  PROPERTY(st != CARQUET_OK || br <= size, "bytes_read exceeds the input size");
  PROPERTY(st != CARQUET_OK || br >= 1, "success without consuming the STOP byte");
  free(src);
  return 0;
}
