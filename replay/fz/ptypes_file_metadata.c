/* libFuzzer replay harness: parquet_parse_file_metadata on an exact-size heap copy, real arena and decoder.
 * On success the counts must be consistent with the arrays (non-negative; array present when count > 0)
 * and every element must be readable (ASan checks the walk). */
#include "fz/fz.h"
#include "thrift/parquet_types.h"
static volatile uint64_t sink;
int LLVMFuzzerTestOneInput(const uint8_t *data, size_t size) {
  uint8_t *src = fz_dup(data, size);
  carquet_arena_t arena;
  if (carquet_arena_init(&arena) != CARQUET_OK) { free(src); return 0; }
  parquet_file_metadata_t md;
  carquet_error_t err;
  memset(&err, 0, sizeof err);
  carquet_status_t st = parquet_parse_file_metadata(src, size, &arena, &md, &err);
  if (st == CARQUET_OK) {
    PROPERTY(md.num_schema_elements >= 0 && md.num_row_groups >= 0 && md.num_key_value >= 0, "negative count");
    PROPERTY(md.num_schema_elements == 0 || md.schema != NULL, "schema count without array");
    PROPERTY(md.num_row_groups == 0 || md.row_groups != NULL, "row group count without array");
    PROPERTY(md.num_key_value == 0 || md.key_value_metadata != NULL, "key/value count without array");
    for (int32_t i = 0; i < md.num_schema_elements; i++) {
      sink += (uint64_t)md.schema[i].num_children;
      if (md.schema[i].name) sink += strlen(md.schema[i].name);
    }
    for (int32_t i = 0; i < md.num_row_groups; i++) {
      const parquet_row_group_t *rg = &md.row_groups[i];
      PROPERTY(rg->num_columns >= 0, "negative column count");
      for (int32_t c = 0; c < rg->num_columns; c++) {
        const parquet_column_metadata_t *m = &rg->columns[c].metadata;
        if (!rg->columns[c].has_metadata) continue;
        PROPERTY(m->num_encodings >= 0 && m->path_len >= 0 && m->num_key_value >= 0 && m->num_encoding_stats >= 0, "negative list count");
        for (int32_t k = 0; k < m->num_encodings; k++) sink += (uint64_t)m->encodings[k];
        for (int32_t k = 0; k < m->path_len; k++) if (m->path_in_schema[k]) sink += strlen(m->path_in_schema[k]);
        for (int32_t k = 0; k < m->num_encoding_stats; k++) sink += (uint64_t)m->encoding_stats[k].count;
        if (m->has_statistics && m->statistics.min_value)
          for (int32_t k = 0; k < m->statistics.min_value_len; k++) sink += m->statistics.min_value[k];
      }
    }
    for (int32_t i = 0; i < md.num_key_value; i++) if (md.key_value_metadata[i].key) sink += strlen(md.key_value_metadata[i].key);
  }
  carquet_arena_destroy(&arena);
  free(src);
  return 0;
}
