/* C08 replay: DELTA_BINARY_PACKED decoders of the real delta.c on arbitrary bytes.
 * input: byte 0 = number of values requested (0..255), bit 0 of byte 1 = int64 variant, rest = stream.
 * exact-size heap copies: ASan sees every read outside the input and every write outside the output. */
#include "fz/fz.h"
#include <carquet/error.h>
carquet_status_t carquet_delta_decode_int32(const uint8_t*, size_t, int32_t*, int32_t, size_t*);
carquet_status_t carquet_delta_decode_int64(const uint8_t*, size_t, int64_t*, int32_t, size_t*);
int LLVMFuzzerTestOneInput(const uint8_t *data, size_t size) {
  if (size < 2) return 0;
  int32_t num = data[0];
  int wide = data[1] & 1;
  size_t n = size - 2;
  uint8_t *src = fz_dup(data + 2, n);
  size_t used = 0;
  carquet_status_t st;
  if (wide) {
    int64_t *out = (int64_t *)malloc((size_t)num * sizeof(int64_t));
    st = carquet_delta_decode_int64(src, n, out, num, &used);
    free(out);
  } else {
    int32_t *out = (int32_t *)malloc((size_t)num * sizeof(int32_t));
    st = carquet_delta_decode_int32(src, n, out, num, &used);
    free(out);
  }
  PROPERTY(st != CARQUET_OK || used <= n, "bytes_consumed exceeds the input size");
  free(src);
  return 0;
}
