/* Fuzz replay for the PLAIN decoders on the real sources.  byte 0 = type, byte 1 = count selector
 * (small count, or 2^62 + small / 2^64/12 style counts that wrap the size computation), rest = input. */
#include "fz/fz.h"
#include <carquet/types.h>
#include <carquet/error.h>
int64_t carquet_decode_plain(const uint8_t*, size_t, carquet_physical_type_t, int32_t, void*, int64_t);
int LLVMFuzzerTestOneInput(const uint8_t *data, size_t size) {
  if (size < 3) return 0;
  int type = data[0] & 7;
  int sel = data[1];
  int32_t tl = (int8_t)data[2];
  data += 3; size -= 3;
  static const size_t W[8] = {1, 4, 8, 12, 4, 8, 16, 1};
  size_t w = (type == 7) ? (size_t)(tl > 0 ? tl : 1) : W[type];
  int64_t small = sel & 31;
  int64_t count = small;
  if (sel & 0x40) count = (int64_t)(((uint64_t)1 << 62) + (uint64_t)small);      /* 4*count and 8*count wrap */
  else if (sel & 0x80) count = -small - 1;
  uint8_t *in = fz_dup(data, size);
  /* the output has exactly `small` elements: a decoder that is given more input than count*width may not touch more */
  uint8_t *out = malloc(small * w ? small * w : 1);
  int64_t r = carquet_decode_plain(in, size, (carquet_physical_type_t)type, tl, out, count);
  PROPERTY(r == -1 || (r >= 0 && (uint64_t)r <= size), "consumed bytes exceed the input size");
  PROPERTY(r == -1 || count >= 0, "negative count accepted");
  if (type != 0 && type != 6)
    PROPERTY(r == -1 || (unsigned __int128)count * w == (unsigned __int128)r, "success although count*width != bytes consumed (size computation wrapped)");
  free(in); free(out);
  return 0;
}
