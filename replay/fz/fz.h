/* helpers for libFuzzer replay harnesses: exact-size heap copies so that ASan sees every
 * out-of-bounds access; PROPERTY() aborts when the stated postcondition is violated. */
#ifndef FZ_H
#define FZ_H
#include <stddef.h>
#include <stdint.h>
#include <stdio.h>
#include <stdlib.h>
#include <string.h>
static inline uint8_t *fz_dup(const uint8_t *p, size_t n) {
  uint8_t *r = (uint8_t *)malloc(n ? n : 1);
  if (n) memcpy(r, p, n);
  if (!n) { free(r); r = (uint8_t *)malloc(0); }
  return r;
}
#define PROPERTY(c, msg) do { if (!(c)) { fprintf(stderr, "PROPERTY VIOLATED: %s\n", msg); abort(); } } while (0)
#endif
