/* Fuzz replay for the C04 page-load jobs: the input bytes are presented as a mapped file region
 * (exact-size heap block) to the real carquet_read_next_page -> load_next_page_mmap path of
 * src/reader/page_reader.c.  The column reader is set up as carquet_reader_get_column does.
 * byte 0: bits 0-2 physical type, bit 3 verify_checksums, bit 4 dictionary page at offset 0,
 *         bits 5-6 codec (0 none, 1 snappy, 2 gzip->lz4 raw, 3 zstd), bit 7 max_def_level=1
 * byte 1: data_page_offset (0..255);  rest: the file. */
#include "fz/fz.h"
#include <carquet/carquet.h>
#include "reader/reader_internal.h"
void carquet_column_reader_free(carquet_column_reader_t *reader);
int LLVMFuzzerTestOneInput(const uint8_t *data, size_t size) {
  if (size < 2) return 0;
  uint8_t f = data[0];
  size_t n = size - 2;
  uint8_t *map = fz_dup(data + 2, n);
  carquet_reader_t *fr = (carquet_reader_t *)calloc(1, sizeof *fr);
  fr->mmap_data = map; fr->file_size = n; fr->options.verify_checksums = (f >> 3) & 1; fr->is_open = true;
  parquet_column_chunk_t *chunk = (parquet_column_chunk_t *)calloc(1, sizeof *chunk);
  static const carquet_compression_t codecs[4] = { CARQUET_COMPRESSION_UNCOMPRESSED, CARQUET_COMPRESSION_SNAPPY,
                                                   CARQUET_COMPRESSION_LZ4_RAW, CARQUET_COMPRESSION_ZSTD };
  chunk->has_metadata = true;
  chunk->metadata.type = (carquet_physical_type_t)(f & 7);
  chunk->metadata.codec = codecs[(f >> 5) & 3];
  chunk->metadata.num_values = 64;
  chunk->metadata.data_page_offset = data[1];
  chunk->metadata.has_dictionary_page_offset = (f >> 4) & 1;
  chunk->metadata.dictionary_page_offset = 0;
  carquet_column_reader_t *cr = (carquet_column_reader_t *)calloc(1, sizeof *cr);
  cr->file_reader = fr; cr->chunk = chunk; cr->col_meta = &chunk->metadata;
  cr->type = chunk->metadata.type; cr->type_length = 4; cr->max_def_level = (f >> 7) & 1;
  cr->values_remaining = 64; cr->data_start_offset = data[1];
  enum { MAXV = 64 };
  uint8_t *values = (uint8_t *)malloc(MAXV * 16);
  int16_t *def = (int16_t *)malloc(MAXV * 2), *rep = (int16_t *)malloc(MAXV * 2);
  int64_t got = 0;
  carquet_error_t err = CARQUET_ERROR_INIT;
  for (int round = 0; round < 2; round++) {
    carquet_status_t st = carquet_read_next_page(cr, values, MAXV, def, rep, &got, &err);
    if (st != CARQUET_OK) { PROPERTY(err.code != CARQUET_OK, "failure without an error code"); break; }
    PROPERTY(got >= 0 && got <= MAXV, "values_read outside [0, max_values]");
  }
  carquet_column_reader_free(cr);
  free(values); free(def); free(rep); free(chunk); free(fr); free(map);
  return 0;
}
