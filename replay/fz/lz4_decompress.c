/* libFuzzer + ASan/UBSan replay of C08 for carquet_lz4_decompress on the real sources:
 * first byte = destination capacity, rest = compressed input (exact-size heap copies). */
#include "fz/fz.h"
#include <carquet/error.h>
carquet_status_t carquet_lz4_decompress(const uint8_t*, size_t, uint8_t*, size_t, size_t*);
int LLVMFuzzerTestOneInput(const uint8_t *data, size_t size) {
  if (size < 1) return 0;
  size_t cap = data[0];
  uint8_t *src = fz_dup(data + 1, size - 1);
  uint8_t *dst = (uint8_t *)malloc(cap);
  size_t out = 0;
  carquet_status_t st = carquet_lz4_decompress(src, size - 1, dst, cap, &out);
  PROPERTY(st != CARQUET_OK || out <= cap, "reported size exceeds capacity");
  free(src); free(dst);
  return 0;
}
