/* Fuzz replay for carquet_dictionary_decode_{int32,int64,float,double} on the real sources:
 * byte 0 selects the type, byte 1 = dict_count, byte 2 = output_count, byte 3 = dictionary bytes,
 * rest = dictionary bytes followed by the index stream (bit-width byte + RLE hybrid). */
#include "fz/fz.h"
#include <carquet/error.h>
carquet_status_t carquet_dictionary_decode_int32(const uint8_t*, size_t, int32_t, const uint8_t*, size_t, int32_t*, int64_t);
carquet_status_t carquet_dictionary_decode_int64(const uint8_t*, size_t, int32_t, const uint8_t*, size_t, int64_t*, int64_t);
carquet_status_t carquet_dictionary_decode_float(const uint8_t*, size_t, int32_t, const uint8_t*, size_t, float*, int64_t);
carquet_status_t carquet_dictionary_decode_double(const uint8_t*, size_t, int32_t, const uint8_t*, size_t, double*, int64_t);
int LLVMFuzzerTestOneInput(const uint8_t *data, size_t size) {
  if (size < 5) return 0;
  int which = data[0] & 3;
  int32_t dict_count = (int8_t)data[1];
  int64_t n = data[2] & 15;
  size_t dict_bytes = data[3];
  data += 4; size -= 4;
  if (dict_bytes > size - 1) dict_bytes = size - 1;
  /* bit widths > 32 hit an undefined shift inside the RLE decoder (another family's obligation): not replayed here */
  if (data[dict_bytes] > 32) return 0;
  uint8_t *dict = fz_dup(data, dict_bytes);
  uint8_t *idx = fz_dup(data + dict_bytes, size - dict_bytes);
  size_t w = (which == 0 || which == 2) ? 4 : 8;
  void *out = malloc(n * w ? n * w : 1);
  switch (which) {
    case 0: carquet_dictionary_decode_int32(dict, dict_bytes, dict_count, idx, size - dict_bytes, out, n); break;
    case 1: carquet_dictionary_decode_int64(dict, dict_bytes, dict_count, idx, size - dict_bytes, out, n); break;
    case 2: carquet_dictionary_decode_float(dict, dict_bytes, dict_count, idx, size - dict_bytes, out, n); break;
    default: carquet_dictionary_decode_double(dict, dict_bytes, dict_count, idx, size - dict_bytes, out, n); break;
  }
  free(dict); free(idx); free(out);
  return 0;
}
