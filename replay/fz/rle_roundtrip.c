/* libFuzzer replay for the RLE hybrid encoder (C11): decode(encode(v)) == v on the real sources.
 * byte 0: bit width (mod 33); following bytes: run description pairs (value byte, run length byte & 15)
 * so that short inputs produce the run structures that matter (literal groups next to long runs). */
#include "fz/fz.h"
#include "encoding/rle.h"
int LLVMFuzzerTestOneInput(const uint8_t *data, size_t size) {
  if (size < 1) return 0;
  int bw = data[0] % 33;
  uint32_t mask = bw >= 32 ? 0xFFFFFFFFu : ((1u << bw) - 1u);
  static uint32_t v[4096], out[4096 + 8];
  int64_t n = 0;
  for (size_t i = 1; i + 1 < size && n + 16 < 4096; i += 2) {
    uint32_t val = ((uint32_t)data[i] * 0x01010101u) & mask;
    int len = data[i + 1] & 15;
    for (int k = 0; k < len; k++) v[n++] = val;
  }
  carquet_buffer_t buf;
  carquet_buffer_init(&buf);
  carquet_status_t st = carquet_rle_encode_all(v, n, bw, &buf);
  PROPERTY(st == CARQUET_OK, "encode_all failed without an allocation failure");
  uint8_t *enc = fz_dup(buf.data ? buf.data : (const uint8_t *)"", buf.size);
  int64_t got = carquet_rle_decode_all(enc, buf.size, bw, out, n);
  PROPERTY(got == n, "decode_all(encode_all(v)) returns a different number of values");
  for (int64_t i = 0; i < n; i++) PROPERTY(out[i] == v[i], "decode_all(encode_all(v)) != v");
  if (bw <= 15) {
    static int16_t lv[4096 + 8];
    got = carquet_rle_decode_levels(enc, buf.size, bw, lv, n);
    PROPERTY(got == n, "decode_levels(encode_all(v)) returns a different number of values");
    for (int64_t i = 0; i < n; i++) PROPERTY((uint32_t)lv[i] == v[i], "decode_levels(encode_all(v)) != v");
  }
  free(enc);
  carquet_buffer_destroy(&buf);
  return 0;
}
