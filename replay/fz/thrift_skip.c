/* C08/C13 replay: thrift_skip of the real thrift_decode.c on arbitrary bytes.
 * input[0] low nibble = wire type to skip, input[1..] = the decoder's input (exact-size heap copy).
 * Postconditions: cursor inside the input; on success the number of bytes consumed equals what an
 * independent compact-protocol reader (specs/thrift_spec.h) says one value of that type occupies. */
#include "fz/fz.h"
#include "../specs/thrift_spec.h"
#include "thrift/thrift_decode.h"
int LLVMFuzzerTestOneInput(const uint8_t *data, size_t size) {
  if (size < 1) return 0;
  int t = data[0] & 15;
  size_t n = size - 1;
  uint8_t *src = fz_dup(data + 1, n);
  thrift_decoder_t dec;
  thrift_decoder_init(&dec, src, n);
  thrift_skip(&dec, (thrift_type_t)t);
  PROPERTY(dec.reader.pos <= n, "cursor beyond the input");
  PROPERTY(dec.nesting_level >= 0 && dec.nesting_level <= THRIFT_MAX_NESTING, "nesting level out of range");
  if (dec.status == CARQUET_OK) {
    long want = spec_skip_value(src, n, t, 0, 0);
    if (want != (long)dec.reader.pos)
      fprintf(stderr, "type=%d consumed=%zu independent reader=%ld\n", t, dec.reader.pos, want);
    PROPERTY(want == (long)dec.reader.pos, "thrift_skip succeeded but consumed a different number of bytes than one value of that wire type occupies");
  }
  free(src);
  return 0;
}
