/* libFuzzer + ASan/UBSan replay of C09 for carquet_lz4_compress on the real sources:
 * first byte selects the destination capacity (bound, or something smaller), the rest is the input.
 * Checks: bound-sized buffer succeeds, reported size <= capacity and <= bound, and the output
 * decompresses (carquet's own decoder) back to the input. */
#include "fz/fz.h"
#include <carquet/error.h>
carquet_status_t carquet_lz4_compress(const uint8_t*, size_t, uint8_t*, size_t, size_t*);
carquet_status_t carquet_lz4_decompress(const uint8_t*, size_t, uint8_t*, size_t, size_t*);
size_t carquet_lz4_compress_bound(size_t);
int LLVMFuzzerTestOneInput(const uint8_t *data, size_t size) {
  if (size < 1) return 0;
  size_t n = size - 1;
  size_t bound = carquet_lz4_compress_bound(n);
  size_t cap = (data[0] & 1) ? bound : (size_t)data[0] * bound / 256;
  uint8_t *src = fz_dup(data + 1, n);
  uint8_t *dst = (uint8_t *)malloc(cap);
  size_t out = 0;
  carquet_status_t st = carquet_lz4_compress(src, n, dst, cap, &out);
  PROPERTY(cap < bound || st == CARQUET_OK, "bound-sized destination refused");
  PROPERTY(st != CARQUET_OK || (out <= cap && out <= bound), "reported size exceeds capacity or bound");
  if (st == CARQUET_OK) {
    uint8_t *back = (uint8_t *)malloc(n);
    size_t m = 0;
    carquet_status_t sd = carquet_lz4_decompress(dst, out, back, n, &m);
    PROPERTY(sd == CARQUET_OK && m == n && (n == 0 || memcmp(back, src, n) == 0), "round trip differs");
    free(back);
  }
  free(src); free(dst);
  return 0;
}
