/* libFuzzer replay for carquet_rle_decode_levels_prefixed only (see rle_decode.c) */
#define RLE_FZ_ONLY 2
#include "fz/rle_decode.c"
