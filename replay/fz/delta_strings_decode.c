/* C08 replay: DELTA_BYTE_ARRAY decoder of the real delta_strings.c on arbitrary bytes.
 * input: byte 0 = number of values (0..255), byte 1 = work buffer capacity, rest = stream. */
#include "fz/fz.h"
#include <carquet/error.h>
#include <carquet/types.h>
carquet_status_t carquet_delta_strings_decode(const uint8_t*, size_t, carquet_byte_array_t*, int32_t, uint8_t*, size_t, size_t*);
int LLVMFuzzerTestOneInput(const uint8_t *data, size_t size) {
  if (size < 2) return 0;
  int32_t num = data[0];
  size_t cap = data[1];
  size_t n = size - 2;
  uint8_t *src = fz_dup(data + 2, n);
  uint8_t *work = (uint8_t *)malloc(cap);
  carquet_byte_array_t *out = (carquet_byte_array_t *)malloc((size_t)num * sizeof(*out));
  size_t used = 0;
  carquet_status_t st = carquet_delta_strings_decode(src, n, out, num, work, cap, &used);
  if (st == CARQUET_OK) {
    PROPERTY(used <= n, "bytes_consumed exceeds the input size");
    unsigned sum = 0;
    for (int32_t i = 0; i < num; i++) {
      PROPERTY(out[i].length >= 0, "negative string length reported");
      PROPERTY(out[i].length == 0 || (out[i].data >= work && (size_t)(out[i].data - work) + (size_t)out[i].length <= cap),
               "string outside the work buffer");
      for (int32_t k = 0; k < out[i].length; k++) sum += out[i].data[k];
    }
    if (sum == 0xFFFFFFFFu) fprintf(stderr, "-");
  }
  free(out); free(work); free(src);
  return 0;
}
