/* One source, two uses:
 *  - under CBMC (-DCEX_CBMC) the declared inputs are nondeterministic, sizes bounded by the
 *    array lengths given here; cbmc --trace yields a concrete counterexample;
 *  - natively (clang -fsanitize=address,undefined) the same inputs are read from the file
 *    written by the driver from that trace, and the REAL /repo sources are executed.
 * Exit status natively: 0 = property held on this input, 1 = property violated (message on
 * stderr); a sanitizer report aborts with its own status. */
#ifndef CEX_H
#define CEX_H
#include <stddef.h>
#include <stdint.h>
#include <stdlib.h>
#include <string.h>
#ifdef CEX_CBMC
#define CEX_BYTES(name, N) uint8_t name[N]; { uint8_t cex_tmp_##name[N]; __CPROVER_array_copy(name, cex_tmp_##name); }
#define CEX_U64(name) uint64_t name = cex_nondet_u64()
#define CEX_I64(name) int64_t name = (int64_t)cex_nondet_u64()
#define CEX_ASSUME(c) __CPROVER_assume(c)
#define CEX_CHECK(c, msg) __CPROVER_assert(c, "cex: " msg)
#define CEX_MAIN void cex_main(void)
uint64_t cex_nondet_u64(void);
#else
#include <stdio.h>
static FILE *cex_f;
static int cex_find(const char *name, char *out, size_t cap) {
  char line[65536];
  rewind(cex_f);
  size_t n = strlen(name);
  while (fgets(line, sizeof line, cex_f)) {
    if (strncmp(line, name, n) == 0 && line[n] == '=') {
      size_t l = strlen(line + n + 1);
      while (l && (line[n + l] == '\n' || line[n + l] == '\r')) l--;
      if (l >= cap) l = cap - 1;
      memcpy(out, line + n + 1, l); out[l] = 0;
      return 1;
    }
  }
  out[0] = 0;
  return 0;
}
static void cex_bytes(const char *name, uint8_t *dst, size_t N) {
  static char hex[65536];
  memset(dst, 0, N);
  if (!cex_find(name, hex, sizeof hex)) return;
  for (size_t i = 0; i < N && hex[2 * i] && hex[2 * i + 1]; i++) {
    unsigned v; sscanf(hex + 2 * i, "%2x", &v); dst[i] = (uint8_t)v;
  }
}
static uint64_t cex_u64(const char *name) {
  char b[64];
  if (!cex_find(name, b, sizeof b)) return 0;
  return strtoull(b, NULL, 0);
}
static int64_t cex_i64(const char *name) {
  char b[64];
  if (!cex_find(name, b, sizeof b)) return 0;
  return strtoll(b, NULL, 0);
}
#define CEX_BYTES(name, N) uint8_t name[N]; cex_bytes(#name, name, N)
#define CEX_U64(name) uint64_t name = cex_u64(#name)
#define CEX_I64(name) int64_t name = cex_i64(#name)
#define CEX_ASSUME(c) do { if (!(c)) { fprintf(stderr, "cex: input outside assumed domain: %s\n", #c); exit(0); } } while (0)
#define CEX_CHECK(c, msg) do { if (!(c)) { fprintf(stderr, "PROPERTY VIOLATED: %s\n", msg); exit(1); } } while (0)
#define CEX_MAIN static void cex_main(void)
static void cex_main(void);
int main(int argc, char **argv) {
  if (argc < 2 || !(cex_f = fopen(argv[1], "r"))) { fprintf(stderr, "usage: %s input.txt\n", argv[0]); return 2; }
  cex_main();
  return 0;
}
#endif
#endif
