/* C02 replay: a nullable page consumed in two carquet_read_next_page calls.  The page state is the
 * one of the verifier's counterexample (rows in the page, rows consumed by the first call, size
 * of the second request, a null row j before the split).  The REAL page_reader.c runs. */
#include "cex.h"
#include <stdio.h>
#include <stdbool.h>
#include <carquet/carquet.h>
#include "reader/reader_internal.h"
extern carquet_status_t carquet_read_next_page(carquet_column_reader_t *reader, void *values, int64_t max_values,
                                               int16_t *def_levels, int16_t *rep_levels, int64_t *values_read,
                                               carquet_error_t *error);
CEX_MAIN {
  CEX_I64(pnv);      /* rows in the page */
  CEX_I64(start);    /* rows delivered by the first call */
  CEX_I64(maxv);     /* size of the second request */
  CEX_I64(j);        /* a null row before `start` */
  CEX_I64(defj);     /* its definition level */
  CEX_I64(maxdef);   /* max definition level of the column */
  CEX_ASSUME(pnv >= 1 && pnv <= 4096 && start >= 1 && start < pnv && maxv >= 1 && maxv <= 4096);
  CEX_ASSUME(j >= 0 && j < start && maxdef >= 1 && maxdef <= 32767 && defj >= -32768 && defj < maxdef);
  carquet_column_reader_t *r = calloc(1, sizeof(*r));
  r->type = CARQUET_PHYSICAL_INT32;
  r->max_def_level = (int16_t)maxdef;
  r->values_remaining = pnv;
  r->page_loaded = true;
  r->page_num_values = (int32_t)pnv;
  r->decoded_ownership = CARQUET_DATA_OWNED;
  r->decoded_capacity = (size_t)pnv;
  /* exactly what the loader allocates: page_num_values entries each */
  int32_t *dv = malloc((size_t)pnv * sizeof(int32_t));
  int16_t *dd = malloc((size_t)pnv * sizeof(int16_t));
  int16_t *dr = calloc((size_t)pnv, sizeof(int16_t));
  int64_t nn = 0;
  for (int64_t i = 0; i < pnv; i++) { dd[i] = (int16_t)(i == j ? defj : maxdef); if (dd[i] == maxdef) nn++; }
  for (int64_t k = 0; k < pnv; k++) dv[k] = k < nn ? (int32_t)(1000 + k) : (int32_t)0xDEADBEEF;  /* dense: nn values */
  r->decoded_values = (uint8_t *)dv; r->decoded_def_levels = dd; r->decoded_rep_levels = dr;
  int32_t *out1 = malloc((size_t)start * 4), *out2 = malloc((size_t)maxv * 4);
  int16_t *d1 = malloc((size_t)start * 2), *d2 = malloc((size_t)maxv * 2);
  int64_t n1 = 0, n2 = 0;
  carquet_error_t err = CARQUET_ERROR_INIT;
  CEX_CHECK(carquet_read_next_page(r, out1, start, d1, NULL, &n1, &err) == CARQUET_OK && n1 == start, "first call delivers `start` rows");
  int64_t before = 0;
  for (int64_t i = 0; i < n1; i++) if (d1[i] == maxdef) before++;
  CEX_CHECK(carquet_read_next_page(r, out2, maxv, d2, NULL, &n2, &err) == CARQUET_OK, "second call succeeds");
  int64_t want = maxv < pnv - start ? maxv : pnv - start;
  CEX_CHECK(n2 == want, "second call delivers min(max_values, available) rows");
  int64_t k = 0;
  for (int64_t i = 0; i < n2; i++) {
    if (d2[i] != maxdef) continue;
    fprintf(stderr, "row %lld: got %d, written value %lld\n", (long long)(start + i), out2[k], (long long)(1000 + before + k));
    CEX_CHECK(out2[k] == 1000 + before + k, "C02: non-null value of the second call differs from the value a single call delivers for that row");
    k++;
  }
  free(out1); free(out2); free(d1); free(d2); free(dv); free(dd); free(dr); free(r);
}
