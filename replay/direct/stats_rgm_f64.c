#define RT 3
#include "stats_rgm_common.c"
