/* C11/C12 replay: 8 values + width from the verifier trace; pack8 -> unpack8 and pack_32 -> unpack_32
 * on the real sources with exact-size heap buffers (ASan/UBSan), and the spec layout. */
#include "cex.h"
#include "../specs/bitpack_spec.h"
#include "src/core/bitpack.h"
CEX_MAIN {
  CEX_U64(width);
  CEX_U64(in0); CEX_U64(in1); CEX_U64(in2); CEX_U64(in3); CEX_U64(in4); CEX_U64(in5); CEX_U64(in6); CEX_U64(in7);
  CEX_ASSUME(width <= 32);
  uint32_t v[8] = {(uint32_t)in0, (uint32_t)in1, (uint32_t)in2, (uint32_t)in3, (uint32_t)in4, (uint32_t)in5, (uint32_t)in6, (uint32_t)in7};
  uint32_t out[8], out2[8];
  unsigned w = (unsigned)width;
  uint8_t *buf = malloc(w ? w : 1);
  uint8_t *exact = w ? malloc(w) : NULL;
  (void)buf;
  for (unsigned i = 0; i < w; i++) exact[i] = 0xA5;
  carquet_bitpack8_32(v, (int)w, exact);
  carquet_bitunpack8_32(exact, (int)w, out);
  for (unsigned i = 0; i < 8; i++) {
    fprintf(stderr, "w=%u v[%u]=%u unpacked=%u\n", w, i, v[i], out[i]);
    CEX_CHECK(out[i] == (v[i] & SPEC_BP_MASK32(w)), "unpack8(pack8(v)) differs from v & mask");
    if (w) CEX_CHECK(spec_bp_unpack(exact, w, i) == (v[i] & SPEC_BP_MASK32(w)), "packed bytes are not the Parquet LSB-first layout");
  }
  size_t n = carquet_bitpack_32(v, 8, (int)w, exact);
  CEX_CHECK(n == carquet_packed_size(8, (int)w), "bitpack_32 byte count");
  size_t m = carquet_bitunpack_32(exact, 8, (int)w, out2);
  CEX_CHECK(m == n, "bitunpack_32 consumed != bitpack_32 produced");
  for (unsigned i = 0; i < 8; i++) CEX_CHECK(out2[i] == (v[i] & SPEC_BP_MASK32(w)), "unpack_32(pack_32(v)) differs");
  free(buf); free(exact);
}
