#define RT 2
#include "stats_rgm_common.c"
