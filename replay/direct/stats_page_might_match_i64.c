#define RT 2
#include "stats_page_might_match.c"
