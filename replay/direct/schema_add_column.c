/* C17/C19 replay: the real schema builder (schema.c + arena.c + error.c), one add_column on a fresh
 * schema.  Inputs: rep_i = repetition (0 required, 1 optional, 2 repeated); oom = 1 makes the arena
 * block allocation for the name copy fail (a 2 MiB name with ASan's max_allocation_size_mb=1 and
 * allocator_may_return_null=1 -- every other allocation of the run is far smaller). */
#include "cex.h"
#include "src/metadata/schema.c"
#ifndef CEX_CBMC
const char *__asan_default_options(void) { return "allocator_may_return_null=1:max_allocation_size_mb=1:detect_leaks=1"; }
#endif
CEX_MAIN {
  CEX_U64(rep_i);
  CEX_U64(oom);
  CEX_ASSUME(rep_i <= 2 && oom <= 1);
  carquet_error_t err = CARQUET_ERROR_INIT;
  carquet_schema_t *s = carquet_schema_create(&err);
  if (!s) return;
  static char big[2u << 20];
  const char *name = "col";
  if (oom) { memset(big, 'x', sizeof big - 1); big[sizeof big - 1] = 0; name = big; }
  carquet_status_t st = carquet_schema_add_column(s, name, CARQUET_PHYSICAL_INT32, NULL, (carquet_field_repetition_t)rep_i, 0);
  if (st == CARQUET_OK) {
    int16_t d = s->max_def_levels[0], r = s->max_rep_levels[0];
    const carquet_schema_node_t *n = carquet_schema_get_element(s, 1);
    fprintf(stderr, "rep=%d: max_def=%d max_rep=%d node_max_def=%d name=%p\n", (int)rep_i, d, r,
            carquet_schema_node_max_def_level(n), (void *)carquet_schema_node_name(n));
    CEX_CHECK(carquet_schema_node_name(n) != NULL, "add_column returned OK but the column has no name (arena_strdup failure ignored)");
    CEX_CHECK(d == (rep_i != 0 ? 1 : 0), "max definition level differs from the number of optional/repeated nodes on the path");
    CEX_CHECK(r == (rep_i == 2 ? 1 : 0), "max repetition level differs from the number of repeated nodes on the path");
    CEX_CHECK(carquet_schema_node_max_def_level(n) == d, "node accessor max_def differs");
  }
  carquet_schema_free(s);
}
