#define RT 4
#include "stats_builder_common.c"
