/* C14 replay: the real src/util/crc32.c on the bytes of the verifier's counterexample, compared
 * natively with zlib's crc32() (link -lz) and with the bit-serial definition in specs/crc32_spec.h.
 * Inputs (name=value lines): len (0..64), off (0..7), crc0 (start value for the update form),
 * split (0..len), b0..b71 (buffer bytes; missing = 0). */
#include "cex.h"
#include <zlib.h>
#include "../specs/crc32_spec.h"
#include "src/util/crc32.c"

static uint8_t cex_byte(int i) {
  char name[16];
  snprintf(name, sizeof name, "b%d", i);
  return (uint8_t)cex_u64(name);
}

CEX_MAIN {
  CEX_U64(len);
  CEX_U64(off);
  CEX_U64(crc0);
  CEX_U64(split);
  CEX_ASSUME(len <= 64 && off <= 7 && split <= len);
  /* exact-size heap buffer so that ASan sees any over-read */
  uint8_t *buf = malloc(len + off + 1);
  for (size_t i = 0; i < len + off; i++) buf[i] = cex_byte((int)i);
  const uint8_t *p = buf + off;
  uint32_t got = carquet_crc32(p, (size_t)len);
  uint32_t z = (uint32_t)crc32(crc32(0L, Z_NULL, 0), p, (uInt)len);
  uint32_t sp = spec_crc32(p, (size_t)len);
  fprintf(stderr, "len=%llu off=%llu carquet_crc32=%08x zlib=%08x bit-serial=%08x\n", (unsigned long long)len,
          (unsigned long long)off, got, z, sp);
  CEX_CHECK(sp == z, "bit-serial specification differs from zlib (specification error, not a code defect)");
  CEX_CHECK(got == z, "carquet_crc32 differs from zlib crc32 (IEEE 802.3)");
  uint32_t u = carquet_crc32_update((uint32_t)crc0, p, (size_t)len);
  uint32_t zu = (uint32_t)crc32((uLong)(uint32_t)crc0, p, (uInt)len);
  fprintf(stderr, "crc0=%08x carquet_crc32_update=%08x zlib=%08x\n", (uint32_t)crc0, u, zu);
  CEX_CHECK(u == zu, "carquet_crc32_update differs from zlib running crc32");
  uint32_t a = carquet_crc32_update((uint32_t)crc0, p, (size_t)split);
  uint32_t ab = carquet_crc32_update(a, p + split, (size_t)(len - split));
  CEX_CHECK(ab == u, "update(update(c, a), b) differs from update(c, a||b)");
  free(buf);
}
