/* C08/C11 replay: carquet_bitunpack_32 on an input of EXACTLY carquet_packed_size(count, bit_width)
 * bytes (the length it reports as consumed and the length the delta decoder checks), heap
 * allocated so ASan sees every byte beyond it.  Inputs from the verifier trace: count, bit_width. */
#include "cex.h"
#include "src/core/bitpack.h"
CEX_MAIN {
  CEX_U64(count);
  CEX_U64(bit_width);
  CEX_ASSUME(bit_width <= 32 && count <= (1u << 20));
  size_t n = carquet_packed_size((size_t)count, (int)bit_width);
  uint8_t *in = malloc(n ? n : 1);
  uint8_t *exact = n ? malloc(n) : NULL;
  uint32_t *vals = malloc((count ? count : 1) * sizeof(uint32_t));
  for (size_t i = 0; i < n; i++) exact[i] = (uint8_t)(i * 37 + 1);
  (void)in;
  fprintf(stderr, "count=%llu bit_width=%llu input bytes=%zu\n", (unsigned long long)count, (unsigned long long)bit_width, n);
  size_t used = carquet_bitunpack_32(exact, (size_t)count, (int)bit_width, vals);
  CEX_CHECK(used == n, "consumed byte count differs from carquet_packed_size");
  free(in); free(exact); free(vals);
}
