#define RT 1
#define ANYLEN 1
#include "stats_rgm_common.c"
