/* C16 replay: carquet_column_index_page_might_match of the real src/metadata/page_index.c, INT32 column, one page
 * with bounds [pmin, pmax] added through the real builder API (plain little-endian bytes, as the writer stores them). */
#include "cex.h"
const char *__asan_default_options(void) { return "detect_leaks=0"; }
#include "src/metadata/page_index.c"
CEX_MAIN {
  CEX_I64(pmin); CEX_I64(pmax); CEX_I64(qmin); CEX_I64(qmax); CEX_I64(x); CEX_U64(present);
  int32_t a = (int32_t)pmin, b = (int32_t)pmax, c = (int32_t)qmin, d = (int32_t)qmax, xv = (int32_t)x;
  carquet_column_index_builder_t *ix = carquet_column_index_builder_create(CARQUET_PHYSICAL_INT32, 0);
  carquet_status_t st = carquet_column_index_add_page(ix, 0, (present & 1) ? &a : NULL, 4, (present & 2) ? &b : NULL, 4, false);
  CEX_CHECK(st == CARQUET_OK, "add_page failed");
  bool mm = false;
  st = carquet_column_index_page_might_match(ix, 0, (present & 4) ? &c : NULL, (present & 8) ? &d : NULL, 4, &mm);
  fprintf(stderr, "page [%d, %d] query [%d, %d] present=%u witness x=%d -> rc=%d might_match=%d\n", a, b, c, d, (unsigned)present, xv, (int)st, (int)mm);
  bool in_page = (!(present & 1) || a <= xv) && (!(present & 2) || xv <= b);
  bool in_query = (!(present & 4) || c <= xv) && (!(present & 8) || xv <= d);
  CEX_ASSUME(in_page && in_query);
  CEX_CHECK(st == CARQUET_OK && mm, "page holding a value inside the query range reported as 'cannot match' (false negative)");
}
