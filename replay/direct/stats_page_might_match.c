/* C16 replay: carquet_column_index_page_might_match of the real src/metadata/page_index.c, numeric column (RT: 1 INT32,
 * 2 INT64, 4 FLOAT, 5 DOUBLE; default INT32), one page with bounds [pmin, pmax] added through the real builder API
 * (plain little-endian bytes, as the writer stores them).  All values are bit patterns. */
#include "cex.h"
const char *__asan_default_options(void) { return "detect_leaks=0"; }
#include "src/metadata/page_index.c"
#ifndef RT
#define RT 1
#endif
#if RT == 1
typedef int32_t pv_t;
#elif RT == 2
typedef int64_t pv_t;
#elif RT == 4
typedef float pv_t;
#else
typedef double pv_t;
#endif
static pv_t fb(uint64_t b) { pv_t v; memcpy(&v, &b, sizeof v); return v; }
CEX_MAIN {
  CEX_U64(pmin); CEX_U64(pmax); CEX_U64(qmin); CEX_U64(qmax); CEX_U64(x); CEX_U64(present);
  pv_t a = fb(pmin), b = fb(pmax), c = fb(qmin), d = fb(qmax), xv = fb(x);
  int32_t L = (int32_t)sizeof(pv_t);
  carquet_column_index_builder_t *ix = carquet_column_index_builder_create((carquet_physical_type_t)RT, 0);
  carquet_status_t st = carquet_column_index_add_page(ix, 0, (present & 1) ? &a : NULL, L, (present & 2) ? &b : NULL, L, false);
  CEX_CHECK(st == CARQUET_OK, "add_page failed");
  bool mm = false;
  st = carquet_column_index_page_might_match(ix, 0, (present & 4) ? &c : NULL, (present & 8) ? &d : NULL, L, &mm);
  fprintf(stderr, "page [%g, %g] query [%g, %g] present=%u witness x=%g -> rc=%d might_match=%d\n", (double)a, (double)b, (double)c, (double)d, (unsigned)present, (double)xv, (int)st, (int)mm);
  bool in_page = (!(present & 1) || a <= xv) && (!(present & 2) || xv <= b);
  bool in_query = (!(present & 4) || c <= xv) && (!(present & 8) || xv <= d);
  CEX_ASSUME(in_page && in_query);
  CEX_CHECK(st == CARQUET_OK && mm, "page holding a value inside the query range reported as 'cannot match' (false negative)");
}
