/* C14 replay (no inputs needed from the verifier trace): the real src/util/crc32.c against zlib's
 * crc32() natively, lengths 0..300, alignment offsets 0..7, pseudo-random and structured data,
 * running-update form with arbitrary start values and every split point for short lengths.
 * Used for obligations whose counterexample is a register/table state rather than an input buffer
 * (table facts, lemma chain, loop invariants): any functional deviation of the real code from
 * IEEE 802.3 CRC-32 shows up here.  Exit 1 = deviation reproduced. */
#include "cex.h"
#include <zlib.h>
#include "../specs/crc32_spec.h"
#include "src/util/crc32.c"

static uint64_t rng = 0x9E3779B97F4A7C15ull;
static uint8_t next_byte(void) { rng = rng * 6364136223846793005ull + 1442695040888963407ull; return (uint8_t)(rng >> 56); }

CEX_MAIN {
  CEX_U64(seed);
  rng ^= seed;
  CEX_CHECK(carquet_crc32((const uint8_t *)"123456789", 9) == 0xCBF43926u, "check value: crc32(\"123456789\") != 0xCBF43926");
  for (size_t len = 0; len <= 300; len++) {
    for (size_t off = 0; off < 8; off++) {
      uint8_t *buf = malloc(len + off + 1);   /* exact size: ASan sees over-reads */
      int mode = (int)((len + off) % 3);
      for (size_t i = 0; i < len + off; i++) buf[i] = mode == 0 ? next_byte() : mode == 1 ? (uint8_t)(1u << (i % 8)) : (uint8_t)(i == len / 2 + off ? 0x80 : 0);
      const uint8_t *p = buf + off;
      uint32_t got = carquet_crc32(p, len);
      uint32_t z = (uint32_t)crc32(crc32(0L, Z_NULL, 0), p, (uInt)len);
      if (got != z) fprintf(stderr, "len=%zu off=%zu carquet_crc32=%08x zlib=%08x\n", len, off, got, z);
      CEX_CHECK(got == z, "carquet_crc32 differs from zlib crc32 (IEEE 802.3)");
      if (len <= 40) CEX_CHECK(spec_crc32(p, len) == z, "bit-serial specification differs from zlib (specification error)");
      uint32_t c0 = (uint32_t)(rng >> 16);
      uint32_t u = carquet_crc32_update(c0, p, len);
      uint32_t zu = (uint32_t)crc32((uLong)c0, p, (uInt)len);
      if (u != zu) fprintf(stderr, "len=%zu off=%zu crc0=%08x carquet_crc32_update=%08x zlib=%08x\n", len, off, c0, u, zu);
      CEX_CHECK(u == zu, "carquet_crc32_update differs from zlib running crc32");
      if (len <= 40)
        for (size_t k = 0; k <= len; k++)
          CEX_CHECK(carquet_crc32_update(carquet_crc32_update(c0, p, k), p + k, len - k) == u, "update(update(c, a), b) differs from update(c, a||b)");
      free(buf);
    }
  }
  fprintf(stderr, "crc32 selftest: all lengths 0..300 x offsets 0..7 agree with zlib\n");
}
