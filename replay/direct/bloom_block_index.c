/* C20 replay: block selection of the real bloom_filter.c vs. the Parquet formula. */
#include "cex.h"
#include "../specs/sbbf_spec.h"
#include "src/metadata/bloom_filter.c"
CEX_MAIN {
  CEX_U64(hash);
  CEX_U64(z);
  CEX_ASSUME(z >= 1 && z <= 0xFFFFFFFFull);
  size_t got = bloom_filter_block_index(hash, (size_t)z);
  fprintf(stderr, "hash=%llu num_blocks=%llu code=%zu spec=%llu\n", (unsigned long long)hash, (unsigned long long)z, got,
          (unsigned long long)SPEC_SBBF_BLOCK_INDEX(hash, z));
  CEX_CHECK(got < z, "block index out of range");
  CEX_CHECK(got == SPEC_SBBF_BLOCK_INDEX(hash, z), "block index differs from the Parquet split-block formula");
}
