#define RT 2
#include "stats_pw_common.c"
