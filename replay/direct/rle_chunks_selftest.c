/* C11 replay (no inputs needed from the verifier trace; `seed` only perturbs the data): the real RLE/bit-packed
 * hybrid of src/encoding/rle.c natively.  Sequences with mixed run structure are encoded with the real
 * encoder, decoded one-shot (carquet_rle_decode_all) and through the streaming decoder under every chunk
 * size 1..13 and under skip-then-get patterns; every chunked delivery must equal the original sequence.
 * Used for obligations of the ghost-free chunking job whose counterexample is a decoder state rather
 * than an input buffer.  Exit 1 = deviation reproduced. */
#include "cex.h"
#include "src/encoding/rle.h"
#include "src/core/buffer.h"

static uint64_t rng = 0x9E3779B97F4A7C15ull;
static uint32_t next_u32(void) { rng = rng * 6364136223846793005ull + 1442695040888963407ull; return (uint32_t)(rng >> 32); }

CEX_MAIN {
  CEX_U64(seed);
  rng ^= seed;
  static const int widths[] = {1, 2, 3, 7, 8, 13, 20, 32};
  for (unsigned wi = 0; wi < sizeof widths / sizeof widths[0]; wi++) {
    int bw = widths[wi];
    uint32_t mask = bw == 32 ? 0xFFFFFFFFu : ((1u << bw) - 1u);
    for (int64_t n = 0; n <= 75; n += (n < 20 ? 1 : 11)) {
      uint32_t v[80], one[80], ch[80];
      for (int64_t i = 0; i < n; i++) v[i] = ((i / 19) % 2 == 1 ? 5u : next_u32()) & mask;   /* literal stretches and repeats */
      carquet_buffer_t b;
      carquet_buffer_init(&b);
      CEX_CHECK(carquet_rle_encode_all(v, n, bw, &b) == CARQUET_OK, "encode_all failed");
      const uint8_t *d = carquet_buffer_data_const(&b);
      size_t sz = carquet_buffer_size(&b);
      uint8_t *exact = malloc(sz ? sz : 1);   /* exact size: ASan sees over-reads */
      if (sz) memcpy(exact, d, sz);
      int64_t r = carquet_rle_decode_all(exact, sz, bw, one, n);
      CEX_CHECK(r == n && memcmp(one, v, (size_t)n * 4) == 0, "one-shot decode differs from the original sequence");
      for (int64_t chunk = 1; chunk <= 13; chunk++) {
        carquet_rle_decoder_t dec;
        carquet_rle_decoder_init(&dec, exact, sz, bw);
        int64_t got = 0;
        while (got < n) {
          int64_t want = n - got < chunk ? n - got : chunk;
          int64_t k = carquet_rle_decoder_get_batch(&dec, ch + got, want);
          if (k != want) { fprintf(stderr, "bw=%d n=%ld chunk=%ld: get_batch returned %ld of %ld\n", bw, (long)n, (long)chunk, (long)k, (long)want); CEX_CHECK(0, "chunked get_batch delivers fewer values than available"); }
          got += k;
        }
        for (int64_t i = 0; i < n; i++)
          if (ch[i] != v[i]) { fprintf(stderr, "bw=%d n=%ld chunk=%ld: value[%ld]=%u expected %u\n", bw, (long)n, (long)chunk, (long)i, ch[i], v[i]); CEX_CHECK(0, "chunked streaming decode differs from the one-shot decode"); }
        /* skip `chunk` values, then read the rest */
        carquet_rle_decoder_init(&dec, exact, sz, bw);
        int64_t sk = chunk < n ? chunk : n;
        CEX_CHECK(carquet_rle_decoder_skip(&dec, sk) == sk, "skip skips fewer values than available");
        int64_t k2 = carquet_rle_decoder_get_batch(&dec, ch, n - sk);
        CEX_CHECK(k2 == n - sk && memcmp(ch, v + sk, (size_t)(n - sk) * 4) == 0, "decode after skip differs from the tail of the sequence");
        /* single get, then batch */
        if (n > 0) {
          carquet_rle_decoder_init(&dec, exact, sz, bw);
          uint32_t first = carquet_rle_decoder_get(&dec);
          int64_t k3 = carquet_rle_decoder_get_batch(&dec, ch, n - 1);
          CEX_CHECK(first == v[0] && k3 == n - 1 && memcmp(ch, v + 1, (size_t)(n - 1) * 4) == 0, "get followed by get_batch differs from the sequence");
        }
      }
      free(exact);
      carquet_buffer_destroy(&b);
    }
  }
  fprintf(stderr, "rle chunk selftest: chunked, skipped and one-shot decodes agree\n");
}
