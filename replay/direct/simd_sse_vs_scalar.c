/* C15 replay: the real SSE4.2 kernels against the real scalar kernels on a small input taken from a
 * verifier trace (or written by hand): which=0 crc32c, 1 pack_bools, 2 build_null_bitmap.
 * Inputs: which, n (<= 16), crc, maxdef, fill, v0..v15.  The replayer build has no -msse4.2, so
 * the target is switched on by pragma and the source's own guard macro is defined here. */
#include "cex.h"
#include <stdio.h>
#define __SSE4_2__ 1
#pragma clang attribute push(__attribute__((target("sse4.2"))), apply_to = function)
#include "src/simd/x86/sse_ops.c"
#pragma clang attribute pop
#define CARQUET_ARCH_X86 1
#define CARQUET_ENABLE_SSE 1
#include <carquet/carquet.h>
static carquet_cpu_info_t cex_cpu;
const carquet_cpu_info_t *carquet_get_cpu_info(void) { return &cex_cpu; }
#include "src/simd/dispatch.c"
CEX_MAIN {
  CEX_U64(which); CEX_U64(n); CEX_U64(crc); CEX_I64(maxdef); CEX_U64(fill);
  CEX_U64(v0); CEX_U64(v1); CEX_U64(v2); CEX_U64(v3); CEX_U64(v4); CEX_U64(v5); CEX_U64(v6); CEX_U64(v7);
  CEX_U64(v8); CEX_U64(v9); CEX_U64(v10); CEX_U64(v11); CEX_U64(v12); CEX_U64(v13); CEX_U64(v14); CEX_U64(v15);
  uint64_t v[16] = {v0, v1, v2, v3, v4, v5, v6, v7, v8, v9, v10, v11, v12, v13, v14, v15};
  CEX_ASSUME(n <= 16 && which <= 2);
  if (which == 0) {
    uint8_t *d = malloc(n ? n : 1);
    for (uint64_t i = 0; i < n; i++) d[i] = (uint8_t)v[i];
    uint32_t a = scalar_crc32c((uint32_t)crc, d, n), b = carquet_sse_crc32c((uint32_t)crc, d, n);
    fprintf(stderr, "crc32c n=%llu scalar=0x%08X sse=0x%08X\n", (unsigned long long)n, a, b);
    CEX_CHECK(a == b, "carquet_sse_crc32c differs from the scalar kernel");
  } else if (which == 1) {
    uint8_t *in = malloc(n ? n : 1), *o1 = calloc(2, 1), *o2 = calloc(2, 1);
    for (uint64_t i = 0; i < n; i++) in[i] = (uint8_t)v[i];
    scalar_pack_bools(in, o1, (int64_t)n); carquet_sse_pack_bools(in, o2, (int64_t)n);
    fprintf(stderr, "pack_bools n=%llu scalar=%02X%02X sse=%02X%02X\n", (unsigned long long)n, o1[0], o1[1], o2[0], o2[1]);
    CEX_CHECK(o1[0] == o2[0] && o1[1] == o2[1], "carquet_sse_pack_bools differs from the scalar kernel");
  } else {
    int16_t *def = malloc((n ? n : 1) * sizeof *def);
    uint8_t *b1 = malloc(2), *b2 = malloc(2);
    for (uint64_t i = 0; i < n; i++) def[i] = (int16_t)v[i];
    memset(b1, (int)fill, 2); memset(b2, (int)fill, 2);
    scalar_build_null_bitmap(def, (int64_t)n, (int16_t)maxdef, b1); carquet_sse_build_null_bitmap(def, (int64_t)n, (int16_t)maxdef, b2);
    size_t nb = (n + 7) / 8;
    fprintf(stderr, "build_null_bitmap n=%llu scalar=%02X%02X sse=%02X%02X\n", (unsigned long long)n, b1[0], b1[1], b2[0], b2[1]);
    CEX_CHECK(memcmp(b1, b2, nb) == 0, "carquet_sse_build_null_bitmap differs from the scalar kernel");
  }
}
