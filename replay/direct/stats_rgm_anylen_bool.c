#define RT 6
#define ANYLEN 1
#include "stats_rgm_common.c"
