/* C13 replay: field header written by the real thrift_encode.c vs. the compact-protocol layout
 * (short form iff 1 <= field_id - last_id <= 15 as integers; else 0000tttt + zigzag varint id),
 * read back by an independent decoder. */
#include "cex.h"
#include "../specs/thrift_spec.h"
#include "thrift/thrift_encode.h"
CEX_MAIN {
  CEX_I64(nl); CEX_I64(last); CEX_I64(fid); CEX_I64(type);
  CEX_ASSUME(nl >= 0 && nl <= THRIFT_ENCODER_MAX_NESTING && type >= 1 && type <= 15);
  CEX_ASSUME(last >= INT16_MIN && last <= INT16_MAX && fid >= INT16_MIN && fid <= INT16_MAX);
  uint8_t store[32];
  carquet_buffer_t b; carquet_buffer_init_wrap(&b, store, sizeof store); carquet_buffer_clear(&b);
  thrift_encoder_t e; thrift_encoder_init(&e, &b);
  e.nesting_level = (int)nl;
  if (nl > 0) e.last_field_id[nl - 1] = (int16_t)last; else last = 0;
  thrift_write_field_header(&e, (int)type, (int16_t)fid);
  /* independent decoder */
  long got;
  if (store[0] >> 4) got = (long)last + (store[0] >> 4);
  else { unsigned u; got = (long)spec_unzigzag(spec_varint_decode(store + 1, b.size - 1, &u)); }
  fprintf(stderr, "last_id=%ld field_id=%ld type=%ld -> bytes", (long)last, (long)fid, (long)type);
  for (size_t i = 0; i < b.size; i++) fprintf(stderr, " %02x", store[i]);
  fprintf(stderr, "; independent decoder reads field id %ld\n", got);
  CEX_CHECK(store[0] == spec_field_byte0((int)last, (int)fid, (int)type), "field header form differs from the compact protocol (short form only for 1 <= id - last <= 15)");
  CEX_CHECK(got == fid, "an independent decoder reads a different field id");
}
