/* C11/C08 replay: carquet_bitpack_32 into an output of EXACTLY the byte count it reports
 * (carquet_packed_size(count, bit_width)), heap allocated (ASan).  Inputs: count, bit_width. */
#include "cex.h"
#include "src/core/bitpack.h"
CEX_MAIN {
  CEX_U64(count);
  CEX_U64(bit_width);
  CEX_ASSUME(bit_width <= 32 && count <= (1u << 20));
  size_t n = carquet_packed_size((size_t)count, (int)bit_width);
  uint32_t *vals = malloc((count ? count : 1) * sizeof(uint32_t));
  for (size_t i = 0; i < count; i++) vals[i] = (uint32_t)(i * 2654435761u);
  uint8_t *out = n ? malloc(n) : NULL;
  fprintf(stderr, "count=%llu bit_width=%llu output bytes=%zu\n", (unsigned long long)count, (unsigned long long)bit_width, n);
  size_t wr = carquet_bitpack_32(vals, (size_t)count, (int)bit_width, out);
  CEX_CHECK(wr == n, "written byte count differs from carquet_packed_size");
  free(out); free(vals);
}
