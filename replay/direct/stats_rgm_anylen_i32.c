#define RT 0
#define ANYLEN 1
#include "stats_rgm_common.c"
