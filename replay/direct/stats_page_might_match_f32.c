#define RT 4
#include "stats_page_might_match.c"
