#define RT 3
#include "stats_pw_common.c"
