#define RT 0
#include "stats_rgm_common.c"
