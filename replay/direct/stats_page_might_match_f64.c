#define RT 5
#include "stats_page_might_match.c"
