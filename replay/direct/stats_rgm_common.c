/* C16 replay: carquet_reader_row_group_matches of the real src/reader/statistics.c on a one-row-group,
 * one-column reader whose statistics fields are given as bit patterns (RT = type, see the wrappers
 * stats_rgm_<type>.c).  The fields are exact-size heap objects (ASan sees any over-read). */
#include "cex.h"
#include <math.h>
const char *__asan_default_options(void) { return "detect_leaks=0"; }
#include "src/reader/statistics.c"
/* lives in file_reader.c (not linked here); same body */
int32_t carquet_reader_num_row_groups(const carquet_reader_t *reader) { return reader->metadata.num_row_groups; }
#if RT == 0
typedef int32_t val_t;
#define PHYS CARQUET_PHYSICAL_INT32
#define FMT "%d"
#elif RT == 1
typedef int64_t val_t;
#define PHYS CARQUET_PHYSICAL_INT64
#define FMT "%lld"
#elif RT == 6
typedef int32_t val_t;
#define PHYS CARQUET_PHYSICAL_BOOLEAN
#define FMT "%d"
#elif RT == 2
typedef float val_t;
#define PHYS CARQUET_PHYSICAL_FLOAT
#define FMT "%g"
#else
typedef double val_t;
#define PHYS CARQUET_PHYSICAL_DOUBLE
#define FMT "%g"
#endif
#if RT == 1
#define PR(x) ((long long)(x))
#else
#define PR(x) (x)
#endif
static val_t from_bits(uint64_t b) { val_t v; memcpy(&v, &b, sizeof v); return v; }
static uint8_t *field(int present, uint64_t b, int32_t len) {
  if (!present) return NULL;
  if (len < 0) len = 0;
  uint8_t *p = malloc((size_t)len);
  memcpy(p, &b, (size_t)len < sizeof b ? (size_t)len : sizeof b);
  return p;
}
CEX_MAIN {
  CEX_U64(present); CEX_U64(vbits); CEX_U64(xbits);
  CEX_U64(nminbits); CEX_U64(nmaxbits); CEX_U64(dminbits); CEX_U64(dmaxbits);
  CEX_I64(op);
  int32_t L = (int32_t)sizeof(val_t);
  int32_t L1 = L, L2 = L, L3 = L, L4 = L;
#ifdef ANYLEN
  /* statistics fields of the lengths the verifier chose (capped: only small over-reads matter) */
  CEX_I64(l1); CEX_I64(l2); CEX_I64(l3); CEX_I64(l4);
  L1 = l1 > 64 ? 64 : (int32_t)l1; L2 = l2 > 64 ? 64 : (int32_t)l2; L3 = l3 > 64 ? 64 : (int32_t)l3; L4 = l4 > 64 ? 64 : (int32_t)l4;
#endif
  static carquet_reader_t r; static carquet_schema_t s; static parquet_schema_element_t el[1];
  static int32_t leaf[1]; static parquet_row_group_t g; static parquet_column_chunk_t c;
  r.schema = &s; s.num_leaves = 1; s.num_elements = 1; s.elements = el; s.leaf_indices = leaf; leaf[0] = 0;
  el[0].has_type = true; el[0].type = PHYS;
  r.metadata.num_row_groups = 1; r.metadata.row_groups = &g; g.num_columns = 1; g.columns = &c;
  c.has_metadata = true; c.metadata.has_statistics = true;
  parquet_statistics_t *st = &c.metadata.statistics;
  st->min_value = field(present & 1, nminbits, L1); st->min_value_len = L1;
  st->max_value = field((present >> 1) & 1, nmaxbits, L2); st->max_value_len = L2;
  st->min_deprecated = field((present >> 2) & 1, dminbits, L3); st->min_deprecated_len = L3;
  st->max_deprecated = field((present >> 3) & 1, dmaxbits, L4); st->max_deprecated_len = L4;
  val_t *value = malloc(sizeof(val_t)); *value = from_bits(vbits);
  val_t x = from_bits(xbits), v = *value;
  bool mm = false;
  carquet_status_t rc = carquet_reader_row_group_matches(&r, 0, 0, (carquet_compare_op_t)op, value, (int32_t)sizeof(val_t), &mm);
  fprintf(stderr, "op=%d value=" FMT " x=" FMT " present=%u", (int)op, PR(v), PR(x), (unsigned)present);
  if (present & 1) fprintf(stderr, " min_value=" FMT, PR(from_bits(nminbits)));
  if (present & 2) fprintf(stderr, " max_value=" FMT, PR(from_bits(nmaxbits)));
  if (present & 4) fprintf(stderr, " min(deprecated)=" FMT, PR(from_bits(dminbits)));
  if (present & 8) fprintf(stderr, " max(deprecated)=" FMT, PR(from_bits(dmaxbits)));
  fprintf(stderr, " -> rc=%d might_match=%d\n", (int)rc, (int)mm);
#ifndef ANYLEN
  bool bounds = true;
  if (present & 1) bounds = bounds && from_bits(nminbits) <= x;
  if (present & 2) bounds = bounds && x <= from_bits(nmaxbits);
  if (present & 4) bounds = bounds && from_bits(dminbits) <= x;
  if (present & 8) bounds = bounds && x <= from_bits(dmaxbits);
  CEX_ASSUME(bounds);
  bool match = (op == 0 && x == v) || (op == 1 && x != v) || (op == 2 && x < v) || (op == 3 && x <= v) ||
               (op == 4 && x > v) || (op == 5 && x >= v);
  CEX_CHECK(rc == CARQUET_OK, "row_group_matches failed on valid indices");
  CEX_CHECK(!match || mm, "row group holding a matching value x reported as 'cannot match' (false negative)");
#endif
}
