#define RT 5
#include "stats_builder_common.c"
