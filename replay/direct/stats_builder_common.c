/* C16 replay: real statistics builder (src/metadata/statistics.c) on 1..3 floating-point values given as
 * bit patterns; checks that the resulting min/max bound every non-NaN value in IEEE order. RT: 4 float, 5 double */
#include "cex.h"
const char *__asan_default_options(void) { return "detect_leaks=0"; }
#include "src/metadata/statistics.c"
#if RT == 4
typedef float val_t;
#else
typedef double val_t;
#endif
static val_t from_bits(uint64_t b) { val_t v; memcpy(&v, &b, sizeof v); return v; }
CEX_MAIN {
  CEX_U64(v0bits); CEX_U64(v1bits); CEX_U64(v2bits); CEX_I64(n);
  CEX_ASSUME(n >= 1 && n <= 3);
  val_t vals[3] = { from_bits(v0bits), from_bits(v1bits), from_bits(v2bits) };
  carquet_statistics_builder_t *b = carquet_statistics_builder_create((carquet_physical_type_t)RT, 0);
  carquet_status_t st = carquet_statistics_add_values(b, vals, n);
  CEX_CHECK(st == CARQUET_OK, "add_values failed");
  val_t mn, mx; memcpy(&mn, b->min_value, sizeof mn); memcpy(&mx, b->max_value, sizeof mx);
  fprintf(stderr, "values:"); for (int i = 0; i < n; i++) fprintf(stderr, " %g", (double)vals[i]);
  fprintf(stderr, " -> min=%g max=%g\n", (double)mn, (double)mx);
  for (int i = 0; i < n; i++) if (vals[i] == vals[i]) {
    CEX_CHECK(b->has_min && b->has_max, "a number was added but the builder has no bounds");
    CEX_CHECK(mn <= vals[i], "builder min is not a lower bound of a non-NaN value (IEEE order)");
    CEX_CHECK(vals[i] <= mx, "builder max is not an upper bound of a non-NaN value (IEEE order; max is NaN)");
  }
}
