/* C09/C10 replay for the Snappy emitters: the verifier's (offset,len) / len values are run through the
 * REAL static emitters of snappy.c and the bytes parsed with the spec parser. */
#include "cex.h"
#include "../specs/snappy_spec.h"
#include "src/compression/snappy.c"
CEX_MAIN {
  CEX_U64(offset);
  CEX_U64(len);
  CEX_ASSUME(offset >= 1 && offset <= 65535 && len >= 4 && len <= (1u << 20));
  size_t cap = 3 * (len / 64 + 3);
  uint8_t *buf = malloc(cap);
  uint8_t *end = snappy_emit_copy(buf, (size_t)offset, (size_t)len);
  size_t used = (size_t)(end - buf), pos = 0; uint64_t sum = 0;
  CEX_CHECK(used <= cap, "emit_copy wrote more than 3 bytes per 64-byte chunk + 6");
  while (pos < used) {
    snappy_spec_elem_t e = snappy_spec_parse_elem(buf + pos, used - pos);
    fprintf(stderr, "element at %zu: ok=%d kind=%d type=%d len=%llu offset=%llu\n", pos, e.ok, e.kind, e.tagtype,
            (unsigned long long)e.len, (unsigned long long)e.offset);
    CEX_CHECK(e.ok && e.kind == SNAPPY_SPEC_COPY, "emitted bytes do not parse as a copy element");
    CEX_CHECK(e.offset == offset, "copy element carries a different offset");
    CEX_CHECK(e.len >= 1 && e.len <= 64, "copy element length outside 1..64");
    sum += e.len; pos += e.hdr;
  }
  CEX_CHECK(sum == len, "copy element lengths do not sum to the requested length");
  free(buf);
}
