/* C18 replay: carquet_writer_close on a sink that accepts fwrite() into the stdio buffer and then
 * fails (ENOSPC) when the bytes are pushed out by fflush()/fclose().  Real /repo sources.
 * No input needed (the counterexample is "fflush/fclose report failure"); both writer flavours
 * are exercised:  owns = 1 -> path-based writer (the writer owns the FILE: fclose result matters),
 *                 owns = 0 -> carquet_writer_create_file on the caller's FILE (fflush result matters). */
#include "cex.h"
#include <carquet/carquet.h>
#include <stdio.h>
static int run(int owns) {
  const char *path = "/dev/full";
  carquet_error_t err; memset(&err, 0, sizeof err);
  carquet_schema_t *schema = carquet_schema_create(&err);
  CEX_ASSUME(schema != NULL);
  CEX_ASSUME(carquet_schema_add_column(schema, "id", CARQUET_PHYSICAL_INT64, NULL, CARQUET_REPETITION_REQUIRED, 0) == CARQUET_OK);
  carquet_writer_options_t opt; carquet_writer_options_init(&opt);
  opt.compression = CARQUET_COMPRESSION_UNCOMPRESSED;
  FILE *f = NULL;
  carquet_writer_t *w;
  if (owns) w = carquet_writer_create(path, schema, &opt, &err);
  else { f = fopen(path, "wb"); CEX_ASSUME(f != NULL); w = carquet_writer_create_file(f, schema, &opt, &err); }
  CEX_ASSUME(w != NULL);
  int64_t v[16]; for (int i = 0; i < 16; i++) v[i] = i;
  carquet_status_t s1 = carquet_writer_write_batch(w, 0, v, 16, NULL, NULL);
  carquet_status_t s2 = carquet_writer_close(w);
  int rc = f ? fclose(f) : 0;
  fprintf(stderr, "sink=%s owns=%d write_batch=%d close=%d caller_fclose=%d\n", path, owns, (int)s1, (int)s2, rc);
  carquet_schema_free(schema);
  return s1 == CARQUET_OK && s2 == CARQUET_OK;
}
CEX_MAIN {
  int bad_owned = run(1);
  int bad_unowned = run(0);
  CEX_CHECK(!bad_owned, "path-based writer: every call returned CARQUET_OK although fclose() failed with ENOSPC (no byte stored)");
  CEX_CHECK(!bad_unowned, "FILE-based writer: every call returned CARQUET_OK although fflush() failed with ENOSPC (no byte stored)");
}
