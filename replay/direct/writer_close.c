/* C18 replay: carquet_writer_close on failing sinks.  Real /repo sources, no verifier input needed
 * (the counterexamples are "some stdio call on the sink reports failure"):
 *  A. /dev/full: fwrite() succeeds into the stdio buffer, fflush()/fclose() fail with ENOSPC
 *     owns = 1 -> path-based writer (fclose result matters), owns = 0 -> caller's FILE (fflush).
 *  B. one-shot failure: an unbuffered fopencookie() sink whose k-th write call fails (returns 0)
 *     and every other call succeeds, for every k; the writer must report non-OK from some call. */
#define _GNU_SOURCE
#include "cex.h"
#include <carquet/carquet.h>
#include <stdio.h>
#include <sys/types.h>

static long g_calls, g_fail_at, g_failed;
static ssize_t sink_write(void *c, const char *buf, size_t n) {
  (void)c; (void)buf;
  if (g_calls++ == g_fail_at) { g_failed++; return 0; }
  return (ssize_t)n;
}
static int sink_close(void *c) { (void)c; return 0; }

static int run(int owns, FILE *f, const char *path) {
  carquet_error_t err; memset(&err, 0, sizeof err);
  carquet_schema_t *schema = carquet_schema_create(&err);
  CEX_ASSUME(schema != NULL);
  CEX_ASSUME(carquet_schema_add_column(schema, "id", CARQUET_PHYSICAL_INT64, NULL, CARQUET_REPETITION_REQUIRED, 0) == CARQUET_OK);
  carquet_writer_options_t opt; carquet_writer_options_init(&opt);
  opt.compression = CARQUET_COMPRESSION_UNCOMPRESSED;
  carquet_writer_t *w = owns ? carquet_writer_create(path, schema, &opt, &err)
                             : carquet_writer_create_file(f, schema, &opt, &err);
  CEX_ASSUME(w != NULL);
  int64_t v[16]; for (int i = 0; i < 16; i++) v[i] = i;
  carquet_status_t s1 = carquet_writer_write_batch(w, 0, v, 16, NULL, NULL);
  carquet_status_t s2 = carquet_writer_close(w);
  carquet_schema_free(schema);
  return s1 == CARQUET_OK && s2 == CARQUET_OK;
}

CEX_MAIN {
  int bad_owned = run(1, NULL, "/dev/full");
  FILE *f = fopen("/dev/full", "wb");
  CEX_ASSUME(f != NULL);
  int bad_unowned = run(0, f, NULL);
  fclose(f);
  fprintf(stderr, "/dev/full: all-OK with owned stream=%d, with caller's FILE=%d\n", bad_owned, bad_unowned);
  CEX_CHECK(!bad_owned, "path-based writer: every call returned CARQUET_OK although fclose() failed with ENOSPC (no byte stored)");
  CEX_CHECK(!bad_unowned, "FILE-based writer: every call returned CARQUET_OK although fflush() failed with ENOSPC (no byte stored)");
  for (long k = 0; k < 64; k++) {
    cookie_io_functions_t io = { NULL, sink_write, NULL, sink_close };
    FILE *c = fopencookie(NULL, "wb", io);
    CEX_ASSUME(c != NULL);
    setvbuf(c, NULL, _IONBF, 0);
    g_calls = 0; g_fail_at = k; g_failed = 0;
    int all_ok = run(0, c, NULL);
    long calls = g_calls, failed = g_failed;
    fclose(c);
    if (failed && all_ok) {
      fprintf(stderr, "one-shot failure of sink write call #%ld (of %ld): every writer call returned CARQUET_OK\n", k, calls);
      CEX_CHECK(0, "a single failed write to the sink (all later writes succeed) was not reported by any writer call");
    }
    if (!failed) break;            /* k is past the last write call */
  }
}
