/* C11 replay: bit writer -> bit reader on the real sources.  Inputs from the verifier trace:
 * two prefix writes (pa:na bits, pb:nb bits) and the value under test (v:k bits). */
#include "cex.h"
#include "../specs/bitpack_spec.h"
#include "src/core/bitpack.h"
CEX_MAIN {
  CEX_U64(pa); CEX_U64(pb); CEX_U64(v); CEX_U64(na); CEX_U64(nb); CEX_U64(k);
  CEX_ASSUME(na <= 32 && nb <= 32 && k <= 32);
  uint8_t *buf = calloc(16, 1);
  carquet_bit_writer_t w; carquet_bit_reader_t r;
  carquet_bit_writer_init(&w, buf, 16);
  carquet_bit_writer_write_bits(&w, (uint32_t)pa, (int)na);
  carquet_bit_writer_write_bits(&w, (uint32_t)pb, (int)nb);
  carquet_bit_writer_write_bits(&w, (uint32_t)v, (int)k);
  carquet_bit_writer_flush(&w);
  size_t n = carquet_bit_writer_bytes_written(&w);
  carquet_bit_reader_init(&r, buf, n);
  uint32_t ga = carquet_bit_reader_read_bits(&r, (int)na);
  uint32_t gb = carquet_bit_reader_read_bits(&r, (int)nb);
  uint32_t gv = carquet_bit_reader_read_bits(&r, (int)k);
  fprintf(stderr, "wrote %llu:%llu %llu:%llu %llu:%llu -> %zu bytes; read back %u %u %u\n", (unsigned long long)pa, (unsigned long long)na,
          (unsigned long long)pb, (unsigned long long)nb, (unsigned long long)v, (unsigned long long)k, n, ga, gb, gv);
  CEX_CHECK(n == (size_t)((na + nb + k + 7) / 8), "bytes written differs from ceil(bits/8)");
  CEX_CHECK(ga == ((uint32_t)pa & SPEC_BP_MASK32(na)) && gb == ((uint32_t)pb & SPEC_BP_MASK32(nb)), "prefix not read back");
  CEX_CHECK(gv == ((uint32_t)v & SPEC_BP_MASK32(k)), "read_bits(k) after write_bits(v,k)+flush differs from v & mask(k)");
  free(buf);
}
