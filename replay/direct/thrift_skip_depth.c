/* C04 replay: recursion depth of the real thrift_skip grows with the input: 2^20 nested one-element
 * lists (byte 0x19 = size 1, element type LIST).  Under ASan the run ends with stack-overflow. */
#include "cex.h"
#include "thrift/thrift_decode.h"
CEX_MAIN {
  size_t n = (size_t)1 << 20;
  uint8_t *b = malloc(n);
  memset(b, 0x19, n);
  thrift_decoder_t d;
  thrift_decoder_init(&d, b, n);
  thrift_skip(&d, THRIFT_TYPE_LIST);
  fprintf(stderr, "returned: status=%d consumed=%zu\n", d.status, d.reader.pos);
  free(b);
}
