#define RT 1
#include "stats_rgm_common.c"
