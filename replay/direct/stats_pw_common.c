/* C16 replay: real page-writer running statistics (update_statistics_float/double of src/writer/page_writer.c)
 * on a reset writer and 1..3 values given as bit patterns. RT: 2 float, 3 double */
#include "cex.h"
const char *__asan_default_options(void) { return "detect_leaks=0"; }
#include "src/writer/page_writer.c"
#if RT == 2
typedef float val_t;
#define UPDATE update_statistics_float
#else
typedef double val_t;
#define UPDATE update_statistics_double
#endif
static val_t from_bits(uint64_t b) { val_t v; memcpy(&v, &b, sizeof v); return v; }
CEX_MAIN {
  CEX_U64(v0bits); CEX_U64(v1bits); CEX_U64(v2bits); CEX_I64(n);
  CEX_ASSUME(n >= 1 && n <= 3);
  val_t vals[3] = { from_bits(v0bits), from_bits(v1bits), from_bits(v2bits) };
  carquet_page_writer_t *w = calloc(1, sizeof(*w));
  UPDATE(w, vals, n);
  val_t mn, mx; memcpy(&mn, w->min_value, sizeof mn); memcpy(&mx, w->max_value, sizeof mx);
  fprintf(stderr, "values:"); for (int i = 0; i < n; i++) fprintf(stderr, " %g", (double)vals[i]);
  fprintf(stderr, " -> has_min_max=%d min=%g max=%g\n", (int)w->has_min_max, (double)mn, (double)mx);
  for (int i = 0; i < n; i++) if (vals[i] == vals[i]) {
    CEX_CHECK(w->has_min_max, "a number was added but no page bounds exist");
    CEX_CHECK(mn <= vals[i], "page min is not a lower bound of a non-NaN value (IEEE order)");
    CEX_CHECK(vals[i] <= mx, "page max is not an upper bound of a non-NaN value (IEEE order)");
  }
}
