/* IEEE 802.3 CRC-32 as used by zlib crc32() / PNG / Parquet page checksums, written from the
 * definition only (ISO 3309 / ITU-T V.42, RFC 1952 section 8 "sample code" stripped of its table):
 *   generator  x^32+x^26+x^23+x^22+x^16+x^12+x^11+x^10+x^8+x^7+x^5+x^4+x^2+x+1
 *   reflected  (least significant bit first): polynomial constant 0xEDB88320,
 *   register preset 0xFFFFFFFF, final complement (xor 0xFFFFFFFF).
 * Bit-serial, NO tables, NO carquet code in this file. */
#ifndef CRC32_SPEC_H
#define CRC32_SPEC_H
#include <stddef.h>
#include <stdint.h>

#define SPEC_CRC32_POLY_REFLECTED 0xEDB88320u

/* one message bit: the register is shifted right by one; if the bit shifted out (after the
 * message bit was xor-ed into bit 0) is 1 the reflected polynomial is xor-ed in */
#define SPEC_CRC32_BIT(c) ((uint32_t)(((uint32_t)(c) >> 1) ^ (((uint32_t)(c) & 1u) ? SPEC_CRC32_POLY_REFLECTED : 0u)))

/* one message byte b into register c: xor the byte into the low 8 bits, then 8 bit steps (LSB first) */
static inline uint32_t spec_crc32_byte(uint32_t c, uint8_t b) {
  c ^= (uint32_t)b;
  c = SPEC_CRC32_BIT(c); c = SPEC_CRC32_BIT(c); c = SPEC_CRC32_BIT(c); c = SPEC_CRC32_BIT(c);
  c = SPEC_CRC32_BIT(c); c = SPEC_CRC32_BIT(c); c = SPEC_CRC32_BIT(c); c = SPEC_CRC32_BIT(c);
  return c;
}

/* register transformation of the whole message (no preset, no final complement) */
static inline uint32_t spec_crc32_fold(uint32_t reg, const uint8_t *p, size_t n) {
  for (size_t i = 0; i < n; i++) reg = spec_crc32_byte(reg, p[i]);
  return reg;
}

/* zlib-style running CRC: crc = 0 for a fresh checksum; crc32(crc32(0,a),b) = crc32(0, a||b) */
static inline uint32_t spec_crc32_update(uint32_t crc, const uint8_t *p, size_t n) {
  return spec_crc32_fold(crc ^ 0xFFFFFFFFu, p, n) ^ 0xFFFFFFFFu;
}
static inline uint32_t spec_crc32(const uint8_t *p, size_t n) { return spec_crc32_update(0u, p, n); }
#endif
