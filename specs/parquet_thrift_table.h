/* parquet.thrift as a table: for every struct of the Parquet metadata IDL the fields
 * (id, wire type in the Thrift COMPACT protocol, list element type, nested struct kind, required?).
 * Written from apache/parquet-format src/main/thrift/parquet.thrift (2.10/2.11 field set), NOT from
 * carquet's code.  Used by the C13 jobs of the "ptypes" family (assumption A8: faithful reading).
 *
 * Compact-protocol wire types (thrift compact spec): 1 BOOL_TRUE 2 BOOL_FALSE 3 I8 4 I16 5 I32 6 I64
 * 7 DOUBLE 8 BINARY 9 LIST 10 SET 11 MAP 12 STRUCT 13 UUID.  A bool FIELD is declared here as wire
 * type 1 and matches 1 or 2 on the wire.  Enums travel as I32.  string == BINARY.
 */
#ifndef CQV_PARQUET_THRIFT_TABLE_H
#define CQV_PARQUET_THRIFT_TABLE_H

enum cqv_pt_kind {
  K_NONE = 0,
  K_PAGE_HEADER, K_DATA_PAGE_HEADER, K_INDEX_PAGE_HEADER, K_DICT_PAGE_HEADER, K_DATA_PAGE_HEADER_V2,
  K_STATISTICS, K_SCHEMA_ELEMENT, K_LOGICAL_TYPE, K_EMPTY /* StringType, MapType, ..., MilliSeconds ... */,
  K_DECIMAL_TYPE, K_TIME_TYPE /* TimeType and TimestampType: same shape */, K_TIME_UNIT, K_INT_TYPE,
  K_COLUMN_META, K_COLUMN_CHUNK, K_ROW_GROUP, K_KEY_VALUE, K_FILE_META, K_ENC_STATS, K_SORTING_COLUMN,
  K_OPAQUE /* structs of the IDL that carquet neither writes nor interprets (ColumnOrder, EncryptionAlgorithm,
              ColumnCryptoMetaData, SizeStatistics, GeospatialStatistics, VariantType, Geometry/GeographyType) */
};

#define W_BOOL 1
#define W_I8 3
#define W_I16 4
#define W_I32 5
#define W_I64 6
#define W_BIN 8
#define W_LIST 9
#define W_STRUCT 12

/* ROW(struct kind, field id, wire type, list element wire type, nested struct kind, required) */
#define CQV_PT_TABLE(ROW) \
  ROW(K_PAGE_HEADER, 1, W_I32, 0, K_NONE, 1) \
  ROW(K_PAGE_HEADER, 2, W_I32, 0, K_NONE, 1) \
  ROW(K_PAGE_HEADER, 3, W_I32, 0, K_NONE, 1) \
  ROW(K_PAGE_HEADER, 4, W_I32, 0, K_NONE, 0) \
  ROW(K_PAGE_HEADER, 5, W_STRUCT, 0, K_DATA_PAGE_HEADER, 0) \
  ROW(K_PAGE_HEADER, 6, W_STRUCT, 0, K_INDEX_PAGE_HEADER, 0) \
  ROW(K_PAGE_HEADER, 7, W_STRUCT, 0, K_DICT_PAGE_HEADER, 0) \
  ROW(K_PAGE_HEADER, 8, W_STRUCT, 0, K_DATA_PAGE_HEADER_V2, 0) \
  ROW(K_DATA_PAGE_HEADER, 1, W_I32, 0, K_NONE, 1) \
  ROW(K_DATA_PAGE_HEADER, 2, W_I32, 0, K_NONE, 1) \
  ROW(K_DATA_PAGE_HEADER, 3, W_I32, 0, K_NONE, 1) \
  ROW(K_DATA_PAGE_HEADER, 4, W_I32, 0, K_NONE, 1) \
  ROW(K_DATA_PAGE_HEADER, 5, W_STRUCT, 0, K_STATISTICS, 0) \
  ROW(K_DICT_PAGE_HEADER, 1, W_I32, 0, K_NONE, 1) \
  ROW(K_DICT_PAGE_HEADER, 2, W_I32, 0, K_NONE, 1) \
  ROW(K_DICT_PAGE_HEADER, 3, W_BOOL, 0, K_NONE, 0) \
  ROW(K_DATA_PAGE_HEADER_V2, 1, W_I32, 0, K_NONE, 1) \
  ROW(K_DATA_PAGE_HEADER_V2, 2, W_I32, 0, K_NONE, 1) \
  ROW(K_DATA_PAGE_HEADER_V2, 3, W_I32, 0, K_NONE, 1) \
  ROW(K_DATA_PAGE_HEADER_V2, 4, W_I32, 0, K_NONE, 1) \
  ROW(K_DATA_PAGE_HEADER_V2, 5, W_I32, 0, K_NONE, 1) \
  ROW(K_DATA_PAGE_HEADER_V2, 6, W_I32, 0, K_NONE, 1) \
  ROW(K_DATA_PAGE_HEADER_V2, 7, W_BOOL, 0, K_NONE, 0) \
  ROW(K_DATA_PAGE_HEADER_V2, 8, W_STRUCT, 0, K_STATISTICS, 0) \
  ROW(K_STATISTICS, 1, W_BIN, 0, K_NONE, 0) \
  ROW(K_STATISTICS, 2, W_BIN, 0, K_NONE, 0) \
  ROW(K_STATISTICS, 3, W_I64, 0, K_NONE, 0) \
  ROW(K_STATISTICS, 4, W_I64, 0, K_NONE, 0) \
  ROW(K_STATISTICS, 5, W_BIN, 0, K_NONE, 0) \
  ROW(K_STATISTICS, 6, W_BIN, 0, K_NONE, 0) \
  ROW(K_STATISTICS, 7, W_BOOL, 0, K_NONE, 0) \
  ROW(K_STATISTICS, 8, W_BOOL, 0, K_NONE, 0) \
  ROW(K_SCHEMA_ELEMENT, 1, W_I32, 0, K_NONE, 0) \
  ROW(K_SCHEMA_ELEMENT, 2, W_I32, 0, K_NONE, 0) \
  ROW(K_SCHEMA_ELEMENT, 3, W_I32, 0, K_NONE, 0) \
  ROW(K_SCHEMA_ELEMENT, 4, W_BIN, 0, K_NONE, 1) \
  ROW(K_SCHEMA_ELEMENT, 5, W_I32, 0, K_NONE, 0) \
  ROW(K_SCHEMA_ELEMENT, 6, W_I32, 0, K_NONE, 0) \
  ROW(K_SCHEMA_ELEMENT, 7, W_I32, 0, K_NONE, 0) \
  ROW(K_SCHEMA_ELEMENT, 8, W_I32, 0, K_NONE, 0) \
  ROW(K_SCHEMA_ELEMENT, 9, W_I32, 0, K_NONE, 0) \
  ROW(K_SCHEMA_ELEMENT, 10, W_STRUCT, 0, K_LOGICAL_TYPE, 0) \
  ROW(K_LOGICAL_TYPE, 1, W_STRUCT, 0, K_EMPTY, 0) \
  ROW(K_LOGICAL_TYPE, 2, W_STRUCT, 0, K_EMPTY, 0) \
  ROW(K_LOGICAL_TYPE, 3, W_STRUCT, 0, K_EMPTY, 0) \
  ROW(K_LOGICAL_TYPE, 4, W_STRUCT, 0, K_EMPTY, 0) \
  ROW(K_LOGICAL_TYPE, 5, W_STRUCT, 0, K_DECIMAL_TYPE, 0) \
  ROW(K_LOGICAL_TYPE, 6, W_STRUCT, 0, K_EMPTY, 0) \
  ROW(K_LOGICAL_TYPE, 7, W_STRUCT, 0, K_TIME_TYPE, 0) \
  ROW(K_LOGICAL_TYPE, 8, W_STRUCT, 0, K_TIME_TYPE, 0) \
  ROW(K_LOGICAL_TYPE, 10, W_STRUCT, 0, K_INT_TYPE, 0) \
  ROW(K_LOGICAL_TYPE, 11, W_STRUCT, 0, K_EMPTY, 0) \
  ROW(K_LOGICAL_TYPE, 12, W_STRUCT, 0, K_EMPTY, 0) \
  ROW(K_LOGICAL_TYPE, 13, W_STRUCT, 0, K_EMPTY, 0) \
  ROW(K_LOGICAL_TYPE, 14, W_STRUCT, 0, K_EMPTY, 0) \
  ROW(K_LOGICAL_TYPE, 15, W_STRUCT, 0, K_EMPTY, 0) \
  ROW(K_LOGICAL_TYPE, 16, W_STRUCT, 0, K_OPAQUE, 0) \
  ROW(K_LOGICAL_TYPE, 17, W_STRUCT, 0, K_OPAQUE, 0) \
  ROW(K_LOGICAL_TYPE, 18, W_STRUCT, 0, K_OPAQUE, 0) \
  ROW(K_DECIMAL_TYPE, 1, W_I32, 0, K_NONE, 1) \
  ROW(K_DECIMAL_TYPE, 2, W_I32, 0, K_NONE, 1) \
  ROW(K_TIME_TYPE, 1, W_BOOL, 0, K_NONE, 1) \
  ROW(K_TIME_TYPE, 2, W_STRUCT, 0, K_TIME_UNIT, 1) \
  ROW(K_TIME_UNIT, 1, W_STRUCT, 0, K_EMPTY, 0) \
  ROW(K_TIME_UNIT, 2, W_STRUCT, 0, K_EMPTY, 0) \
  ROW(K_TIME_UNIT, 3, W_STRUCT, 0, K_EMPTY, 0) \
  ROW(K_INT_TYPE, 1, W_I8, 0, K_NONE, 1) \
  ROW(K_INT_TYPE, 2, W_BOOL, 0, K_NONE, 1) \
  ROW(K_COLUMN_META, 1, W_I32, 0, K_NONE, 1) \
  ROW(K_COLUMN_META, 2, W_LIST, W_I32, K_NONE, 1) \
  ROW(K_COLUMN_META, 3, W_LIST, W_BIN, K_NONE, 1) \
  ROW(K_COLUMN_META, 4, W_I32, 0, K_NONE, 1) \
  ROW(K_COLUMN_META, 5, W_I64, 0, K_NONE, 1) \
  ROW(K_COLUMN_META, 6, W_I64, 0, K_NONE, 1) \
  ROW(K_COLUMN_META, 7, W_I64, 0, K_NONE, 1) \
  ROW(K_COLUMN_META, 8, W_LIST, W_STRUCT, K_KEY_VALUE, 0) \
  ROW(K_COLUMN_META, 9, W_I64, 0, K_NONE, 1) \
  ROW(K_COLUMN_META, 10, W_I64, 0, K_NONE, 0) \
  ROW(K_COLUMN_META, 11, W_I64, 0, K_NONE, 0) \
  ROW(K_COLUMN_META, 12, W_STRUCT, 0, K_STATISTICS, 0) \
  ROW(K_COLUMN_META, 13, W_LIST, W_STRUCT, K_ENC_STATS, 0) \
  ROW(K_COLUMN_META, 14, W_I64, 0, K_NONE, 0) \
  ROW(K_COLUMN_META, 15, W_I32, 0, K_NONE, 0) \
  ROW(K_COLUMN_META, 16, W_STRUCT, 0, K_OPAQUE, 0) \
  ROW(K_COLUMN_META, 17, W_STRUCT, 0, K_OPAQUE, 0) \
  ROW(K_COLUMN_CHUNK, 1, W_BIN, 0, K_NONE, 0) \
  ROW(K_COLUMN_CHUNK, 2, W_I64, 0, K_NONE, 1) \
  ROW(K_COLUMN_CHUNK, 3, W_STRUCT, 0, K_COLUMN_META, 0) \
  ROW(K_COLUMN_CHUNK, 4, W_I64, 0, K_NONE, 0) \
  ROW(K_COLUMN_CHUNK, 5, W_I32, 0, K_NONE, 0) \
  ROW(K_COLUMN_CHUNK, 6, W_I64, 0, K_NONE, 0) \
  ROW(K_COLUMN_CHUNK, 7, W_I32, 0, K_NONE, 0) \
  ROW(K_COLUMN_CHUNK, 8, W_STRUCT, 0, K_OPAQUE, 0) \
  ROW(K_COLUMN_CHUNK, 9, W_BIN, 0, K_NONE, 0) \
  ROW(K_ROW_GROUP, 1, W_LIST, W_STRUCT, K_COLUMN_CHUNK, 1) \
  ROW(K_ROW_GROUP, 2, W_I64, 0, K_NONE, 1) \
  ROW(K_ROW_GROUP, 3, W_I64, 0, K_NONE, 1) \
  ROW(K_ROW_GROUP, 4, W_LIST, W_STRUCT, K_SORTING_COLUMN, 0) \
  ROW(K_ROW_GROUP, 5, W_I64, 0, K_NONE, 0) \
  ROW(K_ROW_GROUP, 6, W_I64, 0, K_NONE, 0) \
  ROW(K_ROW_GROUP, 7, W_I16, 0, K_NONE, 0) \
  ROW(K_KEY_VALUE, 1, W_BIN, 0, K_NONE, 1) \
  ROW(K_KEY_VALUE, 2, W_BIN, 0, K_NONE, 0) \
  ROW(K_FILE_META, 1, W_I32, 0, K_NONE, 1) \
  ROW(K_FILE_META, 2, W_LIST, W_STRUCT, K_SCHEMA_ELEMENT, 1) \
  ROW(K_FILE_META, 3, W_I64, 0, K_NONE, 1) \
  ROW(K_FILE_META, 4, W_LIST, W_STRUCT, K_ROW_GROUP, 1) \
  ROW(K_FILE_META, 5, W_LIST, W_STRUCT, K_KEY_VALUE, 0) \
  ROW(K_FILE_META, 6, W_BIN, 0, K_NONE, 0) \
  ROW(K_FILE_META, 7, W_LIST, W_STRUCT, K_OPAQUE, 0) \
  ROW(K_FILE_META, 8, W_STRUCT, 0, K_OPAQUE, 0) \
  ROW(K_FILE_META, 9, W_BIN, 0, K_NONE, 0) \
  ROW(K_ENC_STATS, 1, W_I32, 0, K_NONE, 1) \
  ROW(K_ENC_STATS, 2, W_I32, 0, K_NONE, 1) \
  ROW(K_ENC_STATS, 3, W_I32, 0, K_NONE, 1) \
  ROW(K_SORTING_COLUMN, 1, W_I32, 0, K_NONE, 1) \
  ROW(K_SORTING_COLUMN, 2, W_BOOL, 0, K_NONE, 1) \
  ROW(K_SORTING_COLUMN, 3, W_BOOL, 0, K_NONE, 1)

#define CQV_PT_ROW_WIRE(K, ID, W, E, C, R) (k == (K) && id == (ID)) ? (W) :
#define CQV_PT_ROW_ELEM(K, ID, W, E, C, R) (k == (K) && id == (ID)) ? (E) :
#define CQV_PT_ROW_CHILD(K, ID, W, E, C, R) (k == (K) && id == (ID)) ? (int)(C) :
#define CQV_PT_ROW_REQ(K, ID, W, E, C, R) | ((k == (K) && (R)) ? (1u << (ID)) : 0u)

/* declared wire type of field id of struct k; 0 = no such field in the IDL */
static inline int cqv_pt_wire(int k, int id) { return CQV_PT_TABLE(CQV_PT_ROW_WIRE) 0; }
/* element wire type of a list field, else 0 */
static inline int cqv_pt_elem(int k, int id) { return CQV_PT_TABLE(CQV_PT_ROW_ELEM) 0; }
/* struct kind nested in a struct field / a list<struct> field, else K_NONE */
static inline int cqv_pt_child(int k, int id) { return CQV_PT_TABLE(CQV_PT_ROW_CHILD) (int)K_NONE; }
/* bit set of the required field ids of struct k */
static inline unsigned cqv_pt_required(int k) { return 0u CQV_PT_TABLE(CQV_PT_ROW_REQ); }
/* unions: exactly one field must be set */
static inline int cqv_pt_is_union(int k) { return k == K_LOGICAL_TYPE || k == K_TIME_UNIT; }
/* does wire type t (as seen on the wire) match declared type w */
static inline int cqv_pt_wire_matches(int w, int t) { return w == W_BOOL ? (t == 1 || t == 2) : (w != 0 && w == t); }


/* LogicalType union tag -> logical type (names of the carquet public enum carquet_logical_type_id_t; tag 9 is unused in
 * parquet.thrift, 16..18 are VARIANT/GEOMETRY/GEOGRAPHY which carquet has no enumerator for) */
#define CQV_PT_LT_KNOWN(t) ((t) >= 1 && (t) <= 15 && (t) != 9)
#define CQV_PT_LT_ID(t) ((t) == 1 ? CARQUET_LOGICAL_STRING : (t) == 2 ? CARQUET_LOGICAL_MAP : (t) == 3 ? CARQUET_LOGICAL_LIST : \
  (t) == 4 ? CARQUET_LOGICAL_ENUM : (t) == 5 ? CARQUET_LOGICAL_DECIMAL : (t) == 6 ? CARQUET_LOGICAL_DATE : \
  (t) == 7 ? CARQUET_LOGICAL_TIME : (t) == 8 ? CARQUET_LOGICAL_TIMESTAMP : (t) == 10 ? CARQUET_LOGICAL_INTEGER : \
  (t) == 11 ? CARQUET_LOGICAL_NULL : (t) == 12 ? CARQUET_LOGICAL_JSON : (t) == 13 ? CARQUET_LOGICAL_BSON : \
  (t) == 14 ? CARQUET_LOGICAL_UUID : (t) == 15 ? CARQUET_LOGICAL_FLOAT16 : CARQUET_LOGICAL_UNKNOWN)
#endif
