/* XXH64 written from the xxHash specification (doc/xxhash_spec.md, "XXH64 algorithm
 * description", steps 1-7). Index based, shares no code with /repo/src/util/xxhash.c. */
#ifndef XXH64_SPEC_H
#define XXH64_SPEC_H
#include <stddef.h>
#include <stdint.h>
#define SPEC_P1 0x9E3779B185EBCA87ULL
#define SPEC_P2 0xC2B2AE3D27D4EB4FULL
#define SPEC_P3 0x165667B19E3779F9ULL
#define SPEC_P4 0x85EBCA77C2B2AE63ULL
#define SPEC_P5 0x27D4EB2F165667C5ULL
static uint64_t spec_rotl(uint64_t x, unsigned r) { return (x << r) | (x >> (64u - r)); }
static uint64_t spec_lane64(const uint8_t *b, size_t i) {
  uint64_t v = 0;
  for (unsigned k = 0; k < 8; k++) v |= (uint64_t)b[i + k] << (8u * k);
  return v;
}
static uint64_t spec_lane32(const uint8_t *b, size_t i) {
  uint64_t v = 0;
  for (unsigned k = 0; k < 4; k++) v |= (uint64_t)b[i + k] << (8u * k);
  return v;
}
static uint64_t spec_round(uint64_t acc, uint64_t lane) {
  acc = acc + lane * SPEC_P2;
  acc = spec_rotl(acc, 31);
  return acc * SPEC_P1;
}
static uint64_t spec_merge(uint64_t acc, uint64_t accn) {
  acc = acc ^ spec_round(0, accn);
  return acc * SPEC_P1 + SPEC_P4;
}
static uint64_t spec_xxh64(const uint8_t *b, size_t len, uint64_t seed) {
  uint64_t acc;
  size_t i = 0;
  if (len >= 32) {
    uint64_t a1 = seed + SPEC_P1 + SPEC_P2, a2 = seed + SPEC_P2, a3 = seed, a4 = seed - SPEC_P1;
    size_t stripes = len / 32;
    for (size_t s = 0; s < stripes; s++) {
      a1 = spec_round(a1, spec_lane64(b, i));
      a2 = spec_round(a2, spec_lane64(b, i + 8));
      a3 = spec_round(a3, spec_lane64(b, i + 16));
      a4 = spec_round(a4, spec_lane64(b, i + 24));
      i += 32;
    }
    acc = spec_rotl(a1, 1) + spec_rotl(a2, 7) + spec_rotl(a3, 12) + spec_rotl(a4, 18);
    acc = spec_merge(acc, a1);
    acc = spec_merge(acc, a2);
    acc = spec_merge(acc, a3);
    acc = spec_merge(acc, a4);
  } else {
    acc = seed + SPEC_P5;
  }
  acc += (uint64_t)len;
  while (len - i >= 8) {
    acc ^= spec_round(0, spec_lane64(b, i));
    acc = spec_rotl(acc, 27) * SPEC_P1 + SPEC_P4;
    i += 8;
  }
  if (len - i >= 4) {
    acc ^= spec_lane32(b, i) * SPEC_P1;
    acc = spec_rotl(acc, 23) * SPEC_P2 + SPEC_P3;
    i += 4;
  }
  while (len - i >= 1) {
    acc ^= (uint64_t)b[i] * SPEC_P5;
    acc = spec_rotl(acc, 11) * SPEC_P1;
    i += 1;
  }
  acc ^= acc >> 33;
  acc *= SPEC_P2;
  acc ^= acc >> 29;
  acc *= SPEC_P3;
  acc ^= acc >> 32;
  return acc;
}
#endif
