/* Specification side for the RLE / bit-packed hybrid (Parquet Encodings.md, "Run Length Encoding /
 * Bit-Packing Hybrid (RLE = 3)"), written from the format text, not from carquet:
 *
 *   rle-bit-packed-hybrid: <length> <encoded-data>          (length: 4 bytes LE, only when prefixed)
 *   encoded-data   := <run>*
 *   run            := <bit-packed-run> | <rle-run>
 *   bit-packed-run := <bit-packed-header> <bit-packed-values>
 *   bit-packed-header := varint-encode(<bit-pack-scaled-run-len> << 1 | 1)
 *        bit-pack-scaled-run-len := (bit-packed-run-len) / 8     (groups of 8 values, bit_width bytes each)
 *   rle-run        := <rle-header> <repeated-value>
 *   rle-header     := varint-encode( (rle-run-len) << 1)
 *   repeated-value := value that is repeated, using a fixed-width of round-up-to-next-byte(bit-width)
 *   varint-encode  := ULEB-128
 *
 * Everything here is loop free (macros / straight-line functions) so that it may appear in CBMC
 * contracts and in SAT/SMT lemma harnesses.
 */
#ifndef RLE_SPEC_H
#define RLE_SPEC_H
#include <stddef.h>
#include <stdint.h>

/* ---- decoder representation invariant (C08) --------------------------------------------------- */
#define RLE_MAX_BW 255                         /* entry points: the width is one byte in the formats that carry it;
                                                  widths > 32 are rejected by init/decode_levels (/repo fix), so a live
                                                  decoder has bit_width <= 32 (RLE_DEC_INV) */
#define RLE_MAX_RUN ((int64_t)1 << 34)         /* (2^31-1) groups * 8 */
#define RLE_MAX_COUNT ((int64_t)1 << 37)       /* requested values: 4*count <= 2^39 < CQV_MAXBUF */

#define RLE_DEC_INV(d) ( \
  (d)->size <= CQV_MAXBUF && (d)->pos <= (d)->size && \
  (d)->bit_width >= 0 && (d)->bit_width <= 32 && \
  (d)->bitpack_pos >= 0 && (d)->bitpack_pos <= (d)->bitpack_count && (d)->bitpack_count <= 8 && \
  (d)->run_remaining >= 0 && (d)->run_remaining <= RLE_MAX_RUN)

/* the input window is readable (a NULL/any pointer is fine for an empty window) */
#define RLE_DEC_DATA_OK(d) ((d)->size == 0 || __CPROVER_r_ok((d)->data, (d)->size))

/* ---- encoder count preservation (C11), ghost state ---------------------------------------------
 * G_put     : values handed to carquet_rle_encoder_put so far (ghost update at put's entry)
 * G_emitted : values REPRESENTED by the run headers written so far: + (header >> 1) at an RLE header,
 *             + 8 * (header >> 1) at a bit-packed header (ghost updates at the two write_varint sites)
 * Necessary condition for decode(encode(v)) == v taken from the property: every value handed in is
 * either still pending in the encoder or represented in an emitted run, in order, with nothing in
 * between: G_emitted + bitpack_count + repeat_count == G_put.  Padding is legal only at the very end
 * (flush): G_put <= G_emitted < G_put + 8.
 * G_pad     : padding values (zeros that are not input values) placed into emitted groups so far (ghost
 *             update at the padding statement of flush_bitpack).  Positions are preserved only if no run
 *             is emitted after padding: every header site requires G_pad == 0, the invariant carries
 *             G_pad == 0, and after the final flush G_emitted - G_pad == G_put with G_pad < 8.
 * Sequences are limited to 2^31-1 values (Parquet page/chunk value counts are i32; the RLE header
 * carries run_len << 1 in 32 bits). */
#define RLE_ENC_MAX_VALUES ((int64_t)0x7FFFFFFF)
#define RLE_ENC_INV_CORE(e) ( \
  (e)->bit_width >= 0 && (e)->bit_width <= 32 && (e)->buffer != NULL && \
  (e)->bitpack_count >= 0 && (e)->bitpack_count < 8 && (e)->bitpack_total == (e)->bitpack_count && \
  (e)->repeat_count >= 0 && (e)->repeat_count <= RLE_ENC_MAX_VALUES && \
  G_put >= 0 && G_put <= RLE_ENC_MAX_VALUES && G_emitted >= 0 && G_emitted <= G_put && G_pad == 0)
#define RLE_ENC_INV(e) ( RLE_ENC_INV_CORE(e) && \
  ((e)->has_prev || ((e)->repeat_count == 0 && (e)->bitpack_count == 0)) && \
  ((e)->repeat_count >= 1 || (e)->bitpack_count == 0) && \
  G_emitted + (e)->bitpack_count + (e)->repeat_count == G_put)
/* status is sticky; while it is still OK no append has failed (enc_append records the first failure) */
#define RLE_ENC_FRAME \
  __CPROVER_ensures(__CPROVER_old(enc->status) != CARQUET_OK ==> enc->status == __CPROVER_old(enc->status)) \
  __CPROVER_ensures(enc->status == CARQUET_OK ==> rle_append_failures == __CPROVER_old(rle_append_failures))

#ifdef CQV
/* ghost state, defined in stubs/rle_stubs.c (harnesses havoc it: zero-initialised ghosts would make the
 * invariant trivially true on the first call only) */
extern int64_t G_put, G_emitted, G_pad;
extern unsigned rle_append_failures;      /* appends that reported failure (assumed buffer contract) */
#define RLE_REC_CAP 64
extern uint8_t rle_rec[RLE_REC_CAP];      /* bytes appended so far (only with -DRLE_STUB_RECORD) */
extern size_t rle_rec_len;
extern size_t G_zero_rle_pos;            /* decoder position when a zero-length RLE run hands over to the next run */
extern int G_zero_rle_seen;
#ifdef RLE_C12_GHOST
/* the FIRST zero-length RLE run of a start_new_run call chain is recorded; later ones keep it */
#define RLE_ZG , G_zero_rle_pos, G_zero_rle_seen
#define RLE_ZG_SET(p) ((G_zero_rle_seen) ? (void)0 : (void)(G_zero_rle_pos = (p), G_zero_rle_seen = 1))
#define RLE_ZG_LOOP_INV
#else
#define RLE_ZG
#define RLE_ZG_SET(p) ((void)0)
#define RLE_ZG_LOOP_INV
#endif
#ifdef RLE_CHECK_APPEND
#define RLE_APPEND_POST(c) __CPROVER_ensures(c)
#else
#define RLE_APPEND_POST(c)
#endif
#endif

/* ---- ULEB128 (spec side) ----------------------------------------------------------------------
 * SPEC_ULEB_LEN(b0..b4): number of bytes of the varint that starts with b0 (1..5), 0 if none of the
 * first five bytes terminates it.  SPEC_ULEB_VAL: its value (low 32 bits). */
#define SPEC_ULEB_LEN(b0, b1, b2, b3, b4) \
  (((b0) & 0x80) == 0 ? 1 : ((b1) & 0x80) == 0 ? 2 : ((b2) & 0x80) == 0 ? 3 : ((b3) & 0x80) == 0 ? 4 : \
   ((b4) & 0x80) == 0 ? 5 : 0)
#define SPEC_ULEB_VAL(n, b0, b1, b2, b3, b4) \
  ((uint32_t)((b0) & 0x7F) | \
   ((n) >= 2 ? (uint32_t)((b1) & 0x7F) << 7 : 0u) | \
   ((n) >= 3 ? (uint32_t)((b2) & 0x7F) << 14 : 0u) | \
   ((n) >= 4 ? (uint32_t)((b3) & 0x7F) << 21 : 0u) | \
   ((n) >= 5 ? (uint32_t)((b4) & 0x7F) << 28 : 0u))
/* minimal encoding length of v */
#define SPEC_ULEB_ENC_LEN(v) ((v) < 0x80u ? 1 : (v) < 0x4000u ? 2 : (v) < 0x200000u ? 3 : (v) < 0x10000000u ? 4 : 5)
/* k-th byte of the minimal encoding of v (k < SPEC_ULEB_ENC_LEN(v)) */
#define SPEC_ULEB_ENC_BYTE(v, k) \
  ((uint8_t)((((uint32_t)(v) >> (7 * (k))) & 0x7F) | ((k) + 1 < SPEC_ULEB_ENC_LEN(v) ? 0x80 : 0)))

/* ---- run forms --------------------------------------------------------------------------------- */
#define SPEC_RLE_VALUE_BYTES(w) (((w) + 7) >> 3)                  /* round-up-to-next-byte(bit-width) */
#define SPEC_RLE_MASK(w) ((w) >= 32 ? 0xFFFFFFFFu : ((1u << (w)) - 1u))
#define SPEC_RLE_HEADER(run_len) ((uint32_t)(run_len) << 1)       /* rle-header */
#define SPEC_BP_HEADER(groups) (((uint32_t)(groups) << 1) | 1u)   /* bit-packed-header */
#define SPEC_IS_RLE_HEADER(h) (((h) & 1u) == 0)
#define SPEC_HEADER_COUNT(h) ((h) >> 1)
/* repeated value from its little-endian bytes (w <= 32 => at most 4 bytes) */
#define SPEC_RLE_LE_VALUE(nb, b0, b1, b2, b3) \
  (((nb) >= 1 ? (uint32_t)(b0) : 0u) | ((nb) >= 2 ? (uint32_t)(b1) << 8 : 0u) | \
   ((nb) >= 3 ? (uint32_t)(b2) << 16 : 0u) | ((nb) >= 4 ? (uint32_t)(b3) << 24 : 0u))

/* value i (0..7) of one bit-packed group of width w (1..32) stored LSB first in g[0..w-1]:
 * bits [i*w, i*w+w) of the little-endian bit string.  Straight line: a value spans at most 5 bytes. */
static inline uint32_t spec_bp_value(const uint8_t *g, int w, int i) {
  unsigned bit = (unsigned)i * (unsigned)w;
  unsigned byte = bit >> 3, sh = bit & 7;
  unsigned last = (unsigned)w - 1;                     /* index of the last byte of the group */
  uint64_t acc = (uint64_t)g[byte];
  if (byte + 1 <= last) acc |= (uint64_t)g[byte + 1] << 8;
  if (byte + 2 <= last) acc |= (uint64_t)g[byte + 2] << 16;
  if (byte + 3 <= last) acc |= (uint64_t)g[byte + 3] << 24;
  if (byte + 4 <= last) acc |= (uint64_t)g[byte + 4] << 32;
  return (uint32_t)((acc >> sh) & (uint64_t)SPEC_RLE_MASK(w));
}
#endif
