/* Thrift compact protocol, written from doc/specs/thrift-compact-protocol.md (Apache Thrift):
 *   varint      ULEB128: 7 value bits per byte, least significant group first, bit 7 = "more"
 *   zigzag      (n << 1) ^ (n >> 63)  (arithmetic shift), intN sent as zigzag varint
 *   double      8 bytes, little endian (IEEE-754 bits)
 *   binary      varint length, then the bytes
 *   field hdr   short form  dddd tttt   (1 <= field_id - last_id <= 15, d = that delta)
 *               long form   0000 tttt   followed by the field id as zigzag varint (i16)
 *               stop        00000000
 *   list/set    short form  ssss tttt   (size 0..14);  long form 1111 tttt + varint size
 *               bool elements are ONE byte each (the header-embedded form exists for struct fields only)
 *   map         empty: 00000000;  otherwise varint size, then kkkk vvvv
 * Shares no code with /repo/src/thrift.  Pure C, usable under CBMC and natively. */
#ifndef THRIFT_SPEC_H
#define THRIFT_SPEC_H
#include <stddef.h>
#include <stdint.h>

/* ---- wire types (compact protocol field-type / element-type numbers) ---- */
enum { SPEC_T_STOP = 0, SPEC_T_TRUE = 1, SPEC_T_FALSE = 2, SPEC_T_BYTE = 3, SPEC_T_I16 = 4, SPEC_T_I32 = 5,
       SPEC_T_I64 = 6, SPEC_T_DOUBLE = 7, SPEC_T_BINARY = 8, SPEC_T_LIST = 9, SPEC_T_SET = 10, SPEC_T_MAP = 11,
       SPEC_T_STRUCT = 12, SPEC_T_UUID = 13 };

/* ---- varint ---- */
static inline unsigned spec_varint_len(uint64_t v) {
  unsigned n = 1;
  if (v >> 7) n = 2;
  if (v >> 14) n = 3;
  if (v >> 21) n = 4;
  if (v >> 28) n = 5;
  if (v >> 35) n = 6;
  if (v >> 42) n = 7;
  if (v >> 49) n = 8;
  if (v >> 56) n = 9;
  if (v >> 63) n = 10;
  return n;
}
/* i-th byte (i < spec_varint_len(v)) of the encoding of v */
static inline uint8_t spec_varint_byte(uint64_t v, unsigned i) {
  unsigned sh = (i << 3) - i; /* 7*i */
  uint64_t rest = sh < 64 ? (v >> sh) : 0;
  return (uint8_t)((rest & 0x7F) | ((rest >> 7) ? 0x80 : 0));
}
/* independent decoder: value of the varint starting at p[0] (n bytes available); *used = bytes
 * consumed, 0 if truncated or longer than 10 bytes */
static inline uint64_t spec_varint_decode(const uint8_t *p, size_t n, unsigned *used) {
  uint64_t v = 0;
  *used = 0;
  for (unsigned i = 0; i < 10; i++) {
    if (i >= n) return 0;
    v |= (uint64_t)(p[i] & 0x7F) << ((i << 3) - i);
    if (!(p[i] & 0x80)) { *used = i + 1; return v; }
  }
  return 0;
}

/* ---- zigzag ---- */
static inline uint64_t spec_zigzag(int64_t n) { return n >= 0 ? ((uint64_t)n << 1) : (((uint64_t)(-(n + 1)) << 1) | 1); }
static inline int64_t spec_unzigzag(uint64_t z) { return (z & 1) ? -(int64_t)(z >> 1) - 1 : (int64_t)(z >> 1); }

/* ---- field header ---- */
static inline int spec_field_short(int last_id, int field_id) { return field_id - last_id >= 1 && field_id - last_id <= 15; }
static inline uint8_t spec_field_byte0(int last_id, int field_id, int type) {
  return spec_field_short(last_id, field_id) ? (uint8_t)(((field_id - last_id) << 4) | (type & 15)) : (uint8_t)(type & 15);
}
/* ---- list header ---- */
static inline uint8_t spec_list_byte0(int32_t count, int type) {
  return count <= 14 ? (uint8_t)((count << 4) | (type & 15)) : (uint8_t)(0xF0 | (type & 15));
}

/* ---- width of a fixed-width value of wire type t inside a container (0 = not fixed width) ---- */
static inline unsigned spec_elem_fixed_width(int t) {
  return (t == SPEC_T_TRUE || t == SPEC_T_FALSE || t == SPEC_T_BYTE) ? 1u : t == SPEC_T_DOUBLE ? 8u : t == SPEC_T_UUID ? 16u : 0u;
}

/* ---- independent skipper (native replay / demos): bytes occupied by one value of wire type t at
 * p[0..n); -1 if truncated, malformed, or nested deeper than SPEC_MAX_DEPTH.  in_container: a bool
 * occupies one byte (as list/set element or map key/value); as a struct field value it occupies none.
 * Sizes are read like common readers do: low 32 bits of the varint, negative => malformed. ---- */
#define SPEC_MAX_DEPTH 64
static long spec_skip_value(const uint8_t *p, size_t n, int t, int in_container, int depth) {
  unsigned u; uint64_t v; size_t pos = 0;
  if (depth > SPEC_MAX_DEPTH) return -1;
  switch (t) {
    case SPEC_T_TRUE: case SPEC_T_FALSE: return in_container ? (n >= 1 ? 1 : -1) : 0;
    case SPEC_T_BYTE: return n >= 1 ? 1 : -1;
    case SPEC_T_I16: case SPEC_T_I32: case SPEC_T_I64: spec_varint_decode(p, n, &u); return u ? (long)u : -1;
    case SPEC_T_DOUBLE: return n >= 8 ? 8 : -1;
    case SPEC_T_UUID: return n >= 16 ? 16 : -1;
    case SPEC_T_BINARY:
      v = spec_varint_decode(p, n, &u);
      if (!u || (int32_t)(uint32_t)v < 0 || (uint64_t)(uint32_t)v > n - u) return -1;
      return (long)(u + (uint32_t)v);
    case SPEC_T_LIST: case SPEC_T_SET: {
      if (n < 1) return -1;
      int et = p[0] & 15; uint64_t cnt = p[0] >> 4; pos = 1;
      if (cnt == 15) { cnt = spec_varint_decode(p + 1, n - 1, &u); if (!u || (int32_t)(uint32_t)cnt < 0) return -1; cnt = (uint32_t)cnt; pos += u; }
      if (cnt > n - pos) return -1;
      for (uint64_t i = 0; i < cnt; i++) { long r = spec_skip_value(p + pos, n - pos, et, 1, depth + 1); if (r < 0) return -1; pos += (size_t)r; }
      return (long)pos;
    }
    case SPEC_T_MAP: {
      uint64_t cnt = spec_varint_decode(p, n, &u);
      if (!u || (int32_t)(uint32_t)cnt < 0) return -1;
      cnt = (uint32_t)cnt; pos = u;
      if (cnt == 0) return (long)pos;
      if (pos >= n || cnt > n - pos) return -1;
      int kt = p[pos] >> 4, vt = p[pos] & 15; pos++;
      for (uint64_t i = 0; i < cnt; i++) {
        long r = spec_skip_value(p + pos, n - pos, kt, 1, depth + 1); if (r < 0) return -1; pos += (size_t)r;
        r = spec_skip_value(p + pos, n - pos, vt, 1, depth + 1); if (r < 0) return -1; pos += (size_t)r;
      }
      return (long)pos;
    }
    case SPEC_T_STRUCT: {
      for (;;) {
        if (pos >= n) return -1;
        uint8_t h = p[pos++];
        if (h == 0) return (long)pos;
        if ((h >> 4) == 0) { spec_varint_decode(p + pos, n - pos, &u); if (!u) return -1; pos += u; }
        long r = spec_skip_value(p + pos, n - pos, h & 15, 0, depth + 1); if (r < 0) return -1; pos += (size_t)r;
      }
    }
    default: return -1;
  }
}

#ifdef CQV
/* ======================= contract vocabulary (CBMC side only) ======================= */
/* representation invariant of thrift_decoder_t */
#define TD_INV(d) ((d)->reader.pos <= (d)->reader.size && (d)->reader.size <= CQV_MAXBUF && \
                   (d)->nesting_level >= 0 && (d)->nesting_level <= THRIFT_MAX_NESTING)
/* a usable decoder: the struct is accessible, the invariant holds, the input bytes are readable */
#define TD_PRE(d) (__CPROVER_rw_ok((d), sizeof(*(d))) && TD_INV(d) && \
                   __CPROVER_r_ok((d)->reader.data, (d)->reader.size))
/* explicit index obligation for last_field_id[]: CBMC checks arrays that live inside an object reached
 * through a pointer only against the WHOLE object (measured: last_field_id[-1] passes --bounds-check),
 * so every indexing site carries this assertion (inserted by the overlay just before the access) */
#define CQV_LFI_INDEX(i) __CPROVER_assert((i) >= 0 && (i) < THRIFT_MAX_NESTING, "last_field_id[] index within 0..THRIFT_MAX_NESTING-1")
/* what a primitive may modify: cursor and error state */
#define TD_ASSIGNS_CUR(d) (d)->reader.pos, (d)->status, __CPROVER_object_upto((d)->error_message, sizeof((d)->error_message))
/* ... plus the struct/bool bookkeeping */
#define TD_ASSIGNS_ALL(d) TD_ASSIGNS_CUR(d), (d)->nesting_level, (d)->bool_pending, (d)->bool_value, \
                          __CPROVER_object_upto((d)->last_field_id, sizeof((d)->last_field_id))
/* after any call: invariant kept, cursor never moves back, an earlier error is never overwritten */
#define TD_POST(d) (TD_INV(d) && (d)->reader.pos >= __CPROVER_old((d)->reader.pos) && \
                    (__CPROVER_old((d)->status) == CARQUET_OK || (d)->status == __CPROVER_old((d)->status)))
#define TD_ADV(d) ((d)->reader.pos - __CPROVER_old((d)->reader.pos))
/* progress: if no error is (or was) recorded, input was consumed */
#define TD_PROGRESS(d) ((d)->status != CARQUET_OK || (d)->reader.pos > __CPROVER_old((d)->reader.pos))

/* recursion-depth ghost for thrift_skip (C04 "never overflows the stack"): cqv_skip_depth = number of
 * thrift_skip frames active above the current call.  Candidate bound: one frame per struct nesting
 * level, i.e. depth <= nesting_level <= THRIFT_MAX_NESTING. */
#ifdef CQV_SKIP_DEPTH
#define TD_DEPTH_OK(d) ((d)->status != CARQUET_OK || cqv_skip_depth <= (unsigned)(d)->nesting_level)
#define CQV_SKIP_ENTRY_CHECK(d) __CPROVER_assert((d)->status != CARQUET_OK || cqv_skip_depth <= THRIFT_MAX_NESTING, "thrift_skip recursion depth is at most THRIFT_MAX_NESTING frames")
#else
#define TD_DEPTH_OK(d) 1
#define CQV_SKIP_ENTRY_CHECK(d) ((void)0)
#endif
/* exactness of thrift_skip (C13 "skipping unknown fields of every wire type"), enabled by -DCQV_SKIP_EXACT:
 * a value of a fixed-width wire type occupies exactly its width (bool FIELD values live in the field
 * header: 0 bytes; bool container ELEMENTS are one byte each), so a list/set of n fixed-width
 * elements occupies header + n*width bytes. */
#define SPEC_IS_FIXED(t) ((t) == THRIFT_TYPE_TRUE || (t) == THRIFT_TYPE_FALSE || (t) == THRIFT_TYPE_BYTE || \
                          (t) == THRIFT_TYPE_DOUBLE || (t) == THRIFT_TYPE_UUID)
#define SPEC_FIELD_WIDTH(t) ((t) == THRIFT_TYPE_BYTE ? (size_t)1 : (t) == THRIFT_TYPE_DOUBLE ? (size_t)8 : \
                             (t) == THRIFT_TYPE_UUID ? (size_t)16 : (size_t)0)
#define SPEC_ELEM_SH(t) ((t) == THRIFT_TYPE_DOUBLE ? 3 : (t) == THRIFT_TYPE_UUID ? 4 : 0) /* log2 of element width */
#ifdef CQV_SKIP_EXACT
#define TD_SKIP_EXACT(dec, type) \
  __CPROVER_ensures((__CPROVER_old((dec)->status) == CARQUET_OK && (dec)->status == CARQUET_OK && SPEC_IS_FIXED(type)) ==> \
                    TD_ADV(dec) == SPEC_FIELD_WIDTH(type))
#define CQV_LIST_EXACT_INV (dec->status != CARQUET_OK || !SPEC_IS_FIXED(elem_type) || \
                            dec->reader.pos == cqv_p1 + ((size_t)i << SPEC_ELEM_SH(elem_type)))
#define CQV_LIST_EXACT_CHECK __CPROVER_assert(dec->status != CARQUET_OK || !SPEC_IS_FIXED(elem_type) || \
                            dec->reader.pos == cqv_p1 + ((size_t)count << SPEC_ELEM_SH(elem_type)), \
                            "skip of list/set<fixed-width T> consumes exactly count * width element bytes (bool elements: 1 byte each)")
/* map<K,V> with both K and V fixed width: header + count * (width K + width V) */
#define CQV_MAP_EXACT_INV (dec->status != CARQUET_OK || !SPEC_IS_FIXED(key_type) || !SPEC_IS_FIXED(value_type) || \
                           dec->reader.pos == cqv_p2 + ((size_t)i << SPEC_ELEM_SH(key_type)) + ((size_t)i << SPEC_ELEM_SH(value_type)))
#define CQV_MAP_EXACT_CHECK __CPROVER_assert(dec->status != CARQUET_OK || !SPEC_IS_FIXED(key_type) || !SPEC_IS_FIXED(value_type) || \
                           dec->reader.pos == cqv_p2 + ((size_t)count << SPEC_ELEM_SH(key_type)) + ((size_t)count << SPEC_ELEM_SH(value_type)), \
                           "skip of map<fixed-width K, fixed-width V> consumes exactly count * (width K + width V) entry bytes (bool keys/values: 1 byte each)")
#else
#define TD_SKIP_EXACT(dec, type)
#define CQV_LIST_EXACT_INV 1
#define CQV_LIST_EXACT_CHECK ((void)0)
#define CQV_MAP_EXACT_INV 1
#define CQV_MAP_EXACT_CHECK ((void)0)
#endif
/* contract of thrift_skip, shared verbatim by the function and its recursion twin thrift_skip__rec:
 * safe on any decoder state; invariant kept; cursor monotone; errors sticky; balanced nesting on success */
#define THRIFT_SKIP_CONTRACT(dec, type) \
  __CPROVER_requires(TD_PRE(dec)) \
  __CPROVER_requires(TD_DEPTH_OK(dec)) \
  __CPROVER_assigns(TD_ASSIGNS_ALL(dec), cqv_skip_depth) \
  __CPROVER_ensures(TD_POST(dec)) \
  __CPROVER_ensures((dec)->status == CARQUET_OK ==> (dec)->nesting_level == __CPROVER_old((dec)->nesting_level)) \
  __CPROVER_ensures(cqv_skip_depth == __CPROVER_old(cqv_skip_depth)) \
  TD_SKIP_EXACT(dec, type)
#endif /* CQV */
#endif
