/* DELTA_BINARY_PACKED / DELTA_LENGTH_BYTE_ARRAY / DELTA_BYTE_ARRAY: specification side.
 * Written from Apache Parquet Encodings.md ("Delta Encoding (DELTA_BINARY_PACKED = 5)"):
 *   header  := <block size in values: ULEB128> <miniblocks per block: ULEB128> <total value count: ULEB128>
 *              <first value: zigzag ULEB128>
 *   block   := <min delta: zigzag ULEB128> <bitwidth of miniblock: 1 byte each> <miniblocks>
 *   miniblock := (block size / miniblocks per block) values bit-packed LSB first at the listed width
 *   block size is a multiple of 128, miniblock size a multiple of 32; a miniblock of width w therefore
 *   occupies exactly (miniblock size) * w / 8 bytes, for EVERY w in 0..64.
 * Nothing here is taken from carquet's sources. */
#ifndef DELTA_SPEC_H
#define DELTA_SPEC_H
#include <stddef.h>
#include <stdint.h>

#define SPEC_DELTA_BLOCK 128
#define SPEC_DELTA_MINIBLOCKS 4
#define SPEC_DELTA_MINIBLOCK 32

/* zigzag (Encodings.md refers to the protobuf definition) */
#define SPEC_ZIGZAG64(n) ((((uint64_t)(int64_t)(n)) << 1) ^ (uint64_t)(((int64_t)(n)) < 0 ? ~(uint64_t)0 : (uint64_t)0))
#define SPEC_UNZIGZAG64(u) ((int64_t)((((uint64_t)(u)) >> 1) ^ ((((uint64_t)(u)) & 1) ? ~(uint64_t)0 : (uint64_t)0)))

/* number of bytes of the ULEB128 form of a 64-bit value */
#define SPEC_ULEB_LEN(v) ((uint64_t)(v) < (1ull << 7) ? 1 : (uint64_t)(v) < (1ull << 14) ? 2 : (uint64_t)(v) < (1ull << 21) ? 3 : \
  (uint64_t)(v) < (1ull << 28) ? 4 : (uint64_t)(v) < (1ull << 35) ? 5 : (uint64_t)(v) < (1ull << 42) ? 6 : \
  (uint64_t)(v) < (1ull << 49) ? 7 : (uint64_t)(v) < (1ull << 56) ? 8 : (uint64_t)(v) < (1ull << 63) ? 9 : 10)
/* byte k (k < SPEC_ULEB_LEN) of the ULEB128 form */
#define SPEC_ULEB_BYTE(v, k) ((uint8_t)((((uint64_t)(v)) >> (7 * (k))) & 0x7F) | (((k) + 1 < SPEC_ULEB_LEN(v)) ? 0x80 : 0))

/* minimal width: smallest w with v < 2^w */
static inline int spec_width64(uint64_t v) {
  int w = 0;
  for (int k = 0; k < 64; k++) if ((v >> k) != 0) w = k + 1;
  return w;
}

/* bit j of packed value i at width w sits at absolute bit i*w+j, LSB first inside each byte */
#define SPEC_PACKED_BIT(buf, i, w, j) ((((buf)[((size_t)(i) * (w) + (j)) >> 3]) >> (((size_t)(i) * (w) + (j)) & 7)) & 1)

/* independent reader of one bit-packed value (width 0..64) */
static inline uint64_t spec_unpack_at(const uint8_t *buf, unsigned i, unsigned w) {
  uint64_t v = 0;
  for (unsigned j = 0; j < 64; j++) if (j < w) v |= (uint64_t)SPEC_PACKED_BIT(buf, i, w, j) << j;
  return v;
}

#ifdef CQV
/* ghost state referred to by contracts/delta*.ovl (verification side only) */
size_t cqv_k;          /* arbitrary index: stands for "every k" */
int64_t cqv_dummy;     /* valid assigns target when an output array is absent */
int cqv_dec_fail;      /* ghost: set when the header parser or a value step of a one-shot decode failed */
uint8_t cqv_w[4];      /* flush_block: widths chosen for the 4 mini-blocks */
int64_t cqv_min;       /* flush_block: min delta written */
size_t cqv_needed;     /* flush_block: the encoder's packed_bytes_needed */
#endif

/* ---- state invariants of carquet's delta_decoder_t, used by the contracts (verification side) ---- */
/* immutable part, established by delta_decoder_init: header fields are attacker-controlled */
#define DELTA_DEC_HDR(d) ((d)->size <= CQV_MAXBUF \
  && (d)->mini_blocks_per_block >= 1 && (d)->mini_blocks_per_block <= 4 \
  && (d)->block_size >= 1 && (d)->block_size <= 128 \
  && (d)->block_size / (d)->mini_blocks_per_block <= 32)
/* moving part */
#define DELTA_DEC_CUR(d) ((d)->pos <= (d)->size \
  && (d)->current_mini_block >= 0 && (d)->current_mini_block <= (d)->mini_blocks_per_block \
  && (d)->values_in_mini_block >= 0 && (d)->values_in_mini_block <= 32 \
  && (d)->mini_block_pos >= 0 && (d)->mini_block_pos <= 32 && (d)->values_decoded >= 0)

/* what delta_encoder_flush_block accounts per mini-block of width w (its packed_bytes_needed, delta.c:390-399): the capacity
 * guard is only as good as this sum, so 'bytes written == this sum' is the safety-relevant identity.  Shifts, no products. */
#define DELTA_ENC_PAY(w) ((w) == 0 ? (size_t)0 : (w) <= 32 ? ((size_t)(w) << 2) : ((((size_t)(w) + 7) >> 3) << 5))
#define DELTA_ENC_SUM(bw, n) (((n) > 0 ? DELTA_ENC_PAY((bw)[0]) : (size_t)0) + ((n) > 1 ? DELTA_ENC_PAY((bw)[1]) : (size_t)0) + \
                              ((n) > 2 ? DELTA_ENC_PAY((bw)[2]) : (size_t)0) + ((n) > 3 ? DELTA_ENC_PAY((bw)[3]) : (size_t)0))
/* facts about the already chosen width j (j < n): at most 64, mirrored in the ghost, and non-zero only for a mini-block that has values */
#define DELTA_ENC_WOK(bw, gw, j, n, count) ((n) <= (j) || ((bw)[j] <= 64 && (gw)[j] == (bw)[j] && ((bw)[j] == 0 || ((j) << 5) < (count))))
/* proof cut: the condition is first PROVED at this point (counted obligation), then made available as a single fact to the
 * obligations that follow; it adds no assumption that is not discharged right here. */
#define CQV_CUT(c, msg) { __CPROVER_assert((c), msg); __CPROVER_assume(c); }
/* x * m for 5 <= m <= 8 (bytes per value of a width 33..64), as shifts and adds */
#define DELTA_MUL58(x, m) ((m) == 5 ? (((size_t)(x)) << 2) + ((size_t)(x)) : (m) == 6 ? (((size_t)(x)) << 2) + (((size_t)(x)) << 1) : \
                           (m) == 7 ? (((size_t)(x)) << 3) - ((size_t)(x)) : (((size_t)(x)) << 3))
/* adjusted delta fits in w bits (mod 2^64 arithmetic) */
#define DELTA_FITS(d, mn, w) ((w) <= 64 && ((w) == 64 || ((((uint64_t)(d)) - ((uint64_t)(mn))) >> ((w) & 63)) == 0))
#ifdef CQV_ULEB_BYTES
#define DELTA_ULEB_BYTES(x) (x)
#else
#define DELTA_ULEB_BYTES(x) 1
#endif
/* job-selectable parts of the flush_block postcondition (one concern per job keeps each query small) */
#ifdef CQV_FLUSH_ACCOUNT
#define DELTA_FLUSH_ACCOUNT(x) (x)
#else
#define DELTA_FLUSH_ACCOUNT(x) 1
#endif
#ifdef CQV_FLUSH_FIT
#define DELTA_FLUSH_FIT(x) (x)
#else
#define DELTA_FLUSH_FIT(x) 1
#endif
/* C12, size of the mini-block payload of one block: sum over the 4 mini-blocks of 32*w/8 = 4*w bytes (every w <= 64).
 * Compiled in only for the job that checks the byte layout against the specification. */
#ifdef CQV_SPEC_SIZE
#define DELTA_FLUSH_SPEC_SIZE(needed, w) ((needed) == (((size_t)(w)[0] + (size_t)(w)[1] + (size_t)(w)[2] + (size_t)(w)[3]) << 2))
#else
#define DELTA_FLUSH_SPEC_SIZE(needed, w) 1
#endif
#endif
