/* Snappy raw block format, written from format_description.txt (google/snappy), NOT from carquet.
 *
 *  stream   := preamble element*
 *  preamble := uncompressed length as little-endian base-128 varint (7 data bits per byte, high bit
 *              = continuation), value in 0 .. 2^32-1, at most 5 bytes
 *  element  := tag byte, low two bits select the element type
 *    00 literal : upper six bits m.  m < 60: length = m+1, data follows the tag.
 *                 m = 60,61,62,63: length-1 is stored in the following 1,2,3,4 bytes, little-endian.
 *    01 copy, 1-byte offset: length = 4 + bits[2..4]  (4..11); offset is 11 bits: bits[5..7] of the
 *                 tag are the upper three bits, the next byte the lower eight.  (0..2047)
 *    10 copy, 2-byte offset: length = 1 + upper six bits (1..64); offset = next two bytes, little-endian
 *    11 copy, 4-byte offset: length = 1 + upper six bits (1..64); offset = next four bytes, little-endian
 *  A copy with offset 0 is invalid; a copy may not reach before the start of the output; copies may
 *  overlap their own output (offset < length: byte-by-byte semantics).
 *
 * Used (a) under CBMC as the oracle for the bytes carquet's emitters write, (b) natively as an
 * independent decoder in the replay harnesses. */
#ifndef SNAPPY_SPEC_H
#define SNAPPY_SPEC_H
#include <stddef.h>
#include <stdint.h>

#define SNAPPY_SPEC_LITERAL 0
#define SNAPPY_SPEC_COPY 1

typedef struct {
  int ok;          /* 0: not a complete/valid element header in the bytes given */
  int kind;        /* SNAPPY_SPEC_LITERAL / SNAPPY_SPEC_COPY */
  int tagtype;     /* 0..3, the low two bits */
  size_t hdr;      /* bytes of header (tag + length/offset bytes) */
  uint64_t len;    /* literal: number of data bytes after the header; copy: bytes to copy */
  uint64_t offset; /* copy only */
} snappy_spec_elem_t;

/* parse ONE element header from p[0..avail) */
static inline snappy_spec_elem_t snappy_spec_parse_elem(const uint8_t *p, size_t avail) {
  snappy_spec_elem_t e;
  e.ok = 0; e.kind = 0; e.tagtype = 0; e.hdr = 0; e.len = 0; e.offset = 0;
  if (avail < 1) return e;
  uint8_t tag = p[0];
  unsigned t = tag & 3u;
  unsigned up = tag >> 2;
  e.tagtype = (int)t;
  if (t == 0) {
    e.kind = SNAPPY_SPEC_LITERAL;
    if (up < 60) { e.hdr = 1; e.len = (uint64_t)up + 1; e.ok = 1; return e; }
    size_t nb = (size_t)up - 59; /* 1..4 */
    if (avail < 1 + nb) return e;
    uint64_t v = 0;
    if (nb >= 1) v |= (uint64_t)p[1];
    if (nb >= 2) v |= (uint64_t)p[2] << 8;
    if (nb >= 3) v |= (uint64_t)p[3] << 16;
    if (nb >= 4) v |= (uint64_t)p[4] << 24;
    e.hdr = 1 + nb; e.len = v + 1; e.ok = 1;
    return e;
  }
  e.kind = SNAPPY_SPEC_COPY;
  if (t == 1) {
    if (avail < 2) return e;
    e.hdr = 2;
    e.len = 4 + ((tag >> 2) & 7u);
    e.offset = ((uint64_t)(tag >> 5) << 8) | p[1];
  } else if (t == 2) {
    if (avail < 3) return e;
    e.hdr = 3;
    e.len = 1 + (uint64_t)up;
    e.offset = (uint64_t)p[1] | ((uint64_t)p[2] << 8);
  } else {
    if (avail < 5) return e;
    e.hdr = 5;
    e.len = 1 + (uint64_t)up;
    e.offset = (uint64_t)p[1] | ((uint64_t)p[2] << 8) | ((uint64_t)p[3] << 16) | ((uint64_t)p[4] << 24);
  }
  e.ok = e.offset != 0;
  return e;
}

/* preamble: returns number of bytes (1..5) or 0 when truncated / longer than 5 bytes / >= 2^32 */
static inline size_t snappy_spec_parse_preamble(const uint8_t *p, size_t avail, uint64_t *value) {
  uint64_t v = 0;
  for (size_t i = 0; i < 5; i++) {
    if (i >= avail) return 0;
    uint8_t b = p[i];
    v |= (uint64_t)(b & 0x7f) << (7 * i);
    if (!(b & 0x80)) {
      if (v > 0xFFFFFFFFull) return 0;
      *value = v;
      return i + 1;
    }
  }
  return 0;
}

/* size of the header the format needs for a literal of n data bytes (1 <= n <= 2^32):
 * shortest form the format offers is not mandatory, but these are the class boundaries of the
 * length field widths (60 / 2^8 / 2^16 / 2^24 / 2^32) */
#define SNAPPY_SPEC_LIT_HDR(n) ((size_t)((n) <= 60 ? 1 : (n) <= 256 ? 2 : (n) <= 65536 ? 3 : (n) <= 16777216 ? 4 : 5))

/* number of bytes of the preamble for value v */
#define SNAPPY_SPEC_VARINT_LEN(v) ((size_t)((v) < 0x80u ? 1 : (v) < 0x4000u ? 2 : (v) < 0x200000u ? 3 : (v) < 0x10000000u ? 4 : 5))

#ifndef __CPROVER__
/* Independent whole-block decoder (native use only: replay harnesses).
 * returns 0 on success, negative on an invalid stream; *out_len = decoded length. */
static inline int snappy_spec_decode(const uint8_t *in, size_t n, uint8_t *out, size_t cap, size_t *out_len) {
  uint64_t ulen;
  size_t pos = snappy_spec_parse_preamble(in, n, &ulen);
  if (pos == 0) return -1;
  if (ulen > cap) return -2;
  size_t o = 0;
  while (pos < n) {
    snappy_spec_elem_t e = snappy_spec_parse_elem(in + pos, n - pos);
    if (!e.ok) return -3;
    pos += e.hdr;
    if (e.kind == SNAPPY_SPEC_LITERAL) {
      if (e.len > n - pos) return -4;
      if (e.len > ulen - o) return -5;
      for (uint64_t i = 0; i < e.len; i++) out[o + i] = in[pos + i];
      pos += e.len; o += e.len;
    } else {
      if (e.offset == 0 || e.offset > o) return -6;
      if (e.len > ulen - o) return -7;
      for (uint64_t i = 0; i < e.len; i++) { out[o] = out[o - e.offset]; o++; }
    }
  }
  if (o != ulen) return -8;
  *out_len = o;
  return 0;
}
#endif
#endif
