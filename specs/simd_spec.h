/* C15 — scalar DEFINITIONS of the SIMD kernels (what every ISA variant must compute), written
 * from the property statement / Parquet format, not from the code.  All are per-element
 * (ghost index k) formulations so that contracts need no quantifier:
 *
 *  prefix sum      out[k] = (k == 0 ? initial : out[k-1]) + in[k]      (two's complement, wraps)
 *                  -- the unique solution of this recurrence is initial + in[0] + ... + in[k]
 *  gather          out[k] = dict[indices[k]]
 *  BSS encode W    out[b*count + k] = byte b of value k          (b < W, W = 4 float / 8 double)
 *  BSS decode W    byte b of value k = data[b*count + k]
 *  unpack bools    out[k] = bit (k mod 8) of in[k div 8]   (LSB first), a byte that is 0 or 1
 *  pack bools      bit (k mod 8) of out[k div 8] = (in[k] != 0); padding bits of the last byte 0
 *                  domain: the scalar kernel accepts every byte value as a truth value
 *  run length      r = number of leading elements equal to v[0] (0 if count == 0):
 *                  r <= count, v[j] == v[0] for j < r, r == count or v[r] != v[0]
 *  count non-null  number of k with def[k] == max; stated incrementally with a ghost prefix count
 *  null bitmap     bit (k mod 8) of bm[k div 8] = (def[k] < max); full bytes are overwritten
 *  fill            out[k] = value
 *  match copy      byte-serial forward copy: dst[k] = (k < offset ? src[k] : dst[k-offset]) when
 *                  src == dst - offset (LZ77 overlap semantics); dst[k] = src[k] otherwise
 *  match length    r = length of the common prefix of p.. and match.., capped at limit - p
 *  crc32c          CRC-32C (Castagnoli, reflected 0x82F63B78), init/xorout ~: byte step below
 */
#ifndef SIMD_SPEC_H
#define SIMD_SPEC_H
#include <stdint.h>

/* one bit-serial step of reflected CRC-32C over one byte (RFC 3720 B.4 polynomial 0x1EDC6F41) */
static inline uint32_t spec_crc32c_byte(uint32_t crc, uint8_t b) {
  crc ^= b;
  for (int k = 0; k < 8; k++) crc = (crc >> 1) ^ (0x82F63B78u & (0u - (crc & 1u)));
  return crc;
}


/* element-count domain of the kernels: 0 <= count <= 2^36 (8-byte elements stay below the 2^40 object bound) */
#define CQV_CNT_MAX ((int64_t)1 << 36)
/* kernels whose code narrows the element index to int (bool pack/unpack) get this as a job define */
#ifndef CQV_BOOLS_MAX
#define CQV_BOOLS_MAX CQV_CNT_MAX
#endif
/* dictionary gathers: the dictionary object covers every 32-bit index (2^32 entries), so that
 * "all indices valid" -- the caller's obligation -- needs no quantified precondition */
#define SPEC_DICT_ALL ((size_t)1 << 32)
/* two's complement additions (the vector units wrap) */
#define SPEC_ADD32(a, b) ((int32_t)((uint32_t)(a) + (uint32_t)(b)))
#define SPEC_ADD64(a, b) ((int64_t)((uint64_t)(a) + (uint64_t)(b)))
/* b * c for a stream number b in 0..7 without a multiplier */
#define SPEC_BMUL(b, c) ((((b) & 1) ? (c) : 0) + (((b) & 2) ? ((c) << 1) : 0) + (((b) & 4) ? ((c) << 2) : 0))
#define SPEC_K_IN(n) (0 <= cqv_k && cqv_k < (n))
#define SPEC_ROUNDUP8(n) ((((n) + 7) >> 3) << 3)
#define SPEC_U32(p) ((const uint32_t *)(p))
#define SPEC_U64(p) ((const uint64_t *)(p))
#define SPEC_U8(p) ((const uint8_t *)(p))


/* pack_bools domain: by default every byte value is a truth value (what the scalar kernel accepts);
 * -DCQV_BOOL01 restricts the claim, element by element, to bytes that are 0 or 1 */
#ifdef CQV_BOOL01
#define SPEC_BOOL_DOMAIN(x) ((x) <= 1)
#else
#define SPEC_BOOL_DOMAIN(x) 1
#endif
/* CRC-32C framing: init/xorout inversion as the scalar kernel (and RFC 3720) apply it;
 * -DCQV_CRC_RAW states the raw accumulate (no inversion) instead */
#ifdef CQV_CRC_RAW
#define SPEC_CRC_PRE(x) (x)
#define SPEC_CRC_POST(x) (x)
#else
#define SPEC_CRC_PRE(x) (~(x))
#define SPEC_CRC_POST(x) (~(x))
#endif
#define SPEC_CRC2(a, p) spec_crc32c_byte(spec_crc32c_byte((a), (p)[0]), (p)[1])
#define SPEC_CRC4(a, p) SPEC_CRC2(SPEC_CRC2((a), (p)), (p) + 2)
#define SPEC_CRC8(a, p) SPEC_CRC4(SPEC_CRC4((a), (p)), (p) + 4)
/* number of the 8 levels p[0..7] equal to m */
#define SPEC_EQ1(p, j, m) (((p)[j] == (m)) ? 1 : 0)
#define SPEC_EQ8(p, m) (SPEC_EQ1(p, 0, m) + SPEC_EQ1(p, 1, m) + SPEC_EQ1(p, 2, m) + SPEC_EQ1(p, 3, m) + SPEC_EQ1(p, 4, m) + SPEC_EQ1(p, 5, m) + SPEC_EQ1(p, 6, m) + SPEC_EQ1(p, 7, m))

#define SPEC_BIT(bytes, k) ((uint8_t)(((bytes)[(k) >> 3] >> ((k) & 7)) & 1))

/* dispatcher: which ISA a kernel family is compiled for (CMakeLists.txt COMPILE_FLAGS):
 *   sse_ops.c    -msse4.2                          -> needs has_sse42
 *   avx2_ops.c   -mavx2                            -> needs has_avx2
 *   avx512_ops.c -mavx512f -mavx512bw -mavx512vl   -> needs has_avx512f && has_avx512bw && has_avx512vl */
#define SPEC_CPU_OK_SSE(c) ((c)->has_sse42)
#define SPEC_CPU_OK_AVX2(c) ((c)->has_avx2)
#define SPEC_CPU_OK_AVX512(c) ((c)->has_avx512f && (c)->has_avx512bw && (c)->has_avx512vl)
#endif
