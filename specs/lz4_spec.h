/* LZ4 block format, written from the format document only
 * (https://github.com/lz4/lz4/blob/dev/doc/lz4_Block_format.md); no carquet code.
 *
 * A block is a series of sequences.  A sequence is
 *   token            1 byte: high nibble = literal length field, low nibble = match length field
 *   [literal length+] if the field is 15: further bytes, each added to the length; a byte of 255
 *                    means another byte follows, any other value ends the length
 *   literals         exactly `literal length` bytes
 *   offset           2 bytes little endian, 1..65535; 0 is invalid
 *   [match length+]  same scheme as the literal length, applied to the low nibble
 *   match length = field value + 4 (minmatch)
 * The last sequence stops right after its literals (no offset).  End-of-block restrictions:
 *   - the last 5 bytes of the input are always literals (last sequence has >= 5 literals,
 *     unless the whole input is shorter)
 *   - the last match starts at least 12 bytes before the end of the block
 *   (consequence: an input shorter than 13 bytes is literals only)
 */
#ifndef LZ4_SPEC_H
#define LZ4_SPEC_H
#include <stddef.h>
#include <stdint.h>

#define LZ4_SPEC_MINMATCH 4u
#define LZ4_SPEC_LASTLITERALS 5u
#define LZ4_SPEC_MFLIMIT 12u

typedef struct {
  int ok;           /* 0: the bytes are not a well-formed sequence inside [pos, n) */
  int last;         /* 1: block ends after the literals of this sequence */
  size_t lit_len;   /* number of literal bytes */
  size_t lit_pos;   /* index of the first literal byte */
  size_t offset;    /* match offset (valid when !last) */
  size_t match_len; /* match length incl. minmatch (valid when !last) */
  size_t next;      /* index of the byte after this sequence */
} lz4_spec_seq_t;

/* token fields */
static inline size_t lz4_spec_token_lit(uint8_t token) { return (size_t)(token / 16u); }
static inline size_t lz4_spec_token_match(uint8_t token) { return (size_t)(token % 16u); }

/* variable length integer following a nibble of 15: returns 0 when it runs off the end */
static inline int lz4_spec_ext_len(const uint8_t *b, size_t n, size_t *pos, size_t *len) {
  for (;;) {
    if (*pos >= n) return 0;
    uint8_t v = b[*pos];
    *pos = *pos + 1;
    *len = *len + v;
    if (v != 255u) return 1;
  }
}

/* parse the sequence starting at b[pos] of a block of n bytes */
static inline lz4_spec_seq_t lz4_spec_parse_seq(const uint8_t *b, size_t n, size_t pos) {
  lz4_spec_seq_t r = {0, 0, 0, 0, 0, 0, 0};
  if (pos >= n) return r;
  uint8_t token = b[pos];
  pos = pos + 1;
  r.lit_len = lz4_spec_token_lit(token);
  if (r.lit_len == 15u) {
    if (!lz4_spec_ext_len(b, n, &pos, &r.lit_len)) return r;
  }
  r.lit_pos = pos;
  if (r.lit_len > n - pos) return r;
  pos = pos + r.lit_len;
  if (pos == n) { /* last sequence: literals only */
    r.ok = 1; r.last = 1; r.next = pos;
    return r;
  }
  if (n - pos < 2u) return r;
  r.offset = (size_t)b[pos] + 256u * (size_t)b[pos + 1];
  pos = pos + 2;
  if (r.offset == 0u) return r;
  r.match_len = lz4_spec_token_match(token);
  if (r.match_len == 15u) {
    if (!lz4_spec_ext_len(b, n, &pos, &r.match_len)) return r;
  }
  r.match_len = r.match_len + LZ4_SPEC_MINMATCH;
  r.ok = 1; r.next = pos;
  return r;
}

/* Whole-block validity as the format document defines it; *out_len = size of the decoded data.
 * (Loops are bounded by n; used with complete unwinding on small n.) */
static inline int lz4_spec_block_valid(const uint8_t *b, size_t n, size_t *out_len) {
  size_t pos = 0, out = 0, last_match_start = 0;
  int have_match = 0;
  if (n == 0) return 0; /* even the empty input is encoded as one token byte */
  for (;;) {
    lz4_spec_seq_t s = lz4_spec_parse_seq(b, n, pos);
    if (!s.ok) return 0;
    out = out + s.lit_len;
    if (s.last) {
      if (have_match && s.lit_len < LZ4_SPEC_LASTLITERALS) return 0;      /* last 5 bytes are literals */
      if (have_match && last_match_start + LZ4_SPEC_MFLIMIT > out) return 0; /* last match starts >= 12 before end */
      *out_len = out;
      return 1;
    }
    if (s.offset > out) return 0; /* a match can only refer to data already decoded */
    last_match_start = out;
    out = out + s.match_len;
    have_match = 1;
    pos = s.next; /* pos == n here means the block stopped after a match: no last literals => !ok next round */
  }
}

/* encoded size of a length field extension: number of extra bytes for value v in a nibble */
static inline size_t lz4_spec_ext_bytes(size_t v) { return v < 15u ? 0u : (v - 15u) / 255u + 1u; }

/* exact size of one full sequence (token, literal length, literals, offset, match length) */
static inline size_t lz4_spec_seq_size(size_t lit_len, size_t match_len) {
  return 1u + lz4_spec_ext_bytes(lit_len) + lit_len + 2u + lz4_spec_ext_bytes(match_len - LZ4_SPEC_MINMATCH);
}
/* exact size of the final literals-only sequence */
static inline size_t lz4_spec_last_size(size_t lit_len) {
  return 1u + lz4_spec_ext_bytes(lit_len) + lit_len;
}

/* end-of-block rules for a sequence with a match, in terms of the ORIGINAL (uncompressed) data:
 * the match starts at input position `match_start`, covers match_len bytes, input has n bytes */
static inline int lz4_spec_match_allowed(size_t n, size_t match_start, size_t match_len) {
  return n >= 13u && match_start + LZ4_SPEC_MFLIMIT <= n && match_start + match_len + LZ4_SPEC_LASTLITERALS <= n;
}
#endif
