/* Textbook definition of Parquet column levels, independent of the code under proof.
 * A schema is a depth-first (pre-order) list of elements; element 0 is the root; an element with
 * num_children == 0 is a leaf (= a column).  For each leaf:
 *   max_def = number of OPTIONAL or REPEATED nodes on the path root..leaf (leaf included, root not)
 *   max_rep = number of REPEATED nodes on that path.
 * Iterative algorithm with an explicit ancestor stack (no recursion).  `wf` tells whether the list
 * is exactly one tree (every child count satisfied, no element left over). */
#ifndef SCHEMA_SPEC_H
#define SCHEMA_SPEC_H
#include <stdint.h>
#ifndef SPEC_SCHEMA_MAXN
#define SPEC_SCHEMA_MAXN 8
#endif
typedef struct { int32_t num_children; int is_optional; int is_repeated; } spec_node_t;
typedef struct {
  int wf;
  int32_t num_leaves;
  int32_t leaf_index[SPEC_SCHEMA_MAXN];
  int16_t max_def[SPEC_SCHEMA_MAXN];
  int16_t max_rep[SPEC_SCHEMA_MAXN];
} spec_schema_t;

static inline void spec_schema_levels(const spec_node_t *nodes, int32_t n, spec_schema_t *out) {
  int32_t rem[SPEC_SCHEMA_MAXN + 1]; int16_t sd[SPEC_SCHEMA_MAXN + 1], sr[SPEC_SCHEMA_MAXN + 1];
  int sp = 0;
  out->wf = 1; out->num_leaves = 0;
  if (n < 2 || n > SPEC_SCHEMA_MAXN) { out->wf = 0; return; }
  rem[0] = nodes[0].num_children; sd[0] = 0; sr[0] = 0;
  if (rem[0] <= 0) { out->wf = 0; return; }
  for (int32_t i = 1; i < SPEC_SCHEMA_MAXN; i++) {
    if (i >= n) break;
    for (int p = 0; p < SPEC_SCHEMA_MAXN; p++) { if (sp >= 0 && rem[sp] == 0) sp--; }   /* pop completed groups */
    if (sp < 0) { out->wf = 0; return; }                                              /* element outside the tree */
    rem[sp]--;
    int16_t d = (int16_t)(sd[sp] + ((nodes[i].is_optional || nodes[i].is_repeated) ? 1 : 0));
    int16_t r = (int16_t)(sr[sp] + (nodes[i].is_repeated ? 1 : 0));
    if (nodes[i].num_children == 0) {
      out->leaf_index[out->num_leaves] = i; out->max_def[out->num_leaves] = d; out->max_rep[out->num_leaves] = r;
      out->num_leaves++;
    } else if (nodes[i].num_children < 0) {
      out->wf = 0; return;
    } else {
      sp++; rem[sp] = nodes[i].num_children; sd[sp] = d; sr[sp] = r;
    }
  }
  for (int p = 0; p < SPEC_SCHEMA_MAXN; p++) { if (p <= sp && rem[p] != 0) out->wf = 0; }   /* missing children (sp <= n - 2) */
}
#endif
