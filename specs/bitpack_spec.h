/* Specification side of raw bit packing, varint (ULEB128) and zigzag — written from the format
 * documents only (Parquet Encodings.md "Run Length Encoding / Bit-Packing Hybrid (RLE = 3)":
 * "The bit-packing here is done in a different order than the one in the deprecated bit-packing
 *  encoding. The values are packed from the least significant bit of each byte to the most
 *  significant bit, though the order of the bits in each value remains in the usual order of most
 *  significant to least significant."  Example in the document: 0..7 at width 3 ->
 *  10001000 11000110 11111010; Thrift compact protocol / protobuf: ULEB128 and zigzag).
 * NO carquet code in this file. */
#ifndef BITPACK_SPEC_H
#define BITPACK_SPEC_H
#include <stddef.h>
#include <stdint.h>

/* low-w-bits mask, w in 0..32 */
#define SPEC_BP_MASK32(w) ((w) >= 32 ? 0xFFFFFFFFu : (((uint32_t)1 << (w)) - 1u))
/* number of bytes of `count` values at width w: ceil(count*w/8) */
#define SPEC_BP_PACKED_SIZE(count, w) ((((size_t)(count)) * (size_t)(w) + 7) / 8)
/* bit number `pos` of the packed stream: bit (pos mod 8) of byte (pos / 8), LSB = bit 0 */
#define SPEC_BP_STREAM_BIT(bytes, pos) ((uint32_t)(((bytes)[(pos) >> 3] >> ((pos) & 7)) & 1u))
/* bit j of value v */
#define SPEC_BP_VALUE_BIT(v, j) ((uint32_t)(((v) >> (j)) & 1u))

/* independent decoder: value i of a stream packed at width w = stream bits [i*w, i*w+w), LSB first */
static inline uint32_t spec_bp_unpack(const uint8_t *bytes, unsigned w, unsigned i) {
  uint32_t v = 0;
  for (unsigned j = 0; j < 32; j++)
    if (j < w) v |= SPEC_BP_STREAM_BIT(bytes, i * w + j) << j;
  return v;
}

/* independent encoder: byte b of the packed form of the values v[] at width w (w >= 1):
 * bit k of byte b is stream bit p = 8b+k = bit (p mod w) of value (p / w) */
static inline uint8_t spec_bp_pack_byte(const uint32_t *v, unsigned w, unsigned b) {
  uint8_t o = 0;
  for (unsigned k = 0; k < 8; k++) {
    unsigned p = 8 * b + k;
    o |= (uint8_t)(SPEC_BP_VALUE_BIT(v[p / w], p % w) << k);
  }
  return o;
}

/* ULEB128: 7 value bits per byte, least significant group first, bit 7 = continuation.
 * Length of the canonical (shortest) encoding. */
static inline int spec_uleb_len64(uint64_t v) {
  int n = 1;
  for (int k = 0; k < 9; k++) { if (v >= 0x80) { v >>= 7; n++; } }
  return n;
}
/* byte k of the canonical ULEB128 encoding of v whose length is n */
#define SPEC_ULEB_BYTE(v, k, n) ((uint8_t)((((uint64_t)(v) >> (7 * (k))) & 0x7F) | ((k) + 1 < (n) ? 0x80 : 0)))

/* zigzag (protobuf / Thrift compact): 0,-1,1,-2,2,... -> 0,1,2,3,4,...  stated without shifts
 * of negative numbers: n >= 0 -> 2n ; n < 0 -> -2n-1 = 2*(-(n+1)) + 1 */
#define SPEC_ZIGZAG32(n) ((n) >= 0 ? (uint32_t)(n) * 2u : ((uint32_t)(-((n) + 1))) * 2u + 1u)
#define SPEC_ZIGZAG64(n) ((n) >= 0 ? (uint64_t)(n) * 2u : ((uint64_t)(-((n) + 1))) * 2u + 1u)
#endif
