/* Parquet split-block Bloom filter, written from parquet-format BloomFilter.md:
 *   block index  i = ((h >> 32) * z) >> 32          (z = number of 32-byte blocks)
 *   block mask   for k in 0..7: bit ((SALT[k] * (uint32)h) >> 27) of word k
 * Shares no code with /repo/src/metadata/bloom_filter.c. */
#ifndef SBBF_SPEC_H
#define SBBF_SPEC_H
#include <stdint.h>
static const uint32_t SPEC_SALT[8] = {0x47b6137bU, 0x44974d91U, 0x8824ad5bU, 0xa2b7289dU,
                                      0x705495c7U, 0x2df1424bU, 0x9efc4947U, 0x5c6bfb31U};
#define SPEC_SBBF_BLOCK_INDEX(h, z) ((uint64_t)((((uint64_t)(h)) >> 32) * (uint64_t)(z)) >> 32)
#define SPEC_SBBF_BIT(k, h) (1u << ((SPEC_SALT[k] * (uint32_t)(h)) >> 27))
#endif
