/* Assumed contracts for the callees of schema.c / file_reader.c schema code (trusted; the arena
 * itself is proved by the buffer/arena family, error.c formatting by libc):
 *   carquet_arena_init_size / destroy : one-block model (block malloc'ed, freed by destroy)
 *   carquet_arena_strdup / calloc     : NULL (allocation failure, always possible) or a fresh object
 *                                       owned by the arena (not tracked by the leak check)
 *   carquet_error_set                 : stores the code, message arbitrary but NUL-terminated
 *   strcmp                            : deterministic uninterpreted function of its two arguments
 * Ghost variables record what the callee saw, so harnesses can state "the stored name is the copy
 * of the caller's name". */
#include <stddef.h>
#include <stdint.h>
#include <stdlib.h>
#include <carquet/error.h>
#include "core/arena.h"

_Bool nondet_bool(void);

const char *cqv_strdup_src;   /* argument of the last arena_strdup */
char *cqv_strdup_ret;         /* its result */
int cqv_strdup_calls;
int cqv_arena_live;           /* init_size successes minus destroys */
int cqv_error_sets;           /* number of carquet_error_set calls with a non-NULL error */

carquet_status_t carquet_arena_init_size(carquet_arena_t *arena, size_t block_size) {
  __CPROVER_precondition(__CPROVER_w_ok(arena, sizeof(*arena)), "arena_init_size: arena writable");
  arena->head = NULL;
  arena->current = NULL;
  arena->default_block_size = block_size;
  arena->total_allocated = 0;
  arena->total_capacity = 0;
  carquet_arena_block_t *b = malloc(sizeof(carquet_arena_block_t));
  if (!b) return CARQUET_ERROR_OUT_OF_MEMORY;
  b->next = NULL;
  b->size = block_size;
  b->used = 0;
  arena->head = b;
  arena->current = b;
  arena->total_capacity = block_size;
  cqv_arena_live++;
  return CARQUET_OK;
}

void carquet_arena_destroy(carquet_arena_t *arena) {
  __CPROVER_precondition(__CPROVER_w_ok(arena, sizeof(*arena)), "arena_destroy: arena writable");
  if (arena->head) {
    free(arena->head);
    cqv_arena_live--;
  }
  arena->head = NULL;
  arena->current = NULL;
  arena->total_allocated = 0;
  arena->total_capacity = 0;
}

char *carquet_arena_strdup(carquet_arena_t *arena, const char *str) {
  __CPROVER_precondition(__CPROVER_w_ok(arena, sizeof(*arena)), "arena_strdup: arena writable");
  cqv_strdup_calls++;
  cqv_strdup_src = str;
  cqv_strdup_ret = NULL;
  if (!str) return NULL;
  __CPROVER_precondition(__CPROVER_r_ok(str, 1), "arena_strdup: string readable");
  if (nondet_bool()) return NULL; /* arena block allocation failed */
  size_t n;
  __CPROVER_assume(n >= 1 && n <= ((size_t)1 << 32));
  char *copy = __CPROVER_allocate(n, 0);
  copy[n - 1] = 0;
  cqv_strdup_ret = copy;
  return copy;
}

void *carquet_arena_calloc(carquet_arena_t *arena, size_t count, size_t size) {
  __CPROVER_precondition(__CPROVER_w_ok(arena, sizeof(*arena)), "arena_calloc: arena writable");
  size_t total = count * size;
  if (count != 0 && total / count != size) return NULL;
  if (nondet_bool()) return NULL;
  /* the real arena returns a non-NULL pointer for a zero-byte request */
  return __CPROVER_allocate(total, 1);
}

void carquet_error_set(carquet_error_t *error, carquet_status_t code, const char *file, int line,
                       const char *function, const char *format, ...) {
  if (!error) return;
  __CPROVER_precondition(__CPROVER_w_ok(error, sizeof(*error)), "error_set: error writable");
  error->code = code;
  error->file = file;
  error->line = line;
  error->function = function;
  __CPROVER_havoc_slice(error->message, CARQUET_ERROR_MESSAGE_MAX);
  error->message[CARQUET_ERROR_MESSAGE_MAX - 1] = 0;
  cqv_error_sets++;
}

int __CPROVER_uninterpreted_cqv_strcmp(const char *a, const char *b);
int strcmp(const char *a, const char *b) {
  __CPROVER_precondition(__CPROVER_r_ok(a, 1), "strcmp: first string readable");
  __CPROVER_precondition(__CPROVER_r_ok(b, 1), "strcmp: second string readable");
  return __CPROVER_uninterpreted_cqv_strcmp(a, b);
}

/* realloc model.  CBMC's own model copies the whole (symbolic-size) object and exhausts memory.
 * This one returns NULL (possible under --malloc-may-fail) or a new object of n bytes whose
 * contents are ARBITRARY except inside the windows a harness registered beforehand (ghost
 * positions whose preservation it wants to observe); the old object is freed.  This is weaker
 * than the real realloc, i.e. an over-approximation. */
struct cqv_keep_s { const void *obj; size_t off; size_t len; } cqv_keep[10];
void *realloc(void *p, size_t n) {
  if (!p) return malloc(n);
  __CPROVER_precondition(__CPROVER_DYNAMIC_OBJECT(p) && __CPROVER_POINTER_OFFSET(p) == 0, "realloc: pointer from malloc");
  size_t old = __CPROVER_OBJECT_SIZE(p);
  unsigned char *q = malloc(n);
  if (!q) return NULL;
  for (int w = 0; w < 10; w++) {
    if (cqv_keep[w].obj == p && cqv_keep[w].off + cqv_keep[w].len <= old && cqv_keep[w].off + cqv_keep[w].len <= n) {
      const unsigned char *src = (const unsigned char *)p + cqv_keep[w].off;
      unsigned char *dst = q + cqv_keep[w].off;
      if (cqv_keep[w].len == 8) *(uint64_t *)dst = *(const uint64_t *)src;
      else if (cqv_keep[w].len == 4) *(uint32_t *)dst = *(const uint32_t *)src;
      else if (cqv_keep[w].len == 2) *(uint16_t *)dst = *(const uint16_t *)src;
    }
  }
  free(p);
  return q;
}
