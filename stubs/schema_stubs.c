/* Assumed contracts for the callees of schema.c / file_reader.c schema code (trusted; the arena
 * itself is proved by the buffer/arena family, error.c formatting by libc):
 *   carquet_arena_init_size / destroy : one-block model (block malloc'ed, freed by destroy)
 *   carquet_arena_strdup / calloc     : NULL (allocation failure, always possible) or a fresh object
 *                                       owned by the arena (not tracked by the leak check)
 *   carquet_error_set                 : stores the code, message arbitrary but NUL-terminated
 *   strcmp                            : deterministic uninterpreted function of its two arguments
 * Ghost variables record what the callee saw, so harnesses can state "the stored name is the copy
 * of the caller's name". */
#include <stddef.h>
#include <stdint.h>
#include <stdlib.h>
#include <carquet/error.h>
#include "core/arena.h"

_Bool nondet_bool(void);

const char *cqv_strdup_src;   /* argument of the last arena_strdup */
char *cqv_strdup_ret;         /* its result */
int cqv_strdup_calls;
int cqv_arena_live;           /* init_size successes minus destroys */
int cqv_error_sets;           /* number of carquet_error_set calls with a non-NULL error */

carquet_status_t carquet_arena_init_size(carquet_arena_t *arena, size_t block_size) {
  __CPROVER_precondition(__CPROVER_w_ok(arena, sizeof(*arena)), "arena_init_size: arena writable");
  arena->head = NULL;
  arena->current = NULL;
  arena->default_block_size = block_size;
  arena->total_allocated = 0;
  arena->total_capacity = 0;
  carquet_arena_block_t *b = malloc(sizeof(carquet_arena_block_t));
  if (!b) return CARQUET_ERROR_OUT_OF_MEMORY;
  b->next = NULL;
  b->size = block_size;
  b->used = 0;
  arena->head = b;
  arena->current = b;
  arena->total_capacity = block_size;
  cqv_arena_live++;
  return CARQUET_OK;
}

void carquet_arena_destroy(carquet_arena_t *arena) {
  __CPROVER_precondition(__CPROVER_w_ok(arena, sizeof(*arena)), "arena_destroy: arena writable");
  if (arena->head) {
    free(arena->head);
    cqv_arena_live--;
  }
  arena->head = NULL;
  arena->current = NULL;
  arena->total_allocated = 0;
  arena->total_capacity = 0;
}

char *carquet_arena_strdup(carquet_arena_t *arena, const char *str) {
  __CPROVER_precondition(__CPROVER_w_ok(arena, sizeof(*arena)), "arena_strdup: arena writable");
  if (cqv_strdup_calls < 1000) cqv_strdup_calls++;
  cqv_strdup_src = str;
  cqv_strdup_ret = NULL;
  if (!str) return NULL;
  __CPROVER_precondition(__CPROVER_r_ok(str, 1), "arena_strdup: string readable");
  if (nondet_bool()) return NULL; /* arena block allocation failed */
  size_t n;
  __CPROVER_assume(n >= 1 && n <= ((size_t)1 << 32));
  char *copy = __CPROVER_allocate(n, 0);
  copy[n - 1] = 0;
  cqv_strdup_ret = copy;
  return copy;
}

void *carquet_arena_calloc(carquet_arena_t *arena, size_t count, size_t size) {
  __CPROVER_precondition(__CPROVER_w_ok(arena, sizeof(*arena)), "arena_calloc: arena writable");
  size_t total = count * size;
  if (count != 0 && total / count != size) return NULL;
  if (total == 0) return NULL;   /* as the real arena: a zero-byte request yields NULL */
  if (nondet_bool()) return NULL;
  return __CPROVER_allocate(total, 1);
}

void carquet_error_set(carquet_error_t *error, carquet_status_t code, const char *file, int line,
                       const char *function, const char *format, ...) {
  if (!error) return;
  __CPROVER_precondition(__CPROVER_w_ok(error, sizeof(*error)), "error_set: error writable");
  error->code = code;
  error->file = file;
  error->line = line;
  error->function = function;
  __CPROVER_havoc_slice(error->message, CARQUET_ERROR_MESSAGE_MAX);
  error->message[CARQUET_ERROR_MESSAGE_MAX - 1] = 0;
  if (cqv_error_sets < 1000) cqv_error_sets++;
}

#ifdef CQV_STR_EXACT
/* exact small-bound string models (bounded jobs): every string must have its NUL within the first
 * CQV_STR_EXACT bytes (precondition, checked) */
size_t strlen(const char *s) {
  size_t n = 0; _Bool done = 0;
  for (int i = 0; i < CQV_STR_EXACT; i++) { if (!done) { if (s[i] == 0) done = 1; else n++; } }
  __CPROVER_precondition(done, "strlen: NUL within the model bound");
  return n;
}
int strcmp(const char *a, const char *b) {
  int r = 0; _Bool done = 0;
  for (int i = 0; i < CQV_STR_EXACT; i++) {
    if (!done) {
      unsigned char x = (unsigned char)a[i], y = (unsigned char)b[i];
      if (x != y) { r = x < y ? -1 : 1; done = 1; }
      else if (x == 0) done = 1;
    }
  }
  __CPROVER_precondition(done, "strcmp: NUL or difference within the model bound");
  return r;
}
int strncmp(const char *a, const char *b, size_t n) {
  int r = 0; _Bool done = 0;
  for (int i = 0; i < CQV_STR_EXACT; i++) {
    if (!done) {
      if ((size_t)i >= n) done = 1;
      else {
        unsigned char x = (unsigned char)a[i], y = (unsigned char)b[i];
        if (x != y) { r = x < y ? -1 : 1; done = 1; }
        else if (x == 0) done = 1;
      }
    }
  }
  __CPROVER_precondition(done, "strncmp: end within the model bound");
  return r;
}
#else
int __CPROVER_uninterpreted_cqv_strcmp(const char *a, const char *b);
int strcmp(const char *a, const char *b) {
  __CPROVER_precondition(__CPROVER_r_ok(a, 1), "strcmp: first string readable");
  __CPROVER_precondition(__CPROVER_r_ok(b, 1), "strcmp: second string readable");
  return __CPROVER_uninterpreted_cqv_strcmp(a, b);
}
#endif

/* realloc model.  CBMC's own model copies the whole (symbolic-size) object and exhausts memory.
 * This one returns NULL (possible under --malloc-may-fail) or a new object of n bytes whose
 * contents are ARBITRARY except at the entries a harness registered beforehand (ghost positions
 * whose preservation it wants to observe); the old object is freed.  This is weaker than the real
 * realloc, i.e. an over-approximation.  (One malloc call site on purpose: keeps CBMC's points-to
 * sets of the four arrays apart.) */
#include "thrift/parquet_types.h"
struct cqv_re_s { const void *obj; int kind; size_t i0, i1; } cqv_re[4];
#ifndef CQV_LIBC_REALLOC   /* bounded jobs use CBMC's own realloc (full copy) */
void *realloc(void *p, size_t n) {
#ifdef CQV_NOGROW
  /* case split "num_elements < capacity": growth must be unreachable (proved, not assumed) */
  __CPROVER_assert(0, "realloc is unreachable when num_elements < capacity");
  return NULL;
#endif
  if (!p) return malloc(n);
  __CPROVER_precondition(__CPROVER_DYNAMIC_OBJECT(p) && __CPROVER_POINTER_OFFSET(p) == 0, "realloc: pointer from malloc");
  size_t old = __CPROVER_OBJECT_SIZE(p);
  void *q = malloc(n);
  if (!q) return NULL;
  int w = p == cqv_re[0].obj ? 0 : p == cqv_re[1].obj ? 1 : p == cqv_re[2].obj ? 2 : p == cqv_re[3].obj ? 3 : -1;
  if (w >= 0) {
    size_t i0 = cqv_re[w].i0, i1 = cqv_re[w].i1;
    int kind = cqv_re[w].kind;
    if (kind == 1) {
      parquet_schema_element_t *d = q;
      const parquet_schema_element_t *o = p;
      if ((i0 + 1) * sizeof(*d) <= n && (i0 + 1) * sizeof(*d) <= old) { d[i0].name = o[i0].name; d[i0].type = o[i0].type; d[i0].repetition_type = o[i0].repetition_type; d[i0].num_children = o[i0].num_children; d[i0].type_length = o[i0].type_length; }
      if ((i1 + 1) * sizeof(*d) <= n && (i1 + 1) * sizeof(*d) <= old) { d[i1].name = o[i1].name; d[i1].type = o[i1].type; d[i1].repetition_type = o[i1].repetition_type; d[i1].num_children = o[i1].num_children; d[i1].type_length = o[i1].type_length; }
    } else if (kind == 2) {
      if ((i0 + 1) * 4 <= n && (i0 + 1) * 4 <= old) ((int32_t *)q)[i0] = ((const int32_t *)p)[i0];
    } else if (kind == 3) {
      if ((i0 + 1) * 2 <= n && (i0 + 1) * 2 <= old) ((int16_t *)q)[i0] = ((const int16_t *)p)[i0];
    }
  }
  free(p);
  return q;
}
#endif

#ifdef CQV_SCHEMA_MEMSET
/* memset for jobs that need the zero-initialisation of ONE schema element to be exact (used
 * instead of stubs/mem_stubs.c): zeroing exactly sizeof(parquet_schema_element_t) bytes is done as
 * a typed struct assignment (all members and padding-free view zero); anything else: range must be
 * writable, contents become arbitrary. */
void *memset(void *dst, int c, size_t n) {
  __CPROVER_precondition(__CPROVER_w_ok(dst, n), "memset dst writable");
  if (n == sizeof(parquet_schema_element_t) && c == 0) {
    static const parquet_schema_element_t zero;
    *(parquet_schema_element_t *)dst = zero;
  } else if (n != 0) {
    __CPROVER_havoc_slice(dst, n);
  }
  return dst;
}
#endif
