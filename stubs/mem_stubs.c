/* Assumed contracts for libc memory primitives (trusted base, DESIGN 2.5).
 * CBMC's own memcpy/memset models with a symbolic length on symbolic-size
 * objects exhaust memory, so they are replaced by: precondition = ranges
 * accessible, effect = destination bytes become arbitrary.
 * CQV_MEMCPY_EXACT (small constant lengths) keeps contents, byte by byte. */
#include <stddef.h>
#include <stdint.h>

void *memcpy(void *dst, const void *src, size_t n) {
  __CPROVER_precondition(__CPROVER_r_ok(src, n), "memcpy src readable");
  __CPROVER_precondition(__CPROVER_w_ok(dst, n), "memcpy dst writable");
  /* C11 7.24.2.1: copying between overlapping objects is undefined */
  __CPROVER_precondition(n == 0 || !__CPROVER_same_object(dst, src) ||
                         (size_t)__CPROVER_POINTER_OFFSET(dst) + n <= (size_t)__CPROVER_POINTER_OFFSET(src) ||
                         (size_t)__CPROVER_POINTER_OFFSET(src) + n <= (size_t)__CPROVER_POINTER_OFFSET(dst),
                         "memcpy ranges do not overlap");
  if (n != 0) {
#ifdef CQV_MEMCPY_EXACT
    if (n <= CQV_MEMCPY_EXACT) {
      for (size_t i = 0; i < CQV_MEMCPY_EXACT; i++) {
        if (i < n) ((uint8_t *)dst)[i] = ((const uint8_t *)src)[i];
      }
      return dst;
    }
#endif
    __CPROVER_havoc_slice(dst, n);
  }
  return dst;
}

void *memmove(void *dst, const void *src, size_t n) {
  __CPROVER_precondition(__CPROVER_r_ok(src, n), "memmove src readable");
  __CPROVER_precondition(__CPROVER_w_ok(dst, n), "memmove dst writable");
  if (n != 0) __CPROVER_havoc_slice(dst, n);
  return dst;
}

void *memset(void *dst, int c, size_t n) {
  __CPROVER_precondition(__CPROVER_w_ok(dst, n), "memset dst writable");
  if (n != 0) {
#ifdef CQV_MEMSET_EXACT
    if (n <= CQV_MEMSET_EXACT) {
      for (size_t i = 0; i < CQV_MEMSET_EXACT; i++) {
        if (i < n) ((uint8_t *)dst)[i] = (uint8_t)c;
      }
      return dst;
    }
#endif
    __CPROVER_havoc_slice(dst, n);
  }
  return dst;
}

int memcmp(const void *a, const void *b, size_t n) {
  __CPROVER_precondition(__CPROVER_r_ok(a, n), "memcmp a readable");
  __CPROVER_precondition(__CPROVER_r_ok(b, n), "memcmp b readable");
  int r;
  return r;
}
