/* Assumed (trusted) contracts used by the PLAIN / BYTE_STREAM_SPLIT / dictionary jobs.
 *  - carquet_dispatch_byte_split_{encode,decode}_{float,double}: the SIMD dispatcher entry points (src/simd/dispatch.c,
 *    proved by the SIMD family, C15): ranges [0,count*w) accessible, output = byte transposition of the input.
 *  - carquet_rle_decode_all (src/encoding/rle.c, proved by the RLE family): returns -1 or n <= max_values and writes n
 *    arbitrary uint32 values.
 *  - carquet_buffer_* (src/core/buffer.c, proved by the buffer family): growable buffer model.
 * Ghost indices cqv_i (value index) and cqv_b (byte-in-value index) are defined by the harness. */
#include "cqv.h"
#include <stdint.h>
#include <stddef.h>
extern size_t cqv_i, cqv_b;

#define BSS_DECODE_STUB(NAME, T, W, SH)                                                                        \
  void NAME(const uint8_t *data, int64_t count, T *values) {                                                   \
    if (count <= 0) return;                                                                                    \
    __CPROVER_precondition((uint64_t)count <= (UINT64_MAX >> SH), #NAME ": count*width does not overflow");    \
    __CPROVER_precondition(__CPROVER_r_ok(data, (size_t)count << SH), #NAME ": data[0,count*w) readable");    \
    __CPROVER_precondition(__CPROVER_w_ok(values, (size_t)count << SH), #NAME ": values[0,count) writable"); \
    __CPROVER_havoc_slice(values, (size_t)count << SH);                                                        \
    if (cqv_i < (size_t)count && cqv_b < W)                                                                    \
      __CPROVER_assume(((const uint8_t *)values)[(cqv_i << SH) + cqv_b] == data[cqv_b * (size_t)count + cqv_i]); \
  }
#define BSS_ENCODE_STUB(NAME, T, W, SH)                                                                        \
  void NAME(const T *values, int64_t count, uint8_t *output) {                                                 \
    if (count <= 0) return;                                                                                    \
    __CPROVER_precondition((uint64_t)count <= (UINT64_MAX >> SH), #NAME ": count*width does not overflow");    \
    __CPROVER_precondition(__CPROVER_r_ok(values, (size_t)count << SH), #NAME ": values[0,count) readable");  \
    __CPROVER_precondition(__CPROVER_w_ok(output, (size_t)count << SH), #NAME ": output[0,count*w) writable"); \
    __CPROVER_havoc_slice(output, (size_t)count << SH);                                                        \
    if (cqv_i < (size_t)count && cqv_b < W)                                                                    \
      __CPROVER_assume(output[cqv_b * (size_t)count + cqv_i] == ((const uint8_t *)values)[(cqv_i << SH) + cqv_b]); \
  }
BSS_DECODE_STUB(carquet_dispatch_byte_split_decode_float, float, 4, 2)
BSS_DECODE_STUB(carquet_dispatch_byte_split_decode_double, double, 8, 3)
BSS_ENCODE_STUB(carquet_dispatch_byte_split_encode_float, float, 4, 2)
BSS_ENCODE_STUB(carquet_dispatch_byte_split_encode_double, double, 8, 3)
