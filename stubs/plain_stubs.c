/* Assumed (trusted) contracts used by the PLAIN / BYTE_STREAM_SPLIT / dictionary jobs.
 *  - carquet_dispatch_byte_split_{encode,decode}_{float,double}: the SIMD dispatcher entry points (src/simd/dispatch.c,
 *    proved by the SIMD family, C15): ranges [0,count*w) accessible, output = byte transposition of the input.
 *  - carquet_rle_decode_all (src/encoding/rle.c, proved by the RLE family): returns -1 or n <= max_values and writes n
 *    arbitrary uint32 values.
 *  - carquet_buffer_* (src/core/buffer.c, proved by the buffer family): growable buffer model.
 * Ghost indices cqv_i (value index) and cqv_b (byte-in-value index) are defined by the harness. */
#include "cqv.h"
#include <stdint.h>
#include <stddef.h>
extern size_t cqv_i, cqv_b;

#define BSS_DECODE_STUB(NAME, T, W, SH)                                                                        \
  void NAME(const uint8_t *data, int64_t count, T *values) {                                                   \
    if (count <= 0) return;                                                                                    \
    __CPROVER_precondition((uint64_t)count <= (UINT64_MAX >> SH), #NAME ": count*width does not overflow");    \
    __CPROVER_precondition(__CPROVER_r_ok(data, (size_t)count << SH), #NAME ": data[0,count*w) readable");    \
    __CPROVER_precondition(__CPROVER_w_ok(values, (size_t)count << SH), #NAME ": values[0,count) writable"); \
    __CPROVER_havoc_slice(values, (size_t)count << SH);                                                        \
    if (cqv_i < (size_t)count && cqv_b < W)                                                                    \
      __CPROVER_assume(((const uint8_t *)values)[(cqv_i << SH) + cqv_b] == data[cqv_b * (size_t)count + cqv_i]); \
  }
#define BSS_ENCODE_STUB(NAME, T, W, SH)                                                                        \
  void NAME(const T *values, int64_t count, uint8_t *output) {                                                 \
    if (count <= 0) return;                                                                                    \
    __CPROVER_precondition((uint64_t)count <= (UINT64_MAX >> SH), #NAME ": count*width does not overflow");    \
    __CPROVER_precondition(__CPROVER_r_ok(values, (size_t)count << SH), #NAME ": values[0,count) readable");  \
    __CPROVER_precondition(__CPROVER_w_ok(output, (size_t)count << SH), #NAME ": output[0,count*w) writable"); \
    __CPROVER_havoc_slice(output, (size_t)count << SH);                                                        \
    if (cqv_i < (size_t)count && cqv_b < W)                                                                    \
      __CPROVER_assume(output[cqv_b * (size_t)count + cqv_i] == ((const uint8_t *)values)[(cqv_i << SH) + cqv_b]); \
  }
BSS_DECODE_STUB(carquet_dispatch_byte_split_decode_float, float, 4, 2)
BSS_DECODE_STUB(carquet_dispatch_byte_split_decode_double, double, 8, 3)
BSS_ENCODE_STUB(carquet_dispatch_byte_split_encode_float, float, 4, 2)
BSS_ENCODE_STUB(carquet_dispatch_byte_split_encode_double, double, 8, 3)

/* carquet_rle_decode_all: assumed contract (the RLE family proves the real one) */
int64_t carquet_rle_decode_all(const uint8_t *input, size_t input_size, int bit_width, uint32_t *output, int64_t max_values) {
  __CPROVER_precondition(__CPROVER_r_ok(input, input_size), "rle_decode_all: input[0,input_size) readable");
  __CPROVER_precondition(max_values >= 0 && (uint64_t)max_values <= (UINT64_MAX >> 2), "rle_decode_all: max_values*4 does not overflow");
  __CPROVER_precondition(__CPROVER_w_ok(output, (size_t)max_values << 2), "rle_decode_all: output[0,max_values) writable");
  (void)bit_width;
  int64_t n = nondet_i64();
  if (n < 0) return -1;
  __CPROVER_assume(n <= max_values);
#ifndef CQV_RLE_STUB_FRESH_OUTPUT
  if (max_values > 0) __CPROVER_havoc_slice(output, (size_t)max_values << 2);
#else
  /* The dictionary decoders pass a block they have just malloc'ed: its contents are already arbitrary in CBMC's
   * memory model, so no havoc is needed (a havoc_slice of up to 2^40 bytes makes CBMC run out of memory when it
   * prints a counterexample trace). */
#endif
  return n;
}

/* ---- growable buffer (src/core/buffer.c) as recorded calls: the PLAIN encoders' obligation is WHICH bytes they hand to
 * the buffer; that append/advance store exactly those bytes is the buffer family's contract.  Call number cqv_watch
 * (ghost, arbitrary) is recorded. ---- */
#include "core/buffer.h"
size_t cqv_g;                     /* ghost byte index for memset/advance */
int64_t cqv_watch;                /* which call (0-based, over all buffer calls) is recorded */
int64_t cqv_calls;                /* number of buffer calls so far */
/* per-element recording (byte-array encoder): the overlay sets cqv_cur = i at the top of the loop body; calls made
 * while cqv_cur == cqv_elem (ghost, arbitrary) are recorded with their sequence number */
int64_t cqv_cur = -1, cqv_elem = -1;
int cqv_el_has_u32, cqv_el_has_data; uint32_t cqv_el_u32; const void *cqv_el_data; size_t cqv_el_size;
int64_t cqv_el_u32_seq, cqv_el_data_seq;
int cqv_rec_kind;                 /* 0 none, 1 append, 2 append_u32_le, 3 advance */
const void *cqv_rec_data; size_t cqv_rec_size; uint32_t cqv_rec_u32; carquet_buffer_t *cqv_rec_buf;
carquet_status_t cqv_rec_ret; uint8_t *cqv_rec_ptr;
size_t cqv_total;                 /* total bytes appended by successful calls (wraps never: sizes <= 2^40, calls bounded by harness) */

carquet_status_t carquet_buffer_append(carquet_buffer_t *buf, const void *data, size_t size) {
  __CPROVER_precondition(buf != NULL, "buffer_append: buf != NULL");
  /* element mode: only the watched element's bytes are known to be readable (its validity is the contract's requires
   * for the ghost element; the ghost is arbitrary, so this covers every element) */
  if (cqv_elem < 0 || cqv_cur == cqv_elem)
    __CPROVER_precondition(size == 0 || __CPROVER_r_ok(data, size), "buffer_append: data[0,size) readable");
  carquet_status_t r = (size == 0 || nondet_bool()) ? CARQUET_OK : CARQUET_ERROR_OUT_OF_MEMORY;
  if (cqv_elem >= 0 && cqv_cur == cqv_elem) { cqv_el_has_data++; cqv_el_data = data; cqv_el_size = size; cqv_el_data_seq = cqv_calls; }
  if (cqv_calls == cqv_watch) { cqv_rec_kind = 1; cqv_rec_data = data; cqv_rec_size = size; cqv_rec_buf = buf; cqv_rec_ret = r; }
  cqv_calls++;
  if (r == CARQUET_OK) cqv_total += size;
  return r;
}
carquet_status_t carquet_buffer_append_u32_le(carquet_buffer_t *buf, uint32_t value) {
  __CPROVER_precondition(buf != NULL, "buffer_append_u32_le: buf != NULL");
  carquet_status_t r = nondet_bool() ? CARQUET_OK : CARQUET_ERROR_OUT_OF_MEMORY;
  if (cqv_elem >= 0 && cqv_cur == cqv_elem) { cqv_el_has_u32++; cqv_el_u32 = value; cqv_el_u32_seq = cqv_calls; }
  if (cqv_calls == cqv_watch) { cqv_rec_kind = 2; cqv_rec_u32 = value; cqv_rec_size = 4; cqv_rec_buf = buf; cqv_rec_ret = r; }
  cqv_calls++;
  if (r == CARQUET_OK) cqv_total += 4;
  return r;
}
void *malloc(size_t);
uint8_t *carquet_buffer_advance(carquet_buffer_t *buf, size_t size) {
  __CPROVER_precondition(buf != NULL, "buffer_advance: buf != NULL");
  uint8_t *p = NULL;
  if (size != 0 && nondet_bool()) { p = malloc(size); __CPROVER_assume(p != NULL); }   /* real code: NULL for size 0 or on failure */
  if (cqv_calls == cqv_watch) { cqv_rec_kind = 3; cqv_rec_size = size; cqv_rec_buf = buf; cqv_rec_ptr = p; }
  cqv_calls++;
  if (p) cqv_total += size;
  return p;
}
#ifdef CQV_OWN_MEMSET
/* memset with a ghost-index postcondition (job excludes stubs/mem_stubs.c): byte cqv_g of the range equals c */
void *memset(void *dst, int c, size_t n) {
  __CPROVER_precondition(__CPROVER_w_ok(dst, n), "memset dst writable");
  if (n != 0) {
    __CPROVER_havoc_slice(dst, n);
    if (cqv_g < n) __CPROVER_assume(((uint8_t *)dst)[cqv_g] == (uint8_t)c);
  }
  return dst;
}
#endif
