/* Assumed contracts for libzstd (trusted base): the subset carquet uses.
 * One-shot functions: source readable for srcSize, destination writable for dstCapacity (checked),
 * result is either an error code (ZSTD_isError) or a size <= dstCapacity; that many destination
 * bytes become arbitrary.  Compression level must lie in ZSTD_minCLevel()..ZSTD_maxCLevel()
 * (0 = default).  Ghost: cqv_zs_level = level passed to ZSTD_compress, cqv_zs_src/cqv_zs_cap =
 * sizes passed at the last call. */
#include <stddef.h>
#include <stdint.h>
#include <stdlib.h>
#include <zstd.h>

int cqv_zs_level;
size_t cqv_zs_src, cqv_zs_cap;
int cqv_zs_calls;

size_t nondet_size_t(void);
int nondet_int(void);

#define CQV_ZS_ERR_FLOOR ((size_t)0 - (size_t)120) /* ZSTD_error_maxCode = 120 */

unsigned ZSTD_isError(size_t code) { return code > CQV_ZS_ERR_FLOOR; }
int ZSTD_maxCLevel(void) { return 22; }
int ZSTD_minCLevel(void) { return -(1 << 17); }

ZSTD_DCtx *ZSTD_createDCtx(void) {
  if (nondet_int()) return NULL;
  ZSTD_DCtx *c = (ZSTD_DCtx *)malloc(1);
  return c;
}

static size_t cqv_zs_oneshot(void *dst, size_t cap, const void *src, size_t n) {
  __CPROVER_precondition(n == 0 || __CPROVER_r_ok(src, n), "zstd: src[0..srcSize) readable");
  __CPROVER_precondition(cap == 0 || __CPROVER_w_ok(dst, cap), "zstd: dst[0..dstCapacity) writable");
  cqv_zs_src = n; cqv_zs_cap = cap; cqv_zs_calls++;
  size_t r = nondet_size_t();
  if (r > CQV_ZS_ERR_FLOOR) return r;
  __CPROVER_assume(r <= cap);
  if (r != 0) __CPROVER_havoc_slice(dst, r);
  return r;
}

size_t ZSTD_decompress(void *dst, size_t dstCapacity, const void *src, size_t compressedSize) {
  return cqv_zs_oneshot(dst, dstCapacity, src, compressedSize);
}
size_t ZSTD_decompressDCtx(ZSTD_DCtx *dctx, void *dst, size_t dstCapacity, const void *src, size_t srcSize) {
  __CPROVER_precondition(dctx != NULL && __CPROVER_rw_ok((char *)dctx, 1), "ZSTD_decompressDCtx: context is a live object from ZSTD_createDCtx");
  return cqv_zs_oneshot(dst, dstCapacity, src, srcSize);
}
size_t ZSTD_compress(void *dst, size_t dstCapacity, const void *src, size_t srcSize, int compressionLevel) {
  int cqv_lv_ok = compressionLevel >= -(1 << 17) && compressionLevel <= 22;
  __CPROVER_precondition(cqv_lv_ok, "ZSTD_compress: level within minCLevel..maxCLevel");
  cqv_zs_level = compressionLevel;
  return cqv_zs_oneshot(dst, dstCapacity, src, srcSize);
}
/* zstd.h: maximum compressed size in worst case single-pass scenario; >= srcSize (error code for
 * absurd sizes) */
size_t ZSTD_compressBound(size_t srcSize) {
  size_t r = nondet_size_t();
  __CPROVER_assume(r >= srcSize);
  return r;
}
