/* Assumed contracts for libc stdio under a FAILING sink / arbitrary source (trusted base, C18/C04).
 *
 * This file is #included by the harness (one translation unit), so the ghost state below is
 * visible to harness assertions and to overlay-inserted clauses.
 *
 * Output side (one stream handle G_stream):
 *   fwrite  accepts any count r <= n (short write at any byte); r < n  => G_io_failed
 *   fflush  may return EOF                                            => G_io_failed
 *   fclose  may return EOF (the stream is closed either way)           => G_io_failed
 *   fopen   may return NULL; remove may fail
 *   G_bytes_requested / G_bytes_accepted : byte totals over all fwrite calls
 *   G_dirty : bytes were accepted since the last SUCCESSFUL fflush/fclose (not yet at the sink)
 * Use of the stream after fclose, a second fclose and I/O on a foreign handle are precondition
 * violations (counted obligations).
 *
 * Input side (model file = heap object G_file of G_file_size bytes, cursor G_pos):
 *   fseek/ftell/fread with any-failure semantics; fread never delivers bytes outside the file
 *   and copies the true file bytes for short reads (<= CQV_FREAD_EXACT), havocs otherwise.
 *
 * malloc/calloc/realloc/free: CBMC's own library models (double free, free of a non-heap
 * pointer, leak tracking with --memory-leak-check).
 */
#ifndef CQV_STDIO_STUBS_C
#define CQV_STDIO_STUBS_C
#include "cqv.h"
#include <stdio.h>
#include <stdarg.h>
#include <stddef.h>
#include <stdint.h>

/* ---- ghost state -------------------------------------------------------- */
_Bool G_io_failed;               /* some stdio call on the sink reported failure */
_Bool G_dirty;                   /* accepted bytes not yet flushed successfully */
uint64_t G_bytes_requested;      /* sum of size*n over fwrite calls */
uint64_t G_bytes_accepted;       /* sum of size*r over fwrite calls */
static char G_stream_object;     /* the one FILE object of the model */
#define G_stream ((FILE *)(void *)&G_stream_object)
_Bool G_stream_open;             /* G_stream is currently open */
unsigned G_fopen_ok;             /* fopen calls that succeeded */
unsigned G_fopen_calls, G_fclose_calls, G_fflush_calls, G_fwrite_calls, G_remove_calls;
const char *G_removed_path;      /* argument of the last remove() */
const char *G_fopen_path;        /* argument of the last fopen() */

/* ---- output side -------------------------------------------------------- */
size_t fwrite(const void *ptr, size_t size, size_t n, FILE *f) {
  __CPROVER_precondition(f == G_stream && G_stream_open, "fwrite: stream is the open sink (no use after fclose)");
  __CPROVER_precondition(size == 1, "fwrite: element size 1 (the only form used by the writer)");
  __CPROVER_precondition(n <= CQV_MAXBUF && (n == 0 || __CPROVER_r_ok(ptr, n)), "fwrite: source range readable");
  size_t r = nondet_size_t();
  __CPROVER_assume(r <= n);
  G_fwrite_calls++;
  G_bytes_requested += n;
  G_bytes_accepted += r;
  if (r < n) G_io_failed = 1;
  if (r > 0) G_dirty = 1;
  return r;
}

int fflush(FILE *f) {
  __CPROVER_precondition(f == G_stream && G_stream_open, "fflush: stream is the open sink (no use after fclose)");
  G_fflush_calls++;
  if (nondet_bool()) { G_io_failed = 1; return EOF; }
  G_dirty = 0;
  return 0;
}

int fclose(FILE *f) {
  __CPROVER_precondition(f == G_stream && G_stream_open, "fclose: stream is open (no double close)");
  G_fclose_calls++;
  G_stream_open = 0;
  if (nondet_bool()) { G_io_failed = 1; return EOF; }
  G_dirty = 0;
  return 0;
}

FILE *fopen(const char *path, const char *mode) {
  (void)mode;
  __CPROVER_precondition(!G_stream_open, "fopen: model has one stream");
  G_fopen_calls++;
  G_fopen_path = path;
  if (nondet_bool()) return (FILE *)0;
  G_stream_open = 1;
  G_fopen_ok++;
  return G_stream;
}

int remove(const char *path) {
  __CPROVER_precondition(path != (const char *)0 && __CPROVER_r_ok(path, 1), "remove: path is a readable string");
  G_remove_calls++;
  G_removed_path = path;
  return nondet_bool() ? -1 : 0;
}

/* ---- input side ----------------------------------------------------------- */
#ifndef CQV_FREAD_EXACT
#define CQV_FREAD_EXACT 8
#endif
uint8_t *G_file;                 /* model file contents (heap object of G_file_size bytes) */
size_t G_file_size;
_Bool G_pos_valid;               /* cursor defined (a failed fseek leaves it undefined) */
size_t G_pos;
/* ghost record of the first two fread calls: cursor, requested and delivered byte counts */
size_t G_read_pos[2], G_read_req[2], G_read_got[2];
unsigned G_fread_calls;

int fseek(FILE *f, long off, int whence) {
  __CPROVER_precondition(f == G_stream && G_stream_open, "fseek: stream is open");
  if (nondet_bool()) { G_pos_valid = 0; return -1; }
  if (whence == SEEK_SET) {
    if (off < 0) return -1;                       /* EINVAL, cursor unchanged */
    G_pos = (size_t)off;
  } else if (whence == SEEK_END) {
    if (off < 0 && (size_t)(-(off + 1)) + 1 > G_file_size) return -1;
    G_pos = off < 0 ? G_file_size - ((size_t)(-(off + 1)) + 1) : G_file_size + (size_t)off;
  } else {
    __CPROVER_precondition(0, "fseek: SEEK_CUR not used by the reader");
  }
  G_pos_valid = 1;
  return 0;
}

long ftell(FILE *f) {
  __CPROVER_precondition(f == G_stream && G_stream_open, "ftell: stream is open");
  __CPROVER_precondition(G_pos_valid, "ftell: cursor defined");
  if (nondet_bool()) return -1L;
  return (long)G_pos;
}

size_t fread(void *ptr, size_t size, size_t n, FILE *f) {
  __CPROVER_precondition(f == G_stream && G_stream_open, "fread: stream is open");
  __CPROVER_precondition(size == 1, "fread: element size 1 (the only form used by the reader)");
  __CPROVER_precondition(n <= CQV_MAXBUF && __CPROVER_w_ok(ptr, n), "fread: destination range writable");
  __CPROVER_precondition(G_pos_valid, "fread: cursor defined");
  size_t avail = G_pos <= G_file_size ? G_file_size - G_pos : 0;
  size_t r = nondet_size_t();
  __CPROVER_assume(r <= n && r <= avail);          /* any short read; never past end of file */
  if (G_fread_calls < 2) { G_read_pos[G_fread_calls] = G_pos; G_read_req[G_fread_calls] = n; G_read_got[G_fread_calls] = r; }
  G_fread_calls++;
  if (n > CQV_FREAD_EXACT) {
    __CPROVER_havoc_slice(ptr, n);
  } else {
    for (size_t i = 0; i < CQV_FREAD_EXACT; i++)
      if (i < r) ((uint8_t *)ptr)[i] = G_file[G_pos + i];
  }
  G_pos += r;
  return r;
}

/* ---- printf family used by carquet_error_set ------------------------------- */
unsigned G_vsnprintf_calls;
char *G_msg_base;                /* destination of the last formatted message ... */
size_t G_msg_nul;                /* ... and the index at which it was NUL-terminated */
int vsnprintf(char *dst, size_t cap, const char *fmt, va_list ap) {
  (void)ap;
  __CPROVER_precondition(fmt != (const char *)0, "vsnprintf: format non-null");
  __CPROVER_precondition(cap == 0 || __CPROVER_w_ok(dst, cap), "vsnprintf: destination writable for its capacity");
  G_vsnprintf_calls++;
  if (cap != 0) {
    size_t len = nondet_size_t();                  /* formatted length, truncated to cap-1 */
    __CPROVER_assume(len < cap);
    __CPROVER_havoc_slice(dst, cap);
    dst[len] = 0;
    G_msg_base = dst;
    G_msg_nul = len;
  }
  return nondet_int();
}

/* ---- memory primitives: the shared contracts, plus an exact memcmp on request -------------- */
#ifdef CQV_EXACT_MEMCMP
/* jobs that define this list extra_sources=[] : the shared mem_stubs.c is textually reused with
 * its (result-havocking) memcmp renamed, and memcmp is exact for n <= CQV_EXACT_MEMCMP bytes. */
#define memcmp cqv_havoc_memcmp
#include "mem_stubs.c"
#undef memcmp
int memcmp(const void *a, const void *b, size_t n) {
  __CPROVER_precondition(__CPROVER_r_ok(a, n), "memcmp a readable");
  __CPROVER_precondition(__CPROVER_r_ok(b, n), "memcmp b readable");
  if (n > CQV_EXACT_MEMCMP) return nondet_int();
  for (size_t i = 0; i < CQV_EXACT_MEMCMP; i++) {
    if (i < n) {
      uint8_t x = ((const uint8_t *)a)[i], y = ((const uint8_t *)b)[i];
      if (x != y) return x < y ? -1 : 1;
    }
  }
  return 0;
}
#endif
#endif
