/* Assumed contracts (trusted, listed in each job's `trusted`) for every callee of the page
 * load / page decode / page finalize functions that lives outside src/reader/page_reader.c and
 * src/writer/page_writer.c, plus the ghost state the harnesses read.
 *
 * This file is #included by the harness translation unit (before the real source), so the
 * ghost variables are shared with the overlay insertions.
 *
 * PG_RANGES=1 (C04 jobs): every (pointer,length) a callee receives must be an accessible range
 *                         (that is the memory-safety obligation of the caller).
 * PG_RANGES=0 (C14/C09 logic jobs): ranges are only recorded; the harness compares them with the
 *                         exact stored-bytes window.  Memory safety is not claimed by those jobs.
 */
#ifndef PAGES_STUBS_C
#define PAGES_STUBS_C
#include "cqv.h"
#include <stdlib.h>
#include <stdio.h>
#include <stdbool.h>
#include <carquet/carquet.h>
#include <carquet/error.h>
#include "thrift/parquet_types.h"
#include "core/buffer.h"
#include "reader/reader_internal.h"

#ifndef PG_RANGES
#define PG_RANGES 1
#endif
#if PG_RANGES
#define PG_RANGE(x) (x)
#define PG_PRE(c, msg) __CPROVER_precondition(c, msg)
#else
#define PG_RANGE(x) (1)
#define PG_PRE(c, msg) ((void)0)
#endif
/* libc block operations, same contracts as stubs/mem_stubs.c (ranges accessible, destination becomes
 * arbitrary) except that the destination is only havocked when it is accessible: havoc_slice through
 * a NULL/dangling pointer (which these jobs do reach) makes cbmc's --json-ui output explode.
 * With PG_RANGES=0 the accessibility obligation is dropped (logic-only jobs).
 * PG_MEM_NOCONTENT: the written bytes are not modelled at all (left as they were, i.e. arbitrary for
 * a fresh heap block).  Only for jobs in which neither the code under proof nor the harness reads
 * those bytes back (the page LOAD functions: level buffers / dictionary copies are filled and handed
 * on); needed because cbmc --json-ui builds a trace per failing obligation and runs out of memory
 * on the 2^32-byte nondet array havoc_slice introduces. */
#ifdef PG_MEM_NOCONTENT
#define PG_HAVOC(d, n) ((void)0)
#else
static void pg_havoc(void *d, size_t n) { if (n != 0 && __CPROVER_w_ok(d, n)) __CPROVER_havoc_slice(d, n); }
#define PG_HAVOC(d, n) pg_havoc((d), (n))
#endif
void *memcpy(void *d, const void *s, size_t n) {
  PG_PRE(__CPROVER_r_ok(s, n), "memcpy src readable");
  PG_PRE(__CPROVER_w_ok(d, n), "memcpy dst writable");
#ifdef PG_MEMCPY_SMALL
  /* 4- and 8-byte copies (core/endian.h readers) keep their contents */
  if (n == 4 && __CPROVER_r_ok(s, n) && __CPROVER_w_ok(d, n)) {
    ((uint8_t *)d)[0] = ((const uint8_t *)s)[0]; ((uint8_t *)d)[1] = ((const uint8_t *)s)[1];
    ((uint8_t *)d)[2] = ((const uint8_t *)s)[2]; ((uint8_t *)d)[3] = ((const uint8_t *)s)[3];
    return d;
  }
#endif
  PG_HAVOC(d, n);
  return d;
}
void *memmove(void *d, const void *s, size_t n) {
  PG_PRE(__CPROVER_r_ok(s, n), "memmove src readable");
  PG_PRE(__CPROVER_w_ok(d, n), "memmove dst writable");
  PG_HAVOC(d, n);
  return d;
}
void *memset(void *d, int c, size_t n) {
  (void)c;
  PG_PRE(__CPROVER_w_ok(d, n), "memset dst writable");
  PG_HAVOC(d, n);
  return d;
}

/* bytes one decoded value of a physical type occupies in a caller-supplied values buffer */
#define PG_VALUE_SIZE(t, tl) \
  ((t) == CARQUET_PHYSICAL_BOOLEAN ? (size_t)1 : \
   ((t) == CARQUET_PHYSICAL_INT32 || (t) == CARQUET_PHYSICAL_FLOAT) ? (size_t)4 : \
   ((t) == CARQUET_PHYSICAL_INT64 || (t) == CARQUET_PHYSICAL_DOUBLE) ? (size_t)8 : \
   (t) == CARQUET_PHYSICAL_INT96 ? (size_t)12 : \
   (t) == CARQUET_PHYSICAL_BYTE_ARRAY ? sizeof(carquet_byte_array_t) : \
   (t) == CARQUET_PHYSICAL_FIXED_LEN_BYTE_ARRAY ? (size_t)(tl) : (size_t)0)

/* little-endian 32-bit value at p (specification side) */
#define PG_LE32(p) ((uint32_t)(p)[0] | ((uint32_t)(p)[1] << 8) | ((uint32_t)(p)[2] << 16) | ((uint32_t)(p)[3] << 24))
/* bytes per dictionary entry the data-page decoder reads for an index (0: type never looked up) */
#define PG_DICT_VS(t, tl) \
  (((t) == CARQUET_PHYSICAL_INT32 || (t) == CARQUET_PHYSICAL_FLOAT) ? (size_t)4 : \
   ((t) == CARQUET_PHYSICAL_INT64 || (t) == CARQUET_PHYSICAL_DOUBLE) ? (size_t)8 : \
   (t) == CARQUET_PHYSICAL_INT96 ? (size_t)12 : \
   (t) == CARQUET_PHYSICAL_FIXED_LEN_BYTE_ARRAY ? (size_t)(tl) : (size_t)0)
size_t cqv_k;                      /* arbitrary ghost index, used instead of a quantifier */

/* ---- ghost state ------------------------------------------------------------------------ */
int g_parse_calls;                 /* parquet_parse_page_header calls so far                     */
const uint8_t *g_parse_ptr;        /* arguments of the LAST parse call                            */
size_t g_parse_size;
carquet_status_t g_parse_ret;      /* what the last parse returned                                */
parquet_page_header_t g_hdr;       /* header the last parse produced                              */
size_t g_hdr_size;                 /* bytes_read the last parse produced                          */
/* the following are reset by every parse call: they describe what happened AFTER the last parse  */
int g_crc_calls;
const uint8_t *g_crc_ptr;
size_t g_crc_len;
uint32_t g_crc_ret;
int g_decomp_calls;                /* codec decompress calls (after the last parse)               */
unsigned g_dict_calls;                  /* carquet_read_dictionary_page entered (overlay @entry)       */
unsigned g_data_calls;                  /* carquet_read_data_page_v1 entered (overlay @entry)          */
unsigned g_err_sets;                    /* carquet_error_set calls with a non-NULL error struct        */
/* writer side */
int g_wcrc_calls;
const uint8_t *g_wcrc_ptr;
size_t g_wcrc_len;
uint32_t g_wcrc_ret;

/* ---- error reporting (vsnprintf is assumed to NUL-terminate within CARQUET_ERROR_MESSAGE_MAX) - */
void carquet_error_set(carquet_error_t *error, carquet_status_t code, const char *file, int line,
                       const char *function, const char *format, ...) {
  if (!error) return;
  __CPROVER_precondition(__CPROVER_w_ok(error, sizeof(*error)), "error struct writable");
  error->code = code;
  error->file = file;
  error->line = line;
  error->function = function;
  __CPROVER_havoc_slice(error->message, CARQUET_ERROR_MESSAGE_MAX);
  error->message[CARQUET_ERROR_MESSAGE_MAX - 1] = '\0';
  g_err_sets++;
}

/* ---- thrift page header parser: arbitrary header fields (negative sizes included) ------------ */
carquet_status_t parquet_parse_page_header(const uint8_t *data, size_t size, parquet_page_header_t *header,
                                           size_t *bytes_read, carquet_error_t *error) {
  PG_PRE(__CPROVER_r_ok(data, size), "page header window handed to the parser is readable");
  __CPROVER_precondition(__CPROVER_w_ok(header, sizeof(*header)), "parse: header out writable");
  __CPROVER_precondition(__CPROVER_w_ok(bytes_read, sizeof(*bytes_read)), "parse: bytes_read out writable");
  parquet_page_header_t h;          /* uninitialised = arbitrary */
  carquet_status_t st = nondet_int();
  size_t used = nondet_size_t();
  __CPROVER_assume(st != CARQUET_ERROR_CRC_MISMATCH);
  /* assumed: a successful parse consumed at least one and at most `size` bytes */
  __CPROVER_assume(st != CARQUET_OK || (used >= 1 && used <= size));
  *header = h;
  *bytes_read = used;
  if (st != CARQUET_OK && error) {
    __CPROVER_precondition(__CPROVER_w_ok(error, sizeof(*error)), "error struct writable");
    error->code = st;
    error->message[0] = '\0';
  }
  g_parse_calls++;
  g_parse_ptr = data; g_parse_size = size; g_parse_ret = st; g_hdr = h; g_hdr_size = used;
  g_crc_calls = 0; g_crc_ptr = NULL; g_crc_len = 0; g_crc_ret = 0;
  g_decomp_calls = 0; g_dict_calls = 0; g_data_calls = 0;
  return st;
}

/* ---- CRC: arbitrary value, arguments recorded ------------------------------------------------ */
#ifndef PG_WRITER
uint32_t carquet_crc32(const uint8_t *data, size_t length) {
  PG_PRE(__CPROVER_r_ok(data, length), "range handed to carquet_crc32 is readable");
  uint32_t r = nondet_u32();
  g_crc_calls++; g_crc_ptr = data; g_crc_len = length; g_crc_ret = r;
  return r;
}
#endif

/* ---- codecs (C08 contracts): src readable, dst writable, reported size within capacity ------- */
static carquet_status_t pg_decompress(const uint8_t *src, size_t src_size, uint8_t *dst, size_t dst_capacity,
                                      size_t *dst_size) {
  PG_PRE(__CPROVER_r_ok(src, src_size), "compressed range handed to the codec is readable");
  PG_PRE(__CPROVER_w_ok(dst, dst_capacity), "decompression buffer has the stated capacity");
  __CPROVER_precondition(__CPROVER_w_ok(dst_size, sizeof(*dst_size)), "codec: dst_size writable");
  g_decomp_calls++;
  carquet_status_t st = nondet_int();
  size_t out = nondet_size_t();
  __CPROVER_assume(st != CARQUET_ERROR_CRC_MISMATCH);
  __CPROVER_assume(out <= dst_capacity);
  *dst_size = out;                  /* may be written on failure as well, always <= capacity */
  return st;
}
carquet_status_t carquet_snappy_decompress(const uint8_t *s, size_t n, uint8_t *d, size_t c, size_t *o) { return pg_decompress(s, n, d, c, o); }
carquet_status_t carquet_lz4_decompress(const uint8_t *s, size_t n, uint8_t *d, size_t c, size_t *o) { return pg_decompress(s, n, d, c, o); }
int carquet_gzip_decompress(const uint8_t *s, size_t n, uint8_t *d, size_t c, size_t *o) { return (int)pg_decompress(s, n, d, c, o); }
int carquet_zstd_decompress(const uint8_t *s, size_t n, uint8_t *d, size_t c, size_t *o) { return (int)pg_decompress(s, n, d, c, o); }

/* ---- stdio: seeks may fail, reads may be short ------------------------------------------------ */
int g_fseek_calls, g_fread_calls;
long g_fseek_off;                  /* offset of the last fseek                                    */
void *g_fread_ptr;                 /* arguments / result of the last fread                        */
size_t g_fread_n, g_fread_got;
int fseek(FILE *f, long off, int whence) {
  (void)f;
  __CPROVER_precondition(whence == SEEK_SET, "page reader seeks absolutely");
  g_fseek_calls++; g_fseek_off = off;
  return nondet_int();
}
size_t fread(void *p, size_t sz, size_t n, FILE *f) {
  (void)f;
  __CPROVER_precondition(sz == 1, "page reader reads bytes");
  __CPROVER_precondition(__CPROVER_w_ok(p, n), "fread destination holds the requested count");
  size_t got = nondet_size_t();
  __CPROVER_assume(got <= n);
  if (n != 0) __CPROVER_havoc_slice(p, n);
  g_fread_calls++; g_fread_ptr = p; g_fread_n = n; g_fread_got = got;
  return got;
}

/* ---- zero-copy eligibility (src/reader/mmap_reader.c, little-endian build): exact definition -- */
bool carquet_page_is_zero_copy_eligible(carquet_compression_t codec, carquet_encoding_t encoding,
                                        carquet_physical_type_t type) {
  if (codec != CARQUET_COMPRESSION_UNCOMPRESSED) return false;
  if (encoding != CARQUET_ENCODING_PLAIN) return false;
  return type == CARQUET_PHYSICAL_INT32 || type == CARQUET_PHYSICAL_INT64 || type == CARQUET_PHYSICAL_FLOAT ||
         type == CARQUET_PHYSICAL_DOUBLE || type == CARQUET_PHYSICAL_INT96 ||
         type == CARQUET_PHYSICAL_FIXED_LEN_BYTE_ARRAY;
}
 
/* ---- level / value decoders and dictionary gathers (C08 / C15 contracts), only for the page DECODER jobs ---- */
#ifdef PG_DECODE_STUBS
#ifndef PG_MAXV
#define PG_MAXV 3
#endif
int64_t carquet_rle_decode_levels(const uint8_t *input, size_t input_size, int bit_width, int16_t *output, int64_t max_values) {
  (void)bit_width;
  PG_PRE(__CPROVER_r_ok(input, input_size), "level decoder: input range readable");
  PG_PRE(max_values >= 0 && (max_values == 0 || __CPROVER_w_ok(output, (size_t)max_values << 1)), "level decoder: output holds max_values levels");
  PG_HAVOC(output, (size_t)max_values << 1);
  int64_t r = nondet_i64();
  __CPROVER_assume(r >= -1 && r <= max_values);
  return r;
}
int64_t carquet_rle_decode_all(const uint8_t *input, size_t input_size, int bit_width, uint32_t *output, int64_t max_values) {
  (void)bit_width;
  PG_PRE(__CPROVER_r_ok(input, input_size), "index decoder: input range readable");
  PG_PRE(max_values >= 0 && (max_values == 0 || __CPROVER_w_ok(output, (size_t)max_values << 2)), "index decoder: output holds max_values indices");
  PG_HAVOC(output, (size_t)max_values << 2);
  int64_t r = nondet_i64();
  __CPROVER_assume(r >= -1 && r <= max_values);
  return r;
}
int64_t carquet_decode_plain(const uint8_t *input, size_t input_size, carquet_physical_type_t type, int32_t type_length,
                             void *output, int64_t count) {
  PG_PRE(__CPROVER_r_ok(input, input_size), "plain decoder: input range readable");
  PG_PRE(count >= 0, "plain decoder: non-negative count");
  PG_PRE(count == 0 || __CPROVER_w_ok(output, PG_VALUE_SIZE(type, type_length) * (size_t)count), "plain decoder: output holds count values of the type");
  if (count > 0) PG_HAVOC(output, PG_VALUE_SIZE(type, type_length) * (size_t)count);
  int64_t r = nondet_i64();
  __CPROVER_assume(r >= -1 && (r < 0 || (size_t)r <= input_size));
  return r;
}
/* gathers: every index addresses an entry of the dictionary block; output holds count entries (bounded: count <= PG_MAXV) */
#define PG_GATHER(NAME, T) \
void NAME(const T *dict, const uint32_t *indices, int64_t count, T *output) { \
  PG_PRE(count >= 0 && count <= PG_MAXV, "gather: count within the job's bound"); \
  PG_PRE(count == 0 || __CPROVER_r_ok(indices, (size_t)count << 2), "gather: indices readable"); \
  PG_PRE(count == 0 || __CPROVER_w_ok(output, (size_t)count * sizeof(T)), "gather: output holds count values"); \
  if (0 < count) PG_PRE(__CPROVER_r_ok(dict + indices[0], sizeof(T)), "gather: index 0 addresses a dictionary entry"); \
  if (1 < count) PG_PRE(__CPROVER_r_ok(dict + indices[1], sizeof(T)), "gather: index 1 addresses a dictionary entry"); \
  if (2 < count) PG_PRE(__CPROVER_r_ok(dict + indices[2], sizeof(T)), "gather: index 2 addresses a dictionary entry"); \
  if (count > 0) PG_HAVOC(output, (size_t)count * sizeof(T)); \
}
PG_GATHER(carquet_dispatch_gather_i32, int32_t)
PG_GATHER(carquet_dispatch_gather_i64, int64_t)
PG_GATHER(carquet_dispatch_gather_float, float)
PG_GATHER(carquet_dispatch_gather_double, double)
#endif

/* ---- harness helpers: a column reader in an arbitrary state satisfying the representation ------
 * invariant of src/reader (pointers the library frees are NULL or heap blocks it allocated, level
 * buffers hold decoded_capacity entries, a VIEW points into the mapping).  Everything else,
 * including every offset / size / count that comes from file metadata, is arbitrary. */
typedef struct pg_env {
  carquet_reader_t *fr;
  parquet_column_metadata_t *cm;
  carquet_column_reader_t *r;
  uint8_t *map;
  size_t file_size;
  carquet_error_t *err;
} pg_env_t;

static void *pg_block(size_t n) { void *p = malloc(n); __CPROVER_assume(p != NULL); return p; }

static pg_env_t pg_mk_env(bool use_mmap) {
  pg_env_t e;
  e.fr = pg_block(sizeof(*e.fr));
  e.cm = pg_block(sizeof(*e.cm));
  e.r = pg_block(sizeof(*e.r));
  carquet_reader_t fr0; parquet_column_metadata_t cm0; carquet_column_reader_t r0;   /* arbitrary contents */
  *e.fr = fr0; *e.cm = cm0; *e.r = r0;
  e.file_size = nondet_size_t();
  __CPROVER_assume(e.file_size <= CQV_MAXBUF);
  e.map = NULL;
  if (use_mmap) {
    e.map = pg_block(e.file_size);
    e.fr->mmap_data = e.map;
    e.fr->file = NULL;
  } else {
    e.fr->mmap_data = NULL;
    e.fr->file = pg_block(sizeof(FILE));
  }
  e.fr->file_size = e.file_size;
  e.r->file_reader = e.fr;
  e.r->col_meta = e.cm;
  e.r->chunk = NULL;
  /* owned buffers */
  size_t cap = nondet_size_t();
  __CPROVER_assume(cap <= ((size_t)1 << 31));
  e.r->decoded_capacity = cap;
  e.r->decoded_def_levels = cap ? pg_block(cap << 1) : NULL;
  e.r->decoded_rep_levels = cap ? pg_block(cap << 1) : NULL;
  __CPROVER_assume(e.r->decoded_ownership == CARQUET_DATA_OWNED || (use_mmap && e.r->decoded_ownership == CARQUET_DATA_VIEW));
  /* case split over the column type (the union of the jobs covers every type):
   * PG_FLBA=n : FIXED_LEN_BYTE_ARRAY(n);  PG_NOT_FLBA : every other type value, valid or not;
   * neither: no restriction */
#if defined(PG_FLBA)
  __CPROVER_assume(e.r->type == CARQUET_PHYSICAL_FIXED_LEN_BYTE_ARRAY && e.r->type_length == PG_FLBA);
#elif defined(PG_NOT_FLBA)
  __CPROVER_assume(e.r->type != CARQUET_PHYSICAL_FIXED_LEN_BYTE_ARRAY);
#endif
  if (e.r->decoded_ownership == CARQUET_DATA_OWNED) {
    /* owned value buffer: decoded_capacity values of the column's type (page_reader.c allocates exactly that) */
    size_t vb = PG_VALUE_SIZE(e.r->type, e.r->type_length) * cap;
    e.r->decoded_values = cap ? pg_block(vb) : NULL;
  } else {
    size_t off = nondet_size_t();
    __CPROVER_assume(off <= e.file_size);
    e.r->decoded_values = e.map + off;
  }
  size_t n1 = nondet_size_t(), n2 = nondet_size_t(), n3 = nondet_size_t(), n4 = nondet_size_t();
  __CPROVER_assume(n1 <= CQV_MAXBUF && n2 <= CQV_MAXBUF && n3 <= CQV_MAXBUF && n4 <= CQV_MAXBUF);
  e.r->page_data_for_values = nondet_bool() ? pg_block(n1) : NULL;
  e.r->page_buffer = NULL;
  /* no dictionary loaded => no dictionary storage (calloc'ed reader, freed+NULLed on failure) */
  e.r->dictionary_data = e.r->has_dictionary ? pg_block(n2) : NULL;
  e.r->dictionary_size = e.r->has_dictionary ? n2 : e.r->dictionary_size;
  e.r->dictionary_offsets = (e.r->has_dictionary && nondet_bool()) ? pg_block(n3) : NULL;
  e.r->indices_buffer = nondet_bool() ? pg_block(n4) : NULL;
  e.err = NULL;
  if (nondet_bool()) {
    e.err = pg_block(sizeof(*e.err));
    e.err->code = CARQUET_OK;
    e.err->message[0] = '\0';
  }
  return e;
}

/* what carquet_column_reader_free + reader close release; afterwards nothing may be left allocated */
static void pg_free_env(pg_env_t *e) {
  carquet_column_reader_t *r = e->r;
  free(r->page_buffer);
  free(r->page_data_for_values);
  free(r->dictionary_data);
  free(r->dictionary_offsets);
  if (r->decoded_ownership == CARQUET_DATA_OWNED) free(r->decoded_values);
  free(r->decoded_def_levels);
  free(r->decoded_rep_levels);
  free(r->indices_buffer);
  free(r);
  free(e->cm);
  free(e->map);
  free(e->fr->file);
  free(e->fr);
  free(e->err);
}
#endif
