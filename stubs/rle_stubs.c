/* Assumed contracts (trusted until contracts/bitpack.ovl and a buffer.c family provide proved ones)
 * for the callees of src/encoding/rle.c that live in other translation units:
 *   carquet_bitunpack8_32, carquet_bitpack8_32 (src/core/bitpack.c), carquet_buffer_append (src/core/buffer.c).
 * Precondition = the ranges the real function touches are accessible; effect = destination arbitrary.
 *
 * RLE_STUB_RECORD (C12 lemma jobs): carquet_buffer_append additionally keeps the appended bytes in a
 * small ghost array so that a harness can compare them with the specification encoding. */
#include <stddef.h>
#include <stdint.h>
#include <carquet/error.h>
#include "core/buffer.h"

void carquet_bitunpack8_32(const uint8_t *input, int bit_width, uint32_t *values) {
  __CPROVER_precondition(bit_width >= 0 && bit_width <= 255, "bitunpack8_32: bit width in 0..255");
  __CPROVER_precondition(bit_width == 0 || __CPROVER_r_ok(input, (size_t)bit_width),
                         "bitunpack8_32: input readable for bit_width bytes (8 values)");
  __CPROVER_precondition(__CPROVER_w_ok(values, 8 * sizeof(uint32_t)), "bitunpack8_32: 8 output values writable");
  __CPROVER_havoc_slice(values, 8 * sizeof(uint32_t));
}

void carquet_bitpack8_32(const uint32_t *values, int bit_width, uint8_t *output) {
  __CPROVER_precondition(bit_width >= 0 && bit_width <= 32, "bitpack8_32: bit width in 0..32");
  __CPROVER_precondition(__CPROVER_r_ok(values, 8 * sizeof(uint32_t)), "bitpack8_32: 8 input values readable");
  __CPROVER_precondition(bit_width == 0 || __CPROVER_w_ok(output, (size_t)bit_width),
                         "bitpack8_32: output writable for bit_width bytes");
  if (bit_width != 0) __CPROVER_havoc_slice(output, (size_t)bit_width);
}

/* ghost state shared with the contracts (declared in specs/rle_spec.h) */
int64_t G_put, G_emitted, G_pad;
#define RLE_REC_CAP 64
uint8_t rle_rec[RLE_REC_CAP];
size_t rle_rec_len;
size_t G_zero_rle_pos;
int G_zero_rle_seen;
/* number of appends that reported failure (C11: failures must not be lost) */
unsigned rle_append_failures;

carquet_status_t carquet_buffer_append(carquet_buffer_t *buf, const void *data, size_t size) {
  __CPROVER_precondition(buf != NULL, "buffer_append: buf != NULL");
  __CPROVER_precondition(size == 0 || __CPROVER_r_ok(data, size), "buffer_append: data readable for size bytes");
  if (size == 0) return CARQUET_OK;
#ifdef RLE_STUB_RECORD
  /* exact model for the byte-level lemmas: appends never fail, bytes are kept (at most 32 per call) */
  __CPROVER_precondition(size <= 32, "record stub: appends of at most 32 bytes");
  for (size_t i = 0; i < 32; i++)
    if (i < size && rle_rec_len + i < RLE_REC_CAP) rle_rec[rle_rec_len + i] = ((const uint8_t *)data)[i];
  rle_rec_len += size;
  return CARQUET_OK;
#else
  _Bool fail;
  if (fail) {
    if (rle_append_failures != 0xFFFFFFFFu) rle_append_failures++;
    return CARQUET_ERROR_OUT_OF_MEMORY;
  }
  return CARQUET_OK;
#endif
}
