/* Common definitions for all /verif harnesses (CBMC side only). */
#ifndef CQV_H
#define CQV_H
#include <stddef.h>
#include <stdint.h>

/* Upper bound on object sizes: keeps CBMC's pointer offsets far from wrap-around
 * (assumption A2/A3 in DESIGN.md). 2^40 bytes. */
#define CQV_MAXBUF ((size_t)1 << 40)

/* Canaries are compiled in only for the separate vacuity run (-DCQV_CANARIES): a failing
 * assertion in the middle of a path leaves later obligations on that path undetermined
 * (status UNKNOWN) in CBMC's all-properties mode, so the proof run carries none. */
#ifdef CQV_CANARIES
#define CQV_CANARY(msg) __CPROVER_assert(0, "canary: " msg)
#define CQV_REACH(msg) __CPROVER_assert(0, "reach: " msg)
#else
#define CQV_CANARY(msg) ((void)0)
#define CQV_REACH(msg) ((void)0)
#endif

size_t nondet_size_t(void);
int nondet_int(void);
unsigned nondet_unsigned(void);
uint8_t nondet_u8(void);
uint16_t nondet_u16(void);
uint32_t nondet_u32(void);
uint64_t nondet_u64(void);
int32_t nondet_i32(void);
int64_t nondet_i64(void);
_Bool nondet_bool(void);
void *nondet_ptr(void);
#endif
