/* Assumed contracts for the libc memory primitives used by the statistics family (C16).
 * Same shape as stubs/mem_stubs.c (ranges must be accessible), but
 *   - memcpy/memset keep contents for n <= CQV_STATS_EXACT bytes (default 16), otherwise the
 *     destination becomes arbitrary;
 *   - memcmp is the true lexicographic unsigned-byte comparison for n <= CQV_STATS_CMP (default 8)
 *     bytes (sign only: -1/0/1 is a legal memcmp result), otherwise an arbitrary int.
 * A job that uses this file instead of mem_stubs.c lists it in `trusted`. */
#include <stddef.h>
#include <stdint.h>

#ifndef CQV_STATS_EXACT
#define CQV_STATS_EXACT 16
#endif
#ifndef CQV_STATS_CMP
#define CQV_STATS_CMP 8
#endif

void *memcpy(void *dst, const void *src, size_t n) {
  __CPROVER_precondition(__CPROVER_r_ok(src, n), "memcpy src readable");
  __CPROVER_precondition(__CPROVER_w_ok(dst, n), "memcpy dst writable");
  if (n != 0) {
    if (n <= CQV_STATS_EXACT) {
      for (size_t i = 0; i < CQV_STATS_EXACT; i++) {
        if (i < n) ((uint8_t *)dst)[i] = ((const uint8_t *)src)[i];
      }
      return dst;
    }
    __CPROVER_havoc_slice(dst, n);
  }
  return dst;
}

void *memmove(void *dst, const void *src, size_t n) {
  __CPROVER_precondition(__CPROVER_r_ok(src, n), "memmove src readable");
  __CPROVER_precondition(__CPROVER_w_ok(dst, n), "memmove dst writable");
  if (n != 0) __CPROVER_havoc_slice(dst, n);
  return dst;
}

void *memset(void *dst, int c, size_t n) {
  __CPROVER_precondition(__CPROVER_w_ok(dst, n), "memset dst writable");
  if (n != 0) {
#ifdef CQV_MEMSET_EXACT
    if (n <= CQV_MEMSET_EXACT) {
      for (size_t i = 0; i < CQV_MEMSET_EXACT; i++) {
        if (i < n) ((uint8_t *)dst)[i] = (uint8_t)c;
      }
      return dst;
    }
#endif
    __CPROVER_havoc_slice(dst, n);
  }
  return dst;
}

int memcmp(const void *a, const void *b, size_t n) {
  __CPROVER_precondition(__CPROVER_r_ok(a, n), "memcmp a readable");
  __CPROVER_precondition(__CPROVER_r_ok(b, n), "memcmp b readable");
  if (n <= CQV_STATS_CMP) {
    int r = 0;
    for (size_t i = 0; i < CQV_STATS_CMP; i++) {
      if (i < n && r == 0) {
        uint8_t x = ((const uint8_t *)a)[i], y = ((const uint8_t *)b)[i];
        if (x != y) r = x < y ? -1 : 1;
      }
    }
    return r;
  }
  int any;
  return any;
}
