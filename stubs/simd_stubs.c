/* C15 dispatcher jobs: bodies for the vector kernels that dispatch.c only declares.  In the dispatcher
 * jobs the kernels are opaque (each has its own job); a body that does nothing and returns an
 * arbitrary value stands for "some kernel was called".  Generated from the extern declarations. */
#include <stdint.h>
#include <stddef.h>
int64_t nondet_i64(void);

void carquet_sse_prefix_sum_i32(int32_t* values, int64_t count, int32_t initial) { }
void carquet_sse_prefix_sum_i64(int64_t* values, int64_t count, int64_t initial) { }
void carquet_sse_gather_i32(const int32_t* dict, const uint32_t* indices, int64_t count, int32_t* output) { }
void carquet_sse_gather_i64(const int64_t* dict, const uint32_t* indices, int64_t count, int64_t* output) { }
void carquet_sse_gather_float(const float* dict, const uint32_t* indices, int64_t count, float* output) { }
void carquet_sse_gather_double(const double* dict, const uint32_t* indices, int64_t count, double* output) { }
void carquet_sse_byte_stream_split_encode_float(const float* values, int64_t count, uint8_t* output) { }
void carquet_sse_byte_stream_split_decode_float(const uint8_t* data, int64_t count, float* values) { }
void carquet_sse_byte_stream_split_encode_double(const double* values, int64_t count, uint8_t* output) { }
void carquet_sse_byte_stream_split_decode_double(const uint8_t* data, int64_t count, double* values) { }
void carquet_sse_unpack_bools(const uint8_t* input, uint8_t* output, int64_t count) { }
void carquet_sse_pack_bools(const uint8_t* input, uint8_t* output, int64_t count) { }
uint32_t carquet_sse_crc32c(uint32_t crc, const uint8_t* data, size_t len) { return (uint32_t)nondet_i64(); }
void carquet_sse_match_copy(uint8_t* dst, const uint8_t* src, size_t len, size_t offset) { }
size_t carquet_sse_match_length(const uint8_t* p, const uint8_t* match, const uint8_t* limit) { return (size_t)nondet_i64(); }
int64_t carquet_sse_count_non_nulls(const int16_t* def_levels, int64_t count, int16_t max_def_level) { return (int64_t)nondet_i64(); }
void carquet_sse_build_null_bitmap(const int16_t* def_levels, int64_t count, int16_t max_def_level, uint8_t* null_bitmap) { }
void carquet_sse_fill_def_levels(int16_t* def_levels, int64_t count, int16_t value) { }
int64_t carquet_sse_find_run_length_i32(const int32_t* values, int64_t count) { return (int64_t)nondet_i64(); }
void carquet_avx2_prefix_sum_i32(int32_t* values, int64_t count, int32_t initial) { }
void carquet_avx2_prefix_sum_i64(int64_t* values, int64_t count, int64_t initial) { }
void carquet_avx2_gather_i32(const int32_t* dict, const uint32_t* indices, int64_t count, int32_t* output) { }
void carquet_avx2_gather_i64(const int64_t* dict, const uint32_t* indices, int64_t count, int64_t* output) { }
void carquet_avx2_gather_float(const float* dict, const uint32_t* indices, int64_t count, float* output) { }
void carquet_avx2_gather_double(const double* dict, const uint32_t* indices, int64_t count, double* output) { }
void carquet_avx2_byte_stream_split_encode_float(const float* values, int64_t count, uint8_t* output) { }
void carquet_avx2_byte_stream_split_decode_float(const uint8_t* data, int64_t count, float* values) { }
void carquet_avx2_unpack_bools(const uint8_t* input, uint8_t* output, int64_t count) { }
void carquet_avx2_pack_bools(const uint8_t* input, uint8_t* output, int64_t count) { }
int64_t carquet_avx2_find_run_length_i32(const int32_t* values, int64_t count) { return (int64_t)nondet_i64(); }
void carquet_avx512_prefix_sum_i32(int32_t* values, int64_t count, int32_t initial) { }
void carquet_avx512_prefix_sum_i64(int64_t* values, int64_t count, int64_t initial) { }
void carquet_avx512_gather_i32(const int32_t* dict, const uint32_t* indices, int64_t count, int32_t* output) { }
void carquet_avx512_gather_i64(const int64_t* dict, const uint32_t* indices, int64_t count, int64_t* output) { }
void carquet_avx512_gather_float(const float* dict, const uint32_t* indices, int64_t count, float* output) { }
void carquet_avx512_gather_double(const double* dict, const uint32_t* indices, int64_t count, double* output) { }
void carquet_avx512_byte_stream_split_encode_float(const float* values, int64_t count, uint8_t* output) { }
void carquet_avx512_byte_stream_split_decode_float(const uint8_t* data, int64_t count, float* values) { }
void carquet_avx512_unpack_bools(const uint8_t* input, uint8_t* output, int64_t count) { }
void carquet_avx512_pack_bools(const uint8_t* input, uint8_t* output, int64_t count) { }
int64_t carquet_avx512_find_run_length_i32(const int32_t* values, int64_t count) { return (int64_t)nondet_i64(); }
