/* Assumed contracts for zlib (trusted base): the subset carquet uses.
 * Preconditions are checked at every call (they are the obligations on carquet's wrapper):
 *   - the stream is a valid z_stream, default allocators, initialised exactly once and not ended
 *   - next_in/avail_in and next_out/avail_out describe accessible memory
 *   - parameters are in the ranges zlib.h documents
 * Effects: at most avail_in bytes consumed, at most avail_out bytes written (arbitrary contents),
 * counters advanced accordingly; any documented return code.  Z_STREAM_END under Z_FINISH is only
 * returned when all offered input was consumed (zlib.h: "deflate/inflate returns Z_STREAM_END if
 * all of the input has been processed and all output produced").
 * Ghost state (read by the wrapper contracts):
 *   cqv_z_open        streams initialised and not yet ended (must be 0 when the wrapper returns)
 *   cqv_z_calls       number of inflate()/deflate() calls
 *   cqv_z_in0/out0    avail_in / avail_out offered at the first inflate()/deflate() call
 *   cqv_z_level       level given to deflateInit2_ */
#include <stddef.h>
#include <stdint.h>
#include <zlib.h>

int cqv_z_open;
int cqv_z_calls;
unsigned long cqv_z_in0, cqv_z_out0;
int cqv_z_level;

int nondet_int(void);
unsigned nondet_unsigned(void);

static int cqv_z_wbits_ok(int w) {
  /* 8..15 zlib, -8..-15 raw, +16 gzip, +32 auto-detect (inflate only) */
  return (w >= 8 && w <= 15) || (w <= -8 && w >= -15) || (w >= 24 && w <= 31) || (w >= 40 && w <= 47);
}

int inflateInit2_(z_streamp strm, int windowBits, const char *version, int stream_size) {
  __CPROVER_precondition(strm != Z_NULL && __CPROVER_rw_ok(strm, sizeof(*strm)), "inflateInit2: stream accessible");
  __CPROVER_precondition(stream_size == (int)sizeof(z_stream), "inflateInit2: stream_size is sizeof(z_stream)");
  __CPROVER_precondition(strm->zalloc == Z_NULL && strm->zfree == Z_NULL && strm->opaque == Z_NULL, "inflateInit2: allocator fields initialised (Z_NULL)");
  __CPROVER_precondition(cqv_z_wbits_ok(windowBits), "inflateInit2: windowBits in a documented range");
  int fail = nondet_int();
  if (fail) { strm->state = Z_NULL; strm->msg = Z_NULL; return fail > 0 ? Z_MEM_ERROR : Z_VERSION_ERROR; }
  strm->state = (struct internal_state *)(uintptr_t)1;
  strm->msg = Z_NULL; strm->total_in = 0; strm->total_out = 0;
  cqv_z_open++;
  return Z_OK;
}

int deflateInit2_(z_streamp strm, int level, int method, int windowBits, int memLevel, int strategy,
                  const char *version, int stream_size) {
  __CPROVER_precondition(strm != Z_NULL && __CPROVER_rw_ok(strm, sizeof(*strm)), "deflateInit2: stream accessible");
  __CPROVER_precondition(stream_size == (int)sizeof(z_stream), "deflateInit2: stream_size is sizeof(z_stream)");
  __CPROVER_precondition(strm->zalloc == Z_NULL && strm->zfree == Z_NULL && strm->opaque == Z_NULL, "deflateInit2: allocator fields initialised (Z_NULL)");
  __CPROVER_precondition(level == Z_DEFAULT_COMPRESSION || (level >= 0 && level <= 9), "deflateInit2: level is -1 or 0..9");
  __CPROVER_precondition(method == Z_DEFLATED, "deflateInit2: method is Z_DEFLATED");
  __CPROVER_precondition(cqv_z_wbits_ok(windowBits) && windowBits < 40 && windowBits != 8 && windowBits != -8, "deflateInit2: windowBits in a documented range");
  __CPROVER_precondition(memLevel >= 1 && memLevel <= 9, "deflateInit2: memLevel 1..9");
  __CPROVER_precondition(strategy >= 0 && strategy <= 4, "deflateInit2: strategy is a documented constant");
  cqv_z_level = level;
  int fail = nondet_int();
  if (fail) { strm->state = Z_NULL; strm->msg = Z_NULL; return fail > 0 ? Z_MEM_ERROR : Z_VERSION_ERROR; }
  strm->state = (struct internal_state *)(uintptr_t)1;
  strm->msg = Z_NULL; strm->total_in = 0; strm->total_out = 0;
  cqv_z_open++;
  return Z_OK;
}

static int cqv_z_step(z_streamp strm, int flush, int is_inflate) {
  __CPROVER_precondition(strm != Z_NULL && __CPROVER_rw_ok(strm, sizeof(*strm)), "inflate/deflate: stream accessible");
  __CPROVER_precondition(strm->state != Z_NULL, "inflate/deflate: stream initialised and not ended");
  __CPROVER_precondition(flush >= Z_NO_FLUSH && flush <= Z_TREES, "inflate/deflate: flush is a documented constant");
  __CPROVER_precondition(strm->avail_in == 0 || __CPROVER_r_ok(strm->next_in, strm->avail_in), "inflate/deflate: next_in[0..avail_in) readable");
  __CPROVER_precondition(strm->avail_out == 0 || __CPROVER_w_ok(strm->next_out, strm->avail_out), "inflate/deflate: next_out[0..avail_out) writable");
  if (cqv_z_calls == 0) { cqv_z_in0 = strm->avail_in; cqv_z_out0 = strm->avail_out; }
  cqv_z_calls++;
  unsigned cons = nondet_unsigned(), prod = nondet_unsigned();
  __CPROVER_assume(cons <= strm->avail_in && prod <= strm->avail_out);
  if (prod != 0) __CPROVER_havoc_slice(strm->next_out, prod);
  strm->next_in += cons; strm->avail_in -= cons; strm->total_in += cons;
  strm->next_out += prod; strm->avail_out -= prod; strm->total_out += prod;
  int r = nondet_int();
  __CPROVER_assume(r == Z_OK || r == Z_STREAM_END || r == Z_BUF_ERROR || r == Z_STREAM_ERROR ||
                   (is_inflate && (r == Z_NEED_DICT || r == Z_DATA_ERROR || r == Z_MEM_ERROR)));
  if (r == Z_STREAM_END) __CPROVER_assume(strm->avail_in == 0 || is_inflate);
  return r;
}

int inflate(z_streamp strm, int flush) { return cqv_z_step(strm, flush, 1); }
int deflate(z_streamp strm, int flush) { return cqv_z_step(strm, flush, 0); }

static int cqv_z_end(z_streamp strm) {
  __CPROVER_precondition(strm != Z_NULL && __CPROVER_rw_ok(strm, sizeof(*strm)), "inflateEnd/deflateEnd: stream accessible");
  __CPROVER_precondition(strm->state != Z_NULL, "inflateEnd/deflateEnd: stream initialised and not already ended");
  strm->state = Z_NULL;
  cqv_z_open--;
  return Z_OK;
}
int inflateEnd(z_streamp strm) { return cqv_z_end(strm); }
int deflateEnd(z_streamp strm) { return cqv_z_end(strm); }

/* zlib.h: "returns an upper bound on the compressed size after compress() on sourceLen bytes";
 * modelled with the formula of zlib 1.2/1.3 (sourceLen + sourceLen/4096 + sourceLen/16384 +
 * sourceLen/2^25 + 13) */
uLong compressBound(uLong sourceLen) {
  return sourceLen + (sourceLen >> 12) + (sourceLen >> 14) + (sourceLen >> 25) + 13;
}
