/* Assumed contracts for the libc string functions used by src/thrift (trusted base).
 * strncpy: destination range writable, source non-NULL; effect = the n destination bytes become
 * arbitrary (the message text is irrelevant to every property checked).  strlen: arbitrary length
 * below 2^31 whose bytes are readable is established by the harness, not here. */
#include <stddef.h>
#include <stdint.h>

char *strncpy(char *dst, const char *src, size_t n) {
  __CPROVER_precondition(src != NULL, "strncpy src non-NULL");
  __CPROVER_precondition(__CPROVER_w_ok(dst, n), "strncpy dst writable");
  if (n != 0) __CPROVER_havoc_slice(dst, n);
  return dst;
}
