/* Assumed contracts (trusted base) for the column-reader family (C02/C19).
 *
 * memcpy/memset: same contract as stubs/mem_stubs.c (ranges accessible, destination bytes
 * arbitrary) PLUS a ghost record of the first CQV_MC_SLOTS memcpy calls (destination, source,
 * length).  The record is what lets a contract say WHICH slice of the decoded page buffers
 * a call delivers, without reasoning about bytes.
 * carquet_error_set: variadic error reporter of src/core/error.c (vsnprintf inside). */
#include <stddef.h>
#include <stdint.h>
#include <carquet/carquet.h>
#include <stdlib.h>
#include "core/arena.h"

#define CQV_MC_SLOTS 4
const void *cqv_mc_dst[CQV_MC_SLOTS];
const void *cqv_mc_src[CQV_MC_SLOTS];
size_t cqv_mc_n[CQV_MC_SLOTS];
unsigned cqv_mc_calls;

void *memcpy(void *dst, const void *src, size_t n) {
  __CPROVER_precondition(__CPROVER_r_ok(src, n), "memcpy src readable");
  __CPROVER_precondition(__CPROVER_w_ok(dst, n), "memcpy dst writable");
  if (cqv_mc_calls < CQV_MC_SLOTS) {
    cqv_mc_dst[cqv_mc_calls] = dst;
    cqv_mc_src[cqv_mc_calls] = src;
    cqv_mc_n[cqv_mc_calls] = n;
  }
  if (cqv_mc_calls < 1000) cqv_mc_calls++;
  if (n != 0) {
#ifdef CQV_MEMCPY_EXACT
    if (n <= CQV_MEMCPY_EXACT) {
      for (size_t i = 0; i < CQV_MEMCPY_EXACT; i++) {
        if (i < n) ((uint8_t *)dst)[i] = ((const uint8_t *)src)[i];
      }
      return dst;
    }
#endif
    __CPROVER_havoc_slice(dst, n);
  }
  return dst;
}

void *memset(void *dst, int c, size_t n) {
  __CPROVER_precondition(__CPROVER_w_ok(dst, n), "memset dst writable");
  if (n != 0) {
#ifdef CQV_MEMSET_EXACT
    if (n <= CQV_MEMSET_EXACT) {
      for (size_t i = 0; i < CQV_MEMSET_EXACT; i++) {
        if (i < n) ((uint8_t *)dst)[i] = (uint8_t)c;
      }
      return dst;
    }
#endif
    __CPROVER_havoc_slice(dst, n);
  }
  return dst;
}

int cqv_nondet_int(void);
void carquet_error_set(carquet_error_t *error, carquet_status_t code, const char *file, int line,
                       const char *function, const char *format, ...) {
  if (!error) return;
  __CPROVER_precondition(__CPROVER_w_ok(error, sizeof(*error)), "error object writable");
  error->code = code;
  error->file = file;
  error->line = line;
  error->function = function;
  __CPROVER_havoc_slice(error->message, sizeof(error->message));
  error->message[sizeof(error->message) - 1] = 0;
}

/* Arena (src/core/arena.c uses address arithmetic on uintptr_t; it belongs to another family).
 * Assumed contract, enough for one carquet_arena_calloc per arena as carquet_batch_reader_next does:
 * init allocates (may fail), calloc returns zeroed memory or NULL, destroy releases everything. */
carquet_status_t carquet_arena_init(carquet_arena_t *arena) {
  __CPROVER_precondition(__CPROVER_w_ok(arena, sizeof(*arena)), "arena writable");
  arena->head = NULL; arena->current = NULL;
  arena->default_block_size = 0; arena->total_allocated = 0; arena->total_capacity = 0;
  void *t = malloc(16);
  if (!t) return CARQUET_ERROR_OUT_OF_MEMORY;
  arena->head = (carquet_arena_block_t *)t;
  return CARQUET_OK;
}
void *carquet_arena_calloc(carquet_arena_t *arena, size_t count, size_t size) {
  __CPROVER_precondition(__CPROVER_rw_ok(arena, sizeof(*arena)) && arena->head != NULL, "arena initialised");
  __CPROVER_precondition(arena->current == NULL, "stub models one allocation per arena");
  void *p = calloc(count, size);
  arena->current = (carquet_arena_block_t *)p;
  return p;
}
void carquet_arena_destroy(carquet_arena_t *arena) {
  __CPROVER_precondition(__CPROVER_rw_ok(arena, sizeof(*arena)), "arena valid");
  free(arena->head); free(arena->current);
  arena->head = NULL; arena->current = NULL;
}
