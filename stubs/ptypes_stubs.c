/* ASSUMED contracts for the callees of src/thrift/parquet_types.c (family "ptypes").
 *
 * Everything in this file is TRUSTED, not proved here: the Thrift primitives of thrift_decode.c /
 * thrift_encode.c (proved by the thrift family against the real code), the arena allocator entry
 * points of core/arena.c, carquet_error_set and snprintf.
 *
 * Compilation modes:
 *   default            : declarations carrying __CPROVER contracts (used through
 *                        --replace-call-with-contract) for the decoder side and the arena, plus small
 *                        bodies for variadic functions (snprintf, carquet_error_set).
 *   -DCQV_PT_WRITER    : additionally BODIES for the thrift_write_* functions that keep a ghost stack
 *                        of open structs and assert the parquet.thrift table (C13 writer conformance).
 *   -DCQV_PT_RLOG      : BODIES for the thrift_read_* functions: the FIRST thrift_read_field_begin call serves one
 *                        ghost field (cqv_rl_type, cqv_rl_id), every later call returns false (all nested structs are
 *                        empty); each reader / thrift_skip counts its calls (C13 parser dispatch lemma, C17 ids).
 *   -DCQV_PT_ARENA_BODIES : carquet_arena_* as bodies over malloc instead of contracts (no --replace-call-with-contract).
 *   -DCQV_PT_DECLS     : declarations / macros / extern ghost only (for inclusion in a harness).
 *
 * Reader contracts say only what every implementation of a compact-protocol reader over a
 * [data, size) cursor does: the cursor never moves backwards and never leaves [0, size]; an error
 * status is sticky; thrift_read_field_begin returns false once the status is an error and otherwise
 * consumes at least one byte when it returns true; values are arbitrary.
 */
#ifndef CQV_PTYPES_STUBS_DECLS
#define CQV_PTYPES_STUBS_DECLS
#include "cqv.h"
#include <stdbool.h>
#include <stdarg.h>
#include <stdlib.h>
#include "thrift/parquet_types.h"
#include "parquet_thrift_table.h"

/* ---- ghost state -------------------------------------------------------------------------- */
extern _Bool cqv_alloc_failed;       /* some arena request (size != 0) returned NULL */

#define CQV_DEC_INV(d) ((d)->reader.size <= CQV_MAXBUF && (d)->reader.pos <= (d)->reader.size && \
                        (d)->nesting_level >= 0 && (d)->nesting_level <= THRIFT_MAX_NESTING)
/* what a reader primitive needs */
#define CQV_DEC_REQ(d) (__CPROVER_rw_ok((d), sizeof(*(d))) && CQV_DEC_INV(d) && \
                        __CPROVER_r_ok((d)->reader.data, (d)->reader.size))
/* what every reader primitive guarantees (besides leaving data/size/nesting untouched: not in assigns) */
#define CQV_DEC_POST(d) ((d)->reader.pos >= __CPROVER_old((d)->reader.pos) && (d)->reader.pos <= (d)->reader.size && \
                         (__CPROVER_old((d)->status) != CARQUET_OK ==> (d)->status != CARQUET_OK))
#define CQV_DEC_ASSIGNS(d) (d)->reader.pos, (d)->status, (d)->bool_pending, (d)->bool_value, \
                           __CPROVER_object_upto((d)->error_message, sizeof((d)->error_message))


/* ---- C13 writer side: ghost stack of open structs (maintained by the thrift_write_* bodies below) ---- */
#define CQV_WMAX 12
struct cqv_wrec { int kind; int last; unsigned seen; int elem; int lkind; };
extern struct cqv_wrec cqv_w[CQV_WMAX];   /* one record per open struct: kind, last field id, set of ids written, open list elem type */
extern int cqv_w_left[CQV_WMAX];          /* elements still owed to the list opened at that level */
extern int cqv_w_depth;                   /* number of open structs */
extern int cqv_w_pend;                    /* wire type of the value owed to the last field header (0 = none) */
extern int cqv_w_next;                    /* kind of the struct that may be opened next (0 = none) */
extern int cqv_w_root;                    /* kind of the outermost struct (set by the harness) */
/* a write_<struct> helper is called when a struct of kind K is owed (as a field value or as a list element) */
#define CQV_W_REQ(K, D) (cqv_w_depth >= 1 && cqv_w_depth <= (D) && cqv_w_next == (K) && \
                      ((cqv_w_pend == W_STRUCT && cqv_w_left[cqv_w_depth - 1] == 0) || \
                       (cqv_w_pend == 0 && cqv_w_left[cqv_w_depth - 1] > 0 && cqv_w[cqv_w_depth - 1].elem == W_STRUCT && \
                        cqv_w[cqv_w_depth - 1].lkind == (K))))
#define CQV_W_ASSIGNS(e) cqv_w_depth, cqv_w_pend, cqv_w_next, cqv_w_left[cqv_w_depth - 1], \
                      __CPROVER_object_from(&cqv_w[cqv_w_depth]), __CPROVER_object_from(&cqv_w_left[cqv_w_depth]), (e)->status
/* ... and returns with exactly that one struct written and closed; records of the enclosing structs untouched (frame) */
#define CQV_W_POST (cqv_w_depth == __CPROVER_old(cqv_w_depth) && cqv_w_pend == 0 && \
    cqv_w_left[cqv_w_depth - 1] == __CPROVER_old(cqv_w_left[cqv_w_depth - 1]) - (__CPROVER_old(cqv_w_pend) == W_STRUCT ? 0 : 1) && \
    cqv_w_next == ((__CPROVER_old(cqv_w_pend) != W_STRUCT && cqv_w_left[cqv_w_depth - 1] > 0) ? __CPROVER_old(cqv_w_next) : 0))

/* ---- C13 parser dispatch (-DCQV_PT_RLOG): one ghost field and a call log ---- */
extern int cqv_rl_type; extern int cqv_rl_id;      /* the ghost field (wire type, id), chosen by the harness */
extern int cqv_rl_count;                           /* list length served by thrift_read_list_begin (0..2) */
extern int cqv_rl_calls;                           /* thrift_read_field_begin calls so far */
extern int cqv_rl_none;                            /* 1: the struct has no field at all (first field_begin returns false) */
extern int64_t cqv_rl_v;                           /* ghost VALUE returned (truncated to the width) by the integer readers */
extern _Bool cqv_rl_vb;                            /* ghost value returned by thrift_read_bool */
extern const uint8_t* cqv_rl_bin; extern int32_t cqv_rl_binlen;   /* ghost result of thrift_read_binary */
extern int cqv_rl_n_byte, cqv_rl_n_i16, cqv_rl_n_i32, cqv_rl_n_i64, cqv_rl_n_bool, cqv_rl_n_bin, cqv_rl_n_list,
           cqv_rl_n_skip, cqv_rl_skip_type, cqv_rl_n_begin, cqv_rl_n_end;

#ifdef CQV_ALLOC_NEVER_FAILS
#define CQV_MAYFAIL(ret) ((ret) != NULL)
#else
#define CQV_MAYFAIL(ret) 1
#endif

#if !defined(CQV_PT_RLOG)
/* ---- decoder side: contracts --------------------------------------------------------------- */
void thrift_decoder_init(thrift_decoder_t* dec, const uint8_t* data, size_t size)
__CPROVER_requires(__CPROVER_w_ok(dec, sizeof(*dec)))
__CPROVER_assigns(*dec)
__CPROVER_ensures(dec->reader.data == data && dec->reader.size == size && dec->reader.pos == 0)
__CPROVER_ensures(dec->nesting_level == 0 && dec->status == CARQUET_OK && !dec->bool_pending);

int8_t thrift_read_byte(thrift_decoder_t* dec)
__CPROVER_requires(CQV_DEC_REQ(dec)) __CPROVER_assigns(CQV_DEC_ASSIGNS(dec)) __CPROVER_ensures(CQV_DEC_POST(dec));
int16_t thrift_read_i16(thrift_decoder_t* dec)
__CPROVER_requires(CQV_DEC_REQ(dec)) __CPROVER_assigns(CQV_DEC_ASSIGNS(dec)) __CPROVER_ensures(CQV_DEC_POST(dec));
int32_t thrift_read_i32(thrift_decoder_t* dec)
__CPROVER_requires(CQV_DEC_REQ(dec)) __CPROVER_assigns(CQV_DEC_ASSIGNS(dec)) __CPROVER_ensures(CQV_DEC_POST(dec));
int64_t thrift_read_i64(thrift_decoder_t* dec)
__CPROVER_requires(CQV_DEC_REQ(dec)) __CPROVER_assigns(CQV_DEC_ASSIGNS(dec)) __CPROVER_ensures(CQV_DEC_POST(dec));
bool thrift_read_bool(thrift_decoder_t* dec)
__CPROVER_requires(CQV_DEC_REQ(dec)) __CPROVER_assigns(CQV_DEC_ASSIGNS(dec)) __CPROVER_ensures(CQV_DEC_POST(dec));

/* NULL (with *length == 0) or a pointer to *length readable bytes inside the input */
const uint8_t* thrift_read_binary(thrift_decoder_t* dec, int32_t* length)
__CPROVER_requires(CQV_DEC_REQ(dec) && __CPROVER_w_ok(length, sizeof(*length)))
__CPROVER_assigns(CQV_DEC_ASSIGNS(dec), *length)
__CPROVER_ensures(CQV_DEC_POST(dec))
__CPROVER_ensures(*length >= 0)
__CPROVER_ensures(__CPROVER_return_value == NULL ? *length == 0 :
                  (__CPROVER_return_value == dec->reader.data + __CPROVER_old(dec->reader.pos) &&
                   (size_t)*length == dec->reader.pos - __CPROVER_old(dec->reader.pos)));

void thrift_read_struct_begin(thrift_decoder_t* dec)
__CPROVER_requires(CQV_DEC_REQ(dec))
__CPROVER_assigns(dec->nesting_level, dec->status, __CPROVER_object_upto(dec->last_field_id, sizeof(dec->last_field_id)),
                  __CPROVER_object_upto(dec->error_message, sizeof(dec->error_message)))
__CPROVER_ensures(__CPROVER_old(dec->nesting_level) < THRIFT_MAX_NESTING
                  ? (dec->nesting_level == __CPROVER_old(dec->nesting_level) + 1 && dec->status == __CPROVER_old(dec->status))
                  : (dec->nesting_level == __CPROVER_old(dec->nesting_level) && dec->status != CARQUET_OK))
__CPROVER_ensures(__CPROVER_old(dec->status) != CARQUET_OK ==> dec->status != CARQUET_OK);

void thrift_read_struct_end(thrift_decoder_t* dec)
__CPROVER_requires(CQV_DEC_REQ(dec))
__CPROVER_assigns(dec->nesting_level)
__CPROVER_ensures(dec->nesting_level == (__CPROVER_old(dec->nesting_level) > 0 ? __CPROVER_old(dec->nesting_level) - 1 : 0));

bool thrift_read_field_begin(thrift_decoder_t* dec, thrift_type_t* type, int16_t* field_id)
__CPROVER_requires(CQV_DEC_REQ(dec) && __CPROVER_w_ok(type, sizeof(*type)) && __CPROVER_w_ok(field_id, sizeof(*field_id)))
__CPROVER_assigns(CQV_DEC_ASSIGNS(dec), __CPROVER_object_upto(dec->last_field_id, sizeof(dec->last_field_id)), *type, *field_id)
__CPROVER_ensures(CQV_DEC_POST(dec))
__CPROVER_ensures(__CPROVER_old(dec->status) != CARQUET_OK ==> !__CPROVER_return_value)
__CPROVER_ensures(__CPROVER_return_value ==> dec->reader.pos > __CPROVER_old(dec->reader.pos))
__CPROVER_ensures((unsigned)*type <= 15);

/* count is 0..remaining (negative and oversized counts are turned into an error + 0) */
void thrift_read_list_begin(thrift_decoder_t* dec, thrift_type_t* elem_type, int32_t* count)
__CPROVER_requires(CQV_DEC_REQ(dec) && __CPROVER_w_ok(elem_type, sizeof(*elem_type)) && __CPROVER_w_ok(count, sizeof(*count)))
__CPROVER_assigns(CQV_DEC_ASSIGNS(dec), *elem_type, *count)
__CPROVER_ensures(CQV_DEC_POST(dec))
__CPROVER_ensures(*count >= 0 && (size_t)*count <= dec->reader.size - dec->reader.pos);

void thrift_skip(thrift_decoder_t* dec, thrift_type_t type)
__CPROVER_requires(CQV_DEC_REQ(dec))
__CPROVER_assigns(CQV_DEC_ASSIGNS(dec), __CPROVER_object_upto(dec->last_field_id, sizeof(dec->last_field_id)))
__CPROVER_ensures(CQV_DEC_POST(dec));
#endif /* !CQV_PT_RLOG */

/* ---- arena: NULL or a fresh object of the requested size ------------------------------------ */
void* carquet_arena_calloc(carquet_arena_t* arena, size_t count, size_t size)
__CPROVER_requires(count <= CQV_MAXBUF && size <= 4096)
__CPROVER_assigns(cqv_alloc_failed)
__CPROVER_ensures((count == 0 || size == 0) ? __CPROVER_return_value == NULL :
                  (__CPROVER_return_value == NULL || __CPROVER_is_fresh(__CPROVER_return_value, count * size)))
__CPROVER_ensures((count == 0 || size == 0) || CQV_MAYFAIL(__CPROVER_return_value))
__CPROVER_ensures(cqv_alloc_failed == (__CPROVER_old(cqv_alloc_failed) || (count != 0 && size != 0 && __CPROVER_return_value == NULL)));

char* carquet_arena_strdup(carquet_arena_t* arena, const char* str)
__CPROVER_requires(str == NULL || __CPROVER_r_ok(str, 1))
__CPROVER_assigns(cqv_alloc_failed)
__CPROVER_ensures(str == NULL ? __CPROVER_return_value == NULL :
                  (__CPROVER_return_value == NULL || __CPROVER_is_fresh(__CPROVER_return_value, 1)))
__CPROVER_ensures(str == NULL || CQV_MAYFAIL(__CPROVER_return_value))
__CPROVER_ensures(cqv_alloc_failed == (__CPROVER_old(cqv_alloc_failed) || (str != NULL && __CPROVER_return_value == NULL)));

char* carquet_arena_strndup(carquet_arena_t* arena, const char* str, size_t max_len)
__CPROVER_requires(max_len <= CQV_MAXBUF && (str == NULL || __CPROVER_r_ok(str, max_len)))
__CPROVER_assigns(cqv_alloc_failed)
__CPROVER_ensures(str == NULL ? __CPROVER_return_value == NULL :
                  (__CPROVER_return_value == NULL || __CPROVER_is_fresh(__CPROVER_return_value, 1)))
__CPROVER_ensures(str == NULL || CQV_MAYFAIL(__CPROVER_return_value))
__CPROVER_ensures(cqv_alloc_failed == (__CPROVER_old(cqv_alloc_failed) || (str != NULL && __CPROVER_return_value == NULL)));

void* carquet_arena_memdup(carquet_arena_t* arena, const void* src, size_t size)
__CPROVER_requires(size <= CQV_MAXBUF && (src == NULL || size == 0 || __CPROVER_r_ok(src, size)))
__CPROVER_assigns(cqv_alloc_failed)
__CPROVER_ensures((src == NULL || size == 0) ? __CPROVER_return_value == NULL :
                  (__CPROVER_return_value == NULL || __CPROVER_is_fresh(__CPROVER_return_value, size)))
__CPROVER_ensures((src == NULL || size == 0) || CQV_MAYFAIL(__CPROVER_return_value))
__CPROVER_ensures(cqv_alloc_failed == (__CPROVER_old(cqv_alloc_failed) || (src != NULL && size != 0 && __CPROVER_return_value == NULL)));

#endif /* CQV_PTYPES_STUBS_DECLS */

#ifndef CQV_PT_DECLS
/* ================================= definitions ================================================ */
_Bool cqv_alloc_failed;

/* libc / error reporting: destination becomes arbitrary */
int snprintf(char* s, size_t n, const char* fmt, ...) {
  __CPROVER_precondition(n == 0 || __CPROVER_w_ok(s, n), "snprintf destination writable");
  __CPROVER_precondition(fmt != NULL, "snprintf format");
  if (n != 0) __CPROVER_havoc_slice(s, n);
  return nondet_int();
}

void carquet_error_set(carquet_error_t* error, carquet_status_t code, const char* file, int line,
                       const char* function, const char* format, ...) {
  if (error) {
    __CPROVER_precondition(__CPROVER_w_ok(error, sizeof(*error)), "error object writable");
    __CPROVER_havoc_slice(error, sizeof(*error));
    error->code = code;
  }
}


#ifdef CQV_PT_ARENA_BODIES
/* arena entry points as BODIES over CBMC's malloc (instead of contracts with is_fresh): NULL or a fresh object of the
 * requested size; with -DCQV_ALLOC_NEVER_FAILS the request always succeeds */
static void* cqv_arena_get(size_t n) {
  __CPROVER_assert(n <= ((size_t)1 << 52), "arena request size is sane (count and element size were validated)");
  void* p = malloc(n);
#ifdef CQV_ALLOC_NEVER_FAILS
  __CPROVER_assume(p != NULL);
#else
  if (nondet_bool()) p = NULL;
  if (p == NULL) cqv_alloc_failed = 1;
#endif
  return p;
}
void* carquet_arena_calloc(carquet_arena_t* arena, size_t count, size_t size) {
  __CPROVER_assert(count <= CQV_MAXBUF && size <= 4096, "calloc count validated before the allocation");
  if (count == 0 || size == 0) return NULL;
  return cqv_arena_get(count * size);
}
char* carquet_arena_strdup(carquet_arena_t* arena, const char* str) { return str ? (char*)cqv_arena_get(1) : NULL; }
char* carquet_arena_strndup(carquet_arena_t* arena, const char* str, size_t max_len) {
  __CPROVER_precondition(str == NULL || max_len == 0 || __CPROVER_r_ok(str, max_len), "strndup source readable");
  return str ? (char*)cqv_arena_get(1) : NULL;
}
void* carquet_arena_memdup(carquet_arena_t* arena, const void* src, size_t size) {
  if (!src || size == 0) return NULL;
  __CPROVER_precondition(__CPROVER_r_ok(src, size), "memdup source readable");
  return cqv_arena_get(size);
}
#endif /* CQV_PT_ARENA_BODIES */

#ifdef CQV_PT_RLOG
int cqv_rl_type, cqv_rl_id, cqv_rl_count, cqv_rl_calls, cqv_rl_none;
int64_t cqv_rl_v; _Bool cqv_rl_vb; const uint8_t* cqv_rl_bin; int32_t cqv_rl_binlen;
int cqv_rl_n_byte, cqv_rl_n_i16, cqv_rl_n_i32, cqv_rl_n_i64, cqv_rl_n_bool, cqv_rl_n_bin, cqv_rl_n_list,
    cqv_rl_n_skip, cqv_rl_skip_type, cqv_rl_n_begin, cqv_rl_n_end;
void thrift_decoder_init(thrift_decoder_t* dec, const uint8_t* data, size_t size) {
  dec->reader.data = data; dec->reader.size = size; dec->reader.pos = 0;
  dec->nesting_level = 0; dec->status = CARQUET_OK; dec->bool_pending = false;
}
int8_t thrift_read_byte(thrift_decoder_t* dec) { cqv_rl_n_byte++; return (int8_t)cqv_rl_v; }
int16_t thrift_read_i16(thrift_decoder_t* dec) { cqv_rl_n_i16++; return (int16_t)cqv_rl_v; }
int32_t thrift_read_i32(thrift_decoder_t* dec) { cqv_rl_n_i32++; return (int32_t)cqv_rl_v; }
int64_t thrift_read_i64(thrift_decoder_t* dec) { cqv_rl_n_i64++; return cqv_rl_v; }
bool thrift_read_bool(thrift_decoder_t* dec) { cqv_rl_n_bool++; return cqv_rl_vb; }
const uint8_t* thrift_read_binary(thrift_decoder_t* dec, int32_t* length) { cqv_rl_n_bin++; *length = cqv_rl_binlen; return cqv_rl_bin; }
void thrift_read_struct_begin(thrift_decoder_t* dec) { cqv_rl_n_begin++; }
void thrift_read_struct_end(thrift_decoder_t* dec) { cqv_rl_n_end++; }
bool thrift_read_field_begin(thrift_decoder_t* dec, thrift_type_t* type, int16_t* field_id) {
  if (cqv_rl_calls++ == 0 && !cqv_rl_none) { *type = (thrift_type_t)cqv_rl_type; *field_id = (int16_t)cqv_rl_id; return true; }
  *type = THRIFT_TYPE_STOP; *field_id = 0; return false;
}
void thrift_read_list_begin(thrift_decoder_t* dec, thrift_type_t* elem_type, int32_t* count) {
  cqv_rl_n_list++; *elem_type = (thrift_type_t)(nondet_unsigned() & 15); *count = cqv_rl_count;
}
void thrift_skip(thrift_decoder_t* dec, thrift_type_t type) { cqv_rl_n_skip++; cqv_rl_skip_type = (int)type; }
#endif /* CQV_PT_RLOG */

#ifdef CQV_PT_WRITER
/* ---- C13 writer side: thrift_write_* as bodies that check the byte stream's STRUCTURE against parquet.thrift ---- */
struct cqv_wrec cqv_w[CQV_WMAX];
int cqv_w_left[CQV_WMAX];
int cqv_w_depth, cqv_w_pend, cqv_w_next, cqv_w_root;

static void cqv_w_fail(thrift_encoder_t* enc) {   /* any primitive may run out of buffer memory */
  __CPROVER_precondition(__CPROVER_rw_ok(enc, sizeof(*enc)), "encoder object accessible");
  if (enc->status == CARQUET_OK && nondet_bool()) enc->status = CARQUET_ERROR_OUT_OF_MEMORY;
}
/* a value of wire type w is written: it is either the value owed to the last field header or a list element */
static void cqv_w_value(thrift_encoder_t* enc, int w) {
  cqv_w_fail(enc);
  if (cqv_w_pend != 0) {
    __CPROVER_assert(cqv_w_pend == w, "C13 writer: value written has the wire type announced in the field header");
    cqv_w_pend = 0;
  } else {
    __CPROVER_assert(cqv_w_depth >= 1 && cqv_w_depth <= CQV_WMAX, "C13 writer: value written inside a struct");
    __CPROVER_assert(cqv_w_left[cqv_w_depth - 1] > 0, "C13 writer: no field header announces this value and no list element is owed");
    __CPROVER_assert(cqv_w[cqv_w_depth - 1].elem == w, "C13 writer: list element has the element type announced in the list header");
    cqv_w_left[cqv_w_depth - 1]--;
  }
}
void thrift_encoder_init(thrift_encoder_t* enc, carquet_buffer_t* buffer) {
  __CPROVER_precondition(__CPROVER_w_ok(enc, sizeof(*enc)), "encoder object writable");
  enc->buffer = buffer; enc->nesting_level = 0; enc->status = CARQUET_OK;
  cqv_w_depth = 0; cqv_w_pend = 0; cqv_w_next = cqv_w_root;
}
void thrift_write_byte(thrift_encoder_t* enc, int8_t value) { cqv_w_value(enc, W_I8); }
void thrift_write_i16(thrift_encoder_t* enc, int16_t value) { cqv_w_value(enc, W_I16); }
void thrift_write_i32(thrift_encoder_t* enc, int32_t value) { cqv_w_value(enc, W_I32); }
void thrift_write_i64(thrift_encoder_t* enc, int64_t value) { cqv_w_value(enc, W_I64); }
void thrift_write_binary(thrift_encoder_t* enc, const uint8_t* data, int32_t length) {
  __CPROVER_assert(length >= 0, "C13 writer: binary length is non-negative");
  cqv_w_value(enc, W_BIN);
}
void thrift_write_string(thrift_encoder_t* enc, const char* str) {
  cqv_w_value(enc, W_BIN);
}
void thrift_write_field_header(thrift_encoder_t* enc, int type, int16_t field_id) {
  cqv_w_fail(enc);
  __CPROVER_assert(cqv_w_depth >= 1 && cqv_w_depth <= CQV_WMAX, "C13 writer: field header inside a struct");
  struct cqv_wrec* r = &cqv_w[cqv_w_depth - 1];
  __CPROVER_assert(cqv_w_pend == 0, "C13 writer: the previous field's value was written before the next header");
  __CPROVER_assert(cqv_w_left[cqv_w_depth - 1] == 0, "C13 writer: list has exactly the announced number of elements");
  int w = cqv_pt_wire(r->kind, field_id);
  __CPROVER_assert(w != 0, "C13 writer: (struct, field id) is a row of parquet.thrift");
  __CPROVER_assert(cqv_pt_wire_matches(w, type), "C13 writer: wire type is the one parquet.thrift declares for this field");
  __CPROVER_assert(field_id > r->last, "C13 writer: field ids strictly ascending within a struct");
  r->last = field_id;
  if (field_id >= 0 && field_id < 32) r->seen |= 1u << field_id;
  r->elem = 0; r->lkind = 0;
  cqv_w_pend = (type == 1 || type == 2) ? 0 : type;      /* bool value lives in the header */
  cqv_w_next = (type == W_STRUCT) ? cqv_pt_child(r->kind, field_id) : 0;
}
void thrift_write_list_begin(thrift_encoder_t* enc, int elem_type, int32_t count) {
  cqv_w_fail(enc);
  __CPROVER_assert(cqv_w_depth >= 1 && cqv_w_depth <= CQV_WMAX, "C13 writer: list inside a struct");
  struct cqv_wrec* r = &cqv_w[cqv_w_depth - 1];
  __CPROVER_assert(cqv_w_pend == W_LIST, "C13 writer: list header follows a LIST field header");
  __CPROVER_assert(count >= 0, "C13 writer: list count is non-negative");
  __CPROVER_assert(elem_type == cqv_pt_elem(r->kind, r->last), "C13 writer: list element type is the one parquet.thrift declares");
  cqv_w_pend = 0;
  r->elem = elem_type;
  r->lkind = (elem_type == W_STRUCT) ? cqv_pt_child(r->kind, r->last) : 0;
  cqv_w_left[cqv_w_depth - 1] = count;
  cqv_w_next = (count > 0) ? r->lkind : 0;
}
void thrift_write_struct_begin(thrift_encoder_t* enc) {
  cqv_w_fail(enc);
  __CPROVER_assert(cqv_w_depth >= 0 && cqv_w_depth < CQV_WMAX, "C13 writer: nesting depth within the ghost stack");
  __CPROVER_assert(cqv_w_next != K_NONE, "C13 writer: a struct may be opened here (root, STRUCT field value or list<struct> element)");
  if (cqv_w_depth > 0) {
    if (cqv_w_pend != 0) {
      __CPROVER_assert(cqv_w_pend == W_STRUCT, "C13 writer: struct opened as the value of a STRUCT field");
      cqv_w_pend = 0;
    } else {
      __CPROVER_assert(cqv_w_left[cqv_w_depth - 1] > 0 && cqv_w[cqv_w_depth - 1].elem == W_STRUCT, "C13 writer: struct opened as an owed list element");
      cqv_w_left[cqv_w_depth - 1]--;
    }
  }
  cqv_w[cqv_w_depth].kind = cqv_w_next; cqv_w[cqv_w_depth].last = 0; cqv_w[cqv_w_depth].seen = 0; cqv_w[cqv_w_depth].elem = 0; cqv_w[cqv_w_depth].lkind = 0;
  cqv_w_left[cqv_w_depth] = 0;
  cqv_w_depth++;
  cqv_w_next = 0;
}
void thrift_write_struct_end(thrift_encoder_t* enc) {
  cqv_w_fail(enc);
  __CPROVER_assert(cqv_w_depth >= 1 && cqv_w_depth <= CQV_WMAX, "C13 writer: struct_end matches a struct_begin");
  struct cqv_wrec* r = &cqv_w[cqv_w_depth - 1];
  __CPROVER_assert(cqv_w_pend == 0, "C13 writer: last field's value was written before STOP");
  __CPROVER_assert(cqv_w_left[cqv_w_depth - 1] == 0, "C13 writer: list has exactly the announced number of elements (at STOP)");
  unsigned req = cqv_pt_required(r->kind);
  __CPROVER_assert((r->seen & req) == req, "C13 writer: every required field of the struct was written");
  if (cqv_pt_is_union(r->kind))
    __CPROVER_assert(r->seen != 0 && (r->seen & (r->seen - 1)) == 0, "C13 writer: exactly one member of a union is set");
  cqv_w_depth--;
  if (cqv_w_depth >= 1 && cqv_w_left[cqv_w_depth - 1] > 0 && cqv_w[cqv_w_depth - 1].elem == W_STRUCT)
    cqv_w_next = cqv_w[cqv_w_depth - 1].lkind;
  else
    cqv_w_next = 0;
}
#endif /* CQV_PT_WRITER */
#endif /* !CQV_PT_DECLS */
