/* C15, assumption A6: C models of the body-less x86 builtins that gcc's SSE4.2 intrinsic headers
 * expand to (sse_ops.c uses exactly the first 16 + __builtin_prefetch; 5 more at the end for the AVX2/AVX-512 bool kernels).  Written from the Intel SDM
 * vol. 2 "Operation" pseudo-code of the instruction named in each comment.  TRUSTED; validated
 * natively against the hardware instructions by /tmp/simd/model_test.c (random + edge vectors,
 * see the report) -- build with -DIA32_MODEL_NATIVE to get the same bodies as model_<name>().
 * Everything else the kernels use (_mm_add_epi32, _mm_and_si128, _mm_cmpeq_*, _mm_set*,
 * loadu/storeu, ...) is plain GCC vector C in the headers and is analysed as such. */
#include <stdint.h>
typedef char m_v16qi __attribute__((__vector_size__(16)));
typedef short m_v8hi __attribute__((__vector_size__(16)));
typedef int m_v4si __attribute__((__vector_size__(16)));
typedef long long m_v2di __attribute__((__vector_size__(16)));
#ifdef IA32_MODEL_NATIVE
#define IA32(n) model_##n
#else
#define IA32(n) __builtin_ia32_##n
#endif

/* PSHUFB xmm: if mask byte bit7 set -> 0 else src[mask & 15] */
m_v16qi IA32(pshufb128)(m_v16qi a, m_v16qi m) {
  m_v16qi r;
  for (int i = 0; i < 16; i++) r[i] = (m[i] & 0x80) ? 0 : a[m[i] & 15];
  return r;
}
/* PUNPCKLBW / PUNPCKHBW: interleave low / high 8 bytes */
m_v16qi IA32(punpcklbw128)(m_v16qi a, m_v16qi b) {
  m_v16qi r;
  for (int i = 0; i < 8; i++) { r[2 * i] = a[i]; r[2 * i + 1] = b[i]; }
  return r;
}
m_v16qi IA32(punpckhbw128)(m_v16qi a, m_v16qi b) {
  m_v16qi r;
  for (int i = 0; i < 8; i++) { r[2 * i] = a[8 + i]; r[2 * i + 1] = b[8 + i]; }
  return r;
}
/* PUNPCKLWD / PUNPCKHWD: interleave low / high 4 words */
m_v8hi IA32(punpcklwd128)(m_v8hi a, m_v8hi b) {
  m_v8hi r;
  for (int i = 0; i < 4; i++) { r[2 * i] = a[i]; r[2 * i + 1] = b[i]; }
  return r;
}
m_v8hi IA32(punpckhwd128)(m_v8hi a, m_v8hi b) {
  m_v8hi r;
  for (int i = 0; i < 4; i++) { r[2 * i] = a[4 + i]; r[2 * i + 1] = b[4 + i]; }
  return r;
}
/* PMOVMSKB: bit i = sign bit of byte i, upper bits 0 */
int IA32(pmovmskb128)(m_v16qi a) {
  unsigned r = 0;
  for (int i = 0; i < 16; i++) r |= (unsigned)(((uint8_t)a[i]) >> 7) << i;
  return (int)r;
}
/* PACKSSWB: signed saturate 8+8 words to 16 bytes (a low, b high) */
static char sat8(short x) { return x > 127 ? 127 : x < -128 ? -128 : (char)x; }
m_v16qi IA32(packsswb128)(m_v8hi a, m_v8hi b) {
  m_v16qi r;
  for (int i = 0; i < 8; i++) { r[i] = sat8(a[i]); r[8 + i] = sat8(b[i]); }
  return r;
}
/* PMINUB: unsigned byte minimum */
m_v16qi IA32(pminub128)(m_v16qi a, m_v16qi b) {
  m_v16qi r;
  for (int i = 0; i < 16; i++) r[i] = ((uint8_t)a[i] < (uint8_t)b[i]) ? a[i] : b[i];
  return r;
}
/* PSLLDQ: byte shift left of the 128-bit value; the builtin takes the count in BITS; count > 15 bytes -> 0 */
m_v2di IA32(pslldqi128)(m_v2di a, int bits) {
  m_v16qi s = (m_v16qi)a, r;
  int n = bits / 8;
  for (int i = 0; i < 16; i++) r[i] = (n >= 0 && n <= 15 && i >= n) ? s[i - n] : 0;
  return (m_v2di)r;
}
/* PSRLW imm: logical right shift of each word; count > 15 -> 0 */
m_v8hi IA32(psrlwi128)(m_v8hi a, int c) {
  m_v8hi r;
  for (int i = 0; i < 8; i++) r[i] = (c >= 0 && c <= 15) ? (short)((uint16_t)a[i] >> c) : 0;
  return r;
}
/* PSLLD imm: left shift of each dword; count > 31 -> 0 */
m_v4si IA32(pslldi128)(m_v4si a, int c) {
  m_v4si r;
  for (int i = 0; i < 4; i++) r[i] = (c >= 0 && c <= 31) ? (int)((uint32_t)a[i] << c) : 0;
  return r;
}
/* PEXTRD: element imm & 3 */
int IA32(vec_ext_v4si)(m_v4si a, int i) { return a[i & 3]; }

/* CRC32 r32, r/m8..64: one accumulate step of CRC-32C (polynomial 0x11EDC6F41, bit-reflected data
 * and accumulator, NO initial/final inversion -- SDM "CRC32 -- Accumulate CRC32 Value").  In the
 * reflected domain this is the classic bit-serial update with 0x82F63B78. */
static uint32_t crc32c_bits(uint32_t crc, uint64_t v, int nbits) {
  /* bit-serial, LSB first; grouped by bytes (xor 8 message bits, then 8 shift steps), which is the
   * same polynomial division because the xor of later message bits commutes with earlier shifts */
  for (int j = 0; j < nbits / 8; j++) {
    crc ^= (uint32_t)((v >> (8 * j)) & 0xFFu);
    for (int k = 0; k < 8; k++) crc = (crc >> 1) ^ (0x82F63B78u & (0u - (crc & 1u)));
  }
  return crc;
}
unsigned IA32(crc32qi)(unsigned crc, unsigned char v) { return crc32c_bits(crc, v, 8); }
unsigned IA32(crc32hi)(unsigned crc, unsigned short v) { return crc32c_bits(crc, v, 16); }
unsigned IA32(crc32si)(unsigned crc, unsigned v) { return crc32c_bits(crc, v, 32); }
unsigned long long IA32(crc32di)(unsigned long long crc, unsigned long long v) { return crc32c_bits((uint32_t)crc, v, 64); }

/* ---- additional builtins used by carquet_avx2_pack_bools and carquet_avx512_{pack,unpack}_bools ---- */
typedef char m_v64qi __attribute__((__vector_size__(64)));
/* PSRLDQ: byte shift right of the 128-bit value; the builtin takes the count in BITS; > 15 bytes -> 0 */
m_v2di IA32(psrldqi128)(m_v2di a, int bits) {
  m_v16qi s = (m_v16qi)a, r;
  int n = bits / 8;
  for (int i = 0; i < 16; i++) r[i] = (n >= 0 && n <= 15 && i + n <= 15) ? s[i + n] : 0;
  return (m_v2di)r;
}
/* PEXTRW: word imm & 7, zero-extended by the caller's cast (the builtin returns the signed element) */
short IA32(vec_ext_v8hi)(m_v8hi a, int i) { return a[i & 7]; }
/* VPBROADCASTB zmm{k}, r8: element i = k[i] ? a : src[i] */
m_v64qi IA32(pbroadcastb512_gpr_mask)(char a, m_v64qi src, unsigned long long k) {
  m_v64qi r;
  for (int i = 0; i < 64; i++) r[i] = ((k >> i) & 1) ? a : src[i];
  return r;
}
/* VPTESTMB k{k1}, zmm, zmm: bit i = k1[i] && (a[i] & b[i]) != 0 */
unsigned long long IA32(ptestmb512)(m_v64qi a, m_v64qi b, unsigned long long k) {
  unsigned long long r = 0;
  for (int i = 0; i < 64; i++) r |= (unsigned long long)((((k >> i) & 1) && (a[i] & b[i]) != 0) ? 1 : 0) << i;
  return r;
}
/* VMOVDQU8 zmm{k}, m512: element i = k[i] ? p[i] : src[i]; masked-off bytes are NOT accessed
 * (SDM: no faults are reported for masked-off elements), so only selected bytes are dereferenced */
m_v64qi IA32(loaddquqi512_mask)(const char *p, m_v64qi src, unsigned long long k) {
  m_v64qi r;
  for (int i = 0; i < 64; i++) r[i] = ((k >> i) & 1) ? p[i] : src[i];
  return r;
}

/* ---- gathers and masked dword/qword moves (carquet_avx2_gather_*, carquet_avx512_gather_*) ----
 * VPGATHERDD/VPGATHERDQ: element i = mask[i] ? *(T *)(base + SignExtend(index[i]) * scale) : src[i];
 * masked-off elements are NOT accessed (SDM).  The 32-bit index is SIGNED.  AVX2 forms take the mask
 * as a vector (sign bit of each element), AVX-512 forms as a k register. */
/* address = base + SignExtend(index) * scale; when scale equals the element size this is plain element
 * indexing (same address, written so that the analyser sees an array index instead of byte arithmetic) */
#define G32(base, ix, scale) ((scale) == 4 ? ((const int *)(base))[(long long)(ix)] : *(const int *)((const char *)(base) + (long long)(ix) * (scale)))
#define G64(base, ix, scale) ((scale) == 8 ? ((const long long *)(base))[(long long)(ix)] : *(const long long *)((const char *)(base) + (long long)(ix) * (scale)))
typedef int m_v8si __attribute__((__vector_size__(32)));
typedef long long m_v4di __attribute__((__vector_size__(32)));
typedef int m_v16si __attribute__((__vector_size__(64)));
typedef long long m_v8di __attribute__((__vector_size__(64)));
m_v8si IA32(gathersiv8si)(m_v8si src, const int *base, m_v8si idx, m_v8si mask, int scale) {
  m_v8si r;
  for (int i = 0; i < 8; i++) r[i] = (mask[i] < 0) ? G32(base, idx[i], scale) : src[i];
  return r;
}
m_v4di IA32(gathersiv4di)(m_v4di src, const long long *base, m_v4si idx, m_v4di mask, int scale) {
  m_v4di r;
  for (int i = 0; i < 4; i++) r[i] = (mask[i] < 0) ? G64(base, idx[i], scale) : src[i];
  return r;
}
m_v16si IA32(gathersiv16si)(m_v16si src, const void *base, m_v16si idx, unsigned short k, int scale) {
  m_v16si r;
  for (int i = 0; i < 16; i++) r[i] = ((k >> i) & 1) ? G32(base, idx[i], scale) : src[i];
  return r;
}
m_v8di IA32(gathersiv8di)(m_v8di src, const void *base, m_v8si idx, unsigned char k, int scale) {
  m_v8di r;
  for (int i = 0; i < 8; i++) r[i] = ((k >> i) & 1) ? G64(base, idx[i], scale) : src[i];
  return r;
}
/* VMOVDQU32 / VMOVDQU64 with a write mask: masked-off elements are neither read nor written */
m_v16si IA32(loaddqusi512_mask)(const int *p, m_v16si src, unsigned short k) {
  m_v16si r;
  for (int i = 0; i < 16; i++) r[i] = ((k >> i) & 1) ? p[i] : src[i];
  return r;
}
void IA32(storedqusi512_mask)(int *p, m_v16si a, unsigned short k) {
  for (int i = 0; i < 16; i++) if ((k >> i) & 1) p[i] = a[i];
}
m_v8di IA32(loaddqudi512_mask)(const long long *p, m_v8di src, unsigned char k) {
  m_v8di r;
  for (int i = 0; i < 8; i++) r[i] = ((k >> i) & 1) ? p[i] : src[i];
  return r;
}
void IA32(storedqudi512_mask)(long long *p, m_v8di a, unsigned char k) {
  for (int i = 0; i < 8; i++) if ((k >> i) & 1) p[i] = a[i];
}
#ifndef IA32_MODEL_NATIVE
/* PREFETCHh: no architectural effect */
void __builtin_prefetch(const void *p, ...) { (void)p; }
#endif
