/* Assumed contracts (trusted here, proved by the bitpack family on the real src/core/bitpack.c, as of /repo d3d9d9d)
 * for the two bitpack.c entry points called from src/encoding/delta.c.
 *
 * carquet_bitunpack_32(input, count, w, values):
 *   w == 0          : reads nothing, writes count uint32 (zero), returns 0
 *   1 <= w <= 32    : reads exactly ceil(count*w/8) bytes (a partial last group is unpacked from a zero-padded
 *                     copy), writes count uint32, returns ceil(count*w/8).
 * carquet_bitpack_32(values, count, w, output):
 *   w == 0 or count == 0 : nothing, returns 0
 *   1 <= w <= 32    : reads count uint32, writes exactly ceil(count*w/8) bytes, returns ceil(count*w/8).
 * Contents: CQV_BITPACK_EXACT selects the value-exact model (bit i*w+j of the stream <-> bit j of value i,
 * LSB first) for count <= 32; otherwise the destination is arbitrary. */
#include <stddef.h>
#include <stdint.h>
uint32_t nondet_u32(void);

/* count * w for 0 <= w <= 63, written as shift-and-add over the 6 bits of w (a 64x64 product stalls the SAT back end) */
#define CQV_MULW(count, w) ((((w) & 1) ? (size_t)(count) : (size_t)0) + (((w) & 2) ? (size_t)(count) << 1 : (size_t)0) + \
  (((w) & 4) ? (size_t)(count) << 2 : (size_t)0) + (((w) & 8) ? (size_t)(count) << 3 : (size_t)0) + \
  (((w) & 16) ? (size_t)(count) << 4 : (size_t)0) + (((w) & 32) ? (size_t)(count) << 5 : (size_t)0))
#define CQV_PACKED(count, w) ((CQV_MULW(count, w) + 7) >> 3)

size_t carquet_bitunpack_32(const uint8_t *input, size_t count, int bit_width, uint32_t *values) {
  __CPROVER_precondition(bit_width >= 0 && bit_width <= 32, "bitunpack_32: 0 <= bit_width <= 32");
  __CPROVER_precondition(count <= ((size_t)1 << 32), "bitunpack_32: count bounded");
  __CPROVER_precondition(__CPROVER_w_ok(values, count << 2), "bitunpack_32: values writable (count uint32)");
  if (bit_width == 0) {
    if (count) __CPROVER_havoc_slice(values, count << 2);
    return 0;
  }
  __CPROVER_precondition(__CPROVER_r_ok(input, CQV_PACKED(count, bit_width)),
                         "bitunpack_32: input readable for ceil(count*bit_width/8) bytes");
#ifdef CQV_BITPACK_EXACT
  for (size_t i = 0; i < 32; i++) {
    if (i < count) {
      uint32_t v = 0;
      for (int j = 0; j < 32; j++) {
        if (j < bit_width) {
          size_t bit = i * (size_t)bit_width + (size_t)j;
          v |= (uint32_t)((input[bit >> 3] >> (bit & 7)) & 1) << j;
        }
      }
      values[i] = v;
    }
  }
#else
  if (count) __CPROVER_havoc_slice(values, count << 2);
#endif
  return CQV_PACKED(count, bit_width);
}

size_t carquet_bitpack_32(const uint32_t *values, size_t count, int bit_width, uint8_t *output) {
  __CPROVER_precondition(bit_width >= 0 && bit_width <= 32, "bitpack_32: 0 <= bit_width <= 32");
  __CPROVER_precondition(count <= ((size_t)1 << 32), "bitpack_32: count bounded");
  if (bit_width == 0 || count == 0) return 0;
  __CPROVER_precondition(__CPROVER_r_ok(values, count << 2), "bitpack_32: values readable (count uint32)");
  __CPROVER_precondition(__CPROVER_w_ok(output, CQV_PACKED(count, bit_width)),
                         "bitpack_32: output writable for ceil(count*bit_width/8) bytes");
  __CPROVER_havoc_slice(output, CQV_PACKED(count, bit_width));
  return CQV_PACKED(count, bit_width);
}
