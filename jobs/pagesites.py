# page reader load paths + page writer finalize: C14 CRC sites, C04 offsets/sizes, C09 compress_data
PR = dict(overlays=['contracts/page_reader.ovl'], includes=['src'], loop_contracts=False,
          replace=['carquet_read_dictionary_page', 'carquet_read_data_page_v1'])
T_STUBS = ['stubs/pages_stubs.c: assumed contracts of parquet_parse_page_header (arbitrary fields, 1..size bytes consumed), '
           'carquet_crc32 (arbitrary value), codec decompressors (C08 contracts), stdio fseek/fread (may fail / be short), '
           'carquet_error_set, carquet_page_is_zero_copy_eligible (exact definition)',
           'contracts of carquet_read_dictionary_page / carquet_read_data_page_v1 (contracts/page_reader.ovl) used at their call sites']
LEAK = ['--bounds-check', '--pointer-check', '--div-by-zero-check', '--signed-overflow-check',
        '--undefined-shift-check', '--memory-leak-check']
# C14 logic jobs: offsets/sizes arithmetic (signed overflow on attacker-controlled offsets) belongs to the C04 jobs
LOGIC = ['--no-signed-overflow-check', '--memory-leak-check']   # CBMC 6: the other standard checks are on by default
MF = ['--malloc-may-fail', '--malloc-fail-null']

C14R = dict(prop='C14', harness='harness/C14/pages.c', extra_sources=[], checks=LOGIC, cbmc_flags=MF,
            trusted=T_STUBS, wip=True, **PR)
JOBS = [
    dict(name='c14_load_dictionary_page_mmap', entry='h_c14_dict_mmap', functions=['load_dictionary_page_mmap', 'decompress_page'], **C14R),
    dict(name='c14_load_dictionary_page_fread', entry='h_c14_dict_fread', functions=['load_dictionary_page_fread', 'decompress_page'], **C14R),
    dict(name='c14_load_next_page_mmap', entry='h_c14_page_mmap', functions=['load_next_page_mmap', 'load_dictionary_page_mmap', 'decompress_page'], **C14R),
    dict(name='c14_load_next_page_fread', entry='h_c14_page_fread', functions=['load_next_page_fread', 'load_dictionary_page_fread', 'decompress_page'], **C14R),

]

C04R = dict(prop='C04', harness='harness/C04/pages.c', extra_sources=['stubs/mem_stubs.c'], checks=['--memory-leak-check'],
            cbmc_flags=MF, trusted=T_STUBS, wip=True, **PR)
JOBS += [
    dict(name='c04_load_dictionary_page_mmap', entry='h_c04_dict_mmap', functions=['load_dictionary_page_mmap', 'decompress_page'], **C04R),
    dict(name='c04_load_dictionary_page_fread', entry='h_c04_dict_fread', functions=['load_dictionary_page_fread', 'decompress_page'], **C04R),
    # case split over the column type: every type value except FIXED_LEN_BYTE_ARRAY (proof), FLBA with a fixed length (bounded)
    dict(name='c04_load_next_page_mmap', entry='h_c04_page_mmap', defines=['PG_NOT_FLBA=1'], functions=['load_next_page_mmap', 'load_dictionary_page_mmap', 'decompress_page'], **C04R),
    dict(name='c04_load_next_page_fread', entry='h_c04_page_fread', defines=['PG_NOT_FLBA=1'], functions=['load_next_page_fread', 'load_dictionary_page_fread', 'decompress_page'], **C04R),
    dict(name='c04_load_next_page_mmap_flba16', entry='h_c04_page_mmap', defines=['PG_FLBA=16'], level='bounded', bound='FIXED_LEN_BYTE_ARRAY columns with type_length == 16',
         functions=['load_next_page_mmap', 'load_dictionary_page_mmap', 'decompress_page'], **C04R),
    dict(name='c04_load_next_page_fread_flba16', entry='h_c04_page_fread', defines=['PG_FLBA=16'], level='bounded', bound='FIXED_LEN_BYTE_ARRAY columns with type_length == 16',
         functions=['load_next_page_fread', 'load_dictionary_page_fread', 'decompress_page'], **C04R),
]
