# page reader load paths + page writer finalize: C14 CRC sites, C04 offsets/sizes, C09 compress_data
PR = dict(overlays=['contracts/page_reader.ovl'], includes=['src'], loop_contracts=False,
          replace=['carquet_read_dictionary_page', 'carquet_read_data_page_v1'])
T_STUBS = ['stubs/pages_stubs.c: assumed contracts of parquet_parse_page_header (arbitrary fields, 1..size bytes consumed), '
           'carquet_crc32 (arbitrary value), codec decompressors (C08 contracts), stdio fseek/fread (may fail / be short), '
           'carquet_error_set, carquet_page_is_zero_copy_eligible (exact definition)',
           'contracts of carquet_read_dictionary_page / carquet_read_data_page_v1 (contracts/page_reader.ovl) used at their call sites']
LEAK = ['--bounds-check', '--pointer-check', '--div-by-zero-check', '--signed-overflow-check',
        '--undefined-shift-check', '--memory-leak-check']
# C14 logic jobs: offsets/sizes arithmetic (signed overflow on attacker-controlled offsets) belongs to the C04 jobs
LOGIC = ['--memory-leak-check']   # CBMC 6: the other standard checks are on by default
MF = ['--malloc-may-fail', '--malloc-fail-null']

C14R = dict(prop='C14', harness='harness/C14/pages.c', extra_sources=[], checks=LOGIC, cbmc_flags=MF,
            trusted=T_STUBS, wip=False, **PR)
JOBS = [
    dict(name='c14_load_dictionary_page_mmap', entry='h_c14_dict_mmap', functions=['load_dictionary_page_mmap', 'decompress_page'], **C14R),
    dict(name='c14_load_dictionary_page_fread', entry='h_c14_dict_fread', functions=['load_dictionary_page_fread', 'decompress_page'], **C14R),
    dict(name='c14_load_next_page_mmap', entry='h_c14_page_mmap', functions=['load_next_page_mmap', 'load_dictionary_page_mmap', 'decompress_page'], **C14R),
    dict(name='c14_load_next_page_fread', entry='h_c14_page_fread', functions=['load_next_page_fread', 'load_dictionary_page_fread', 'decompress_page'], **C14R),

]

ALL_SRC = ['src/compression/gzip.c', 'src/compression/lz4.c', 'src/compression/snappy.c', 'src/compression/zstd.c',
           'src/core/arena.c', 'src/core/bitpack.c', 'src/core/buffer.c', 'src/core/endian.c', 'src/core/error.c',
           'src/encoding/byte_stream_split.c', 'src/encoding/delta.c', 'src/encoding/delta_length.c', 'src/encoding/delta_strings.c',
           'src/encoding/dictionary.c', 'src/encoding/plain.c', 'src/encoding/rle.c', 'src/metadata/bloom_filter.c',
           'src/metadata/page_index.c', 'src/metadata/schema.c', 'src/metadata/statistics.c', 'src/reader/batch_reader.c',
           'src/reader/column_reader.c', 'src/reader/file_reader.c', 'src/reader/mmap_reader.c', 'src/reader/page_reader.c',
           'src/reader/row_group_reader.c', 'src/reader/statistics.c', 'src/simd/detect.c', 'src/simd/dispatch.c',
           'src/thrift/parquet_types.c', 'src/thrift/thrift_decode.c', 'src/thrift/thrift_encode.c', 'src/util/crc32.c',
           'src/util/xxhash.c', 'src/writer/column_writer.c', 'src/writer/file_writer.c', 'src/writer/page_writer.c',
           'src/writer/row_group_writer.c']
FZ_MMAP = dict(kind='fuzz', harness='replay/fz/pages_mmap.c', sources=ALL_SRC, max_len=96, secs=25)
C04R = dict(prop='C04', est_s=20, harness='harness/C04/pages.c', extra_sources=[], checks=['--memory-leak-check'],
            cbmc_flags=MF, trusted=T_STUBS, wip=False, **PR)
JOBS += [
    dict(name='c04_load_dictionary_page_mmap', replayer=FZ_MMAP, note='passes since /repo c6e3bde (page_window / page_sizes_ok); validated with c6e3bde reverted (fails) and targeted breakages', entry='h_c04_dict_mmap', functions=['load_dictionary_page_mmap', 'decompress_page'], wip_override=False, **C04R),
    dict(name='c04_load_dictionary_page_fread', note='passes since /repo c6e3bde (page_window / page_sizes_ok); validated with c6e3bde reverted (fails) and targeted breakages', entry='h_c04_dict_fread', functions=['load_dictionary_page_fread', 'decompress_page'], wip_override=False, **C04R),
    # case split over the column type: every type value except FIXED_LEN_BYTE_ARRAY (proof), FLBA with a fixed length (bounded)
    dict(name='c04_load_next_page_mmap', replayer=FZ_MMAP, note='RESIDUAL FINDING F6 (minor, genuine, reproduced by the fuzz replayer under UBSan): zero-copy path with num_values == 0 on a reader without level buffers calls memset(NULL, 0, 0) (page_reader.c:938/939), UB per C11 7.24.1p2; every other obligation passes since c6e3bde. Proposed fix: guard the two memsets with if (num_values > 0)', entry='h_c04_page_mmap', defines=['PG_NOT_FLBA=1', 'PG_MEM_NOCONTENT=1'], functions=['load_next_page_mmap', 'load_dictionary_page_mmap', 'decompress_page'], **C04R),
    dict(name='c04_load_next_page_fread', note='passes since /repo c6e3bde (page_window / page_sizes_ok); validated with c6e3bde reverted (fails) and targeted breakages', entry='h_c04_page_fread', defines=['PG_NOT_FLBA=1', 'PG_MEM_NOCONTENT=1'], functions=['load_next_page_fread', 'load_dictionary_page_fread', 'decompress_page'], wip_override=False, **C04R),
    dict(name='c04_load_next_page_mmap_flba16', replayer=FZ_MMAP, note='RESIDUAL FINDING F6 (minor, genuine, reproduced by the fuzz replayer under UBSan): zero-copy path with num_values == 0 on a reader without level buffers calls memset(NULL, 0, 0) (page_reader.c:938/939), UB per C11 7.24.1p2; every other obligation passes since c6e3bde. Proposed fix: guard the two memsets with if (num_values > 0)', entry='h_c04_page_mmap', defines=['PG_FLBA=16', 'PG_MEM_NOCONTENT=1'], level='bounded', bound='FIXED_LEN_BYTE_ARRAY columns with type_length == 16',
         functions=['load_next_page_mmap', 'load_dictionary_page_mmap', 'decompress_page'], **C04R),
    dict(name='c04_load_next_page_fread_flba16', note='passes since /repo c6e3bde (page_window / page_sizes_ok); validated with c6e3bde reverted (fails) and targeted breakages', entry='h_c04_page_fread', defines=['PG_FLBA=16', 'PG_MEM_NOCONTENT=1'], level='bounded', bound='FIXED_LEN_BYTE_ARRAY columns with type_length == 16',
         functions=['load_next_page_fread', 'load_dictionary_page_fread', 'decompress_page'], wip_override=False, **C04R),
]

PW = dict(overlays=['contracts/page_writer.ovl'], harness='harness/C09/page_writer.c', includes=['src'], loop_contracts=False,
          checks=['--memory-leak-check'], cbmc_flags=MF, wip=False,
          trusted=['harness/C09/page_writer.c: assumed contracts of carquet_buffer_* (append may fail; sizes < 2^40), thrift_write_* (field log), '
                   'codec compress / compress_bound (reported size <= capacity), carquet_crc32 (arbitrary value)'])
JOBS += [
    dict(name='c09_compress_data', props=['C09', 'C19'], entry='h_c09_compress_data',   # C19: a failed scratch allocation is reported, never papered over
          functions=['compress_data'], **PW),
    dict(name='c14_page_writer_finalize', props=['C14', 'C19'], entry='h_c14_finalize', functions=['carquet_page_writer_finalize', 'compress_data'], **PW),
]

# page decoders: harness-is-contract + loop contracts (enforce-contract's assigns instrumentation exhausts memory here)
RD = dict(props=['C04', 'C14'], harness='harness/C04/pages.c', entry='h_c04_read_dictionary_page', overlays=['contracts/page_reader.ovl'],
          includes=['src'], loop_contracts=True, min_loop_obligations=1, extra_sources=[], cbmc_flags=MF,
          checks=['--memory-leak-check'], trusted=T_STUBS[:1], functions=['carquet_read_dictionary_page'], wip=False)
JOBS += [
    dict(name='c04_read_dictionary_page', defines=['PG_MEMCPY_SMALL=1', 'PG_NOT_FLBA=1'], est_s=80,
         note='FINDING F7 (genuine, native demo /tmp/pagesites/native/demo.c mode 7): byte-array dictionary entry with len >= 0xFFFFFFFC: '
              '`size_t entry_size = 4 + len` is evaluated in 32-bit arithmetic and wraps (len=0xFFFFFFFD -> entry_size=1), the entry is accepted and '
              'later handed out with length -3. Only failing obligation: loop invariant (every accepted entry lies inside the page). '
              'Proposed fix: size_t entry_size = (size_t)4 + len;', **RD),
    dict(name='c04_read_dictionary_page_flba16', defines=['PG_MEMCPY_SMALL=1', 'PG_FLBA=16'], level='bounded', est_s=45,
         bound='FIXED_LEN_BYTE_ARRAY columns with type_length == 16', wip_override=False,
         note='validated: with 821768a reverted the memcpy source-range obligation fails', **RD),
]

RDP = dict(props=['C04', 'C14'], harness='harness/C04/pages.c', entry='h_c04_read_data_page_v1', overlays=['contracts/page_reader.ovl'],
           includes=['src'], loop_contracts=False, unwind=5, unwindset=['bit_width_for_max.0:17'], object_bits=10, extra_sources=[], cbmc_flags=MF,
           checks=['--memory-leak-check'],
           trusted=T_STUBS[:1] + ['stubs/pages_stubs.c: carquet_rle_decode_levels / carquet_rle_decode_all / carquet_decode_plain / carquet_dispatch_gather_* as contracts'],
           functions=['carquet_read_data_page_v1', 'decode_levels_rle', 'bit_width_for_max'], level='bounded', wip=False, est_s=60,
           note='validated: index validation off-by-one (fixed-width and byte-array) and missing clamp to max_values are caught')
_TYPES = ['boolean', 'int32', 'int64', 'int96', 'float', 'double', 'byte_array', 'flba16', 'invalid8']
JOBS += [
    dict(name='c04_read_data_page_v1_b3_%s' % t,
         defines=['PG_MEMCPY_SMALL=1', 'PG_DECODE_STUBS=1', 'PG_MAXV=3', 'PG_TYPE=%d' % k] + (['PG_FLBA=16'] if k == 7 else []),
         tier='quick' if t in ('int32', 'byte_array', 'flba16') else 'thorough',
         bound='max_values <= 3; column type %s; BYTE_ARRAY dictionaries with <= 3 entries' % t, **RDP)
    for k, t in enumerate(_TYPES)
]

for _j in JOBS:
    if 'wip_override' in _j:
        _j['wip'] = _j.pop('wip_override')

# C19: allocation failure in the fread page load (every malloc may return NULL; CBMC's free() preconditions
# include the double-free check; leak check after releasing what the reader owns)
JOBS += [
    dict(name='c19_load_next_page_fread', entry='h_c04_page_fread', defines=['PG_NOT_FLBA=1', 'PG_MEM_NOCONTENT=1'],
         functions=['load_next_page_fread', 'load_dictionary_page_fread', 'decompress_page'],
         note='validated: OOM cleanup simplified to free(page_data); free(compressed); is caught (free of an already released block)',
         **dict(C04R, prop='C19', wip=False)),
    dict(name='c19_load_next_page_mmap', entry='h_c04_page_mmap', defines=['PG_NOT_FLBA=1', 'PG_MEM_NOCONTENT=1'],
         functions=['load_next_page_mmap', 'load_dictionary_page_mmap', 'decompress_page'],
         note='shares residual finding F6 with c04_load_next_page_mmap (memset(NULL, 0, 0))',
         **dict(C04R, prop='C19', wip=False)),
]
