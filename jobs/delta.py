# DELTA_BINARY_PACKED / DELTA_LENGTH_BYTE_ARRAY / DELTA_BYTE_ARRAY  (C08 decoders, C11/C12 encoder side)
BITPACK_STUB = 'stubs/delta_stubs.c: carquet_bitunpack_32 / carquet_bitpack_32 as assumed contracts ' \
               '(reads/writes ceil(count/8)*bit_width bytes, count uint32 values; proved on the real bitpack.c by the bitpack family)'
D8 = dict(overlays=['contracts/delta.ovl'], harness='harness/C08/delta.c', prop='C08', includes=['.', 'src'],
          extra_sources=['stubs/mem_stubs.c', 'stubs/delta_stubs.c'], wip=True)

JOBS = [
    dict(name='c08_delta_read_uleb128', entry='h_read_uleb128', enforce='read_uleb128', min_loop_obligations=1, **D8),
    dict(name='c08_delta_decoder_init', entry='h_decoder_init', enforce='delta_decoder_init', replace=['read_uleb128'],
         defines=['CQV_MEMSET_EXACT=344'], unwindset=['memset.0:345'], **D8),
    dict(name='c08_delta_read_block', entry='h_read_block', enforce='delta_decoder_read_block', replace=['read_uleb128'], **D8),
    dict(name='c08_delta_read_mini_block', entry='h_read_mini_block', enforce='delta_decoder_read_mini_block',
         replace=['delta_decoder_read_block'], min_loop_obligations=4, trusted=[BITPACK_STUB], **D8),
    dict(name='c08_delta_decoder_next', entry='h_decoder_next', enforce='delta_decoder_next',
         replace=['delta_decoder_read_mini_block'], **D8),
    dict(name='c08_delta_decode_int32', entry='h_decode_int32', enforce='carquet_delta_decode_int32',
         replace=['delta_decoder_init', 'delta_decoder_next'], min_loop_obligations=1, **D8),
    dict(name='c08_delta_decode_int64', entry='h_decode_int64', enforce='carquet_delta_decode_int64',
         replace=['delta_decoder_init', 'delta_decoder_next'], min_loop_obligations=1, **D8),
]
