# DELTA_BINARY_PACKED / DELTA_LENGTH_BYTE_ARRAY / DELTA_BYTE_ARRAY  (C08 decoders, C11/C12 encoder side)
BITPACK_STUB = 'stubs/delta_stubs.c: carquet_bitunpack_32 / carquet_bitpack_32 as assumed contracts ' \
               '(reads/writes exactly ceil(count*bit_width/8) bytes, count uint32 values; proved on the real bitpack.c by the bitpack family)'
FZ_SRC = ['src/encoding/delta.c', 'src/core/bitpack.c']
RP_DELTA = dict(kind='fuzz', harness='replay/fz/delta_decode.c', sources=FZ_SRC, max_len=96, secs=20)
RP_LENGTH = dict(kind='fuzz', harness='replay/fz/delta_length_decode.c',
                 sources=['src/encoding/delta_length.c', 'src/core/buffer.c'] + FZ_SRC, max_len=96, secs=20)
RP_STRINGS = dict(kind='fuzz', harness='replay/fz/delta_strings_decode.c',
                  sources=['src/encoding/delta_strings.c', 'src/core/buffer.c'] + FZ_SRC, max_len=96, secs=20)
D8 = dict(overlays=['contracts/delta.ovl', 'contracts/delta_length.ovl', 'contracts/delta_strings.ovl'], harness='harness/C08/delta.c', prop='C08', includes=['.', 'src'],
          extra_sources=['stubs/mem_stubs.c', 'stubs/delta_stubs.c'], wip=True)
CHK = ['--bounds-check', '--pointer-check', '--div-by-zero-check', '--signed-overflow-check', '--undefined-shift-check']
OVL3 = ['contracts/delta.ovl', 'contracts/delta_length.ovl', 'contracts/delta_strings.ovl']
D8S = dict(D8, overlays=OVL3)
D8S_NOPROP = {k: v for k, v in D8S.items() if k != 'prop'}

JOBS = [
    dict(name='c08_delta_read_uleb128', replayer=RP_DELTA, entry='h_read_uleb128', enforce='read_uleb128', min_loop_obligations=1, **D8),
    dict(name='c08_delta_decoder_init', replayer=RP_DELTA, entry='h_decoder_init', enforce='delta_decoder_init', replace=['read_uleb128'],
         defines=['CQV_MEMSET_EXACT=344'], unwindset=['memset.0:345'], **D8),
    dict(name='c08_delta_read_block', replayer=RP_DELTA, entry='h_read_block', enforce='delta_decoder_read_block', replace=['read_uleb128'], **D8),
    # full job (all 1083 obligations, 1-3 min) in the thorough tier; the quick slice keeps the contract-level obligations
    # (ensures, loop invariants incl. the value relation, decreases, inserted assertions) that catch the seeded mutations
    dict(name='c08_delta_read_mini_block', replayer=RP_DELTA, entry='h_read_mini_block', enforce='delta_decoder_read_mini_block',
         replace=['delta_decoder_read_block'], min_loop_obligations=4, trusted=[BITPACK_STUB], tier='thorough', **D8),
    dict(name='c08_delta_read_mini_block_logic', replayer=RP_DELTA, entry='h_read_mini_block', enforce='delta_decoder_read_mini_block',
         replace=['delta_decoder_read_block'], min_loop_obligations=4, trusted=[BITPACK_STUB],
         select=r'^delta_decoder_read_mini_block\.(\d+|postcondition\.\d+|assertion\.\d+) ',
         **dict(D8, props=['C08', 'C11', 'C12'])),   # the value relation (min_delta + zero-extended word) is a C11/C12 fact as well
    dict(name='c08_delta_decoder_next', replayer=RP_DELTA, entry='h_decoder_next', enforce='delta_decoder_next',
         replace=['delta_decoder_read_mini_block'], **D8),
    dict(name='c08_delta_decode_int32', replayer=RP_DELTA, entry='h_decode_int32', enforce='carquet_delta_decode_int32',
         replace=['delta_decoder_init', 'delta_decoder_next'], min_loop_obligations=1, **dict(D8, props=['C08', 'C12'])),
    dict(name='c08_delta_decode_int64', replayer=RP_DELTA, entry='h_decode_int64', enforce='carquet_delta_decode_int64',
         replace=['delta_decoder_init', 'delta_decoder_next'], min_loop_obligations=1, **dict(D8, props=['C08', 'C12'])),
    dict(name='c08_delta_length_decode', replayer=RP_LENGTH, entry='h_delta_length_decode', enforce='carquet_delta_length_decode',
         replace=['carquet_delta_decode_int32'], min_loop_obligations=2, **D8S),
    dict(name='c08_delta_strings_decode', replayer=RP_STRINGS, entry='h_delta_strings_decode', enforce='carquet_delta_strings_decode',
         replace=['carquet_delta_decode_int32'], level='bounded', bound='num_values <= 3 strings (all bytes, all sizes)',
         defines=['CQV_NMAX=3'], unwindset=['carquet_delta_strings_decode.0:4', 'carquet_delta_strings_decode.1:4'], **D8S),
    # harness-is-contract: views + every allocation possibly failing + nothing left allocated (C08 last sentence, C19 tier)
    dict(name='c08_delta_length_views_leak', replayer=RP_LENGTH, entry='h_delta_length_views', replace=['carquet_delta_decode_int32'],
         loop_contracts=False, unwind=4, level='bounded', bound='num_values <= 3 strings (all bytes, all sizes)',
         defines=['CQV_NMAX=3', 'CQV_OOM=1'], functions=['carquet_delta_length_decode'],
         checks=CHK + ['--memory-leak-check'], cbmc_flags=['--malloc-may-fail', '--malloc-fail-null'], **dict(D8S_NOPROP, props=['C08', 'C19'])),
    dict(name='c08_delta_strings_views_leak', replayer=RP_STRINGS, entry='h_delta_strings_views', replace=['carquet_delta_decode_int32'],
         loop_contracts=False, unwind=4, level='bounded', bound='num_values <= 3 strings (all bytes, all sizes)',
         defines=['CQV_NMAX=3', 'CQV_OOM=1'], functions=['carquet_delta_strings_decode'],
         checks=CHK + ['--memory-leak-check'], cbmc_flags=['--malloc-may-fail', '--malloc-fail-null'], **dict(D8S_NOPROP, props=['C08', 'C19'])),
]

# ---------------- encoder side: C11 (round trip ingredients) / C12 (layout per Encodings.md) ----------------
# the _fit / _spec_size jobs add one ensures each to the contract that c11_delta_flush_block_safe proves in full; they check only the
# contract-level obligations (ensures, loop invariants, decreases, cuts) - the memory-safety obligations are the same program's and
# are discharged by the _safe job
FLUSH_LOGIC = r'^delta_encoder_flush_block\.(\d+|postcondition\.\d+|assertion\.\d+) '
D11 = dict(overlays=['contracts/delta.ovl'], harness='harness/C11/delta.c', props=['C11', 'C12'], includes=['.', 'src'],
           extra_sources=['stubs/mem_stubs.c', 'stubs/delta_stubs.c'], wip=True)
JOBS += [
    dict(name='c11_delta_zigzag_uleb_roundtrip', entry='h_zigzag_uleb_roundtrip', loop_contracts=False, unwind=11,
         functions=['zigzag_encode64', 'zigzag_decode64', 'write_uleb128', 'read_uleb128'], **D11),
    dict(name='c11_delta_write_uleb128', entry='h_write_uleb128', enforce='write_uleb128', loop_contracts=False, defines=['CQV_ULEB_BYTES=1'],
         unwindset=['write_uleb128.0:11'], **D11),
    dict(name='c11_delta_bit_width_required', entry='h_bit_width_required', enforce='bit_width_required', loop_contracts=False,
         unwindset=['bit_width_required.0:66'], unwind=66, **D11),
] + [
    dict(name=nm, entry='h_flush_block', enforce='delta_encoder_flush_block',
         replace=['write_uleb128', 'bit_width_required'], min_loop_obligations=10, defines=defs,
         trusted=[BITPACK_STUB], timeout=1700, est_s=1400 if sel is None else 300, select=sel,
         **dict(D11, props=pr))
    for nm, defs, pr, sel in [
        ('c11_delta_flush_block_safe', [], ['C11'], None),   # writes < capacity, reads < 128 deltas, frame, bytes written == min-delta varint + 4 + packed_bytes_needed
        ('c11_delta_flush_block_fit', ['CQV_FLUSH_FIT=1'], ['C11'], FLUSH_LOGIC),              # every adjusted delta fits its mini-block width
        ('c12_delta_flush_block_spec_size', ['CQV_SPEC_SIZE=1'], ['C12'], FLUSH_LOGIC),        # packed_bytes_needed == sum 32*w/8 (Encodings.md)
    ]
] + [
    dict(name='c11_delta_encoder_init', entry='h_encoder_init', enforce='delta_encoder_init', loop_contracts=False,
         defines=['CQV_MEMSET_EXACT=1088'], unwindset=['memset.0:1089'], **D11),
    dict(name='c11_delta_encode_int32', entry='h_encode_int32', enforce='carquet_delta_encode_int32',
         replace=['write_uleb128', 'delta_encoder_init', 'delta_encoder_flush_block'], min_loop_obligations=1, **D11),
    dict(name='c11_delta_encode_int64', entry='h_encode_int64', enforce='carquet_delta_encode_int64',
         replace=['write_uleb128', 'delta_encoder_init', 'delta_encoder_flush_block'], min_loop_obligations=1, **D11),
]

# DELTA_LENGTH_BYTE_ARRAY / DELTA_BYTE_ARRAY encoders: harness-is-contract, bounded, recording stubs for the two callees
ENC_STUBS = 'harness/C12/delta.c: recording stubs for carquet_delta_encode_int32 (its proved contract: arbitrary size <= capacity or error) ' \
            'and carquet_buffer_append (source readable, OK or OUT_OF_MEMORY; proved by the buffer family)'
D12 = dict(overlays=OVL3, harness='harness/C12/delta.c', props=['C11', 'C12'], includes=['.', 'src'], extra_sources=['stubs/mem_stubs.c'],
           loop_contracts=False, unwind=6, level='bounded', bound='num_values <= 3 values of <= 4 bytes each (all contents, NULL/empty values, every append/encode/malloc may fail)',
           defines=['CQV_NMAX=3', 'CQV_LMAX=4'], trusted=[ENC_STUBS],
           checks=CHK + ['--memory-leak-check'], cbmc_flags=['--malloc-may-fail', '--malloc-fail-null'], wip=True)
JOBS += [
    dict(name='c11_delta_length_encode', entry='h_delta_length_encode', functions=['carquet_delta_length_encode'], **D12),
    dict(name='c11_delta_strings_encode', entry='h_delta_strings_encode', functions=['carquet_delta_strings_encode', 'common_prefix_length'], **D12),
]

for _j in JOBS:
    if _j['harness'] == 'harness/C11/delta.c':
        _j['defines'] = _j.get('defines', []) + ['CQV_DELTA_ENC=1']   # encoder contracts are compiled in only for these jobs

# ---- status (wip=False only: ok on the unchanged tree AND a seeded breakage of the function was reported) ----
DONE = ['c08_delta_read_uleb128', 'c08_delta_read_block', 'c08_delta_decoder_next', 'c08_delta_decode_int32',
        'c08_delta_decode_int64', 'c08_delta_length_decode', 'c08_delta_length_views_leak',
        'c11_delta_zigzag_uleb_roundtrip', 'c11_delta_write_uleb128', 'c11_delta_bit_width_required',
        # ok since /repo d3d9d9d (bitunpack_32 partial group), cbbbeed (width > 64), afcedfb (prefix+suffix overflow);
        # each fails again with its fix reverted / the seeded header and sign-extension mutations
        'c08_delta_decoder_init', 'c08_delta_read_mini_block', 'c08_delta_strings_decode', 'c08_delta_strings_views_leak',
        # encoder side: ok on /repo afcedfb, each reported a seeded breakage (wrong packed_bytes_needed for widths > 32,
        # flush at > 128 deltas, 4-byte header guard, block size 64)
        'c11_delta_flush_block_safe', 'c11_delta_flush_block_fit', 'c11_delta_encoder_init', 'c11_delta_encode_int32', 'c11_delta_encode_int64',
        # round 3: quick slice of read_mini_block (catches the int32_t unpacked mutation), DELTA_LENGTH / DELTA_BYTE_ARRAY encoders
        # (catch: prev value not updated after an empty value, suffix from offset 0, value of length 1 not appended, missing free)
        'c08_delta_read_mini_block_logic', 'c11_delta_length_encode', 'c11_delta_strings_encode',
        'c12_delta_flush_block_spec_size']   # live: fails on the recorded known finding KF-C12-delta-wide only
NOTES = {
    'c12_delta_flush_block_spec_size': 'FINDING (C12, to be recorded as known): fails on exactly the ensures DELTA_FLUSH_SPEC_SIZE (115 other obligations ok): for widths 33..63 not divisible by 8 '
        'encoder and decoder use ceil(w/8) whole bytes per value instead of bit packing; native demo /tmp/delta/demo_c12_width.c',
}
for _j in JOBS:
    _j['wip'] = _j['name'] not in DONE
    if _j['name'] in NOTES:
        _j['note'] = NOTES[_j['name']]
    if _j['name'].startswith('c11_delta_flush') or _j['name'].startswith('c12_delta_flush'):
        _j['tier'] = 'thorough'
