# DELTA_BINARY_PACKED / DELTA_LENGTH_BYTE_ARRAY / DELTA_BYTE_ARRAY  (C08 decoders, C11/C12 encoder side)
BITPACK_STUB = 'stubs/delta_stubs.c: carquet_bitunpack_32 / carquet_bitpack_32 as assumed contracts ' \
               '(reads/writes ceil(count/8)*bit_width bytes, count uint32 values; proved on the real bitpack.c by the bitpack family)'
D8 = dict(overlays=['contracts/delta.ovl', 'contracts/delta_length.ovl', 'contracts/delta_strings.ovl'], harness='harness/C08/delta.c', prop='C08', includes=['.', 'src'],
          extra_sources=['stubs/mem_stubs.c', 'stubs/delta_stubs.c'], wip=True)
CHK = ['--bounds-check', '--pointer-check', '--div-by-zero-check', '--signed-overflow-check', '--undefined-shift-check']
OVL3 = ['contracts/delta.ovl', 'contracts/delta_length.ovl', 'contracts/delta_strings.ovl']
D8S = dict(D8, overlays=OVL3)

JOBS = [
    dict(name='c08_delta_read_uleb128', entry='h_read_uleb128', enforce='read_uleb128', min_loop_obligations=1, **D8),
    dict(name='c08_delta_decoder_init', entry='h_decoder_init', enforce='delta_decoder_init', replace=['read_uleb128'],
         defines=['CQV_MEMSET_EXACT=344'], unwindset=['memset.0:345'], **D8),
    dict(name='c08_delta_read_block', entry='h_read_block', enforce='delta_decoder_read_block', replace=['read_uleb128'], **D8),
    dict(name='c08_delta_read_mini_block', entry='h_read_mini_block', enforce='delta_decoder_read_mini_block',
         replace=['delta_decoder_read_block'], min_loop_obligations=4, trusted=[BITPACK_STUB], **D8),
    dict(name='c08_delta_decoder_next', entry='h_decoder_next', enforce='delta_decoder_next',
         replace=['delta_decoder_read_mini_block'], **D8),
    dict(name='c08_delta_decode_int32', entry='h_decode_int32', enforce='carquet_delta_decode_int32',
         replace=['delta_decoder_init', 'delta_decoder_next'], min_loop_obligations=1, **D8),
    dict(name='c08_delta_decode_int64', entry='h_decode_int64', enforce='carquet_delta_decode_int64',
         replace=['delta_decoder_init', 'delta_decoder_next'], min_loop_obligations=1, **D8),
    dict(name='c08_delta_length_decode', entry='h_delta_length_decode', enforce='carquet_delta_length_decode',
         replace=['carquet_delta_decode_int32'], min_loop_obligations=2, **D8S),
    dict(name='c08_delta_strings_decode', entry='h_delta_strings_decode', enforce='carquet_delta_strings_decode',
         replace=['carquet_delta_decode_int32'], level='bounded', bound='num_values <= 3 strings (all bytes, all sizes)',
         defines=['CQV_NMAX=3'], unwindset=['carquet_delta_strings_decode.0:4', 'carquet_delta_strings_decode.1:4'], **D8S),
    # harness-is-contract: views + every allocation possibly failing + nothing left allocated (C08 last sentence, C19 tier)
    dict(name='c08_delta_length_views_leak', entry='h_delta_length_views', replace=['carquet_delta_decode_int32'],
         loop_contracts=False, unwind=4, level='bounded', bound='num_values <= 3 strings (all bytes, all sizes)',
         defines=['CQV_NMAX=3', 'CQV_OOM=1'], functions=['carquet_delta_length_decode'],
         checks=CHK + ['--memory-leak-check'], cbmc_flags=['--malloc-may-fail', '--malloc-fail-null'], **D8S),
    dict(name='c08_delta_strings_views_leak', entry='h_delta_strings_views', replace=['carquet_delta_decode_int32'],
         loop_contracts=False, unwind=4, level='bounded', bound='num_values <= 3 strings (all bytes, all sizes)',
         defines=['CQV_NMAX=3', 'CQV_OOM=1'], functions=['carquet_delta_strings_decode'],
         checks=CHK + ['--memory-leak-check'], cbmc_flags=['--malloc-may-fail', '--malloc-fail-null'], **D8S),
]

# ---------------- encoder side: C11 (round trip ingredients) / C12 (layout per Encodings.md) ----------------
D11 = dict(overlays=['contracts/delta.ovl'], harness='harness/C11/delta.c', props=['C11', 'C12'], includes=['.', 'src'],
           extra_sources=['stubs/mem_stubs.c', 'stubs/delta_stubs.c'], wip=True)
JOBS += [
    dict(name='c11_delta_zigzag_uleb_roundtrip', entry='h_zigzag_uleb_roundtrip', loop_contracts=False, unwind=11,
         functions=['zigzag_encode64', 'zigzag_decode64', 'write_uleb128', 'read_uleb128'], **D11),
    dict(name='c11_delta_write_uleb128', entry='h_write_uleb128', enforce='write_uleb128', loop_contracts=False,
         unwindset=['write_uleb128.0:11'], **D11),
    dict(name='c11_delta_bit_width_required', entry='h_bit_width_required', enforce='bit_width_required', loop_contracts=False,
         unwindset=['bit_width_required.0:66'], unwind=66, **D11),
    dict(name='c11_delta_flush_block', entry='h_flush_block', enforce='delta_encoder_flush_block',
         replace=['write_uleb128', 'bit_width_required'], min_loop_obligations=8,
         unwindset=['delta_encoder_flush_block.2:5', 'delta_encoder_flush_block.9:5'], trusted=[BITPACK_STUB], **D11),
    dict(name='c12_delta_flush_block_spec_size', entry='h_flush_block', enforce='delta_encoder_flush_block',
         replace=['write_uleb128', 'bit_width_required'], min_loop_obligations=8, defines=['CQV_SPEC_SIZE=1'],
         unwindset=['delta_encoder_flush_block.2:5', 'delta_encoder_flush_block.9:5'], trusted=[BITPACK_STUB],
         **dict(D11, props=['C12'])),
    dict(name='c11_delta_encode_int32', entry='h_encode_int32', enforce='carquet_delta_encode_int32',
         replace=['write_uleb128', 'delta_encoder_flush_block'], min_loop_obligations=1,
         defines=['CQV_MEMSET_EXACT=1080'], **D11),
    dict(name='c11_delta_encode_int64', entry='h_encode_int64', enforce='carquet_delta_encode_int64',
         replace=['write_uleb128', 'delta_encoder_flush_block'], min_loop_obligations=1, **D11),
]
