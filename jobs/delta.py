# DELTA_BINARY_PACKED / DELTA_LENGTH_BYTE_ARRAY / DELTA_BYTE_ARRAY  (C08 decoders, C11/C12 encoder side)
BITPACK_STUB = 'stubs/delta_stubs.c: carquet_bitunpack_32 / carquet_bitpack_32 as assumed contracts ' \
               '(reads/writes ceil(count/8)*bit_width bytes, count uint32 values; proved on the real bitpack.c by the bitpack family)'
D8 = dict(overlays=['contracts/delta.ovl', 'contracts/delta_length.ovl', 'contracts/delta_strings.ovl'], harness='harness/C08/delta.c', prop='C08', includes=['.', 'src'],
          extra_sources=['stubs/mem_stubs.c', 'stubs/delta_stubs.c'], wip=True)
CHK = ['--bounds-check', '--pointer-check', '--div-by-zero-check', '--signed-overflow-check', '--undefined-shift-check']
OVL3 = ['contracts/delta.ovl', 'contracts/delta_length.ovl', 'contracts/delta_strings.ovl']
D8S = dict(D8, overlays=OVL3)

JOBS = [
    dict(name='c08_delta_read_uleb128', entry='h_read_uleb128', enforce='read_uleb128', min_loop_obligations=1, **D8),
    dict(name='c08_delta_decoder_init', entry='h_decoder_init', enforce='delta_decoder_init', replace=['read_uleb128'],
         defines=['CQV_MEMSET_EXACT=344'], unwindset=['memset.0:345'], **D8),
    dict(name='c08_delta_read_block', entry='h_read_block', enforce='delta_decoder_read_block', replace=['read_uleb128'], **D8),
    dict(name='c08_delta_read_mini_block', entry='h_read_mini_block', enforce='delta_decoder_read_mini_block',
         replace=['delta_decoder_read_block'], min_loop_obligations=4, trusted=[BITPACK_STUB], **D8),
    dict(name='c08_delta_decoder_next', entry='h_decoder_next', enforce='delta_decoder_next',
         replace=['delta_decoder_read_mini_block'], **D8),
    dict(name='c08_delta_decode_int32', entry='h_decode_int32', enforce='carquet_delta_decode_int32',
         replace=['delta_decoder_init', 'delta_decoder_next'], min_loop_obligations=1, **D8),
    dict(name='c08_delta_decode_int64', entry='h_decode_int64', enforce='carquet_delta_decode_int64',
         replace=['delta_decoder_init', 'delta_decoder_next'], min_loop_obligations=1, **D8),
    dict(name='c08_delta_length_decode', entry='h_delta_length_decode', enforce='carquet_delta_length_decode',
         replace=['carquet_delta_decode_int32'], min_loop_obligations=2,
         checks=CHK + ['--memory-leak-check'], **D8S),
    dict(name='c08_delta_length_decode_oom', entry='h_delta_length_decode', enforce='carquet_delta_length_decode',
         replace=['carquet_delta_decode_int32'], min_loop_obligations=2, tier='thorough', defines=['CQV_OOM=1'],
         checks=CHK + ['--memory-leak-check'], cbmc_flags=['--malloc-may-fail', '--malloc-fail-null'], **D8S),
    dict(name='c08_delta_strings_decode', entry='h_delta_strings_decode', enforce='carquet_delta_strings_decode',
         replace=['carquet_delta_decode_int32'], level='bounded', bound='num_values <= 3 strings (all bytes, all sizes)',
         defines=['CQV_NMAX=1'], unwindset=['carquet_delta_strings_decode.0:2', 'carquet_delta_strings_decode.1:2'],
         checks=CHK + ['--memory-leak-check'], **D8S),
    dict(name='c08_delta_strings_decode_oom', entry='h_delta_strings_decode', enforce='carquet_delta_strings_decode',
         replace=['carquet_delta_decode_int32'], level='bounded', bound='num_values <= 3 strings (all bytes, all sizes)',
         defines=['CQV_NMAX=3', 'CQV_OOM=1'], unwindset=['carquet_delta_strings_decode.0:4', 'carquet_delta_strings_decode.1:4'],
         tier='thorough', checks=CHK + ['--memory-leak-check'], cbmc_flags=['--malloc-may-fail', '--malloc-fail-null'], **D8S),
]
