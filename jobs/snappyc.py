# Snappy compressor (C09 bounds, C10 emitted format) and gzip/zstd wrappers (C08/C09)
SC9 = dict(overlays=['contracts/snappy_comp.ovl'], harness='harness/C09/snappy.c')
OWNMEM = 'harness/C09/snappy.c (CQV_OWN_MEM): memcpy/memset contracts as in stubs/mem_stubs.c, whole-object memset havocs the object in one step'
SC10 = dict(overlays=['contracts/snappy_comp.ovl'], harness='harness/C10/snappy.c')
SPEC = 'specs/snappy_spec.h: element/preamble parser written from the Snappy format description'

CS_ASSIGNS = r'\.assigns\.'
CS_DEREF = r'\.pointer_dereference\.|\.pointer_primitives\.|\.array_bounds\.'
CS_LOOPS = r'loop invariant|decreases clause|loop instrumentation'
CS_CONTRACT = r'\.postcondition\.|\.assertion\.|\.precondition\.'

JOBS = [
    dict(name='c09_snappy_write_varint', prop='C09', entry='h_c09_write_varint', enforce='snappy_write_varint',
         unwindset=['snappy_write_varint.0:6'], wip=False, **SC9),
    dict(name='c09_snappy_emit_literal', prop='C09', entry='h_c09_emit_literal', enforce='snappy_emit_literal',
         wip=False, **SC9),
    # exact-cost contract of the chunk-splitting loop: MiniSat does not finish in 10 min, CaDiCaL needs ~5 min
    dict(name='c09_snappy_emit_copy', prop='C09', entry='h_c09_emit_copy', enforce='snappy_emit_copy',
         min_loop_obligations=1, backend='cadical', tier='thorough', timeout=1500, est_s=400, wip=False,
         replayer=dict(kind='direct', harness='replay/direct/snappy_emit.c', sources=[], vars={'offset': 'offset', 'len': 'len'}),
         **SC9),
    dict(name='c09_snappy_bound', prop='C09', entry='h_c09_bound', enforce='carquet_snappy_compress_bound',
         wip=False, **SC9),
    dict(name='c09_snappy_bound_lemma', prop='C09', entry='h_c09_bound_lemma', loop_contracts=False,
         functions=['carquet_snappy_compress_bound'], wip=False, **SC9),
    # carquet_snappy_compress: one contract, obligations split over slices (select=); --arrays-uf-always keeps the
    # 16384-entry hash table out of the bit-level encoding (flattened it costs 3-5 M variables per query)
] + [
    dict(name='c09_snappy_compress_' + nm, props=['C09', 'C10'], entry='h_c09_compress', enforce='carquet_snappy_compress',
         replace=['carquet_snappy_compress_bound', 'snappy_write_varint', 'snappy_emit_literal', 'snappy_emit_copy'],
         select=sel, min_loop_obligations=mlo, est_s=600, timeout=3000, mem_gb=mem,
         # the contract slice (ensures, in-function assertions, callee preconditions: e.g. every emitted copy has an
         # offset the format can hold) runs on every change; the other four slices are thorough-tier
         tier='quick' if nm == 'contract' else 'thorough',
         backend=['cadical', 'sat'], cbmc_flags=['--arrays-uf-always'], wip=False,
         replayer=dict(kind='fuzz', harness='replay/fz/snappy_compress.c', sources=['src/compression/snappy.c'], max_len=64, secs=20),
         defines=['CQV_OWN_MEM=1'], extra_sources=[], trusted=[OWNMEM], **SC9)
    for nm, sel, mlo, mem in [
        ('assigns', CS_ASSIGNS, 0, 12),
        ('deref', CS_DEREF, 0, 12),
        ('loops', CS_LOOPS, 2, 24),
        ('contract', CS_CONTRACT, 0, 24),
        ('rest', r'^(?!.*(' + '|'.join([CS_ASSIGNS, CS_DEREF, CS_LOOPS, CS_CONTRACT]) + r'))', 0, 12),
    ]
] + [
    # input classes that return before / without the main loop, same contract, all obligations
    dict(name='c09_snappy_compress_tiny', props=['C09', 'C10'], entry='h_c09_compress_tiny', enforce='carquet_snappy_compress',
         replace=['carquet_snappy_compress_bound', 'snappy_write_varint', 'snappy_emit_literal', 'snappy_emit_copy'],
         level='bounded', bound='src_size < 15 (single-literal path; every capacity, every pointer combination)',
         replayer=dict(kind='fuzz', harness='replay/fz/snappy_compress.c', sources=['src/compression/snappy.c'], max_len=64, secs=20),
         cbmc_flags=['--arrays-uf-always'], backend=['cadical', 'sat'], est_s=120, timeout=900, wip=False,
         defines=['CQV_OWN_MEM=1', 'CQV_CLASS=1'], extra_sources=[], trusted=[OWNMEM], **SC9),
    # lengths the 32-bit preamble cannot represent are refused (postcondition.1 = first ensures of the overlay), and
    # dst is not written (conditional assigns clause): input class src_size > 2^32-1
    dict(name='c09_snappy_compress_len32', props=['C09', 'C10'], entry='h_c09_compress_oversize', enforce='carquet_snappy_compress',
         replace=['carquet_snappy_compress_bound', 'snappy_write_varint', 'snappy_emit_literal', 'snappy_emit_copy'],
         select=r'carquet_snappy_compress\.postcondition\.1 |representable in the 32-bit preamble',
         cbmc_flags=['--arrays-uf-always'], est_s=60, timeout=600, wip=False,
         note='was FINDING (src_size >= 2^32 accepted, truncated preamble); fixed upstream by ee97737',
         defines=['CQV_OWN_MEM=1', 'CQV_CLASS=2'], extra_sources=[], trusted=[OWNMEM], **SC9),
    dict(name='c09_snappy_compress_len32_nowrite', props=['C09', 'C10'], entry='h_c09_compress_oversize', enforce='carquet_snappy_compress',
         replace=['carquet_snappy_compress_bound', 'snappy_write_varint', 'snappy_emit_literal', 'snappy_emit_copy'],
         select=r'\.assigns\.',
         cbmc_flags=['--arrays-uf-always'], est_s=60, timeout=600, wip=False,
         note='frame checks (conditional assigns clause) for the input class src_size > 2^32-1: dst is not written',
         defines=['CQV_OWN_MEM=1', 'CQV_CLASS=2'], extra_sources=[], trusted=[OWNMEM], **SC9),
]
JOBS += [
    dict(name='c10_snappy_varint', prop='C10', entry='h_c10_varint', loop_contracts=False, unwind=6,
         functions=['snappy_write_varint'], trusted=[SPEC], wip=False, **SC10),
    dict(name='c10_snappy_emit_literal', prop='C10', entry='h_c10_emit_literal', loop_contracts=False,
         functions=['snappy_emit_literal'], trusted=[SPEC], wip=False, **SC10),
    dict(name='c10_snappy_emit_copy', prop='C10', entry='h_c10_emit_copy', enforce='snappy_emit_copy',
         min_loop_obligations=1, trusted=[SPEC], backend='cadical', tier='thorough', timeout=1500, est_s=400, wip=False,
         replayer=dict(kind='direct', harness='replay/direct/snappy_emit.c', sources=[], vars={'offset': 'offset', 'len': 'len'}),
         **SC10),
]

ZL = 'stubs/zlib_stubs.c: zlib inflate*/deflate*/compressBound as assumed contracts (<= avail_in consumed, <= avail_out written, Z_STREAM_END under deflate only when all input consumed)'
ZS = 'stubs/zstd_stubs.c: libzstd one-shot functions as assumed contracts (result is an error code or <= dstCapacity), ZSTD_maxCLevel() == 22'
GZ = dict(overlays=['contracts/gzip.ovl'], harness='harness/C08/zwrap.c', defines=['CQV_ZWRAP=1'], loop_contracts=False,
          extra_sources=['stubs/mem_stubs.c', 'stubs/zlib_stubs.c'], trusted=[ZL])
ZST = dict(overlays=['contracts/zstd.ovl'], harness='harness/C08/zwrap.c', defines=['CQV_ZWRAP=2'], loop_contracts=False,
           extra_sources=['stubs/mem_stubs.c', 'stubs/zstd_stubs.c'], trusted=[ZS])
JOBS += [
    dict(name='c08_gzip_decompress', props=['C08', 'C09'], entry='h_gzip_decompress', enforce='carquet_gzip_decompress', wip=False, **GZ),
    dict(name='c09_gzip_compress', prop='C09', entry='h_gzip_compress', enforce='carquet_gzip_compress', wip=False, **GZ),
    dict(name='c09_gzip_compress_whole_input', prop='C09', entry='h_gzip_compress', enforce='carquet_gzip_compress', wip=False,
         note='was FINDING ((uInt) truncation of sizes >= 2^32); fixed upstream by 6a1a675; fails again with that commit reverted',
         **dict(GZ, defines=['CQV_ZWRAP=1', 'CQV_WHOLE_INPUT=1'])),
    dict(name='c09_gzip_decompress_whole_input', prop='C09', entry='h_gzip_decompress', enforce='carquet_gzip_decompress', wip=False,
         note='was FINDING ((uInt) truncation of sizes >= 2^32); fixed upstream by 6a1a675; fails again with that commit reverted',
         **dict(GZ, defines=['CQV_ZWRAP=1', 'CQV_WHOLE_INPUT=1'])),
    dict(name='c09_gzip_bound', prop='C09', entry='h_gzip_bound', enforce='carquet_gzip_compress_bound', wip=False, **GZ),
    dict(name='c08_zstd_decompress', props=['C08', 'C09'], entry='h_zstd_decompress', enforce='carquet_zstd_decompress', wip=False, **ZST),
    dict(name='c09_zstd_compress', prop='C09', entry='h_zstd_compress', enforce='carquet_zstd_compress', wip=False, **ZST),
]
