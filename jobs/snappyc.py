# Snappy compressor (C09 bounds, C10 emitted format) and gzip/zstd wrappers (C08/C09)
SC9 = dict(overlays=['contracts/snappy_comp.ovl'], harness='harness/C09/snappy.c')
SC10 = dict(overlays=['contracts/snappy_comp.ovl'], harness='harness/C10/snappy.c')
SPEC = 'specs/snappy_spec.h: element/preamble parser written from the Snappy format description'

JOBS = [
    dict(name='c09_snappy_write_varint', prop='C09', entry='h_c09_write_varint', enforce='snappy_write_varint',
         unwindset=['snappy_write_varint.0:6'], wip=True, **SC9),
    dict(name='c09_snappy_emit_literal', prop='C09', entry='h_c09_emit_literal', enforce='snappy_emit_literal',
         wip=True, **SC9),
    dict(name='c09_snappy_emit_copy', prop='C09', entry='h_c09_emit_copy', enforce='snappy_emit_copy',
         min_loop_obligations=1, timeout=150, wip=True, **SC9),
    dict(name='c09_snappy_bound', prop='C09', entry='h_c09_bound', enforce='carquet_snappy_compress_bound',
         wip=True, **SC9),
    dict(name='c09_snappy_bound_lemma', prop='C09', entry='h_c09_bound_lemma', loop_contracts=False,
         functions=['carquet_snappy_compress_bound'], wip=True, **SC9),
    dict(name='c09_snappy_compress', props=['C09', 'C10'], entry='h_c09_compress', enforce='carquet_snappy_compress',
         replace=['carquet_snappy_compress_bound', 'snappy_write_varint', 'snappy_emit_literal', 'snappy_emit_copy'],
         min_loop_obligations=2, est_s=120, wip=True, **SC9),
    dict(name='c10_snappy_varint', prop='C10', entry='h_c10_varint', loop_contracts=False, unwind=6,
         functions=['snappy_write_varint'], trusted=[SPEC], wip=True, **SC10),
    dict(name='c10_snappy_emit_literal', prop='C10', entry='h_c10_emit_literal', loop_contracts=False,
         functions=['snappy_emit_literal'], trusted=[SPEC], wip=True, **SC10),
    dict(name='c10_snappy_emit_copy', prop='C10', entry='h_c10_emit_copy', enforce='snappy_emit_copy',
         min_loop_obligations=1, trusted=[SPEC], wip=True, **SC10),
]
