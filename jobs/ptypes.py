# Family "ptypes": Parquet Thrift structures (parse_* / write_* of src/thrift/parquet_types.c)
# C08 / C19: parser safety with the Thrift primitives and the arena replaced by ASSUMED contracts (stubs/ptypes_stubs.c)
# C13     : writer conformance against parquet.thrift (specs/parquet_thrift_table.h) by checking stub bodies
R_STUBS = ['thrift_decoder_init', 'thrift_read_byte', 'thrift_read_i16', 'thrift_read_i32', 'thrift_read_i64',
           'thrift_read_bool', 'thrift_read_binary', 'thrift_read_struct_begin', 'thrift_read_struct_end',
           'thrift_read_field_begin', 'thrift_read_list_begin', 'thrift_skip']
A_STUBS = ['carquet_arena_calloc', 'carquet_arena_strdup', 'carquet_arena_strndup', 'carquet_arena_memdup']
TRUST_R = ['stubs/ptypes_stubs.c: ASSUMED contracts for thrift_read_*/thrift_skip/thrift_decoder_init (cursor monotone and within '
           '[0,size], sticky error status, field_begin consumes >= 1 byte or returns false, list count <= remaining), '
           'carquet_arena_calloc/strdup/strndup/memdup (NULL or fresh object), snprintf, carquet_error_set']
# the VALIDATE_COUNT / VALIDATE_COUNT_STATUS macros are do { } while (0): goto-cc keeps them as loops; unwound once
DO_WHILE_0 = ['parquet_parse_file_metadata.0:1', 'parquet_parse_file_metadata.2:1', 'parquet_parse_file_metadata.4:1',
              'parse_column_metadata.0:1', 'parse_column_metadata.2:1', 'parse_column_metadata.4:1',
              'parse_column_metadata.7:1', 'parse_row_group.0:1']
P = dict(overlays=['contracts/ptypes.ovl'], includes=['.'], unwindset=DO_WHILE_0,
         extra_sources=['stubs/mem_stubs.c', 'stubs/ptypes_stubs.c'], trusted=TRUST_R)
FZ_PH = dict(kind='fuzz', harness='replay/fz/ptypes_page_header.c', max_len=64, secs=20,
             sources=['src/thrift/parquet_types.c', 'src/thrift/thrift_decode.c', 'src/thrift/thrift_encode.c',
                      'src/core/arena.c', 'src/core/buffer.c', 'src/core/error.c'])
FZ_FM = dict(FZ_PH, harness='replay/fz/ptypes_file_metadata.c', max_len=256, secs=30)

# state of each job: (C08 wip, C19 wip, tier, note)
DONE = False
OPEN = True


def parse_jobs(fn, entry, callees=(), loops=1, est=60, c08_wip=OPEN, c19_wip=OPEN, tier='quick', note08=None, note19=None, **kw):
    """one C08 job (fault-free allocation: -DCQV_ALLOC_NEVER_FAILS) and one C19 job (every arena request may fail) per parser"""
    arena_bodies = kw.pop('arena_bodies', False)   # arena as malloc bodies instead of is_fresh contracts (list fill loops)
    rep = R_STUBS + ([] if arena_bodies else A_STUBS) + list(callees)
    xd = ['CQV_PT_ARENA_BODIES=1'] if arena_bodies else []
    base = dict(entry=entry, enforce=fn, replace=rep, min_loop_obligations=loops, est_s=est, tier=tier, **P)
    if arena_bodies:
        base['object_bits'] = 12
    base.update(kw)
    a = dict(name='c08_' + fn, prop='C08', harness='harness/C08/ptypes.c',
             defines=['CQV_ALLOC_NEVER_FAILS=1', 'CQV_FN_%s=1' % fn] + xd, wip=c08_wip, **base)
    b = dict(name='c19_' + fn, prop='C19', harness='harness/C19/ptypes.c', defines=['CQV_FN_%s=1' % fn] + xd, wip=c19_wip, **base)
    if note08:
        a['note'] = note08
    if note19:
        b['note'] = note19
    return [a, b]


N19 = ('was a FINDING (arena results never checked: NULL member with status OK, NULL dereference in the fill loops); repaired '
       'upstream by 9cf8d8b; the job fails again on a scratch copy with that commit reverted')
ARR = ('list fill loops: arena modelled by malloc BODIES (-DCQV_PT_ARENA_BODIES); with the is_fresh CONTRACT for '
       'carquet_arena_calloc symbolic execution did not finish in 600 s')
JOBS = []
JOBS += parse_jobs('parse_statistics', 'h_parse_statistics', est=90, c08_wip=DONE, c19_wip=DONE, note19=N19)
JOBS += parse_jobs('parse_logical_type', 'h_parse_logical_type', loops=7, est=420, tier='thorough', timeout=1200, c08_wip=DONE,
                   note19='no allocation in this function: same obligations as c08_parse_logical_type (7 min); not run separately')
JOBS += parse_jobs('parse_schema_element', 'h_parse_schema_element', callees=['parse_logical_type'], c08_wip=DONE, c19_wip=DONE, note19=N19)
JOBS += parse_jobs('parse_column_metadata', 'h_parse_column_metadata', callees=['parse_statistics'], loops=7, est=600, arena_bodies=True,
                   tier='thorough', timeout=1500, c08_wip=DONE, c19_wip=DONE, note08=ARR, note19=N19)
JOBS += parse_jobs('parse_column_chunk', 'h_parse_column_chunk', callees=['parse_column_metadata'], c08_wip=DONE, c19_wip=DONE, note19=N19)
JOBS += parse_jobs('parse_row_group', 'h_parse_row_group', callees=['parse_column_chunk'], loops=2, tier='quick', est=60, arena_bodies=True,
                   c08_wip=DONE, c19_wip=DONE, note08=ARR, note19=N19)
JOBS += parse_jobs('parquet_parse_file_metadata', 'h_parse_file_metadata', callees=['parse_schema_element', 'parse_row_group'], arena_bodies=True,
                   loops=5, est=200, tier='thorough', replayer=FZ_FM, c08_wip=DONE, c19_wip=DONE, note08=ARR, note19=N19)
JOBS += parse_jobs('parquet_parse_page_header', 'h_parse_page_header', loops=4, est=160, replayer=FZ_PH, c08_wip=DONE, c19_wip=DONE)

# ---- C13 writer conformance: thrift_write_* are checking bodies (-DCQV_PT_WRITER); pointer checks off -------------
TRUST_W = ['stubs/ptypes_stubs.c (-DCQV_PT_WRITER): thrift_write_* replaced by bodies that keep a ghost stack of open structs and '
           'assert specs/parquet_thrift_table.h (written from parquet.thrift); buffer effects of the encoder not modelled '
           '(status may become an error at any primitive)',
           'metadata trees are well formed: list counts >= 0, logical-type ids are enumerators, arrays hold count elements '
           '(contract preconditions; for list elements assumed element-wise via CQV_WF_ASSUME in the overlay)']
W = dict(prop='C13', overlays=['contracts/ptypes.ovl'], includes=['.'], harness='harness/C13/ptypes.c',
         extra_sources=['stubs/mem_stubs.c', 'stubs/ptypes_stubs.c'], trusted=TRUST_W, checks=['--bounds-check'], object_bits=12,
         # validity of the metadata arrays is not a C13 obligation (reported, not counted)
         soft=[r'^dereference failure', r' in R_OK\('],
         unwind=13)  # the only unwound loop: ghost-state havoc in the harness (12 records)


def writer_job(fn, entry, callees=(), loops=0, wip=OPEN, **kw):
    d = dict(name='c13_' + fn, entry=entry, enforce=fn, replace=list(callees), min_loop_obligations=loops,
             defines=['CQV_PT_WRITER=1', 'CQV_FN_%s=1' % fn], loop_contracts=True, wip=wip, est_s=90, **W)
    d.update(kw)
    return d


JOBS += [
    writer_job('write_statistics', 'h_write_statistics', wip=DONE),
    writer_job('write_logical_type', 'h_write_logical_type', wip=DONE, est_s=120),
    writer_job('write_schema_element', 'h_write_schema_element', callees=['write_logical_type'], wip=DONE,
               note='was a FINDING (required field 4 "name" omitted for a NULL name); repaired upstream by 76037b5; fails again '
                    'with that commit reverted'),
    writer_job('write_schema_element', 'h_write_schema_element', callees=['write_logical_type'], name='c13_write_schema_element_named',
               defines=['CQV_PT_WRITER=1', 'CQV_FN_write_schema_element=1', 'CQV_SE_NAMED=1'], wip=DONE),
    writer_job('write_column_metadata', 'h_write_column_metadata', callees=['write_statistics'], loops=2, wip=DONE),
    writer_job('write_column_chunk', 'h_write_column_chunk', callees=['write_column_metadata'], wip=DONE),
    writer_job('write_row_group', 'h_write_row_group', callees=['write_column_chunk'], loops=1, wip=DONE, est_s=180),
    writer_job('parquet_write_file_metadata', 'h_write_file_metadata', callees=['write_schema_element', 'write_row_group'], loops=3,
               wip=DONE, est_s=30),
    writer_job('parquet_write_page_header', 'h_write_page_header', callees=['write_statistics'], wip=DONE),
]

# ---- C13 parser dispatch lemma / C17 logical-type ids: reader BODIES serving one ghost field (-DCQV_PT_RLOG) ------
TRUST_D = ['stubs/ptypes_stubs.c (-DCQV_PT_RLOG): thrift_read_* replaced by bodies that serve one arbitrary first field '
           '(wire type, id), report every nested struct as empty, and count reader calls; arena as in the C08 jobs']
D = dict(overlays=['contracts/ptypes.ovl'], includes=['.'], harness='harness/C13/ptypes.c', loop_contracts=False,
         extra_sources=['stubs/mem_stubs.c', 'stubs/ptypes_stubs.c'], trusted=TRUST_D,
         defines=['CQV_PT_RLOG=1', 'CQV_PT_ARENA_BODIES=1', 'CQV_ALLOC_NEVER_FAILS=1'], unwind=4, object_bits=12,
         level='bounded', bound='first field of the struct arbitrary (every id, every wire type); nested structs empty; list length <= 2',
         est_s=60, wip=True)


def disp_job(fn, entry, props=('C13',), **kw):
    d = dict(name='c13_disp_' + fn, props=list(props), entry=entry, functions=[fn], **D)
    d.update(kw)
    return d


JOBS += [
    # memset(lt, 0, 12) must keep its zeroes (unknown tag => UNKNOWN): exact byte-wise memset, 16-iteration loop unwound
    disp_job('parse_logical_type', 'h_disp_logical_type', props=('C13', 'C17'), name='c13_parse_logical_type_ids',
             defines=['CQV_PT_RLOG=1', 'CQV_PT_ARENA_BODIES=1', 'CQV_ALLOC_NEVER_FAILS=1', 'CQV_MEMSET_EXACT=16'],
             unwindset=['memset.0:17'], wip=False, est_s=10),
    disp_job('parse_statistics', 'h_disp_statistics', wip=False, est_s=10),
    disp_job('parse_schema_element', 'h_disp_schema_element', wip=False, est_s=30),
    disp_job('parse_column_metadata', 'h_disp_column_metadata', wip=False, est_s=60),
    disp_job('parse_column_chunk', 'h_disp_column_chunk', wip=False, tier='thorough', est_s=300),
    disp_job('parse_row_group', 'h_disp_row_group', tier='thorough',
             note='UNDECIDED: with parse_column_chunk/parse_column_metadata inlined for 2 list elements the run exceeds 600 s'),
    disp_job('parquet_parse_file_metadata', 'h_disp_file_metadata', tier='thorough',
             note='UNDECIDED: not run to completion (same reason as c13_disp_parse_row_group)'),
    disp_job('parquet_parse_page_header', 'h_disp_page_header', wip=False, est_s=40),
]

# ---- C13/C14 field semantics: what the output struct holds for one ghost field with ghost value (exact memset) -------
def sem_job(fn, entry, size, props=('C13',), **kw):
    d = disp_job(fn, entry, props=props, name='c13_sem_' + fn,
                 defines=['CQV_PT_RLOG=1', 'CQV_PT_ARENA_BODIES=1', 'CQV_ALLOC_NEVER_FAILS=1', 'CQV_MEMSET_EXACT=%d' % size],
                 unwindset=['memset.0:%d' % (size + 1)],
                 bound='struct with no field or exactly one field (arbitrary id and wire type, arbitrary value); nested structs empty',
                 wip=False, est_s=20)
    d.update(kw)
    return d


JOBS += [
    sem_job('parquet_parse_page_header', 'h_sem_page_header', 144, props=('C13', 'C14')),
    sem_job('parse_statistics', 'h_sem_statistics', 88, props=('C13', 'C16')),   # C16: min/max/null_count reach the reader from the Thrift field the format assigns them
    sem_job('parse_schema_element', 'h_sem_schema_element', 80, props=('C13', 'C17')),   # C17: element accessors return what the file states
]
