# Family "ptypes": Parquet Thrift structures (parse_* / write_* of src/thrift/parquet_types.c)
R_STUBS = ['thrift_decoder_init', 'thrift_read_byte', 'thrift_read_i16', 'thrift_read_i32', 'thrift_read_i64',
           'thrift_read_bool', 'thrift_read_binary', 'thrift_read_struct_begin', 'thrift_read_struct_end',
           'thrift_read_field_begin', 'thrift_read_list_begin', 'thrift_skip']
A_STUBS = ['carquet_arena_calloc', 'carquet_arena_strdup', 'carquet_arena_strndup', 'carquet_arena_memdup']
TRUST_R = ['stubs/ptypes_stubs.c: ASSUMED contracts for thrift_read_*/thrift_skip/thrift_decoder_init (cursor monotone and within '
           '[0,size], sticky error status, field_begin consumes >= 1 byte or returns false, list count <= remaining), '
           'carquet_arena_calloc/strdup/strndup/memdup (NULL or fresh object), snprintf, carquet_error_set']
# the VALIDATE_COUNT / VALIDATE_COUNT_STATUS macros are do { } while (0): goto-cc keeps them as loops; unwound once
DO_WHILE_0 = ['parquet_parse_file_metadata.0:1', 'parquet_parse_file_metadata.2:1', 'parquet_parse_file_metadata.4:1',
              'parse_column_metadata.0:1', 'parse_column_metadata.2:1', 'parse_column_metadata.4:1',
              'parse_column_metadata.7:1', 'parse_row_group.0:1']
P = dict(overlays=['contracts/ptypes.ovl'], includes=['.'], unwindset=DO_WHILE_0,
         extra_sources=['stubs/mem_stubs.c', 'stubs/ptypes_stubs.c'], trusted=TRUST_R)


def parse_jobs(fn, entry, callees=(), loops=1, est=20, **kw):
    """one C08 job (fault-free allocation) and one C19 job (every arena request may fail) per parser"""
    rep = R_STUBS + A_STUBS + list(callees)
    base = dict(entry=entry, enforce=fn, replace=rep, min_loop_obligations=loops, est_s=est, **P)
    base.update(kw)
    return [
        dict(name='c08_' + fn, prop='C08', harness='harness/C08/ptypes.py'.replace('.py', '.c'),
             defines=['CQV_ALLOC_NEVER_FAILS=1', 'CQV_FN_%s=1' % fn], wip=True, **base),
        dict(name='c19_' + fn, prop='C19', harness='harness/C19/ptypes.c', defines=['CQV_FN_%s=1' % fn], wip=True, **base),
    ]


JOBS = []
JOBS += parse_jobs('parse_statistics', 'h_parse_statistics')
JOBS += parse_jobs('parse_logical_type', 'h_parse_logical_type', loops=7)
JOBS += parse_jobs('parse_schema_element', 'h_parse_schema_element', callees=['parse_logical_type'])
JOBS += parse_jobs('parse_column_metadata', 'h_parse_column_metadata', callees=['parse_statistics'], loops=7, est=60)
JOBS += parse_jobs('parse_column_chunk', 'h_parse_column_chunk', callees=['parse_column_metadata'])
JOBS += parse_jobs('parse_row_group', 'h_parse_row_group', callees=['parse_column_chunk'], loops=2)
JOBS += parse_jobs('parquet_parse_file_metadata', 'h_parse_file_metadata', callees=['parse_schema_element', 'parse_row_group'], loops=5, est=60)
JOBS += parse_jobs('parquet_parse_page_header', 'h_parse_page_header', loops=4, est=40)

# ---- C13 writer conformance: thrift_write_* are checking bodies (-DCQV_PT_WRITER); pointer checks off -------------
TRUST_W = ['stubs/ptypes_stubs.c (-DCQV_PT_WRITER): thrift_write_* replaced by bodies that keep a ghost stack of open structs and '
           'assert specs/parquet_thrift_table.h (written from parquet.thrift); buffer effects of the encoder not modelled '
           '(status may become an error at any primitive)']
W = dict(prop='C13', overlays=['contracts/ptypes.ovl'], includes=['.'], harness='harness/C13/ptypes.c',
         extra_sources=['stubs/mem_stubs.c', 'stubs/ptypes_stubs.c'], trusted=TRUST_W, checks=['--bounds-check'], object_bits=12,
         soft=[r'^dereference failure', r' in R_OK\('],  # validity of the metadata arrays is not a C13 obligation (reported, not counted)
         unwind=13)  # the only unwound loop: ghost-state havoc in the harness (12 records)


def writer_job(fn, entry, callees=(), loops=0, **kw):
    d = dict(name='c13_' + fn, entry=entry, enforce=fn, replace=list(callees), min_loop_obligations=loops,
             defines=['CQV_PT_WRITER=1', 'CQV_FN_%s=1' % fn], loop_contracts=True, wip=True, **W)
    d.update(kw)
    return d


JOBS += [
    writer_job('write_statistics', 'h_write_statistics'),
    writer_job('write_logical_type', 'h_write_logical_type'),
    writer_job('write_schema_element', 'h_write_schema_element', callees=['write_logical_type'],
               note='FINDING: required field 4 (name) is not written when elem->name == NULL'),
    writer_job('write_schema_element', 'h_write_schema_element', callees=['write_logical_type'], name='c13_write_schema_element_named',
               defines=['CQV_PT_WRITER=1', 'CQV_FN_write_schema_element=1', 'CQV_SE_NAMED=1']),
    writer_job('write_column_metadata', 'h_write_column_metadata', callees=['write_statistics'], loops=2),
    writer_job('write_column_chunk', 'h_write_column_chunk', callees=['write_column_metadata']),
    writer_job('write_row_group', 'h_write_row_group', callees=['write_column_chunk'], loops=1),
    writer_job('parquet_write_file_metadata', 'h_write_file_metadata', callees=['write_schema_element', 'write_row_group'], loops=3),
    writer_job('parquet_write_page_header', 'h_write_page_header', callees=['write_statistics']),
]
