# C08 — component decoders are safe on arbitrary bytes and respect capacities
SNAPPY = dict(overlays=['contracts/snappy.ovl'], harness='harness/C08/snappy.c')

JOBS = [
    dict(name='c08_snappy_read_varint', props=['C08', 'C10'], entry='h_snappy_read_varint',
         enforce='snappy_read_varint', min_loop_obligations=1, **SNAPPY),
    dict(name='c08_snappy_decompress', props=['C08', 'C09', 'C10'], entry='h_snappy_decompress',   # C10: every read of an element header stays inside the input = truncated elements are refused
        
         enforce='carquet_snappy_decompress', replace=['snappy_read_varint'],
         min_loop_obligations=5, est_s=60, mem_gb=16, replayer='snappy_decompress', **SNAPPY),
]
