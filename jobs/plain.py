# PLAIN, BYTE_STREAM_SPLIT and dictionary encodings (C08 safety, C11 round trip, C12 layout)
P08 = dict(overlays=['contracts/plain.ovl'], harness='harness/C08/plain.c', includes=['.'])

JOBS = []
for t, nloops in [('boolean', 2), ('int32', 0), ('int64', 0), ('int96', 1), ('float', 0), ('double', 0),
                  ('byte_array', 1)]:
    fn = 'carquet_decode_plain_' + ('fixed_byte_array' if t == 'fixed' else t)
    JOBS.append(dict(name='c08_plain_' + t, props=['C08', 'C12'], entry='h_plain_' + t, enforce=fn,
                     min_loop_obligations=nloops, timeout=240, wip=True, **P08))
JOBS.append(dict(name='c08_plain_fixed', props=['C08', 'C12'], entry='h_plain_fixed', harness='harness/C08/plain.c',
                 includes=['.'], loop_contracts=False, backend=['z3', 'sat'], timeout=240,
                 functions=['carquet_decode_plain_fixed_byte_array'], wip=True))
